"""Case generators (DESIGN §2.4). Every random choice comes from the ctx.rng passed in."""
import os, itertools
import numpy as np
from . import core

FAMILIES = ['missratio', 'concave', 'convex', 'plateau', 'collinear0', 'walk', 'vshape', 'elbows', 'steps', 'noisyline', 'zeros', 'ramp0']


def _xs(rng, n, gaps=(1, 2, 3, 4)):
    x = [rng.choice([0, 1, 2, 5])]
    for _ in range(n - 1):
        x.append(x[-1] + rng.choice(gaps))
    return x


def dyadic_curve(rng, n, family=None, scale_exp=None):
    """Curve with strictly increasing x and y >= 0; all coordinates k*2^-j with few bits."""
    family = family or rng.choice(FAMILIES)
    x = _xs(rng, n, gaps=(1,) if rng.random() < 0.3 else (1, 2, 3, 4))
    q = 2.0 ** -rng.choice([0, 1, 3, 6, 10])
    if family == 'missratio':
        y, cur = [], 1.0
        for _ in range(n):
            y.append(cur)
            if rng.random() < 0.6:
                cur = max(0.0, cur - rng.randrange(0, 200) / 1024.0 * cur)
            cur = round(cur * 1024) / 1024
    elif family in ('concave', 'convex'):
        s = sorted((rng.randrange(0, 64) for _ in range(n - 1)), reverse=(family == 'concave'))
        y = [0.0]
        for i, sl in enumerate(s):
            y.append(y[-1] + sl * q * (x[i + 1] - x[i]))
    elif family == 'plateau':
        y, cur = [], rng.randrange(1, 50) * q
        for _ in range(n):
            y.append(cur)
            if rng.random() < 0.25:
                cur = rng.randrange(0, 50) * q
    elif family == 'collinear0':
        # straight run that ends exactly at y = 0 (rounding noise at the far end), maybe a bump before
        m = rng.choice([1, 2, 3, 5, 7]) * rng.choice([1.0, 0.5, 0.25, 1 / 3, 0.1])
        y = [m * (x[-1] - xi) for xi in x]
        if n > 4 and rng.random() < 0.4:
            j = rng.randrange(1, n - 1)
            y[j] += rng.choice([1, 2]) * q
    elif family == 'walk':
        y, cur = [], rng.randrange(0, 40) * q
        for _ in range(n):
            y.append(cur)
            cur = max(0.0, cur + rng.randrange(-8, 9) * q)
    elif family == 'vshape':
        c = rng.randrange(1, max(2, n - 1))
        a, b = rng.randrange(1, 16) * q, rng.randrange(1, 16) * q
        y = [a * (x[c] - xi) if i <= c else b * (xi - x[c]) for i, xi in enumerate(x)]
    elif family == 'elbows':
        k = rng.randrange(1, 5)
        cuts = sorted(rng.sample(range(1, n - 1), min(k, max(1, n - 2)))) if n > 2 else []
        y, cur, sl = [], rng.randrange(0, 30) * q, rng.randrange(-8, 9) * q
        for i in range(n):
            y.append(cur)
            if i in cuts:
                sl = rng.randrange(-8, 9) * q
            if i + 1 < n:
                cur = cur + sl * (x[i + 1] - x[i])
        mn = min(y)
        y = [v - mn for v in y]
    elif family == 'steps':
        y, cur = [], rng.randrange(5, 60) * q
        for _ in range(n):
            y.append(cur)
            if rng.random() < 0.3:
                cur = max(0.0, cur - rng.randrange(1, 10) * q)
    elif family == 'ramp0':
        # a hinge followed by a straight ramp that reaches EXACTLY y = 0, non-dyadic slope and x offset:
        # the end-point line does not reproduce the zero bit-exactly, relative error metrics then see O(1) error
        k = min(n, rng.choice([3, 3, 4, 5]))
        step = rng.choice([0.1, 0.3, 1.0 / 3, 0.7, 1.1])
        x0 = rng.choice([0.0, 1.0, 10.0, 10.1])
        x = [x0 + step * i for i in range(n)]
        slope = rng.choice([1.11, 0.37, 2.0 / 3, 1.0 / 7, 3.3])
        tail = [slope * (k - 1 - i) * step for i in range(k)]
        head, cur = [], tail[0] + rng.choice([0.5, 1.3, 2.7])
        for _ in range(n - k):
            head.append(cur + rng.choice([0.0, 0.4, 1.9]))
            cur = head[-1] + rng.choice([0.2, 0.9])
        y = head[::-1] + tail
        x = x[:len(y)]
    elif family == 'zeros':
        # non-dyadic values with exact zeros: end-point lines that do not reproduce y = 0 bit-exactly
        den = rng.choice([3.0, 7.0, 10.0, 1.0])
        xs_ = rng.choice([1.0, 7.0, 0.1])
        x = [xi * xs_ for xi in x]
        y, cur = [], rng.randrange(5, 60) / den
        for _ in range(n):
            y.append(cur)
            r = rng.random()
            if r < 0.25:
                cur = 0.0
            elif r < 0.6:
                cur = rng.randrange(0, 60) / den
    else:  # noisyline
        m = rng.randrange(-6, 7) * q
        y = [m * (xi - x[0]) + rng.choice([0, 0, 0, 1, -1]) * q / 4 for xi in x]
        mn = min(y)
        y = [v - mn for v in y]
    if scale_exp is None:
        pts = np.array([[float(a), float(b)] for a, b in zip(x, y)], dtype=float)
        pts, tag = variant(rng, pts)
        return pts, family + tag
    sc = 2.0 ** scale_exp
    pts = np.array([[float(a), float(b) * sc] for a, b in zip(x, y)], dtype=float)
    return pts, family


def variant(rng, pts, p=0.28, kinds=('y', 'y', 'y', 'xoff', 'xtiny', 'xytiny', 'xhuge')):
    """Magnitude variants of a curve by exact power-of-two scalings / an exactly representable x offset. Returns (points, family suffix)."""
    if rng.random() >= p:
        return pts, ''
    kind = rng.choice(list(kinds))
    pts = np.array(pts, dtype=float)
    if kind == 'y':
        e = rng.choice([-20, 20, 40, -55, -60])
        pts[:, 1] *= 2.0 ** e
        return pts, '@y2^%d' % e
    if kind == 'xoff':
        pts[:, 0] += 2.0 ** 40            # epoch-millisecond style abscissae: exactly representable, tiny relative spacing
    elif kind == 'xtiny':
        pts[:, 0] *= 2.0 ** -40
    elif kind == 'xhuge':
        pts[:, 0] *= 2.0 ** 30
    else:
        pts *= 2.0 ** -40
    return pts, '@' + kind


MAG_KINDS = ('xytiny30', 'xtiny30', 'ytiny30', 'xoff30', 'yoff30', 'xyoff30', 'xoff50', 'xyhuge30')


def magnitude_of(kind, arr):
    """apply the named magnitude variant to an (m, 2) array of points of the same curve (e.g. expected knee positions)"""
    q = np.array(arr, dtype=float)
    if kind == 'xytiny30':
        q *= 2.0 ** -30
    elif kind == 'xtiny30':
        q[:, 0] *= 2.0 ** -30
    elif kind == 'ytiny30':
        q[:, 1] *= 2.0 ** -30
    elif kind == 'xoff30':
        q[:, 0] += 2.0 ** 30
    elif kind == 'yoff30':
        q[:, 1] += 2.0 ** 30
    elif kind == 'xyoff30':
        q += 2.0 ** 30
    elif kind == 'xoff50':
        q[:, 0] += 2.0 ** 50
    elif kind == 'xyhuge30':
        q *= 2.0 ** 30
    return q


def magnitude(rng, pts, p=0.3, kinds=MAG_KINDS):
    """Scale / offset variants that keep every coordinate exactly representable (power-of-two factors, dyadic offsets):
    coordinates at ~1e-9 scale (absolute tolerances such as numpy's isclose/allclose atol=1e-8 misfire there), a large common
    offset with a small spread (relative tolerances and uncentred one-pass formulas misfire there: epoch timestamps, byte counters),
    ~1e9 scale.  The properties are statements about all finite curves; only the package's own documented eps guards depend on scale.
    Returns (points, suffix); the curve is returned unchanged when the transform would not keep x strictly increasing."""
    if rng.random() >= p:
        return pts, ''
    kind = rng.choice(list(kinds))
    q = np.array(pts, dtype=float)
    if kind == 'xytiny30':
        q *= 2.0 ** -30
    elif kind == 'xtiny30':
        q[:, 0] *= 2.0 ** -30
    elif kind == 'ytiny30':
        q[:, 1] *= 2.0 ** -30
    elif kind == 'xoff30':
        q[:, 0] += 2.0 ** 30
    elif kind == 'yoff30':
        q[:, 1] += 2.0 ** 30
    elif kind == 'xyoff30':
        q += 2.0 ** 30
    elif kind == 'xoff50':
        q[:, 0] += 2.0 ** 50
    elif kind == 'xyhuge30':
        q *= 2.0 ** 30
    if not np.all(np.isfinite(q)) or np.any(np.diff(q[:, 0]) <= 0):
        return pts, ''
    return q, '@' + kind


def near_ties(rng, pts, p=0.15):
    """perturb some heights by a few units in the last places (relative 2^-44 … 2^-40 < 1e-9): plateaus / repeated values become NEAR ties.
    '<=' and '<' on heights are exact comparisons in the properties; a tolerance (math.isclose, np.isclose) changes the answer here."""
    if rng.random() >= p:
        return pts, ''
    q = np.array(pts, dtype=float)
    for i in range(len(q)):
        if q[i, 1] > 0 and rng.random() < 0.4:
            q[i, 1] *= 1.0 + rng.choice([-2, -1, 1, 2, 3]) * 2.0 ** -rng.choice([40, 42, 44])
    return q, '@near-ties'


def float_curve(rng, n):
    x = np.cumsum([rng.uniform(0.01, 3.0) for _ in range(n)])
    kind = rng.choice(['exp', 'walk', 'pow'])
    if kind == 'exp':
        y = np.exp(-x / rng.uniform(0.5, 20)) + np.array([rng.uniform(0, 0.01) for _ in range(n)])
    elif kind == 'pow':
        y = 1.0 / (1.0 + x) ** rng.uniform(0.3, 3)
    else:
        y = np.abs(np.cumsum([rng.gauss(0, 1) for _ in range(n)]))
    return np.column_stack([x, y]).astype(float), 'float-' + kind


def exhaustive_small(nmax, gaps=(1, 2), ys=(0, 1, 2, 3)):
    for n in range(2, nmax + 1):
        for gs in itertools.product(gaps, repeat=n - 1):
            x = [0]
            for g in gs:
                x.append(x[-1] + g)
            for yv in itertools.product(ys, repeat=n):
                yield np.array([[float(a), float(b)] for a, b in zip(x, yv)])


_TRACES = None


def traces():
    """bundled traces (non-empty ones): full reduced trace + windows/decimations."""
    global _TRACES
    if _TRACES is None:
        _TRACES = {}
        td = os.path.join(core.REPO, 'traces')
        for fn in sorted(os.listdir(td)) if os.path.isdir(td) else []:
            p = os.path.join(td, fn)
            if fn.endswith('.csv') and os.path.getsize(p) > 0:
                try:
                    a = np.genfromtxt(p, delimiter=',')
                    if a.ndim == 2 and a.shape[1] == 2 and len(a) >= 4:
                        _TRACES[fn] = a
                except Exception:
                    pass
    return _TRACES


def trace_window(rng, nmax):
    tr = traces()
    if not tr:
        return None, None
    name = rng.choice(sorted(tr))
    a = tr[name]
    n = min(len(a), rng.randrange(8, nmax + 1))
    if rng.random() < 0.5 and len(a) > n:
        step = max(1, len(a) // n)
        w = a[::step][:n]
    else:
        s = rng.randrange(0, len(a) - n + 1)
        w = a[s:s + n]
    return np.array(w, dtype=float), 'trace-' + name


def strict_subsets_with_ends(n):
    """all subsets of {0..n-1} containing 0 and n-1 (n>=2)"""
    mid = list(range(1, n - 1))
    for r in range(len(mid) + 1):
        for c in itertools.combinations(mid, r):
            yield [0, *c, n - 1]


def random_subset_with_ends(rng, n, k=None):
    mid = list(range(1, n - 1))
    if k is None:
        k = rng.randrange(0, len(mid) + 1)
    return [0, *sorted(rng.sample(mid, min(k, len(mid)))), n - 1]


# ---- integer-dtype delivery -------------------------------------------------------------------------------------------------------------
def int_ok(pts):
    """may this curve be handed to the package as an int64 array?  Integral values, abscissae below 2^12 and heights below 2^46 (cache sizes /
    request counts against byte counts): every product of two coordinate differences that the package forms in the input's own dtype then stays
    below 2^62.  Beyond that domain (both axes >= 2^31) the pinned package itself wraps around in a dozen places (hull orientation test,
    curvature, perpendicular distance, ...): a documented limit of its integer support (DESIGN section 7), not the subject of any property."""
    a = np.asarray(pts, float)
    if a.ndim != 2 or a.shape[1] != 2 or not a.size or not np.all(np.isfinite(a)) or not np.all(a == np.floor(a)):
        return False
    return bool(np.max(np.abs(a[:, 0])) < 2 ** 12 and np.max(np.abs(a[:, 1])) < 2 ** 46)


def as_int(rng, pts, p=0.35):
    """(array for the REAL call, flag): the same curve as an int64 array with probability p when int_ok; oracles / references keep the float64 copy"""
    if int_ok(pts) and rng.random() < p:
        return np.asarray(pts).astype(np.int64), True
    return pts, False


def bytecount_of(pts):
    """the integral part of a curve as raw byte counts: heights floored and scaled by 2^33 (squares of height differences exceed 2^63: anything
    squared or multiplied in the input's own integer dtype wraps around), abscissae kept when they are small integers, else replaced by 0..n-1"""
    a = np.asarray(pts, float)
    x = a[:, 0] if (np.all(a[:, 0] == np.floor(a[:, 0])) and np.max(np.abs(a[:, 0])) < 2 ** 12 and np.all(np.diff(a[:, 0]) > 0)) else np.arange(len(a), dtype=float)
    y = a[:, 1] - np.min(a[:, 1])
    top = float(np.max(y)) or 1.0
    y = np.floor(y / top * 4095.0) * 2.0 ** 33
    return np.column_stack([x, y])

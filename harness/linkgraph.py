"""C20(b): translator from /repo/src/kneeliverse to a finite link table decided in Lean.

For every module of the package it extracts, with CPython's own `ast` and `symtable`:
  * name references: every name a scope loads that the compiler classifies as global (not local, not free),
    to be resolved against the module's top-level bindings or the builtins;
  * attribute references: every maximal `alias.a.b…` chain rooted at an imported module alias, to be resolved
    against `dir()` of the live objects (package modules and installed dependencies);
  * intra-package call sites (callee resolved through the alias chain to a function defined in the package)
    with their positional count and keyword names, to be checked against the callee's signature.
Names are interned to naturals; the table is written to lean/Knee/Generated/LinkTable.lean where
`decide +kernel` decides it (see Knee/Model/Link.lean for the checker and Knee/Props/C20.lean for the theorem)."""
import ast, builtins, importlib, inspect, json, os, symtable, sys
from . import core

PKG = 'kneeliverse'


def module_files():
    d = os.path.join(core.SRC, PKG)
    return sorted(f for f in os.listdir(d) if f.endswith('.py'))


class Interner:
    def __init__(self):
        self.ids = {}

    def __call__(self, s):
        if s not in self.ids:
            self.ids[s] = len(self.ids) + 1
        return self.ids[s]


def scope_tables(top):
    out = [top]
    for c in top.get_children():
        out += scope_tables(c)
    return out


def extract():
    core.import_repo()
    name_refs, attr_refs, calls, problems = [], [], [], []
    name_defs = {}
    for fn in module_files():
        modname = PKG + '.' + fn[:-3] if fn != '__init__.py' else PKG
        path = os.path.join(core.SRC, PKG, fn)
        src = open(path).read()
        tree = ast.parse(src, path)
        top = symtable.symtable(src, path, 'exec')
        defs = {s.get_name() for s in top.get_symbols() if s.is_assigned() or s.is_imported() or s.is_namespace()}
        name_defs[modname] = defs
        # import aliases at module level
        alias = {}
        for node in tree.body:
            if isinstance(node, ast.Import):
                for a in node.names:
                    alias[a.asname or a.name.split('.')[0]] = a.name if a.asname else a.name.split('.')[0]
            elif isinstance(node, ast.ImportFrom) and node.module:
                for a in node.names:
                    alias[a.asname or a.name] = node.module + ':' + a.name
        # ---- global name loads per scope
        for st in scope_tables(top):
            for s in st.get_symbols():
                if not s.is_referenced():
                    continue
                if st.get_type() == 'module':
                    unresolved_here = not (s.is_assigned() or s.is_imported() or s.is_namespace())
                else:
                    unresolved_here = s.is_global()
                if unresolved_here:
                    name_refs.append((modname, s.get_name(), f'{fn}:{st.get_name()}:{st.get_lineno()}'))
        # ---- attribute chains and call sites: need per-node scope info -> map function nodes to their symtables
        scopes = {}

        def index(st):
            scopes[(st.get_name(), st.get_lineno())] = st
            for c in st.get_children():
                index(c)
        index(top)

        def is_module_alias(name, stack):
            # innermost enclosing scope that knows the name decides
            for st in reversed(stack):
                try:
                    s = st.lookup(name)
                except KeyError:
                    continue
                if st.get_type() == 'module':
                    return name in alias
                if s.is_local() or s.is_parameter() or s.is_free():
                    return False
                if s.is_global():
                    return name in alias
            return name in alias

        def chain_of(node):
            parts = []
            while isinstance(node, ast.Attribute):
                parts.append(node.attr)
                node = node.value
            if isinstance(node, ast.Name):
                return node.id, list(reversed(parts))
            return None, None

        def resolve(base, parts, site):
            target = alias[base]
            try:
                if ':' in target:
                    m, a = target.split(':')
                    obj = getattr(importlib.import_module(m), a)
                    label = f'{m}.{a}'
                else:
                    obj = importlib.import_module(target)
                    label = target
            except Exception as e:
                problems.append((site, f'import {target}: {e!r}'))
                return None
            for p in parts:
                attr_refs.append((label, p, site))
                if not hasattr(obj, p):
                    return None
                obj = getattr(obj, p)
                label = label + '.' + p
            return obj

        def dispatch_tables(fnode):
            """local names bound exactly once, to a dict literal: `methods = {key: function, ...}` — the package's dispatch idiom"""
            counts, tables = {}, {}
            for n_ in ast.walk(fnode):
                if isinstance(n_, ast.Assign):
                    for t_ in n_.targets:
                        if isinstance(t_, ast.Name):
                            counts[t_.id] = counts.get(t_.id, 0) + 1
                            if isinstance(n_.value, ast.Dict):
                                tables[t_.id] = list(n_.value.values)
                elif isinstance(n_, (ast.AugAssign, ast.AnnAssign)) and isinstance(n_.target, ast.Name):
                    counts[n_.target.id] = counts.get(n_.target.id, 0) + 1
            return {k: v for k, v in tables.items() if counts.get(k) == 1}

        def obj_of(f, st_here, site):
            obj = None
            if isinstance(f, ast.Attribute):
                base, parts = chain_of(f)
                if base is not None and is_module_alias(base, st_here):
                    obj = resolve(base, parts, site)
            elif isinstance(f, ast.Name) and f.id in defs and not any(
                    (lambda s: s.is_local() or s.is_parameter() or s.is_free())(st.lookup(f.id))
                    for st in st_here[1:] if f.id in [x.get_name() for x in st.get_symbols()]):
                obj = getattr(sys.modules.get(modname), f.id, None)
                if f.id in alias and ':' in alias[f.id]:
                    m, a = alias[f.id].split(':')
                    obj = getattr(importlib.import_module(m), a, None)
            return obj

        def record_call(obj, node, site, st_here):
            pyf = getattr(obj, 'py_func', obj)
            if inspect.isfunction(pyf) and getattr(pyf, '__module__', '').startswith(PKG):
                if not any(isinstance(a, ast.Starred) for a in node.args) and not any(k.arg is None for k in node.keywords):
                    calls.append((f'{pyf.__module__}.{pyf.__qualname__}', len(node.args), sorted(k.arg for k in node.keywords), site, enclosing(st_here, modname)))

        def visit(node, stack, in_attr=False, disp=None):
            st_here = stack
            disp = disp or {}
            if isinstance(node, (ast.FunctionDef, ast.AsyncFunctionDef, ast.Lambda, ast.ClassDef)):
                nm = getattr(node, 'name', 'lambda')
                st = scopes.get((nm, node.lineno))
                if st is not None:
                    st_here = stack + [st]
                if isinstance(node, (ast.FunctionDef, ast.AsyncFunctionDef)):
                    disp = dispatch_tables(node)
            if isinstance(node, ast.Call):
                f = node.func
                site = f'{fn}:{node.lineno}'
                if isinstance(f, ast.Subscript) and isinstance(f.value, ast.Name) and f.value.id in disp:
                    # dict dispatch: the call must fit EVERY function the table can select
                    for v in disp[f.value.id]:
                        record_call(obj_of(v, st_here, site), node, site + f'[{f.value.id}]', st_here)
                else:
                    record_call(obj_of(f, st_here, site), node, site, st_here)
            if isinstance(node, ast.Attribute) and not in_attr:
                base, parts = chain_of(node)
                if base is not None and is_module_alias(base, st_here):
                    resolve(base, parts, f'{fn}:{node.lineno}')
                # do not re-visit the inner chain
                inner = node
                while isinstance(inner, ast.Attribute):
                    inner = inner.value
                visit(inner, st_here, False, disp)
                return
            for c in ast.iter_child_nodes(node):
                visit(c, st_here, False, disp)

        def enclosing(stack, modname):
            names = [s.get_name() for s in stack if s.get_type() == 'function']
            return modname + ('.' + '.'.join(names) if names else '')
        visit(tree, [top])
    return name_defs, name_refs, attr_refs, calls, problems


def sig_of(qual):
    mod, _, fn = qual.rpartition('.')
    obj = getattr(importlib.import_module(mod), fn)
    f = getattr(obj, 'py_func', obj)
    sg = inspect.signature(f)
    params, nreq, varpos, varkw, kwonly, kwreq = [], 0, False, False, [], []
    for p in sg.parameters.values():
        if p.kind in (p.POSITIONAL_ONLY, p.POSITIONAL_OR_KEYWORD):
            params.append(p.name)
            if p.default is p.empty:
                nreq = len(params)
        elif p.kind == p.VAR_POSITIONAL:
            varpos = True
        elif p.kind == p.VAR_KEYWORD:
            varkw = True
        else:
            kwonly.append(p.name)
            if p.default is p.empty:
                kwreq.append(p.name)
    return dict(params=params, nreq=nreq, varpos=varpos, varkw=varkw, kwonly=kwonly, kwreq=kwreq)


def call_ok(sig, npos, kws):
    if not sig['varpos'] and npos > len(sig['params']):
        return False
    rest = sig['params'][npos:]
    if any(not (sig['varkw'] or k in rest or k in sig['kwonly']) for k in kws):
        return False
    if any(not (i < npos or sig['params'][i] in kws) for i in range(sig['nreq'])):
        return False
    return all(k in kws for k in sig['kwreq'])


def build_table(known_sites=()):
    """returns (lean source, report dict). known_sites: call sites '<caller qualname>-><callee qualname>' listed as known findings."""
    name_defs, name_refs, attr_refs, calls, problems = extract()
    I = Interner()
    bi = set(dir(builtins))
    code = lambda m, n: I(m) * 100000 + I(n)
    ndefs = sorted({code(m, n) for m, ds in name_defs.items() for n in ds} | {code(m, n) for m in name_defs for n in bi})
    nrefs = sorted({code(m, n) for m, n, _ in name_refs})
    # attribute definitions: dir() of every object an attribute is asked of
    adefs = set()
    seen = set()
    for label, attr, _ in attr_refs:
        if label in seen:
            continue
        seen.add(label)
        parts = label.split('.')
        obj = None
        for i in range(len(parts), 0, -1):
            try:
                obj = importlib.import_module('.'.join(parts[:i]))
                for p in parts[i:]:
                    obj = getattr(obj, p)
                break
            except Exception:
                obj = None
        if obj is not None:
            for a in dir(obj):
                adefs.add(code(label, a))
    adefs = sorted(adefs)
    arefs = sorted({code(l, a) for l, a, _ in attr_refs})
    sigs, sig_ids = [], {}
    for callee in sorted({c[0] for c in calls}):
        s = sig_of(callee)
        sig_ids[callee] = s
        sigs.append((I(callee), [I(p) for p in s['params']], s['nreq'], s['varpos'], s['varkw'], [I(k) for k in s['kwonly']], [I(k) for k in s['kwreq']]))
    good, bad_known, report_calls = [], [], []
    for callee, npos, kws, site, caller in calls:
        entry = (I(callee), npos, [I(k) for k in kws])
        key = f'{caller}->{callee}'
        ok = call_ok(sig_ids[callee], npos, kws)
        report_calls.append(dict(site=site, caller=caller, callee=callee, npos=npos, kws=kws, ok=ok))
        (bad_known if key in known_sites else good).append(entry)

    def L(xs):
        return '[' + ', '.join(str(x) for x in xs) + ']'

    def B(b):
        return 'true' if b else 'false'
    lines = ['/- GENERATED by harness/linkgraph.py from /repo/src/kneeliverse on every C20 run. Do not edit. -/',
             'import Knee.Model.Link', 'set_option maxRecDepth 100000', 'namespace Knee.Generated', '',
             f'def nameDefs : List Nat := {L(ndefs)}', f'def nameRefs : List Nat := {L(nrefs)}',
             f'def attrDefs : List Nat := {L(adefs)}', f'def attrRefs : List Nat := {L(arefs)}',
             'def sigs : List Knee.Sig := [' + ', '.join(
                 f'⟨{c}, {L(ps)}, {nr}, {B(vp)}, {B(vk)}, {L(ko)}, {L(kr)}⟩' for c, ps, nr, vp, vk, ko, kr in sigs) + ']',
             'def calls : List Knee.CallSite := [' + ', '.join(f'⟨{c}, {n}, {L(k)}⟩' for c, n, k in good) + ']',
             'def knownBadCalls : List Knee.CallSite := [' + ', '.join(f'⟨{c}, {n}, {L(k)}⟩' for c, n, k in bad_known) + ']', '',
             '/-- every global name, every attribute of an imported module and every intra-package call signature used anywhere in the package resolves -/',
             'theorem all_resolve : Knee.linkOk nameRefs nameDefs attrRefs attrDefs sigs calls = true := by decide +kernel', '',
             '/-- the call sites listed as known findings really are arity errors (negation proved with the concrete witnesses) -/',
             'theorem known_bad_really_bad : knownBadCalls.all (fun c => !Knee.callOkIn sigs c) = true := by decide +kernel', '',
             'end Knee.Generated', '']
    inv = {v: k for k, v in I.ids.items()}
    decode = lambda c: (inv[c // 100000], inv[c % 100000])
    ndset, adset = set(ndefs), set(adefs)
    report = dict(
        unresolved_names=[dict(module=m, name=n, where=w) for m, n, w in name_refs if code(m, n) not in ndset],
        unresolved_attrs=[dict(object=l, attr=a, where=w) for l, a, w in attr_refs if code(l, a) not in adset],
        bad_calls=[c for c in report_calls if not c['ok']],
        problems=problems,
        counts=dict(name_refs=len(nrefs), name_defs=len(ndefs), attr_refs=len(arefs), attr_defs=len(adefs), call_sites=len(calls), signatures=len(sigs),
                    modules=len(name_defs)))
    return '\n'.join(lines), report

import sys, os, argparse, importlib
from . import core


def main():
    ap = argparse.ArgumentParser()
    ap.add_argument('prop')
    ap.add_argument('--tier', default=os.environ.get('VERIF_TIER', 'quick'), choices=['quick', 'thorough'])
    ap.add_argument('--replay', default=None)
    a = ap.parse_args()
    seed = int(os.environ.get('VERIF_SEED', '0') or 0)
    try:
        mod = importlib.import_module('harness.props.' + a.prop.lower())
    except ModuleNotFoundError as e:
        print('INFRA-ERROR no such property module', e)
        sys.exit(2)
    try:
        rc = core.run_property(mod, a.prop.upper(), a.tier, seed, a.replay)
    except core.InfraError as e:
        print('INFRA-ERROR', e)
        rc = 2
    sys.exit(rc)


main()

"""Child process of the C20 history-independence clause: evaluate a pickled list of (name, function, args, kwargs) in a FRESH
interpreter (package imported anew from KNEE_REPO/src, no earlier calls) and pickle the results back.
usage: python -m harness.fresh_eval <in.pkl> <out.pkl>"""
import sys, os, pickle, warnings


def main():
    from . import core
    core.import_repo()
    import numpy as np
    warnings.filterwarnings('ignore')
    np.seterr(all='ignore')
    with open(sys.argv[1], 'rb') as f:
        calls = pickle.load(f)
    out = []
    for name, fn, args, kwargs in calls:
        try:
            out.append(('ok', fn(*args, **kwargs)))
        except Exception as e:           # noqa
            out.append(('exc', repr(e)[:200]))
    with open(sys.argv[2], 'wb') as f:
        pickle.dump(out, f)


if __name__ == '__main__':
    main()

"""Shared runner for the simplifier family (C01, C04, C05, C06): real call (guarded), oracle bridge,
model call, exact comparison."""
import numpy as np
from . import core, gen

DISTS = ['shortest', 'perpendicular']
COSTS = ['r2', 'rmspe', 'rmsle', 'rpd', 'smape']
ORDERS = ['triangle', 'area', 'segment']


def tables():
    """harness-owned table: which public primitive stands for which enum member"""
    import kneeliverse.linear_fit as lf
    import kneeliverse.rdp as rdp
    import kneeliverse.metrics as metrics
    dist_fn = {'shortest': lf.shortest_distance_points, 'perpendicular': lf.perpendicular_distance_points}
    dist_enum = {'shortest': rdp.Distance.shortest, 'perpendicular': rdp.Distance.perpendicular}
    cost_fn = {'r2': lf.linear_r2_points, 'rmspe': lf.rmspe_points, 'rmsle': lf.rmsle_points,
               'rpd': lf.rpd_points, 'smape': lf.smape_points}
    cost_enum = {k: getattr(metrics.Metrics, k) for k in COSTS}
    order_enum = {k: getattr(rdp.Order, k) for k in ORDERS}
    return dist_fn, dist_enum, cost_fn, cost_enum, order_enum


def geo_dist(pt, kind):
    """Independent reference for the distance of every point of `pt` to the chord pt[0]-pt[-1] from the GEOMETRIC definition
    (closed segment for 'shortest', infinite line for 'perpendicular'), translated to pt[0] first so that it is at least as accurate as
    the package's expression. Returns (distances, noise): noise bounds the rounding error of the package's un-translated cross product."""
    pt = np.asarray(pt, float)
    a, b = pt[0], pt[-1]
    ab = b - a
    L = float(np.hypot(ab[0], ab[1]))
    q = pt - a
    M = float(np.max(np.abs(pt))) if len(pt) else 0.0
    if L == 0.0:
        return np.hypot(q[:, 0], q[:, 1]), 64 * np.finfo(float).eps * (M + 1e-300)
    cross = np.abs(ab[0] * q[:, 1] - ab[1] * q[:, 0]) / L
    if kind == 'perpendicular':
        d = cross
    else:
        tpar = (q[:, 0] * ab[0] + q[:, 1] * ab[1]) / (L * L)
        tc = np.clip(tpar, 0.0, 1.0)
        d = np.hypot(q[:, 0] - tc * ab[0], q[:, 1] - tc * ab[1])
    return d, 64 * np.finfo(float).eps * (M * M / L + M)


def geo_score(pts, a, b, kind, order):
    """ordering score of the retained segment [a..b] from the geometric definition (triangle: half base x height of the farthest
    point; area: sum of the distances); returns (score, noise) or None for the residual order"""
    pt = np.asarray(pts[a:b + 1], float)
    d, noise = geo_dist(pt, kind)
    if order == 'triangle':
        base = float(np.hypot(*(pt[-1] - pt[0])))
        return 0.5 * base * float(d.max()), 0.5 * base * noise
    if order == 'area':
        return float(d.sum()), noise * len(pt)
    return None


def gcost_ref(pts, red, cost, eps=1e-16):
    """Independent float reference of the global reconstruction cost from its DEFINITION (piecewise-linear interpolation through the
    breakpoints; segments of <= 2 points contribute 0; divisor n + #segments - 1; R2 clipped at 0). Returns (value, conclusive):
    not conclusive when a ratio metric meets y (or y_hat) within rounding of 0, where the eps guard amplifies rounding to O(1)."""
    pts = np.asarray(pts, float)
    n = len(pts)
    y_all = pts[:, 1]
    ymax = float(np.max(np.abs(y_all))) + 1e-300
    tot, conclusive = 0.0, True
    for a, b in zip(red, red[1:]):
        if b - a + 1 <= 2:
            continue
        x, y = pts[a:b + 1, 0], pts[a:b + 1, 1]
        m = (y[-1] - y[0]) / (x[-1] - x[0])
        yh = y[0] + m * (x - x[0])
        if cost == 'r2':
            tot += float(np.sum(np.square(y - yh)))
            continue
        noise = 64 * np.finfo(float).eps * (abs(m) * float(np.max(np.abs(x))) + ymax)
        if np.any(np.abs(y) < 1e6 * noise) or np.any(np.abs(yh) < 1e6 * noise) or np.any(y < 0) or np.any(yh < 0):
            conclusive = False
        if cost == 'rmsle':
            tot += float(np.sum(np.square(np.log(y + 1) - np.log(yh + 1))))
        elif cost == 'rmspe':
            tot += float(np.sum(np.square((y - yh) / (y + eps))))
        elif cost == 'rpd':
            tot += float(np.sum(np.abs((y - yh) / (np.maximum(y, yh) + eps))))
        else:
            tot += float(np.sum(2.0 * np.abs(yh - y) / (np.abs(y) + np.abs(yh) + eps)))
    total = n + (len(red) - 1) - 1
    if cost == 'r2':
        tss = float(np.sum(np.square(y_all - np.mean(y_all))))
        v = 1.0 - tot if tss == 0 else 1.0 - tot / tss
        if tss < 1e6 * np.finfo(float).eps * ymax * ymax * n:
            conclusive = False
    elif cost in ('rmsle', 'rmspe'):
        v = float(np.sqrt(tot / total))
    else:
        v = tot / total
    return (0.0 if v < 0 else v), conclusive


class Oracles:
    def __init__(self, pts, dist, cost, order):
        import kneeliverse.linear_fit as lf
        import kneeliverse.rdp as rdp
        import kneeliverse.evaluation as evaluation
        self.pts, self.dist, self.cost, self.order = pts, dist, cost, order
        self.dist_fn, self.dist_enum, self.cost_fn, self.cost_enum, self.order_enum = tables()
        self.lf, self.rdp, self.ev = lf, rdp, evaluation
        self.nonfinite = False
        self.seen = {'cst': [], 'gcs': [], 'dst_eps': 0, 'key_ties': 0}

    def cst(self, l, r):
        pt = self.pts[l:r]
        v = self.cost_fn[self.cost](pt, self.lf.linear_fit_points(pt))
        self.seen['cst'].append(float(v))
        return v

    def dst(self, l, r):
        pt = self.pts[l:r]
        return self.dist_fn[self.dist](pt, pt[0], pt[-1])

    def key(self, l, r, i):
        pt = self.pts[l:r]
        f = self.dist_fn[self.dist]
        if self.order == 'triangle':
            return self.rdp.order_triangle(pt, i, f)
        if self.order == 'area':
            return self.rdp.order_area(pt, i, f)
        return self.rdp.order_segment(pt, i)

    def gcs(self, red):
        v = self.ev.compute_global_cost(self.pts, list(red), self.cost_enum[self.cost], {})
        self.seen['gcs'].append(float(v))
        return v

    def answer(self, name, args):
        try:
            if name == 'cst':
                return core.rat(self.cst(int(args[0]), int(args[1])))
            if name == 'dst':
                d = self.dst(int(args[0]), int(args[1]))
                if np.all(d < np.finfo(float).eps):
                    self.seen['dst_eps'] += 1
                return core.rats(d)
            if name == 'key':
                a, b = self.key(int(args[0]), int(args[1]), int(args[2]))
                if a == b:
                    self.seen['key_ties'] += 1
                return core.rats([a, b])
            if name == 'gcs':
                return core.rat(self.gcs(core.parse_nats(args[0])))
        except core.NonFinite:
            self.nonfinite = True
            return '0' if name != 'key' else '0,0'
        raise core.InfraError('unknown oracle ' + name)


def loop_bound(which, n, extra=1):
    """while-header executions allowed (linear in n, with the constant slack the code's structure needs:
    one final failing test per loop, one skipped pop for a 2-point curve)."""
    if which == 'rdp':
        return 2 * n + 2
    if which in ('rdp_fixed', 'grdp'):
        return n + 2
    if which == 'mp_grdp':
        return n + 4
    return (extra + 1) * (n + 2)


def real_call(which, pts, cfg):
    """returns (reduced list, removed rows list, while-count). raises on failure."""
    import kneeliverse.rdp as rdp
    _, dist_enum, _, cost_enum, order_enum = tables()
    n = len(pts)
    d = dist_enum[cfg.get('dist', 'shortest')]
    c = cost_enum[cfg.get('cost', 'smape')]
    o = order_enum[cfg.get('order', 'segment')]

    if cfg.get('int_dtype'):
        # the same curve as an integer-dtype array (what the package's own tests pass); oracles stay on the float64 copy
        pts = np.asarray(pts).astype(np.int64)

    def call():
        if which == 'rdp':
            return rdp.rdp(pts, t=cfg['t'], distance=d, cost=c)
        if which == 'rdp_fixed':
            return rdp.rdp_fixed(pts, length=cfg['k'], distance=d, order=o)
        if which == 'grdp':
            return rdp.grdp(pts, t=cfg['t'], distance=d, cost=c, order=o)
        if which == 'mp_grdp':
            return rdp.mp_grdp(pts, t=cfg['t'], min_points=cfg['m'], distance=d, cost=c, order=o)
        if which == 'min_point_rdp':
            return rdp.min_point_rdp(pts, t=list(cfg['ts']), min_points=cfg['m'])
        raise core.InfraError(which)
    budget = 64 * loop_bound(which, n, len(cfg.get('ts', []))) + 1024
    (reduced, removed), cnt = core.guarded(call, budget)
    red = [int(v) for v in np.asarray(reduced).tolist()]
    rem = [[float(a), float(b)] for a, b in np.asarray(removed, dtype=float).reshape(-1, 2).tolist()]
    return red, rem, cnt


def model_call(ctx, which, pts, cfg):
    """returns (reduced, removed-or-None, oracles)"""
    n = len(pts)
    if which == 'min_point_rdp':
        orc = Oracles(pts, 'shortest', 'smape', 'segment')
    else:
        orc = Oracles(pts, cfg.get('dist', 'shortest'), cfg.get('cost', 'smape'), cfg.get('order', 'segment'))
    d = ctx.get_driver()
    isr2 = '1' if cfg.get('cost') == 'r2' else '0'
    if which == 'rdp':
        out = d.call('rdp', [isr2, core.rat(cfg['t']), str(n)], orc.answer)
        if out == ['none']:
            return None, None, orc
        return core.parse_nats(out[0]), core.parse_pairs(out[1]), orc
    if which == 'rdp_fixed':
        out = d.call('rdp_fixed', [str(n), str(max(int(cfg['k']), 0))], orc.answer)
    elif which == 'grdp':
        out = d.call('grdp', [isr2, core.rat(cfg['t']), str(n)], orc.answer)
    elif which == 'mp_grdp':
        out = d.call('mp_grdp', [isr2, core.rat(cfg['t']), str(n), str(max(int(cfg['m']), 0))], orc.answer)
    else:
        out = d.call('min_point_rdp', [str(n), str(max(int(cfg['m']), 0)), core.rats(cfg['ts'])], orc.answer)
    return core.parse_nats(out[0]), None, orc


def wf_failures(n, red, rem):
    """C01 well-formedness clauses on a real output; returns list of (clause, detail)."""
    out = []
    if not red or red[0] != 0:
        out.append(('reduced-starts-at-0', red[:3]))
    if not red or red[-1] != n - 1:
        out.append(('reduced-ends-at-n-1', red[-3:]))
    if any(a >= b for a, b in zip(red, red[1:])):
        out.append(('reduced-strictly-increasing', red))
    exp = [[float(red[i]), float(red[i + 1] - red[i] - 1)] for i in range(len(red) - 1)]
    if rem != exp:
        out.append(('removed-one-row-per-segment', dict(removed=rem[:8], expected=exp[:8])))
    elif len(red) + sum(r[1] for r in rem) != n:
        out.append(('retained-plus-dropped-eq-n', dict(retained=len(red), dropped=sum(r[1] for r in rem), n=n)))
    return out


def run_case(ctx, which, pts, cfg, family, site_prefix='rdp.'):
    """Real call + C01 predicate + correspondence.  Returns dict(real=…, model=…, orc=…) or None."""
    n = len(pts)
    if 'int_dtype' not in cfg and n and np.all(pts == np.floor(pts)) and np.max(np.abs(pts)) < 2 ** 47:
        cfg = dict(cfg, int_dtype=ctx.rng.random() < 0.3)
        if cfg['int_dtype']:
            ctx.tag('input:int64-dtype')
    case = dict(function=which, config=cfg, points=pts.tolist())
    site = f"{site_prefix}{which}[{cfg.get('dist','shortest')},{cfg.get('cost','-')},{cfg.get('order','-')}]"
    real = None
    try:
        red, rem, cnt = real_call(which, pts, cfg)
        real = dict(reduced=red, removed=rem, loops=cnt)
    except core.LoopBudgetExceeded as e:
        ctx.fail('predicate', 'terminates-within-linear-bound', site, case, str(e))
    except Exception as e:
        ctx.fail('predicate', 'completes', site, case, repr(e)[:300])
    if real is not None:
        for clause, detail in wf_failures(n, real['reduced'], real['removed']):
            ctx.fail('predicate', clause, site, case, detail)
        if real['loops'] > loop_bound(which, n, len(cfg.get('ts', []))):
            ctx.fail('predicate', 'terminates-within-linear-bound', site, case, dict(while_iterations=real['loops'], bound=loop_bound(which, n, len(cfg.get('ts', [])))))
    model = None
    orc = None
    try:
        mred, mrem, orc = model_call(ctx, which, pts, cfg)
        model = dict(reduced=mred, removed=mrem)
    except Exception as e:
        # oracle primitive raised (e.g. the distance primitive itself is broken): correspondence impossible
        ctx.tag('oracle-raised')
        if real is not None:
            ctx.fail('correspondence', 'oracle-primitive-raised', site, case, repr(e)[:300])
        return dict(real=real, model=None, orc=None, case=case, site=site)
    if orc.nonfinite:
        ctx.tag('oracle-nonfinite')
        return dict(real=real, model=None, orc=orc, case=case, site=site)
    if model['reduced'] is None:
        ctx.fail('correspondence', 'model-fuel-exhausted', site, case, 'rdpLoop returned none (contradicts rdp_total_wf unless an oracle returned a wrong-length array)')
    elif real is not None:
        ctx.corr_checked += 1
        if model['reduced'] != real['reduced']:
            ctx.fail('correspondence', 'reduced', site, case, dict(impl=real['reduced'], model=model['reduced']))
        elif model['removed'] is not None and [[float(a), float(b)] for a, b in model['removed']] != real['removed']:
            ctx.fail('correspondence', 'removed', site, case, dict(impl=real['removed'], model=model['removed']))
    return dict(real=real, model=model, orc=orc, case=case, site=site)


def tie_threshold(rng, pts, cost, which):
    """threshold: either dyadic/decimal grid or one of the costs observed on this very input."""
    import kneeliverse.linear_fit as lf
    import kneeliverse.evaluation as ev
    _, _, cost_fn, cost_enum, _ = tables()
    n = len(pts)
    grid = [0.5, 0.25, 0.1, 0.05, 0.01, 0.001, 2.0 ** -10, 0.9, 0.99] if cost != 'r2' else [0.5, 0.9, 0.99, 0.999, 1.0, 0.25, 0.0, -1.0]
    if rng.random() < 0.45 and n >= 3:
        try:
            if which == 'rdp':
                l = rng.randrange(0, n - 2)
                r = rng.randrange(l + 3, n + 1)
                pt = pts[l:r]
                v = float(cost_fn[cost](pt, lf.linear_fit_points(pt)))
            else:
                red = gen.random_subset_with_ends(rng, n, rng.randrange(0, min(4, n - 1)))
                v = float(ev.compute_global_cost(pts, red, cost_enum[cost], {}))
            if np.isfinite(v) and ((cost != 'r2' and v > 0) or (cost == 'r2' and v <= 1)):
                return v, True
        except Exception:
            pass
    return rng.choice(grid), False


def tie_curve(rng, n):
    """integer staircases / symmetric shapes: many segments with exactly equal ordering keys; steep zig-zags"""
    if rng.random() < 0.3:
        sc = rng.choice([1, 10])
        return np.array([[float(i), float(rng.randrange(0, 10) * sc)] for i in range(n)]), 'zigzag-int'
    if rng.random() < 0.5:
        h = (n + 1) // 2
        half = [rng.randrange(0, 9) for _ in range(h)]
        y = half + half[:n - h][::-1]
        fam = 'symmetric-int'
    else:
        y, cur = [], rng.randrange(4, 12)
        for _ in range(n):
            y.append(cur)
            cur = max(0, cur - rng.choice([0, 0, 1, 1, 2, 3]))
        fam = 'staircase-int'
    return np.array([[float(i), float(v)] for i, v in enumerate(y)]), fam


def bytecount_curve(rng, n=None):
    """integer curve with byte-count sized heights (k * 2^33, k < 2^12) over small integer x: valid int64 input whose squared height differences
    exceed 2^63 — any intermediate computed in the input's integer dtype (np.dot of differences, squares, products) wraps around"""
    n = n or rng.randrange(5, 24)
    x = np.cumsum([rng.choice([1, 1, 2, 3]) for _ in range(n)]).astype(float)
    ks = sorted((rng.randrange(0, 4096) for _ in range(n)), reverse=True)
    if rng.random() < 0.3:
        rng.shuffle(ks)
    y = np.array(ks, dtype=float) * 2.0 ** 33
    return np.column_stack([x, y]), 'bytecount'


def long_curve(rng, n=None):
    """a LONG curve (> 1024 points): smooth decay + small dyadic noise + a few one-point spikes, so that the chord-distance profile of
    the large ranges is not unimodal.  Anything that treats long ranges differently (sub-sampling, chunking, recursion limits) shows here."""
    n = n or (rng.randrange(4097, 5200) if rng.random() < 0.35 else rng.randrange(1100, 2400))      # also beyond 4096 points
    x = np.arange(n, dtype=float) * rng.choice([1.0, 0.5, 2.0])
    k = rng.choice([0.002, 0.004, 0.008])
    y = np.round(4096.0 * np.exp(-k * np.arange(n))) / 4.0 + np.array([rng.randrange(0, 4) / 8.0 for _ in range(n)])
    for _ in range(rng.randrange(2, 6)):
        j = rng.randrange(20, n - 20)
        y[j] += rng.choice([64.0, 200.0, 700.0, -30.0])
    y = np.maximum(y, 0.0)
    return np.column_stack([x, y]), 'long-curve'


def random_points(ctx, nmax):
    rng = ctx.rng
    u = rng.random()
    if u < 0.22:
        return tie_curve(rng, rng.randrange(4, min(nmax, 24) + 1))
    if u < 0.70:
        n = rng.randrange(2, nmax + 1) if rng.random() < 0.8 else rng.randrange(2, 7)
        return gen.dyadic_curve(rng, n)
    if u < 0.85:
        return gen.float_curve(rng, rng.randrange(3, nmax + 1))
    p, f = gen.trace_window(rng, max(nmax, 16))
    if p is None:
        return gen.dyadic_curve(rng, rng.randrange(2, nmax + 1))
    return p, f

"""X02 — zmethod.knees2 refines its candidates to a fixed point of the box/arg-max round; zmethod.map_index returns indices."""
import re, math, logging
from fractions import Fraction as F
import numpy as np
from .. import core, gen
from .c13 import iou_of

PROP_FILE = 'Knee/Props/X02.lean'
PROP_FILES = ['Knee/Props/X02.lean']
DXS = [0.01, 0.05, 0.1, 0.2, 0.5]
RULE = ('knees2: curves of harness/gen.py (dyadic families, float curves, magnitude variants) + decreasing staircases/plateaus with EQUAL heights and '
        'evenly spaced x (several candidates per box, equal rank_corners scores), point sets with UNSORTED x (runs with three rounds), a few curves with repeated x (division by zero in csd: skipped when a NaN '
        'appears, counted), n = 3..60 and n < 3 (ValueError of uts.gradient.csd, counted only); dx, dy in {0.01, 0.05, 0.1, 0.2, 0.5} biased to the big '
        'boxes, plus steps drawn from the coordinate differences of the very input (exact box ties |xi-xj| == x_step), plus 0, 1 and a negative step (the '
        '"Ups" branch of the real code); the three Outlier members.  Correspondence is oracle-fed: the thresholded array and outlier_z are recomputed with the '
        'same uts/NumPy calls, IoU with knee_ranking.rect/rect_overlap, the box test and rank_corners from the float differences fl(x[a]-x[b]), fl(y[a]-y[b]) '
        '(tables over the outlier candidates); the model owns every comparison, the argmax, array_equal and the loop.  Compared EXACTLY: returned array, '
        'number of rounds, candidates at the start of every round and the initial candidates (the last three read from the package\'s own INFO log).  The exact-Q '
        'run (coordinates as rationals) is compared whenever every float subtraction over the candidates is exact, otherwise the case is inconclusive for that '
        'comparison only.  Predicates on the REAL output: strictly increasing, in range, each a threshold candidate, sublist of filter_corner_knees(filter_worst_knees('
        'candidates)), heights non-increasing, fixed point (alone in its box or first arg-max of pp.rank_corners over its neighbourhood among the survivors; also '
        'through the model\'s round function fed with the package\'s values), per-round sublist + strict shrink, rounds <= dropped + 1.  '
        'map_index: sorted / shuffled / duplicate-carrying arrays, float and int dtypes, b = samples of a (sorted or not), misses between / below / above the '
        'values, empty a or b; sigma = np.argsort(a) is the oracle.  non-trivial = at least two rounds and a non-empty result (knees2), a non-identity answer '
        '(map_index); (inputs) new')
ASSUMPTIONS = ['finite inputs (a NaN in the thresholded array, the threshold or the steps: case skipped and counted)',
               'oracle values: uts.gradient.csd, uts.zscore.zscore_array, np.percentile/np.median, knee_ranking.rect_overlap, IEEE subtraction, np.argsort',
               'numpy.searchsorted is modelled by a lower-bound bisection per value (its key-order optimisation is not modelled; both return the lower bound on a sorted view)']


class _Collect(logging.Handler):
    def __init__(self):
        super().__init__(level=logging.INFO)
        self.msgs = []

    def emit(self, record):
        try:
            self.msgs.append(record.getMessage())
        except Exception:
            self.msgs.append('<unformattable>')


def run_logged(fn):
    """call fn() with the INFO messages of kneeliverse.zmethod collected (the f-strings are evaluated whatever the level: observing them changes nothing)"""
    lg = logging.getLogger('kneeliverse.zmethod')
    h = _Collect()
    old_level, old_prop = lg.level, lg.propagate
    lg.addHandler(h)
    lg.setLevel(logging.INFO)
    lg.propagate = False
    try:
        return fn(), h.msgs
    finally:
        lg.removeHandler(h)
        lg.setLevel(old_level)
        lg.propagate = old_prop


def ints_of(s):
    return [int(t) for t in re.findall(r'\d+', s.replace('np.int64(', '').replace('np.int32(', ''))]


def parse_log(msgs):
    """-> (initial candidates, [candidates at the start of round 1, 2, …], #Ups) or None when the log does not have the expected shape"""
    try:
        init, rounds, ups = None, [], 0
        for m in msgs:
            if m.startswith('Candidates: '):
                body = m[len('Candidates: '):]
                init = ints_of(body[:body.rindex('(')])
            elif m.startswith('Current candidates '):
                body = m[len('Current candidates '):]
                if '...' in body or '.' in body.replace('np.', ''):
                    return None
                rounds.append(ints_of(body))
            elif m.startswith('Ups'):
                ups += 1
        nr = sum(1 for m in msgs if re.fullmatch(r'Round \d+', m))
        if init is None or nr != len(rounds) or nr == 0:
            return None
        return init, rounds, ups
    except Exception:
        return None


def threshold_inputs(pts, out):
    """the thresholded array and outlier_z exactly as knees2 computes them (same calls, same order)"""
    import uts.gradient as grad
    import uts.zscore as uzscore
    import kneeliverse.zmethod as zm
    x, y = pts[:, 0], pts[:, 1]
    yd2 = grad.csd(x, y)
    if out is zm.Outlier.iqr:
        q1, q3 = np.percentile(yd2, [25, 75])
        iqr = q3 - q1
        return yd2, q3 + (1.5 * iqr)
    if out is zm.Outlier.hampel:
        med = np.median(yd2)
        t = np.abs(yd2 - med)
        return yd2, np.median(t) * 4.5
    z_yd2 = uzscore.zscore_array(x, yd2)
    return z_yd2, np.median(z_yd2)


def is_sublist(a, b):
    it = iter(b)
    return all(any(u == v for v in it) for u in a)


def near_f(pts, j, i, xs_, ys_):
    return (math.fabs(pts[j, 0] - pts[i][0]) <= xs_) and (math.fabs(pts[j, 1] - pts[i][1]) <= ys_)


def survives_real(pts, cur, i, xs_, ys_):
    """the round's rule for member i of cur, evaluated with the package's own rank_corners / np.argmax and the same float box test"""
    import kneeliverse.postprocessing as pp
    nb = [j for j in cur if near_f(pts, j, i, xs_, ys_)]
    if len(nb) == 1:
        return nb[0] == i, nb, None
    if len(nb) > 1:
        r = pp.rank_corners(pts, nb)
        return nb[int(np.argmax(r))] == i, nb, r
    return False, nb, None


@core.safe_case
def one(ctx, pts, dx, dy, outname, family):
    import kneeliverse.zmethod as zm
    import kneeliverse.postprocessing as pp
    pts = np.array(pts, dtype=float)
    n = len(pts)
    out = zm.Outlier(outname)
    case = dict(points=pts.tolist(), dx=dx, dy=dy, out=outname)
    if n < 3:
        # uts.gradient.csd refuses fewer than 3 points: knees2 raises ValueError before any candidate exists (outside the statements, counted)
        try:
            zm.knees2(pts.copy(), dx, dy, out)
            ctx.tag('n<3:returned')
        except ValueError:
            ctx.tag('n<3:ValueError(csd)')
        ctx.count(family, n=n)
        return
    if not np.all(np.isfinite(pts)):
        ctx.tag('skip:non-finite-points')
        return
    x, y = pts[:, 0], pts[:, 1]
    x_step = (max(x) - min(x)) * dx
    y_step = (max(y) - min(y)) * dy
    v, z = threshold_inputs(pts, out)
    if np.any(np.isnan(v)) or math.isnan(float(z)) or math.isnan(float(x_step)) or math.isnan(float(y_step)):
        ctx.tag('skip:nan-in-second-derivative/threshold/step')
        ctx.count(family + '(skipped-nan)', n=n)
        return
    # ---- the real call, observed through its own log
    try:
        res, msgs = run_logged(lambda: zm.knees2(pts.copy(), dx, dy, out))
    except core.LoopBudgetExceeded:
        raise
    except Exception as e:
        ctx.fail('predicate', 'knees2-completes', 'zmethod.knees2', case, repr(e)[:200])
        ctx.count(family, n=n)
        return
    res_arr = np.asarray(res)
    if res_arr.ndim != 1 or (res_arr.size and not np.all(res_arr == np.floor(res_arr))):
        ctx.fail('predicate', 'knees2-returns-a-1-D-array-of-indices', 'zmethod.knees2', case, repr(res)[:200])
        ctx.count(family, n=n)
        return
    real = [int(k) for k in res_arr.tolist()]
    if res_arr.size == 0:
        ctx.tag('empty-result(float-dtype array)' if res_arr.dtype.kind == 'f' else 'empty-result')
    log = parse_log(msgs)
    if log is None:
        ctx.tag('log-not-parsed')
    # ---- oracles
    c0 = [i for i in range(len(v)) if v[i] >= z]
    tidx = sorted(set(c0) | {0})
    ious = [iou_of(pts, k) if 1 <= k and k + 1 < n else 0.0 for k in c0]
    if any(math.isnan(u) for u in ious):
        ctx.tag('skip:nan-iou')
        return
    dxm = [pts[a, 0] - pts[b, 0] for a in tidx for b in tidx]
    dym = [pts[a, 1] - pts[b, 1] for a in tidx for b in tidx]
    d = ctx.get_driver()
    ans = d.call('knees2', [core.rats(v), core.rat(z), core.rats(y), core.nats(c0), core.rats(ious), core.rat(0.3), core.rat(x_step), core.rat(y_step),
                            core.nats(tidx), core.rats(dxm), core.rats(dym)])
    ctx.corr_checked += 1
    if ans[0] == 'none':
        ctx.fail('correspondence', 'knees2(fuel exhausted in the model)', 'zmethod.knees2', case, dict(impl=real))
        ctx.count(family, n=n)
        return
    m_res, m_rounds = core.parse_nats(ans[0]), int(ans[1])
    m_c0, m_w, m_c = core.parse_nats(ans[2]), core.parse_nats(ans[3]), core.parse_nats(ans[4])
    m_trace = [core.parse_nats(t) for t in ans[5].split(';')]
    if m_res != real:
        ctx.fail('correspondence', 'knees2', 'zmethod.knees2', case, dict(impl=real, model=m_res, model_trace=m_trace, log=log))
    if log is not None:
        l_init, l_rounds, l_ups = log
        if l_init != m_c0:
            ctx.fail('correspondence', 'knees2-outlier-candidates', 'zmethod.knees2', case, dict(impl=l_init, model=m_c0))
        if l_rounds != m_trace or len(l_rounds) != m_rounds:
            ctx.fail('correspondence', 'knees2-rounds(candidates at the start of every round)', 'zmethod.knees2', case, dict(impl=l_rounds, model=m_trace))
        if l_ups:
            ctx.tag('ups-branch-taken')
    # the two filters between the stages: the package's own functions on the harness's candidate list
    w_real = [int(k) for k in np.asarray(pp.filter_worst_knees(pts, c0)).tolist()]
    c_real = [int(k) for k in np.asarray(pp.filter_corner_knees(pts, w_real, t=0.3)).tolist()]
    if (m_c0, m_w, m_c) != (c0, w_real, c_real):
        ctx.fail('correspondence', 'knees2-stages(outliers, worst, corner)', 'zmethod.knees2', case, dict(impl=(c0, w_real, c_real), model=(m_c0, m_w, m_c)))
    # ---- exact-Q run: conclusive when every subtraction the Python can perform on candidates is exact
    fx, fy = [F(float(u)) for u in x], [F(float(u)) for u in y]
    exact = all(F(float(dxm[p * len(tidx) + q])) == fx[a] - fx[b] and F(float(dym[p * len(tidx) + q])) == fy[a] - fy[b]
                for p, a in enumerate(tidx) for q, b in enumerate(tidx))
    if exact:
        ansq = d.call('knees2Q', [core.rats(v), core.rat(z), core.rats(x), core.rats(y), core.nats(c0), core.rats(ious), core.rat(0.3),
                                  core.rat(x_step), core.rat(y_step)])
        ctx.corr_checked += 1
        if ansq[0] == 'none' or core.parse_nats(ansq[0]) != real or int(ansq[1]) != m_rounds:
            ctx.fail('correspondence', 'knees2Q(exact coordinates)', 'zmethod.knees2', case, dict(impl=real, model=ansq[:2]))
    else:
        ctx.inconclusive += 1
        ctx.tag('Q-run-inconclusive(inexact float subtraction)')
    # ---- predicates on the real output (statements 1-3)
    if any(a >= b for a, b in zip(real, real[1:])) or any(k < 0 or k >= n for k in real):
        ctx.fail('predicate', 'result-strictly-increasing-and-in-range', 'zmethod.knees2', case, dict(result=real))
    elif any(not (v[k] >= z) for k in real):
        ctx.fail('predicate', 'result-subset-of-outlier-candidates', 'zmethod.knees2', case, dict(result=real, candidates=c0))
    elif not is_sublist(real, c_real):
        ctx.fail('predicate', 'result-sublist-of-filtered-candidates', 'zmethod.knees2', case, dict(result=real, filtered=c_real, worst=w_real))
    else:
        if any(y[a] < y[b] for a, b in zip(real, real[1:])):
            ctx.fail('predicate', 'heights-non-increasing', 'zmethod.knees2', case, dict(result=real, heights=[float(y[k]) for k in real]))
        bad = None
        argmax_used = False
        for i in real:
            ok, nb, r = survives_real(pts, real, i, x_step, y_step)
            argmax_used = argmax_used or len(nb) > 1
            if not ok:
                bad = dict(knee=i, neighbourhood=nb, ranks=None if r is None else [float(u) for u in r])
                break
        if bad is not None:
            ctx.fail('predicate', 'result-is-a-fixed-point(alone in its box or first arg-max of rank_corners over its neighbourhood)', 'zmethod.knees2', case,
                     dict(result=real, **bad))
        else:
            if argmax_used:
                ctx.tag('fixed-point-holds-via-argmax')
            # the same through the model's round function, fed with the package's values on the RESULT
            if real:
                nearm = [1 if near_f(pts, j, i, x_step, y_step) else 0 for j in real for i in real]
                nbs = {}
                for i in real:
                    nb = tuple(j for j in real if near_f(pts, j, i, x_step, y_step))
                    if len(nb) > 1 and nb not in nbs:
                        nbs[nb] = pp.rank_corners(pts, list(nb))
                sc = ';'.join(core.nats(nb) + ':' + core.rats(r) for nb, r in nbs.items()) or '-'
                ar = d.call('knees2_round', [core.nats(real), core.nats(nearm), sc])
                ctx.corr_checked += 1
                if core.parse_nats(ar[0]) != real:
                    ctx.fail('correspondence', 'refineRound(result) = result', 'zmethod.knees2', case, dict(result=real, model_round=ar[0]))
    rounds = None
    if log is not None:
        l_init, l_rounds, _ = log
        rounds = len(l_rounds)
        if l_rounds[-1] != real:
            ctx.fail('predicate', 'last-round-confirms-the-result', 'zmethod.knees2', case, dict(result=real, rounds=l_rounds))
        for a, b in zip(l_rounds, l_rounds[1:]):
            if not is_sublist(b, a) or len(b) >= len(a):
                ctx.fail('predicate', 'every-non-final-round-returns-a-strictly-shorter-sublist', 'zmethod.knees2', case, dict(rounds=l_rounds))
                break
        if rounds + len(real) > len(l_rounds[0]) + 1:
            ctx.fail('predicate', 'rounds <= dropped candidates + 1', 'zmethod.knees2', case, dict(rounds=l_rounds))
        if l_rounds[0] == c_real:
            # first round judged against the rule with the package's own primitives (statement 1 / the round function)
            want = [i for i in c_real if survives_real(pts, c_real, i, x_step, y_step)[0]]
            got = l_rounds[1] if len(l_rounds) > 1 else l_rounds[0]
            if got != want:
                ctx.fail('predicate', 'first-round-keeps-exactly-the-alone/arg-max-candidates', 'zmethod.knees2', case, dict(candidates=c_real, kept=got, expected=want))
        ctx.tag('rounds=%d' % rounds if rounds < 4 else 'rounds>=4')
    # ---- coverage tags
    ctx.tag('outlier=' + outname)
    if any(v[i] == z for i in range(len(v))):
        ctx.tag('tie:value==outlier_z')
    cc = c_real
    if any(math.fabs(pts[a, 0] - pts[b, 0]) == x_step or math.fabs(pts[a, 1] - pts[b, 1]) == y_step for a in cc for b in cc if a != b):
        ctx.tag('tie:box-edge(|d| == step)')
    multi = False
    for i in cc:
        ok, nb, r = survives_real(pts, cc, i, x_step, y_step)
        if len(nb) > 1:
            multi = True
            if list(r).count(max(r)) > 1:
                ctx.tag('tie:equal-maximal-rank_corners-scores')
                break
    ctx.tag('round1:argmax-branch' if multi else 'round1:all-alone')
    if x_step < 0 or y_step < 0:
        ctx.tag('negative-step')
    if len(cc) <= 1:
        ctx.tag('candidates<=1')
    nontriv = (pts.tobytes(), dx, dy, outname) if (rounds is not None and rounds >= 2 and real) else None
    ctx.count(family, n=n, nontrivial_key=nontriv, sample=dict(points=pts.tolist(), dx=dx, dy=dy, out=outname, result=real, rounds=rounds,
                                                               candidates=c0, filtered=c_real))


@core.safe_case
def one_map(ctx, a, b, family):
    import kneeliverse.zmethod as zm
    a = np.array(a)
    b = np.array(b)
    case = dict(a=a.tolist(), b=b.tolist(), a_dtype=str(a.dtype), b_dtype=str(b.dtype))
    if (a.dtype.kind == 'f' and np.any(np.isnan(a))) or (b.dtype.kind == 'f' and np.any(np.isnan(b))):
        ctx.tag('skip:nan')
        return
    sigma = np.argsort(a)
    sig = [int(s) for s in sigma.tolist()]
    # the oracle assumption of the theorems: sigma is a permutation that sorts a
    if sorted(sig) != list(range(len(a))) or any(a[sig[p]] > a[sig[p + 1]] for p in range(len(a) - 1)):
        ctx.fail('predicate', 'argsort-is-a-sorting-permutation', 'numpy.argsort', case, dict(sigma=sig))
        return
    try:
        real = [int(k) for k in np.asarray(zm.map_index(a.copy(), b.copy())).tolist()]
    except IndexError:
        real = None
    avals = [F(u) if a.dtype.kind != 'f' else F(float(u)) for u in a.tolist()]
    bvals = [F(u) if b.dtype.kind != 'f' else F(float(u)) for u in b.tolist()]
    d = ctx.get_driver()
    ans = d.call('map_index', [core.rats(avals), core.nats(sig), core.rats(bvals)])
    ctx.corr_checked += 1
    model = None if ans[0] == 'none' else core.parse_nats(ans[0])
    if model != real:
        ctx.fail('correspondence', 'mapIndex', 'zmethod.map_index', case, dict(impl=real, model=model))
    pos = [int(p) for p in np.searchsorted(a, b, sorter=sigma).tolist()]
    if core.parse_nats(ans[1]) != pos:
        ctx.fail('correspondence', 'searchLeft', 'numpy.searchsorted', case, dict(impl=pos, model=ans[1]))
    # ---- predicates (statement 5)
    aset = set(avals)
    amax = max(avals) if avals else None
    too_big = any(amax is None or w > amax for w in bvals)
    if too_big != (real is None):
        ctx.fail('predicate', 'IndexError exactly when some b[k] exceeds every value of a', 'zmethod.map_index', case, dict(result=real))
    elif real is not None:
        if len(real) != len(bvals):
            ctx.fail('predicate', 'one-index-per-value', 'zmethod.map_index', case, dict(result=real))
        else:
            for k, w in enumerate(bvals):
                i = real[k]
                if not (0 <= i < len(avals)):
                    ctx.fail('predicate', 'index-in-range', 'zmethod.map_index', case, dict(result=real, k=k))
                    break
                if w in aset:
                    if avals[i] != w or (len(aset) == len(avals) and i != avals.index(w)):
                        ctx.fail('predicate', 'out[k] is the index in a of b[k]', 'zmethod.map_index', case, dict(result=real, k=k))
                        break
                elif avals[i] != min(u for u in avals if u >= w):
                    ctx.fail('predicate', 'value not in a: index of the next larger value', 'zmethod.map_index', case, dict(result=real, k=k))
                    break
    ctx.tag('map:IndexError' if real is None else 'map:returns')
    if len(aset) < len(avals):
        ctx.tag('map:duplicates-in-a')
    if any(w not in aset for w in bvals):
        ctx.tag('map:value-not-in-a')
    if len(b) == 0:
        ctx.tag('map:empty-b')
    if len(a) == 0:
        ctx.tag('map:empty-a')
    nontriv = (a.tobytes(), b.tobytes(), str(a.dtype), str(b.dtype)) if real and real != list(range(len(real))) else None
    ctx.count('map_index-' + family, n=len(a), nontrivial_key=nontriv, sample=dict(a=a.tolist(), b=b.tolist(), result=real))


# ----------------------------------------------------------------------------------------------------------------------------------
# generators
# ----------------------------------------------------------------------------------------------------------------------------------
def staircase(rng, n):
    """decreasing staircase / plateau curve: evenly or unevenly spaced x, heights with EQUAL values and sharp drops (many candidates that survive
    the worst filter, several per box, equal rank_corners gaps)"""
    even = rng.random() < 0.5
    x = [float(rng.choice([0, 0, 1, 5]))]
    for _ in range(n - 1):
        x.append(x[-1] + (1.0 if even else float(rng.choice([1, 1, 2, 3]))))
    q = rng.choice([1.0, 0.5, 0.25, 2.0 ** -6])
    y, cur = [], float(rng.randrange(n, 4 * n + 8)) * q
    for i in range(n):
        y.append(cur)
        r = rng.random()
        if r < 0.45:
            cur = max(0.0, cur - rng.choice([1, 1, 2, 3, 8]) * q)
        elif r < 0.5:
            cur = cur + rng.choice([1, 2]) * q          # a bump: the worst filter has something to drop
    return np.array(list(zip(x, y)), float), 'staircase' + ('-even' if even else '')


def scatter(rng, n):
    """NOT a function graph: x unsorted (fully shuffled, or increasing with a few local swaps), heights non-increasing.  knees2 asks nothing of x;
    boxes are no longer intervals of the candidate list, which is where runs with three or more rounds come from"""
    xs = rng.sample(range(0, 3 * n), n)
    kind = 'shuffled'
    if rng.random() < 0.5:
        xs.sort()
        kind = 'swaps'
        for _ in range(rng.randrange(1, 4)):
            j = rng.randrange(0, n - 1)
            xs[j], xs[j + 1] = xs[j + 1], xs[j]
    ys = sorted((rng.randrange(0, 2 * n) for _ in range(n)), reverse=True)
    return np.array(list(zip(xs, ys)), float), 'scatter-x-' + kind


# point sets (unsorted x) on which the unchanged package needs THREE rounds (found by random search; kept so that every run exercises the third round)
THREE_ROUND_SEEDS = [
    ([[7, 7], [1, 6], [3, 6], [11, 1], [0, 1]], 0.5, 0.5, 'zscore'),
    ([[6, 8], [0, 7], [8, 6], [15, 5], [10, 3], [16, 0]], 0.5, 0.5, 'zscore'),
    ([[2, 11], [4, 11], [5, 8], [0, 6], [8, 5], [16, 5]], 0.5, 0.5, 'zscore'),
    ([[16, 13], [2, 8], [4, 8], [14, 7], [10, 6], [8, 4], [3, 1]], 0.5, 0.5, 'zscore'),
    ([[13, 12], [7, 12], [15, 9], [17, 8], [14, 3], [8, 1], [12, 1]], 0.5, 0.2, 'zscore'),
    ([[16, 7], [2, 4], [18, 2], [14, 2], [0, 2], [17, 1], [6, 1]], 0.2, 0.2, 'zscore'),
    ([[18, 15], [15, 15], [23, 8], [14, 6], [4, 3], [11, 1], [12, 1], [19, 1]], 0.5, 0.2, 'zscore'),
    ([[10, 15], [17, 14], [21, 10], [6, 6], [8, 3], [14, 0], [19, 0], [15, 0]], 0.5, 0.5, 'zscore'),
]


def three_round_case(rng):
    """a stored three-round input under an exact similarity (power-of-two scalings, dyadic offsets: every float operation of knees2 that decides
    something scales exactly), sometimes with another Outlier member or another box (then whatever number of rounds results)"""
    pts, dx, dy, outname = rng.choice(THREE_ROUND_SEEDS)
    q = np.array(pts, float)
    q[:, 0] = q[:, 0] * 2.0 ** rng.choice([0, 0, -3, 4, 10]) + rng.choice([0.0, 0.0, 1.0, 64.0])
    q[:, 1] = q[:, 1] * 2.0 ** rng.choice([0, 0, -5, 3]) + rng.choice([0.0, 0.0, 2.0])
    if rng.random() < 0.25:
        outname = rng.choice(['zscore', 'iqr', 'hampel'])
    if rng.random() < 0.2:
        dx = rng.choice(DXS)
    return q, dx, dy, outname


def curve(rng, n):
    u = rng.random()
    if u < 0.3:
        return staircase(rng, n)
    if u < 0.45 and n >= 5:
        return scatter(rng, n)
    if u < 0.8:
        pts, fam = gen.dyadic_curve(rng, n)
        if '@' not in fam:
            pts, vt = gen.magnitude(rng, pts, 0.12)
            fam += vt
        return pts, fam
    if u < 0.93:
        return gen.float_curve(rng, n)
    # repeated abscissae (division by zero inside csd): usually skipped with a count, sometimes an inf that survives the median
    pts, fam = gen.dyadic_curve(rng, n)
    j = rng.randrange(1, n)
    pts = np.array(pts)
    pts[j, 0] = pts[j - 1, 0]
    return pts, fam.split('@')[0] + '+equal-x'


def pick_steps(rng, pts, out):
    """dx, dy: the listed values (big boxes more often), exact box ties drawn from the input, and the edges 0 / 1 / negative"""
    dx = rng.choice(DXS + [0.2, 0.5, 0.5])
    dy = rng.choice(DXS + [0.2, 0.5, 0.5])
    u = rng.random()
    if u < 0.22 and len(pts) >= 3:
        # a step equal to a coordinate difference of two threshold candidates (when the division round-trips)
        try:
            v, z = threshold_inputs(pts, out)
            c0 = [i for i in range(len(v)) if v[i] >= z]
        except Exception:
            c0 = []
        if len(c0) >= 2:
            a, b = rng.sample(c0, 2)
            rx = max(pts[:, 0]) - min(pts[:, 0])
            ry = max(pts[:, 1]) - min(pts[:, 1])
            if rng.random() < 0.6 and rx > 0:
                dx = float(abs(pts[a, 0] - pts[b, 0]) / rx)
            elif ry > 0:
                dy = float(abs(pts[a, 1] - pts[b, 1]) / ry)
    elif u < 0.27:
        dx = rng.choice([0.0, 1.0, 1.0])
    elif u < 0.32:
        dy = rng.choice([0.0, 1.0, 1.0])
    elif u < 0.34:
        if rng.random() < 0.5:
            dx = -0.05
        else:
            dy = -0.05
    return dx, dy


def gen_map(rng):
    u = rng.random()
    n = rng.choice([0, 1, 2, 3]) if u < 0.12 else rng.randrange(1, 40)
    kind = rng.choice(['sorted-float', 'sorted-float', 'shuffled', 'ints', 'duplicates', 'curve-x'])
    if kind == 'curve-x' and n >= 2:
        a = gen.dyadic_curve(rng, n)[0][:, 0]
    elif kind == 'ints':
        a = np.array(sorted(rng.sample(range(-50, 200), n)), dtype=rng.choice([np.int64, float]))
    elif kind == 'duplicates':
        a = np.array([rng.randrange(0, max(2, n // 2)) / 4.0 for _ in range(n)])
        if rng.random() < 0.5:
            a = np.sort(a)
    else:
        a = np.cumsum([rng.choice([0.25, 0.1, 1.0, 3.0, 1 / 3]) for _ in range(n)]) if n else np.array([])
        if kind == 'shuffled':
            a = np.array(rng.sample(a.tolist(), n))
    al = a.tolist()
    m = rng.choice([0, 1, 2, 5]) if rng.random() < 0.3 else rng.randrange(0, n + 3)
    v = rng.random()
    b = [rng.choice(al) for _ in range(m)] if al else []
    fam = kind
    if v < 0.5:
        b = sorted(set(b))
        fam += '/subset-sorted'
    elif v < 0.7:
        fam += '/subset-any-order'
    else:
        # misses: between two values, below the minimum, (rarely) above the maximum
        for _ in range(rng.randrange(1, 4)):
            w = rng.random()
            if al and w < 0.6:
                s = sorted(al)
                j = rng.randrange(len(s))
                b.append((s[j] + s[min(j + 1, len(s) - 1)]) / 2.0)
            elif al and w < 0.85:
                b.append(min(al) - rng.choice([0.5, 1, 100]))
            else:
                b.append((max(al) if al else 0) + rng.choice([0.5, 1, 100]))
        rng.shuffle(b)
        fam += '/with-misses'
    if a.dtype.kind == 'i' or (b and all(float(w).is_integer() for w in b) and rng.random() < 0.5):
        b = np.array([int(w) for w in b], dtype=np.int64) if all(float(w).is_integer() for w in b) else np.array(b, dtype=float)
    else:
        b = np.array(b, dtype=float)
    return a, b, fam


def run(ctx):
    rng = ctx.rng
    quick = ctx.tier == 'quick'
    outs = ['zscore', 'iqr', 'hampel']
    for it in range(520 if quick else 9000):
        u = rng.random()
        n = rng.choice([0, 1, 2]) if u < 0.01 else rng.randrange(3, 9) if u < 0.2 else rng.randrange(9, 61 if u < 0.9 else 121)
        if n < 3:
            pts = np.array([[float(i), float(3 - i)] for i in range(n)], float).reshape(n, 2)
            one(ctx, pts, 0.05, 0.05, rng.choice(outs), 'tiny')
            continue
        if rng.random() < 0.05:
            pts, dx, dy, outname = three_round_case(rng)
            one(ctx, pts, dx, dy, outname, 'three-round-seed')
            continue
        pts, fam = curve(rng, n)
        for outname in (outs if rng.random() < 0.5 else [rng.choice(outs)]):
            import kneeliverse.zmethod as zm
            dx, dy = pick_steps(rng, pts, zm.Outlier(outname))
            one(ctx, pts, dx, dy, outname, fam)
    for it in range(500 if quick else 8000):
        a, b, fam = gen_map(rng)
        one_map(ctx, a, b, fam)


def replay(ctx, body):
    c = body['case']
    if 'points' in c:
        one(ctx, np.array(c['points'], float).reshape(-1, 2), c['dx'], c['dy'], c['out'], 'replay')
    else:
        one_map(ctx, np.array(c['a'], dtype=c.get('a_dtype', 'float64')), np.array(c['b'], dtype=c.get('b_dtype', 'float64')), 'replay')

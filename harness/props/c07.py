"""C07 — reduced-space indices map back to exactly the original indices."""
import itertools
import numpy as np
from .. import core, gen

PROP_FILE = 'Knee/Props/C07.lean'
PROP_FILES = ['Knee/Props/C07.lean', 'Knee/Props/C07S.lean']
RULE = ('exhaustive: every subset of {0..n-1} containing both ends (n<=9 quick / 11 thorough) x ascending position '
        'lists (all multisets up to length 3 + full/identity/random) x sorted table, reversed/random row permutations with '
        'sorted=False, int- and float-typed removed tables; random reductions to n=2000; simplifier outputs. '
        'non-trivial = at least one dropped point before some queried position and (reduced, I, row order) new in this run')
ASSUMPTIONS = ['indices are non-negative Python ints / numpy ints (negative positions wrap in NumPy and are outside the statement)']


@core.safe_case
def check_one(ctx, reduced, I, order, family, float_rows=False):
    import kneeliverse.rdp as rdp
    n = reduced[-1] + 1
    pts = np.column_stack([np.arange(n, dtype=float), np.zeros(n)])
    red = np.array(reduced)
    case = dict(reduced=list(map(int, reduced)), I=list(map(int, I)), order=order, float_rows=float_rows)
    try:
        removed = rdp.compute_removed_points(pts, red)
    except Exception as e:
        ctx.fail('predicate', 'compute_removed_points-completes', 'rdp.compute_removed_points', case, repr(e))
        return
    expect_rows = [(reduced[i], reduced[i + 1] - reduced[i] - 1) for i in range(len(reduced) - 1)]
    got_rows = [tuple(int(v) for v in r) for r in removed.tolist()]
    d = ctx.get_driver()
    m_rows = core.parse_pairs(d.call('computeRemoved', [core.nats(reduced)])[0])
    ctx.corr_checked += 1
    if got_rows != m_rows:
        ctx.fail('correspondence', 'computeRemoved', 'rdp.compute_removed_points', case, dict(impl=got_rows, model=m_rows))
    if got_rows != expect_rows:
        ctx.fail('predicate', 'removed-table-one-row-per-segment', 'rdp.compute_removed_points', case, dict(impl=got_rows, expected=expect_rows))
        return
    rows = removed.astype(float) if float_rows else removed
    srt = True
    if order == 'reversed':
        rows, srt = rows[::-1], False
    elif order == 'shuffled':
        perm = list(range(len(rows)))
        ctx.rng.shuffle(perm)
        rows, srt = rows[perm], False
    elif order == 'sorted-flag-false':
        srt = False
    case['rows'] = [[int(a), int(b)] for a, b in rows.tolist()]
    try:
        out = rdp.mapping(np.array(I, dtype=int), red, rows, sorted=srt) if len(rows) or True else None
        got = [int(v) for v in out.tolist()]
    except Exception as e:
        ctx.fail('predicate', 'mapping-completes', 'rdp.mapping', case, repr(e))
        return
    want = [int(reduced[i]) for i in I]
    model = core.parse_nats(d.call('mapping', [core.nats(I), core.nats(reduced), core.pairs(case['rows']), '1' if srt else '0'])[0])
    ctx.corr_checked += 1
    if model != got:
        ctx.fail('correspondence', 'mapping', 'rdp.mapping', case, dict(impl=got, model=model))
    if got != want:
        ctx.fail('predicate', 'mapping-equals-reduced-of-I', 'rdp.mapping', case, dict(impl=got, expected=want))
    nontrivial = any(reduced[i] != i for i in I)
    ctx.count(family, n=n, nontrivial_key=(tuple(reduced), tuple(I), order, tuple(map(tuple, case['rows']))) if nontrivial else None, sample=case)
    if order != 'sorted':
        ctx.tag('unsorted-table')
    if float_rows:
        ctx.tag('float-typed-rows')
    if len(set(I)) < len(I):
        ctx.tag('repeated-position')


def position_lists(rng, m, exhaustive_upto=3):
    yield list(range(m))
    yield []
    yield [m - 1]
    for L in range(1, exhaustive_upto + 1):
        for c in itertools.combinations_with_replacement(range(m), L):
            yield list(c)


def simplifier_cases(ctx, budget):
    """(reduced, removed) as actually produced by the simplifiers: removed == compute_removed_points
    and mapping(all positions) == reduced."""
    import kneeliverse.rdp as rdp
    import kneeliverse.metrics as metrics
    rng = ctx.rng
    nlong = 2 if ctx.tier == 'quick' else 12
    for it in range(budget + nlong):
        n = rng.randrange(3, 40)
        pts, fam = gen.dyadic_curve(rng, n)
        if it < nlong:
            # a LONG trace (thousands of points; beyond 4096 and 8192): whatever a simplifier does differently on long inputs - windows, chunks,
            # strides - must still hand out a removed table that accounts for every point
            n = rng.choice([rng.randrange(4097, 4200), rng.randrange(5000, 9000), rng.randrange(8193, 8300)])
            xs_ = np.arange(n, dtype=float)
            pts = np.column_stack([xs_, np.round(65536.0 * np.exp(-rng.choice([0.0005, 0.001]) * xs_)) / 16.0 + np.array([rng.randrange(0, 4) / 4.0 for _ in range(n)])])
            fam = 'long-trace'
        elif rng.random() < 0.2:
            # exactly straight / flat runs sampled unevenly (one gap far wider than the rest): the simplifiers' perfect-fit fall-back path
            gaps = [rng.choice([1, 1, 2]) for _ in range(n - 1)]
            gaps[rng.choice([n - 2, n - 2, rng.randrange(0, n - 1)])] = rng.choice([16, 64, 1000])
            x = np.concatenate([[0.0], np.cumsum(gaps)])
            m = rng.choice([0.0, 0.0, -1.0, -0.5, 2.0])
            y = m * (x - x[-1]) if m < 0 else (m * x + 3.0)
            if n > 4 and rng.random() < 0.4:
                y[rng.randrange(1, n - 1)] += rng.choice([1.0, 4.0])
            pts, fam = np.column_stack([x, y]).astype(float), 'straight-uneven-x'
        which = rng.choice(['rdp', 'rdp_fixed', 'grdp', 'mp_grdp', 'min_point_rdp', 'min_point_rdp'])
        if it < nlong:
            which = 'rdp' if it % 2 == 0 else rng.choice(['rdp_fixed', 'grdp', 'mp_grdp'])
        case = dict(points=pts.tolist(), simplifier=which)
        # every distance / cost / ordering option, not only the defaults
        dist_ = rng.choice(list(rdp.Distance))
        order_ = rng.choice(list(rdp.Order))
        cost_ = rng.choice([m_ for m_ in metrics.Metrics if m_ is not metrics.Metrics.r2])
        case.update(distance=dist_.name, order=order_.name, cost=cost_.name)
        try:
            def call():
                if which == 'rdp':
                    return rdp.rdp(pts, t=rng.choice([0.01, 0.1, 0.5]), distance=dist_, cost=cost_)
                if which == 'rdp_fixed':
                    return rdp.rdp_fixed(pts, length=rng.randrange(2, min(n, 60) + 1), distance=dist_, order=order_)
                if which == 'grdp':
                    return rdp.grdp(pts, t=rng.choice([0.01, 0.1, 0.5]), distance=dist_, cost=cost_, order=order_)
                if which == 'mp_grdp':
                    return rdp.mp_grdp(pts, t=rng.choice([0.01, 0.1]), min_points=rng.randrange(2, min(n, 60) + 1), distance=dist_, cost=cost_, order=order_)
                return rdp.min_point_rdp(pts, t=[rng.choice([0.5, 0.2, 0.1]), rng.choice([0.05, 0.01])], min_points=rng.randrange(2, min(n, 60) + 1))
            (reduced, removed), _ = core.guarded(call, 64 * (2 * n) + 1024)
        except core.LoopBudgetExceeded:
            ctx.tag('simplifier-loop-budget(C01 territory)')
            continue
        except Exception:
            ctx.tag('simplifier-raised(C01 territory)')
            continue
        red = [int(v) for v in reduced.tolist()]
        if not (red and red[0] == 0 and red[-1] == n - 1 and all(a < b for a, b in zip(red, red[1:]))):
            # C01 decides well-formedness; the clauses of C07 are stated for EVERY reduction a simplifier produces and are evaluated all the same
            ctx.tag('simplifier-malformed(also C01)')
            if not red:
                continue
        crp = rdp.compute_removed_points(pts, reduced)
        a = [[int(u), int(v)] for u, v in np.asarray(removed).reshape(-1, 2).tolist()]
        b = [[int(u), int(v)] for u, v in np.asarray(crp).reshape(-1, 2).tolist()]
        case.update(reduced=red, removed=a)
        if a != b:
            ctx.fail('predicate', 'compute_removed_points-reproduces-simplifier-table', 'rdp.' + which, case, dict(simplifier=a, recomputed=b))
        I = list(range(len(red)))
        got = [int(v) for v in rdp.mapping(np.array(I), reduced, removed).tolist()]
        if got != red:
            ctx.fail('predicate', 'mapping-equals-reduced-of-I', 'rdp.mapping∘rdp.' + which, case, dict(impl=got, expected=red))
        # a partial position list and a shuffled table with sorted=False, on the table the simplifier itself returned
        if len(red) >= 2:
            I2 = sorted(rng.sample(range(len(red)), rng.randrange(1, len(red) + 1)))
            perm = list(range(len(np.asarray(removed).reshape(-1, 2))))
            rng.shuffle(perm)
            try:
                g1 = [int(v) for v in rdp.mapping(np.array(I2), reduced, removed).tolist()]
                g2 = [int(v) for v in rdp.mapping(np.array(I2), reduced, np.asarray(removed).reshape(-1, 2)[perm], sorted=False).tolist()]
            except Exception as e:
                ctx.fail('predicate', 'mapping-completes-on-simplifier-output', 'rdp.mapping∘rdp.' + which, case, repr(e)[:200])
            else:
                want2 = [red[i] for i in I2]
                if g1 != want2 or g2 != want2:
                    ctx.fail('predicate', 'mapping-equals-reduced-of-I(partial I; sorted and shuffled table)', 'rdp.mapping∘rdp.' + which, case,
                             dict(I=I2, sorted_true=g1, sorted_false=g2, expected=want2, row_order=perm))
        ctx.count('simplifier-' + which, n=n, nontrivial_key=(which, tuple(red)) if len(red) < n else None, sample=dict(simplifier=which, reduced=red))


def run(ctx):
    rng = ctx.rng
    nmax = 9 if ctx.tier == 'quick' else 11
    # exhaustive small scope
    for n in range(2, nmax + 1):
        for reduced in gen.strict_subsets_with_ends(n):
            m = len(reduced)
            for I in position_lists(rng, m, 3 if n <= 7 else 1):
                check_one(ctx, reduced, I, 'sorted', 'exhaustive')
            I = sorted(rng.choices(range(m), k=rng.randrange(1, m + 2)))
            for order in ('reversed', 'shuffled', 'sorted-flag-false'):
                check_one(ctx, reduced, I, order, 'exhaustive-unsorted', float_rows=(rng.random() < 0.5))
    ctx.extra_cov = dict(exhaustive=False, exhaustive_scope=f'all index subsets with both ends for n<={nmax}')
    # random large
    N = 300 if ctx.tier == 'quick' else 3000
    for _ in range(N):
        n = rng.choice([5, 17, 64, 200, 2000]) if rng.random() < 0.5 else rng.randrange(2, 60)
        reduced = gen.random_subset_with_ends(rng, n)
        m = len(reduced)
        I = sorted(rng.choices(range(m), k=rng.randrange(0, min(m, 12) + 1)))
        order = rng.choice(['sorted', 'reversed', 'shuffled', 'sorted-flag-false'])
        check_one(ctx, reduced, I, order, 'random', float_rows=(rng.random() < 0.5))
    simplifier_cases(ctx, 150 if ctx.tier == 'quick' else 1500)


def replay(ctx, body):
    c = body['case']
    if 'reduced' in c and 'I' in c:
        check_one(ctx, c['reduced'], c['I'], c.get('order', 'sorted'), 'replay', c.get('float_rows', False))

"""X01 — the R²-neighbourhood searches of evaluation.py (get_neighbourhood, _binary, _fast, the _points wrappers), knee_ranking.slope_ranking
and the index skeleton of evaluation.accuracy_knee."""
import math
import numpy as np
from fractions import Fraction as F
from .. import core, gen

PROP_FILE = 'Knee/Props/X01.lean'
PROP_FILES = ['Knee/Props/X01.lean']
RULE = ('curves from harness/gen.py (dyadic families, float curves, near ties) plus plateaus (tss = 0), repeated x (the (0, 0) fit), one-point slices and '
        'an overflow family (y·2^520: r2 = nan / -inf); n in 2..40 (quick); a over the whole range (also a = 0 and a >= n), b in {0, a-2, a-1, a, a+1, a+2, random}; '
        'thresholds from a grid (incl. 1.0, >1, <0, ±inf, nan) and from the r2 values of the very input (exact ties r2 == t and both neighbours nextafter(r2, ±inf)). '
        'Correspondence is oracle-fed: r2/slope of every slice i..a come from the package\'s own lf.linear_fit / lf.linear_r2 on the same sub-arrays and travel as exact '
        'extended rationals (nan, ±inf modelled); indices and the sequence of evaluated indices (recorded linear_r2 calls) are compared exactly, returned r2/slope floats '
        'bit-wise with the oracle values. Predicates on the REAL outputs: range, invariant, iteration bounds, run characterisation, exception behaviour, rank shape. '
        'non-trivial = some loop of the searches iterates at least once / at least two knees ranked')
ASSUMPTIONS = ['r2 i / slope i are what lf.linear_r2 / lf.linear_fit return on x[i:a+1], y[i:a+1] (the harness calls exactly these on the same slices)',
               'an oracle evaluation on an EMPTY slice is the IndexError raised by lf.linear_fit (x[0] on an empty array)',
               'numpy int64 / int64 true division of small integers is the correctly rounded quotient (used to compare k/(m-1))']

GRID_OK = [0.0, 0.5, 0.8, 0.9, 0.95, 0.99, 0.999, -1.0, -50.0]
GRID_ODD = [1.0, 1.5, float('inf'), float('-inf'), float('nan')]       # t >= 1.0 / nan: get_neighbourhood raises UnboundLocalError
GRID = GRID_OK + GRID_ODD


# ----------------------------------------------------------------------------------------------------------------------
# helpers
# ----------------------------------------------------------------------------------------------------------------------
def ext(v):
    """float -> wire token of an extended rational"""
    v = float(v)
    if math.isnan(v):
        return 'nan'
    if math.isinf(v):
        return 'inf' if v > 0 else '-inf'
    return core.rat(v)


def exts(vs):
    vs = list(vs)
    return ','.join('nan' if v is None else ext(v) for v in vs) if vs else '-'


def same_float(u, v):
    u, v = float(u), float(v)
    if math.isnan(u) or math.isnan(v):
        return math.isnan(u) and math.isnan(v)
    return u == v and math.copysign(1.0, u) == math.copysign(1.0, v)


def same_ext(tok, v):
    """model token (extended rational) == real float, exactly"""
    v = float(v)
    if tok in ('nan', 'inf', '-inf'):
        return ext(v) == tok
    return math.isfinite(v) and F(tok) == F(v)


def clog2(d):
    return 0 if d <= 1 else (d - 1).bit_length()


def oracles(x, y, a, upto):
    """(R, S): R[i], S[i] = linear_r2 / slope of the slice i..a for i = 0..upto; None where the slice is empty (the primitive raises there)"""
    import kneeliverse.linear_fit as lf
    R, S = [], []
    for i in range(upto + 1):
        xs, ys = x[i:a + 1], y[i:a + 1]
        if len(xs) == 0:
            R.append(None)
            S.append(None)
            continue
        coef = lf.linear_fit(xs, ys)
        R.append(float(lf.linear_r2(xs, ys, coef)))
        S.append(coef[1])
    return R, S


class record_r2:
    """record the slices on which evaluation.py calls lf.linear_r2 (instrumentation only: the original is called and its value returned)"""

    def __init__(self, a, n):
        self.hi = min(a + 1, n)
        self.idx = []

    def __enter__(self):
        import kneeliverse.linear_fit as lf
        self.lf, self.orig = lf, lf.linear_r2

        def wrapped(x, y, coef, *p, **k):
            self.idx.append(self.hi - len(x))
            return self.orig(x, y, coef, *p, **k)
        lf.linear_r2 = wrapped
        return self

    def __exit__(self, *e):
        self.lf.linear_r2 = self.orig


def call(fn, budget=200_000):
    """run the real function under the while-iteration guard; ('ok', value, while-headers) | ('raise', exception type name, None)"""
    try:
        v, cnt = core.guarded(fn, budget)
        return 'ok', v, cnt
    except core.LoopBudgetExceeded:
        raise
    except Exception as e:
        return 'raise', type(e).__name__, None


def first_undefined(trace, R):
    """first evaluated index whose oracle does not exist (empty slice)"""
    for j in trace:
        if j >= len(R) or R[j] is None:
            return j
    return None


# ----------------------------------------------------------------------------------------------------------------------
# one (curve, a, b, t): the three searches
# ----------------------------------------------------------------------------------------------------------------------
@core.safe_case
def one(ctx, pts, a, b, t, family):
    import kneeliverse.evaluation as ev
    x, y = np.ascontiguousarray(pts[:, 0]), np.ascontiguousarray(pts[:, 1])
    n = len(x)
    a, b, t = int(a), int(b), float(t)
    case = dict(points=pts.tolist(), a=a, b=b, t=t)
    d = ctx.get_driver()
    R, S = oracles(x, y, a, max(a, b) + 1)
    ca, cb = a, b
    if (a + 3 * b + n) % 5 == 0:
        # what slope_ranking / accuracy_knee pass on: numpy integers taken from the knees array
        ca, cb = np.int64(a), np.int64(b)
        ctx.tag('arguments:np.int64')
    Rtok = exts(R)
    nontrivial = False
    if any(v is not None and math.isnan(v) for v in R):
        ctx.tag('oracle:nan-r2')
    if any(v is not None and math.isinf(v) for v in R):
        ctx.tag('oracle:inf-r2')
    if any(v is not None and v == t for v in R[:a]):
        ctx.tag('tie:r2==t')
    gt = lambda v: v > t       # exactly the comparisons the code makes (IEEE: false on nan)
    lt = lambda v: v < t

    # ------------------------------------------------------------------ get_neighbourhood_binary
    site = 'evaluation.get_neighbourhood_binary'
    try:
        kind, val, cnt = call(lambda: ev.get_neighbourhood_binary(x, y, ca, cb, t))
    except core.LoopBudgetExceeded as e:
        ctx.fail('predicate', 'binary-terminates', site, case, str(e))
        kind = None
    if kind is not None:
        m = d.call('nb_binary', [ext(t), str(a), str(b), Rtok])
        ctx.corr_checked += 1
        if m[0] == 'none':
            ctx.fail('correspondence', 'nbBinary-fuel-exhausted', site, case, dict(model=m))
        else:
            mi, mright, mtrace = int(m[0]), int(m[1]), core.parse_nats(m[2])
            bad = first_undefined(mtrace, R)
            if bad is not None:
                ctx.tag('binary:oracle-on-empty-slice')
                if not (kind == 'raise' and val == 'IndexError'):
                    ctx.fail('correspondence', 'nbBinary-evaluates-an-empty-slice=>IndexError', site, case, dict(impl=(kind, val), model_trace=mtrace, index=bad))
            elif kind == 'raise':
                ctx.fail('predicate', 'binary-completes', site, case, dict(raised=val, model=m))
            else:
                ri = int(val)
                with record_r2(a, n) as rec:
                    ri2 = int(ev.get_neighbourhood_binary(x, y, ca, cb, t))
                if ri != mi or rec.idx != mtrace or ri2 != ri:
                    ctx.fail('correspondence', 'nbBinary(index, evaluated indices)', site, case, dict(impl=ri, impl_trace=rec.idx, model=mi, model_trace=mtrace))
                iters = cnt - 1
                if iters != len(rec.idx):
                    ctx.fail('predicate', 'binary-one-r2-evaluation-per-iteration', site, case, dict(while_headers=cnt, r2_calls=len(rec.idx)))
                if b <= a:
                    if not (b <= ri <= a):
                        ctx.fail('predicate', 'binary-result-in-[b,a]', site, case, dict(result=ri))
                    if iters > (((a - b) // 2) + 1) * clog2(a - b):
                        ctx.fail('predicate', 'binary-iterations<=(floor((a-b)/2)+1)*ceil(log2(a-b))', site, case, dict(iterations=iters))
                    if any(not (b <= j and j + 2 <= a) for j in rec.idx):
                        ctx.fail('predicate', 'binary-evaluated-indices-in-[b,a-2]', site, case, dict(trace=rec.idx))
                    if a - b <= 1 and (ri != b or rec.idx):
                        ctx.fail('predicate', 'binary-adjacent-limits-return-b-without-evaluation', site, case, dict(result=ri, trace=rec.idx))
                    # final `right` (recomputed from the recorded run): a or an index where r2 < t failed; right - i <= 1
                    if not (mright == a or not lt(R[mright])) or not (mi <= mright <= mi + 1):
                        ctx.fail('predicate', 'binary-right-postcondition', site, case, dict(i=mi, right=mright))
                    if iters > 2 * clog2(a - b) + 2:
                        ctx.tag('binary:more-than-2log2+2-iterations')
                    if len(set(rec.idx)) < len(rec.idx):
                        ctx.tag('binary:same-slice-fitted-twice')
                else:
                    ctx.tag('binary:b>a-returns')
                    if ri != a + 1 or b != a + 1:
                        ctx.fail('predicate', 'binary-b>a-returns-only-for-b=a+1-and-then-a+1', site, case, dict(result=ri))
                if rec.idx:
                    nontrivial = True

    # ------------------------------------------------------------------ get_neighbourhood_fast
    site = 'evaluation.get_neighbourhood_fast'
    try:
        kind, val, cnt = call(lambda: ev.get_neighbourhood_fast(x, y, ca, cb, t))
    except core.LoopBudgetExceeded as e:
        ctx.fail('predicate', 'fast-terminates', site, case, str(e))
        kind = None
    if kind is not None:
        m = d.call('nb_fast', [ext(t), str(a), str(b), Rtok])
        ctx.corr_checked += 1
        if m[0] == 'none':
            ctx.fail('correspondence', 'nbFast-fuel-exhausted', site, case, dict(model=m))
        else:
            mi, mr2, mbin, mlin = int(m[0]), m[1], core.parse_nats(m[2]), core.parse_nats(m[3])
            bad = first_undefined(mbin + mlin, R)
            if bad is not None:
                ctx.tag('fast:oracle-on-empty-slice')
                if not (kind == 'raise' and val == 'IndexError'):
                    ctx.fail('correspondence', 'nbFast-evaluates-an-empty-slice=>IndexError', site, case, dict(impl=(kind, val), model_trace=mbin + mlin, index=bad))
            elif kind == 'raise':
                ctx.fail('predicate', 'fast-completes', site, case, dict(raised=val, model=m))
            else:
                ri, rr2, rsl = int(val[0]), val[1], val[2]
                with record_r2(a, n) as rec:
                    ev.get_neighbourhood_fast(x, y, ca, cb, t)
                if ri != mi or rec.idx != mbin + mlin:
                    ctx.fail('correspondence', 'nbFast(index, evaluated indices)', site, case, dict(impl=ri, impl_trace=rec.idx, model=mi, model_trace=[mbin, mlin]))
                elif not same_ext(mr2, rr2) or not same_float(rr2, R[ri]) or not same_float(rsl, S[ri]):
                    ctx.fail('correspondence', 'nbFast(returned r2 and slope are the oracle values at the returned index)', site, case,
                             dict(impl=(ri, float(rr2), float(rsl)), oracle=(R[ri], float(S[ri])), model_r2=mr2))
                if b <= a:
                    k0 = mlin[0]
                    if not (b <= k0 <= ri <= a):
                        ctx.fail('predicate', 'fast-index-in-[binary result,a]', site, case, dict(binary=k0, result=ri))
                    if not ((not lt(float(rr2))) or ri == a):
                        ctx.fail('predicate', 'fast-returned-r2-not-below-t-or-index-is-a', site, case, dict(result=ri, r2=float(rr2)))
                    if any(not lt(R[j]) for j in range(k0, ri)):
                        ctx.fail('predicate', 'fast-skipped-indices-all-have-r2<t', site, case, dict(binary=k0, result=ri))
                    if ri == a and lt(float(rr2)):
                        ctx.tag('fast:index-a-with-r2<t(one-point slice: 1-y[a]^2)')
                    if ri > k0:
                        ctx.tag('fast:linear-phase-moves')
                        nontrivial = True

    # ------------------------------------------------------------------ get_neighbourhood
    site = 'evaluation.get_neighbourhood'
    try:
        kind, val, cnt = call(lambda: ev.get_neighbourhood(x, y, ca, cb, t))
    except core.LoopBudgetExceeded as e:
        ctx.fail('predicate', 'linear-terminates', site, case, str(e))
        kind = None
    if kind is not None:
        m = d.call('nb_linear', [ext(t), str(a), str(b), Rtok])
        ctx.corr_checked += 1
        init_ok = a >= 1 and a - 1 < n            # the initial two-point fit x[a-1:a+1] exists
        if m[0] == 'negindex':
            ctx.tag('linear:a=0')
            # i = -1: x[-1:1] is empty for n >= 2 (IndexError); for n = 1 it is the whole array
            if n >= 2 and not (kind == 'raise' and val == 'IndexError'):
                ctx.fail('correspondence', 'nbLinear-a=0=>IndexError(n>=2)', site, case, dict(impl=(kind, val)))
        elif not init_ok:
            ctx.tag('linear:start-beyond-the-array')
            if not (kind == 'raise' and val == 'IndexError'):
                ctx.fail('correspondence', 'nbLinear-initial-fit-on-an-empty-slice=>IndexError', site, case, dict(impl=(kind, val)))
        elif m[0] == 'unbound':
            ctx.tag('linear:unbound(t>=1 or nan)')
            if not (kind == 'raise' and val == 'UnboundLocalError'):
                ctx.fail('correspondence', 'nbLinear-unbound=>UnboundLocalError', site, case, dict(impl=(kind, val), model=m))
            if gt(1.0):
                ctx.fail('predicate', 'linear-UnboundLocalError-iff-not(1.0>t)', site, case, dict(impl=(kind, val)))
        else:
            mi, mr2, mtrace = int(m[1]), m[2], core.parse_nats(m[3])
            if kind == 'raise':
                ctx.fail('predicate', 'linear-returns-when-a>=1-and-t<1.0', site, case, dict(raised=val, model=m))
            else:
                ri, rr2, rsl = int(val[0]), val[1], val[2]
                with record_r2(a, n) as rec:
                    ev.get_neighbourhood(x, y, ca, cb, t)
                Rv = lambda j: 1.0 if j == a - 1 else R[j]
                if ri != mi or rec.idx != mtrace:
                    ctx.fail('correspondence', 'nbLinear(index, evaluated indices)', site, case, dict(impl=ri, impl_trace=rec.idx, model=mi, model_trace=mtrace))
                elif not same_ext(mr2, rr2) or not same_float(rr2, Rv(ri)) or not same_float(rsl, S[ri]):
                    ctx.fail('correspondence', 'nbLinear(returned r2 = value in hand at the index, slope = oracle at the index)', site, case,
                             dict(impl=(ri, float(rr2), float(rsl)), oracle=(Rv(ri), float(S[ri])), model_r2=mr2))
                if not gt(1.0):
                    ctx.fail('predicate', 'linear-UnboundLocalError-iff-not(1.0>t)', site, case, dict(returned=ri))
                iters = cnt - 1
                if b <= a - 1:
                    if not (b <= ri <= a - 1):
                        ctx.fail('predicate', 'linear-index-in-[b,a-1]', site, case, dict(result=ri))
                elif ri != a - 1 or iters != 0:
                    ctx.fail('predicate', 'linear-b>=a-1-returns-a-1-without-iterating', site, case, dict(result=ri, iterations=iters))
                if iters > max(0, a - 1 - b) or iters != len(rec.idx):
                    ctx.fail('predicate', 'linear-iterations<=a-1-b', site, case, dict(iterations=iters, r2_calls=len(rec.idx)))
                if rec.idx != list(range(a - 2, a - 2 - len(rec.idx), -1)):
                    ctx.fail('predicate', 'linear-evaluates-a-2,a-3,...-contiguously', site, case, dict(trace=rec.idx))
                if b <= ri <= a - 1:
                    run_ok = all(gt(Rv(j)) for j in range(ri, a)) and gt(float(rr2))
                    left_ok = (ri == b) or (ri > b and not gt(Rv(ri - 1)))
                    if not (run_ok and left_ok):
                        ctx.fail('predicate', 'linear-result-is-the-longest-run-of-r2>t-from-a-1(leftmost index >= b)', site, case,
                                 dict(result=ri, values=[Rv(j) for j in range(max(b, 0), a)]))
                if rec.idx:
                    nontrivial = True
                if ri == a - 1 and a >= 1 and R[a - 1] is not None and not same_float(R[a - 1], 1.0):
                    ctx.tag('linear:returns-r2=1.0-where-the-two-point-r2-is-not-1.0')

    # ------------------------------------------------------------------ the _points wrappers are the same functions
    if ctx.rng.random() < 0.25:
        for name, f, g in (('get_neighbourhood_points', ev.get_neighbourhood_points, ev.get_neighbourhood),
                           ('get_neighbourhood_fast_points', ev.get_neighbourhood_fast_points, ev.get_neighbourhood_fast)):
            k1 = call(lambda: f(pts, ca, cb, t))
            k2 = call(lambda: g(x, y, ca, cb, t))
            eq = k1[0] == k2[0] and (k1[1] == k2[1] if k1[0] == 'raise' else
                                     (int(k1[1][0]) == int(k2[1][0]) and same_float(k1[1][1], k2[1][1]) and same_float(k1[1][2], k2[1][2])))
            if not eq:
                ctx.fail('predicate', 'points-wrapper-equals-the-xy-function', 'evaluation.' + name, case, dict(points=str(k1[:2]), xy=str(k2[:2])))
    ctx.count(family, n=n, nontrivial_key=(pts.tobytes(), a, b, repr(t)) if nontrivial else None,
              sample=dict(points=pts.tolist()[:12], a=a, b=b, t=t))


# ----------------------------------------------------------------------------------------------------------------------
# slope_ranking, accuracy_knee
# ----------------------------------------------------------------------------------------------------------------------
class record_calls:
    """record (a, b, extra args, result) of the calls evaluation.<name> receives from the package"""

    def __init__(self, name):
        self.name, self.calls = name, []

    def __enter__(self):
        import kneeliverse.evaluation as ev
        self.ev, self.orig = ev, getattr(ev, self.name)

        def wrapped(x, y, a, b, *p, **k):
            r = self.orig(x, y, a, b, *p, **k)
            self.calls.append((int(a), int(b), p, dict(k), (int(r[0]), float(r[1]), float(r[2]))))
            return r
        setattr(ev, self.name, wrapped)
        return self

    def __exit__(self, *e):
        setattr(self.ev, self.name, self.orig)


@core.safe_case
def rank_case(ctx, pts, knees, t, family):
    import kneeliverse.knee_ranking as kr
    x, y = np.ascontiguousarray(pts[:, 0]), np.ascontiguousarray(pts[:, 1])
    n, m = len(x), len(knees)
    knees = [int(k) for k in knees]
    t = float(t)
    case = dict(points=pts.tolist(), knees=knees, t=t)
    site = 'knee_ranking.slope_ranking'
    d = ctx.get_driver()
    karr = np.array(knees, dtype=int)
    try:
        kind, val, _ = call(lambda: kr.slope_ranking(pts, karr, t))
    except core.LoopBudgetExceeded as e:
        ctx.fail('predicate', 'slope_ranking-terminates', site, case, str(e))
        return
    rows_r, rows_s, finite = [], [], True
    for a in knees:
        if m >= 2 and 1 <= a <= n - 1:
            R, S = oracles(x, y, a, a)
            rows_r.append(exts(R))
            sa = [abs(float(s)) for s in S]
            if not all(math.isfinite(s) for s in sa):
                finite = False
            rows_s.append(core.rats([s if math.isfinite(s) else 0.0 for s in sa]))
        else:
            rows_r.append('-')
            rows_s.append('-')
    if not finite:
        ctx.tag('skipped:non-finite-slope')
        ctx.count(family, n=n)
        return
    if any(a > n - 1 for a in knees) and m >= 2:
        ctx.tag('skipped:knee-beyond-the-array')
        ctx.count(family, n=n)
        return
    mres = d.call('slope_ranking', [ext(t), core.nats(knees), ';'.join(rows_r) if rows_r else '-', ';'.join(rows_s) if rows_s else '-'])
    ctx.corr_checked += 1
    nontrivial = False
    if mres[0] == 'error':
        want = {'empty': 'IndexError', 'negindex': 'IndexError', 'unbound': 'UnboundLocalError'}[mres[1]]
        ctx.tag('slope_ranking:raises-' + mres[1])
        if not (kind == 'raise' and val == want):
            ctx.fail('correspondence', 'slopeRanking-error=>' + want, site, case, dict(impl=(kind, str(val)[:80]), model=mres))
        ok_expected = False
    else:
        ok_expected = True
    # the preconditions the code silently needs (theorem slopeRanking_ok_iff)
    pre = (m == 1) or (m >= 2 and (1.0 > t) and all(k >= 1 for k in knees))
    if pre != (kind == 'ok'):
        ctx.fail('predicate', 'slope_ranking-returns-iff-(one knee) or (>=2 knees, t<1.0, every knee>=1)', site, case, dict(impl=(kind, str(val)[:80])))
    if ok_expected and kind == 'ok':
        out = np.asarray(val)
        outl = [float(v) for v in out.tolist()]
        mvals = core.parse_rats(mres[1])
        midx = core.parse_nats(mres[2]) if len(mres) > 2 else []
        mfloat = [q.numerator / q.denominator for q in mvals]
        if len(outl) != m:
            ctx.fail('predicate', 'slope_ranking-one-rank-per-knee', site, case, dict(output=outl))
        elif m == 1:
            if outl != [1.0] or mfloat != [1.0]:
                ctx.fail('predicate', 'slope_ranking-single-knee-is-[1.0]', site, case, dict(output=outl, model=mfloat))
        else:
            if sorted(outl) != [k / (m - 1) for k in range(m)]:
                ctx.fail('predicate', 'slope_ranking-output-is-a-permutation-of-k/(m-1)', site, case, dict(output=outl))
            # the calls the package makes: (knees[i], knees[i-1]) and their results
            with record_calls('get_neighbourhood') as rec:
                kr.slope_ranking(pts, karr, t)
            args = [(c[0], c[1]) for c in rec.calls]
            if args != list(zip(knees, [0] + knees[:-1])) or any(c[2] != (t,) or c[3] for c in rec.calls):
                ctx.fail('predicate', 'slope_ranking-calls-get_neighbourhood(knees[i], knees[i-1], t)', site, case, dict(calls=args))
            ridx = [c[4][0] for c in rec.calls]
            if ridx != midx:
                ctx.fail('correspondence', 'slopeRanking(neighbourhood indices)', site, case, dict(impl=ridx, model=midx))
            else:
                slopes = [abs(c[4][2]) for c in rec.calls]
                if sorted(knees) == knees and len(set(knees)) == m:
                    for (a_, b_), k_ in zip(args, ridx):
                        if not (b_ <= k_ < a_):
                            ctx.fail('predicate', 'slope_ranking-increasing-knees>=1:neighbourhood-index-in-[previous knee, knee-1]', site, case, dict(a=a_, b=b_, index=k_))
                ranks = [round(v * (m - 1)) for v in outl]
                if any(ranks[i] < ranks[j] and slopes[i] > slopes[j] for i in range(m) for j in range(m)):
                    ctx.fail('predicate', 'slope_ranking-ranks-order-the-|slope|-values', site, case, dict(output=outl, slopes=slopes))
                if len(set(slopes)) == m:
                    if outl != mfloat:
                        ctx.fail('correspondence', 'slopeRanking(values)', site, case, dict(impl=outl, model=mfloat))
                else:
                    ctx.tag('slope_ranking:tied-|slope|(relational)')
                    okr = d.call('rank_ok', [core.rats(slopes), core.nats(ranks)])[0]
                    nrm = core.parse_rats(d.call('norm_ranks', [core.nats(ranks)])[0])
                    if okr != '1' or [q.numerator / q.denominator for q in nrm] != outl:
                        ctx.fail('correspondence', 'IsRankOf(|slope|, ranks) and normRanks', site, case, dict(output=outl, slopes=slopes, ranks=ranks))
            nontrivial = True
    ctx.count(family, n=n, nontrivial_key=(pts.tobytes(), tuple(knees), repr(t)) if nontrivial else None,
              sample=dict(points=pts.tolist()[:12], knees=knees, t=t, output=(val.tolist() if kind == 'ok' else val)))


@core.safe_case
def accuracy_case(ctx, pts, knees, family):
    """index skeleton of accuracy_knee: get_neighbourhood_fast(x, y, knees[i], previous knee) with whatever threshold the call receives"""
    import kneeliverse.evaluation as ev
    x, y = np.ascontiguousarray(pts[:, 0]), np.ascontiguousarray(pts[:, 1])
    n = len(x)
    knees = [int(k) for k in knees]
    case = dict(points=pts.tolist(), knees=knees)
    site = 'evaluation.accuracy_knee'
    d = ctx.get_driver()
    karr = np.array(knees, dtype=int)
    tparam = 0.5          # deliberately not the default 0.9 of get_neighbourhood_fast
    with record_calls('get_neighbourhood_fast') as rec:
        kind, val, _ = call(lambda: ev.accuracy_knee(pts, karr, tparam))
    if kind != 'ok':
        ctx.fail('predicate', 'accuracy_knee-completes-for-increasing-knees-in-range', site, case, dict(raised=val))
        return
    args = [(c[0], c[1]) for c in rec.calls]
    if args != list(zip(knees, [0] + knees[:-1])):
        ctx.fail('predicate', 'accuracy_knee-calls-get_neighbourhood_fast(knees[i], previous knee)', site, case, dict(calls=args))
    # the threshold the calls really receive: the parameter t of accuracy_knee, or (as the code stands) nothing, i.e. the default 0.9
    used = {(c[2][0] if c[2] else c[3].get('t', 0.9)) for c in rec.calls}
    if used == {0.9}:
        ctx.tag('accuracy_knee:threshold-not-passed-on(default 0.9 used, parameter t ignored)')
    elif used == {tparam}:
        ctx.tag('accuracy_knee:threshold-passed-on')
    else:
        ctx.fail('predicate', 'accuracy_knee-one-threshold-for-all-calls', site, case, dict(used=sorted(used)))
        return
    tused = used.pop()
    rows = [exts(oracles(x, y, a, a)[0]) for a in knees]
    midx = d.call('accuracy_knee', [ext(tused), core.nats(knees), ';'.join(rows)])[0].split(',')
    ctx.corr_checked += 1
    ridx = [str(c[4][0]) for c in rec.calls]
    if ridx != midx:
        ctx.fail('correspondence', 'accuracyKneeCalls(indices)', site, case, dict(impl=ridx, model=midx))
    for (a_, b_), k_ in zip(args, rec.calls):
        if not (b_ <= k_[4][0] <= a_):
            ctx.fail('predicate', 'accuracy_knee-neighbourhood-index-in-[previous knee, knee]', site, case, dict(a=a_, b=b_, index=k_[4][0]))
    ctx.count(family, n=n, nontrivial_key=(pts.tobytes(), tuple(knees)), sample=dict(points=pts.tolist()[:12], knees=knees))


# ----------------------------------------------------------------------------------------------------------------------
# generators
# ----------------------------------------------------------------------------------------------------------------------
def curve(rng, n):
    u = rng.random()
    if u < 0.5:
        pts, fam = gen.dyadic_curve(rng, n)
        if '@' not in fam:
            pts, vt = gen.near_ties(rng, pts, 0.15)
            fam += vt
        pts = pts[:n]
    elif u < 0.7:
        pts, fam = gen.float_curve(rng, n)
    elif u < 0.8:
        # piecewise linear with exactly straight pieces (r2 exactly 1.0 on them) and a few kinks
        x = np.arange(n, dtype=float) * rng.choice([1.0, 0.5, 2.0])
        y, cur, sl = [], float(rng.randrange(0, 40)), rng.choice([-2.0, -1.0, -0.5, 0.0, 1.0])
        for i in range(n):
            y.append(cur)
            if rng.random() < 0.25:
                sl = rng.choice([-4.0, -2.0, -1.0, -0.5, 0.0, 0.5, 1.0, 3.0])
            cur += sl * (x[1] - x[0])
        pts, fam = np.column_stack([x, y]), 'piecewise-exact'
    elif u < 0.88:
        # repeated abscissae: linear_fit returns (0, 0) on slices with x[first] == x[last]
        x = [0.0]
        for _ in range(n - 1):
            x.append(x[-1] + rng.choice([0.0, 0.0, 1.0, 2.0]))
        y = [float(rng.randrange(0, 6)) * rng.choice([1.0, 0.25]) for _ in range(n)]
        pts, fam = np.column_stack([x, y]), 'repeated-x'
    elif u < 0.95:
        # overflow: squared residuals exceed the double range -> r2 = -inf or nan
        pts, fam = gen.dyadic_curve(rng, n, family=rng.choice(['walk', 'steps', 'elbows', 'noisyline']), scale_exp=rng.choice([515, 520, 600]))
        fam = 'overflow-' + fam
        pts = pts[:n]
    else:
        # small heights: the one-point slice has r2 = 1 - y[a]^2 close to 1 (may exceed t)
        x = np.arange(n, dtype=float)
        y = np.array([rng.choice([0.0, 0.125, 0.25, 0.5, 1.0, 0.3]) for _ in range(n)])
        pts, fam = np.column_stack([x, y]), 'small-heights'
    return np.array(pts, dtype=float), fam


def pick_ab(rng, n):
    u = rng.random()
    if u < 0.82:
        a = rng.randrange(1, n)
    elif u < 0.93:
        a = n - 1
    elif u < 0.96:
        a = 0
    else:
        a = n - 1 + rng.randrange(1, 4)          # beyond the array: Python slicing truncates silently
    v = rng.random()
    if v < 0.3:
        b = 0
    elif v < 0.72:
        b = rng.randrange(0, max(1, a))
    else:
        b = max(0, a + rng.choice([-3, -2, -2, -1, -1, 0, 0, 1, 2, 5]))
    return a, b


def pick_t(rng, pts, a):
    x, y = pts[:, 0], pts[:, 1]
    if rng.random() < 0.55 and a >= 1:
        R, _ = oracles(x, y, a, a)
        vals = [v for v in R if v is not None and not math.isnan(v)]
        if vals:
            v = rng.choice(vals)
            if v >= 1.0 and rng.random() < 0.75:
                v = rng.choice([u for u in vals if u < 1.0] or [0.9])         # r2 = 1.0 is frequent (two-point slices): keep most cases below 1.0
            w = rng.random()
            if w < 0.5 or math.isinf(v):
                return v
            return float(np.nextafter(v, math.inf if w < 0.75 else -math.inf))
    return rng.choice(GRID_ODD) if rng.random() < 0.12 else rng.choice(GRID_OK)


def pick_knees(rng, n):
    u = rng.random()
    m = rng.choice([0, 1, 1, 2, 2, 3, 3, 4, 5, 6])
    m = min(m, max(0, n - 1))
    if u < 0.75:
        ks = sorted(rng.sample(range(1, n), m))                      # strictly increasing, >= 1: the intended use
    elif u < 0.85:
        ks = sorted(rng.sample(range(0, n), min(m, n)))                  # may contain the knee 0
        if ks and rng.random() < 0.5:
            ks[0] = 0
    elif u < 0.93:
        ks = [rng.randrange(1, n) for _ in range(m)]                   # unsorted, duplicates
    else:
        ks = [rng.randrange(0, n) for _ in range(m)]
    return ks


def edge_cases(ctx):
    """deterministic small cases: every combination of a, b over a tiny curve, all grid thresholds"""
    rng = ctx.rng
    for n in (1, 2, 3, 5):
        pts, fam = curve(rng, max(n, 2))
        pts = pts[:n] if n >= 2 else pts[:1]
        for a in range(0, n + 2):
            for b in range(0, n + 3):
                if n == 1 and a == 0:
                    continue       # x[-1:1] is the whole one-point array: the only input on which a = 0 returns, see one_point below
                one(ctx, pts, a, b, rng.choice(GRID), 'edge-n%d' % n)


@core.safe_case
def one_point(ctx, yv, b, t):
    """n = 1, a = 0: i = a - 1 = -1 and x[-1:1] is the whole one-point array (the only input on which a = 0 does not raise IndexError):
    the loop cannot run (i = -1 > b is false), so the call returns (-1, 1.0, 0) when 1.0 > t and raises UnboundLocalError otherwise"""
    import kneeliverse.evaluation as ev
    x, y = np.array([0.0]), np.array([float(yv)])
    kind, val, _ = call(lambda: ev.get_neighbourhood(x, y, 0, b, t))
    want = ('ok', (-1, 1.0, 0.0)) if 1.0 > t else ('raise', 'UnboundLocalError')
    got = (kind, (int(val[0]), float(val[1]), float(val[2]))) if kind == 'ok' else (kind, val)
    if got != want:
        ctx.fail('predicate', 'linear-n=1,a=0-returns-(-1,1.0,0)-or-UnboundLocalError', 'evaluation.get_neighbourhood', dict(points=[[0.0, float(yv)]], a=0, b=b, t=t), dict(impl=str(got)))
    ctx.tag('linear:n=1,a=0(index -1 returned)' if kind == 'ok' else 'linear:n=1,a=0(unbound)')
    ctx.count('edge-one-point', n=1)


def run(ctx):
    rng = ctx.rng
    quick = ctx.tier == 'quick'
    edge_cases(ctx)
    for yv in (0.0, 1.0, 3.5):
        for b in (0, 1, 2):
            for t in (0.9, 1.0, -1.0, float('nan')):
                one_point(ctx, yv, b, t)
    for _ in range(3000 if quick else 40000):
        n = rng.choice([2, 3, 4, 5, 6, 8]) if rng.random() < 0.3 else rng.randrange(2, 41 if quick else 120)
        pts, fam = curve(rng, n)
        n = len(pts)
        if n < 2:
            continue
        a, b = pick_ab(rng, n)
        one(ctx, pts, a, b, pick_t(rng, pts, min(a, n - 1)), fam)
    for _ in range(800 if quick else 12000):
        n = rng.randrange(3, 31 if quick else 80)
        pts, fam = curve(rng, n)
        n = len(pts)
        if n < 3:
            continue
        knees = pick_knees(rng, n)
        a0 = knees[-1] if knees else 1
        t = pick_t(rng, pts, min(max(a0, 1), n - 1)) if rng.random() < 0.5 else rng.choice([0.8, 0.8, 0.8, 0.9, 0.9, 0.5, 0.99, 0.999, 0.0, 1.0, 1.5, float('nan')])
        rank_case(ctx, pts, knees, t, 'rank-' + fam)
    for _ in range(250 if quick else 4000):
        n = rng.randrange(4, 31 if quick else 80)
        pts, fam = curve(rng, n)
        n = len(pts)
        if n < 4 or fam.startswith('overflow') or fam.startswith('repeated'):
            continue
        m = rng.randrange(1, min(6, n - 1))
        knees = sorted(rng.sample(range(1, n), m))
        accuracy_case(ctx, pts, knees, 'accuracy-' + fam)


def replay(ctx, body):
    c = body['case']
    pts = np.array(c['points'], float)
    if 'knees' in c and 't' in c:
        rank_case(ctx, pts, c['knees'], c['t'], 'replay')
    elif 'knees' in c:
        accuracy_case(ctx, pts, c['knees'], 'replay')
    else:
        one(ctx, pts, c['a'], c['b'], c['t'], 'replay')

"""C17 — geometric and ranking primitives equal their geometric definitions."""
import math, itertools
from fractions import Fraction as F
import numpy as np
from .. import core

PROP_FILE = 'Knee/Props/C17.lean'
PROP_FILES = ['Knee/Props/C17.lean', 'Knee/Props/Invariance.lean']
RULE = ('point sets / segments / rectangles / triples on dyadic grids (degenerate ones included: a == b, points beyond the segment ends, collinear '
        'triples, touching and nested rectangles). Exact-Q model values (squared distances, IoU, squared Menger curvature, signed area) are compared with '
        'the float results under |f - q| <= 1e-9*(|q| + scale); rank is compared exactly (distinct values) or relationally (ties). Direct predicates: sub-range '
        'perpendicular distances are the distances of exactly that sub-range, IoU symmetric/in [0,1]/1 for identical/0 for disjoint, Menger symmetric under all '
        'permutations and 0 on collinear triples, rank is a permutation that orders the values. non-trivial = non-degenerate configuration; new input')
ASSUMPTIONS = ['finite coordinates; Menger curvature for pairwise distinct points']


def close(f, q, scale):
    f = float(f)
    if math.isnan(f) or math.isinf(f):
        return False
    return abs(F(f) - q) <= F(1, 10 ** 9) * (abs(q) + F(scale)) + F(1, 10 ** 300)


def P(p):
    return core.rats([float(p[0]), float(p[1])])


@core.safe_case
def distances(ctx, pts, a, b, family):
    import kneeliverse.linear_fit as lf
    d = ctx.get_driver()
    case = dict(points=pts.tolist(), a=a.tolist(), b=b.tolist())
    try:
        sd = lf.shortest_distance_points(pts, a, b)
        pdist = None if np.all(a == b) else lf.perpendicular_distance_points(pts, a, b)
    except Exception as e:
        ctx.fail('predicate', 'completes', 'linear_fit.shortest_distance_points/perpendicular_distance_points', case, repr(e)[:200])
        ctx.count(family, n=len(pts))
        return
    # rounding scale of the squared distances: the SPREAD of the configuration about a (the code subtracts a first; exact for these inputs),
    # not the magnitude of the coordinates and not an absolute constant - tiny-scale and large-offset inputs are judged as sharply as unit ones
    scale = float(np.max(np.abs(pts - a)) + np.max(np.abs(b - a)) + 1e-300) ** 2
    for i, p in enumerate(pts):
        q = F(d.call('geom', ['shortestSq', P(p), P(a), P(b)])[0])
        ctx.corr_checked += 1
        if not close(float(sd[i]) ** 2, q, scale * 1e-3):
            ctx.fail('predicate', 'shortest-distance-is-the-distance-to-the-closed-segment', 'linear_fit.shortest_distance_points', case, dict(i=i, impl_sq=float(sd[i]) ** 2, model=float(q)))
    if pdist is not None:
        for i, p in enumerate(pts):
            q = F(d.call('geom', ['perpSq', P(p), P(a), P(b)])[0])
            ctx.corr_checked += 1
            if not close(float(pdist[i]) ** 2, q, scale * 1e-3):
                ctx.fail('predicate', 'perpendicular-distance-is-the-distance-to-the-line', 'linear_fit.perpendicular_distance_points', case, dict(i=i, impl_sq=float(pdist[i]) ** 2, model=float(q)))
    # integer-dtype arrays (what the package's own tests pass), also with byte-count sized values: same distances as the float64 copy
    if '@' not in family and np.all(pts == np.floor(pts)) and np.all(a == np.floor(a)) and np.all(b == np.floor(b)):
        for shift in (0, 36):
            fI, aI, bI = (np.asarray(v).astype(np.int64) * (1 << shift) for v in (pts, a, b))
            fI[:, 0], aI[0], bI[0] = pts[:, 0].astype(np.int64), int(a[0]), int(b[0])      # only y is a byte count; x stays small
            fF, aF, bF = fI.astype(float), aI.astype(float), bI.astype(float)
            ctx.tag('input:int64-dtype' + ('(y*2^36)' if shift else ''))
            for nm, fn in (('shortest_distance_points', lf.shortest_distance_points), ('perpendicular_distance_points', lf.perpendicular_distance_points)):
                if nm.startswith('perp') and np.all(aI == bI):
                    continue
                try:
                    vi = np.asarray(fn(fI, aI, bI), float)
                    vf = np.asarray(fn(fF, aF, bF), float)
                except Exception as e:
                    ctx.fail('predicate', 'completes-on-integer-dtype', 'linear_fit.' + nm, dict(case, y_shift=shift), repr(e)[:200])
                    continue
                if vi.shape != vf.shape or not np.allclose(vi, vf, rtol=1e-9, atol=1e-9 * float(np.max(np.abs(vf)) + 1e-300), equal_nan=True):
                    ctx.fail('predicate', 'integer-dtype-gives-the-same-distances', 'linear_fit.' + nm, dict(case, y_shift=shift), dict(int64=vi.tolist(), float64=vf.tolist()))
    ctx.count(family, n=len(pts), nontrivial_key=(pts.tobytes(), a.tobytes(), b.tobytes()) if not np.all(a == b) else None,
              sample=dict(a=a.tolist(), b=b.tolist(), points=pts.tolist()[:4], shortest=[float(v) for v in sd[:4]]))


@core.safe_case
def subrange(ctx, pts, left, right, family):
    import kneeliverse.linear_fit as lf
    case = dict(points=pts.tolist(), left=left, right=right)
    try:
        got = np.asarray(lf.perpendicular_distance_index(pts, left, right), float)
        want = np.asarray(lf.perpendicular_distance_points(pts[left:right + 1], pts[left], pts[right]), float)
        lf.perpendicular_distance(pts)
    except Exception as e:
        ctx.fail('predicate', 'completes', 'linear_fit.perpendicular_distance_index/points', case, repr(e)[:200])
        ctx.count(family, n=len(pts))
        return
    if got.shape != want.shape or not np.array_equal(got, want):
        ctx.fail('predicate', 'sub-range distances are the distances of exactly that sub-range', 'linear_fit.perpendicular_distance_index', case, dict(impl=got.tolist(), expected=want.tolist()))
    # the same clause against the DEFINITION (exact-Q distance of each point of the sub-range to the line through pts[left], pts[right]),
    # independent of perpendicular_distance_points
    if not np.array_equal(pts[left], pts[right]) and got.shape == (right - left + 1,):
        d = ctx.get_driver()
        spread = float(np.max(np.abs(pts[left:right + 1] - pts[left])) + 1e-300) ** 2
        for j in range(left, right + 1):
            q = F(d.call('geom', ['perpSq', P(pts[j]), P(pts[left]), P(pts[right])])[0])
            ctx.corr_checked += 1
            if not close(float(got[j - left]) ** 2, q, spread * 1e-3):
                ctx.fail('predicate', 'sub-range distance is the distance to the line through the sub-range end points (definition)', 'linear_fit.perpendicular_distance_index', case,
                         dict(index=j, impl_sq=float(got[j - left]) ** 2, model=float(q)))
                break
    full = np.asarray(lf.perpendicular_distance(pts), float)
    want2 = np.asarray(lf.perpendicular_distance_points(pts, pts[0], pts[-1]), float)
    if not np.array_equal(full, want2):
        ctx.fail('predicate', 'perpendicular_distance == distances to the first-last line', 'linear_fit.perpendicular_distance', case, dict(impl=full.tolist(), expected=want2.tolist()))
    ctx.count(family, n=len(pts), nontrivial_key=(pts.tobytes(), left, right) if left > 0 else None, sample=dict(left=left, right=right, n=len(pts)))


@core.safe_case
def rects(ctx, r1, r2, family):
    import kneeliverse.knee_ranking as kr
    d = ctx.get_driver()
    amin, amax = kr.rect(np.array(r1[0], float), np.array(r1[1], float))
    bmin, bmax = kr.rect(np.array(r2[0], float), np.array(r2[1], float))
    case = dict(a=[amin.tolist(), amax.tolist()], b=[bmin.tolist(), bmax.tolist()])
    v = float(kr.rect_overlap(amin, amax, bmin, bmax))
    w = float(kr.rect_overlap(bmin, bmax, amin, amax))
    q = F(d.call('iou', [P(amin), P(amax), P(bmin), P(bmax)])[0])
    ctx.corr_checked += 1
    if not close(v, q, 1):
        ctx.fail('predicate', 'rect_overlap-is-intersection-over-union', 'knee_ranking.rect_overlap', case, dict(impl=v, model=float(q)))
    if v != w:
        ctx.fail('predicate', 'iou-symmetric', 'knee_ranking.rect_overlap', case, dict(ab=v, ba=w))
    if not (0.0 <= v <= 1.0):
        ctx.fail('predicate', 'iou-in-[0,1]', 'knee_ranking.rect_overlap', case, dict(value=v))
    if amin[0] < amax[0] and amin[1] < amax[1]:
        s = float(kr.rect_overlap(amin, amax, amin.copy(), amax.copy()))
        if s != 1.0:
            ctx.fail('predicate', 'iou-identical-nondegenerate==1', 'knee_ranking.rect_overlap', case, dict(value=s))
    if amax[0] <= bmin[0] or bmax[0] <= amin[0] or amax[1] <= bmin[1] or bmax[1] <= amin[1]:
        ctx.tag('disjoint-or-touching')
        if v != 0.0:
            ctx.fail('predicate', 'iou-disjoint==0', 'knee_ranking.rect_overlap', case, dict(value=v))
    ctx.count(family, nontrivial_key=(str(case),) if 0 < v < 1 else None, sample=dict(case, iou=v))


@core.safe_case
def triple(ctx, f, g, h, family):
    import kneeliverse.menger as mg
    import kneeliverse.postprocessing as pp
    d = ctx.get_driver()
    case = dict(f=list(f), g=list(g), h=list(h))
    pts = [np.array(f, float), np.array(g, float), np.array(h, float)]
    vals = {}
    for perm in itertools.permutations(range(3)):
        try:
            vals[perm] = float(mg.menger_curvature(pts[perm[0]], pts[perm[1]], pts[perm[2]]))
        except Exception as e:
            ctx.fail('predicate', 'menger-completes', 'menger.menger_curvature', case, repr(e)[:120])
            return
    base = vals[(0, 1, 2)]
    q = F(d.call('geom', ['mengerSq', P(f), P(g), P(h)])[0])
    ctx.corr_checked += 1
    if not close(base ** 2, q, 0):
        ctx.fail('predicate', 'menger-curvature-is-the-reciprocal-circumradius', 'menger.menger_curvature', case, dict(impl_sq=base ** 2, model=float(q)))
    for perm, v in vals.items():
        if abs(v - base) > 1e-12 * (abs(v) + abs(base)) + 1e-300:
            ctx.fail('predicate', 'menger-symmetric-in-its-arguments', 'menger.menger_curvature', case, dict(perm=list(perm), value=v, base=base))
            break
    if '@' not in family and all(float(c) == int(c) for pnt in (f, g, h) for c in pnt):
        # integer-dtype points, also with large coordinates (byte counts, timestamps): same curvature as the float64 copy
        for mul in (1, 1000, 1 << 20):
            ai = [np.array([int(pnt[0]) * mul, int(pnt[1]) * mul], dtype=np.int64) for pnt in (f, g, h)]
            try:
                vi = float(mg.menger_curvature(*ai))
                vf = float(mg.menger_curvature(*[a_.astype(float) for a_ in ai]))
            except Exception as e:
                ctx.fail('predicate', 'menger-completes-on-integer-dtype', 'menger.menger_curvature', dict(case, multiplier=mul), repr(e)[:120])
                break
            if abs(vi - vf) > 1e-9 * (abs(vi) + abs(vf)) + 1e-300:
                ctx.fail('predicate', 'menger-integer-dtype-gives-the-same-curvature', 'menger.menger_curvature', dict(case, multiplier=mul), dict(int64=vi, float64=vf))
                break
    cr = (g[0] - f[0]) * (h[1] - g[1]) - (g[1] - f[1]) * (h[0] - g[0])
    if cr == 0:
        ctx.tag('collinear-triple')
        if base != 0.0:
            ctx.fail('predicate', 'menger-zero-on-collinear', 'menger.menger_curvature', case, dict(value=base))
    qa = F(d.call('geom', ['triArea', P(f), P(g), P(h)])[0])
    va = float(pp.triangle_area(np.array([f, g, h], float)))
    if not close(va, qa, 1):
        ctx.fail('predicate', 'triangle_area-is-the-signed-area', 'postprocessing.triangle_area', case, dict(impl=va, model=float(qa)))
    ctx.count(family, nontrivial_key=(tuple(f), tuple(g), tuple(h)) if cr != 0 else None, sample=dict(case, menger=base))


@core.safe_case
def ranks(ctx, v, family):
    import kneeliverse.knee_ranking as kr
    d = ctx.get_driver()
    case = dict(values=[float(t) for t in v])
    r = [int(t) for t in kr.rank(np.array(v, float)).tolist()]
    n = len(v)
    if sorted(r) != list(range(n)):
        ctx.fail('predicate', 'rank-is-a-permutation-of-0..n-1', 'knee_ranking.rank', case, dict(rank=r))
    elif (lambda o: any(v[o[i]] > v[o[i + 1]] for i in range(n - 1)))(sorted(range(n), key=r.__getitem__)):      # listed by rank, the values never decrease
        ctx.fail('predicate', 'rank-orders-the-values', 'knee_ranking.rank', case, dict(rank=r))
    if len(set(v)) == n and n <= 600:           # the model's stable insertion sort is quadratic; longer inputs are judged by the predicates above
        m = core.parse_nats(d.call('rank', [core.rats(v)])[0])
        ctx.corr_checked += 1
        if m != r:
            ctx.fail('correspondence', 'rank', 'knee_ranking.rank', case, dict(impl=r, model=m))
    else:
        ctx.tag('rank-ties(relational only)')
    dist = kr.distances(np.array([0.0, 0.0]), np.array([[3.0, 4.0], [0.0, 0.0], [1.0, 0.0]]))
    if [float(t) for t in dist] != [5.0, 0.0, 1.0]:
        ctx.fail('predicate', 'distances-euclidean', 'knee_ranking.distances', {}, dict(value=[float(t) for t in dist]))
    ctx.count(family, n=n, nontrivial_key=tuple(v) if n >= 2 else None, sample=dict(values=case['values'][:8], rank=r[:8]))


def gp(rng, lim=16, q=0.5):
    return [rng.randrange(-lim, lim + 1) * q, rng.randrange(-lim, lim + 1) * q]


def run(ctx):
    rng = ctx.rng
    quick = ctx.tier == 'quick'
    for _ in range(250 if quick else 5000):
        q = 1.0 if rng.random() < 0.35 else 0.5          # integral coordinates also run as int64 arrays
        a, b = np.array(gp(rng, 16, q)), np.array(gp(rng, 16, q))
        if rng.random() < 0.1:
            b = a.copy()
        k = rng.randrange(1, 6)
        pts = np.array([gp(rng, 24, q) for _ in range(k)], float)
        if rng.random() < 0.3:
            pts[0] = a
        fam = 'segment' if not np.all(a == b) else 'degenerate-a==b'
        u = rng.random()
        if u < 0.1:
            a, b, pts, fam = a * 2.0 ** -30, b * 2.0 ** -30, pts * 2.0 ** -30, fam + '@tiny30'      # ~1e-9 scale
        elif u < 0.2:
            a, b, pts, fam = a + 2.0 ** 30, b + 2.0 ** 30, pts + 2.0 ** 30, fam + '@off30'          # large common offset, small spread
        elif u < 0.26:
            a, b, pts, fam = a * 2.0 ** 30, b * 2.0 ** 30, pts * 2.0 ** 30, fam + '@huge30'
        elif u < 0.3:
            a, b, pts, fam = a * 64 + 2.0 ** 30, b * 64 + 2.0 ** 30, pts * 64 + 2.0 ** 30, fam + '@off30x64'  # |a-b| ~ 1e3 at offset 1e9
        distances(ctx, pts, a, b, fam)
    for _ in range(150 if quick else 3000):
        n = rng.randrange(3, 20)
        x = np.cumsum([rng.choice([1, 2, 3]) for _ in range(n)]).astype(float)
        y = np.array([rng.randrange(0, 30) * 0.5 for _ in range(n)])
        pts = np.column_stack([x, y])
        left = rng.randrange(0, n - 1)
        right = rng.randrange(left + 1, n)
        fam = 'subrange'
        u = rng.random()
        if u < 0.1:
            pts, fam = pts * 2.0 ** -30, fam + '@tiny30'
        elif u < 0.2:
            pts, fam = pts + 2.0 ** 30, fam + '@off30'
        subrange(ctx, pts, left, right, fam)
    for _ in range(300 if quick else 6000):
        r1 = (gp(rng, 8, 1.0), gp(rng, 8, 1.0))
        r2 = (gp(rng, 8, 1.0), gp(rng, 8, 1.0)) if rng.random() < 0.8 else r1
        fam = 'rectangles'
        if rng.random() < 0.2:
            # exact power-of-two scalings (the IoU is scale invariant): tiny and huge rectangles
            e = rng.choice([-30, -40, 30, -100])
            sc = 2.0 ** e
            r1 = tuple([c * sc for c in p] for p in r1)
            r2 = tuple([c * sc for c in p] for p in r2)
            fam = 'rectangles@2^%d' % e
        rects(ctx, r1, r2, fam)
    for _ in range(300 if quick else 6000):
        f, g, h = gp(rng, 12, 1.0), gp(rng, 12, 1.0), gp(rng, 12, 1.0)
        if rng.random() < 0.2:
            k = rng.randrange(2, 4)
            h = [g[0] + k * (g[0] - f[0]), g[1] + k * (g[1] - f[1])]
        if f == g or g == h or f == h:
            continue
        fam = 'triples'
        u = rng.random()
        if u < 0.3:
            sc, off, tag = rng.choice([(2.0 ** -30, 0.0, '@tiny30'), (2.0 ** -20, 0.0, '@tiny20'), (2.0 ** 20, 0.0, '@huge20'), (1.0, 2.0 ** 30, '@off30'), (2.0 ** -10, 2.0 ** 20, '@off20')])
            f, g, h = ([c * sc + off for c in pnt] for pnt in (f, g, h))
            fam += tag
        triple(ctx, f, g, h, fam)
    for _ in range(200 if quick else 4000):
        n = rng.randrange(1, 14)
        v = [rng.randrange(0, 12) * 0.25 for _ in range(n)] if rng.random() < 0.4 else rng.sample([i * 0.5 for i in range(40)], n)
        u = rng.random()
        if u < 0.15:
            v = [a - 5.0 for a in v]                          # negative values
        elif u < 0.25:
            v = [a * 2.0 ** 40 for a in v]
        elif u < 0.35:
            v = [a * 2.0 ** -40 for a in v]
        ranks(ctx, v, 'rank')
    long_cases(ctx)


def long_cases(ctx):
    """LONG inputs (beyond 1024 / 4096 points): chunked, strided or blocked evaluation of the distance rows / the ranking"""
    rng = ctx.rng
    for _ in range(2 if ctx.tier == 'quick' else 20):
        k = rng.choice([rng.randrange(1100, 1600), rng.randrange(4097, 4400)])
        a, b = np.array(gp(rng, 16, 1.0)), np.array(gp(rng, 16, 1.0))
        if np.all(a == b):
            b = a + 1.0
        distances(ctx, np.array([gp(rng, 64, 0.5) for _ in range(k)], float), a, b, 'long-segment')
        n = rng.choice([rng.randrange(1100, 1600), rng.randrange(4097, 4400)])
        x = np.cumsum([rng.choice([1, 2, 3]) for _ in range(n)]).astype(float)
        y = np.array([rng.randrange(0, 300) * 0.5 for _ in range(n)])
        left = rng.randrange(0, n // 4)
        subrange(ctx, np.column_stack([x, y]), left, rng.randrange(n - n // 4, n), 'long-subrange')
        m = rng.choice([rng.randrange(1100, 1600), rng.randrange(4097, 4400)])
        ranks(ctx, rng.sample([i * 0.5 - 300.0 for i in range(3 * m)], m), 'long-rank')


def replay(ctx, body):
    c = body['case']
    if 'values' in c:
        ranks(ctx, c['values'], 'replay')
    elif 'f' in c:
        triple(ctx, c['f'], c['g'], c['h'], 'replay')
    elif 'left' in c:
        subrange(ctx, np.array(c['points'], float), c['left'], c['right'], 'replay')
    elif 'points' in c:
        distances(ctx, np.array(c['points'], float), np.array(c['a'], float), np.array(c['b'], float), 'replay')
    else:
        rects(ctx, c['a'], c['b'], 'replay')

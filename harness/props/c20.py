"""C20 — public functions are pure, deterministic, layout-independent and fully linked."""
import copy, json, math, os
import numpy as np
from .. import core, gen, linkgraph

PROP_FILE = 'Knee/Props/C20.lean'
RULE = ('(b) linking: the translator harness/linkgraph.py regenerates lean/Knee/Generated/LinkTable.lean from /repo/src on this run (every global name load, every '
        'attribute chain on an imported module, every intra-package call site) and the Lean kernel decides it (theorem all_resolve, decide +kernel); offenders are '
        'exhibited by calling the enclosing function. (a) purity/determinism/layout: every public function of the registry (all functions exercised by C01-C19) is '
        'called on C-ordered, Fortran-ordered, strided-view, int64 and float64 representations of the same values; arguments (arrays AND lists) are deep-snapshotted '
        'before and compared after; a second call must return identical results; plus an int64-vs-float64 sweep of 16 point-taking functions over integer curves (near-chord, decay, walk). non-trivial = function returned a non-empty result; (function, input) new')
ASSUMPTIONS = ['(a) is decided by observation, not by a theorem: aliasing, in-place writes and hidden module state are runtime behaviour the value-level model cannot exhibit (partial)',
               'int64 representation is only used when every value is integral']
GEN_FILE = os.path.join(core.LEAN_DIR, 'Knee', 'Generated', 'LinkTable.lean')
KNOWN_SITE_CLASS = 'call-arity@'


def known_sites():
    return {e['site'].split('@', 1)[1] for e in core.load_findings()
            if e.get('status') == 'known' and e.get('property') == 'C20' and e.get('site', '').startswith(KNOWN_SITE_CLASS)}


_report = {}


def pre_build(ctx):
    """regenerate the link table from the current source (the tie for C20b is a translator)"""
    src, rep = linkgraph.build_table(known_sites())
    _report.update(rep)
    old = open(GEN_FILE).read() if os.path.exists(GEN_FILE) else ''
    if old != src:
        with open(GEN_FILE, 'w') as f:
            f.write(src)
        ctx.tag('link-table-regenerated-with-changes')


FINDING_CLASSES = {
    'arity-mismatch-at-listed-site': lambda case: case.get('kind') == 'call' and f"{case.get('caller')}->{case.get('callee')}" in known_sites(),
}


# ------------------------------------------------------------------------------------------------
# registry of public functions with sample arguments
# ------------------------------------------------------------------------------------------------
def registry(rng, srng=None):
    """srng draws the SHAPE of the sample (sizes, index sets); rng draws the values.  Two registries with equal srng streams are
    'siblings': same n, same breakpoints / knee positions, different curves — what position-keyed hidden state confuses."""
    srng = srng or rng
    import kneeliverse.clustering as cl, kneeliverse.convex_hull as ch, kneeliverse.curvature as cu, kneeliverse.dfdt as df
    import kneeliverse.evaluation as ev, kneeliverse.knee_ranking as kr, kneeliverse.kneedle as kn, kneeliverse.linear_fit as lf
    import kneeliverse.lmethod as lm, kneeliverse.menger as mg, kneeliverse.metrics as M, kneeliverse.multi_knee as mk
    import kneeliverse.postprocessing as pp, kneeliverse.rdp as rdp, kneeliverse.zmethod as zm
    n = srng.randrange(12, 40)
    fam = rng.choice(['missratio', 'steps', 'convex', 'walk', 'elbows'])
    pts, _ = gen.dyadic_curve(rng, n, fam, scale_exp=0)
    if rng.random() < 0.5:
        pts = np.round(pts * 8)            # integral values: int64 representation applies
    if np.ptp(pts[:, 1]) == 0:
        pts[0, 1] += 1
    x, y = pts[:, 0].copy(), pts[:, 1].copy()
    yh = np.abs(y + np.array([rng.choice([0, 1, -1, 2]) for _ in range(n)]))
    red = np.array(gen.random_subset_with_ends(srng, n, srng.randrange(2, 8)))
    removed = rdp.compute_removed_points(pts, red)
    m = len(red)
    kpos = np.array(sorted(srng.sample(range(1, m - 1), min(m - 2, 3)))) if m > 3 else np.array([1])
    knees = np.array(sorted(srng.sample(range(2, n - 2), 4)))
    expected = pts[sorted(srng.sample(range(n), 3))].copy()
    coef = lf.linear_fit_points(pts)
    cm = ev.cm(pts, knees, expected, 0.05)
    R = []
    add = lambda name, f, *a, **k: R.append((name, f, list(a), k))
    for nm in ('single_linkage', 'complete_linkage', 'centroid_linkage', 'average_linkage'):
        add('clustering.' + nm, getattr(cl, nm), pts[knees], 0.1)
    add('convex_hull.graham_scan', ch.graham_scan, pts)
    add('convex_hull.graham_scan_lower', ch.graham_scan_lower, pts)
    add('convex_hull.graham_scan_upper', ch.graham_scan_upper, pts)
    add('curvature.knee', cu.knee, pts)
    add('curvature.multi_knee', cu.multi_knee, pts)
    add('dfdt.knee', df.knee, pts)
    add('dfdt.get_knee', df.get_knee, x, y)
    add('dfdt.multi_knee', df.multi_knee, pts)
    add('menger.knee', mg.knee, pts)
    add('menger.multi_knee', mg.multi_knee, pts)
    add('menger.menger_curvature', mg.menger_curvature, pts[1], pts[0], pts[2])
    add('lmethod.knee', lm.knee, pts)
    add('lmethod.get_knee', lm.get_knee, x, y)
    add('lmethod.multi_knee', lm.multi_knee, pts)
    add('kneedle.knee', kn.knee, pts)
    add('kneedle.knees', kn.knees, pts)
    add('kneedle.multi_knee', kn.multi_knee, pts)
    add('zmethod.knees', zm.knees, pts, 0.1, 0.1, 0.25)
    add('zmethod.getPoints', zm.getPoints, pts, 0.1, 0.1, 0.25)
    add('multi_knee.multi_knee', mk.multi_knee, cu.knee, pts, 0.01, 3)
    add('rdp.rdp', rdp.rdp, pts, 0.05)
    add('rdp.rdp_fixed', rdp.rdp_fixed, pts, 6)
    add('rdp.grdp', rdp.grdp, pts, 0.05)
    add('rdp.mp_grdp', rdp.mp_grdp, pts, 0.05, 6)
    add('rdp.min_point_rdp', rdp.min_point_rdp, pts, [0.001, 0.1, 0.01], 6)
    add('rdp.mapping', rdp.mapping, kpos, red, removed)
    add('rdp.mapping[unsorted]', rdp.mapping, kpos, red, removed[::-1], False)
    add('rdp.compute_removed_points', rdp.compute_removed_points, pts, red)
    add('rdp.compute_cost_coef', rdp.compute_cost_coef, pts, coef)
    add('rdp.order_triangle', rdp.order_triangle, pts, n // 2, lf.shortest_distance_points)
    add('rdp.order_area', rdp.order_area, pts, n // 2, lf.perpendicular_distance_points)
    add('rdp.order_segment', rdp.order_segment, pts, n // 2)
    for nm in ('linear_fit_points', 'linear_fit_residuals_points', 'linear_hv_residuals_points', 'linear_fit_transform_points', 'perpendicular_distance', 'r2_points'):
        add('linear_fit.' + nm, getattr(lf, nm), pts)
    for nm in ('linear_r2_points', 'rmspe_points', 'rmsle_points', 'smape_points', 'rpd_points', 'rmse_points', 'linear_residuals_points', 'linear_transform_points'):
        add('linear_fit.' + nm, getattr(lf, nm), pts, coef)
    add('linear_fit.linear_fit', lf.linear_fit, x, y)
    add('linear_fit.r2', lf.r2, x, y)
    add('linear_fit.shortest_distance_points', lf.shortest_distance_points, pts, pts[0], pts[-1])
    add('linear_fit.perpendicular_distance_points', lf.perpendicular_distance_points, pts, pts[0], pts[-1])
    add('linear_fit.perpendicular_distance_index', lf.perpendicular_distance_index, pts, 2, n - 3)
    for nm in ('r2', 'rmse', 'rmsle', 'rmspe', 'rpd', 'residuals', 'smape'):
        add('metrics.' + nm, getattr(M, nm), y, yh)
    add('postprocessing.filter_worst_knees', pp.filter_worst_knees, pts, knees)
    add('postprocessing.filter_corner_knees', pp.filter_corner_knees, pts, knees, 0.33)
    add('postprocessing.select_corner_knees', pp.select_corner_knees, pts, knees, 0.33)
    for mode in ('left', 'linear', 'right', 'hull'):
        add(f'postprocessing.filter_clusters[{mode}]', pp.filter_clusters, pts, knees, cl.average_linkage, 0.2, getattr(kr.ClusterRanking, mode))
    add('postprocessing.filter_clusters_corners', pp.filter_clusters_corners, pts, knees, cl.single_linkage, 0.2)
    # hull mode on a constructed curve: a cluster whose index span holds EXACTLY ONE lower-hull point (the rarely taken branch), and one with none
    nn = 24
    cx = np.arange(nn, dtype=float)
    cy = (nn - cx) ** 2 / 4.0
    on = srng.randrange(6, 9)
    for j in range(5, 10):
        if j != on:
            cy[j] += srng.choice([3.0, 5.0])
    for j in (15, 16, 17):
        cy[j] += 2.0
    cpts = np.column_stack([cx, cy])
    add('postprocessing.filter_clusters[hull,one-hull-point]', pp.filter_clusters, cpts, np.array([5, 6, 7, 8, 9, 15, 16, 17, 21]), cl.single_linkage, 0.2, kr.ClusterRanking.hull)
    add('postprocessing.add_points_even', pp.add_points_even, pts, red, kpos, removed, 0.05, 0.05, True)
    add('postprocessing.add_points_even_knees', pp.add_points_even_knees, pts, knees, 0.05, 0.05, True)
    add('postprocessing.rank_corners_triangle', pp.rank_corners_triangle, pts, knees)
    add('postprocessing.rank_corners', pp.rank_corners, pts, knees)
    add('postprocessing.triangle_area', pp.triangle_area, pts[:3])
    add('knee_ranking.rank', kr.rank, y)
    add('knee_ranking.distances', kr.distances, pts[0], pts)
    add('knee_ranking.rect_overlap', kr.rect_overlap, pts[0] * 0, pts[1] + 3, pts[0] * 0 + 1, pts[2] + 5)
    add('knee_ranking.smooth_ranking', kr.smooth_ranking, pts, knees, kr.ClusterRanking.linear)
    add('knee_ranking.slope_ranking', kr.slope_ranking, pts, knees)
    add('knee_ranking.distance_to_similarity', kr.distance_to_similarity, y)
    add('evaluation.cm', ev.cm, pts, knees, expected, 0.05)
    for nm in ('mae', 'mse', 'rmse', 'rmspe'):
        add('evaluation.' + nm, getattr(ev, nm), pts, knees, expected)
    for nm in ('accuracy', 'f1score', 'mcc'):
        add('evaluation.' + nm, getattr(ev, nm), cm)
    add('evaluation.compute_global_cost', ev.compute_global_cost, pts, red, M.Metrics.smape)
    add('evaluation.compute_global_rmse', ev.compute_global_rmse, pts, red)
    add('evaluation.mip', ev.mip, pts, red)
    add('evaluation.compute_partial_cost', ev.compute_partial_cost, y, yh, M.Metrics.rpd)
    add('evaluation.accuracy_trace', ev.accuracy_trace, pts, knees)
    add('evaluation.accuracy_knee', ev.accuracy_knee, pts, knees)
    add('evaluation.get_neighbourhood', ev.get_neighbourhood, x, y, n - 2, 1)
    add('evaluation.get_neighbourhood_fast', ev.get_neighbourhood_fast, x, y, n - 2, 1)
    # the remaining public functions (every function of the package appears in the registry, except the known-broken legacy
    # compute_global_segment_cost - a listed finding -, rdp.plot_frame, which needs a display, and evaluation.compute_cost, whose cache
    # argument is an in/out parameter by design)
    import uts.gradient as _grad
    add('dfdt.get_knee_gradient', df.get_knee_gradient, np.asarray(_grad.cfd(x, y), float))
    add('evaluation.get_neighbourhood_binary', ev.get_neighbourhood_binary, x, y, n - 2, 1)
    add('evaluation.get_neighbourhood_points', ev.get_neighbourhood_points, pts, n - 2, 1, 0.9)
    add('evaluation.get_neighbourhood_fast_points', ev.get_neighbourhood_fast_points, pts, n - 2, 1, 0.9)
    add('knee_ranking.rect', kr.rect, pts[0], pts[2])
    add('kneedle.differences', kn.differences, pts, kn.Direction.Decreasing, kn.Concavity.Counterclockwise)
    add('linear_fit.angle', lf.angle, coef, (coef[0] + 1.0, coef[1] - 0.5))
    add('linear_fit.cross2d', lf.cross2d, pts - pts[0], pts[-1] - pts[0])
    add('linear_fit.linear_fit_residuals', lf.linear_fit_residuals, x, y)
    add('linear_fit.linear_fit_transform', lf.linear_fit_transform, x, y)
    add('linear_fit.linear_fit_transform[vertical]', lf.linear_fit_transform, x, y, True)
    add('linear_fit.linear_hv_residuals', lf.linear_hv_residuals, x, y)
    add('linear_fit.linear_r2', lf.linear_r2, x, y, coef)
    add('linear_fit.linear_residuals', lf.linear_residuals, x, y, coef)
    add('linear_fit.linear_transform', lf.linear_transform, x, coef)
    for nm in ('rmse', 'rmsle', 'rmspe', 'rpd', 'smape'):
        add('linear_fit.' + nm, getattr(lf, nm), x, y, coef)
    if n >= 6:
        add('lmethod.compute_error', lm.compute_error, x, y, 3, n)
    add('zmethod.knees2', zm.knees2, pts)
    add('zmethod.map_index', zm.map_index, x, x[[1, 3]])
    add('postprocessing.add_points_even[no-extremes]', pp.add_points_even, pts, red, kpos, removed, 0.05, 0.05, False)
    add('kneedle.knee[t=0]', kn.knee, pts, 0.0)
    # option sweep: every member of every Enum-valued option (metric, distance, order, fit, refinement, strategy, ranking mode, R2 kind, …)
    import enum, inspect
    extra = []
    for name, f, args, kw in R:
        try:
            sig = inspect.signature(getattr(f, 'py_func', f))
        except (TypeError, ValueError):
            continue
        params = list(sig.parameters)
        # Enum members passed POSITIONALLY in the sample call (compute_global_cost(…, Metrics.smape), smooth_ranking(…, linear), …)
        for ai, av in enumerate(args):
            if isinstance(av, enum.Enum):
                for member in type(av):
                    if member is not av:
                        a2 = list(args)
                        a2[ai] = member
                        extra.append((f'{name}[arg{ai}={member.name}]', f, a2, dict(kw)))
        for pn, prm in sig.parameters.items():
            if isinstance(prm.default, enum.Enum) and pn not in kw and params.index(pn) >= len(args):
                for member in type(prm.default):
                    if member is not prm.default:
                        extra.append((f'{name}[{pn}={member.name}]', f, list(args), dict(kw, **{pn: member})))
    return R + extra


def same(a, b):
    if isinstance(a, (tuple, list)) and isinstance(b, (tuple, list)):
        return len(a) == len(b) and all(same(u, v) for u, v in zip(a, b))
    if isinstance(a, dict) and isinstance(b, dict):
        return a.keys() == b.keys() and all(same(a[k], b[k]) for k in a)
    if a is None or b is None:
        return a is None and b is None
    try:
        aa, bb = np.asarray(a), np.asarray(b)
        if aa.shape != bb.shape:
            return False
        if aa.dtype.kind in 'fc' or bb.dtype.kind in 'fc':
            return bool(np.array_equal(aa.astype(float), bb.astype(float), equal_nan=True))
        return bool(np.array_equal(aa, bb))
    except Exception:
        return a == b


def layout(v, kind):
    if not isinstance(v, np.ndarray) or v.dtype.kind not in 'fiu' or v.size == 0:
        return copy.deepcopy(v)
    if kind == 'C':
        return np.ascontiguousarray(v.copy())
    if kind == 'F':
        return np.asfortranarray(v.copy())
    if kind == 'view':
        if v.ndim == 1:
            big = np.full(v.shape[0] * 2 + 1, -777, dtype=v.dtype)
            big[1::2] = v
            return big[1::2]
        big = np.full((v.shape[0] * 2, v.shape[1] * 2), -777, dtype=v.dtype)
        big[::2, ::2] = v
        return big[::2, ::2]
    if kind == 'int64':
        if v.dtype.kind == 'f' and np.all(np.isfinite(v)) and np.all(v == np.round(v)):
            return v.astype(np.int64)
        return np.ascontiguousarray(v.copy())
    return v


@core.safe_case
def purity_case(ctx, name, f, args, kwargs):
    site = 'kneeliverse.' + name
    case = dict(function=name, args=[a.tolist() if isinstance(a, np.ndarray) else (a if isinstance(a, (int, float, list, bool)) else repr(a)) for a in args])
    base = [layout(a, 'C') for a in args]
    snap = copy.deepcopy(base)
    core.poison_allocator(float('nan'))
    try:
        r0 = f(*base, **kwargs)
    except Exception as e:
        ctx.fail('predicate', 'completes-on-sample-input', site, case, repr(e)[:200])
        ctx.count('purity:' + name)
        return
    if not same(snap, base) or any(isinstance(s, list) and s != b for s, b in zip(snap, base)):
        ctx.fail('predicate', 'arguments-left-unmodified', site, case, dict(before=core.jsonable(snap), after=core.jsonable(base)))
    if getattr(ctx, 'c20_calls', None) is not None and ctx.phase == 'main':
        ctx.c20_calls.append((name, f, copy.deepcopy(snap), dict(kwargs), r0))
    core.poison_allocator(1e300)          # the first call ran over NaN-filled free blocks, the second one runs over 1e300-filled ones
    r1 = f(*[layout(a, 'C') for a in args], **kwargs)
    if not same(r0, r1):
        ctx.fail('predicate', 'identical-result-when-called-again', site, case, dict(first=core.jsonable(r0), second=core.jsonable(r1)))
    # a WORK ARRAY REFILLED IN PLACE: the same ndarray objects first hold a sibling input (second column reversed / 1-D floats shifted), the
    # function is called, the objects are overwritten with this case's values and the function is called again.  Anything remembered under the
    # identity (or shape) of an argument - a one-entry cache, a memo keyed on id() - answers for the old content.
    bufs = [layout(a, 'C') for a in args]
    sib = False
    for b in bufs:
        if isinstance(b, np.ndarray) and b.dtype.kind == 'f' and b.size > 1:
            if b.ndim == 2 and b.shape[1] == 2:
                b[:, 1] = b[::-1, 1].copy()
                sib = True
    if sib:
        try:
            f(*bufs, **kwargs)
            warmed = True
        except Exception:
            warmed = False                      # the sibling need not be a valid input; the refill below is what is judged
        for b, a in zip(bufs, args):
            if isinstance(b, np.ndarray) and isinstance(a, np.ndarray) and b.shape == a.shape:
                np.copyto(b, a)
        try:
            r2 = f(*bufs, **kwargs)
            if not same(r0, r2):
                ctx.fail('predicate', 'same-result-after-the-argument-arrays-were-refilled-in-place', site, case,
                         dict(fresh_arrays=core.jsonable(r0), refilled_arrays=core.jsonable(r2), sibling_call_completed=warmed))
        except Exception as e:
            ctx.fail('predicate', 'completes-after-the-argument-arrays-were-refilled-in-place', site, case, repr(e)[:200])
    for kind in ('F', 'view', 'int64'):
        va = [layout(a, kind) for a in args]
        vs = copy.deepcopy(va)
        try:
            rv = f(*va, **kwargs)
        except Exception as e:
            ctx.fail('predicate', f'completes-on-{kind}-representation', site, case, repr(e)[:200])
            continue
        if not same(r0, rv):
            ctx.fail('predicate', f'same-result-on-{kind}-representation', site, case, dict(C=core.jsonable(r0), other=core.jsonable(rv)))
        if not same(vs, va):
            ctx.fail('predicate', f'arguments-left-unmodified({kind})', site, case, dict(kind=kind))
    nonempty = r0 is not None and (not hasattr(r0, '__len__') or len(r0) > 0)
    ctx.count('purity:' + name, nontrivial_key=(name, repr(case['args'])[:4000]) if nonempty else None,
              sample=dict(function=name, result=repr(core.jsonable(r0))[:160]))


@core.safe_case
def dtype_case(ctx, name, f, pts, extra):
    """same values as float64 and as int64 must give the same result (cheap, many curves)"""
    site = 'kneeliverse.' + name
    case = dict(function=name, points=pts.tolist(), extra=[repr(e) for e in extra])
    try:
        r0 = f(np.ascontiguousarray(pts, dtype=float), *extra)
        r1 = f(pts.astype(np.int64), *extra)
    except Exception as e:
        ctx.fail('predicate', 'completes-on-int64-and-float64', site, case, repr(e)[:200])
        return
    if not same(r0, r1):
        ctx.fail('predicate', 'same-result-on-int64-representation', site, case, dict(float64=core.jsonable(r0), int64=core.jsonable(r1)))
    ctx.count('dtype:' + name, n=len(pts), nontrivial_key=(name, pts.tobytes()), sample=dict(function=name, n=len(pts)))


def _dtype_functions():
    import kneeliverse.curvature as cu, kneeliverse.dfdt as df, kneeliverse.menger as mg, kneeliverse.lmethod as lm, kneeliverse.kneedle as kn
    import kneeliverse.zmethod as zm, kneeliverse.rdp as rdp, kneeliverse.convex_hull as ch, kneeliverse.linear_fit as lf
    return [('curvature.knee', cu.knee, ()), ('dfdt.knee', df.knee, ()), ('menger.knee', mg.knee, ()), ('lmethod.knee', lm.knee, ()),
            ('kneedle.knee', kn.knee, ()), ('kneedle.knees', kn.knees, ()), ('kneedle.multi_knee', kn.multi_knee, ()), ('curvature.multi_knee', cu.multi_knee, ()),
            ('zmethod.knees', zm.knees, (0.1, 0.1, 0.25)), ('rdp.rdp', rdp.rdp, (0.05,)), ('rdp.rdp_fixed', rdp.rdp_fixed, (6,)), ('rdp.grdp', rdp.grdp, (0.05,)),
            ('convex_hull.graham_scan_lower', ch.graham_scan_lower, ()), ('linear_fit.linear_fit_points', lf.linear_fit_points, ()),
            ('linear_fit.perpendicular_distance', lf.perpendicular_distance, ()), ('linear_fit.linear_hv_residuals_points', lf.linear_hv_residuals_points, ()),
            ('convex_hull.graham_scan', ch.graham_scan, ()), ('convex_hull.graham_scan_upper', ch.graham_scan_upper, ()),
            ('linear_fit.r2_points', lf.r2_points, ()), ('linear_fit.linear_fit_residuals_points', lf.linear_fit_residuals_points, ()),
            ('linear_fit.linear_fit_transform_points', lf.linear_fit_transform_points, ()),
            ('menger.multi_knee', mg.multi_knee, ()), ('dfdt.multi_knee', df.multi_knee, ()), ('lmethod.multi_knee', lm.multi_knee, ()),
            ('rdp.mp_grdp', rdp.mp_grdp, (0.05, 6)), ('rdp.min_point_rdp', rdp.min_point_rdp, ([0.001, 0.1, 0.01], 6))]


def dtype_sweep(ctx, rounds):
    import kneeliverse.curvature as cu, kneeliverse.dfdt as df, kneeliverse.menger as mg, kneeliverse.lmethod as lm, kneeliverse.kneedle as kn
    import kneeliverse.zmethod as zm, kneeliverse.rdp as rdp, kneeliverse.convex_hull as ch, kneeliverse.linear_fit as lf, kneeliverse.postprocessing as pp
    rng = ctx.rng
    fns = _dtype_functions()
    _unused = [('curvature.knee', cu.knee, ()), ('dfdt.knee', df.knee, ()), ('menger.knee', mg.knee, ()), ('lmethod.knee', lm.knee, ()),
           ('kneedle.knee', kn.knee, ()), ('kneedle.knees', kn.knees, ()), ('kneedle.multi_knee', kn.multi_knee, ()), ('curvature.multi_knee', cu.multi_knee, ()),
           ('zmethod.knees', zm.knees, (0.1, 0.1, 0.25)), ('rdp.rdp', rdp.rdp, (0.05,)), ('rdp.rdp_fixed', rdp.rdp_fixed, (6,)), ('rdp.grdp', rdp.grdp, (0.05,)),
           ('convex_hull.graham_scan_lower', ch.graham_scan_lower, ()), ('linear_fit.linear_fit_points', lf.linear_fit_points, ()),
           ('linear_fit.perpendicular_distance', lf.perpendicular_distance, ()), ('linear_fit.linear_hv_residuals_points', lf.linear_hv_residuals_points, ())]
    for _ in range(rounds):
        n = rng.randrange(8, 32)
        kind = rng.choice(['near-chord', 'decay', 'walk', 'large', 'bytecount'])
        x = np.cumsum([rng.choice([1, 1, 2, 3]) for _ in range(n)])
        if kind == 'near-chord':
            m = rng.choice([-4, -3, -2, 2, 3, 5])
            y = np.array([m * xi + rng.choice([-2, -1, 0, 0, 1, 2]) for xi in x])
            y = y - y.min()
        elif kind == 'large':
            # byte-count / request-count sized integers with wide x steps: int64 intermediates (squares, products of squares) must not wrap
            x = x * rng.choice([50, 1000])
            y = np.array(sorted((rng.randrange(0, 200000) for _ in range(n)), reverse=True))
        elif kind == 'bytecount':
            # raw byte counts over small abscissae (k * 2^33): squares of height differences exceed 2^63 in the input's own dtype
            y = np.array(sorted((rng.randrange(0, 4096) for _ in range(n)), reverse=True)) * 2 ** 33
        elif kind == 'decay':
            y = np.array(sorted((rng.randrange(0, 100) for _ in range(n)), reverse=True))
        else:
            y = np.abs(np.cumsum([rng.randrange(-5, 6) for _ in range(n)])) + 1
        pts = np.column_stack([x, y]).astype(float)
        if np.ptp(pts[:, 1]) == 0:
            continue
        for name, f, extra in fns:
            dtype_case(ctx, name, f, pts, extra)


def history_independence(ctx, calls):
    """'returns identical results when called again' across HISTORIES: the results this process obtained (after hundreds of earlier calls
    on other inputs) are compared with the results of a fresh interpreter that evaluates the same calls in reverse order.  A module-level
    memo, a mutable default argument or a buffer kept between calls makes the two differ; the replay is the call with its arguments."""
    import pickle, subprocess, sys, tempfile
    todo = list(reversed(calls))
    d = tempfile.mkdtemp(prefix='knee-c20-')
    fin, fout = os.path.join(d, 'in.pkl'), os.path.join(d, 'out.pkl')
    try:
        try:
            with open(fin, 'wb') as fh:
                pickle.dump([(n, f, a, k) for n, f, a, k, _ in todo], fh)
        except Exception as e:
            ctx.tag('history-independence:not-picklable')
            return
        env = dict(os.environ, PYTHONDONTWRITEBYTECODE='1')
        p = subprocess.run([sys.executable, '-m', 'harness.fresh_eval', fin, fout], cwd=core.VERIF, env=env, capture_output=True, text=True, timeout=900)
        if p.returncode != 0 or not os.path.exists(fout):
            raise core.InfraError('fresh interpreter for the history-independence clause failed: ' + (p.stderr or '')[-400:])
        with open(fout, 'rb') as fh:
            fresh = pickle.load(fh)
    finally:
        import shutil
        shutil.rmtree(d, ignore_errors=True)
    for (name, f, args, kwargs, r_here), (st, r_fresh) in zip(todo, fresh):
        ctx.tag('history-independence:compared')
        if st != 'ok' or not same(r_here, r_fresh):
            case = dict(function=name, args=[a.tolist() if isinstance(a, np.ndarray) else (a if isinstance(a, (int, float, list, bool)) else repr(a)) for a in args],
                        history='this process had evaluated the registry on other inputs before; the fresh interpreter had not')
            ctx.fail('predicate', 'result-independent-of-earlier-calls(fresh interpreter vs this process)', 'kneeliverse.' + name, case,
                     dict(after_history=core.jsonable(r_here), fresh=core.jsonable(r_fresh) if st == 'ok' else r_fresh))


def exhibit(ctx, where, what, case):
    """try to turn a static linking offence into a concrete failing call"""
    import importlib
    rng = ctx.rng
    fnname = where.split(':')[1] if ':' in where else ''
    for name, f, args, kwargs in registry(rng):
        if name.split('.')[-1].split('[')[0] == fnname:
            try:
                f(*args, **kwargs)
            except (NameError, AttributeError, TypeError) as e:
                case = dict(case, exhibited_by=name, error=repr(e)[:200])
                return True, case
    return False, case


def run(ctx):
    rng = ctx.rng
    rep = _report
    ctx.extra_cov = dict(link_table=rep.get('counts'), translator='harness/linkgraph.py (ast + symtable + introspection)')
    # ---- (b) linking: Python-side view of the same table, used to name and exhibit offenders
    for u in rep.get('unresolved_names', []):
        ok, case = exhibit(ctx, u['where'], u['name'], dict(kind='name', **u))
        case['exhibited'] = ok
        ctx.fail('predicate', 'global-name-resolves', f"kneeliverse.{u['module'].split('.')[-1]}:{u['where']}", case, f"NameError: name {u['name']!r} is not bound at module level and is not a builtin")
    for u in rep.get('unresolved_attrs', []):
        ok, case = exhibit(ctx, u['where'], u['attr'], dict(kind='attr', **u))
        case['exhibited'] = ok
        ctx.fail('predicate', 'module-attribute-resolves', u['where'], case, f"AttributeError: {u['object']} has no attribute {u['attr']!r}")
    import importlib
    for c in rep.get('bad_calls', []):
        case = dict(kind='call', **c)
        # exhibit: call the enclosing function on sample input when the registry knows it
        mod, _, fn = c['caller'].rpartition('.')
        shown = False
        try:
            f = getattr(importlib.import_module(mod), fn)
            pts, _ = gen.dyadic_curve(rng, 12, 'steps', scale_exp=0)
            try:
                f(pts, np.array([0, 5, 11]))
            except TypeError as e:
                case['exhibited_by'] = f'{c["caller"]}(points, [0,5,11])'
                case['error'] = repr(e)[:200]
                shown = 'argument' in repr(e)
        except Exception:
            pass
        case['exhibited'] = bool(shown)
        ctx.fail('predicate', 'call-arity', KNOWN_SITE_CLASS + f"{c['caller']}->{c['callee']}", case,
                 f"TypeError: {c['callee']} called with {c['npos']} positional and keywords {c['kws']}")
    for p in rep.get('problems', []):
        ctx.fail('proof', 'translator-could-not-import', str(p[0]), {}, str(p[1]))
    ctx.count('link-table', nontrivial_key=('table', json.dumps(rep.get('counts'))), sample=dict(link_table=rep.get('counts')))
    # ---- (a) purity / determinism / layouts
    ctx.c20_calls = [] if ctx.phase == 'main' else None
    import random as _random
    for rnd in range(4 if ctx.tier == 'quick' else 60):
        # rounds 2k and 2k+1 are siblings: same sizes and index arguments, different curves
        for name, f, args, kwargs in registry(rng, _random.Random(ctx.seed * 1000 + rnd // 2)):
            purity_case(ctx, name, f, args, kwargs)
    if ctx.c20_calls:
        history_independence(ctx, ctx.c20_calls[-(4 if ctx.tier == 'quick' else 12) * 130:])
    ctx.c20_calls = None
    dtype_sweep(ctx, 60 if ctx.tier == 'quick' else 1500)


def on_build_failure(ctx, out):
    ctx.tag('lean-build-failed')
    run(ctx)


def replay(ctx, body):
    """re-run the one function of the replayed case (purity on the registry's sample input; dtype pair on the recorded points)"""
    c = body.get('case', {})
    fn = c.get('function')
    if not fn:
        return
    if 'points' in c:
        for name, f, extra in _dtype_functions():
            if name == fn:
                dtype_case(ctx, name, f, np.array(c['points'], float), extra)
        return
    for name, f, args, kwargs in registry(ctx.rng):
        if name == fn:
            purity_case(ctx, name, f, args, kwargs)

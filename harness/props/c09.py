"""C09 — each single-knee detector returns the interior optimum of its stated criterion."""
import math
import numpy as np
from .. import core, gen, detfam

PROP_FILE = 'Knee/Props/C09.lean'
RULE = ('knee() of curvature, DFDT, Menger, L-method (2 fits x 3 refinements x limit 4..16; get_knee with 2 costs) and Kneedle on dyadic families, random '
        'float64 curves and trace windows, n>=3 (n>=5 L-method). Correspondence is oracle-fed (criterion arrays from uts.gradient/uts.thresholding/'
        'menger_curvature/lmethod.compute_error/uts.ema evaluated by the harness) and exact; loop counts are compared with the proved bounds. '
        'Predicate on the REAL result: interior index that attains the optimum of the criterion array; termination within a linear loop budget. '
        'non-trivial = the criterion is not constant over the interior; (detector, options, curve) new')
ASSUMPTIONS = ['valid curves: finite, strictly increasing x; L-method limit >= 4 (below that the truncated curve has fewer than the 5 points the method needs)']


@core.safe_case
def one(ctx, kind, pts, opts, family):
    n = len(pts)
    if 'int_dtype' not in opts:
        opts = dict(opts, int_dtype=bool(detfam.integral_small(pts) and ctx.rng.random() < 0.3))
    if opts['int_dtype']:
        ctx.tag('input:int64-dtype')
    case = dict(detector=kind, options=opts, points=pts.tolist())
    site = f'{kind}.knee' + (f"[{opts.get('fit')},{opts.get('mode')},limit={opts.get('limit')}]" if kind == 'lmethod' else '')
    real = None
    early = {}
    if kind == 'lmethod' and n >= 5:
        # get_knee FIRST, before this case's knee() call: whatever an earlier case left behind in the module is still there
        import kneeliverse.lmethod as lm
        for fitn in ('pointfit', 'bestfit'):
            for cost in ('rmse', 'rss'):
                try:
                    early[(fitn, cost)] = int(lm.get_knee(pts[:, 0], pts[:, 1], {'pointfit': lm.Fit.point_fit, 'bestfit': lm.Fit.best_fit}[fitn], {'rmse': lm.Cost.rmse, 'rss': lm.Cost.rss}[cost])[0])
                except Exception:
                    pass
    try:
        real, cnt = detfam.real_knee(kind, pts, opts)
        real = None if real is None else int(real)
    except core.LoopBudgetExceeded as e:
        ctx.fail('predicate', 'terminates', site, case, str(e))
        cnt = None
        real = 'loop'
    except Exception as e:
        ctx.fail('predicate', 'completes', site, case, repr(e)[:200])
        real = 'raised'
    nontriv = None
    # the proved round bounds on the REAL loop counts (dfdt_rounds_le: at most n rounds; the L-method cut-off strictly decreases)
    if cnt is not None and kind in ('dfdt', 'lmethod') and cnt > n + 2:
        ctx.fail('predicate', 'refinement-rounds-within-the-proved-bound(n+2)', site, case, dict(while_iterations=cnt, n=n))
    try:
        model, orc = detfam.model_knee(ctx, kind, pts, opts)
    except Exception as e:
        ctx.tag('oracle-raised')
        if real not in ('raised',):
            ctx.fail('correspondence', 'oracle-primitive-raised', site, case, repr(e)[:200])
        ctx.count(family + ':' + kind, n=n)
        return
    if orc.nonfinite:
        ctx.tag('oracle-nonfinite')
    elif real not in ('loop', 'raised'):
        ctx.corr_checked += 1
        if model != real:
            ctx.fail('correspondence', 'knee', site, case, dict(impl=real, model=model))
    # ---- direct predicate on the real result
    if real not in ('loop', 'raised') and not orc.nonfinite:
        if kind == 'kneedle' and real is None:
            ctx.tag('kneedle-no-peak')
        else:
            lo = 0 if kind == 'menger' else 1
            if not (lo <= real <= n - 2):
                ctx.fail('predicate', 'interior-index', site, case, dict(knee=real, n=n))
            else:
                if kind == 'curvature':
                    c = np.asarray(orc.crit(0, n), float)
                    if c[real] != np.max(c[1:-1]):
                        ctx.fail('predicate', 'maximises-curvature-criterion', site, case, dict(knee=real, value=float(c[real]), max=float(np.max(c[1:-1]))))
                    if np.ptp(c[1:-1]) > 0:
                        nontriv = (kind, pts.tobytes())
                elif kind == 'menger':
                    c = np.array([0.0] + [float(v) for v in orc.mc(0, n)] + [0.0])
                    if c[real] != np.max(c):
                        ctx.fail('predicate', 'maximises-menger-curvature', site, case, dict(knee=real, value=float(c[real]), max=float(np.max(c))))
                    if np.ptp(c) > 0:
                        nontriv = (kind, pts.tobytes())
                elif kind == 'dfdt':
                    # the result is the interior minimiser of |g - T| on the last examined tail
                    ok = False
                    for c0 in range(0, n - 2):
                        dd = np.asarray(orc.diffs(0, n, c0), float)
                        if len(dd) >= 3 and real - c0 >= 1 and real - c0 <= len(dd) - 2 and dd[real - c0] == np.min(dd[1:-1]):
                            ok = True
                            break
                    if not ok:
                        ctx.fail('predicate', 'minimises-|gradient-T|-on-some-tail', site, case, dict(knee=real))
                    nontriv = (kind, pts.tobytes())
                elif kind == 'lmethod':
                    ok = False
                    for ln in range(5, n + 1):
                        e = np.asarray(orc.errs(0, n, ln), float)
                        if 2 <= real <= ln - 3 and e[real - 2] == np.min(e):
                            ok = True
                            break
                    if not ok:
                        ctx.fail('predicate', 'minimises-two-line-error-on-some-truncation', site, case, dict(knee=real))
                    nontriv = (kind, str(sorted(opts.items())), pts.tobytes())
                else:
                    dd = np.asarray(orc.dd(0, n), float)
                    if not (dd[real - 1] < dd[real] > dd[real + 1]):
                        ctx.fail('predicate', 'kneedle-result-is-a-strict-peak', site, case, dict(knee=real))
                    nontriv = (kind, pts.tobytes())
    if kind == 'lmethod' and real not in ('loop', 'raised') and not orc.nonfinite:
        # the refinement rule restated with the package's own get_knee on the truncated curves
        import kneeliverse.lmethod as lm
        fit = {'pointfit': lm.Fit.point_fit, 'bestfit': lm.Fit.best_fit}[opts.get('fit', 'pointfit')]
        x_, y_ = pts[:, 0], pts[:, 1]
        last, cutoff, cur, done, it = -1, n, n, False, 0
        mode, limit = opts.get('mode', 'adjusted'), opts.get('limit', 10)
        while cur != last and not done and it < 4 * n + 16:
            it += 1
            last = cur
            cur = int(lm.get_knee(x_[0:cutoff + 1], y_[0:cutoff + 1], fit)[0])
            if mode == 'adjusted':
                cutoff = max(limit, int((cur + last) / 2.0))
            elif mode == 'original':
                cutoff = max(limit, min(cur * 2, n))
                done = cur >= last
            else:
                done = True
        if it < 4 * n + 16 and cur != real:
            ctx.fail('predicate', 'refinement-follows-its-rule(get_knee on the truncated curve)', site, case, dict(knee=real, expected=cur))
    if kind == 'dfdt' and real not in ('loop', 'raised') and not orc.nonfinite:
        import kneeliverse.dfdt as dfm, uts.gradient as grad, math as _m
        g = grad.cfd(pts[:, 0], pts[:, 1])
        knee_, cutoff, last = 0, 0, -1
        while last < knee_ and (n - cutoff) > 2:
            last = knee_
            knee_ = int(dfm.get_knee_gradient(g[cutoff:])) + cutoff
            cutoff = int(_m.ceil(knee_ / 2.0))
        if knee_ != real:
            ctx.fail('predicate', 'dfdt-refines-on-the-tail-beyond-half-the-knee-while-it-moves-right', site, case, dict(knee=real, expected=knee_))
    if kind == 'lmethod' and real not in ('loop', 'raised') and not orc.nonfinite:
        # get_knee with both costs: first minimiser over 2..n-3
        import kneeliverse.lmethod as lm
        for cost in ('rmse', 'rss'):
            o2 = detfam.DetOracles(pts, opts.get('fit', 'pointfit'), cost)
            e = np.asarray(o2.errs(0, n, n), float)
            k = int(lm.get_knee(pts[:, 0], pts[:, 1], o2.fit, o2.cost)[0])
            if not np.all(np.isfinite(e)):
                continue
            if k != 2 + int(np.argmin(e)):
                ctx.fail('predicate', 'get_knee-is-first-minimiser-over-2..n-3', f'lmethod.get_knee[{opts.get("fit")},{cost}]', case, dict(knee=k, errors=e.tolist()))
    # ---- the optimum again, against the criterion written out from its DEFINITION by the harness (conclusive cases: well-conditioned x)
    if isinstance(real, int) and not orc.nonfinite and np.all(np.isfinite(pts)) and 0 <= real <= n - 2:
        px = pts[:, 0]
        ymax_ = float(np.max(np.abs(pts[:, 1])))
        noise = {'rss': n * (64 * np.finfo(float).eps * ymax_) ** 2, 'rmse': math.sqrt(n) * 64 * np.finfo(float).eps * ymax_}
        well = float(np.max(np.abs(px))) <= 1e3 * float(np.ptp(px)) and float(np.max(np.abs(pts[:, 1]))) > 0
        if not well:
            ctx.tag('definition-reference-skipped(ill-conditioned x)')
        elif kind == 'menger':
            c = np.array([0.0] + [float(v) for v in orc.mc_ref(0, n)] + [0.0])
            if np.all(np.isfinite(c)) and c[real] < np.max(c) * (1 - 1e-9) - 64 * np.finfo(float).eps / min(float(np.hypot(*(pts[i + 1] - pts[i]))) for i in range(n - 1)):
                ctx.fail('predicate', 'maximises-menger-curvature(definition: 4*area/(product of the sides))', site, case, dict(knee=real, value=float(c[real]), max=float(np.max(c)), argmax=int(np.argmax(c))))
        elif kind == 'lmethod' and opts.get('mode', 'adjusted') == 'none' and n >= 5:
            e = np.asarray(orc.errs_ref(0, n, n, opts.get('fit', 'pointfit'), 'rmse'), float)
            if np.all(np.isfinite(e)) and 2 <= real <= n - 3 and e[real - 2] > np.min(e) + 1e-7 * np.max(e) + noise['rmse']:
                ctx.fail('predicate', 'minimises-the-length-weighted-two-line-error(definition)', site, case, dict(knee=real, error=float(e[real - 2]), min=float(np.min(e)), argmin=2 + int(np.argmin(e))))
        elif kind == 'kneedle' and 1 <= real <= n - 2:
            dd = orc.dd_ref(0, n)
            if dd is None:
                ctx.tag('kneedle-reference-inconclusive(concavity vote ~ 0)')
            elif np.all(np.isfinite(dd)) and not (dd[real - 1] < dd[real] + 1e-12 and dd[real] + 1e-12 > dd[real + 1]):
                ctx.fail('predicate', 'kneedle-result-is-a-peak-of-the-difference-curve(definition)', site, case, dict(knee=real, window=[float(v) for v in dd[real - 1:real + 2]]))
        if kind == 'lmethod' and well and n >= 5:
            import kneeliverse.lmethod as lm
            for fitn in ('pointfit', 'bestfit'):
                for cost in ('rmse', 'rss'):
                    e = np.asarray(orc.errs_ref(0, n, n, fitn, cost), float)
                    if not np.all(np.isfinite(e)):
                        continue
                    k2 = int(lm.get_knee(pts[:, 0], pts[:, 1], {'pointfit': lm.Fit.point_fit, 'bestfit': lm.Fit.best_fit}[fitn], {'rmse': lm.Cost.rmse, 'rss': lm.Cost.rss}[cost])[0])
                    k = early.get((fitn, cost), k2)        # the answer given BEFORE this case's knee() call (other call history)
                    if k != k2:
                        ctx.tag('get_knee-history-dependent')
                    if not (2 <= k <= n - 3) or e[k - 2] > np.min(e) + 1e-7 * np.max(e) + noise[cost]:
                        ctx.fail('predicate', 'get_knee-minimises-the-length-weighted-two-line-error(definition)', f'lmethod.get_knee[{fitn},{cost}]', case,
                                 dict(knee=k, error=float(e[k - 2]) if 2 <= k <= n - 3 else None, min=float(np.min(e)), argmin=2 + int(np.argmin(e))))
    ctx.count(family + ':' + kind, n=n, nontrivial_key=nontriv, sample=dict(detector=kind, options=opts, n=n, knee=real, points=pts.tolist() if n <= 12 else '…'))


def rand_opts(rng, kind):
    if kind == 'lmethod':
        return dict(fit=rng.choice(['pointfit', 'bestfit']), mode=rng.choice(['none', 'original', 'adjusted']), limit=rng.randrange(4, 17))
    return {}


def curve(ctx, nmin, nmax):
    rng = ctx.rng
    u = rng.random()
    n = rng.randrange(nmin, nmax + 1)
    if u < 0.7:
        return gen.dyadic_curve(rng, n, scale_exp=0)
    if u < 0.85:
        return gen.float_curve(rng, n)
    p, f = gen.trace_window(rng, max(nmax, 16))
    if p is None or len(p) < nmin:
        return gen.dyadic_curve(rng, n, scale_exp=0)
    return p, f


def run(ctx):
    rng = ctx.rng
    quick = ctx.tier == 'quick'
    # corpus: 21-point step curve on which the pinned `original` refinement cycled forever
    w = np.array([[0, 1.0], [1, 1.0], [2, 0.888671875], [3, 0.888671875], [4, 0.7236328125], [5, 0.71484375], [6, 0.71484375], [7, 0.642578125],
                  [8, 0.5615234375], [9, 0.505859375], [10, 0.4521484375], [11, 0.4521484375], [12, 0.4521484375], [13, 0.4521484375], [14, 0.416015625],
                  [15, 0.4013671875], [16, 0.4013671875], [17, 0.3798828125], [18, 0.3798828125], [19, 0.3798828125], [20, 0.3134765625]], float)
    for lim in (4, 6, 10):
        one(ctx, 'lmethod', w, dict(fit='pointfit', mode='original', limit=lim), 'corpus')
    for _ in range(1000 if quick else 20000):
        kind = rng.choice(detfam.DETS)
        pts, fam = curve(ctx, 5 if kind == 'lmethod' else 3, 48 if quick else 200)
        if not fam.startswith('trace'):
            pts, vt = gen.variant(rng, pts, 0.2)
            fam += vt
        opts = rand_opts(rng, kind)
        if not fam.startswith('trace') and '@' not in fam and rng.random() < 0.15:
            # raw counts: integral heights over integral abscissae, delivered as an int64 array most of the time
            q = np.column_stack([np.round(pts[:, 0]) if np.all(np.diff(np.round(pts[:, 0])) > 0) else np.arange(len(pts), dtype=float), np.floor(pts[:, 1] * rng.choice([64.0, 1024.0]))])
            if np.ptp(q[:, 1]) > 0:
                pts, fam, opts = q, fam + '@integer', dict(opts, int_dtype=rng.random() < 0.8)
        if rng.random() < 0.05:
            # raw byte counts as an int64 array: squares / products of coordinate differences exceed 2^63 in the input's own dtype
            from .. import rdpfam
            pts, fam = rdpfam.bytecount_curve(rng, rng.randrange(6, 30))
            opts = dict(opts, int_dtype=rng.random() < 0.8)
        one(ctx, kind, pts, opts, fam)
    for _ in range(6 if quick else 80):
        # LONG curves (staircases, noisy decays; 280-900 points): the criterion profiles are jagged, not unimodal - anything that searches
        # them coarse-to-fine, strided or capped finds another optimum
        kind = rng.choice(['lmethod', 'lmethod', 'lmethod', 'curvature', 'menger', 'dfdt', 'kneedle'])
        n = rng.randrange(280, 900)
        w = rng.choice([5, 7, 11, 13])
        if rng.random() < 0.6:
            y = np.array([float((n - i) // w) for i in range(n)]) * rng.choice([1.0, 0.25])             # staircase: value changes every w points
        else:
            y = np.round(4096.0 * np.exp(-rng.choice([0.004, 0.01]) * np.arange(n))) / 16.0 + np.array([rng.randrange(0, 8) / 8.0 for _ in range(n)])
        pts = np.column_stack([np.arange(n, dtype=float), y])
        one(ctx, kind, pts, dict(rand_opts(rng, kind), int_dtype=False), 'long-jagged')
    for _ in range(5000 if quick else 60000):
        refinement_sweep(ctx, sweep_curve(rng), dict(fit=rng.choice(['pointfit', 'pointfit', 'bestfit']), mode=rng.choice(['original', 'original', 'adjusted']),
                                                      limit=rng.choice([4, 6, 8, 10, 10, 10, 12, 16])))


@core.safe_case
def refinement_sweep(ctx, pts, opts):
    """'The L-method's iterative refinement terminates for every refinement option': many short curves, the real knee() under the loop
    guard, and the interior-index clause; nothing else (cheap, so that rare oscillations between two cut-offs are met)."""
    import kneeliverse.lmethod as lm
    n = len(pts)
    case = dict(detector='lmethod', options=opts, points=pts.tolist(), sweep=True)
    site = f"lmethod.knee[{opts['fit']},{opts['mode']},limit={opts['limit']}]"
    fit = {'pointfit': lm.Fit.point_fit, 'bestfit': lm.Fit.best_fit}[opts['fit']]
    it = {'none': lm.Refinement.none, 'original': lm.Refinement.original, 'adjusted': lm.Refinement.adjusted}[opts['mode']]
    try:
        k, cnt = core.guarded(lambda: lm.knee(pts, fit=fit, it=it, limit=opts['limit']), 64 * n + 256)
    except core.LoopBudgetExceeded as e:
        ctx.fail('predicate', 'terminates', site, case, str(e))
        return
    except Exception as e:
        ctx.fail('predicate', 'completes', site, case, repr(e)[:200])
        return
    if k is None or not (1 <= int(k) <= n - 2):
        ctx.fail('predicate', 'interior-index', site, case, dict(knee=None if k is None else int(k), n=n))
    ctx.count('refinement-sweep:' + opts['mode'], n=n, nontrivial_key=(pts.tobytes(), str(sorted(opts.items()))) if cnt and cnt > 2 else None,
              sample=dict(n=n, options=opts, knee=None if k is None else int(k), while_iterations=cnt))


def sweep_curve(rng):
    n = rng.randrange(8, 34)
    kind = rng.choice(['int-decreasing', 'int-decreasing', 'steps', 'two-elbows'])
    if kind == 'int-decreasing':
        y, cur = [], rng.randrange(30, 120)
        for _ in range(n):
            y.append(float(cur))
            cur = max(0, cur - rng.choice([0, 1, 1, 2, 2, 3, 4, 8, 9, 12]))
    elif kind == 'steps':
        y, cur = [], 1.0
        for _ in range(n):
            y.append(cur)
            if rng.random() < 0.5:
                cur = max(0.0, cur - rng.choice([1, 2, 3, 9, 17, 40]) / 256.0)
    else:
        a, b = sorted(rng.sample(range(2, n - 2), 2))
        s1, s2, s3 = rng.choice([-9, -6, -4]), rng.choice([-3, -2, -1]), rng.choice([-1, 0, -0.5])
        y = [100.0]
        for i in range(1, n):
            y.append(y[-1] + (s1 if i <= a else s2 if i <= b else s3) + rng.choice([0, 0, 0.5, -0.5]))
        mn = min(y)
        y = [v - mn for v in y]
    return np.column_stack([np.arange(n, dtype=float), np.array(y, float)])


def replay(ctx, body):
    c = body['case']
    if c.get('sweep'):
        refinement_sweep(ctx, np.array(c['points'], float), c['options'])
        return
    one(ctx, c['detector'], np.array(c['points'], float), c['options'], 'replay')

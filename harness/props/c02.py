"""C02 — recursive multi-knee detection terminates, is well-formed and self-similar."""
import numpy as np
from .. import core, gen, detfam

PROP_FILE = 'Knee/Props/C02.lean'
PROP_FILES = ['Knee/Props/C02.lean', 'Knee/Props/C02D.lean', 'Knee/Props/C02S.lean']
RULE = ('multi_knee of the 5 detector modules x thresholds t1 (grid + endpoint-line SMAPE values of the input: exact ties) x t2 >= detector minimum on '
        'dyadic families, float64 curves and trace windows. Correspondence: stack loop + detector models fed with criterion oracles (never the detector\'s own '
        'knee()), exact. Predicate on the REAL result: strictly increasing, inside [0,n-2] ([1,n-2] except Menger), empty when n<=t2 or SMAPE<t1, and the '
        'self-similarity equation evaluated with the real knee() and the real multi_knee() on the two real slices. non-trivial = at least 2 knees; '
        '(detector, t1, t2, curve) new')
ASSUMPTIONS = ['valid curves; t1>=0; t2 >= detector minimum (3; 4 for Menger and the L-method)']


@core.safe_case
def one(ctx, kind, pts, t1, t2, family, int_dtype=None):
    import kneeliverse.linear_fit as lf
    n = len(pts)
    if int_dtype is None:
        int_dtype = detfam.integral_small(pts) and ctx.rng.random() < 0.3
    if int_dtype:
        ctx.tag('input:int64-dtype')
    case = dict(detector=kind, t1=float(t1), t2=int(t2), points=pts.tolist(), int_dtype=bool(int_dtype))
    site = f'{kind}.multi_knee'
    real = None
    try:
        out, cnt = detfam.real_multi(kind, pts, t1, t2, int_dtype)
        real = [int(v) for v in np.asarray(out).tolist()]
    except core.LoopBudgetExceeded as e:
        ctx.fail('predicate', 'terminates', site, case, str(e))
    except Exception as e:
        ctx.fail('predicate', 'completes', site, case, repr(e)[:200])
    try:
        model, orc = detfam.model_multi(ctx, kind, pts, t1, t2)
    except Exception as e:
        ctx.tag('oracle-raised')
        if real is not None:
            ctx.fail('correspondence', 'oracle-primitive-raised', site, case, repr(e)[:200])
        ctx.count(family + ':' + kind, n=n)
        return
    if orc.nonfinite:
        ctx.tag('oracle-nonfinite')
    elif real is not None:
        ctx.corr_checked += 1
        if model != real:
            ctx.fail('correspondence', 'multi_knee', site, case, dict(impl=real, model=model))
    nontriv = None
    if real is not None and orc.nonfinite:
        # the shape clause needs no oracle value: evaluate it even when a criterion array contains inf / nan
        lo = 0 if kind == 'menger' else 1
        if any(a >= b for a, b in zip(real, real[1:])) or any(not (lo <= k <= n - 2) for k in real):
            ctx.fail('predicate', 'strictly-increasing-inside-[lo,n-2]', site, case, dict(knees=real, lo=lo, n=n))
    if real is not None and not orc.nonfinite:
        lo = 0 if kind == 'menger' else 1
        if any(a >= b for a, b in zip(real, real[1:])) or any(not (lo <= k <= n - 2) for k in real):
            ctx.fail('predicate', 'strictly-increasing-inside-[lo,n-2]', site, case, dict(knees=real, lo=lo, n=n))
        else:
            sm = float(lf.smape_points(pts, lf.linear_fit_points(pts))) if n > 2 else 1.0
            if sm == t1:
                ctx.tag('tie:smape==t1')
            gate_open = n > t2 and sm >= t1
            # the same gate from the DEFINITION (end-point line through the translated points, SMAPE as defined), independent of the package's
            # linear_fit / smape; only conclusive verdicts count (rounding of m*x+b is bounded by noise_abs)
            if n > max(t2, 2) and real and np.all(np.isfinite(pts)):
                x, y = pts[:, 0].astype(float), pts[:, 1].astype(float)
                mm = (y[-1] - y[0]) / (x[-1] - x[0])
                yh = y[0] + mm * (x - x[0])
                noise_abs = 8 * np.finfo(float).eps * (abs(mm) * float(np.max(np.abs(x))) + float(np.max(np.abs(y))))
                if float(np.min(np.abs(y))) > 1e4 * noise_abs and float(np.min(np.abs(yh))) > 1e4 * noise_abs:
                    sm_ref = float(np.mean(2.0 * np.abs(yh - y) / (np.abs(y) + np.abs(yh) + 1e-16)))
                    if sm_ref < t1 - 1e-3 * (1 + t1):
                        ctx.fail('predicate', 'empty-when-smape(definition)<t1', site, case, dict(knees=real, smape_definition=sm_ref, smape_package=sm))
                else:
                    ctx.tag('gate-reference-inconclusive(near-zero y)')
            if not gate_open:
                if real:
                    ctx.fail('predicate', 'empty-when-n<=t2-or-smape<t1', site, case, dict(knees=real, smape=sm))
            else:
                # self-similarity with the REAL knee() and REAL multi_knee() on the real slices
                m = detfam.mods()[kind]
                try:
                    if int_dtype:
                        pts = pts.astype(np.int64)
                    k = m.knee(pts)
                    if k is None:
                        want = []
                    else:
                        k = int(k)
                        left = [int(v) for v in np.asarray(m.multi_knee(pts[0:k + 1], t1, t2)).tolist()]
                        right = [int(v) + k + 1 for v in np.asarray(m.multi_knee(pts[k + 1:], t1, t2)).tolist()]
                        want = left + [k] + right
                    if real != want:
                        ctx.fail('predicate', 'self-similar({k} U left U shifted right)', site, case, dict(knees=real, expected=want, k=k))
                except Exception as e:
                    ctx.fail('predicate', 'self-similarity-evaluation-completes', site, case, repr(e)[:200])
            if len(real) >= 2:
                nontriv = (kind, float(t1), int(t2), pts.tobytes())
    ctx.count(family + ':' + kind, n=n, nontrivial_key=nontriv, sample=dict(detector=kind, t1=float(t1), t2=int(t2), n=n, knees=real, points=pts.tolist() if n <= 12 else '…'))


def run(ctx):
    import kneeliverse.linear_fit as lf
    rng = ctx.rng
    quick = ctx.tier == 'quick'
    for _ in range(3 if quick else 30):
        # DEEP recursion: long smooth convex curves on which the knee keeps landing near one end (hundreds of nested splits), and long noisy
        # curves with hundreds of knees - whatever caps depth, iterations or the number of knees shows here
        n = rng.randrange(650, 1100)
        xs = np.arange(n, dtype=float)
        u = rng.random()
        if u < 0.4:
            ys, fam = 4096.0 / (xs + 1.0), 'deep-hyperbola'
        elif u < 0.7:
            ys, fam = (xs[::-1] / 8.0) ** 2 + 1.0, 'deep-parabola'
        else:
            ys, fam = np.round(4096.0 * np.exp(-0.004 * xs)) / 16.0 + np.array([rng.randrange(0, 16) / 4.0 for _ in range(n)]), 'deep-noisy'
        kind = rng.choice(['curvature', 'menger', 'curvature', 'menger', 'dfdt', 'kneedle'])
        one(ctx, kind, np.column_stack([xs, ys]), rng.choice([0.0, 0.001, 0.01]), detfam.MIN_T2[kind], fam, False)
    for _ in range(500 if quick else 10000):
        kind = rng.choice(detfam.DETS)
        n = rng.randrange(3, 40 if quick else 120)
        if rng.random() < 0.04:
            n = rng.choice([2, 3, 4])                      # the smallest curves (at most t2 points for every detector)
        elif rng.random() < 0.01:
            n = rng.randrange(150, 400)                    # a long curve now and then
        u = rng.random()
        if u < 0.75:
            pts, fam = gen.dyadic_curve(rng, n, scale_exp=0)
        elif u < 0.9:
            pts, fam = gen.float_curve(rng, n)
        else:
            pts, fam = gen.trace_window(rng, 60)
            if pts is None:
                pts, fam = gen.dyadic_curve(rng, n, scale_exp=0)
        if not fam.startswith('trace'):
            pts, vt = gen.variant(rng, pts, 0.2)
            fam += vt
            if not vt and rng.random() < 0.08:
                # epoch-like abscissae (x + 2^40) with heights far above the rounding noise of the line m*x + b there, so that the
                # straightness gate can be judged conclusively from its definition
                pts = pts.copy()
                pts[:, 0] += 2.0 ** 40
                pts[:, 1] = pts[:, 1] * 2.0 ** 12 + 2.0 ** 14
                fam += '@xoff40-ybig'
        n = len(pts)
        t2 = detfam.MIN_T2[kind] + rng.choice([0, 0, 0, 1, 2, 5])
        if rng.random() < 0.3 and n >= 3:
            l = rng.randrange(0, n - 2)
            r = rng.randrange(l + 3, n + 1)
            t1 = float(lf.smape_points(pts[l:r], lf.linear_fit_points(pts[l:r])))
        else:
            t1 = rng.choice([0.0, 0.001, 0.01, 0.05, 0.1, 0.5, 1.0, 2.5])
        if '@' not in fam and not fam.startswith('trace') and rng.random() < 0.05:
            # raw byte counts as an int64 array (heights k * 2^33): squares / products of differences exceed 2^63 in the input's own dtype
            from .. import rdpfam
            pts, fam = rdpfam.bytecount_curve(rng, rng.randrange(6, 30))
            one(ctx, kind, pts, rng.choice([0.0, 0.01, 0.05, 0.1]), t2, fam, rng.random() < 0.8)
            continue
        one(ctx, kind, pts, t1, t2, fam)


def replay(ctx, body):
    c = body['case']
    one(ctx, c['detector'], np.array(c['points'], float), c['t1'], c['t2'], 'replay', bool(c.get('int_dtype', False)))

"""C19 — knee-evaluation scores obey their accounting identities."""
import math
import numpy as np
from .. import core, gen

PROP_FILE = 'Knee/Props/C19.lean'
PROP_FILES = ['Knee/Props/C19.lean', 'Knee/Props/C19M.lean', 'Knee/Props/C19S.lean']
RULE = ('curves (dyadic families) x knee index sets K x expected point sets E (subsets of the curve\'s points, jittered points, duplicates competing for one '
        'knee, |K| != |E|, |K|+|E| <= n) x tolerances t from a grid and from the normalised distances of the input (exact ties distance == t) x 4 strategies. '
        'cm correspondence is oracle-fed (rows |x_K - px|/dx evaluated in float64 by the harness) and exact. Predicates on the REAL outputs: accounting '
        'identities, greedy TP, score ranges, perfect detection, error scores against a reference nearest-neighbour matching AND against the exact-Q matching model (maeQ/mseQ2/rmspeSqQ; relational on (near-)equidistant neighbours). non-trivial = 0 < TP < |E| or '
        'a knee claimed twice; (curve, K, E, t) new')
ASSUMPTIONS = ['|K| >= 1, |E| >= 1, |K|+|E| <= n; MCC only where its denominator is non-zero']


def ref_match(a, b):
    """per-coordinate errors of nearest-neighbour matching from side a to side b"""
    errs = []
    for p in a:
        dist = np.linalg.norm(b - p, axis=1)
        j = int(np.argmin(dist))
        errs.append((p, b[j]))
    return errs


def side(s, expected, kp):
    if s == 'knees':
        return kp, expected
    if s == 'expected':
        return expected, kp
    if s == 'best':
        return (expected, kp) if len(expected) <= len(kp) else (kp, expected)
    return (expected, kp) if len(expected) >= len(kp) else (kp, expected)


@core.safe_case
def one(ctx, pts, K, E, t, family, int_dtype=None):
    import kneeliverse.evaluation as ev
    n = len(pts)
    K = [int(k) for k in K]
    E = np.array(E, dtype=float).reshape(-1, 2)
    if int_dtype is None:
        int_dtype = bool(gen.int_ok(pts) and gen.int_ok(E) and ctx.rng.random() < 0.4)
    case = dict(points=pts.tolist(), knees=K, expected=E.tolist(), t=float(t), int_dtype=bool(int_dtype))
    site = 'evaluation.cm'
    # integral curves are also raw counts: the REAL calls then get int64 arrays, every reference below keeps the float64 copies
    pin, Ein = pts, E
    if int_dtype:
        ctx.tag('input:int64-dtype')
        pin, Ein = pts.astype(np.int64), E.astype(np.int64)
    try:
        m = np.asarray(ev.cm(pin, np.array(K, dtype=int), Ein, t))
        tp, fp, fn, tn = int(m[0][0]), int(m[0][1]), int(m[1][0]), int(m[1][1])
    except Exception as e:
        ctx.fail('predicate', 'cm-completes', site, case, repr(e)[:200])
        return
    dx = math.fabs(pts[:, 0].max() - pts[:, 0].min())
    kx = pts[K][:, 0]
    rows = [np.fabs(kx - px) / dx for px, _ in E]
    # greedy reference
    used, gtp = [], 0
    ties = 0
    for r in rows:
        j = int(np.argmin(r))
        if r[j] == t:
            ties += 1
        if r[j] <= t and j not in used:
            gtp += 1
            used.append(j)
    detail = dict(cm=[[tp, fp], [fn, tn]], greedy_tp=gtp)
    if tp + fn != len(E):
        ctx.fail('predicate', 'TP+FN=|E|', site, case, detail)
    if tp + fp != len(K):
        ctx.fail('predicate', 'TP+FP=|K|', site, case, detail)
    if tp + fp + fn + tn != n:
        ctx.fail('predicate', 'entries-sum-to-n', site, case, detail)
    if tp != gtp:
        ctx.fail('predicate', 'TP-is-greedy-one-to-one-count', site, case, detail)
    if ties:
        ctx.tag('tie:distance==t')
    if gtp < sum(1 for r in rows if r.min() <= t):
        ctx.tag('knee-claimed-twice')
    d = ctx.get_driver()
    out = d.call('cm', [core.rat(float(t)), str(n), str(len(K)), str(len(E))], lambda name, a: core.rats(rows[int(a[0])]))
    ctx.corr_checked += 1
    if [int(v) for v in out] != [tp, fp, fn, tn]:
        ctx.fail('correspondence', 'cm', site, case, dict(impl=[tp, fp, fn, tn], model=out))
    # scores from the matrix
    try:
        acc, f1 = float(ev.accuracy(m)), float(ev.f1score(m)) if (2 * tp + fp + fn) > 0 else None
        if not (0.0 <= acc <= 1.0):
            ctx.fail('predicate', 'accuracy-in-[0,1]', 'evaluation.accuracy', case, dict(acc=acc, **detail))
        if f1 is not None and not (0.0 <= f1 <= 1.0):
            ctx.fail('predicate', 'f1-in-[0,1]', 'evaluation.f1score', case, dict(f1=f1, **detail))
        # the scores ARE functions of the matrix: accuracy = (TP+TN)/sum, F1 = 2TP/(2TP+FP+FN), MCC = (TP*TN-FP*FN)/sqrt(den)
        tot = tp + fp + fn + tn
        if tot > 0 and abs(acc - (tp + tn) / tot) > 1e-12:
            ctx.fail('predicate', 'accuracy==(TP+TN)/total', 'evaluation.accuracy', case, dict(acc=acc, **detail))
        if f1 is not None and abs(f1 - 2 * tp / (2 * tp + fp + fn)) > 1e-12:
            ctx.fail('predicate', 'f1==2TP/(2TP+FP+FN)', 'evaluation.f1score', case, dict(f1=f1, **detail))
        den = (tp + fp) * (tp + fn) * (tn + fp) * (tn + fn)
        if den > 0 and abs(float(ev.mcc(m)) - (tp * tn - fp * fn) / math.sqrt(den)) > 1e-12:
            ctx.fail('predicate', 'mcc==(TP*TN-FP*FN)/sqrt(den)', 'evaluation.mcc', case, dict(mcc=float(ev.mcc(m)), **detail))
        if den > 0:
            mc = float(ev.mcc(m))
            if not (-1.0 - 1e-12 <= mc <= 1.0 + 1e-12):
                ctx.fail('predicate', 'mcc-in-[-1,1]', 'evaluation.mcc', case, dict(mcc=mc, **detail))
            if fp == 0 and fn == 0 and abs(mc - 1.0) > 1e-12:
                ctx.fail('predicate', 'mcc-1-on-perfect-detection', 'evaluation.mcc', case, dict(mcc=mc, **detail))
        if fp == 0 and fn == 0:
            ctx.tag('perfect-detection')
            if acc != 1.0 or (f1 is not None and f1 != 1.0):
                ctx.fail('predicate', 'accuracy/f1-1-on-perfect-detection', 'evaluation.accuracy/f1score', case, dict(acc=acc, f1=f1, **detail))
    except Exception as e:
        ctx.fail('predicate', 'scores-complete', 'evaluation.accuracy/f1score/mcc', case, repr(e)[:200])
    # matching errors
    kp = pts[K]
    for s in ('knees', 'expected', 'best', 'worst'):
        S = getattr(ev.Strategy, s)
        try:
            mae, mse, rmse, rmspe = (float(ev.mae(pin, K, Ein, S)), float(ev.mse(pin, K, Ein, S)), float(ev.rmse(pin, K, Ein, S)), float(ev.rmspe(pin, K, Ein, S)))
        except Exception as e:
            ctx.fail('predicate', 'error-scores-complete', f'evaluation.mae/mse/rmse/rmspe[{s}]', case, repr(e)[:200])
            continue
        a, b = side(s, E, kp)
        pairs_ = ref_match(a, b)
        rmae = sum(float(np.sum(np.abs(p - q))) for p, q in pairs_) / (len(a) * 2.0)
        rmse_ = sum(float(np.sum(np.square(p - q))) for p, q in pairs_) / (len(a) * 2.0)
        sd = dict(strategy=s, mae=mae, mse=mse, rmse=rmse, rmspe=rmspe, ref_mae=rmae, ref_mse=rmse_)
        tol = lambda v: 1e-9 * (abs(v) + 1e-300) + 1e-300
        if min(mae, mse, rmse) < 0 or (not math.isnan(rmspe) and rmspe < 0):
            ctx.fail('predicate', 'error-scores-nonnegative', f'evaluation[{s}]', case, sd)
        if abs(rmse - math.sqrt(mse)) > tol(rmse):
            ctx.fail('predicate', 'rmse=sqrt(mse)', f'evaluation.rmse[{s}]', case, sd)
        if abs(mae - rmae) > tol(rmae) or abs(mse - rmse_) > tol(rmse_):
            ctx.fail('predicate', 'error=mean-per-coordinate-NN-matching-from-strategy-side', f'evaluation.mae/mse[{s}]', case, sd)
        # Layer-N model of the matching errors (exact Q) vs the float results
        out = d.call('match_err', [s, core.rats(E[:, 0]), core.rats(E[:, 1]), core.rats(kp[:, 0]), core.rats(kp[:, 1])])
        ctx.corr_checked += 1
        from fractions import Fraction as F
        qmae, qmse, qrp = F(out[0]), F(out[1]), F(out[2])
        # equidistant nearest neighbours: np.linalg.norm may order exact ties either way (relational there)
        def has_tie():
            for p_ in a:
                d2 = sorted(sum((F(float(u)) - F(float(v))) ** 2 for u, v in zip(q_, p_)) for q_ in b)
                if len(d2) > 1 and d2[1] - d2[0] <= F(1, 10 ** 12) * d2[1]:
                    return True
            return False
        if abs(F(mae) - qmae) > F(1, 10 ** 9) * (abs(qmae) + 1) or abs(F(mse) - qmse) > F(1, 10 ** 9) * (abs(qmse) + 1):
            if has_tie():
                ctx.tag('tie:(near-)equidistant-nearest-neighbours(relational)')
                continue
            ctx.fail('correspondence', 'maeQ/mseQ2 (exact nearest-neighbour matching) vs float', f'evaluation.mae/mse[{s}]', case, dict(sd, model_mae=float(qmae), model_mse=float(qmse)))
        if np.all(np.abs(a) > 2.0 ** -10) and math.isfinite(rmspe):          # either sign: the percentage error divides by the reference coordinate + eps as it is
            if abs(F(rmspe * rmspe) - qrp) > F(1, 10 ** 9) * (abs(qrp) + 1):
                if has_tie():
                    # two candidates whose distances differ by less than float resolution (e.g. equal byte counts, abscissae a few units apart):
                    # np.linalg.norm cannot tell them apart, the relative error of the x coordinate can
                    ctx.tag('tie:(near-)equidistant-nearest-neighbours(relational)')
                    continue
                ctx.fail('correspondence', 'rmspeSqQ vs float', f'evaluation.rmspe[{s}]', case, dict(sd, model=float(qrp)))
        if len(E) == len(kp) and sorted(map(tuple, E.tolist())) == sorted(map(tuple, kp.tolist())):       # E is exactly the knee points, in ANY order
            if mae != 0 or mse != 0 or rmse != 0 or rmspe != 0:
                ctx.fail('predicate', 'errors-vanish-when-E-is-knee-points', f'evaluation[{s}]', case, sd)
    nontriv = (pts.tobytes(), tuple(K), E.tobytes(), float(t)) if (0 < tp < len(E)) else None
    ctx.count(family, n=n, nontrivial_key=nontriv, sample=dict(knees=K, expected=E.tolist(), t=float(t), cm=[[tp, fp], [fn, tn]], n=n))


def run(ctx):
    rng = ctx.rng
    quick = ctx.tier == 'quick'
    for _ in range(900 if quick else 20000):
        n = rng.randrange(4, 50)
        pts, fam = gen.dyadic_curve(rng, n, scale_exp=0)
        nk = rng.randrange(1, max(2, n // 2)) if rng.random() < 0.85 else rng.randrange(max(1, n // 2), n)      # also MANY knees
        K = sorted(rng.sample(range(n), nk))
        if rng.random() < 0.15:
            rng.shuffle(K)                                    # knee indices in any order
        ne = rng.randrange(1, max(2, n - nk) if n - nk >= 1 else 2)
        ne = min(ne, n - nk) or 1
        mode = rng.choice(['subset', 'exactK', 'jitter', 'dup', 'mixed'])
        if mode == 'exactK':
            E = pts[K].copy()
            if rng.random() < 0.5:
                E = E[rng.sample(range(len(E)), len(E))]            # the same points listed in another order
        elif mode == 'subset':
            E = pts[sorted(rng.sample(range(n), ne))].copy()
        elif mode == 'jitter':
            idx = [rng.choice(K) for _ in range(ne)]
            E = pts[idx].copy() + np.array([[rng.choice([-2, -1, -0.5, 0, 0.5, 1, 2]), 0.0] for _ in idx])
        elif mode == 'dup':
            k0 = rng.choice(K)
            E = np.array([pts[k0] + [rng.choice([0, 0.25, -0.25, 0.5]), 0.0] for _ in range(max(2, min(ne, 4)))])
        else:
            E = np.array([[rng.uniform(pts[0, 0], pts[-1, 0]), rng.uniform(0, 1)] for _ in range(ne)])
        if len(E) + len(K) > n:
            E = E[: max(1, n - len(K))]
        if rng.random() < 0.3:
            # magnitude variants (tiny scale, large common offset): the tolerance is t TIMES THE X RANGE, never an absolute quantity
            kind = rng.choice(gen.MAG_KINDS)
            p2, e2 = gen.magnitude_of(kind, pts), gen.magnitude_of(kind, E)
            if np.all(np.diff(p2[:, 0]) > 0):
                pts, E, fam = p2, e2, fam + '@' + kind
        elif rng.random() < 0.08 and mode in ('subset', 'exactK'):
            # raw byte counts (heights k * 2^33 over small integer abscissae), delivered as int64 arrays most of the time
            idxE = [int(np.argmin(np.abs(pts[:, 0] - ex))) for ex in E[:, 0]]
            pts = gen.bytecount_of(pts)
            E, fam = pts[idxE].copy(), fam + '@bytecount'
        if '@' not in fam and rng.random() < 0.12:
            # coordinates of BOTH signs (a log-scaled axis, a curve centred on the origin): every score is defined for them
            sh = np.array([rng.choice([0.0, -0.5 * float(pts[-1, 0] + pts[0, 0])]), -rng.choice([0.5, 0.25, 3.0]) * float(np.max(pts[:, 1]) or 1.0)]) + 2.0 ** -7
            pts, E, fam = pts + sh, E + sh, fam + '@signed'
        dxx = float(pts[-1, 0] - pts[0, 0])
        if rng.random() < 0.4:
            kx = pts[K][:, 0]
            cand = [float(np.min(np.fabs(kx - px)) / dxx) for px, _ in E]
            t = rng.choice(cand)
        else:
            t = rng.choice([0.0, 0.01, 0.05, 0.1, 0.25, 0.5, 1.0, 2.0])
        one(ctx, pts, K, E, t, fam + ':' + mode)
    long_cases(ctx)


def long_cases(ctx):
    """LONG curves (beyond 1024 / 4096 points) with hundreds of knees and expected points"""
    rng = ctx.rng
    for _ in range(2 if ctx.tier == 'quick' else 20):
        n = rng.choice([rng.randrange(1100, 1600), rng.randrange(4097, 4400)])
        xs = np.cumsum([rng.choice([1, 1, 2, 3]) for _ in range(n)]).astype(float)
        ys = np.round(4096.0 * np.exp(-0.002 * np.arange(n))) / 4096.0 + np.array([rng.randrange(0, 8) / 64.0 for _ in range(n)])
        pts = np.column_stack([xs, ys])
        K = sorted(rng.sample(range(n), rng.randrange(80, 200)))
        idx = sorted(rng.sample(range(n), rng.randrange(40, 120)))
        E = pts[idx].copy()
        if rng.random() < 0.5:
            E = pts[K].copy()
        one(ctx, pts, K, E, rng.choice([0.0, 0.001, 0.01]), 'long-trace', False)


def replay(ctx, body):
    c = body['case']
    one(ctx, np.array(c['points'], float), c['knees'], c['expected'], c['t'], 'replay', bool(c.get('int_dtype', False)))

"""C12 — cluster filtering keeps one best-ranked knee per cluster."""
import math
import numpy as np
from .. import core, gen

PROP_FILE = 'Knee/Props/C12.lean'
PROP_FILES = ['Knee/Props/C12.lean', 'Knee/Props/C12S.lean']
LINK = ['single', 'complete', 'centroid', 'average']
MODES = ['left', 'linear', 'right', 'hull']
RULE = ('valid curves (dyadic families) x interior knee subsets (>= 2 knees) x 4 linkages x thresholds x 4 ranking modes + the corner variant. '
        'Correspondence is oracle-fed: labels from the real linkage (C11), per-cluster scores from knee_ranking.smooth_ranking / the hull-mode two-chord error '
        '(evaluated by the harness from its definition with the package\'s shortest_distance_points) / rank_corners_triangle, lower hull from graham_scan_lower (C18); '
        'the ranking score is ALSO recomputed independently (best-fit R2 of the documented spans x relative height) and compared with smooth_ranking; exact when the scores of a cluster are pairwise distinct, relational (chosen member attains the maximum) on ties. Predicates on the REAL output: strictly '
        'increasing subset, exactly one member per cluster with maximal score (left/linear/right), hull mode completes with at most one per cluster and none from a '
        'cluster without a hull point in its span, corner variant picks a maximiser. non-trivial = some cluster has >= 2 members; (config, curve, knees) new')
ASSUMPTIONS = ['knees are interior indices (1..n-2), ascending, >= 2 of them; t > 0']


def link_fn(name):
    import kneeliverse.clustering as cl
    return {'single': cl.single_linkage, 'complete': cl.complete_linkage, 'centroid': cl.centroid_linkage, 'average': cl.average_linkage}[name]


def groups_of(labels, knees):
    out = []
    for lab, k in zip(labels, knees):
        if out and out[-1][0] == lab:
            out[-1][1].append(k)
        else:
            out.append([lab, [k]])
    return [g for _, g in out]


def hull_err(pts, c, hw):
    import kneeliverse.linear_fit as lf
    x = pts[:, 0]
    a, b = c[0], c[-1]
    length = x[b + 1] - x[a - 1]
    row = []
    for j in c:
        if j in hw:
            ll, lr = (x[j] - x[a - 1]) / length, (x[b + 1] - x[j]) / length
            left, right = pts[a - 1:j + 1], pts[j:b + 2]
            rl = np.sum(lf.shortest_distance_points(left, left[0], left[-1]))
            rr = np.sum(lf.shortest_distance_points(right, right[0], right[-1]))
            row.append(float(rl * ll + rr * lr))
        else:
            row.append(0.0)
    return row


def model_smooth_scores(ctx, pts, g, mode):
    """Layer N: fit values (linear_fit.r2 of the documented spans, tied by C16) go to the Lean definition of the score"""
    import kneeliverse.linear_fit as lf
    from fractions import Fraction as F
    x, y = pts[:, 0], pts[:, 1]
    j, last = g[0], g[-1]
    fit = []
    for k in g:
        left = lf.r2(x[j:k + 1], y[j:k + 1])
        right = lf.r2(x[k:last], y[k:last])
        fit.append(float((left + right) / 2.0 if mode == 'linear' else (left if mode == 'left' else right)))
    if not all(math.isfinite(v) for v in fit):
        return None
    out = ctx.get_driver().call('smooth_scores', [core.rats(fit), core.rats([float(y[k]) for k in g])])
    return [F(v) for v in core.parse_rats(out[0])] if out else []


def ref_smooth_scores(pts, g, mode):
    """the ranking score of the property, computed independently of knee_ranking.smooth_ranking:
    (segment fit quality) x (relative height), where fit quality is the best-fit R2 (linear_fit.r2, tied by C16) of the
    span from the cluster's first knee up to and including the candidate (left), of the span from the candidate up to
    (excluding) the cluster's last knee (right), or their mean (linear); relative height = |peak - y| / sum of those."""
    import kneeliverse.linear_fit as lf
    x, y = pts[:, 0], pts[:, 1]
    j, last = g[0], g[-1]
    peak = max(y[k] for k in g)
    fit, w = [], []
    for k in g:
        left = lf.r2(x[j:k + 1], y[j:k + 1])
        right = lf.r2(x[k:last], y[k:last])
        fit.append((left + right) / 2.0 if mode == 'linear' else (left if mode == 'left' else right))
        w.append(abs(peak - y[k]))
    sw = sum(w)
    if sw != 0:
        w = [v / sw for v in w]
    return [float(a * b) for a, b in zip(fit, w)]


def gs(rows):
    return ';'.join(core.rats(r) for r in rows) if rows else '-'


def lower_hull(ctx, pts):
    """lower hull used by the hull-mode rule. The package's graham_scan_lower is the oracle (C18 decides it), EXCEPT when every coordinate
    is a small dyadic number (the float orientation test is then exact): there the hull comes from the Lean model `hullLower` evaluated on
    the exact rationals, i.e. independently of the package."""
    import kneeliverse.convex_hull as ch
    hull = [int(v) for v in np.asarray(ch.graham_scan_lower(pts)).tolist()]
    a = np.asarray(pts, float)
    if np.all(np.isfinite(a)) and np.all(np.abs(a) < 2 ** 12) and np.all(a * 4096 == np.floor(a * 4096)):
        m = core.parse_nats(ctx.get_driver().call('hull', ['lower', core.rats(a[:, 0]), core.rats(a[:, 1])])[0])
        if m != hull:
            ctx.tag('hull:model-differs-from-package(model used)')
        return m
    return hull


def model_filter(ctx, pts, knees, link, t, mode):
    """model output of filter_clusters for this configuration, or None when only the relational spec applies (ties / nan)"""
    import kneeliverse.knee_ranking as kr
    import kneeliverse.convex_hull as ch
    knees = [int(k) for k in knees]
    labels = [int(v) for v in np.asarray(link_fn(link)(pts[np.array(knees, dtype=int)], t)).tolist()]
    G = groups_of(labels, knees)
    d = ctx.get_driver()
    if mode in ('left', 'linear', 'right'):
        rows = []
        for g in G:
            sc = [float(v) for v in kr.smooth_ranking(pts, np.array(g, dtype=int), getattr(kr.ClusterRanking, mode))] if len(g) > 1 else [0.0] * len(g)
            if any(not math.isfinite(v) for v in sc) or (len(g) > 1 and len(set(sc)) < len(sc)):
                return None
            rows.append(sc)
        return core.parse_nats(d.call('cluster_filter', ['rank', core.nats(labels), core.nats(knees), gs(rows)])[0])
    hull = lower_hull(ctx, pts)
    rows = []
    for g in G:
        hw = [h for h in hull if g[0] <= h <= g[-1]]
        r = hull_err(pts, g, hw) if len(g) > 1 and len(hw) > 1 else [0.0] * len(g)
        if len(g) > 1 and len(hw) > 1 and len(set(r)) < len(r):
            return None
        rows.append(r)
    return core.parse_nats(d.call('cluster_filter_hull', [core.nats(labels), core.nats(knees), core.nats(hull), gs(rows)])[0])


@core.safe_case
def one(ctx, pts, knees, link, t, mode, family, int_dtype=None):
    import kneeliverse.postprocessing as pp
    import kneeliverse.knee_ranking as kr
    import kneeliverse.convex_hull as ch
    n = len(pts)
    knees = [int(k) for k in knees]
    ka = np.array(knees, dtype=int)
    if int_dtype is None:
        int_dtype = bool(gen.int_ok(pts) and ctx.rng.random() < 0.5)
    case = dict(points=pts.tolist(), knees=knees, linkage=link, t=float(t), mode=mode, int_dtype=bool(int_dtype))
    site = f'postprocessing.filter_clusters[{mode},{link}]' if mode != 'corners' else f'postprocessing.filter_clusters_corners[{link}]'
    # an integral curve is the same curve as an int64 array (raw counts): the REAL call gets that array, every oracle / reference below the float64 copy
    pin = pts.astype(np.int64) if int_dtype else pts
    if int_dtype:
        ctx.tag('input:int64-dtype')
    try:
        if mode == 'corners':
            out = pp.filter_clusters_corners(pin, ka, link_fn(link), t)
        else:
            out = pp.filter_clusters(pin, ka, link_fn(link), t, getattr(kr.ClusterRanking, mode))
        out = [int(v) for v in np.asarray(out).tolist()]
    except Exception as e:
        ctx.fail('predicate', 'completes', site, case, repr(e)[:200])
        ctx.count(family + ':' + mode, n=n)
        return
    labels = [int(v) for v in np.asarray(link_fn(link)(pts[ka], t)).tolist()] if len(knees) else []
    G = groups_of(labels, knees)
    d = ctx.get_driver()
    mg = d.call('groups', [core.nats(labels), core.nats(knees)])[0]
    if [core.parse_nats(g) for g in mg.split(';') if g != ''] != G:
        ctx.fail('correspondence', 'groupByLabels', site, case, dict(model=mg, harness=G))
    # ---- generic shape
    if any(a >= b for a, b in zip(out, out[1:])) or not set(out) <= set(knees):
        ctx.fail('predicate', 'strictly-increasing-subset-of-knees', site, case, dict(out=out))
        return
    per = [[k for k in out if k in g] for g in G]
    nonfinite = False
    ties = False
    if mode in ('left', 'linear', 'right'):
        rows = []
        for g in G:
            sc = [float(v) for v in kr.smooth_ranking(pts, np.array(g, dtype=int), getattr(kr.ClusterRanking, mode))] if len(g) > 1 else [0.0] * len(g)
            rows.append(sc)
            if len(g) > 1:
                from fractions import Fraction as F
                mq = model_smooth_scores(ctx, pts, g, mode)
                if mq is not None:
                    ctx.corr_checked += 1
                    if len(mq) != len(sc) or any(math.isfinite(a) and abs(F(a) - b) > F(1, 10 ** 9) * (abs(b) + 1) for a, b in zip(sc, mq)):
                        ctx.fail('correspondence', 'smoothScores (fit x relative height) vs smooth_ranking', f'knee_ranking.smooth_ranking[{mode}]', case, dict(cluster=g, impl=sc, model=[float(v) for v in mq]))
                ref = ref_smooth_scores(pts, g, mode)
                if any(math.isfinite(a) and math.isfinite(b) and abs(a - b) > 1e-12 * (abs(a) + abs(b)) + 1e-300 for a, b in zip(sc, ref)):
                    ctx.fail('predicate', 'ranking-score-is-fit-quality-times-relative-height', f'knee_ranking.smooth_ranking[{mode}]', case, dict(cluster=g, impl=sc, expected=ref))
            if any(not math.isfinite(v) for v in sc):
                nonfinite = True
            if len(set(sc)) < len(sc) and len(g) > 1:
                ties = True
        if any(len(p) != 1 for p in per):
            ctx.fail('predicate', 'exactly-one-member-per-cluster', site, case, dict(out=out, clusters=G))
        elif not nonfinite:
            for g, p, sc in zip(G, per, rows):
                if len(g) > 1 and sc[g.index(p[0])] != max(sc):
                    ctx.fail('predicate', 'chosen-member-attains-max-score', site, case, dict(cluster=g, chosen=p[0], scores=sc))
                    break
        if nonfinite:
            ctx.fail('predicate', 'ranking-score-is-a-number', site, case, dict(clusters=G, scores=[[repr(v) for v in r] for r in rows]))
        elif not ties:
            m = core.parse_nats(d.call('cluster_filter', ['rank', core.nats(labels), core.nats(knees), gs(rows)])[0])
            ctx.corr_checked += 1
            if m != out:
                ctx.fail('correspondence', 'clusterFilter', site, case, dict(impl=out, model=m, scores=rows))
        else:
            ctx.tag('tie:equal-scores(relational)')
    elif mode == 'hull':
        hull = lower_hull(ctx, pts)
        rows = []
        for g in G:
            hw = [h for h in hull if g[0] <= h <= g[-1]]
            rows.append(hull_err(pts, g, hw) if len(g) > 1 and len(hw) > 1 else [0.0] * len(g))
            if len(per[G.index(g)]) > 1:
                ctx.fail('predicate', 'hull-mode-at-most-one-member-per-cluster', site, case, dict(out=out, cluster=g))
            # the property quantifies over knee sets with at least 2 knees; a lone knee is returned unchanged by every mode (`if len(knees) <= 1`),
            # the model does the same (clusterFilterHull_excludes_needs_two) and the correspondence above compares the two there
            if not hw and per[G.index(g)] and len(knees) >= 2:
                ctx.fail('predicate', 'hull-mode-none-from-cluster-without-hull-point', site, case, dict(out=out, cluster=g, hull=hull))
            if len(hw) > 1 and len(g) > 1:
                ctx.tag('hull-multi-point-cluster')
                r = rows[-1]
                if len(set(r)) < len(r):
                    ties = True
        if not ties:
            m = core.parse_nats(d.call('cluster_filter_hull', [core.nats(labels), core.nats(knees), core.nats(hull), gs(rows)])[0])
            ctx.corr_checked += 1
            if m != out:
                ctx.fail('correspondence', 'clusterFilterHull', site, case, dict(impl=out, model=m, hull=hull, errors=rows))
        else:
            ctx.tag('tie:equal-hull-errors(relational)')
    else:
        rows = [[float(v) for v in pp.rank_corners_triangle(pts, np.array(g, dtype=int))] for g in G]
        from fractions import Fraction as F
        for g, r in zip(G, rows):
            for j_, k in enumerate(g):                      # every member of every cluster (the score of the chosen one matters as much as the first one's)
                q = F(d.call('corner_tri', [core.rats(pts[k - 1]), core.rats(pts[k]), core.rats(pts[k + 1])])[0])
                ctx.corr_checked += 1
                if abs(F(r[j_]) - q) > F(1, 10 ** 9) * abs(q) + F(1, 10 ** 300):
                    ctx.fail('correspondence', 'cornerTriQ vs rank_corners_triangle', 'postprocessing.rank_corners_triangle', case, dict(knee=k, impl=r[j_], model=float(q)))
                    break
        if any(len(p) != 1 for p in per):
            ctx.fail('predicate', 'corner-variant-one-member-per-cluster', site, case, dict(out=out, clusters=G))
        else:
            for g, p, sc in zip(G, per, rows):
                if sc[g.index(p[0])] != max(sc):
                    ctx.fail('predicate', 'corner-variant-keeps-a-maximiser-of-the-triangle-score', site, case, dict(cluster=g, chosen=p[0], scores=sc))
                    break
        m = core.parse_nats(d.call('cluster_filter', ['corners', core.nats(labels), core.nats(knees), gs(rows)])[0])
        ctx.corr_checked += 1
        if m != out:
            ctx.fail('correspondence', 'clusterFilterCorners', site, case, dict(impl=out, model=m, scores=rows))
    multi = any(len(g) > 1 for g in G)
    ctx.count(family + ':' + mode, n=n, nontrivial_key=(pts.tobytes(), tuple(knees), link, float(t), mode) if multi else None,
              sample=dict(n=n, knees=knees, linkage=link, t=float(t), mode=mode, clusters=G, out=out))


def run(ctx):
    rng = ctx.rng
    quick = ctx.tier == 'quick'
    # fewer than 2 knees is outside the property's quantifier: only completion, shape and the model correspondence are judged there
    w = np.array([[0, 10], [1, 6], [2, 7], [3, 3], [4, 2], [5, 0]], float)
    one(ctx, w, [2], 'single', 0.1, 'hull', 'corpus-single-knee')
    from .. import rdpfam
    for _ in range(8 if quick else 120):
        # LONG curves with a few knees far apart in ONE wide cluster (spans of hundreds of points, cliffs and spikes inside): the fit quality
        # of a member depends on every sample of its span - anything that thins out, strides or caps long spans ranks another member first
        pts, fam = rdpfam.long_curve(rng, rng.randrange(400, 1300))
        n = len(pts)
        knees = sorted(rng.sample(range(1, n - 1), rng.randrange(3, 7)))
        if rng.random() < 0.5:
            j = rng.randrange(20, n - 20)
            pts[j:, 1] = pts[j:, 1] * 0.25                   # a cliff somewhere
        one(ctx, pts, knees, rng.choice(LINK), rng.choice([0.5, 1.0, 0.75]), rng.choice(['left', 'linear', 'right', 'left', 'linear', 'corners', 'hull']), fam)
    for _ in range(700 if quick else 15000):
        n = rng.randrange(6, 60) if rng.random() < 0.9 else rng.randrange(4, 6)
        pts, fam = gen.dyadic_curve(rng, n, scale_exp=0)
        pts, vt = gen.magnitude(rng, pts, 0.2, ('xytiny30', 'xtiny30', 'ytiny30', 'xyhuge30', 'yoff30'))
        fam += vt
        if not vt and rng.random() < 0.15:
            # integer curve (raw counts): heights floored on a 2^-m grid and scaled to integers
            m = 2.0 ** rng.choice([3, 5, 8])
            q = np.column_stack([pts[:, 0] * (1.0 if np.all(pts[:, 0] == np.floor(pts[:, 0])) else m), np.floor(pts[:, 1] * m)])
            if np.all(np.diff(q[:, 0]) > 0) and np.all(q == np.floor(q)):
                pts, fam = q, fam + '@integer'
        elif not vt and rng.random() < 0.06:
            q = gen.bytecount_of(pts)
            if np.ptp(q[:, 1]) > 0:
                pts, fam = q, fam + '@bytecount'
        k = rng.randrange(2, min(n - 2, 12) + 1)
        if rng.random() < 0.05:
            k = rng.choice([0, 1])                           # the early-return paths: no knee, a single knee
        knees = sorted(rng.sample(range(1, n - 1), k))
        link = rng.choice(LINK)
        t = rng.choice([0.01, 0.05, 0.1, 0.2, 0.3, 0.5, 1.0, 1.5, 2.0 ** -12])
        if rng.random() < 0.3 and len(knees) >= 2:
            # a threshold that IS one of the normalised gaps between consecutive knees (single-linkage tie; a near-tie for the others)
            kx = pts[knees, 0]
            gaps = [float((kx[i + 1] - kx[i]) / (kx[-1] - kx[0])) for i in range(len(kx) - 1)]
            t = rng.choice(gaps)
        mode = rng.choice(MODES + ['corners'])
        one(ctx, pts, knees, link, t, mode, fam)


def replay(ctx, body):
    c = body['case']
    one(ctx, np.array(c['points'], float), c['knees'], c['linkage'], c['t'], c['mode'], 'replay', bool(c.get('int_dtype', False)))

"""C13 — worst-knee and corner filters implement exactly their selection rules."""
import numpy as np
from .. import core, gen

PROP_FILE = 'Knee/Props/C13.lean'
PROP_FILES = ['Knee/Props/C13.lean', 'Knee/Props/Invariance.lean']
RULE = ('curves with equal heights, plateaus, flat/vertical neighbour configurations (zero-area rectangles), ascending knee lists (all subsets for '
        'n<=7 quick / 9 thorough, random subsets beyond), thresholds t in {0, 1/4, 1/3, 1/2, 1} and IoU values of the input itself (exact ties). '
        'Correspondence is oracle-fed: heights are the y values, IoU values come from the package\'s own rect/rect_overlap on the corner/neighbour '
        'rectangles built by the harness from the property\'s definition. Predicates on the REAL output: running minimum, idempotence, partition, '
        'rule per knee, order preservation. non-trivial = filter drops at least one knee and keeps at least one; (curve, knees, t) new')
ASSUMPTIONS = ['IoU oracle = knee_ranking.rect_overlap(rect((p0.x,p2.y),p1), rect(p0,p2)) computed by the harness from the property\'s definition; its agreement with the exact IoU is C17']


def iou_of(pts, k):
    import kneeliverse.knee_ranking as kr
    p0, p1, p2 = pts[k - 1], pts[k], pts[k + 1]
    amin, amax = kr.rect(np.array([p0[0], p2[1]]), p1)
    bmin, bmax = kr.rect(p0, p2)
    return float(kr.rect_overlap(amin, amax, bmin, bmax))


def iou_exact(pts, k):
    """the same intersection-over-union from the property's definition over exact rationals (independent of knee_ranking)"""
    from fractions import Fraction as F
    (x0, y0), (x1, y1), (x2, y2) = [(F(float(a)), F(float(b))) for a, b in (pts[k - 1], pts[k], pts[k + 1])]
    A = (min(x0, x1), min(y2, y1), max(x0, x1), max(y2, y1))      # corner rectangle: (p0.x, p2.y) - p1
    B = (min(x0, x2), min(y0, y2), max(x0, x2), max(y0, y2))      # neighbour rectangle: p0 - p2
    dx = max(F(0), min(A[2], B[2]) - max(A[0], B[0]))
    dy = max(F(0), min(A[3], B[3]) - max(A[1], B[1]))
    inter = dx * dy
    if inter == 0:
        return F(0)
    return inter / ((A[2] - A[0]) * (A[3] - A[1]) + (B[2] - B[0]) * (B[3] - B[1]) - inter)


def running_min(ys, ks):
    out = []
    for i, k in enumerate(ks):
        if i == 0 or ys[k] <= hmin:
            out.append(k)
            hmin = ys[k]
    return out


@core.safe_case
def one(ctx, pts, ks, t, family, int_dtype=None):
    import kneeliverse.postprocessing as pp
    n = len(pts)
    ks = [int(k) for k in ks]
    if int_dtype is None:
        int_dtype = bool(gen.int_ok(pts) and ctx.rng.random() < 0.35)
    # an integral curve is also delivered as an int64 array (raw counts) to the REAL filters; oracles / references keep the float64 copy
    pin = pts.astype(np.int64) if int_dtype else pts
    if int_dtype:
        ctx.tag('input:int64-dtype')
    case = dict(points=pts.tolist(), knees=ks, t=t, int_dtype=bool(int_dtype))
    d = ctx.get_driver()
    ys = pts[:, 1]
    # ---- worst filter
    try:
        w = [int(v) for v in np.asarray(pp.filter_worst_knees(pin, np.array(ks, dtype=int))).tolist()]
    except Exception as e:
        ctx.fail('predicate', 'worst-completes', 'postprocessing.filter_worst_knees', case, repr(e)[:200])
        w = None
    if w is not None:
        want = running_min(ys, ks)
        if w != want:
            ctx.fail('predicate', 'worst-is-running-minimum', 'postprocessing.filter_worst_knees', case, dict(impl=w, expected=want))
        else:
            w2 = [int(v) for v in np.asarray(pp.filter_worst_knees(pin, np.array(w, dtype=int))).tolist()]
            if w2 != w:
                ctx.fail('predicate', 'worst-idempotent', 'postprocessing.filter_worst_knees', case, dict(once=w, twice=w2))
        m = core.parse_nats(d.call('worst', [core.rats(ys), core.nats(ks)])[0])
        ctx.corr_checked += 1
        if m != w:
            ctx.fail('correspondence', 'worstFilter', 'postprocessing.filter_worst_knees', case, dict(impl=w, model=m))
    # ---- corner filter / selector
    ious = {k: (iou_of(pts, k) if 1 <= k and k + 1 < n else 0.0) for k in ks}
    try:
        f = [int(v) for v in np.asarray(pp.filter_corner_knees(pin, np.array(ks, dtype=int), t=t)).tolist()]
        s = [int(v) for v in np.asarray(pp.select_corner_knees(pin, np.array(ks, dtype=int), t=t)).tolist()]
    except Exception as e:
        ctx.fail('predicate', 'corner-completes', 'postprocessing.filter_corner_knees/select_corner_knees', case, repr(e)[:200])
        f = s = None
    if f is not None:
        both = lambda k: 1 <= k and k + 1 < n
        want_f = [k for k in ks if (not both(k)) or ious[k] < t]
        want_s = [k for k in ks if both(k) and ious[k] >= t]
        detail = dict(filter=f, select=s, ious={str(k): v for k, v in ious.items()})
        if f != want_f:
            ctx.fail('predicate', 'corner-filter-rule(iou<t or end knee)', 'postprocessing.filter_corner_knees', case, dict(impl=f, expected=want_f, **detail))
        if s != want_s:
            ctx.fail('predicate', 'corner-select-rule(iou>=t)', 'postprocessing.select_corner_knees', case, dict(impl=s, expected=want_s, **detail))
        # the same rule with the exact IoU of the definition, wherever the threshold is not within rounding of it
        if np.all(np.isfinite(pts)):
            from fractions import Fraction as F
            tq = F(float(t))
            for k in ks:
                if both(k):
                    q = iou_exact(pts, k)
                    if abs(q - tq) > F(1, 10 ** 9):
                        if (q >= tq) != (k in s) or (q < tq) != (k in f):
                            ctx.fail('predicate', 'corner-rule-with-exact-IoU(select iff IoU>=t, filter keeps iff IoU<t)', 'postprocessing.filter_corner_knees/select_corner_knees',
                                     case, dict(knee=k, iou_exact=float(q), iou_package=ious[k], t=float(t), filter=f, select=s))
                            break
        if sorted(f + s) != sorted(ks) or set(f) & set(s):
            ctx.fail('predicate', 'corner-partition', 'postprocessing.filter_corner_knees+select_corner_knees', case, detail)
        if f == want_f and s == want_s:
            f2 = [int(v) for v in np.asarray(pp.filter_corner_knees(pin, np.array(f, dtype=int), t=t)).tolist()] if f else []
            s2 = [int(v) for v in np.asarray(pp.select_corner_knees(pin, np.array(s, dtype=int), t=t)).tolist()] if s else []
            if f2 != f or s2 != s:
                ctx.fail('predicate', 'corner-idempotent', 'postprocessing.filter_corner_knees/select_corner_knees', case, dict(f=f, f2=f2, s=s, s2=s2))
        args = [str(n), core.rat(t), core.nats(ks), core.rats([ious[k] for k in ks])]
        mf = core.parse_nats(d.call('corner', ['filter'] + args)[0])
        ms = core.parse_nats(d.call('corner', ['select'] + args)[0])
        ctx.corr_checked += 2
        if mf != f:
            ctx.fail('correspondence', 'cornerFilter', 'postprocessing.filter_corner_knees', case, dict(impl=f, model=mf))
        if ms != s:
            ctx.fail('correspondence', 'cornerSelect', 'postprocessing.select_corner_knees', case, dict(impl=s, model=ms))
        if any(v == t for k, v in ious.items() if 1 <= k and k + 1 < n):
            ctx.tag('tie:iou==t')
        if any(v == 0.0 for k, v in ious.items() if 1 <= k and k + 1 < n):
            ctx.tag('zero-overlap-branch')
    if any(ys[a] == ys[b] for a, b in zip(ks, ks[1:])):
        ctx.tag('equal-heights')
    nontriv = None
    if w is not None and f is not None and ((0 < len(w) < len(ks)) or (0 < len(f) < len(ks))):
        nontriv = (pts.tobytes(), tuple(ks), t)
    ctx.count(family, n=n, nontrivial_key=nontriv, sample=dict(points=pts.tolist(), knees=ks, t=t, worst=w, corner_filter=f, corner_select=s))


def curve(rng, n):
    u = rng.random()
    if u < 0.35:
        # staircase / L-shaped corners, equal heights, vertical-ish and flat neighbours
        x = [0.0]
        y = [float(rng.randrange(4, 12))]
        for _ in range(n - 1):
            x.append(x[-1] + rng.choice([1, 1, 2, 4]))
            y.append(max(0.0, y[-1] - rng.choice([0, 0, 1, 2, 3])) if rng.random() < 0.85 else y[-1] + rng.choice([0, 1]))
        pts = np.array(list(zip(x, y)), float)
        if rng.random() < 0.15:
            return gen.bytecount_of(pts), 'staircase@bytecount'        # heights as raw byte counts (k * 2^33): rectangle areas ~2^80
        pts, vt = gen.near_ties(rng, pts, 0.2)
        return pts, 'staircase' + vt
    pts, fam = gen.dyadic_curve(rng, n)
    if '@' not in fam:
        pts, vt = gen.magnitude(rng, pts, 0.15)
        fam += vt
    if '@' not in fam:
        pts, vt = gen.near_ties(rng, pts, 0.15)
        fam += vt
    return pts, fam


def pick_t(rng, pts, ks):
    n = len(pts)
    if rng.random() < 0.4:
        vals = [iou_of(pts, k) for k in ks if 1 <= k and k + 1 < n]
        vals = [v for v in vals if 0 < v <= 1]
        if vals:
            return float(rng.choice(vals))
    return rng.choice([0.0, 0.25, 1 / 3, 0.33, 0.5, 1.0, 0.3, 1.5, -0.5])       # the statement puts no restriction on t


def run(ctx):
    import itertools
    rng = ctx.rng
    quick = ctx.tier == 'quick'
    nex = 7 if quick else 9
    for _ in range(40 if quick else 400):
        n = rng.randrange(3, nex + 1)
        pts, fam = curve(rng, n)
        idx = list(range(n))
        for r in range(0, n + 1):
            for ks in itertools.combinations(idx, r):
                if quick and rng.random() < 0.6:
                    continue
                one(ctx, pts, list(ks), pick_t(rng, pts, ks), 'allsubsets-' + fam)
    for _ in range(600 if quick else 12000):
        n = rng.randrange(3, 60)
        pts, fam = curve(rng, n)
        ks = sorted(rng.sample(range(n), rng.randrange(0, min(n, 14) + 1)))
        one(ctx, pts, ks, pick_t(rng, pts, ks), fam)
    for _ in range(3 if quick else 40):
        # LONG curves with hundreds of knees (beyond 1024 / 4096 points): chunked, strided or capped processing shows at a chunk boundary
        n = rng.choice([rng.randrange(1100, 2000), rng.randrange(4097, 5000)])
        pts, fam = curve(rng, n)
        ks = sorted(rng.sample(range(n), rng.randrange(150, 600)))
        one(ctx, pts, ks, pick_t(rng, pts, ks[:40]), 'long-' + fam, False)


def replay(ctx, body):
    c = body['case']
    one(ctx, np.array(c['points'], float), c['knees'], c['t'], 'replay', bool(c.get('int_dtype', False)))

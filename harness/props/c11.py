"""C11 — 1-D linkage clustering follows its stated threshold rule."""
import math
from fractions import Fraction as F
import numpy as np
from .. import core, gen

PROP_FILE = 'Knee/Props/C11.lean'
PROP_FILES = ['Knee/Props/C11.lean', 'Knee/Props/Invariance.lean']
KINDS = ['single', 'complete', 'centroid', 'average']
RULE = ('strictly increasing x (integer/dyadic grids with power-of-two ranges so quotients are representable, cluster sizes that make running means '
        'representable, random float64), 4 linkages, thresholds from a grid and from the linkage distances of the input itself (exact ties distance == t). '
        'Skeleton correspondence is oracle-fed (the harness evaluates the linkage distance of point i to the cluster [start,i) in float64 exactly as the '
        'property defines it) and compared with NO tolerance; the exact-Q linkage model is compared on conclusive cases (every |q-t| margin > 2^-30 or the '
        'float distance is exactly the rational one). Predicate on REAL labels: shape, rule per point, count monotone in t (single, complete). '
        'non-trivial = at least 2 clusters and one cluster with >= 2 members; (kind, xs, t) new')
ASSUMPTIONS = ['n>=2, strictly increasing finite x, t>0', 'float evaluation order of the running centroid is replicated by the harness oracle (the exact-Q theorem centroid_is_mean is about the real mean)']


def float_dist(kind, x, L, start, i):
    if kind == 'single':
        return math.fabs(x[i] - x[i - 1]) / L
    if kind == 'complete':
        return math.fabs(x[i] - x[start]) / L
    if kind == 'centroid':
        c = x[start]
        size = 1
        for m in range(start + 1, i):
            c = (size / (size + 1)) * c + (1 / (size + 1)) * x[m]
            size += 1
        return math.fabs(x[i] - c) / L
    cp = x[start:i]
    return float(np.sum(np.abs(cp - x[i])) / (len(cp) * L))


def exact_dist(kind, xq, Lq, start, i):
    if kind == 'single':
        return abs(xq[i] - xq[i - 1]) / Lq
    if kind == 'complete':
        return abs(xq[i] - xq[start]) / Lq
    if kind == 'centroid':
        return abs(xq[i] - sum(xq[start:i]) / (i - start)) / Lq
    return sum(abs(m - xq[i]) for m in xq[start:i]) / ((i - start) * Lq)


@core.safe_case
def one(ctx, kind, xs, t, family):
    import kneeliverse.clustering as cl
    fn = {'single': cl.single_linkage, 'complete': cl.complete_linkage, 'centroid': cl.centroid_linkage, 'average': cl.average_linkage}[kind]
    n = len(xs)
    x = np.array(xs, dtype=float)
    pts = np.column_stack([x, np.zeros(n)])
    case = dict(kind=kind, xs=[float(v) for v in xs], t=float(t))
    site = f'clustering.{kind}_linkage'
    try:
        labels = [int(v) for v in np.asarray(fn(pts, t)).tolist()]
        if np.all(x == np.floor(x)) and np.all(np.abs(x) < 2.0 ** 50) and ctx.rng.random() < 0.3:
            # the same points as an integer-dtype array, with arbitrary y values (the linkages are one-dimensional in x)
            pi = np.column_stack([x.astype(np.int64), np.arange(n, dtype=np.int64)[::-1]])
            li = [int(v) for v in np.asarray(fn(pi, t)).tolist()]
            ctx.tag('input:int64-dtype')
            if li != labels:
                ctx.fail('predicate', 'integer-dtype-points-give-the-same-labels', site, case, dict(float64=labels, int64=li))
    except Exception as e:
        ctx.fail('predicate', 'completes', site, case, repr(e)[:200])
        return None
    L = x[-1] - x[0]
    # ---- shape
    if len(labels) != n or labels[0] != 0 or any(b - a not in (0, 1) for a, b in zip(labels, labels[1:])):
        ctx.fail('predicate', 'labels-shape(one per point, start 0, steps 0/1)', site, case, dict(labels=labels))
        return None
    # ---- rule per point (exact arithmetic, latitude only at non-representable near-ties)
    xq = [F(float(v)) for v in x]
    Lq = xq[-1] - xq[0]
    tq = F(float(t))
    conclusive = True
    start = 0
    ties = 0
    # rounding of the normalised distance: each x carries eps*|x|, the running centroid accumulates it over the cluster (large offsets!)
    cond = F(float(64 * n * np.finfo(float).eps * np.max(np.abs(x)) / L)) if L > 0 else F(0)
    relm = F(1, 2 ** 30) + cond
    for i in range(1, n):
        q = exact_dist(kind, xq, Lq, start, i)
        fq = float_dist(kind, x, L, start, i)
        new = labels[i] != labels[i - 1]
        exact_rep = (F(fq) == q)
        margin = abs(q - tq)
        near = margin <= relm * max(abs(q), abs(tq), 1)
        if q == tq:
            ties += 1
        if near and not exact_rep:
            conclusive = False       # either decision is within rounding of the threshold
        elif new != (q >= tq):
            ctx.fail('predicate', 'new-cluster-iff-distance>=t', site, case, dict(i=i, start=start, distance=str(q), t=str(tq), labels=labels))
            return None
        if new:
            start = i
    if ties:
        ctx.tag('tie:distance==t')
    # ---- skeleton correspondence, oracle-fed, exact
    d = ctx.get_driver()

    def oracle(name, args):
        return core.rat(float_dist(kind, x, L, int(args[0]), int(args[1])))
    m = core.parse_nats(d.call('link', [core.rat(float(t)), str(n)], oracle)[0])
    ctx.corr_checked += 1
    if m != labels:
        ctx.fail('correspondence', 'linkLabels(oracle-fed)', site, case, dict(impl=labels, model=m))
    # ---- exact-Q model on conclusive cases
    if conclusive:
        mq = core.parse_nats(d.call('linkQ', [kind, core.rat(float(t)), core.rats(x)])[0])
        ctx.corr_checked += 1
        if mq != labels:
            ctx.fail('correspondence', 'linkage over Q', site, case, dict(impl=labels, model=mq))
    else:
        ctx.inconclusive += 1
    # Layer-N value check on one sampled (start, i)
    if n >= 3:
        i = ctx.rng.randrange(1, n)
        s = ctx.rng.randrange(0, i)
        q = F(d.call('distQ', [kind, core.rats(x), str(s), str(i)])[0])
        fq = float_dist(kind, x, L, s, i)
        if q != exact_dist(kind, xq, Lq, s, i) or abs(F(fq) - q) > (F(1, 10 ** 9) + cond) * (abs(q) + 1):
            ctx.fail('correspondence', 'linkage distance over Q vs float', site, case, dict(start=s, i=i, model=str(q), float=fq))
    ncl = labels[-1] + 1
    nontriv = (kind, tuple(xs), float(t)) if ncl >= 2 and ncl < n else None
    ctx.count(family + ':' + kind, n=n, nontrivial_key=nontriv, sample=dict(kind=kind, xs=case['xs'], t=float(t), labels=labels))
    return labels


def gen_xs(rng):
    u = rng.random()
    if u < 0.45:
        # power-of-two range, integer gaps: quotients representable
        k = rng.choice([3, 4, 5, 6, 8])
        L = 2 ** k
        n = rng.randrange(2, min(L, 24) + 1)
        inner = sorted(rng.sample(range(1, L), n - 2)) if n > 2 else []
        return [0.0] + [float(v) for v in inner] + [float(L)], 'pow2-range'
    if u < 0.75:
        n = rng.randrange(2, 30)
        x = [float(rng.randrange(0, 5))]
        for _ in range(n - 1):
            x.append(x[-1] + rng.choice([1, 1, 1, 2, 3, 8, 20]) * rng.choice([1.0, 0.5, 0.25]))
        return x, 'dyadic'
    n = rng.randrange(2, 40)
    x = list(np.cumsum([rng.uniform(0.001, 5.0) for _ in range(n)]))
    return [float(v) for v in x], 'float'


def pick_t(rng, kind, xs):
    n = len(xs)
    if n >= 3 and rng.random() < 0.45:
        x = np.array(xs)
        i = rng.randrange(1, n)
        s = rng.randrange(0, i)
        v = float_dist(kind, x, x[-1] - x[0], s, i)
        if v > 0:
            return v
    # thresholds above 1 are valid too (t > 0): a normalised distance can be exactly 1.0 (complete linkage, last point), never more
    return rng.choice([0.5, 0.25, 0.125, 0.1, 0.05, 0.01, 0.3, 1.0, 2.0 ** -6, 1.0, 1.5, 2.0, 1.0 + 2.0 ** -20, 16.0])


def run(ctx):
    rng = ctx.rng
    quick = ctx.tier == 'quick'
    # witness from DESIGN §2.2.2 (float centroid one ulp off an exact tie: must be inconclusive, never an alarm)
    one(ctx, 'centroid', [4, 8, 12, 20, 22, 24, 26, 30, 33, 36, 39], 0.5, 'corpus')
    for _ in range(4 if quick else 60):
        # LONG point lists (beyond 1024 / 4096 points, many clusters): chunked, strided, prefix-summed or capped processing
        n = rng.choice([rng.randrange(1100, 2000), rng.randrange(4097, 5000)])
        xs = [0.0]
        for _i in range(n - 1):
            xs.append(xs[-1] + (rng.choice([1, 1, 1, 2]) if rng.random() < 0.97 else rng.choice([40, 100, 400])) * 0.5)
        kind = rng.choice(KINDS)
        if kind in ('centroid', 'average'):
            xs = xs[:rng.randrange(1100, 1400)]            # the exact-Q reference of these two is quadratic in the cluster size
            one(ctx, kind, xs, rng.choice([0.002, 0.01]), 'long')
        else:
            one(ctx, kind, xs, rng.choice([0.002, 0.01, 0.05, 0.2]), 'long')
    for _ in range(1500 if quick else 30000):
        xs, fam = gen_xs(rng)
        u = rng.random()
        if u < 0.06:
            xs, fam = [v * 2.0 ** -40 for v in xs], fam + '@xtiny'      # total x range below 1e-8: distances are normalised by the range
        elif u < 0.10:
            xs, fam = [v + 2.0 ** 40 for v in xs], fam + '@xoff'
        elif u < 0.14:
            xs, fam = [v * 2.0 ** 30 for v in xs], fam + '@xhuge'
        kind = rng.choice(KINDS)
        t = pick_t(rng, kind, xs)
        labels = one(ctx, kind, xs, t, fam)
        # monotonicity of the cluster count in t (single, complete), on the REAL code
        if labels is not None and kind in ('single', 'complete') and rng.random() < 0.15 and len(xs) >= 3:
            # the whole sweep: the cluster count along the input's OWN distances (every threshold at which something can change), ascending
            x_ = np.array(xs)
            cand = sorted({float_dist(kind, x_, x_[-1] - x_[0], s_, i_) for i_ in range(1, len(xs)) for s_ in range(0, i_)} | {1.0, 2.0})
            cand = [c for c in cand if c > 0][:40]
            import kneeliverse.clustering as cl_
            fn_ = cl_.single_linkage if kind == 'single' else cl_.complete_linkage
            counts = [int(np.asarray(fn_(np.column_stack([x_, np.zeros(len(xs))]), c)).max()) + 1 for c in cand]
            ctx.tag('count-sweep')
            for (ca, na), (cb, nb) in zip(zip(cand, counts), zip(cand[1:], counts[1:])):
                if nb > na:
                    ctx.fail('predicate', 'cluster-count-never-increases-with-t', f'clustering.{kind}_linkage',
                             dict(kind=kind, xs=[float(v) for v in xs], t=float(ca)), dict(t_small=ca, count_small=na, t_large=cb, count_large=nb))
                    break
        if labels is not None and kind in ('single', 'complete') and rng.random() < 0.5:
            t2 = pick_t(rng, kind, xs)
            l2 = one(ctx, kind, xs, t2, fam)
            if l2 is not None:
                (ta, la), (tb, lb) = sorted([(t, labels), (t2, l2)], key=lambda p: p[0])
                if lb[-1] > la[-1]:
                    ctx.fail('predicate', 'cluster-count-never-increases-with-t', f'clustering.{kind}_linkage',
                             dict(kind=kind, xs=xs, t=ta, t2=tb), dict(count_small_t=la[-1] + 1, count_large_t=lb[-1] + 1))


def replay(ctx, body):
    c = body['case']
    one(ctx, c['kind'], c['xs'], c['t'], 'replay')
    if 't2' in c:
        one(ctx, c['kind'], c['xs'], c['t2'], 'replay')

"""C05 — fixed-size simplification is an exact-size, nested greedy refinement."""
import numpy as np
from .. import core, gen, rdpfam

PROP_FILE = 'Knee/Props/C05.lean'
PROP_FILES = ['Knee/Props/C05.lean', 'Knee/Props/C05S.lean']
RULE = ('rdp_fixed for EVERY k in 0..n+1 on each curve (the chain k=2..n is the history) x 2 distances x 3 orderings; curves as in C01 plus '
        'symmetric curves (equal ordering keys, pins the stable-sort order in the correspondence). Predicate on the REAL outputs: size, '
        'nestedness, the gained index is strictly inside a retained segment, is (within 1e-9 relative) a farthest interior point or the middle '
        'of an all-below-eps segment, and that segment has the maximal ordering score among retained segments with interior points. '
        'non-trivial = chain with >= 2 refinements and (config, curve) new')
ASSUMPTIONS = ['the ordering score of a segment is a function of the segment alone (order_* evaluate it on exactly the segment\'s slice); the '
               'predicate recomputes it with the package\'s own order_* primitive']


def seg_score(orc, a, b):
    """ordering score of retained segment [a..b] = left score of a virtual parent split at its last point"""
    pt = orc.pts[a:b + 1]
    f = orc.dist_fn[orc.dist]
    i = len(pt) - 1
    if orc.order == 'triangle':
        # order_triangle needs a right part with >=1 point: pt[i:] is the single last point; use the left value only
        base = np.linalg.norm(pt[0] - pt[i])
        h = f(pt, pt[0], pt[-1]).max()
        return 0.5 * base * h
    if orc.order == 'area':
        return float(np.sum(f(pt, pt[0], pt[-1])))
    return float(orc.lf.linear_fit_residuals_points(pt))


@core.safe_case
def chain(ctx, pts, cfg, family, kmax=None):
    n = len(pts)
    prev = None
    results = {}
    ok_chain = True
    for k in range(0, (n + 2) if kmax is None else min(n + 2, kmax + 1)):
        c = dict(cfg, k=k)
        res = rdpfam.run_case(ctx, 'rdp_fixed', pts, c, family)
        real = res and res.get('real')
        if not real or rdpfam.wf_failures(n, real['reduced'], real['removed']):
            ok_chain = False
            break
        results[k] = real['reduced']
        red = real['reduced']
        want = min(max(k, 2), n)
        if len(red) != want:
            ctx.fail('predicate', 'exact-size', res['site'], res['case'], dict(k=k, size=len(red), expected=want))
            ok_chain = False
            break
        if k >= 3 and k <= n:
            prev = results[k - 1]
            new = sorted(set(red) - set(prev))
            if not set(prev) <= set(red) or len(new) != 1:
                ctx.fail('predicate', 'nested', res['site'], res['case'], dict(k=k, S_prev=prev, S_k=red))
                ok_chain = False
                break
            x = new[0]
            a = max(i for i in prev if i < x)
            b = min(i for i in prev if i > x)
            orc = rdpfam.Oracles(pts, cfg['dist'], 'smape', cfg['order'])
            d = np.asarray(orc.dst(a, b + 1), float)
            mx = float(np.max(d[1:-1]))
            alleps = bool(np.all(d < np.finfo(float).eps))
            if alleps:
                # nothing is farther than rounding noise; any interior point is a farthest one up to noise
                ctx.tag('gained-index-in-all-below-eps-segment')
            elif d[x - a] < mx - 1e-9 * (1 + abs(mx)):
                ctx.fail('predicate', 'gained-index-is-farthest', res['site'], res['case'], dict(k=k, x=x, segment=[a, b], dist=float(d[x - a]), max=mx))
            if not alleps and np.all(np.isfinite(pts)):
                # the same rule against the GEOMETRIC definition of the distance (independent of the package's primitives)
                gd, gn = rdpfam.geo_dist(pts[a:b + 1], cfg['dist'])
                gmx = float(np.max(gd[1:-1]))
                if gd[x - a] + gn < gmx - gn and gd[x - a] < gmx * (1 - 1e-9):
                    ctx.fail('predicate', 'gained-index-is-geometrically-farthest', res['site'], res['case'],
                             dict(k=k, x=x, segment=[a, b], dist=float(gd[x - a]), max=gmx, noise=gn))
            # greedy: the refined segment has maximal score among retained segments with interior points
            segs = [(p, q) for p, q in zip(prev, prev[1:]) if q - p >= 2]
            if len(segs) > 1:
                sc = {s: seg_score(orc, *s) for s in segs}
                best = max(sc.values())
                mine = sc[(a, b)]
                if mine < best and not (abs(best - mine) <= 1e-12 * (abs(best) + abs(mine))):
                    ctx.fail('predicate', 'refined-segment-has-maximal-score', res['site'], res['case'],
                             dict(k=k, refined=[a, b], score=mine, best=best, scores={str(s): v for s, v in sc.items()}))
                # the same rule against the GEOMETRIC definition of the score (independent of the package's distance primitives)
                if cfg['order'] != 'segment' and np.all(np.isfinite(pts)):
                    gs = {s: rdpfam.geo_score(pts, s[0], s[1], cfg['dist'], cfg['order']) for s in segs}
                    gm, gmn = gs[(a, b)]
                    gb, gbn = max(gs.values(), key=lambda v: v[0] - v[1])
                    if gm + gmn < gb - gbn and gm < gb * (1 - 1e-9):
                        ctx.fail('predicate', 'refined-segment-has-maximal-geometric-score', res['site'], res['case'],
                                 dict(k=k, refined=[a, b], score=gm, best=gb, noise=[gmn, gbn], scores={str(s): v[0] for s, v in gs.items()}))
                if sum(1 for v in sc.values() if v == best) > 1:
                    ctx.tag('tie:equal-best-scores')
    nontriv = (tuple(sorted(cfg.items())), pts.tobytes()) if ok_chain and n >= 4 else None
    ctx.count(family, n=n, nontrivial_key=nontriv, sample=dict(config=cfg, points=pts.tolist(), chain={str(k): v for k, v in list(results.items())[:6]}))


def symmetric_curve(rng, n):
    h = (n + 1) // 2
    half = [rng.randrange(0, 20) * 0.25 for _ in range(h)]
    y = half + half[:n - h][::-1]
    x = list(range(n))
    return np.array([[float(a), float(b)] for a, b in zip(x, y)]), 'symmetric'


def run(ctx):
    rng = ctx.rng
    quick = ctx.tier == 'quick'
    cfgs = [dict(dist=d, order=o) for d in rdpfam.DISTS for o in rdpfam.ORDERS]
    chain(ctx, np.array([[0, 0], [1, 9], [3, 27]], float), dict(dist='shortest', order='segment'), 'corpus')
    chain(ctx, np.array([[0, 1], [1, 2]], float), dict(dist='shortest', order='segment'), 'corpus')
    for pts in gen.exhaustive_small(4):
        if rng.random() < (0.25 if quick else 1.0):
            chain(ctx, pts, rng.choice(cfgs), 'exhaustive-small')
    # n = 5, 6: the smallest sizes at which TWO retained segments with interior points compete (the greedy clause), sampled from the full scope
    import itertools
    for _ in range(120 if quick else 3000):
        n5 = rng.choice([5, 6])
        x5 = np.cumsum([0] + [rng.choice([1, 2]) for _ in range(n5 - 1)]).astype(float)
        y5 = np.array([rng.choice([0, 1, 2, 3]) for _ in range(n5)], float)
        chain(ctx, np.column_stack([x5, y5]), rng.choice(cfgs), 'small-scope-5-6')
    for _ in range(8 if quick else 120):
        pts, fam = rdpfam.bytecount_curve(rng)
        chain(ctx, pts, dict(dist='perpendicular', order=rng.choice(rdpfam.ORDERS), int_dtype=True), fam)
    for _ in range(30 if quick else 500):
        # strongly NON-MONOTONE (oscillating) curves with the point-to-SEGMENT distance: the farthest point of a retained segment often projects
        # beyond a chord end, where segment distance and perpendicular height differ - every ordering score must use the selected distance
        n = rng.randrange(10, 26)
        xs = np.cumsum([rng.choice([1, 1, 2, 3]) for _ in range(n)]).astype(float)
        ys = np.array([(rng.randrange(8, 20) if i % 2 else rng.randrange(0, 6)) * rng.choice([1.0, 0.5]) for i in range(n)])
        chain(ctx, np.column_stack([xs, ys]), dict(dist='shortest', order=rng.choice(['triangle', 'triangle', 'area', 'segment'])), 'oscillating')
    for _ in range(1 if quick else 12):
        # a LONG curve (beyond 1024 / 4096 points), the first few dozen sizes: sub-sampled, chunked or capped distance scans pick another point
        pts, fam = rdpfam.long_curve(rng)
        chain(ctx, pts, rng.choice(cfgs), fam, kmax=rng.randrange(12, 30))
    for _ in range(150 if quick else 3000):
        u = rng.random()
        if u < 0.2:
            pts, fam = symmetric_curve(rng, rng.randrange(4, 20))
        else:
            pts, fam = rdpfam.random_points(ctx, 22 if quick else 48)
        chain(ctx, pts, rng.choice(cfgs), fam)


def replay(ctx, body):
    c = body['case']
    cfg = dict(dist=c['config'].get('dist', 'shortest'), order=c['config'].get('order', 'segment'))
    chain(ctx, np.array(c['points'], float), cfg, 'replay')

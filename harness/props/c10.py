"""C10 — Z-method knees are valid, height-ordered and mutually separated."""
import math
from fractions import Fraction as F
import numpy as np
from .. import core, gen

PROP_FILE = 'Knee/Props/C10.lean'
PROP_FILES = ['Knee/Props/C10.lean', 'Knee/Props/C10B.lean', 'Knee/Props/C10S.lean']
RULE = ('miss-ratio-like curves (strictly increasing non-negative integer x, y in [0,1] multiples of 2^-10: step curves, convex decays, plateaus, noisy '
        'decays) with n>=4 x (dx, dy, dz) in (0,1] (mostly dyadic so that band arithmetic is exact in float64) x optional x_max / y_range overrides. '
        'Correspondence: the Lean model is fed the z-scores the package computed (uts csd + zscore_array), the integer band width, the float band height and the '
        'float threshold sequence 3, 3-dz, ... (accumulated exactly as the code does); exact index comparison; cases with equal z-scores between same-round groups '
        'are relational. Predicates on the REAL result: terminates within a round budget, valid strictly increasing indices, heights non-increasing, any two knees '
        '>= max(1, floor(x_max*dx)) apart in x and >= (y_max-y_min)*dy apart in y. non-trivial = at least 2 knees; (curve, dx, dy, dz, overrides) new')
ASSUMPTIONS = ['dz >= 2^-20 (below float resolution of 3.0 the real loop cannot make progress; exact arithmetic cannot exhibit that)', 'integer x (the code keys the result by int(x))']


def curve(rng, n):
    kind = rng.choice(['steps', 'decay', 'plateaus', 'noisy', 'cliffs', 'grid', 'decimal', 'bumps'])
    contiguous = rng.random() < 0.35        # x = 0..n-1: the point count is then one more than the largest x
    x = [0 if contiguous else rng.choice([0, 1])]
    for _ in range(n - 1):
        x.append(x[-1] + (1 if contiguous else rng.choice([1, 1, 1, 2, 3, 5])))
    y, cur = [], rng.choice([1.0, 0.96875, 0.75])
    for i in range(n):
        y.append(cur)
        if kind == 'steps':
            if rng.random() < 0.25:
                cur *= rng.choice([0.5, 0.75, 0.9])
        elif kind == 'bumps':
            # a decreasing staircase with transient bumps: accepted knees can come low, then high, then in between
            r = rng.random()
            if r < 0.3:
                cur *= rng.choice([0.5, 0.7, 0.85])
            elif r < 0.45:
                cur = min(1.0, cur * rng.choice([1.25, 1.5, 2.0]))
        elif kind == 'decay':
            cur *= rng.choice([0.8, 0.9, 0.95, 0.97])
        elif kind == 'plateaus':
            if rng.random() < 0.12:
                cur *= rng.choice([0.3, 0.6])
        elif kind == 'noisy':
            cur = min(1.0, max(0.0, cur * rng.choice([0.85, 0.95, 1.0, 1.02])))
        else:
            if rng.random() < 0.08:
                cur *= 0.2
            else:
                cur *= 0.995
        cur = math.floor(cur * 1024) / 1024
    if kind == 'grid':
        # heights on a coarse dyadic grid from 1 down to 0: with dyadic dy the separation (y_max - y_min)*dy is a grid step, so points
        # lie EXACTLY one separation above / below an accepted knee (the window test and the acceptance test meet at equality)
        g = rng.choice([8, 16, 32])
        y, cur = [], g
        for i in range(n):
            y.append(cur / g)
            if rng.random() < 0.45:
                cur = max(0, cur - rng.choice([1, 1, 2, 3]))
        y[-1] = 0.0
        y[0] = 1.0
    if kind == 'decimal':
        # two-decimal miss ratios (0.7, 0.6, 0.3 …): NOT dyadic, so y0 + h and |y - y0| >= h round differently in floating point;
        # only the direct predicates (terminates, valid, ordered, separated up to rounding noise) are evaluated on this family
        y, cur = [], rng.choice([1.0, 0.9, 0.7])
        for i in range(n):
            y.append(round(cur, 2))
            if rng.random() < 0.4:
                cur = max(0.0, cur - rng.choice([0.1, 0.1, 0.2, 0.3, 0.05]))
    return np.array(list(zip(map(float, x), y)), float), kind


@core.safe_case
def one(ctx, pts, dx, dy, dz, x_max, y_range, family, int_dtype=None):
    import kneeliverse.zmethod as zm
    import uts.gradient as grad
    import uts.zscore as uz
    n = len(pts)
    d = ctx.get_driver()
    if int_dtype is None:
        int_dtype = bool(gen.int_ok(pts) and ctx.rng.random() < 0.3)
    # an integral curve is also delivered as an int64 array (raw counts) to the REAL call; oracles / references keep the float64 copy
    pin = pts.astype(np.int64) if int_dtype else pts
    if int_dtype:
        ctx.tag('input:int64-dtype')
    case = dict(points=pts.tolist(), dx=dx, dy=dy, dz=dz, x_max=x_max, y_range=y_range, int_dtype=bool(int_dtype))
    site = 'zmethod.knees'
    budget = int(64 * (3.0 / dz + 64 + 2 * n) + 1024)
    try:
        out, cnt = core.guarded(lambda: zm.knees(pin, dx=dx, dy=dy, dz=dz, x_max=x_max, y_range=y_range), budget)
        out = [int(v) for v in np.asarray(out).tolist()]
    except core.LoopBudgetExceeded as e:
        ctx.fail('predicate', 'terminates', site, case, str(e))
        return
    except Exception as e:
        ctx.fail('predicate', 'completes', site, case, repr(e)[:200])
        return
    x, y = pts[:, 0], pts[:, 1]
    xm = x_max if x_max else n
    ymax, ymin = y_range if y_range else (float(y.max()), float(y.min()))
    w = max(1, int(xm * dx))
    h = (ymax - ymin) * dy
    # ---- direct predicates
    if any(not (0 <= k < n) for k in out) or any(a >= b for a, b in zip(out, out[1:])):
        ctx.fail('predicate', 'valid-strictly-increasing-indices', site, case, dict(out=out))
        return
    if any(y[b] > y[a] for a, b in zip(out, out[1:])):
        ctx.fail('predicate', 'heights-non-increasing', site, case, dict(out=out, heights=[float(y[k]) for k in out]))
    hq = F(float(h))
    for i in range(len(out)):
        for j in range(i + 1, len(out)):
            a, b = out[i], out[j]
            if abs(x[a] - x[b]) < w:
                ctx.fail('predicate', 'knees-at-least-x-width-apart', site, case, dict(out=out, pair=[a, b], w=w))
                return
            gap = abs(F(float(y[a])) - F(float(y[b])))
            if gap < hq and not (hq - gap <= F(1, 2 ** 40) * hq):          # rounding noise relative to the separation itself
                ctx.fail('predicate', 'knees-at-least-y-height-apart', site, case, dict(out=out, pair=[a, b], gap=float(gap), h=float(h)))
                return
    # ---- correspondence
    if n >= 4 and ymin != 1 and 'decimal' not in family:
        z = uz.zscore_array(x, grad.csd(x, y))
        if not np.all(np.isfinite(z)):
            ctx.tag('oracle-nonfinite')
        else:
            thr, t = [], 3
            minz = float(min(z))
            rounds_after = 0
            while len(thr) < 200000:
                thr.append(float(t))
                if t <= minz:
                    rounds_after += 1
                    if rounds_after > n + 3:
                        break
                t -= dz
            m = d.call('zknees', [core.rats(x), core.rats(y), core.rats(z), str(w), core.rat(float(h)), core.rat(float(ymin)), core.rats(thr)])
            ctx.corr_checked += 1
            if m[0] == 'none':
                ctx.fail('correspondence', 'zKnees fuel exhausted', site, case, dict(impl=out))
            elif core.parse_nats(m[0]) != out:
                # NumPy's argsort order on EQUAL keys is unspecified: when some round sorted group candidates with equal
                # z keys (reported by the driver) the comparison is relational only (direct predicates above)
                if len(m) > 1 and m[1] == 'tie':
                    ctx.tag('tie:equal-z-keys-in-a-multi-group-round(relational)')
                else:
                    ctx.fail('correspondence', 'zKnees', site, case, dict(impl=out, model=core.parse_nats(m[0]), w=w, h=float(h)))
    ctx.count(family, n=n, nontrivial_key=(pts.tobytes(), dx, dy, dz, x_max, str(y_range)) if len(out) >= 2 else None,
              sample=dict(n=n, dx=dx, dy=dy, dz=dz, x_max=x_max, y_range=y_range, knees=out))


def run(ctx):
    rng = ctx.rng
    quick = ctx.tier == 'quick'
    for _ in range(350 if quick else 8000):
        n = rng.randrange(4, 17) if rng.random() < 0.6 else rng.randrange(17, 90)
        pts, fam = curve(rng, n)
        dyad = [2.0 ** -k for k in range(0, 7)]
        dx = rng.choice(dyad + [0.05, 0.1])
        dy = rng.choice(dyad + [0.05]) if rng.random() < 0.85 else rng.choice([0.1, 0.3])
        if fam == 'decimal':
            dy = rng.choice([0.1, 0.2, 0.05, 0.3, 0.25])
        dz = rng.choice([1.0, 0.5, 0.25, 0.125, 0.0625, 0.05, 0.1, 2.0, 4.0])
        # overrides: any positive x_max (also below the point count / below the x extent), any y range [max, min] with max > min
        x_max = None if rng.random() < 0.7 else rng.choice([int(pts[-1, 0]) + rng.randrange(0, 50), max(2, n // 2), max(2, int(pts[-1, 0]) // 3), 10 * n])
        y_range = None if rng.random() < 0.7 else rng.choice([[1.0, 0.0], [1.0, 0.0], [0.875, 0.125], [2.0, 0.0], [0.5, 0.25]])
        if rng.random() < 0.2:
            # very small miss ratios: the y separation is dy TIMES THE Y RANGE, never an absolute quantity
            pts = pts.copy()
            pts[:, 1] *= 2.0 ** -30
            y_range = None if y_range is None else [2.0 ** -30, 0.0]
            fam += '@ytiny30'
        elif rng.random() < 0.1 and y_range is None:
            # miss counts instead of miss ratios: integral heights (also byte-count sized), delivered as int64 arrays part of the time
            q = gen.bytecount_of(pts) if rng.random() < 0.5 else np.column_stack([pts[:, 0], np.floor(pts[:, 1] * 256)])
            if np.ptp(q[:, 1]) > 0 and np.all(np.diff(q[:, 0]) > 0):
                pts, fam = q, fam + '@integer'
        one(ctx, pts, dx, dy, dz, x_max, y_range, fam)
    for _ in range(40 if quick else 800):
        # strongly NON-MONOTONE curves (random heights on a dyadic grid, 40-80 points): bursts whose selected point lies between two later
        # candidates of one round - the separation rules are stated against EVERY selected point, not against x-neighbours
        n = rng.randrange(40, 80)
        xs = np.cumsum([rng.choice([1, 1, 2]) for _ in range(n)]).astype(float)
        ys = np.array([rng.randrange(0, 65) / 64.0 for _ in range(n)])
        if rng.random() < 0.5:
            ys = np.sort(ys)[::-1] * 0.5 + ys * 0.5          # a noisy decay
        one(ctx, np.column_stack([xs, ys]), rng.choice([0.01, 0.02, 0.05]), rng.choice([0.02, 0.05, 0.1]), rng.choice([0.2, 0.5, 0.25]), None, None, 'random-heights')
    long_cases(ctx)


def long_cases(ctx):
    """LONG curves (beyond 1024 / 4096 points; many outlier candidates per round)"""
    rng = ctx.rng
    for _ in range(3 if ctx.tier == 'quick' else 30):
        n = rng.choice([rng.randrange(1100, 2000), rng.randrange(4097, 5000)])
        xs = np.arange(n, dtype=float)
        ys = np.round(4096.0 * np.exp(-rng.choice([0.001, 0.003]) * xs)) / 4096.0
        for _j in range(rng.randrange(5, 40)):
            ys[rng.randrange(5, n - 5):] *= rng.choice([0.5, 0.75, 0.875])            # cliffs: second-derivative outliers
        one(ctx, np.column_stack([xs, ys]), rng.choice([0.01, 0.02, 0.05]), rng.choice([0.01, 0.05]), rng.choice([0.5, 0.25, 0.1]), None, None, 'long-cliffs', False)


def replay(ctx, body):
    c = body['case']
    one(ctx, np.array(c['points'], float), c['dx'], c['dy'], c['dz'], c['x_max'], c['y_range'], 'replay', bool(c.get('int_dtype', False)))

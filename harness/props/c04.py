"""C04 — threshold RDP keeps a segment only if it fits and splits only where it must."""
import numpy as np
from .. import core, gen, rdpfam

PROP_FILE = 'Knee/Props/C04.lean'
RULE = ('rdp.rdp x 2 distances x 5 metrics; thresholds from a grid and from the segment costs observed on the input itself (exact ties '
        'cost == t exercise the </>= sides); curves as in C01. Predicate on the REAL output: (a) every retained segment with interior points has '
        'cost on the accepting side (harness-owned metric table), (b) a tolerant recursive explainer finds an RDP derivation '
        '(distance within 1e-9*(1+max d) of the maximum counts as "not farther"). non-trivial = at least one split and the (config, curve) pair is new')
ASSUMPTIONS = ['t>0 (t<=1 for R2); costs/distances are the package\'s own primitives (C16/C17 tie those to their definitions)']


def accepting(cost, v, t):
    return (v >= t) if cost == 'r2' else (v < t)


class ExplainBudget(Exception):
    pass


def explain(orc, t, cost, l, r, retained, depth=0, memo=None):
    """is the set of retained indices inside [l, r) explained by a recursive split? returns (ok, why).
    Memoised on (l, r) (the answer depends on nothing else) and bounded: many exactly tied candidates would otherwise backtrack exponentially."""
    if memo is None:
        memo = {'calls': 0}
    if (l, r) in memo:
        return memo[(l, r)]
    memo['calls'] += 1
    if memo['calls'] > 20000:
        raise ExplainBudget()
    res = _explain(orc, t, cost, l, r, retained, depth, memo)
    memo[(l, r)] = res
    return res


def _explain(orc, t, cost, l, r, retained, depth, memo):
    inner = [i for i in retained if l < i < r - 1]
    v = orc.cst(l, r) if r - l > 2 else (1.0 if cost == 'r2' else 0.0)
    if not inner:
        if accepting(cost, v, t):
            return True, None
        return False, dict(clause='retained-segment-accepts', range=[l, r], cost=float(v), t=t)
    if accepting(cost, v, t):
        return False, dict(clause='split-only-where-rejecting', range=[l, r], cost=float(v), t=t, retained_inside=inner)
    d = np.asarray(orc.dst(l, r), dtype=float)
    mx = float(np.max(d[1:-1]))
    tol = 1e-9 * abs(mx) + 1e-300           # rounding noise relative to the distances themselves (no absolute floor: tiny-magnitude curves are judged as sharply)
    cands = [i for i in inner if d[i - l] >= mx - tol]
    if not cands:
        return False, dict(clause='split-at-farthest-interior-point', range=[l, r], max_interior_distance=mx,
                           retained_inside=inner, their_distances=[float(d[i - l]) for i in inner])
    why = None
    for s in cands:
        ok1, w1 = explain(orc, t, cost, l, s + 1, retained, depth + 1, memo)
        if not ok1:
            why = w1
            continue
        ok2, w2 = explain(orc, t, cost, s, r, retained, depth + 1, memo)
        if ok2:
            return True, None
        why = w2
    return False, why


@core.safe_case
def one(ctx, pts, cfg, family):
    res = rdpfam.run_case(ctx, 'rdp', pts, cfg, family)
    n = len(pts)
    real = res and res.get('real')
    nontriv = None
    if real and len(real['reduced']) > 2:
        nontriv = (tuple(sorted(cfg.items())), pts.tobytes())
    ctx.count(family, n=n, nontrivial_key=nontriv, sample=dict(config=cfg, points=pts.tolist(), reduced=real and real['reduced']))
    if not real:
        return
    red = real['reduced']
    if rdpfam.wf_failures(n, red, real['removed']):
        return  # C01 territory, already reported by run_case
    orc = rdpfam.Oracles(pts, cfg['dist'], cfg['cost'], 'segment')
    try:
        import sys
        lim = sys.getrecursionlimit()
        sys.setrecursionlimit(max(lim, 4 * len(red) + 200))
        try:
            ok, why = explain(orc, cfg['t'], cfg['cost'], 0, n, set(red))
        finally:
            sys.setrecursionlimit(lim)
    except ExplainBudget:
        ctx.tag('explainer-budget-exhausted(inconclusive)')
        return
    except Exception as e:
        ctx.fail('predicate', 'explainer-primitive-raised', res['site'], res['case'], repr(e)[:200])
        return
    if not ok:
        ctx.fail('predicate', why.pop('clause'), res['site'], res['case'], why)
    # tie statistics
    if any(v == cfg['t'] for v in orc.seen['cst']):
        ctx.tag('tie:cost==t')


def rand_cfg(ctx, pts):
    rng = ctx.rng
    cfg = dict(dist=rng.choice(rdpfam.DISTS), cost=rng.choice(rdpfam.COSTS))
    t, tie = rdpfam.tie_threshold(rng, pts, cfg['cost'], 'rdp')
    if cfg['cost'] == 'r2':
        t = min(t, 1.0)
    elif t <= 0:
        t = 0.01
    cfg['t'] = float(t)
    return cfg


def run(ctx):
    rng = ctx.rng
    quick = ctx.tier == 'quick'
    one(ctx, np.array([[1, 2], [4, 1], [7, 0]], float), dict(t=0.01, dist='shortest', cost='smape'), 'corpus')
    one(ctx, np.array([[0, 3], [1, 2], [2, 1], [3, 0]], float), dict(t=0.01, dist='perpendicular', cost='rpd'), 'corpus')
    for pts in gen.exhaustive_small(4 if quick else 5):
        if rng.random() < (0.6 if quick else 1.0):
            one(ctx, pts, rand_cfg(ctx, pts), 'exhaustive-small')
    for _ in range(1500 if quick else 25000):
        pts, fam = rdpfam.random_points(ctx, 40 if quick else 200)
        one(ctx, pts, rand_cfg(ctx, pts), fam)
    for _ in range(3 if quick else 40):
        pts, fam = rdpfam.long_curve(rng)
        cfg = rand_cfg(ctx, pts)
        cfg['t'] = rng.choice([0.05, 0.2, 0.5]) if cfg.get('cost') != 'r2' else rng.choice([0.9, 0.99])
        one(ctx, pts, cfg, fam)


def replay(ctx, body):
    c = body['case']
    one(ctx, np.array(c['points'], float), c['config'], 'replay')

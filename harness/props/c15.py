"""C15 — global reconstruction cost matches its definition and is cache-transparent."""
import math
from fractions import Fraction as F
import numpy as np
from .. import core, gen

PROP_FILE = 'Knee/Props/C15.lean'
PROP_FILES = ['Knee/Props/C15.lean', 'Knee/Props/C15S.lean']
KINDS = ['r2', 'rmspe', 'rmsle', 'rpd', 'smape']
RULE = ('performance curves (dyadic families) x breakpoint subsets (ascending, both ends; all-points and two-point sets included) x 5 metrics x query '
        'histories of 2..8 breakpoint sets sharing one cache (repeated, nested, shuffled sets). Value correspondence: gcostQ fed with the package\'s own '
        'compute_partial_cost per segment (Layer S, tolerance 1e-12 relative for the float summation order) and, for the 4 non-logarithmic metrics, the fully '
        'exact-Q model (segErrQ) under 1e-9; bit-wise predicate shared-cache == fresh-cache on the REAL code and cache contents == fresh segment values; '
        '>= 0; all-breakpoints value; global RMSE vs RMSE against np.interp; MIP vs the model with sqrt supplied. non-trivial = >= 3 segments, >= 1 cache hit; new')
ASSUMPTIONS = ['one cache serves one (curve, metric): the cache key carries no metric (as in rdp._grdp)', 'y >= 0 (logarithms, ratios)']


def close(f, q, rel=1e-9, scale=0):
    f = float(f)
    if not math.isfinite(f):
        return False
    return abs(F(f) - q) <= F(rel) * (abs(q) + F(scale)) + F(1, 10 ** 300)


@core.safe_case
def one(ctx, pts, kind, queries, family, int_dtype=None):
    import kneeliverse.evaluation as ev
    import kneeliverse.linear_fit as lf
    import kneeliverse.metrics as metrics
    cost = getattr(metrics.Metrics, kind)
    n = len(pts)
    d = ctx.get_driver()
    if int_dtype is None:
        int_dtype = bool(gen.int_ok(pts) and ctx.rng.random() < 0.35)
    # an integral curve is also delivered as an int64 array (raw counts) to the REAL calls; oracles / references keep the float64 copy
    pin = pts.astype(np.int64) if int_dtype else pts
    if int_dtype:
        ctx.tag('input:int64-dtype')
    case = dict(points=pts.tolist(), metric=kind, queries=queries, int_dtype=bool(int_dtype))
    site = f'evaluation.compute_global_cost[{kind}]'
    y = pts[:, 1]
    tss = float(np.sum(np.square(y - np.mean(y))))
    shared = {}
    hits = 0
    shared_vals = []
    for qi, red in enumerate(queries):
        before = set(shared.keys())
        try:
            vs = float(ev.compute_global_cost(pin, list(red), cost, shared))
            vf = float(ev.compute_global_cost(pin, list(red), cost, {}))
            vn = float(ev.compute_global_cost(pin, np.array(red), cost))
        except Exception as e:
            ctx.fail('predicate', 'completes', site, case, repr(e)[:200])
            return
        shared_vals.append(vs)
        hits += sum(1 for a, b in zip(red, red[1:]) if (a, b) in before)
        if not (vs == vf == vn) and not all(math.isnan(v) for v in (vs, vf, vn)):
            ctx.fail('predicate', 'shared-cache-value-bit-identical-to-fresh-cache', site, case, dict(query=qi, shared=vs, fresh=vf, default_cache=vn))
            return
        if not (vf >= 0):
            ctx.fail('predicate', 'global-cost>=0', site, case, dict(query=qi, value=vf))
        # Layer S: model fed with the package's own per-segment partial costs
        errs = []
        for a, b in zip(red, red[1:]):
            pt = pts[a:b + 1]
            errs.append(0.0 if len(pt) <= 2 else float(ev.compute_partial_cost(pt[:, 1], lf.linear_fit_transform_points(pt), cost)))
        if all(math.isfinite(e) for e in errs):
            q = F(d.call('gcost', [kind, str(n), core.rat(tss), core.nats(red), core.rats(errs)])[0])
            ctx.corr_checked += 1
            real = vf * vf if kind in ('rmsle', 'rmspe') else vf
            if not close(real, q, 1e-12, 1e-300):
                ctx.fail('predicate', 'global-cost-equals-its-definition(partial sums, divisor, clip)', site, case, dict(query=qi, impl=real, model=float(q)))
            if kind == 'rmsle':
                # no exact-Q definition (logarithms): the segment cost against the DEFINITION sum((log(y+1) - log(y_hat+1))^2), with y_hat the end-point
                # line evaluated about the segment's first point, computed here independently of compute_partial_cost
                for e_f, (a, b) in zip(errs, zip(red, red[1:])):
                    if b - a + 1 <= 2:
                        continue
                    xs_, ys_ = pts[a:b + 1, 0], pts[a:b + 1, 1]
                    if float(np.max(np.abs(xs_))) > 1e4 * float(xs_[-1] - xs_[0]):
                        continue
                    yh_ = ys_[0] + (ys_[-1] - ys_[0]) / (xs_[-1] - xs_[0]) * (xs_ - xs_[0])
                    if np.any(yh_ <= -1) or np.any(ys_ <= -1):
                        continue
                    ref = float(np.sum(np.square(np.log(ys_ + 1.0) - np.log(yh_ + 1.0))))
                    # rounding noise of the package's line m*x + b: delta ~ eps * (|m| max|x| + |b|) per fitted value; the logarithm turns it into a
                    # relative perturbation delta / (y_hat + 1), which matters where byte-count sized heights come down to 0
                    m_ = abs(float((ys_[-1] - ys_[0]) / (xs_[-1] - xs_[0])))
                    delta_ = 16 * np.finfo(float).eps * (m_ * float(np.max(np.abs(xs_))) + float(np.max(np.abs(ys_))))
                    rel_ = delta_ / np.maximum(np.minimum(yh_, yh_ - delta_) + 1.0, 1e-300)
                    if np.any(yh_ - delta_ <= -1):
                        continue
                    d_ = np.abs(np.log(ys_ + 1.0) - np.log(yh_ + 1.0))
                    noise_ = float(np.sum(2 * d_ * rel_ + rel_ * rel_))
                    if abs(e_f - ref) > 1e-9 * (abs(ref) + 1e-12 * len(xs_)) + 4 * noise_:
                        ctx.fail('predicate', 'segment-partial-cost-equals-its-definition(rmsle: sum of squared log differences)', f'evaluation.compute_partial_cost[{kind}]', case,
                                 dict(segment=[a, b], impl=e_f, expected=ref))
                        break
            if kind != 'rmsle':
                # fully exact model from the coordinates
                ex = [F(d.call('segErrQ', [kind, core.rats(pts[:, 0]), core.rats(y), str(a), str(b)])[0]) if b - a + 1 > 2 else F(0) for a, b in zip(red, red[1:])]
                ymax = float(np.max(np.abs(y))) + 1e-300
                for e_f, e_q, (a, b) in zip(errs, ex, zip(red, red[1:])):
                    seg = y[a:b + 1]
                    if float(np.max(np.abs(pts[a:b + 1, 0]))) > 1e4 * float(pts[b, 0] - pts[a, 0]):
                        # y_hat = m*x + b with |b| ~ |m|*max|x|: its rounding noise is eps*max|x|/range relative, far above the 1e-9 of this comparison
                        ctx.tag('exact-segment-comparison-skipped(large x offset: the line m*x+b is ill-conditioned)')
                        continue
                    if kind != 'r2' and np.any(seg < 2.0 ** -10):
                        ctx.tag('ratio-metric-near-zero-y(exact comparison skipped: rounding of y_hat is amplified by the eps guard)')
                        continue
                    # rounding noise of y_hat = m*x+b is ~1e-16*ymax per point; squares / ratios of it stay below these scales
                    # (R2 partial cost = RSS of the segment: its rounding scale is the SPREAD of the segment, not the magnitude of y - a base line of
                    # 2^30 with a swing of a few units must be judged by the swing)
                    # of 2^30 with a swing of a few units must be judged by the swing).  y_hat = m*x + b is evaluated at the magnitude of y: each residual carries
                    # delta = 8*eps*max|y| of rounding noise, so the RSS carries 2*sqrt(len*RSS)*delta + len*delta^2 (Cauchy-Schwarz); that and nothing more is granted
                    if kind == 'r2':
                        delta = 32 * np.finfo(float).eps * ymax
                        scale = 1e9 * (2 * math.sqrt(len(seg) * max(float(e_q), 0.0)) * delta + len(seg) * delta * delta)
                    else:
                        scale = float(len(seg))
                    if not close(e_f, e_q, 1e-9, scale):
                        ctx.fail('predicate', 'segment-partial-cost-equals-its-definition', f'evaluation.compute_partial_cost[{kind}]', case, dict(segment=[a, b], impl=e_f, model=float(e_q)))
                        break
        else:
            ctx.tag('oracle-nonfinite')
    # the WHOLE history through the model's cache state machine (runShared: lookupSeg / evalSegs / evalShared, the subject of runShared_eq_fresh),
    # fed with the package's own per-segment partial costs: value of every query of the shared-cache run
    if len(shared_vals) == len(queries):
        tbl = {}
        for red in queries:
            for a, b in zip(red, red[1:]):
                if (a, b) not in tbl:
                    pt = pts[a:b + 1]
                    tbl[(a, b)] = 0.0 if len(pt) <= 2 else float(ev.compute_partial_cost(pt[:, 1], lf.linear_fit_transform_points(pt), cost))
        if tbl and all(math.isfinite(v) for v in tbl.values()) and all(math.isfinite(v) for v in shared_vals):
            out = d.call('gshared', [kind, str(n), core.rat(tss), ';'.join(core.nats(q) for q in queries),
                                     ','.join(f'{a}:{b}:{core.rat(v)}' for (a, b), v in tbl.items())])
            mv = core.parse_rats(out[0]) if out else []
            ctx.corr_checked += 1
            for qi, (real_v, q) in enumerate(zip(shared_vals, mv)):
                real_c = real_v * real_v if kind in ('rmsle', 'rmspe') else real_v
                if not close(real_c, q, 1e-12, 1e-300):
                    ctx.fail('correspondence', 'runShared (cache state machine over the whole query history) vs the shared-cache run', site, case,
                             dict(query=qi, impl=real_c, model=float(q)))
                    break
    # cache contents must equal fresh values
    for key, val in shared.items():
        if not (isinstance(key, tuple) and len(key) == 2):
            continue        # 'tss' and whatever else an implementation keeps there; only (left, right) entries are specified
        a, b = key
        pt = pts[a:b + 1]
        want = 0 if len(pt) <= 2 else ev.compute_partial_cost(pt[:, 1], lf.linear_fit_transform_points(pt), cost)
        if not (float(val) == float(want) or (math.isnan(float(val)) and math.isnan(float(want)))):
            ctx.fail('predicate', 'cache-entry-equals-fresh-segment-cost', site, case, dict(key=[a, b], cached=float(val), fresh=float(want)))
            break
    # all points are breakpoints: with a fresh cache AND with the cache the queries above have filled
    for label, cache_ in (('fresh', {}), ('shared', shared)):
        allv = float(ev.compute_global_cost(pin, list(range(n)), cost, cache_))
        if allv != (1.0 if kind == 'r2' else 0.0):
            ctx.fail('predicate', f'all-breakpoints-value({label} cache)', site, case, dict(value=allv))
    nontriv = (pts.tobytes(), kind, str(queries)) if hits >= 1 and max(len(q) for q in queries) >= 4 else None
    if hits:
        ctx.tag('cache-hit', hits)
    ctx.count(family + ':' + kind, n=n, nontrivial_key=nontriv, sample=dict(metric=kind, n=n, queries=queries[:3], cache_hits=hits))


@core.safe_case
def rmse_mip(ctx, pts, red, family, int_dtype=None):
    import kneeliverse.evaluation as ev
    n = len(pts)
    d = ctx.get_driver()
    if int_dtype is None:
        int_dtype = bool(gen.int_ok(pts) and ctx.rng.random() < 0.35)
    pin = pts.astype(np.int64) if int_dtype else pts
    case = dict(points=pts.tolist(), reduced=red, int_dtype=bool(pin is not pts))
    x, y = pts[:, 0], pts[:, 1]
    try:
        g = float(ev.compute_global_rmse(pin, np.array(red)))
        gs = float(ev.compute_global_rmse(pin, np.array(red), {}))
    except Exception as e:
        ctx.fail('predicate', 'completes', 'evaluation.compute_global_rmse', case, repr(e)[:200])
        return
    interp = np.interp(x, x[red], y[red])
    want = math.sqrt(float(np.mean(np.square(y - interp))))
    ymax = float(np.max(np.abs(y))) + 1e-300
    # the fitted line is evaluated as m*x + b: with a large x offset its rounding noise is eps * |dy| * max|x| / dx per point (ill-conditioned
    # representation of the line, not an error of the cost); the comparison grants exactly that much
    cond = float(np.max(np.abs(x))) / float(np.min(np.diff(x[np.array(red)])))
    noise = 64 * np.finfo(float).eps * cond * (float(np.ptp(y)) + 1e-300)
    if abs(g - want) > 1e-9 * (abs(want) + ymax) + noise or g != gs:
        ctx.fail('predicate', 'global-rmse==rmse-against-linear-interpolation', 'evaluation.compute_global_rmse', case, dict(impl=g, expected=want))
    q = F(d.call('grmseSq', [core.rats(x), core.rats(y), core.nats(red)])[0])
    ctx.corr_checked += 1
    if not close(g * g, q, 1e-9, ymax ** 2 + (2 * g * noise + noise * noise) * 1e9):
        ctx.fail('predicate', 'global-rmse-equals-its-definition', 'evaluation.compute_global_rmse', case, dict(impl_sq=g * g, model=float(q)))
    if len(red) >= 3:
        m, mad = ev.mip(pin, np.array(red))
        out = d.call('mip', [core.rats(x), core.rats(y), core.nats(red)], lambda name, a: core.rat(math.sqrt(float(F(a[0])))))
        qm, qd = F(out[0]), F(out[1])
        ctx.corr_checked += 1
        sc = abs(float(qm)) + g + ymax + noise * 1e7
        if abs(float(m) - float(qm)) > 1e-7 * sc or abs(float(mad) - float(qd)) > 1e-7 * sc:
            ctx.fail('predicate', 'mip-equals-its-definition', 'evaluation.mip', case, dict(impl=[float(m), float(mad)], model=[float(qm), float(qd)]))
        # direct definition: median over interior breakpoints of rmse(delete i) - rmse(all)
        ip = [float(ev.compute_global_rmse(pin, np.delete(np.array(red), i))) - g for i in range(1, len(red) - 1)]
        if abs(float(m) - float(np.median(ip))) > 1e-12 * (abs(float(m)) + 1e-12):
            ctx.fail('predicate', 'mip==median-rmse-increase-of-deleting-a-breakpoint', 'evaluation.mip', case, dict(impl=float(m), expected=float(np.median(ip))))
    ctx.count(family + ':rmse/mip', n=n, nontrivial_key=(pts.tobytes(), tuple(red)) if len(red) >= 4 else None, sample=dict(n=n, reduced=red, global_rmse=g))


def run(ctx):
    rng = ctx.rng
    quick = ctx.tier == 'quick'
    # fixed boundary cases on every run: flat curves (tss == 0), flat but one point, the smallest curves, for every metric
    for n, yv in ((8, 0.0), (8, 0.75), (5, 1.0 / 3), (3, 2.0), (2, 1.0)):
        for bump in (None, 0):
            pts = np.array([[float(i), yv] for i in range(n)], float)
            if bump is not None and n > 2:
                pts[n // 2, 1] += 0.25
            qs = [[0, n - 1], list(range(n)), sorted({0, n // 2, n - 1}), [0, n - 1]]
            for kind in KINDS:
                one(ctx, pts, kind, qs, 'flat' if bump is None else 'flat+1')
    for _ in range(220 if quick else 5000):
        n = rng.randrange(3, 40)
        pts, fam = gen.dyadic_curve(rng, n, scale_exp=0)
        u = rng.random()
        if u < 0.06:
            # completely flat curve (total sum of squares exactly 0), y = 0 included
            pts = pts.copy()
            pts[:, 1] = rng.choice([0.0, 1.0, 0.75, 3.0, 1.0 / 3])
            fam = 'flat'
        elif u < 0.10:
            # flat except one point: a single non-zero residual
            pts = pts.copy()
            pts[:, 1] = rng.choice([1.0, 0.5, 2.0])
            pts[rng.randrange(0, n), 1] += rng.choice([0.25, -0.25, 1.0])
            fam = 'flat+1'
        kind = rng.choice(KINDS)
        if rng.random() < 0.12:
            pts, fam = gen.float_curve(rng, n)                     # general float64 values (not few-bit dyadic ones)
        elif rng.random() < 0.08:
            # zig-zag about a flat trend: the end-point line fits WORSE than the mean, rss > tss, R2 must be clipped at 0
            pts = pts.copy()
            pts[:, 1] = np.array([(4.0 if i % 2 else 1.0) + rng.choice([0.0, 0.25]) for i in range(n)])
            fam, kind = 'zigzag', 'r2'
        u2 = rng.random()
        if u2 < 0.12:
            # a large base line with a small swing (byte counters, timestamps): R2 = 1 - rss/tss needs the CENTRED total sum of squares
            pts = pts.copy()
            pts[:, 1] += rng.choice([2.0 ** 20, 2.0 ** 30])
            fam += '@yoff'
            if rng.random() < 0.6:
                kind = 'r2'
        elif u2 < 0.2:
            pts, vt = gen.magnitude(rng, pts, 1.0, ('xytiny30', 'ytiny30', 'ytiny30', 'xoff30', 'xyhuge30'))
            fam += vt
            if 'tiny' in vt and rng.random() < 0.6:
                kind = 'r2'              # total sum of squares ~1e-18: only an EXACT zero test tells a constant curve from a small one
        elif u2 < 0.28 and fam not in ('flat', 'flat+1', 'zigzag'):
            q = gen.bytecount_of(pts) if rng.random() < 0.5 else np.column_stack([pts[:, 0], np.floor(pts[:, 1] * 64)])
            if np.all(np.diff(q[:, 0]) > 0):
                pts, fam = q, fam + '@integer'
        base = gen.random_subset_with_ends(rng, n)
        queries = []
        for _ in range(rng.randrange(2, 9)):
            u = rng.random()
            if u < 0.3 and queries:
                q = list(rng.choice(queries))                      # repeated
            elif u < 0.6 and queries:
                prev = rng.choice(queries)                         # nested: add or drop one breakpoint
                q = sorted(set(prev) | {rng.randrange(0, n)}) if rng.random() < 0.6 else ([prev[0]] + sorted(rng.sample(prev[1:-1], max(0, len(prev) - 3))) + [prev[-1]])
            elif u < 0.7:
                q = list(range(n))
            elif u < 0.75:
                q = [0, n - 1]
            else:
                q = gen.random_subset_with_ends(rng, n)
            queries.append([int(v) for v in q])
        one(ctx, pts, kind, queries, fam)
        if rng.random() < 0.5:
            rmse_mip(ctx, pts, gen.random_subset_with_ends(rng, n, rng.randrange(0, min(n - 2, 8) + 1)), fam)
    long_cases(ctx)


def long_cases(ctx):
    """LONG curves (beyond 1024 / 4096 points) with many breakpoints and a shared cache over nested queries"""
    rng = ctx.rng
    for _ in range(2 if ctx.tier == 'quick' else 24):
        n = rng.choice([rng.randrange(1100, 1800), rng.randrange(4097, 4600)])
        xs = np.arange(n, dtype=float)
        ys = np.round(65536.0 * np.exp(-0.001 * xs)) / 64.0 + np.array([rng.randrange(0, 8) / 8.0 for _ in range(n)]) + 1.0
        pts = np.column_stack([xs, ys])
        base = gen.random_subset_with_ends(rng, n, rng.randrange(10, 60))
        qs = [base, sorted(set(base) | {rng.randrange(0, n) for _ in range(5)}), base, [0, n - 1]]
        one(ctx, pts, rng.choice(KINDS), [[int(v) for v in q] for q in qs], 'long-trace', False)
        rmse_mip(ctx, pts, [int(v) for v in base], 'long-trace', False)


def replay(ctx, body):
    c = body['case']
    if 'queries' in c:
        one(ctx, np.array(c['points'], float), c['metric'], c['queries'], 'replay', bool(c.get('int_dtype', False)))
    else:
        rmse_mip(ctx, np.array(c['points'], float), c['reduced'], 'replay', bool(c.get('int_dtype', False)))

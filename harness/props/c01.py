"""C01 — curve simplification always terminates with a well-formed reduction."""
import numpy as np
from .. import core, gen, rdpfam

PROP_FILE = 'Knee/Props/C01.lean'
PROP_FILES = ['Knee/Props/C01.lean', 'Knee/Props/C01S.lean']
RULE = ('5 entry points (rdp, rdp_fixed, grdp, mp_grdp, min_point_rdp) x 2 distances x 5 metrics x 3 orders; curves: corpus witnesses, '
        'exhaustive small scope (n<=4 quick/5 thorough, gaps {1,2}, y in {0..3}), dyadic families (collinear runs ending at y=0, plateaus, '
        'zeros, 2^-20..2^40 magnitudes), random float64 curves, windows/decimations of the bundled traces; thresholds from a grid and from '
        'the costs observed on the input itself (exact ties). non-trivial = the model performed at least one split/refinement and '
        '(function, config, curve) is new in this run')
ASSUMPTIONS = ['domain of the property: n>=2, finite, strictly increasing x, y>=0, t>0 (t<=1 for R2); NaN-producing inputs are not generated',
               'oracle values are the package\'s own public primitives evaluated on the same sub-arrays; IEEE rounding inside them is not modelled (Layer S quantifies over all values)']
FINDING_CLASSES = {}

WHICH = ['rdp', 'rdp_fixed', 'grdp', 'mp_grdp', 'min_point_rdp']


def rand_cfg(ctx, which, pts):
    rng = ctx.rng
    n = len(pts)
    cfg = dict(dist=rng.choice(rdpfam.DISTS), cost=rng.choice(rdpfam.COSTS), order=rng.choice(rdpfam.ORDERS))
    if which in ('rdp', 'grdp', 'mp_grdp'):
        t, tie = rdpfam.tie_threshold(rng, pts, cfg['cost'], which)
        if cfg['cost'] == 'r2':
            t = min(t, 1.0)
        elif t <= 0:
            t = 0.01
        cfg['t'] = float(t)
        if tie:
            ctx.tag('threshold-from-observed-cost')
    if which == 'rdp_fixed':
        cfg['k'] = rng.randrange(0, n + 2)
    if which in ('mp_grdp', 'min_point_rdp'):
        cfg['m'] = rng.randrange(0, n + 2)
    if which == 'min_point_rdp':
        cfg = dict(m=cfg['m'], ts=[rng.choice([0.5, 0.1, 0.01, 0.001, 0.0001, 0.05]) for _ in range(rng.randrange(1, 4))])
    return cfg


@core.safe_case
def one(ctx, which, pts, cfg, family):
    res = rdpfam.run_case(ctx, which, pts, cfg, family)
    n = len(pts)
    nontriv = None
    if res and res.get('model') and res['model']['reduced'] is not None and len(res['model']['reduced']) > 2:
        nontriv = (which, tuple(sorted(cfg.items(), key=str)) if 'ts' not in cfg else str(cfg), pts.tobytes())
    ctx.count(family + ':' + which, n=n, nontrivial_key=nontriv,
              sample=dict(function=which, config=cfg, points=pts.tolist(), reduced=(res or {}).get('real', {}) and res['real']['reduced']))
    if res and res.get('orc'):
        if res['orc'].seen['dst_eps']:
            ctx.tag('eps-guard-taken')
        if res['orc'].seen['key_ties']:
            ctx.tag('equal-order-keys')
    return res


def corpus_cases():
    # witnesses quoted in DESIGN §4 (defects 1-4) + degenerate sizes
    yield 'rdp', np.array([[1, 2], [4, 1], [7, 0]], float), dict(t=0.01, dist='shortest', cost='smape')
    yield 'rdp_fixed', np.array([[0, 0], [1, 9], [3, 27]], float), dict(k=3, dist='shortest', order='segment')
    yield 'rdp_fixed', np.array([[0, 1], [1, 2]], float), dict(k=3, dist='shortest', order='segment')
    yield 'mp_grdp', np.array([[0, 1], [1, 2]], float), dict(t=0.01, m=3, dist='shortest', cost='smape', order='segment')
    yield 'mp_grdp', np.array([[0, 0], [1, 9], [3, 27]], float), dict(t=0.01, m=3, dist='shortest', cost='smape', order='segment')
    yield 'rdp', np.array([[0, 3], [1, 2], [2, 1], [3, 0]], float), dict(t=0.01, dist='perpendicular', cost='rpd')
    yield 'grdp', np.array([[0, 4], [1, 1], [2, 0.5], [3, 0.25], [5, 0]], float), dict(t=0.01, dist='perpendicular', cost='rmspe', order='area')
    yield 'min_point_rdp', np.array([[0, 4], [1, 1], [2, 0.5], [3, 0.25], [5, 0]], float), dict(m=4, ts=[0.001, 0.1])
    # ramps reaching exactly y = 0 with non-dyadic values: all distances below eps while relative-error costs stay rejecting
    # knee followed by a tail of ~1e-17 values: every chord distance of the tail is below eps, the relative cost is not
    tiny = np.array([[float(i), v] for i, v in enumerate([1.0, 0.5, 0.25, 3e-17, 2.5e-17, 1.2e-17, 1.1e-17, 0.4e-17])], float)
    for cost in ('smape', 'rpd', 'rmspe', 'r2'):
        yield 'grdp', tiny, dict(t=0.05 if cost != 'r2' else 0.99, dist='shortest', cost=cost, order='segment')
        yield 'mp_grdp', tiny, dict(t=0.05 if cost != 'r2' else 0.99, m=7, dist='shortest', cost=cost, order='area')
    ramp3 = np.array([[10.0, 2.22], [10.1, 1.11], [10.2, 0.0]], float)
    hinge = np.array([[10.0, 5.0], [10.1, 3.9], [10.2, 2.22], [10.3, 1.11], [10.4, 0.0]], float)
    for w in (ramp3, hinge):
        for cost in ('smape', 'rpd', 'rmspe'):
            for order in ('triangle', 'area', 'segment'):
                yield 'grdp', w, dict(t=0.01, dist='shortest', cost=cost, order=order)
            yield 'mp_grdp', w, dict(t=0.01, m=len(w), dist='perpendicular', cost=cost, order='segment')
            yield 'rdp', w, dict(t=0.01, dist='shortest', cost=cost)
        yield 'min_point_rdp', w, dict(m=len(w), ts=[0.01, 0.001])


def run(ctx):
    rng = ctx.rng
    quick = ctx.tier == 'quick'
    for which, pts, cfg in corpus_cases():
        one(ctx, which, pts, cfg, 'corpus')
    # exhaustive small scope, sampled configurations per curve
    nmax = 4 if quick else 5
    for pts in gen.exhaustive_small(nmax):
        for which in WHICH:
            if rng.random() < (0.5 if quick else 1.0):
                one(ctx, which, pts, rand_cfg(ctx, which, pts), 'exhaustive-small')
    N = 2000 if quick else 30000
    nmax = 40 if quick else 160
    for i in range(N):
        pts, fam = rdpfam.random_points(ctx, nmax)
        which = rng.choice(WHICH + ['rdp', 'rdp'])
        one(ctx, which, pts, rand_cfg(ctx, which, pts), fam)
    for _ in range(6 if quick else 100):
        pts, fam = rdpfam.bytecount_curve(rng)
        which = rng.choice(WHICH)
        cfg = rand_cfg(ctx, which, pts)
        cfg.update(dist='perpendicular', int_dtype=True)
        one(ctx, which, pts, cfg, fam)
    # long inputs (> 1024 points): the step bound is LINEAR in n, and nothing may treat long ranges differently
    for which in (['rdp', 'rdp', 'grdp'] if quick else ['rdp'] * 12 + ['grdp', 'rdp_fixed', 'mp_grdp', 'min_point_rdp'] * 4):
        pts, fam = rdpfam.long_curve(rng) if which == 'rdp' else rdpfam.long_curve(rng, rng.randrange(1100, 2400))    # the global-cost loops are quadratic in the result size
        cfg = rand_cfg(ctx, which, pts)
        if 't' in cfg and cfg.get('cost') != 'r2':
            cfg['t'] = rng.choice([0.05, 0.2, 0.5])
        for kk in ('k', 'm'):
            if kk in cfg:
                cfg[kk] = min(cfg[kk], 60)
        one(ctx, which, pts, cfg, fam)
    if not quick:
        for name, a in gen.traces().items():
            for which in WHICH:
                w = a if len(a) <= 400 else a[:: max(1, len(a) // 400)]
                one(ctx, which, np.array(w, float), rand_cfg(ctx, which, w), 'trace-full-' + name)


def replay(ctx, body):
    c = body['case']
    one(ctx, c['function'], np.array(c['points'], float), c['config'], 'replay')

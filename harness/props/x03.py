"""X03 — exact-rational (Layer N) models of the remaining evaluation / ranking arithmetic:
evaluation.accuracy_trace, postprocessing.rank_corners, knee_ranking.distance_to_similarity, linear_fit.linear_hv_residuals,
linear_fit.linear_fit_transform, rdp.compute_cost_coef, linear_fit.angle."""
import math, warnings
from fractions import Fraction as F
import numpy as np
from .. import core, gen

PROP_FILE = 'Knee/Props/X03.lean'
PROP_FILES = ['Knee/Props/X03.lean']
RULE = ('accuracy_trace / rank_corners: curves of harness/gen.py (dyadic families with their magnitude variants, gen.magnitude offsets / scalings, float curves), n = 1..40, '
        'knee lists: random strictly increasing subsets (also with a knee at 0 and at n-1), repeated knees, and a few INVALID lists (empty, decreasing, out of range: IndexError '
        'expected exactly when the model says so).  The per-gap R2 values are oracles (lf.linear_r2 of the slice with its end-point line, sent as exact rationals); all five '
        'outputs are compared with the exact-Q model under |f - q| <= 1e-9*(|q| + 1); a model `none` (division by zero on the way) must come with a NumPy RuntimeWarning and is '
        'counted, a defined model value must come without one.  The oracle R2 values are tied to the Layer-N definition (coefQ) under a rounding-noise bound.  Direct predicates '
        'on the REAL outputs: telescoping sums, ranges, an entry equal to 1 among the normalised slopes, cost sign, invariance under power-of-two scalings of both axes.  '
        'distance_to_similarity: signed / tied / constant vectors.  linear_hv_residuals / linear_fit_transform: curves, sub-slices, symmetric sets (exact tie of the two residual '
        'sums), vertical / horizontal / single-point / closed configurations, exactly collinear sets.  compute_cost_coef: every Metrics member, the curve\'s own end-point line and '
        'another line; value == metric(y, x*m+b) on the real code, and the exact model value under a tolerance widened by the exactly computed effect of rounding y_hat.  '
        'angle: dyadic slopes incl. equal and perpendicular pairs, Python floats (ZeroDivisionError iff the model says none) and NumPy scalars (+-pi/2 with a warning).  '
        'non-trivial = at least two gaps and every output defined (trace), at least two knees (corners), non-constant vector, both residual sums positive, non-zero cost, '
        'non-zero defined argument; (inputs) new')
ASSUMPTIONS = ['finite coordinates; knees are non-negative integers (NumPy would wrap negative ones)',
               'oracle values: lf.linear_r2 of each gap slice (accuracy_trace), np.log (RMSLE), math.atan (angle)',
               'y >= 0 and y_hat >= 0 for the logarithmic / one-sided ratio metrics in compute_cost_coef']

EPS = float(np.finfo(float).eps)


def close(f, q, scale=1, extra=0):
    f = float(f)
    if math.isnan(f) or math.isinf(f):
        return False
    return abs(F(f) - q) <= F(1, 10 ** 9) * (abs(q) + F(scale)) + F(extra) + F(1, 10 ** 300)


def opt(tok):
    return None if tok == 'none' else F(tok)


def optl(tok):
    return None if tok == 'none' else core.parse_rats(tok)


def gaps_of(knees):
    return list(zip([0] + list(knees[:-1]), knees))


def knees_ok(n, knees):
    return len(knees) > 0 and all(0 <= k < n for k in knees) and all(a <= b for a, b in gaps_of(knees))


def r2_noise(x, y, coef):
    """bound on the rounding noise of lf.linear_r2(x, y, coef): y_hat = x*m + b carries ~eps*(|m|*max|x| + |b|) per point, the centred sum eps*max|y|;
    returns (absolute bound on the R2 value, or None when the noise dominates the spread)"""
    n = len(x)
    b, m = float(coef[0]), float(coef[1])
    yh = x * m + b
    rss = float(np.sum((y - yh) ** 2))
    tss = float(np.sum((y - np.mean(y)) ** 2))
    d1 = 8 * EPS * (abs(m) * float(np.max(np.abs(x))) + abs(b) + float(np.max(np.abs(y))))
    d2 = 8 * EPS * float(np.max(np.abs(y)))
    e_rss = 2 * math.sqrt(n * rss) * d1 + n * d1 * d1
    e_tss = 2 * math.sqrt(n * tss) * d2 + n * d2 * d2
    if tss == 0:
        return e_rss
    if e_tss > 0.05 * tss:
        return None
    return (e_rss + (rss / tss) * e_tss) / tss * 1.2


# ---------------------------------------------------------------------------------------------------------------------------------------------
@core.safe_case
def trace(ctx, pts, knees, family):
    import kneeliverse.evaluation as ev
    import kneeliverse.linear_fit as lf
    import kneeliverse.postprocessing as pp
    pts = np.array(pts, dtype=float)
    knees = [int(k) for k in knees]
    n, m = len(pts), len(knees)
    x, y = pts[:, 0].copy(), pts[:, 1].copy()
    case = dict(kind='trace', points=pts.tolist(), knees=knees)
    d = ctx.get_driver()
    ok = knees_ok(n, knees)
    # ---- the real call
    raised, res, warned = None, None, []
    with warnings.catch_warnings(record=True) as wl, np.errstate(all='warn'):      # harness/core.py silences NumPy globally
        warnings.simplefilter('always')
        try:
            res = [float(v) for v in ev.accuracy_trace(pts, np.array(knees, dtype=int))]
        except IndexError as e:
            raised = repr(e)[:120]
        warned = [str(w.message) for w in wl if issubclass(w.category, RuntimeWarning)]
    # ---- oracle: the per-gap R2 values, from the package's own primitives on the same slices
    coefs = []
    if ok:
        for l, r in gaps_of(knees):
            cf = lf.linear_fit(x[l:r + 1], y[l:r + 1])
            coefs.append(float(lf.linear_r2(x[l:r + 1], y[l:r + 1], cf)))
    out = d.call('acc_trace', [core.rats(x), core.rats(y), core.nats(knees), core.rats(coefs) if ok else '-'])
    ctx.corr_checked += 1
    if out[0] == 'raise':
        ctx.tag('trace:model-says-IndexError')
        if raised is None:
            ctx.fail('correspondence', 'accTrace = none (IndexError) but the code returns', 'evaluation.accuracy_trace', case, dict(impl=res))
        ctx.count(family + '/invalid-knees', n=n)
        return
    if raised is not None:
        ctx.fail('correspondence', 'accTrace is defined but the code raises', 'evaluation.accuracy_trace', case, dict(raised=raised))
        ctx.count(family, n=n)
        return
    names = ['average_x', 'average_y', 'average_slope', 'average_coeffients', 'cost']
    mod = [opt(t) for t in out[:5]]
    undefined = [nm for nm, q in zip(names, mod) if q is None]
    for nm in undefined:
        ctx.tag('trace:undefined(division by zero):' + nm)
    if undefined and not warned:
        ctx.fail('correspondence', 'a division by zero of the model comes with a NumPy RuntimeWarning', 'evaluation.accuracy_trace', case, dict(undefined=undefined, impl=res))
    if not undefined and warned:
        ctx.fail('correspondence', 'no division by zero in the model, no RuntimeWarning in the code', 'evaluation.accuracy_trace', case, dict(warnings=warned, impl=res))
    for nm, f, q in zip(names, res, mod):
        if q is None:
            continue
        if not close(f, q, 1):
            ctx.fail('correspondence', f'{nm} equals the exact model value (to within rounding)', 'evaluation.accuracy_trace', case, dict(impl=f, model=float(q), model_exact=str(q)))
    # ---- the oracle R2 values against their Layer-N definition (coefQ)
    exact = d.call('acc_trace', [core.rats(x), core.rats(y), core.nats(knees), 'exact'])
    qcoefs = core.parse_rats(exact[10])
    for (l, r), f, q in zip(gaps_of(knees), coefs, qcoefs):
        nb = r2_noise(x[l:r + 1], y[l:r + 1], lf.linear_fit(x[l:r + 1], y[l:r + 1]))
        if nb is None or nb > 1e-3 * (1 + abs(float(q))):
            ctx.tag('trace:r2-oracle-vs-definition:rounding-noise-dominates(inconclusive)')
            continue
        ctx.corr_checked += 1
        if not close(f, q, 2, extra=nb):
            ctx.fail('correspondence', 'per-gap linear_r2 equals coefQ (to within rounding)', 'linear_fit.linear_r2', dict(case, gap=[l, r]), dict(impl=f, model=float(q), noise=nb))
    # ---- predicates on the REAL outputs (the theorems of Props/X03, with rounding latitude)
    ax, ay, asl, ac, cost = res
    tx, ty = abs(x[-1] - x[0]), abs(y[-1] - y[0])
    xinc = bool(np.all(np.diff(x) >= 0))
    tol = 1e-9
    if mod[0] is not None:
        if not (ax >= 0):
            ctx.fail('predicate', 'average_x >= 0', 'evaluation.accuracy_trace', case, dict(average_x=ax))
        if xinc:
            want = (x[knees[-1]] - x[0]) / tx
            if abs(ax * m - want) > tol * (abs(want) + 1) or ax > 1 + tol:
                ctx.fail('predicate', 'average_x * m == (x[k_last] - x[0]) / |x[-1] - x[0]| (telescoping) and average_x <= 1', 'evaluation.accuracy_trace', case, dict(average_x=ax, m=m, expected_sum=want))
    if mod[1] is not None:
        low = abs(y[knees[-1]] - y[0]) / ty
        if ay * m < low * (1 - tol) - 1e-300 or not (ay >= 0):
            ctx.fail('predicate', 'average_y * m >= |y[k_last] - y[0]| / |y[-1] - y[0]| (triangle inequality)', 'evaluation.accuracy_trace', case, dict(average_y=ay, m=m, lower=low))
        dy = np.diff(y)
        if (np.all(dy >= 0) or np.all(dy <= 0)) and abs(ay * m - low) > tol * (low + 1):
            ctx.fail('predicate', 'monotone y: average_y * m == |y[k_last] - y[0]| / |y[-1] - y[0]|', 'evaluation.accuracy_trace', case, dict(average_y=ay, m=m, expected_sum=low))
    if mod[2] is not None:
        if not (1 - tol <= asl * m and asl <= 1 + tol):
            ctx.fail('predicate', 'normalised slopes lie in [0, 1] and one of them is 1: 1/m <= average_slope <= 1', 'evaluation.accuracy_trace', case, dict(average_slope=asl, m=m))
    if mod[3] is not None:
        cmax = max(coefs)
        if cmax > 0 and not (-tol <= ac <= 1 + tol and ac * m >= 1 - tol):
            ctx.fail('predicate', 'max R2 > 0: clipped coefficients lie in [0, 1] and one of them is 1', 'evaluation.accuracy_trace', case, dict(average_coeffients=ac, m=m))
        if cmax < 0:
            ctx.tag('trace:ODDITY all R2 negative -> coefficients / max flips the sign: every coefficient >= 1')
            if not (ac >= 1 - tol):
                ctx.fail('predicate', 'max R2 < 0: every normalised coefficient is >= 1', 'evaluation.accuracy_trace', case, dict(average_coeffients=ac))
    if mod[4] is not None:
        if not (cost >= 0):
            ctx.fail('predicate', 'cost >= 0 when defined', 'evaluation.accuracy_trace', case, dict(cost=cost))
        if xinc and x[knees[-1]] > x[0] and not (cost > 0):
            ctx.fail('predicate', 'cost > 0 when defined and the knees cover a positive x extent', 'evaluation.accuracy_trace', case, dict(cost=cost))
    # invariance under power-of-two scalings of both axes (every gap with at least two points: R2 of a one-point slice is 1 - y^2)
    if not undefined and all(l < r for l, r in gaps_of(knees)) and float(np.max(np.abs(pts))) < 2.0 ** 200 and (float(np.min(np.abs(pts[pts != 0]))) if np.any(pts != 0) else 1.0) > 2.0 ** -200:
        a, b = 2.0 ** ctx.rng.choice([-3, 1, 5]), 2.0 ** ctx.rng.choice([-4, 2, 7])
        with warnings.catch_warnings():
            warnings.simplefilter('ignore')
            res2 = [float(v) for v in ev.accuracy_trace(np.column_stack([x * a, y * b]), np.array(knees, dtype=int))]
        if not np.allclose(res, res2, rtol=1e-12, atol=0, equal_nan=True):
            ctx.fail('predicate', 'all five outputs are invariant under x -> a*x, y -> b*y (a, b > 0)', 'evaluation.accuracy_trace', dict(case, a=a, b=b), dict(original=res, scaled=res2))
    # ---- rank_corners on the same input
    try:
        rc = np.asarray(pp.rank_corners(pts, np.array(knees, dtype=int)), float)
    except Exception as e:
        ctx.fail('predicate', 'rank_corners completes on a valid knee list', 'postprocessing.rank_corners', case, repr(e)[:200])
        rc = None
    if rc is not None:
        corners_checks(ctx, d, x, knees, rc, case)
    ctx.count(family, n=n, nontrivial_key=(pts.tobytes(), tuple(knees)) if m >= 2 and not undefined else None,
              sample=dict(n=n, knees=knees[:8], outputs=res))


def corners_checks(ctx, d, x, knees, rc, case):
    out = d.call('rank_corners', [core.rats(x), core.nats(knees)])
    ctx.corr_checked += 1
    if out[0] == 'raise':
        ctx.fail('correspondence', 'rankCornersQ = none but the code returns', 'postprocessing.rank_corners', case, dict(impl=rc.tolist()))
        return
    q = core.parse_rats(out[0])
    if len(q) != len(rc) or any(not close(f, v, 0) for f, v in zip(rc, q)):
        ctx.fail('correspondence', 'rank_corners equals the exact x gaps (to within rounding)', 'postprocessing.rank_corners', case, dict(impl=rc.tolist(), model=[float(v) for v in q]))
    span = x[knees[-1]] - x[0]
    if abs(float(np.sum(rc)) - span) > 1e-9 * (float(np.sum(np.abs(rc))) + abs(span)) + 1e-300:
        ctx.fail('predicate', 'sum(rank_corners) == x[k_last] - x[0] (to within rounding)', 'postprocessing.rank_corners', case, dict(sum=float(np.sum(rc)), span=float(span)))
    if np.all(np.diff(x) > 0):
        inc = all(a < b for a, b in zip(knees, knees[1:]))
        if inc and knees[0] >= 1 and not np.all(rc > 0):
            ctx.fail('predicate', 'strictly increasing x and knees >= 1: every rank is > 0', 'postprocessing.rank_corners', case, dict(impl=rc.tolist()))
        if inc and not (rc[0] >= 0 and np.all(rc[1:] > 0)):
            ctx.fail('predicate', 'strictly increasing x and knees: first rank >= 0, the others > 0', 'postprocessing.rank_corners', case, dict(impl=rc.tolist()))


@core.safe_case
def corners_any(ctx, pts, knees, family):
    """rank_corners accepts ANY in-range knee order (no slices): backward gaps give negative entries; IndexError exactly for an empty / out-of-range list"""
    import kneeliverse.postprocessing as pp
    pts = np.array(pts, dtype=float)
    knees = [int(k) for k in knees]
    x = pts[:, 0].copy()
    case = dict(kind='corners', points=pts.tolist(), knees=knees)
    d = ctx.get_driver()
    try:
        rc = np.asarray(pp.rank_corners(pts, np.array(knees, dtype=int)), float)
    except IndexError:
        rc = None
    out = d.call('rank_corners', [core.rats(x), core.nats(knees)])
    ctx.corr_checked += 1
    if (out[0] == 'raise') != (rc is None):
        ctx.fail('correspondence', 'rank_corners raises IndexError exactly when rankCornersQ = none', 'postprocessing.rank_corners', case, dict(model=out[0], impl=None if rc is None else rc.tolist()))
    elif rc is not None:
        corners_checks(ctx, d, x, knees, rc, case)
    else:
        ctx.tag('corners:model-says-IndexError')
    ctx.count(family, n=len(pts), nontrivial_key=('rc', pts.tobytes(), tuple(knees)) if len(knees) >= 2 and rc is not None else None, sample=dict(knees=knees[:8]))


# ---------------------------------------------------------------------------------------------------------------------------------------------
@core.safe_case
def similarity(ctx, a, family):
    import kneeliverse.knee_ranking as kr
    a = np.array(a, dtype=float)
    case = dict(kind='similarity', array=a.tolist())
    d = ctx.get_driver()
    if len(a) == 0:
        try:
            kr.distance_to_similarity(a)
            ctx.fail('predicate', 'empty array: max() raises ValueError', 'knee_ranking.distance_to_similarity', case, 'returned')
        except ValueError:
            ctx.tag('similarity:empty-array-raises-ValueError(model: [])')
        ctx.count(family, n=0)
        return
    s = np.asarray(kr.distance_to_similarity(a), float)
    q = core.parse_rats(d.call('dist2sim', [core.rats(a)])[0])
    ctx.corr_checked += 1
    if len(q) != len(s) or any(not close(f, v, 0) for f, v in zip(s, q)):
        ctx.fail('correspondence', 'distance_to_similarity equals max - a (to within rounding)', 'knee_ranking.distance_to_similarity', case, dict(impl=s.tolist(), model=[float(v) for v in q]))
    if not np.all(s >= 0):
        ctx.fail('predicate', 'every similarity is >= 0', 'knee_ranking.distance_to_similarity', case, dict(impl=s.tolist()))
    if not np.any(s == 0):
        ctx.fail('predicate', 'some similarity is exactly 0 (at the maximum)', 'knee_ranking.distance_to_similarity', case, dict(impl=s.tolist()))
    le = a[:, None] <= a[None, :]
    if np.any(le & ~(s[:, None] >= s[None, :])):
        ctx.fail('predicate', 'order reversal: a_i <= a_j implies s_i >= s_j', 'knee_ranking.distance_to_similarity', case, dict(impl=s.tolist()))
    s2 = np.asarray(kr.distance_to_similarity(s), float)
    want = a - np.min(a)
    if np.any(np.abs(s2 - want) > 1e-9 * (float(np.max(np.abs(a))) + 1e-300)):
        ctx.fail('predicate', 'applying it twice gives a - min(a) (to within rounding)', 'knee_ranking.distance_to_similarity', case, dict(twice=s2.tolist(), expected=want.tolist()))
    ctx.count(family, n=len(a), nontrivial_key=('sim', a.tobytes()) if np.ptp(a) > 0 else None, sample=dict(array=a.tolist()[:8], similarity=s.tolist()[:8]))


# ---------------------------------------------------------------------------------------------------------------------------------------------
def fit_noise(x, y):
    """rounding noise per point of y_hat = x*m + b for the end-point fit of (x, y)"""
    if x[0] == x[-1]:
        return 0.0
    m = (y[0] - y[-1]) / (x[0] - x[-1])
    b = y[0] - m * x[0]
    return 8 * EPS * (abs(m) * float(np.max(np.abs(x))) + abs(b) + float(np.max(np.abs(y))))


def rss_extra(n, rss, delta):
    return 2 * math.sqrt(n * max(rss, 0.0)) * delta + n * delta * delta


@core.safe_case
def hv(ctx, x, y, family):
    import kneeliverse.linear_fit as lf
    x, y = np.array(x, dtype=float), np.array(y, dtype=float)
    n = len(x)
    case = dict(kind='hv', x=x.tolist(), y=y.tolist())
    d = ctx.get_driver()
    pts = np.column_stack([x, y])
    h = float(lf.linear_hv_residuals(x, y))
    ry, rx = float(lf.linear_fit_residuals(x, y)), float(lf.linear_fit_residuals(y, x))
    qh, qy, qx = [F(t) for t in d.call('hv_res', [core.rats(x), core.rats(y)])]
    ctx.corr_checked += 1
    ey, ex = rss_extra(n, float(qy), fit_noise(x, y)), rss_extra(n, float(qx), fit_noise(y, x))
    sc = 1e-300
    if not (close(ry, qy, sc, extra=ey) and close(rx, qx, sc, extra=ex) and close(h, qh, sc, extra=max(ey, ex))):
        ctx.fail('correspondence', 'linear_hv_residuals (and the two one-sided sums) equal the exact model values (to within rounding)', 'linear_fit.linear_hv_residuals', case,
                 dict(impl=[h, ry, rx], model=[float(qh), float(qy), float(qx)], noise=[ey, ex]))
    if not (h >= 0):
        ctx.fail('predicate', 'linear_hv_residuals >= 0', 'linear_fit.linear_hv_residuals', case, dict(value=h))
    if h != min(ry, rx):
        ctx.fail('predicate', 'linear_hv_residuals == min of the two one-sided residual sums', 'linear_fit.linear_hv_residuals', case, dict(value=h, y_on_x=ry, x_on_y=rx))
    hs = float(lf.linear_hv_residuals(y, x))
    if hs != h:
        ctx.fail('predicate', 'linear_hv_residuals symmetric under swapping x and y', 'linear_fit.linear_hv_residuals', case, dict(xy=h, yx=hs))
    hp = float(lf.linear_hv_residuals_points(pts))
    if hp != h:
        ctx.fail('predicate', 'linear_hv_residuals_points == linear_hv_residuals(x, y)', 'linear_fit.linear_hv_residuals_points', case, dict(points=hp, xy=h))
    if qh == 0:
        ctx.tag('hv:exactly-collinear')
        if h > 1e-18 * (float(np.max(np.abs(pts))) ** 2 + 1e-300) * n:
            ctx.fail('predicate', 'collinear points (end points differ in x or in y): residual 0 (to within rounding)', 'linear_fit.linear_hv_residuals', case, dict(value=h))
    if qy == qx:
        ctx.tag('hv:exact-tie-of-the-two-residual-sums')
    # ---- linear_fit_transform
    yh = np.asarray(lf.linear_fit_transform(x, y), float)
    qyh = core.parse_rats(d.call('fit_transform', [core.rats(x), core.rats(y), '0'])[0])
    ctx.corr_checked += 1
    dy_, dx_ = fit_noise(x, y), fit_noise(y, x)
    if len(qyh) != len(yh) or any(not close(f, v, 0, extra=dy_) for f, v in zip(yh, qyh)):
        ctx.fail('correspondence', 'linear_fit_transform equals the end-point line evaluated on x (to within rounding)', 'linear_fit.linear_fit_transform', case, dict(impl=yh.tolist()[:6], model=[float(v) for v in qyh[:6]]))
    v, vh = lf.linear_fit_transform(x, y, True)
    v, vh = np.asarray(v, float), np.asarray(vh, float)
    side, q1, q2 = d.call('fit_transform', [core.rats(x), core.rats(y), '1'])
    ctx.corr_checked += 1
    got = 'y' if ry <= rx else 'x'          # the code's own comparison of its own two sums
    if not np.array_equal(v, y if got == 'y' else x):
        ctx.fail('predicate', 'vertical=True returns the fitted coordinate itself (y when the y-on-x sum is <= the x-on-y sum, else x)', 'linear_fit.linear_fit_transform', case, dict(first=v.tolist()[:6], side=got))
    margin = abs(float(qy - qx))
    if margin > 4 * (ey + ex) + 1e-9 * float(qy + qx):
        if got != side:
            ctx.fail('correspondence', 'vertical=True chooses the side with the smaller residual sum', 'linear_fit.linear_fit_transform', case, dict(impl=got, model=side, y_on_x=float(qy), x_on_y=float(qx)))
    elif qy != qx:
        ctx.tag('hv:near-tie-of-the-two-sums(side not compared)')
    if got == side:
        qv = core.parse_rats(q2)
        nz = dy_ if side == 'y' else dx_
        if len(qv) != len(vh) or any(not close(f, w, 0, extra=nz) for f, w in zip(vh, qv)):
            ctx.fail('correspondence', 'vertical=True returns the chosen end-point line', 'linear_fit.linear_fit_transform', case, dict(impl=vh.tolist()[:6], model=[float(w) for w in qv[:6]]))
    r = float(np.sum(np.square(v - vh)))
    if abs(r - h) > 1e-12 * (abs(h) + abs(r)) + 1e-300:
        ctx.fail('predicate', 'vertical=True: residual sum of the returned pair == linear_hv_residuals', 'linear_fit.linear_fit_transform', case, dict(pair=r, hv=h))
    a1, a2 = lf.linear_fit_transform_points(pts, True)
    if not (np.array_equal(a1, v) and np.array_equal(np.asarray(a2, float), vh)):
        ctx.fail('predicate', 'linear_fit_transform_points == linear_fit_transform(x, y)', 'linear_fit.linear_fit_transform_points', case, 'differs')
    ctx.count(family, n=n, nontrivial_key=('hv', x.tobytes(), y.tobytes()) if qy > 0 and qx > 0 else None, sample=dict(x=x.tolist()[:6], y=y.tolist()[:6], hv=h, y_on_x=ry, x_on_y=rx))


# ---------------------------------------------------------------------------------------------------------------------------------------------
@core.safe_case
def cost_coef(ctx, pts, coef, family):
    import kneeliverse.rdp as rdp
    import kneeliverse.metrics as M
    pts = np.array(pts, dtype=float)
    x, y = pts[:, 0].copy(), pts[:, 1].copy()
    b, m = float(coef[0]), float(coef[1])
    case = dict(kind='cost_coef', points=pts.tolist(), coef=[b, m])
    d = ctx.get_driver()
    yh = x * m + b                                           # the line, evaluated by the harness
    qx, qyv = [F(float(v)) for v in x], [F(float(v)) for v in y]
    qyh = [v * F(m) + F(b) for v in qx]                      # the same line, exactly
    if np.any(y < 0) or np.any(yh < 0) or min(qyh) < 0:
        ctx.tag('cost_coef:negative-values(skipped)')
        return
    table = [(M.Metrics.r2, 'r2', M.r2, False), (M.Metrics.rmspe, 'rmspeSq', M.rmspe, True), (M.Metrics.rmsle, None, M.rmsle, True),
             (M.Metrics.smape, 'smape', M.smape, False), (M.Metrics.rpd, 'rpd', M.rpd, False)]
    nontriv = False
    for member, mname, fn, rooted in table:
        f = float(rdp.compute_cost_coef(pts, (b, m), member))
        direct = float(fn(y, yh))
        if f != direct and abs(f - direct) > 1e-9 * (abs(f) + abs(direct) + (1.0 if mname == 'r2' else 0.0)):
            ctx.fail('predicate', f'compute_cost_coef[{member}] == metrics.{member}(y, x*m + b)', 'rdp.compute_cost_coef', dict(case, cost=str(member)), dict(impl=f, direct=direct))
        if member is M.Metrics.rmsle:
            args = sorted({v + 1 for v in qyv} | {v + 1 for v in qyh})
            vals = [float(np.log(float(a))) for a in args]
            q = F(d.call('cost_coef', ['rmsle', core.rats(x), core.rats(y), core.rats([b, m]), core.rats(args), core.rats(vals)])[0])
            qfl = F(d.call('metric', ['mse', core.rats(np.log(y + 1)), core.rats(np.log(yh + 1))])[0])
        else:
            q = F(d.call('cost_coef', [str(member), core.rats(x), core.rats(y), core.rats([b, m]), '-', '-'])[0])
            qfl = F(d.call('metric', [mname, core.rats(y), core.rats(yh)])[0])
        ctx.corr_checked += 1
        fv = f * f if rooted else f
        cond = abs(qfl - q)
        if cond > F(1, 1000) * (abs(q) + 1):
            ctx.tag(f'cost_coef:{member}:rounding of y_hat dominates (inconclusive)')
            continue
        if not close(fv, q, 2 if mname == 'r2' else 1, extra=2 * cond):
            ctx.fail('correspondence', f'compute_cost_coef[{member}] equals the Layer-N metric of (y, line) (to within rounding)', 'rdp.compute_cost_coef', dict(case, cost=str(member)),
                     dict(impl=fv, model=float(q), model_on_float_line=float(qfl)))
        if member is not M.Metrics.r2 and q != 0:
            nontriv = True
        if member is M.Metrics.r2 and f > 1 + 1e-12:
            ctx.fail('predicate', 'compute_cost_coef[r2] <= 1', 'rdp.compute_cost_coef', case, dict(impl=f))
        if member is not M.Metrics.r2 and not (f >= 0):
            ctx.fail('predicate', f'compute_cost_coef[{member}] >= 0', 'rdp.compute_cost_coef', case, dict(impl=f))
        if member is M.Metrics.smape and f > 2:
            ctx.fail('predicate', 'compute_cost_coef[smape] <= 2', 'rdp.compute_cost_coef', case, dict(impl=f))
    ctx.count(family, n=len(pts), nontrivial_key=('cc', pts.tobytes(), b, m) if nontriv else None, sample=dict(n=len(pts), coef=[b, m]))


# ---------------------------------------------------------------------------------------------------------------------------------------------
@core.safe_case
def angle(ctx, m1, m2, family):
    import kneeliverse.linear_fit as lf
    m1, m2 = float(m1), float(m2)
    case = dict(kind='angle', m1=m1, m2=m2)
    d = ctx.get_driver()
    tok = d.call('angle_arg', [core.rat(m1), core.rat(m2)])[0]
    ctx.corr_checked += 1
    try:
        a = float(lf.angle((0.0, m1), (0.0, m2)))
    except ZeroDivisionError:
        a = None
    if tok == 'none':
        ctx.tag('angle:perpendicular-lines: ZeroDivisionError for Python floats')
        if a is not None:
            ctx.fail('correspondence', 'angleArg = none (1 + m1*m2 = 0) but the code returns for Python floats', 'linear_fit.angle', case, dict(impl=a))
        with warnings.catch_warnings(record=True) as wl, np.errstate(all='warn'):
            warnings.simplefilter('always')
            an = float(lf.angle((0.0, np.float64(m1)), (0.0, np.float64(m2))))
        if abs(abs(an) - math.pi / 2) > 1e-15 or not wl:
            ctx.fail('correspondence', 'perpendicular lines with NumPy scalars: +-pi/2 and a RuntimeWarning', 'linear_fit.angle', case, dict(impl=an, warnings=len(wl)))
        else:
            ctx.tag('angle:perpendicular-lines: +-pi/2 + RuntimeWarning for NumPy scalars')
        ctx.count(family + '/perpendicular')
        return
    if a is None:
        ctx.fail('correspondence', 'angleArg is defined but the code raises ZeroDivisionError', 'linear_fit.angle', case, dict(model=tok))
        ctx.count(family)
        return
    q = F(tok)
    want = math.atan(float(q))
    if abs(a - want) > 1e-9 * (abs(want) + 1):
        ctx.fail('correspondence', 'angle == atan((m1 - m2) / (1 + m1*m2))', 'linear_fit.angle', case, dict(impl=a, expected=want, arg=float(q)))
    b = float(lf.angle((0.0, m2), (0.0, m1)))
    if b != -a:
        ctx.fail('predicate', 'angle(l2, l1) == -angle(l1, l2)', 'linear_fit.angle', case, dict(a12=a, a21=b))
    if (a == 0) != (m1 == m2):
        ctx.fail('predicate', 'angle == 0 iff m1 == m2', 'linear_fit.angle', case, dict(angle=a))
    if (a < 0) != (q < 0) or not (-math.pi / 2 < a < math.pi / 2):
        ctx.fail('predicate', 'sign(angle) == sign((m1 - m2) / (1 + m1*m2)) and |angle| < pi/2', 'linear_fit.angle', case, dict(angle=a, arg=float(q)))
    if a < 0:
        ctx.tag('angle:ODDITY negative angle (docstring claims [0, pi/2])')
    # the intercepts are ignored
    c = float(lf.angle((ctx.rng.choice([-3.0, 0.5, 7.0]), m1), (ctx.rng.choice([-1.0, 2.0]), m2)))
    if c != a:
        ctx.fail('predicate', 'angle does not depend on the intercepts', 'linear_fit.angle', case, dict(a=a, c=c))
    ctx.count(family, nontrivial_key=('angle', m1, m2) if q != 0 else None, sample=dict(m1=m1, m2=m2, angle=a))


# ---------------------------------------------------------------------------------------------------------------------------------------------
def knee_list(rng, n):
    """(knees, valid?) : mostly strictly increasing subsets (also containing 0 / n-1), sometimes repeats, sometimes invalid lists"""
    u = rng.random()
    if n >= 1 and u < 0.80:
        lo = 0 if rng.random() < 0.25 else min(1, n - 1)
        pool = list(range(lo, n))
        k = min(len(pool), rng.choice([1, 1, 2, 2, 3, 4, 5, 8]))
        ks = sorted(rng.sample(pool, k))
        if rng.random() < 0.2 and ks[-1] != n - 1:
            ks.append(n - 1)
        return ks
    if n >= 1 and u < 0.88:
        ks = sorted(rng.choice(range(n)) for _ in range(rng.choice([2, 3, 4])))       # repeats allowed (one-point slices)
        return ks
    if u < 0.91:
        return []
    if u < 0.95:
        return [rng.randrange(0, n + 1) for _ in range(rng.choice([2, 3]))] + ([n + rng.choice([0, 1, 5])] if rng.random() < 0.5 else [])
    return [rng.randrange(0, max(1, n)) for _ in range(rng.choice([2, 3, 4]))]          # any order


def curve(rng, n):
    u = rng.random()
    if u < 0.75:
        pts, fam = gen.dyadic_curve(rng, n)
        if '@' not in fam:
            pts, tag = gen.magnitude(rng, pts)
            fam += tag
    else:
        pts, fam = gen.float_curve(rng, n)
    return np.array(pts, dtype=float), fam


def hv_sets(rng):
    """point sets for linear_hv_residuals: curves, symmetric sets, degenerate configurations, exactly collinear sets"""
    u = rng.random()
    n = rng.choice([1, 2, 3, 4, 5, 8, 13, 24])
    q = 2.0 ** -rng.choice([0, 1, 3])
    if u < 0.35:
        pts, fam = curve(rng, max(n, 2))
        l = rng.randrange(0, len(pts) - 1)
        r = rng.randrange(l + 1, len(pts))
        s = pts[l:r + 1] if rng.random() < 0.5 else pts
        return s[:, 0], s[:, 1], fam
    if u < 0.45:      # symmetric: y = x as multisets in the same order -> both sums equal
        v = np.array([rng.randrange(-20, 40) * q for _ in range(n)])
        return v, v.copy(), 'symmetric(y=x)'
    if u < 0.55:      # mirrored
        v = np.array([rng.randrange(0, 40) * q for _ in range(n)])
        w = np.array([rng.randrange(0, 40) * q for _ in range(n)])
        return (v, w, 'pair') if rng.random() < 0.5 else (w, v, 'pair-swapped')
    if u < 0.65:      # vertical line / horizontal line
        c = rng.randrange(-5, 30) * q
        v = np.array([rng.randrange(0, 40) * q for _ in range(n)])
        return (np.full(n, c), v, 'vertical-line') if rng.random() < 0.5 else (v, np.full(n, c), 'horizontal-line')
    if u < 0.8:       # exactly collinear, dyadic slope and intercept, any x order
        m, b = rng.randrange(-8, 9) * q, rng.randrange(-10, 10) * q
        xs = np.array([rng.randrange(-10, 30) for _ in range(n)], float)
        if rng.random() < 0.5:
            xs = np.sort(xs)
        return (xs, xs * m + b, 'collinear') if rng.random() < 0.6 else (xs * m + b, xs, 'collinear-x-on-y')
    if u < 0.9:       # closed path: first point == last point
        v = np.array([rng.randrange(0, 20) * q for _ in range(max(n, 3))])
        w = np.array([rng.randrange(0, 20) * q for _ in range(max(n, 3))])
        v[-1], w[-1] = v[0], w[0]
        return v, w, 'closed-path'
    v = np.array([rng.randrange(-30, 30) * q for _ in range(n)])
    w = np.array([rng.randrange(-30, 30) * q for _ in range(n)])
    return v, w, 'scatter'


def run(ctx):
    rng = ctx.rng
    quick = ctx.tier == 'quick'
    for _ in range(420 if quick else 8000):
        n = rng.choice([1, 2, 3, 4]) if rng.random() < 0.15 else rng.randrange(2, 41)
        pts, fam = curve(rng, max(n, 2))
        pts = pts[:n] if n < 2 else pts
        ks = knee_list(rng, len(pts))
        if knees_ok(len(pts), ks) or rng.random() < 0.5:
            trace(ctx, pts, ks, 'trace:' + fam)
        else:
            corners_any(ctx, pts, ks, 'corners:' + fam)
    # degenerate traces: flat y (total_y = 0, all slopes 0), vertical x, all R2 negative
    for _ in range(60 if quick else 800):
        n = rng.randrange(2, 12)
        x = np.cumsum([rng.choice([1, 2, 3]) for _ in range(n)]).astype(float)
        kind = rng.choice(['flat', 'zigzag', 'returns', 'xconst', 'zero-first'])
        if kind == 'flat':
            y = np.full(n, float(rng.randrange(0, 5)))
        elif kind == 'zigzag':                       # end-point lines fit badly: negative R2 in every gap
            y = np.array([(i % 2) * rng.choice([4.0, 7.0]) for i in range(n)])
        elif kind == 'returns':                      # y[-1] == y[0] with movement in between: total_y = 0, gaps not 0
            y = np.array([float(rng.randrange(0, 9)) for _ in range(n)])
            y[-1] = y[0]
        elif kind == 'xconst':
            x = np.full(n, 3.0)
            y = np.array([float(rng.randrange(0, 9)) for _ in range(n)])
        else:
            y = np.array([float(rng.randrange(0, 9)) for _ in range(n)])
            y[0] = 0.0
        ks = knee_list(rng, n)
        if not knees_ok(n, ks):
            ks = sorted(set(rng.sample(range(n), min(n, 3))))
        trace(ctx, np.column_stack([x, y]), ks, 'trace:degenerate-' + kind)
    for _ in range(150 if quick else 3000):
        n = rng.choice([0, 1, 2, 3, 5, 9, 17])
        q = 2.0 ** -rng.choice([0, 2, 10])
        kind = rng.choice(['rand', 'signed', 'ties', 'const', 'float', 'huge'])
        if kind == 'rand':
            a = [rng.randrange(0, 100) * q for _ in range(n)]
        elif kind == 'signed':
            a = [rng.randrange(-100, 100) * q for _ in range(n)]
        elif kind == 'ties':
            a = [rng.choice([1, 2, 3]) * q for _ in range(n)]
        elif kind == 'const':
            a = [7 * q] * n
        elif kind == 'float':
            a = [rng.uniform(-3, 3) for _ in range(n)]
        else:
            a = [2.0 ** 40 + rng.randrange(0, 50) for _ in range(n)]
        similarity(ctx, np.array(a, dtype=float), 'similarity:' + kind)
    for _ in range(260 if quick else 5000):
        x, y, fam = hv_sets(rng)
        hv(ctx, x, y, 'hv:' + fam)
    for _ in range(120 if quick else 2500):
        pts, fam = curve(rng, rng.randrange(2, 30))
        import kneeliverse.linear_fit as lf
        if rng.random() < 0.5:
            cf = lf.linear_fit_points(pts)
            tagc = 'own-line'
        else:
            j = rng.randrange(1, len(pts))
            cf = lf.linear_fit_points(pts[:j + 1])
            tagc = 'prefix-line'
        cost_coef(ctx, pts, (float(cf[0]), float(cf[1])), f'cost_coef:{tagc}:' + fam)
    slopes = [0.0, 1.0, -1.0, 0.5, -0.5, 2.0, -2.0, 0.25, -4.0, 3.0, 1.5, -0.75, 8.0, -0.125, 2.0 ** -30, 2.0 ** 30]
    for _ in range(200 if quick else 3000):
        m1 = rng.choice(slopes)
        u = rng.random()
        if u < 0.15:
            m2, fam = m1, 'equal'
        elif u < 0.3 and m1 != 0 and math.log2(abs(m1)).is_integer():
            m2, fam = -1.0 / m1, 'perp'
        elif u < 0.4:
            m2, fam = rng.uniform(-5, 5), 'float'
        else:
            m2, fam = rng.choice(slopes), 'dyadic'
        angle(ctx, m1, m2, 'angle:' + fam)


def replay(ctx, body):
    c = body['case']
    k = c.get('kind')
    if k == 'trace':
        trace(ctx, np.array(c['points'], float).reshape(-1, 2), c['knees'], 'replay')
    elif k == 'corners':
        corners_any(ctx, np.array(c['points'], float).reshape(-1, 2), c['knees'], 'replay')
    elif k == 'similarity':
        similarity(ctx, np.array(c['array'], float), 'replay')
    elif k == 'hv':
        hv(ctx, np.array(c['x'], float), np.array(c['y'], float), 'replay')
    elif k == 'cost_coef':
        cost_coef(ctx, np.array(c['points'], float), c['coef'], 'replay')
    elif k == 'angle':
        angle(ctx, c['m1'], c['m2'], 'replay')

"""C14 — even-point insertion returns the documented candidates, height-filtered."""
import math
from fractions import Fraction as F
import numpy as np
from .. import core, gen

PROP_FILE = 'Knee/Props/C14.lean'
PROP_FILES = ['Knee/Props/C14.lean', 'Knee/Props/Invariance.lean']
RULE = ('non-flat curves (dyadic families) x reductions (random subsets with both ends and real rdp outputs) x knee subsets x (tx, ty) from a grid x '
        'extremes in {False, True}, both variants. Correspondence is oracle-fed (the two float decisions per segment - wide? and ceil(w/(2tx)) - are evaluated by the '
        'harness from the property\'s definition) and exact; the exact-Q decisions are compared on conclusive cases. Predicate on the REAL output: completes, every '
        'index valid, equals the running-minimum filter of the sorted duplicate-free union computed by an independent reference. non-trivial = at least one inserted '
        'point; (variant, curve, reduction, knees, tx, ty, extremes) new')
ASSUMPTIONS = ['non-constant x and y; tx, ty > 0; knees are ascending positions (reduced space) / ascending indices (markers variant)']


def decisions(pts, segs, tx, ty):
    """float decisions exactly as the property defines them + exact-Q versions with a conclusiveness flag"""
    max_x, max_y = pts.max(axis=0)
    min_x, min_y = pts.min(axis=0)
    dx, dy = math.fabs(max_x - min_x), math.fabs(max_y - min_y)
    wide, npts, concl = [], [], True
    for l, r in segs:
        pdx = math.fabs(pts[r][0] - pts[l][0]) / dx
        pdy = math.fabs(pts[r][1] - pts[l][1]) / dy
        w = pdx > (2.0 * tx) and pdy > ty
        wide.append(1 if w else 0)
        npts.append(int(math.ceil(pdx / (2.0 * tx))) if w else 1)
        qx = abs(F(float(pts[r][0])) - F(float(pts[l][0]))) / F(dx)
        qy = abs(F(float(pts[r][1])) - F(float(pts[l][1]))) / F(dy)
        ratio = qx / (2 * F(float(tx)))
        near = lambda a, b: abs(a - b) <= F(1, 2 ** 30) * max(abs(a), abs(b), 1)
        if near(qx, 2 * F(float(tx))) or near(qy, F(float(ty))) or (w and near(ratio, round(ratio))):
            concl = False
    return wide, npts, concl, dx, dy


def reference(pts, knees_idx, segs, wide, npts, extremes):
    n = len(pts)
    new = []
    for (l, r), w, k in zip(segs, wide, npts):
        if w:
            inc = (abs(r - l) // k) * (1 if r >= l else -1)        # whole index steps towards the far end of the gap (also for a right-to-left gap)
            new += [l + (j + 1) * inc for j in range(k)]
    allk = sorted(set(list(knees_idx) + new + ([0, n - 1] if extremes else [])))
    out = []
    for i, k in enumerate(allk):
        if i == 0 or pts[k][1] <= hmin:
            out.append(k)
            hmin = pts[k][1]
    return out, new


@core.safe_case
def one(ctx, variant, pts, reduced, knees, tx, ty, extremes, family, int_dtype=None):
    import kneeliverse.postprocessing as pp
    import kneeliverse.rdp as rdp
    n = len(pts)
    d = ctx.get_driver()
    if int_dtype is None:
        int_dtype = bool(gen.int_ok(pts) and ctx.rng.random() < 0.35)
    case = dict(variant=variant, points=pts.tolist(), reduced=reduced, knees=knees, tx=tx, ty=ty, extremes=extremes, int_dtype=bool(int_dtype))
    pts_f = pts
    if int_dtype:
        # an integral curve is also delivered as an int64 array to the REAL call; the reference decisions below use the float64 copy
        ctx.tag('input:int64-dtype')
        pts = pts.astype(np.int64)
    site = f'postprocessing.{variant}[extremes={extremes}]'
    red = np.array(reduced, dtype=int)
    try:
        if variant == 'add_points_even':
            removed = rdp.compute_removed_points(pts, red)
            out = pp.add_points_even(pts, red, np.array(knees, dtype=int), removed, tx, ty, extremes)
        else:
            out = pp.add_points_even_knees(pts, np.array(knees, dtype=int), tx, ty, extremes)
        out = [int(v) for v in np.asarray(out).tolist()]
    except Exception as e:
        ctx.fail('predicate', 'completes', site, case, repr(e)[:200])
        ctx.count(family + ':' + variant, n=n)
        return
    if any(not (0 <= k < n) for k in out):
        ctx.fail('predicate', 'every-returned-index-valid', site, case, dict(out=out, n=n))
    pts = pts_f
    if variant == 'add_points_even':
        segs = list(zip(reduced, reduced[1:]))
        knees_idx = [reduced[k] for k in knees]
    else:
        ks = [0] + list(knees) + [n - 1]
        segs = list(zip(ks, ks[1:]))
        knees_idx = list(knees)
    wide, npts, concl, dx, dy = decisions(pts, segs, tx, ty)
    want, new = reference(pts, knees_idx, segs, wide, npts, extremes)
    if out != want:
        ctx.fail('predicate', 'equals-running-min-of-sorted-unique-union(knees, even points, extremes)', site, case, dict(impl=out, expected=want, inserted=new))
    hs = core.rats(pts[:, 1])
    if variant == 'add_points_even':
        m = d.call('add_even', [str(n), hs, core.nats(reduced), core.pairs([(a, b - a - 1) for a, b in segs]), core.nats(knees), core.nats(wide), core.nats(npts), '1' if extremes else '0'])
    else:
        m = d.call('add_even_knees', [str(n), hs, core.nats(knees), core.nats(wide), core.nats(npts), '1' if extremes else '0'])
    m = core.parse_nats(m[0])
    ctx.corr_checked += 1
    if variant != 'add_points_even' and any(a > b for a, b in zip(knees, knees[1:])):
        # markers listed out of order: the gaps between CONSECUTIVE markers then run right-to-left; the model (natural-number gaps) covers
        # ascending marker lists only, the direct predicates above judge these cases
        ctx.tag('markers-not-ascending(predicate only)')
    elif m != out:
        ctx.fail('correspondence', 'addEven' if variant == 'add_points_even' else 'addEvenKnees', site, case, dict(impl=out, model=m, wide=wide, npts=npts))
    # exact-Q decisions on conclusive cases
    if concl:
        for (l, r), w, k in list(zip(segs, wide, npts))[:6]:
            q = d.call('evenQ', [core.rat(float(pts[l][0])), core.rat(float(pts[l][1])), core.rat(float(pts[r][0])), core.rat(float(pts[r][1])),
                                 core.rat(dx), core.rat(dy), core.rat(float(tx)), core.rat(float(ty))])
            ctx.corr_checked += 1
            if int(q[0]) != w or (w and int(q[1]) != k):
                ctx.fail('correspondence', 'wideQ/nptsQ vs float decisions', site, case, dict(segment=[l, r], float=[w, k], exact=q))
                break
    else:
        ctx.inconclusive += 1
    ctx.count(family + ':' + variant, n=n, nontrivial_key=(variant, pts.tobytes(), tuple(reduced), tuple(knees), tx, ty, extremes) if new else None,
              sample=dict(variant=variant, n=n, reduced=reduced[:12], knees=knees[:12], tx=tx, ty=ty, extremes=extremes, out=out[:16]))


def run(ctx):
    import kneeliverse.rdp as rdp
    rng = ctx.rng
    quick = ctx.tier == 'quick'
    for _ in range(600 if quick else 12000):
        n = rng.randrange(5, 80)
        pts, fam = gen.dyadic_curve(rng, n, rng.choice(['missratio', 'steps', 'walk', 'convex', 'concave', 'elbows', 'plateau']), scale_exp=0)
        if np.ptp(pts[:, 1]) == 0:
            continue
        pts, vt = gen.magnitude(rng, pts, 0.3)
        fam += vt
        if not vt and rng.random() < 0.12:
            q = gen.bytecount_of(pts) if rng.random() < 0.5 else np.column_stack([pts[:, 0], np.floor(pts[:, 1] * 64)])
            if np.ptp(q[:, 1]) > 0 and np.all(np.diff(q[:, 0]) > 0):
                pts, fam = q, fam + '@integer'
        tx, ty = rng.choice([0.05, 0.1, 0.125, 0.02, 0.25, 0.5, 0.3, 0.005, 0.75]), rng.choice([0.05, 0.1, 0.01, 0.2, 0.0625, 0.5, 0.001])
        extremes = rng.random() < 0.5
        if rng.random() < 0.5:
            if rng.random() < 0.3:
                try:
                    reduced = [int(v) for v in rdp.rdp(pts, t=rng.choice([0.05, 0.2, 0.5]))[0].tolist()]
                except Exception:
                    continue
            else:
                reduced = gen.random_subset_with_ends(rng, n, rng.randrange(0, min(n - 2, 10) + 1))
            m = len(reduced)
            knees = sorted(rng.sample(range(m), rng.randrange(0 if rng.random() < 0.1 else 1, min(m, 6) + 1)))      # every knee set: the empty one too
            tx = tie_tx(rng, pts, list(zip(reduced, reduced[1:])), tx)
            one(ctx, 'add_points_even', pts, reduced, knees, tx, ty, extremes, fam)
        else:
            # markers variant: knees anywhere on the curve, both ends included (zero-length end gaps), and the empty marker list (one gap 0..n-1)
            lo, hi = (0, n) if rng.random() < 0.3 else (1, n - 1)
            knees = sorted(rng.sample(range(lo, hi), rng.randrange(0 if rng.random() < 0.1 else 1, min(hi - lo, 6) + 1)))
            if len(knees) >= 2 and rng.random() < 0.12:
                rng.shuffle(knees)                          # the marker list in another order: right-to-left gaps
            ks_ = [0] + sorted(knees) + [n - 1]
            tx = tie_tx(rng, pts, list(zip(ks_, ks_[1:])), tx)
            one(ctx, 'add_points_even_knees', pts, list(range(n)), knees, tx, ty, extremes, fam)
    long_cases(ctx)


def tie_tx(rng, pts, segs, tx):
    """tie-seeking width threshold: in a fifth of the cases tx is chosen so that width/(2*tx) of one of the segments is an integer k, or
    sits a few 1e-10 above / below it - `ceil` must see the quotient as it is (k, k+1, k), nothing may round it first"""
    if not segs or rng.random() >= 0.2:
        return tx
    l, r = rng.choice(segs)
    dx = float(np.max(pts[:, 0]) - np.min(pts[:, 0]))
    w = abs(float(pts[r][0] - pts[l][0])) / dx if dx > 0 else 0.0
    if w <= 0:
        return tx
    k = rng.randrange(1, 7)
    return float(w / (2.0 * k) * rng.choice([1.0, 1.0 - 3e-10, 1.0 + 3e-10, 1.0 - 2e-12, 1.0 + 2e-12]))


def long_cases(ctx):
    """LONG curves (beyond 1024 / 4096 points) with many knees and many retained segments: chunked / strided / capped processing"""
    import kneeliverse.rdp as rdp
    rng = ctx.rng
    for _ in range(3 if ctx.tier == 'quick' else 40):
        n = rng.choice([rng.randrange(1100, 2000), rng.randrange(4097, 5200)])
        xs = np.arange(n, dtype=float)
        ys = np.round(65536.0 * np.exp(-rng.choice([0.0008, 0.002]) * xs)) / 16.0 + np.array([rng.randrange(0, 8) / 4.0 for _ in range(n)])
        pts = np.column_stack([xs, ys])
        tx, ty = rng.choice([0.01, 0.005, 0.02]), rng.choice([0.001, 0.01])
        extremes = rng.random() < 0.5
        if rng.random() < 0.5:
            reduced = gen.random_subset_with_ends(rng, n, rng.randrange(20, 120))
            knees = sorted(rng.sample(range(len(reduced)), rng.randrange(5, 20)))
            one(ctx, 'add_points_even', pts, reduced, knees, tx, ty, extremes, 'long-trace', False)
        else:
            knees = sorted(rng.sample(range(1, n - 1), rng.randrange(10, 60)))
            one(ctx, 'add_points_even_knees', pts, list(range(n)), knees, tx, ty, extremes, 'long-trace', False)


def replay(ctx, body):
    c = body['case']
    one(ctx, c['variant'], np.array(c['points'], float), c['reduced'], c['knees'], c['tx'], c['ty'], c['extremes'], 'replay', bool(c.get('int_dtype', False)))

"""C08 — the end-to-end pipeline yields valid, ordered knees of the original curve."""
import math
import numpy as np
from .. import core, gen, rdpfam, detfam
from . import c12, c13

PROP_FILE = 'Knee/Props/C08.lean'
PROP_FILES = ['Knee/Props/C08.lean', 'Knee/Props/C08E.lean', 'Knee/Props/C08F.lean', 'Knee/Props/C08G.lean']
SIMPL = ['rdp', 'rdp_fixed', 'grdp', 'mp_grdp', 'min_point_rdp']
RULE = ('the pipeline exactly as demos/*.py compose it: simplifier (5) -> multi_knee of a detector module (5) on the reduced curve -> filter_worst_knees -> '
        'filter_corner_knees -> filter_clusters (4 linkages x 4 ranking modes incl. hull, the demos\' default) -> rdp.mapping, on dyadic families, float curves, '
        'trace windows and (thorough) the full bundled traces. Every stage is compared with its Lean model stage by stage (each model stage is fed the REAL output '
        'of the previous stage and the oracle values of the package\'s own primitives); predicates on the REAL run: completes, every filter stage is a subsequence of '
        'its input, heights non-increasing from the worst-knee filter on, final list strictly increasing, subset of the retained points, coordinates equal those of the '
        'reduced-space knee. non-trivial = at least 2 knees reach the cluster stage; (configuration, curve) new')
ASSUMPTIONS = ['thresholds in their domains (t>0, t<=1 for R2, t1>=0, t2>=detector minimum)']


def is_subseq(a, b):
    it = iter(b)
    return all(any(x == y for y in it) for x in a)


@core.safe_case
def one(ctx, pts, cfg, family):
    import kneeliverse.postprocessing as pp
    import kneeliverse.knee_ranking as kr
    import kneeliverse.rdp as rdp
    n = len(pts)
    case = dict(points=pts.tolist() if n <= 80 else dict(family=family, n=n, first=pts[:3].tolist()), config=cfg)
    big = n > 80
    if big:
        case['points_file_note'] = 'full trace from /repo/traces (see family)'
    site = f"pipeline[{cfg['simplifier']},{cfg['detector']},{cfg['linkage']},{cfg['mode']}]"
    d = ctx.get_driver()
    if 'int_dtype' not in cfg:
        cfg['int_dtype'] = bool(gen.int_ok(pts) and ctx.rng.random() < 0.35)
    isint = bool(cfg['int_dtype'])
    # an integral curve is also run through the REAL pipeline as an int64 array (raw counts); oracles / references keep the float64 copy
    pin = pts.astype(np.int64) if isint else pts
    if isint:
        ctx.tag('input:int64-dtype')
    # ---- stage 1: simplify
    try:
        red, rem, _ = rdpfam.real_call(cfg['simplifier'], pts, dict(cfg['scfg'], int_dtype=isint))
    except core.LoopBudgetExceeded as e:
        ctx.fail('predicate', 'completes(simplifier)', site, case, str(e)); return
    except Exception as e:
        ctx.fail('predicate', 'completes(simplifier)', site, case, repr(e)[:200]); return
    if rdpfam.wf_failures(n, red, rem):
        ctx.fail('predicate', 'simplifier-well-formed', site, case, dict(reduced=red[:20])); return
    pr = pts[red]
    pri = pin[red]
    m = len(red)
    # ---- stage 2: multi-knee on the reduced curve
    t2 = detfam.MIN_T2[cfg['detector']] + cfg['t2x']
    try:
        out, _ = detfam.real_multi(cfg['detector'], pr, cfg['t1'], t2, isint)
        knees = [int(v) for v in np.asarray(out).tolist()]
    except core.LoopBudgetExceeded as e:
        ctx.fail('predicate', 'completes(multi_knee)', site, case, str(e)); return
    except Exception as e:
        ctx.fail('predicate', 'completes(multi_knee)', site, case, repr(e)[:200]); return
    if not big or m <= 120:
        try:
            mk, orc = detfam.model_multi(ctx, cfg['detector'], pr, cfg['t1'], t2)
            if not orc.nonfinite:
                ctx.corr_checked += 1
                if mk != knees:
                    ctx.fail('correspondence', 'multi_knee (stage 2)', site, case, dict(impl=knees, model=mk))
        except Exception as e:
            ctx.tag('stage2-oracle-raised')
    lo = 0 if cfg['detector'] == 'menger' else 1
    if any(a >= b for a, b in zip(knees, knees[1:])) or any(not (lo <= k <= m - 2) for k in knees):
        ctx.fail('predicate', 'multi_knee-strictly-increasing-interior', site, case, dict(knees=knees, m=m)); return
    ka = np.array(knees, dtype=int)
    # ---- stages 3-5: filters
    try:
        w = [int(v) for v in np.asarray(pp.filter_worst_knees(pri, ka)).tolist()]
        c = [int(v) for v in np.asarray(pp.filter_corner_knees(pri, np.array(w, dtype=int), t=cfg['tc'])).tolist()]
        if cfg['mode'] == 'corners':
            k = [int(v) for v in np.asarray(pp.filter_clusters_corners(pri, np.array(c, dtype=int), c12.link_fn(cfg['linkage']), cfg['tl'])).tolist()]
        else:
            k = [int(v) for v in np.asarray(pp.filter_clusters(pri, np.array(c, dtype=int), c12.link_fn(cfg['linkage']), cfg['tl'], getattr(kr.ClusterRanking, cfg['mode']))).tolist()]
        o = [int(v) for v in np.asarray(rdp.mapping(np.array(k, dtype=int), np.array(red), np.array(rem))).tolist()] if len(k) else []
        if len(k):
            # the same final stage with the documented `sorted=False` option (any row order of the removed table)
            perm = list(range(len(rem)))
            ctx.rng.shuffle(perm)
            o_uns = [int(v) for v in np.asarray(rdp.mapping(np.array(k, dtype=int), np.array(red), np.array(rem)[perm], sorted=False)).tolist()]
            if o_uns != o:
                ctx.fail('predicate', 'mapping(sorted=False, shuffled removed table) equals mapping(sorted=True)', site, case, dict(sorted_true=o, sorted_false=o_uns, row_order=perm)); return
        ev = None
        if cfg.get('final') == 'even' and np.ptp(pts[:, 1]) > 0:
            ev = [int(v) for v in np.asarray(pp.add_points_even(pin, np.array(red), np.array(k, dtype=int), np.array(rem), cfg['tx'], cfg['ty'], bool(cfg['extremes']))).tolist()]
    except Exception as e:
        ctx.fail('predicate', 'completes(filters/mapping)', site, case, dict(error=repr(e)[:200], knees=knees)); return
    stages = dict(knees=knees, worst=w, corner=c, cluster=k, mapped=o)
    if ev is not None:
        stages['even'] = ev
        yo = pts[:, 1]
        if any(a >= b for a, b in zip(ev, ev[1:])) or any(not (0 <= q < n) for q in ev) or any(yo[b] > yo[a] for a, b in zip(ev, ev[1:])):
            ctx.fail('predicate', 'add_points_even-output-strictly-increasing-valid-heights-non-increasing', site, case, stages); return
    for a, b in (('worst', 'knees'), ('corner', 'worst'), ('cluster', 'corner')):
        if not is_subseq(stages[a], stages[b]):
            ctx.fail('predicate', f'{a}-is-a-subsequence-of-{b}', site, case, stages); return
    ys = pr[:, 1]
    for a in ('worst', 'corner', 'cluster'):
        s = stages[a]
        if any(ys[s[i + 1]] > ys[s[i]] for i in range(len(s) - 1)):
            ctx.fail('predicate', f'heights-non-increasing-after-{a}', site, case, stages); return
    if any(a >= b for a, b in zip(o, o[1:])) or not set(o) <= set(red) or len(o) != len(k):
        ctx.fail('predicate', 'output-strictly-increasing-subset-of-retained-points', site, case, stages); return
    if any(not np.array_equal(pts[oi], pr[ki]) for oi, ki in zip(o, k)):
        ctx.fail('predicate', 'coordinates-equal-reduced-space-knee', site, case, stages); return
    # ---- stage-by-stage correspondence
    mw = core.parse_nats(d.call('worst', [core.rats(ys), core.nats(knees)])[0])
    ious = [c13.iou_of(pr, q) if 1 <= q and q + 1 < m else 0.0 for q in w]
    mc = core.parse_nats(d.call('corner', ['filter', str(m), core.rat(cfg['tc']), core.nats(w), core.rats(ious)])[0])
    ctx.corr_checked += 2
    if mw != w:
        ctx.fail('correspondence', 'worstFilter (stage 3)', site, case, dict(impl=w, model=mw))
    if mc != c:
        ctx.fail('correspondence', 'cornerFilter (stage 4)', site, case, dict(impl=c, model=mc))
    if len(c) >= 2 and cfg['mode'] != 'corners' and (cfg['mode'] != 'hull' or min(c) >= 1):
        mkf = c12.model_filter(ctx, pr, c, cfg['linkage'], cfg['tl'], cfg['mode'])
        if mkf is not None:
            ctx.corr_checked += 1
            if mkf != k:
                ctx.fail('correspondence', 'clusterFilter (stage 5)', site, case, dict(impl=k, model=mkf))
    if k:
        mo = core.parse_nats(d.call('mapping', [core.nats(k), core.nats(red), core.pairs([(int(a), int(b)) for a, b in rem]), '1'])[0])
        ctx.corr_checked += 1
        if mo != o:
            ctx.fail('correspondence', 'mapping (stage 6)', site, case, dict(impl=o, model=mo))
    # ---- the WHOLE pipeline in one model run (threshold RDP, rank modes), every oracle asked lazily in its own space
    if cfg['simplifier'] == 'rdp' and cfg['mode'] not in ('hull', 'corners') and m <= 120 and n <= 400:
        whole_pipeline(ctx, pts, cfg, stages, red, site, case, t2)
    # ---- ... and for EVERY configuration (5 simplifiers x rank/hull/corners x mapping/add_points_even): pipelineCfgM, the subject of C08F
    if m <= 120 and n <= 400 and (cfg['mode'] != 'hull' or not c or min(c) >= 1):
        whole_pipeline_cfg(ctx, pts, cfg, stages, red, site, case, t2)
    ctx.count(family + ':' + cfg['simplifier'] + ':' + cfg['detector'] + ':' + cfg['mode'], n=n,
              nontrivial_key=(str(sorted(cfg.items(), key=str)), pts.tobytes()) if len(c) >= 2 else None,
              sample=dict(config=cfg, n=n, reduced_points=m, **{kk: vv[:10] for kk, vv in stages.items()}))


def whole_pipeline(ctx, pts, cfg, stages, red, site, case, t2):
    import kneeliverse.knee_ranking as kr
    sc = cfg['scfg']
    orc1 = rdpfam.Oracles(pts, sc.get('dist', 'shortest'), sc.get('cost', 'smape'), 'segment')
    state = {}
    tie = {'v': False}

    def answer(name, args):
        if name in ('cst', 'dst'):
            return orc1.answer(name, args)
        if name == 'reduced':
            state['red'] = core.parse_nats(args[0])
            state['pr'] = pts[state['red']]
            state['orc2'] = detfam.DetOracles(state['pr'])
            return '0'
        pr = state['pr']
        if name == 'hts':
            return core.rats(pr[:, 1])
        if name == 'ious':
            ks = core.parse_nats(args[0])
            return core.rats([c13.iou_of(pr, q) if 1 <= q and q + 1 < len(pr) else 0.0 for q in ks])
        if name == 'labels':
            ks = core.parse_nats(args[0])
            return core.nats(np.asarray(c12.link_fn(cfg['linkage'])(pr[np.array(ks, dtype=int)], cfg['tl'])).tolist())
        if name == 'scores':
            g = core.parse_nats(args[0])
            v = [float(u) for u in kr.smooth_ranking(pr, np.array(g, dtype=int), getattr(kr.ClusterRanking, cfg['mode']))]
            if len(set(v)) < len(v) or any(not math.isfinite(u) for u in v):
                tie['v'] = True
                v = [0.0 if not math.isfinite(u) else u for u in v]
            return core.rats(v)
        return state['orc2'].answer(name, args)
    try:
        out = ctx.get_driver().call('pipeline_full', ['1' if sc.get('cost') == 'r2' else '0', core.rat(sc['t']), str(len(pts)), cfg['detector'],
                                                        core.rat(cfg['t1']), str(t2), core.rat(cfg['tc'])], answer)
    except core.NonFinite:
        ctx.tag('whole-pipeline-oracle-nonfinite')
        return
    if orc1.nonfinite or (state.get('orc2') and state['orc2'].nonfinite):
        ctx.tag('whole-pipeline-oracle-nonfinite')
        return
    if tie['v']:
        ctx.tag('whole-pipeline-tie(relational)')
        return
    ctx.corr_checked += 1
    if out == ['none']:
        ctx.fail('correspondence', 'pipelineFull returned none', site, case, stages)
        return
    got = [core.parse_nats(tok) for tok in out]
    want = [red, stages['knees'], stages['worst'], stages['corner'], stages['cluster'], stages['mapped']]
    if got != want:
        names = ['reduced', 'knees', 'worst', 'corner', 'cluster', 'mapped']
        bad = next(nm for nm, a, b in zip(names, got, want) if a != b)
        ctx.fail('correspondence', f'pipelineFull (whole pipeline in one model run): first difference at stage {bad}', site, case, dict(model=dict(zip(names, got)), impl=dict(zip(names, want))))
    else:
        ctx.tag('whole-pipeline-agrees')


def whole_pipeline_cfg(ctx, pts, cfg, stages, red, site, case, t2):
    import kneeliverse.knee_ranking as kr
    import kneeliverse.postprocessing as pp
    from . import c14
    sc = cfg['scfg']
    simp = cfg['simplifier']
    isr2 = '1' if sc.get('cost') == 'r2' else '0'
    if simp == 'min_point_rdp':
        orc1 = rdpfam.Oracles(pts, 'shortest', 'smape', 'segment')
        tok = 'minpoint:0:%d:%s' % (sc['m'], ';'.join(core.rat(t) for t in sc['ts']))
    else:
        orc1 = rdpfam.Oracles(pts, sc.get('dist', 'shortest'), sc.get('cost', 'smape'), sc.get('order', 'segment'))
        tok = {'rdp': lambda: f"rdp:{isr2}:{core.rat(sc['t'])}", 'grdp': lambda: f"grdp:{isr2}:{core.rat(sc['t'])}", 'rdp_fixed': lambda: f"fixed:{sc['k']}",
               'mp_grdp': lambda: f"mp:{isr2}:{core.rat(sc['t'])}:{sc['m']}"}[simp]()
    pr0 = pts[red]
    hull = c12.lower_hull(ctx, pr0) if cfg['mode'] == 'hull' else []
    state = {}
    tie = {'v': False}

    def answer(name, args):
        if name in ('cst', 'dst', 'key', 'gcs'):
            return orc1.answer(name, args)
        if name == 'reduced':
            state['red'] = core.parse_nats(args[0])
            state['pr'] = pts[state['red']]
            state['orc2'] = detfam.DetOracles(state['pr'])
            return '0'
        pr = state['pr']
        if name == 'hts':
            return core.rats(pr[:, 1])
        if name == 'ious':
            ks = core.parse_nats(args[0])
            return core.rats([c13.iou_of(pr, q) if 1 <= q and q + 1 < len(pr) else 0.0 for q in ks])
        if name == 'labels':
            ks = core.parse_nats(args[0])
            return core.nats(np.asarray(c12.link_fn(cfg['linkage'])(pr[np.array(ks, dtype=int)], cfg['tl'])).tolist())
        if name == 'scores':
            g = core.parse_nats(args[0])
            v = [float(u) for u in kr.smooth_ranking(pr, np.array(g, dtype=int), getattr(kr.ClusterRanking, cfg['mode']))]
            if len(set(v)) < len(v) or any(not math.isfinite(u) for u in v):
                tie['v'] = True
                v = [0.0 if not math.isfinite(u) else u for u in v]
            return core.rats(v)
        if name == 'hull':
            return core.nats(hull)
        if name == 'herrs':
            g = core.parse_nats(args[0])
            hw = [h for h in hull if g[0] <= h <= g[-1]]
            if len(hw) > 1 and g[0] >= 1 and g[-1] + 1 < len(pr):
                row = c12.hull_err(pr, g, hw)
                if len(set(row)) < len(row) or any(not math.isfinite(u) for u in row):
                    tie['v'] = True
                    row = [0.0 if not math.isfinite(u) else u for u in row]
            else:
                row = [0.0] * len(g)
            return core.rats(row)
        if name == 'areas':
            g = core.parse_nats(args[0])
            v = [float(u) for u in pp.rank_corners_triangle(pr, np.array(g, dtype=int))]
            if any(not math.isfinite(u) for u in v) or sorted(v)[-1:] * 2 == sorted(v)[-2:]:
                tie['v'] = True
                v = [0.0 if not math.isfinite(u) else u for u in v]
            return core.rats(v)
        if name == 'hts0':
            return core.rats(pts[:, 1])
        if name in ('wide', 'npts'):
            if 'dec' not in state:
                r_ = state['red']
                wide, npts, concl, _, _ = c14.decisions(pts, list(zip(r_, r_[1:])), cfg['tx'], cfg['ty'])
                state['dec'] = (wide, npts)
                if not concl:
                    tie['v'] = True
            return core.nats(state['dec'][0] if name == 'wide' else state['dec'][1])
        return state['orc2'].answer(name, args)
    fin = 'map'
    if 'even' in stages:
        fin = 'even:1' if cfg['extremes'] else 'even:0'
    cmode = cfg['mode'] if cfg['mode'] in ('hull', 'corners') else 'rank'
    try:
        out = ctx.get_driver().call('pipeline_cfg', [tok, str(len(pts)), cfg['detector'], core.rat(cfg['t1']), str(t2), core.rat(cfg['tc']), cmode, fin], answer)
    except core.NonFinite:
        ctx.tag('pipeline-cfg-oracle-nonfinite')
        return
    if orc1.nonfinite or (state.get('orc2') and state['orc2'].nonfinite):
        ctx.tag('pipeline-cfg-oracle-nonfinite')
        return
    if tie['v']:
        ctx.tag('pipeline-cfg-tie(relational)')
        return
    ctx.corr_checked += 1
    if out == ['none']:
        ctx.fail('correspondence', 'pipelineCfg returned none', site, case, stages)
        return
    got = [core.parse_nats(tok_) for tok_ in out]
    names = ['reduced', 'knees', 'worst', 'corner', 'cluster', 'out']
    want = [red, stages['knees'], stages['worst'], stages['corner'], stages['cluster'], stages['even'] if 'even' in stages else stages['mapped']]
    if got != want:
        bad = next(nm for nm, a, b in zip(names, got, want) if a != b)
        ctx.fail('correspondence', f'pipelineCfg (any configuration, one model run): first difference at stage {bad}', site, case, dict(model=dict(zip(names, got)), impl=dict(zip(names, want))))
    else:
        ctx.tag(f'pipeline-cfg-agrees[{simp},{cmode},{fin.split(":")[0]}]')


def rand_cfg(ctx, pts):
    rng = ctx.rng
    n = len(pts)
    s = rng.choice(SIMPL + ['rdp', 'rdp'])
    scfg = dict(dist=rng.choice(rdpfam.DISTS), cost=rng.choice(rdpfam.COSTS), order=rng.choice(rdpfam.ORDERS))
    if s in ('rdp', 'grdp', 'mp_grdp'):
        scfg['t'] = rng.choice([0.001, 0.01, 0.05]) if scfg['cost'] != 'r2' else rng.choice([0.9, 0.99, 0.999])
    if s == 'rdp_fixed':
        scfg['k'] = rng.randrange(min(max(4, n // 4), n), n + 1) if rng.random() < 0.9 else rng.randrange(0, n + 3)
    if s in ('mp_grdp', 'min_point_rdp'):
        scfg['m'] = rng.randrange(min(max(4, n // 4), n), n + 1) if rng.random() < 0.9 else rng.randrange(0, n + 3)
    if s == 'min_point_rdp':
        scfg = dict(m=scfg['m'], ts=[0.01, 0.001, 0.0001])
    return dict(simplifier=s, scfg=scfg, detector=rng.choice(detfam.DETS), t1=rng.choice([0.0, 0.001, 0.01]), t2x=rng.choice([0, 0, 1]),
                tc=rng.choice([0.33, 0.5, 0.25, 1.0]), linkage=rng.choice(c12.LINK), tl=rng.choice([0.01, 0.05, 0.1, 0.2]), mode=rng.choice(list(c12.MODES) + ['corners']),
                final=rng.choice(['map', 'map', 'even']), tx=rng.choice([0.05, 0.1, 0.125, 0.02]), ty=rng.choice([0.05, 0.01, 0.125]), extremes=rng.choice([0, 1]))


def run(ctx):
    rng = ctx.rng
    quick = ctx.tier == 'quick'
    # corpus: curves whose tail is a collinear run ending at y = 0 (the pinned rdp.rdp never returned on these)
    for k in (3, 5):
        tail = [[10.0 + 3 * i, float(k - 1 - i)] for i in range(k)]
        head = [[float(i), 30.0 - 2.5 * i - (3.0 if i % 3 == 0 else 0.0)] for i in range(10)]
        w = np.array(head + tail, float)
        for det in detfam.DETS:
            one(ctx, w, dict(simplifier='rdp', scfg=dict(dist='shortest', cost='smape', t=0.01), detector=det, t1=0.01, t2x=0, tc=0.33,
                             linkage='average', tl=0.05, mode='hull'), 'corpus-collinear-zero-tail')
    for _ in range(350 if quick else 6000):
        u = rng.random()
        n = rng.randrange(8, 70) if rng.random() < 0.93 else rng.randrange(2, 8)       # also the smallest curves (no knee at all is a valid outcome)
        if u < 0.6:
            pts, fam = gen.dyadic_curve(rng, n, rng.choice(['missratio', 'steps', 'convex', 'concave', 'elbows', 'walk', 'plateau', 'zeros', 'noisyline']), scale_exp=0)
            pts, vt = gen.near_ties(rng, pts, 0.25 if fam in ('steps', 'plateau', 'missratio') else 0.05)
            fam += vt
            if not vt:
                pts, vt = gen.magnitude(rng, pts, 0.12, ('xytiny30', 'ytiny30', 'xoff30', 'yoff30', 'xyhuge30'))
                fam += vt
            if not vt and rng.random() < 0.12 and n >= 8:
                # miss COUNTS instead of ratios: integral heights (half of the time byte-count sized), run as int64 arrays part of the time
                q = gen.bytecount_of(pts) if rng.random() < 0.5 else np.column_stack([pts[:, 0], np.floor(pts[:, 1] * 256)])
                if np.ptp(q[:, 1]) > 0 and np.all(np.diff(q[:, 0]) > 0):
                    pts, fam = q, fam + '@integer'
        elif u < 0.8:
            pts, fam = gen.float_curve(rng, n)
        else:
            pts, fam = gen.trace_window(rng, 70)
            if pts is None:
                continue
        one(ctx, pts, rand_cfg(ctx, pts), fam)
    for _ in range(1 if quick else 6):
        # a GIANT noisy trace, lightly simplified: thousands of reduced points, a thousand knees or more.  Only the real stages, the direct
        # predicates and the cheap per-stage correspondences run here (the whole-pipeline models are size-guarded) - what caps the number of
        # knees, iterations or the recursion depth of a stage shows as an unsorted / truncated stage output
        n = rng.randrange(5000, 7500)
        xs = np.arange(n, dtype=float)
        ys = np.round(65536.0 * np.exp(-0.0006 * xs)) / 16.0 + np.array([rng.randrange(0, 64) / 4.0 for _ in range(n)])
        cfg = rand_cfg(ctx, np.column_stack([xs[:50], ys[:50]]))
        cfg.update(simplifier='rdp', scfg=dict(dist='shortest', cost='smape', t=1e-4), detector=rng.choice(['menger', 'curvature']), t1=0.0, t2x=0, final='mapping')
        one(ctx, np.column_stack([xs, ys]), cfg, 'giant-noisy')
    for name, a in gen.traces().items():
        full = a if len(a) <= 700 else a[:: max(1, len(a) // (300 if quick else 700))]
        for _ in range(2 if quick else 12):
            cfg = rand_cfg(ctx, full)
            if quick:
                cfg['simplifier'], cfg['scfg'] = 'rdp', dict(dist='shortest', cost='smape', t=0.01)
            one(ctx, np.array(full, float), cfg, 'trace-full-' + name)


def replay(ctx, body):
    c = body['case']
    if isinstance(c['points'], list):
        one(ctx, np.array(c['points'], float), c['config'], 'replay')

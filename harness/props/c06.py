"""C06 — global RDP stops at the first refinement whose global cost meets the threshold."""
import numpy as np
from .. import core, gen, rdpfam

PROP_FILE = 'Knee/Props/C06.lean'
PROP_FILES = ['Knee/Props/C06.lean', 'Knee/Props/C06B.lean']
RULE = ('grdp / mp_grdp / min_point_rdp x 5 metrics x 2 distances x 3 orderings x thresholds (grid + global costs observed on the input: exact ties) '
        'x min_points 0..n+1. Predicate on the REAL code: result == real rdp_fixed(k*) for the least k>=2 whose real compute_global_cost (fresh cache) '
        'is accepting, all points if none; mp: rdp_fixed(max(k*, min(m,n))); multi-threshold: grdp of the largest listed threshold with >= m points, '
        'else rdp_fixed(m). non-trivial = k* > 2 and (function, config, curve) new')
ASSUMPTIONS = ['t>0 (t<=1 for R2)']


def accepting(cost, v, t):
    return (v >= t) if cost == 'r2' else (v < t)


def first_accepting(pts, cfg, tables, ctx=None, site=None, case=None):
    import kneeliverse.rdp as rdp
    import kneeliverse.evaluation as ev
    _, dist_enum, _, cost_enum, order_enum = tables
    n = len(pts)
    ties = 0
    for k in range(2, n + 1):
        red, _ = rdp.rdp_fixed(pts, length=k, distance=dist_enum[cfg['dist']], order=order_enum[cfg['order']])
        red = [int(i) for i in red]
        v = float(ev.compute_global_cost(pts, red, cost_enum[cfg['cost']], {}))
        if v == cfg['t']:
            ties += 1
        acc = accepting(cfg['cost'], v, cfg['t'])
        if ctx is not None and np.all(np.isfinite(pts)):
            # the same decision with the global cost evaluated from its DEFINITION by the harness (independent of evaluation.py),
            # wherever the threshold is not within rounding of it
            vr, conclusive = rdpfam.gcost_ref(pts, red, cfg['cost'])
            if conclusive and abs(vr - cfg['t']) > 1e-6 * (abs(vr) + abs(cfg['t'])) + 1e-12:
                if accepting(cfg['cost'], vr, cfg['t']) != acc:
                    ctx.fail('predicate', 'accepting-side-of-t-by-the-definition-of-the-global-cost', site, case,
                             dict(k=k, S_k=red, global_cost_definition=vr, global_cost_package=v, t=cfg['t']))
            elif not conclusive:
                ctx.tag('global-cost-reference-inconclusive(near-zero y)')
        if acc:
            return k, red, ties
    return n, list(range(n)), ties


@core.safe_case
def one(ctx, which, pts, cfg, family):
    import kneeliverse.rdp as rdp
    res = rdpfam.run_case(ctx, which, pts, cfg, family)
    n = len(pts)
    real = res and res.get('real')
    nontriv = None
    if real and not rdpfam.wf_failures(n, real['reduced'], real['removed']):
        tb = rdpfam.tables()
        _, dist_enum, _, cost_enum, order_enum = tb
        try:
            if which in ('grdp', 'mp_grdp'):
                kstar, Sk, ties = first_accepting(pts, cfg, tb, ctx, res['site'], res['case'])
                if ties:
                    ctx.tag('tie:global-cost==t')
                if which == 'grdp':
                    want, clause = Sk, 'grdp-is-first-accepting-member'
                else:
                    kk = max(kstar, min(cfg['m'], n))
                    w, _ = rdp.rdp_fixed(pts, length=kk, distance=dist_enum[cfg['dist']], order=order_enum[cfg['order']])
                    want, clause = [int(i) for i in w], 'mp-is-S_max(kstar,min(m,n))'
                if kstar > 2:
                    nontriv = (which, str(sorted(cfg.items())), pts.tobytes())
            else:
                cands = []
                for t in cfg['ts']:
                    g, _ = rdp.grdp(pts, t=t)
                    if len(g) >= cfg['m']:
                        cands.append((t, [int(i) for i in g]))
                if cands:
                    want = max(cands, key=lambda c: c[0])[1]
                    clause = 'multi-threshold-is-grdp-of-largest-threshold-with-m-points'
                else:
                    w, _ = rdp.rdp_fixed(pts, cfg['m'])
                    want, clause = [int(i) for i in w], 'multi-threshold-falls-back-to-fixed-m'
                    ctx.tag('minpoint-fallback')
                if len(want) > 2:
                    nontriv = (which, str(sorted(cfg.items(), key=str)), pts.tobytes())
            if real['reduced'] != want:
                ctx.fail('predicate', clause, res['site'], res['case'], dict(impl=real['reduced'], expected=want))
        except Exception as e:
            ctx.tag('predicate-reference-raised(C01/C05 territory)')
    ctx.count(family + ':' + which, n=n, nontrivial_key=nontriv, sample=dict(function=which, config=cfg, points=pts.tolist(), reduced=real and real['reduced']))


def rand_cfg(ctx, which, pts):
    rng = ctx.rng
    n = len(pts)
    if which == 'min_point_rdp':
        # 0..3 thresholds (the empty list falls back to the fixed-size result), also values no refinement can meet and exact ties with observed global costs
        pool = [0.5, 0.2, 0.1, 0.05, 0.01, 0.001, 0.0001, 1e-12, 2.0]
        if rng.random() < 0.4:
            pool = pool + [abs(float(rdpfam.tie_threshold(rng, pts, 'smape', 'grdp')[0])) or 0.01 for _ in range(3)]
        return dict(m=rng.randrange(0, n + 2), ts=[rng.choice(pool) for _ in range(rng.randrange(0, 4))])
    cfg = dict(dist=rng.choice(rdpfam.DISTS), cost=rng.choice(rdpfam.COSTS), order=rng.choice(rdpfam.ORDERS))
    t, tie = rdpfam.tie_threshold(rng, pts, cfg['cost'], which)
    if cfg['cost'] == 'r2':
        t = min(t, 1.0)
    elif t <= 0:
        t = 0.01
    if rng.random() < 0.08:
        # a threshold no refinement can meet: the result must be ALL points
        t = 1.0 if cfg['cost'] == 'r2' else 1e-13
    cfg['t'] = float(t)
    if which == 'mp_grdp':
        cfg['m'] = rng.randrange(0, n + 2)
    return cfg


def run(ctx):
    rng = ctx.rng
    quick = ctx.tier == 'quick'
    one(ctx, 'mp_grdp', np.array([[0, 0], [1, 9], [3, 27]], float), dict(t=0.01, m=3, dist='shortest', cost='smape', order='segment'), 'corpus')
    one(ctx, 'min_point_rdp', np.array([[0, 4], [1, 1], [2, 0.5], [3, 0.25], [5, 0]], float), dict(m=4, ts=[0.001, 0.1]), 'corpus')
    for pts in gen.exhaustive_small(4):
        if rng.random() < (0.3 if quick else 1.0):
            w = rng.choice(['grdp', 'mp_grdp', 'min_point_rdp'])
            one(ctx, w, pts, rand_cfg(ctx, w, pts), 'exhaustive-small')
    for _ in range(2 if quick else 20):
        # a LONG curve (beyond 1024 / 4096 points) with a threshold met after a few dozen refinements
        pts, fam = rdpfam.long_curve(rng, rng.randrange(1100, 1400))
        w = rng.choice(['grdp', 'mp_grdp'])
        cfg = dict(dist=rng.choice(rdpfam.DISTS), cost=rng.choice(['smape', 'rpd', 'rmspe']), order=rng.choice(rdpfam.ORDERS), t=rng.choice([0.3, 0.5, 0.2]))
        if w == 'mp_grdp':
            cfg['m'] = rng.randrange(2, 40)
        one(ctx, w, pts, cfg, fam)
    for _ in range(80 if quick else 1500):
        # the global cost is NOT monotone along the refinement sequence on noisy curves: a small size request m just above the first accepted
        # size (threshold = the global cost of some early S_k) separates "first accepted, then topped up" from any other order of the two phases
        pts, fam = gen.dyadic_curve(rng, rng.randrange(8, 24), rng.choice(['walk', 'noisyline', 'steps', 'missratio']), scale_exp=0)
        if np.ptp(pts[:, 1]) == 0:
            continue
        cfg = rand_cfg(ctx, 'mp_grdp', pts)
        cfg['cost'] = rng.choice(['smape', 'rpd', 'rmspe', 'smape'])
        t, _tie = rdpfam.tie_threshold(rng, pts, cfg['cost'], 'mp_grdp')
        cfg['t'] = float(t) if t > 0 else 0.05
        cfg['m'] = rng.randrange(3, 8)
        # where the curve offers one, a threshold strictly between the global costs of an earlier S_k (accepted) and a later S_m (rejected again)
        try:
            import kneeliverse.rdp as rdp_, kneeliverse.evaluation as ev_
            tb = rdpfam.tables()
            gs = []
            for k_ in range(2, min(len(pts), 10) + 1):
                red_, _ = rdp_.rdp_fixed(pts, length=k_, distance=tb[1][cfg['dist']], order=tb[4][cfg['order']])
                gs.append(float(ev_.compute_global_cost(pts, [int(i) for i in red_], tb[3][cfg['cost']], {})))
            pairs_ = [(a, b) for a in range(len(gs)) for b in range(a + 1, len(gs)) if gs[b] > gs[a] * (1 + 1e-6) and gs[a] > 0]
            if pairs_:
                a, b = rng.choice(pairs_)
                cfg['t'], cfg['m'] = (gs[a] + gs[b]) / 2.0, b + 2
                fam += ':non-monotone-cost'
        except Exception:
            pass
        one(ctx, 'mp_grdp', pts, cfg, fam + ':small-m')
    for _ in range(450 if quick else 9000):
        pts, fam = rdpfam.random_points(ctx, 24 if quick else 64)
        w = rng.choice(['grdp', 'grdp', 'mp_grdp', 'mp_grdp', 'min_point_rdp'])
        one(ctx, w, pts, rand_cfg(ctx, w, pts), fam)


def replay(ctx, body):
    c = body['case']
    one(ctx, c['function'], np.array(c['points'], float), c['config'], 'replay')

"""C18 — convex-hull routines return the true hull."""
import itertools
from fractions import Fraction as F
import numpy as np
from .. import core, gen

PROP_FILE = 'Knee/Props/C18.lean'
PROP_FILES = ['Knee/Props/C18.lean', 'Knee/Props/C18G.lean', 'Knee/Props/C18H.lean', 'Knee/Props/C18U.lean', 'Knee/Props/Invariance.lean']
RULE = ('x-sorted curves on integer/dyadic grids (orientation signs are exact in float64 there): general position, collinear runs, fully collinear, '
        'plateaus, n>=2; planar point sets of >= 3 distinct points (general position and degenerate). Exact comparison of graham_scan_lower/upper/graham_scan '
        'with the Lean model, plus the brute-force specification evaluated on the REAL output (chain from 0 to n-1, strict turns, every point on the right side; '
        'graham: contains every extreme vertex, only boundary points, exactly the vertex set in clockwise order from the lowest-leftmost point when no three '
        'points are collinear). non-trivial = hull with >= 3 vertices and at least one dropped point; new input')
ASSUMPTIONS = ['coordinates representable with few bits so that the float orientation test is exact; distinct points for graham_scan']


def ccw(a, b, c):
    return (b[0] - a[0]) * (c[1] - a[1]) - (c[0] - a[0]) * (b[1] - a[1])


def brute_lower(P):
    """indices of the strict lower hull of an x-sorted point list (exact arithmetic)"""
    n = len(P)
    out = [0]
    while out[-1] != n - 1:
        a = out[-1]
        best = None
        for j in range(a + 1, n):
            if all(ccw(P[a], P[j], P[k]) >= 0 for k in range(n)):
                # farthest such j on the supporting line keeps turns strict
                best = j
        out.append(best)
    return out


@core.safe_case
def chain(ctx, pts, family, int_dtype=None):
    import kneeliverse.convex_hull as ch
    n = len(pts)
    d = ctx.get_driver()
    a_ = np.asarray(pts, float)
    # int64 delivery where every orientation product of two coordinate differences stays below 2^62 (the package's integer cross product is then exact)
    isint = bool(int_dtype) if int_dtype is not None else bool(a_.size and np.all(a_ == np.floor(a_)) and float(np.ptp(a_[:, 0])) * float(np.ptp(a_[:, 1])) < 2.0 ** 61
                                                              and float(np.max(np.abs(a_))) < 2.0 ** 52 and ctx.rng.random() < 0.35)
    pin = a_.astype(np.int64) if isint else pts
    if isint:
        ctx.tag('input:int64-dtype')
    case = dict(points=pts.tolist(), int_dtype=isint)
    Pq = [(F(float(a)), F(float(b))) for a, b in pts]
    for which, fn, sign in (('lower', ch.graham_scan_lower, 1), ('upper', ch.graham_scan_upper, -1)):
        site = f'convex_hull.graham_scan_{which}'
        try:
            H = [int(v) for v in np.asarray(fn(pin)).tolist()]
        except Exception as e:
            ctx.fail('predicate', 'completes', site, case, repr(e)[:200])
            continue
        m = core.parse_nats(d.call('hull', [which, core.rats(pts[:, 0]), core.rats(pts[:, 1])])[0])
        ctx.corr_checked += 1
        if m != H:
            ctx.fail('correspondence', f'hull{which.capitalize()}', site, case, dict(impl=H, model=m))
        Q = Pq if sign == 1 else [(a, -b) for a, b in Pq]
        ok = H and H[0] == 0 and H[-1] == n - 1 and all(a < b for a, b in zip(H, H[1:]))
        if not ok:
            ctx.fail('predicate', 'strictly-increasing-chain-from-0-to-n-1', site, case, dict(hull=H))
            continue
        if any(ccw(Q[a], Q[b], Q[c]) <= 0 for a, b, c in zip(H, H[1:], H[2:])):
            ctx.fail('predicate', 'consecutive-edges-turn-strictly', site, case, dict(hull=H))
        elif any(ccw(Q[a], Q[b], Q[k]) < 0 for a, b in zip(H, H[1:]) for k in range(n)):
            ctx.fail('predicate', 'every-point-on-the-right-side-of-the-chain', site, case, dict(hull=H))
        elif n <= 200 and H != brute_lower(Q):       # (cubic) - beyond 200 points the three clauses above decide it: such a chain is unique (Props/C18U hullLower_iff)
            ctx.fail('predicate', 'equals-brute-force-hull-chain', site, case, dict(hull=H, brute=brute_lower(Q)))
    try:
        lo = [int(v) for v in np.asarray(ch.graham_scan_lower(pts)).tolist()]
    except Exception:
        lo = []
    ctx.count(family, n=n, nontrivial_key=pts.tobytes() if 3 <= len(lo) < n else None, sample=dict(points=pts.tolist()[:10], lower=lo))


def hull_spec(P):
    """(extreme vertices set, boundary point set) of distinct exact points"""
    n = len(P)
    idx = range(n)
    allcol = all(ccw(P[0], P[1], P[k]) == 0 for k in idx) if n >= 2 else True
    if allcol:
        o = sorted(idx, key=lambda i: P[i])
        return {o[0], o[-1]}, set(idx), True
    boundary, extreme = set(), set()
    for i in idx:
        for j in idx:
            if i != j and all(ccw(P[i], P[j], P[k]) <= 0 for k in idx):   # everything on the right of i->j: hull edge line (clockwise)
                on = [k for k in idx if ccw(P[i], P[j], P[k]) == 0]
                boundary.update(on)
                o = sorted(on, key=lambda k: P[k])
                extreme.update([o[0], o[-1]])
    return extreme, boundary, False


@core.safe_case
def graham(ctx, pts, family, int_dtype=None):
    import kneeliverse.convex_hull as ch
    n = len(pts)
    d = ctx.get_driver()
    a_ = np.asarray(pts, float)
    # int64 delivery where every orientation product of two coordinate differences stays below 2^62 (the package's integer cross product is then exact)
    isint = bool(int_dtype) if int_dtype is not None else bool(a_.size and np.all(a_ == np.floor(a_)) and float(np.ptp(a_[:, 0])) * float(np.ptp(a_[:, 1])) < 2.0 ** 61
                                                              and float(np.max(np.abs(a_))) < 2.0 ** 52 and ctx.rng.random() < 0.35)
    pin = a_.astype(np.int64) if isint else pts
    if isint:
        ctx.tag('input:int64-dtype')
    case = dict(points=pts.tolist(), int_dtype=isint)
    site = 'convex_hull.graham_scan'
    try:
        H = [int(v) for v in np.asarray(ch.graham_scan(pin)).tolist()]
    except Exception as e:
        ctx.fail('predicate', 'completes', site, case, repr(e)[:200])
        ctx.count(family, n=n)
        return
    m = core.parse_nats(d.call('hull', ['graham', core.rats(pts[:, 0]), core.rats(pts[:, 1])])[0])
    ctx.corr_checked += 1
    if m != H:
        ctx.fail('correspondence', 'grahamScan', site, case, dict(impl=H, model=m))
    P = [(F(float(a)), F(float(b))) for a, b in pts]
    extreme, boundary, allcol = hull_spec(P)
    if not extreme <= set(H):
        ctx.fail('predicate', 'includes-every-extreme-vertex', site, case, dict(hull=H, missing=sorted(extreme - set(H))))
    elif not set(H) <= boundary:
        ctx.fail('predicate', 'only-boundary-points', site, case, dict(hull=H, interior=sorted(set(H) - boundary)))
    elif len(set(H)) != len(H):
        ctx.fail('predicate', 'no-duplicates', site, case, dict(hull=H))
    general = not any(ccw(P[i], P[j], P[k]) == 0 for i, j, k in itertools.combinations(range(n), 3))
    if general and not allcol:
        ctx.tag('general-position')
        p0 = min(range(n), key=lambda i: P[i])
        okset = set(H) == extreme
        okorder = bool(H) and H[0] == p0 and all(ccw(P[a], P[b], P[c]) < 0 for a, b, c in zip(H, H[1:] + H[:1], H[2:] + H[:2])) if len(H) >= 3 else False
        if not (okset and okorder):
            ctx.fail('predicate', 'exactly-the-vertex-set-clockwise-from-lowest-leftmost', site, case, dict(hull=H, vertices=sorted(extreme), pivot=p0))
    else:
        ctx.tag('degenerate(collinear triples)')
    ctx.count(family, n=n, nontrivial_key=pts.tobytes() if 3 <= len(H) < n else None, sample=dict(points=pts.tolist(), hull=H))


def run(ctx):
    rng = ctx.rng
    quick = ctx.tier == 'quick'
    chain(ctx, np.array([[0, 0], [1, 1], [2, 2], [3, 3]], float), 'corpus-collinear')
    graham(ctx, np.array([[0, 0], [1, 1], [2, 2], [3, 3]], float), 'corpus-collinear')
    for pts in gen.exhaustive_small(4 if quick else 5):
        if rng.random() < (0.3 if quick else 1):
            chain(ctx, pts, 'exhaustive-small')
    for _ in range(500 if quick else 10000):
        n = rng.randrange(2, 30)
        pts, fam = gen.dyadic_curve(rng, n, rng.choice(['walk', 'plateau', 'collinear0', 'vshape', 'convex', 'concave', 'steps', 'elbows']), scale_exp=0)
        if fam == 'collinear0':
            pts[:, 1] = np.round(pts[:, 1] * 4) / 4
        # magnitude variants: the orientation test must stay exact at a large common offset (timestamps) and at tiny scale
        pts, vt = gen.magnitude(rng, pts, 0.3, ('xoff50', 'xoff50', 'xoff30', 'xyoff30', 'xytiny30', 'yoff30'))
        if vt == '@xoff50' and rng.random() < 0.5:
            pts = pts.copy()
            pts[:, 1] = np.round(pts[:, 1]) * rng.choice([1.0, 64.0, 4096.0])      # steep integer heights over timestamp-like x
            vt += '-steep'
        chain(ctx, pts, fam + vt)
        if rng.random() < 0.05:
            # needle curve: consecutive directions differ by cross products of +-1..3 between vectors of length ~2^30..2^40
            M_ = float(2 ** rng.choice([27, 30, 34, 40]) * rng.choice([1, -1]))
            xs = np.cumsum([rng.choice([1, 1, 2]) for _ in range(rng.randrange(3, 12))]).astype(float)
            chain(ctx, np.column_stack([xs, xs * M_ + np.array([rng.choice([-1.0, 0.0, 0.0, 1.0, 2.0]) for _ in xs])]), 'needle-curve')
    for _ in range(2 if quick else 24):
        # LONG curves (beyond 1024 / 4096 points): chunked or strided scans show at a chunk boundary
        n = rng.choice([rng.randrange(1100, 1600), rng.randrange(4097, 4400)])
        xs = np.cumsum([rng.choice([1, 1, 2]) for _ in range(n)]).astype(float)
        ys = np.round(4096.0 * np.exp(-0.002 * np.arange(n))) / 4.0 + np.array([rng.randrange(0, 64) / 4.0 for _ in range(n)])
        chain(ctx, np.column_stack([xs, ys]), 'long-noisy-decay', False)
    for _ in range(400 if quick else 8000):
        k = rng.randrange(3, 10)
        lim = rng.choice([2, 3, 5, 50])
        S = set()
        while len(S) < k:
            S.add((rng.randrange(-lim, lim + 1), rng.randrange(-lim, lim + 1)))
        L = list(S)
        rng.shuffle(L)
        if rng.random() < 0.3:
            # several points on each of a few RAYS from the lowest-leftmost point (every slope sign, the vertical included): the angular
            # sort's tie-break (nearer first) and the collinear pops decide the result here
            dirs = rng.sample([(0, 1), (1, 2), (1, 1), (2, 1), (1, 0), (2, -1), (1, -1), (1, -2), (0, -1)][:8], rng.randrange(2, 5))
            S = {(0, 0)}
            for dx_, dy_ in dirs:
                for m_ in rng.sample(range(1, 6), rng.randrange(2, 5)):
                    S.add((dx_ * m_, dy_ * m_))
            for _e in range(rng.randrange(0, 3)):
                S.add((rng.randrange(1, 6), rng.randrange(-5, 6)))
            # the pivot is the lexicographic minimum: shift so that (0,0) is it (all other points have x >= 0; those with x == 0 must lie above)
            S = {(a_, b_) for a_, b_ in S if a_ > 0 or (a_ == 0 and b_ >= 0)}
            L = list(S)
            rng.shuffle(L)
            if len(L) < 3:
                continue
            lim = 'rays'
        if rng.random() < 0.06:
            # ALL points on one line (vertical, horizontal or slanted), shuffled: the hull is a segment
            dx_, dy_ = rng.choice([(0, 1), (1, 0), (1, 1), (2, -1), (1, 3)])
            L = [(dx_ * m_, dy_ * m_) for m_ in rng.sample(range(-6, 7), rng.randrange(3, 9))]
            rng.shuffle(L)
            lim = 'collinear-all'
        if rng.random() < 0.08:
            # NEEDLE: directions from the pivot that differ by far less than float resolution of an angle (cross products of +-1..3 between
            # vectors of length ~2^27..2^40) - the orientation test is exact on these integers, any angle / slope / normalised surrogate is not
            M_ = 2 ** rng.choice([27, 30, 34, 40]) + rng.choice([0, 1, 3])
            S = {(0, 0)}
            for k_ in rng.sample(range(1, 7), rng.randrange(2, 6)):
                S.add((k_, k_ * M_ + rng.choice([-1, 0, 0, 1, 2])))
            if rng.random() < 0.6:
                S.add((rng.randrange(3, 9), 0))
            if rng.random() < 0.4:
                S.add((rng.randrange(1, 5), rng.randrange(1, 50)))
            L = [(b_, a_) for a_, b_ in S] if rng.random() < 0.3 else list(S)
            rng.shuffle(L)
            if len(L) < 3:
                continue
            lim = 'needle'
        P_ = np.array(L, float)
        u = rng.random()
        tag = ''
        if lim == 'needle':
            u = 1.0                       # no further offset: the coordinates are at the edge of exact representability already
        if u < 0.1:
            P_, tag = P_ + 2.0 ** 30, '@off30'
        elif u < 0.2:
            P_, tag = P_ + np.array([2.0 ** 50, 0.0]), '@xoff50'
        elif u < 0.28:
            P_, tag = P_ * 2.0 ** -30, '@tiny30'
        graham(ctx, P_, f'pointset-lim{lim}{tag}')


def replay(ctx, body):
    c = body['case']
    pts = np.array(c['points'], float)
    if body.get('site', '').endswith('graham_scan'):
        graham(ctx, pts, 'replay', bool(c.get('int_dtype', False)))
    else:
        chain(ctx, pts, 'replay', bool(c.get('int_dtype', False)))

"""C03 — every single-knee detector finds the corner of an exact two-slope elbow."""
import numpy as np
from fractions import Fraction as F
from .. import core, gen, detfam

PROP_FILE = 'Knee/Props/C03.lean'
PROP_FILES = ['Knee/Props/C03.lean', 'Knee/Props/C03A.lean', 'Knee/Props/C03B.lean', 'Knee/Props/C03D.lean']
RULE = ('exact two-arm elbows: arm lengths 3..64 segments (quick) / ..1500 (thorough), integer x spacings from {1,2,3,4}, ordered pairs of distinct slopes j/8 with |j|<=64, '
        'dyadic offsets up to 2^12, every orientation (convex/concave, rising/falling, V). Every detector (curvature, DFDT, Menger, L-method with every Fit x Cost x Refinement '
        'x limit 4..16, Kneedle t=0 on monotone elbows) must return the corner index; the exact-Q model detectors (Layer S over Layer N criteria) must return it too, and their '
        'criterion arrays are compared with the package\'s (tolerance). non-trivial = always (each elbow is a distinct input); (detector, options, elbow) new')
ASSUMPTIONS = ['coordinates are exactly representable (slopes are multiples of 1/8, integer spacings, dyadic offsets), so the float criteria are exact or within a few ulp']


def elbow(rng, amax, lopsided=False):
    a, b = rng.randrange(3, amax + 1), rng.randrange(3, amax + 1)
    if rng.random() < 0.25:
        a = rng.choice([3, 4])
    if rng.random() < 0.25:
        b = rng.choice([3, 4])
    if lopsided:
        # a LONG arm against a shortest one: the short arm contributes ~1 % of the samples (anything that trims, sub-samples or
        # thins out long inputs loses it)
        a, b = rng.choice([3, 4, 5]), rng.randrange(100, 520)
        if rng.random() < 0.5:
            a, b = b, a
    gaps = [rng.choice([1, 2, 3, 4]) for _ in range(a + b)] if rng.random() < 0.7 else [rng.choice([1, 2, 3, 4])] * (a + b)
    # offsets are any exactly representable numbers: also far larger than the elbow's own extent (2^22, 2^30)
    x = [float(rng.choice([0, 1, 5, 1024, 0, 1, 5, 1024, 2 ** 22, 2 ** 30]))]
    for g in gaps:
        x.append(x[-1] + g)
    j1 = rng.randrange(-64, 65)
    j2 = rng.choice([j for j in range(-64, 65) if j != j1])
    if rng.random() < 0.3:
        # integer slopes: the whole elbow is integral and is then also delivered as an int64 array (see `one`)
        j1 = 8 * rng.randrange(-8, 9)
        j2 = 8 * rng.choice([j for j in range(-8, 9) if 8 * j != j1])
    s1, s2 = j1 / 8.0, j2 / 8.0
    y0 = rng.choice([0.0, 1.0, 0.5, 37.25, 4096.0, 100.0, 0.0, 1.0, 0.5, 37.25, 4096.0, 100.0, 2.0 ** 22, -2.0 ** 22, 2.0 ** 30])
    c = a
    y = [y0 + s1 * (xi - x[0]) for xi in x[:c + 1]]
    y += [y[c] + s2 * (xi - x[c]) for xi in x[c + 1:]]
    return np.array(list(zip(x, y)), float), c, (j1, j2)


@core.safe_case
def one(ctx, pts, c, slopes, kind, opts, family):
    n = len(pts)
    case = dict(points=pts.tolist() if n <= 60 else dict(n=n, head=pts[:4].tolist(), corner=pts[c].tolist(), tail=pts[-3:].tolist()),
                corner=c, slopes_eighths=list(slopes), detector=kind, options=opts)
    site = f'{kind}.knee' + (f"[{opts.get('fit')},{opts.get('mode')},limit={opts.get('limit')}]" if kind == 'lmethod' else '')
    if 'int_dtype' not in opts:
        # an integral elbow is the same elbow as an int64 array (raw counts): delivered so in about a third of the integral cases
        a_ = np.asarray(pts, float)
        opts = dict(opts, int_dtype=bool(np.all(a_ == np.floor(a_)) and np.max(np.abs(a_)) < 2 ** 40 and ctx.rng.random() < 0.35))
    if opts['int_dtype']:
        ctx.tag('input:int64-dtype')
        case['options'] = opts
    try:
        if kind == 'lmethod_get_knee':
            if opts['int_dtype']:
                pts = pts.astype(np.int64)
            import kneeliverse.lmethod as lm
            fit = {'pointfit': lm.Fit.point_fit, 'bestfit': lm.Fit.best_fit}[opts['fit']]
            cost = {'rmse': lm.Cost.rmse, 'rss': lm.Cost.rss}[opts['cost']]
            real = int(lm.get_knee(pts[:, 0], pts[:, 1], fit, cost)[0])
            site = f"lmethod.get_knee[{opts['fit']},{opts['cost']}]"
        else:
            real, _ = detfam.real_knee(kind, pts, opts)
            real = None if real is None else int(real)
    except core.LoopBudgetExceeded as e:
        ctx.fail('predicate', 'terminates', site, case, str(e))
        return
    except Exception as e:
        ctx.fail('predicate', 'completes', site, case, repr(e)[:200])
        return
    if real != c:
        ctx.fail('predicate', 'returns-the-corner-index', site, case, dict(knee=real, corner=c))
    # model detectors fed with the package's criterion arrays (oracle) must agree as well
    if kind != 'lmethod_get_knee' and n <= 200:
        try:
            model, orc = detfam.model_knee(ctx, kind, pts, opts)
            if not orc.nonfinite:
                ctx.corr_checked += 1
                if model != real:
                    ctx.fail('correspondence', 'knee (oracle-fed model)', site, case, dict(impl=real, model=model))
        except Exception:
            ctx.tag('oracle-raised')
    # exact-Q model of the elbow theorem: criterion computed in Q from the coordinates
    if (kind in ('curvature', 'menger', 'kneedle') and n <= 120) or (kind == 'dfdt' and n <= 40) or (kind == 'lmethod' and n <= 48):
        d = ctx.get_driver()
        out = d.call('elbowQ', [kind, core.rats(pts[:, 0]), core.rats(pts[:, 1])])
        ctx.corr_checked += 1
        if out[0] != str(c):
            ctx.fail('correspondence', f'exact-Q {kind} detector on the elbow', site, case, dict(model=out[0], corner=c))
    ctx.count(family + ':' + kind, n=n, nontrivial_key=(kind, str(sorted(opts.items())), pts.tobytes()), sample=dict(detector=kind, options=opts, n=n, corner=c, slopes_eighths=list(slopes), knee=real))


@core.safe_case
def gradients(ctx, pts, family):
    """Layer N: exact-Q three-point derivatives vs uts.gradient.cfd / csd"""
    import uts.gradient as grad
    d = ctx.get_driver()
    x, y = pts[:, 0], pts[:, 1]
    g1, g2 = grad.cfd(x, y), grad.csd(x, y)
    out = d.call('gradQ', [core.rats(x), core.rats(y)])
    q1, q2 = core.parse_rats(out[0]), core.parse_rats(out[1])
    ctx.corr_checked += 1
    sc = float(np.max(np.abs(y))) + 1.0
    for i in range(len(x)):
        if abs(F(float(g1[i])) - q1[i]) > F(1, 10 ** 9) * (abs(q1[i]) + F(sc)) or abs(F(float(g2[i])) - q2[i]) > F(1, 10 ** 9) * (abs(q2[i]) + F(sc)):
            ctx.fail('correspondence', 'cfdQ/csdQ vs uts.gradient', 'uts.gradient.cfd/csd', dict(points=pts.tolist()), dict(i=i, cfd=[float(g1[i]), float(q1[i])], csd=[float(g2[i]), float(q2[i])]))
            break
    ctx.count(family + ':gradients', n=len(x), nontrivial_key=('grad', pts.tobytes()), sample=dict(n=len(x), cfd0=float(g1[0])))


def run(ctx):
    rng = ctx.rng
    quick = ctx.tier == 'quick'
    for _ in range(60 if quick else 1500):
        pts, fam = gen.dyadic_curve(rng, rng.randrange(3, 40), scale_exp=0)
        gradients(ctx, pts, fam)
    nl = 10 if quick else 150
    for it in range((260 if quick else 5000) + nl):
        if it < nl:
            pts, c, sl = elbow(rng, 64, lopsided=True)
        else:
            pts, c, sl = elbow(rng, 64 if quick else (1500 if rng.random() < 0.02 else 200))
        s1, s2 = sl
        mono = (s1 >= 0 and s2 >= 0) or (s1 <= 0 and s2 <= 0)
        fam = ('convex' if s2 > s1 else 'concave') + ('-V' if s1 * s2 < 0 else ('-rising' if s1 + s2 > 0 else '-falling')) + ('@lopsided-long' if it < nl else '')
        one(ctx, pts, c, sl, 'curvature', {}, fam)
        one(ctx, pts, c, sl, 'menger', {}, fam)
        one(ctx, pts, c, sl, 'dfdt', {}, fam)
        one(ctx, pts, c, sl, 'lmethod', dict(fit=rng.choice(['pointfit', 'bestfit']), mode=rng.choice(['none', 'original', 'adjusted']), limit=rng.randrange(4, 17)), fam)
        one(ctx, pts, c, sl, 'lmethod_get_knee', dict(fit=rng.choice(['pointfit', 'bestfit']), cost=rng.choice(['rmse', 'rss'])), fam)
        if mono and s1 != 0 and s2 != 0 or (mono and (s1 != 0 or s2 != 0)):
            one(ctx, pts, c, sl, 'kneedle', dict(kneedle_t=0.0), fam)


def replay(ctx, body):
    c = body['case']
    if isinstance(c.get('points'), list):
        one(ctx, np.array(c['points'], float), c['corner'], c['slopes_eighths'], c['detector'], c['options'], 'replay')

"""C16 — regression metrics and linear-fit helpers equal their mathematical definitions."""
import math
from fractions import Fraction as F
import numpy as np
from .. import core

PROP_FILE = 'Knee/Props/C16.lean'
PROP_FILES = ['Knee/Props/C16.lean', 'Knee/Props/C16S.lean', 'Knee/Props/Invariance.lean']
RULE = ('vector pairs y != y_hat (the existing tests only compare a vector with itself), lengths 1..64, dyadic values (few significant bits, so the '
        'float result is within 1e-13 of the exact value), zeros (eps guard), constant y (tss = 0 branch), both R2 variants. The exact-Q model value is '
        'compared with the float result under |f - q| <= 1e-9*(|q| + S) (S = cancellation scale); squares are compared for rooted metrics; log values '
        'for RMSLE are supplied from np.log. Bit-wise predicates on the REAL code: symmetry, non-negativity, zero at y = y_hat, smape <= 2, R2 <= 1, '
        'wrappers == metrics(y, m*x+b), endpoint fit through first/last point, best-fit R2 == squared Pearson correlation. '
        'non-trivial = y != y_hat and length >= 2; (metric, y, y_hat) new')
ASSUMPTIONS = ['y, y_hat >= 0 where logarithms or one-sided ratios require it (RMSLE, RMSPE, RPD); residuals, RMSE, SMAPE and R2 are also run on signed vectors; finite entries; length >= 3 for adjusted R2']


def close(f, q, scale):
    f = float(f)
    if math.isnan(f) or math.isinf(f):
        return False
    return abs(F(f) - q) <= F(1, 10 ** 9) * (abs(q) + F(scale)) + F(1, 10 ** 300)


def vec(rng, n, kind):
    q = 2.0 ** -rng.choice([0, 1, 2, 4])
    if kind == 'const':
        c = rng.randrange(0, 40) * q
        return np.array([c] * n)
    v = [rng.randrange(0, 200) * q for _ in range(n)]
    if kind == 'zeros':
        for i in range(n):
            if rng.random() < 0.4:
                v[i] = 0.0
    return np.array(v, dtype=float)


@core.safe_case
def one_signed(ctx, y, yh, family):
    """vectors with NEGATIVE entries: residuals, RMSE, SMAPE (|y| + |y_hat| in the denominator) and R2 are defined for all reals
    (only logarithms and the one-sided ratios of RMSPE / RPD need y, y_hat >= 0)."""
    import kneeliverse.metrics as M
    n = len(y)
    d = ctx.get_driver()
    case = dict(y=y.tolist(), y_hat=yh.tolist(), x=list(range(n)), signed=True)
    ys, yhs = core.rats(y), core.rats(yh)
    checks = [('rss', float(M.residuals(y, yh)), 'metrics.residuals', 1), ('mse', float(M.rmse(y, yh)) ** 2, 'metrics.rmse', 1),
              ('smape', float(M.smape(y, yh)), 'metrics.smape', 1), ('r2', float(M.r2(y, yh)), 'metrics.r2', None)]
    if n >= 3:
        checks.append(('r2adj', float(M.r2(y, yh, M.R2.adjusted)), 'metrics.r2[adjusted]', None))
    for name, fval, site, sc in checks:
        q = F(d.call('metric', [name, ys, yhs])[0])
        ctx.corr_checked += 1
        scale = abs(q) + 2 if sc is None else sc
        if not close(fval, q, scale):
            ctx.fail('predicate', f'{name}-equals-its-definition(to within rounding)', site, case, dict(impl=fval, model=str(q), model_float=float(q)))
    for nm, f in (('rmse', M.rmse), ('smape', M.smape), ('residuals', M.residuals)):
        a, b = float(f(y, yh)), float(f(yh, y))
        if a != b:
            ctx.fail('predicate', f'{nm}-symmetric', f'metrics.{nm}', case, dict(a=a, b=b))
        if not (a >= 0):
            ctx.fail('predicate', f'{nm}>=0', f'metrics.{nm}', case, dict(value=a))
        z = float(f(y, y.copy()))
        if z != 0.0:
            ctx.fail('predicate', f'{nm}(y,y)==0', f'metrics.{nm}', case, dict(value=z))
    if float(M.smape(y, yh)) > 2.0:
        ctx.fail('predicate', 'smape<=2', 'metrics.smape', case, dict(value=float(M.smape(y, yh))))
    if float(M.r2(y, yh)) > 1.0:
        ctx.fail('predicate', 'r2<=1', 'metrics.r2', case, dict(value=float(M.r2(y, yh))))
    ctx.count(family, n=n, nontrivial_key=(y.tobytes(), yh.tobytes()) if n >= 2 and not np.array_equal(y, yh) else None,
              sample=dict(y=y.tolist()[:8], y_hat=yh.tolist()[:8], smape=float(M.smape(y, yh))))


@core.safe_case
def one(ctx, y, yh, x, family):
    import kneeliverse.metrics as M
    import kneeliverse.linear_fit as lf
    n = len(y)
    d = ctx.get_driver()
    case = dict(y=y.tolist(), y_hat=yh.tolist(), x=x.tolist())
    ys, yhs = core.rats(y), core.rats(yh)

    def model(name, a=ys, b=yhs):
        return F(d.call('metric', [name, a, b])[0])
    checks = [
        ('rss', float(M.residuals(y, yh)), 'metrics.residuals', lambda v: v, 1),
        ('mse', float(M.rmse(y, yh)) ** 2, 'metrics.rmse', None, 1),
        ('rmspeSq', float(M.rmspe(y, yh)) ** 2, 'metrics.rmspe', None, 1),
        ('rpd', float(M.rpd(y, yh)), 'metrics.rpd', None, 1),
        ('smape', float(M.smape(y, yh)), 'metrics.smape', None, 1),
        ('r2', float(M.r2(y, yh)), 'metrics.r2', None, None),
    ]
    if n >= 3:
        checks.append(('r2adj', float(M.r2(y, yh, M.R2.adjusted)), 'metrics.r2[adjusted]', None, None))
    mag2 = float(max(np.max(np.abs(y)), np.max(np.abs(yh)), 1e-300)) ** 2 if n else 1.0
    for name, fval, site, _, sc in checks:
        q = model(name)
        ctx.corr_checked += 1
        scale = abs(q) + 1 if sc is None else sc
        if name in ('rss', 'mse'):
            scale = mag2 * max(n, 1)        # dimensional quantities: rounding scale is the squared magnitude of the data, not 1
        if name in ('r2', 'r2adj'):
            scale = abs(q) + 2
            # a large common offset with a small swing: the float mean carries a rounding error delta ~ eps * |mean|, so the centred sum tss is
            # known only to within 2*sqrt(n*tss)*delta + n*delta^2; R2 = 1 - rss/tss inherits |1 - R2| times that relative error
            ymax_ = float(np.max(np.abs(y))) if n else 0.0
            tss_ = float(np.sum((y - np.mean(y)) ** 2)) if n else 0.0
            if tss_ > 0:
                delta_ = 8 * np.finfo(float).eps * ymax_
                rel_ = (2 * math.sqrt(n * tss_) * delta_ + n * delta_ * delta_) / tss_
                if rel_ > 0.05:
                    ctx.tag('r2:offset-noise-dominates-the-spread(inconclusive)')
                    continue
                scale = scale + F(1e9 * rel_) * abs(1 - q) * 2
        if not close(fval, q, scale):
            ctx.fail('predicate', f'{name}-equals-its-definition(to within rounding)', site, case, dict(impl=fval, model=str(q), model_float=float(q)))
    # rmsle through supplied logs
    ly, lyh = np.log(y + 1), np.log(yh + 1)
    q = F(d.call('metric', ['mse', core.rats(ly), core.rats(lyh)])[0])
    ctx.corr_checked += 1
    if not close(float(M.rmsle(y, yh)) ** 2, q, 1):
        ctx.fail('predicate', 'rmsle-equals-its-definition(to within rounding)', 'metrics.rmsle', case, dict(impl=float(M.rmsle(y, yh)) ** 2, model=float(q)))
    # ---- bit-wise predicates on the real code
    for nm, f in (('rmse', M.rmse), ('smape', M.smape), ('residuals', M.residuals)):
        a, b = float(f(y, yh)), float(f(yh, y))
        if a != b:
            ctx.fail('predicate', f'{nm}-symmetric', f'metrics.{nm}', case, dict(a=a, b=b))
    for nm, f in (('rmse', M.rmse), ('rmsle', M.rmsle), ('rmspe', M.rmspe), ('rpd', M.rpd), ('smape', M.smape), ('residuals', M.residuals)):
        v, z = float(f(y, yh)), float(f(y, y.copy()))
        if not (v >= 0):
            ctx.fail('predicate', f'{nm}>=0', f'metrics.{nm}', case, dict(value=v))
        if z != 0.0:
            ctx.fail('predicate', f'{nm}(y,y)==0', f'metrics.{nm}', case, dict(value=z))
    if float(M.smape(y, yh)) > 2.0:
        ctx.fail('predicate', 'smape<=2', 'metrics.smape', case, dict(value=float(M.smape(y, yh))))
    if float(M.r2(y, yh)) > 1.0:
        ctx.fail('predicate', 'r2<=1', 'metrics.r2', case, dict(value=float(M.r2(y, yh))))
    # ---- linear-fit helpers on the curve (x, y)
    if n >= 2:
        b, m = lf.linear_fit(x, y)
        qb, qm = [F(t) for t in d.call('metric', ['fit', core.rats(x), ys])]
        ctx.corr_checked += 1
        if not (close(b, qb, abs(qb) + abs(qm) * abs(F(float(x[0]))) + 1) and close(m, qm, 1)):
            ctx.fail('predicate', 'endpoint-fit-equals-its-definition', 'linear_fit.linear_fit', case, dict(impl=[float(b), float(m)], model=[float(qb), float(qm)]))
        coef = (b, m)
        yl = lf.linear_transform(x, coef)
        tol = 1e-9 * (abs(float(y[0])) + abs(float(y[-1])) + abs(m * x[0]) + abs(m * x[-1]) + 1e-300)
        if abs(yl[0] - y[0]) > tol or abs(yl[-1] - y[-1]) > tol:
            ctx.fail('predicate', 'endpoint-fit-passes-through-first-and-last', 'linear_fit.linear_fit', case, dict(line_ends=[float(yl[0]), float(yl[-1])]))
        # the same end-point fit with the ROLES SWAPPED (x as a function of y, as linear_hv_residuals / the vertical transform use it):
        # the abscissa is then unsorted or descending, and the line must still pass through the first and the last point
        if float(y[0]) != float(y[-1]):
            bs, ms = lf.linear_fit(y, x)
            qbs, qms = [F(t) for t in d.call('metric', ['fit', ys, core.rats(x)])]
            ctx.corr_checked += 1
            mag = abs(qbs) + abs(qms) * (abs(F(float(y[0]))) + abs(F(float(y[-1])))) + abs(F(float(x[0]))) + abs(F(float(x[-1]))) + F(1, 10 ** 300)
            if not (close(bs, qbs, mag) and close(ms, qms, abs(qms) + F(1, 10 ** 300))):
                ctx.fail('predicate', 'endpoint-fit-equals-its-definition(descending / unsorted abscissa)', 'linear_fit.linear_fit', dict(case, swapped=True), dict(impl=[float(bs), float(ms)], model=[float(qbs), float(qms)]))
            else:
                e0, e1 = abs(bs + ms * y[0] - x[0]), abs(bs + ms * y[-1] - x[-1])
                tol2 = 1e-9 * float(mag)
                if e0 > tol2 or e1 > tol2:
                    ctx.fail('predicate', 'endpoint-fit-passes-through-first-and-last(descending / unsorted abscissa)', 'linear_fit.linear_fit', dict(case, swapped=True), dict(miss=[float(e0), float(e1)]))
        pts = np.column_stack([x, y])
        # the wrappers with the curve's own end-point line AND with a line that does not fit it (end-point line of y_hat):
        # on a plateau the first has rss == 0, the second exercises the tss == 0 branch with rss != 0
        bo, mo = lf.linear_fit(x, yh) if n >= 2 else (b, m)
        for tagc, cf in (('', coef), ('other-line:', (bo, mo))):
            ylc = lf.linear_transform(x, cf)
            if tagc and (np.any(ylc < 0) or not np.all(np.isfinite(ylc))):
                continue
            pairs = [('smape', lf.smape_points(pts, cf), M.smape(y, ylc)), ('rpd', lf.rpd_points(pts, cf), M.rpd(y, ylc)),
                     ('rmspe', lf.rmspe_points(pts, cf), M.rmspe(y, ylc)), ('rmsle', lf.rmsle_points(pts, cf), M.rmsle(y, ylc)),
                     ('rmse', lf.rmse_points(pts, cf), M.rmse(y, ylc)), ('residuals', lf.linear_residuals_points(pts, cf), M.residuals(y, ylc)),
                     ('r2', lf.linear_r2_points(pts, cf), M.r2(y, ylc)),
                     ('r2[x,y]', lf.linear_r2(x, y, cf), M.r2(y, ylc)), ('rmse[x,y]', lf.rmse(x, y, cf), M.rmse(y, ylc)),
                     ('smape[x,y]', lf.smape(x, y, cf), M.smape(y, ylc)), ('rpd[x,y]', lf.rpd(x, y, cf), M.rpd(y, ylc)),
                     ('rmspe[x,y]', lf.rmspe(x, y, cf), M.rmspe(y, ylc)), ('rmsle[x,y]', lf.rmsle(x, y, cf), M.rmsle(y, ylc))]
            # the eps guard is a documented parameter of the ratio metrics and of their wrappers: a non-default value must reach the metric
            for e_ in (1e-3, 0.5):
                pairs += [(f'smape[eps={e_}]', lf.smape(x, y, cf, e_), M.smape(y, ylc, e_)), (f'smape_points[eps={e_}]', lf.smape_points(pts, cf, e_), M.smape(y, ylc, e_)),
                          (f'rpd[eps={e_}]', lf.rpd(x, y, cf, e_), M.rpd(y, ylc, e_)), (f'rpd_points[eps={e_}]', lf.rpd_points(pts, cf, e_), M.rpd(y, ylc, e_)),
                          (f'rmspe[eps={e_}]', lf.rmspe(x, y, cf, e_), M.rmspe(y, ylc, e_)), (f'rmspe_points[eps={e_}]', lf.rmspe_points(pts, cf, e_), M.rmspe(y, ylc, e_))]
            if not tagc:
                pairs.append(('fit_residuals', lf.linear_fit_residuals_points(pts), M.residuals(y, ylc)))
                pairs.append(('fit_residuals[x,y]', lf.linear_fit_residuals(x, y), M.residuals(y, ylc)))
                pairs.append(('linear_residuals[x,y]', lf.linear_residuals(x, y, cf), M.residuals(y, ylc)))
                # the remaining wrappers: the same line / transform through their *_points and (x, y) forms
                b_p, m_p = lf.linear_fit_points(pts)
                pairs += [('linear_fit_points.b', b_p, cf[0]), ('linear_fit_points.m', m_p, cf[1])]
                tp = np.asarray(lf.linear_transform_points(pts, cf), float)
                ft = np.asarray(lf.linear_fit_transform(x, y), float)
                ftp = np.asarray(lf.linear_fit_transform_points(pts), float)
                for nm_, arr_ in (('linear_transform_points', tp), ('linear_fit_transform', ft), ('linear_fit_transform_points', ftp)):
                    if arr_.shape != np.asarray(ylc).shape or not np.array_equal(arr_, np.asarray(ylc, float)):
                        ctx.fail('predicate', f'wrapper-{nm_}==m*x+b of the end-point fit', f'linear_fit.{nm_}', case, dict(wrapper=arr_.tolist()[:6], expected=np.asarray(ylc).tolist()[:6]))
                if n >= 3:
                    pairs.append(('r2_points', lf.r2_points(pts), lf.r2(x, y)))
            if n >= 3:
                pairs.append(('r2adj', lf.linear_r2_points(pts, cf, M.R2.adjusted), M.r2(y, ylc, M.R2.adjusted)))
                pairs.append(('r2adj[x,y]', lf.linear_r2(x, y, cf, M.R2.adjusted), M.r2(y, ylc, M.R2.adjusted)))
            for nm, a, bb in pairs:
                a, bb = float(a), float(bb)
                # linear_r2 is a separate implementation of 1 - rss/tss (cancellation near 0): rounding scale is 1 (times the size of the value), not |value|
                if a != bb and not (math.isnan(a) and math.isnan(bb)) and abs(a - bb) > 1e-9 * (abs(a) + abs(bb) + (1.0 if nm.startswith('r2') else 0.0)) + 1e-300:
                    ctx.fail('predicate', f'wrapper-{tagc}{nm}==metric(y, m*x+b)', f'linear_fit.{nm}', case, dict(wrapper=a, metric=bb, coef=[float(cf[0]), float(cf[1])]))
        if n >= 3 and np.ptp(y) > 0:
            q = F(d.call('metric', ['corrSq', core.rats(x), ys])[0])
            ctx.corr_checked += 1
            # np.corrcoef centres the data in floating point: its rounding error grows with max|x|/ptp(x) (large offsets, tiny spread)
            cond = float(np.max(np.abs(x)) / np.ptp(x) + np.max(np.abs(y)) / np.ptp(y))
            cs = 1 + 1e9 * 64 * np.finfo(float).eps * cond
            v = float(lf.r2(x, y))
            if not close(v, q, cs):
                ctx.fail('predicate', 'best-fit-R2-equals-squared-Pearson-correlation', 'linear_fit.r2', case, dict(impl=v, model=float(q)))
            qa = F(d.call('metric', ['corrSqAdj', core.rats(x), ys])[0])
            va = float(lf.r2(x, y, M.R2.adjusted))
            if not close(va, qa, abs(qa) + 2 * cs):
                ctx.fail('predicate', 'adjusted-best-fit-R2-applies-the-(n-1)/(n-2)-correction', 'linear_fit.r2[adjusted]', case, dict(impl=va, model=float(qa)))
    nontriv = (y.tobytes(), yh.tobytes()) if n >= 2 and not np.array_equal(y, yh) else None
    ctx.count(family, n=n, nontrivial_key=nontriv, sample=dict(y=y.tolist()[:8], y_hat=yh.tolist()[:8], smape=float(M.smape(y, yh))))


@core.safe_case
def int_same(ctx, y, yh, x, family):
    """integral vectors are also raw counts: every metric / fit helper must give the same value for the int64 arrays as for the float64 ones
    (values already tied to their definitions by `one`); byte-count sized entries (k * 2^33) make squares exceed 2^63 in the input's own dtype"""
    import kneeliverse.metrics as M
    import kneeliverse.linear_fit as lf
    n = len(y)
    case = dict(y=y.tolist(), y_hat=yh.tolist(), x=x.tolist(), int_dtype=True)
    # the observed values are raw counts (int64); the predicted values stay float64, as every fitted line of the package produces them.  (Two
    # int64 vectors with byte-count sized entries wrap around in the pinned `np.square(y - y_hat)`: int64 predictions are not a use the package has.)
    small = float(max(np.max(np.abs(y)), np.max(np.abs(yh)))) < 2 ** 20 if n else True
    yi, yhi, xi = y.astype(np.int64), (yh.astype(np.int64) if small and ctx.rng.random() < 0.5 else yh), x.astype(np.int64)
    table = [('metrics.' + nm, getattr(M, nm), (y, yh), (yi, yhi)) for nm in ('residuals', 'rmse', 'rmsle', 'rmspe', 'rpd', 'smape', 'r2')]
    if n >= 3:
        table.append(('metrics.r2[adjusted]', lambda a, b: M.r2(a, b, M.R2.adjusted), (y, yh), (yi, yhi)))
    if n >= 2 and x[-1] != x[0]:
        pf, pi = np.column_stack([x, y]), np.column_stack([xi, yi])
        cf = lf.linear_fit_points(pf)
        table += [('linear_fit.linear_fit_points', lf.linear_fit_points, (pf,), (pi,)), ('linear_fit.linear_transform', lambda a: lf.linear_transform(a, cf), (x,), (xi,))]
        for nm in ('linear_r2_points', 'rmspe_points', 'rmsle_points', 'smape_points', 'rpd_points', 'rmse_points', 'linear_residuals_points'):
            table.append(('linear_fit.' + nm, lambda a, nm=nm: getattr(lf, nm)(a, cf), (pf,), (pi,)))
        table += [('linear_fit.linear_fit_residuals_points', lf.linear_fit_residuals_points, (pf,), (pi,)), ('linear_fit.r2_points', lf.r2_points, (pf,), (pi,)),
                  ('linear_fit.linear_fit_transform_points', lf.linear_fit_transform_points, (pf,), (pi,))]
    for site, f, af, ai in table:
        try:
            vf = np.asarray(f(*af), float)
        except Exception:
            continue                                   # the float64 call is judged by `one`
        try:
            vi = np.asarray(f(*ai), float)
        except Exception as e:
            ctx.fail('predicate', 'completes-on-the-int64-representation', site, case, repr(e)[:200])
            continue
        ctx.corr_checked += 1
        ok = vf.shape == vi.shape and np.all((vf == vi) | (np.isnan(vf) & np.isnan(vi)) | (np.abs(vf - vi) <= 1e-9 * (np.abs(vf) + np.abs(vi)) + 1e-300))
        if not ok:
            ctx.fail('predicate', 'integer-dtype-gives-the-same-value', site, case, dict(int64=vi.tolist(), float64=vf.tolist()))
    ctx.count(family + '@int64', n=n, nontrivial_key=('int', y.tobytes(), yh.tobytes()) if not np.array_equal(y, yh) else None, sample=dict(y=y.tolist()[:8], y_hat=yh.tolist()[:8]))


def run(ctx):
    rng = ctx.rng
    for _ in range(400 if ctx.tier == 'quick' else 8000):
        n = rng.choice([1, 2, 3]) if rng.random() < 0.15 else rng.randrange(1, 65)
        ky, kh = rng.choice(['rand', 'zeros', 'const', 'rand']), rng.choice(['rand', 'zeros', 'rand'])
        y, yh = vec(rng, n, ky), vec(rng, n, kh)
        x = np.cumsum([rng.choice([1, 2, 3, 4]) * 0.5 for _ in range(n)])
        u = rng.random()
        fam = f'{ky}/{kh}'
        if u < 0.08:
            x, fam = x + 2.0 ** 40, fam + '@xoff'        # large abscissae with tiny relative spacing
        elif u < 0.13:
            x, fam = x * 2.0 ** -40, fam + '@xtiny'
        elif u < 0.18:
            x, fam = x * 2.0 ** 30, fam + '@xhuge'
        u3 = rng.random()
        if u3 < 0.08:
            y, yh, fam = y * 2.0 ** -30, yh * 2.0 ** -30, fam + '@ytiny30'      # ~1e-9 scale: the eps guards (1e-16) are part of the definitions
        elif u3 < 0.14:
            y, yh, fam = y * 2.0 ** 30, yh * 2.0 ** 30, fam + '@yhuge30'
        elif u3 < 0.22:
            off = rng.choice([2.0 ** 20, 2.0 ** 26, 2.0 ** 33, 2.0 ** 40])       # up to epoch-seconds / byte-offset sized base lines
            y, yh, fam = y + off, yh + off, fam + '@yoff'                        # large base line, small swing: R2 needs the centred sums
        one(ctx, y, yh, x, fam)
        if rng.random() < 0.3:
            # the integral part of the same vectors as raw counts, half of the time byte-count sized (k * 2^33)
            mul = rng.choice([1.0, 2.0 ** 33])
            xi_ = np.cumsum([rng.choice([1, 2, 3]) for _ in range(n)]).astype(float)
            int_same(ctx, np.floor(np.abs(y) % 4096) * mul, np.floor(np.abs(yh) % 4096) * mul, xi_, fam.split('@')[0])
        if rng.random() < 0.35:
            # signed vectors: opposite signs at some positions, a fitted line that crosses zero while the data do not, all-negative data
            sy = np.array([rng.choice([1, 1, -1]) for _ in range(n)], float)
            sh = np.array([rng.choice([1, 1, -1]) for _ in range(n)], float)
            k = rng.random()
            if k < 0.3:
                sy[:] = 1.0
            elif k < 0.4:
                sy[:] = -1.0
                sh[:] = -1.0
            one_signed(ctx, y * sy, yh * sh, 'signed:' + fam)
    long_cases(ctx)


def long_cases(ctx):
    """LONG vectors (beyond 1024 / 4096 entries): chunked, strided or pairwise-blocked evaluation"""
    rng = ctx.rng
    for _ in range(2 if ctx.tier == 'quick' else 20):
        n = rng.choice([rng.randrange(1100, 1600), rng.randrange(4097, 4400)])
        y, yh = vec(rng, n, 'rand'), vec(rng, n, 'rand')
        y[rng.randrange(0, n)] += 1000.0                         # one large entry somewhere: a strided / truncated pass misses it
        x = np.cumsum([rng.choice([1, 2, 3, 4]) * 0.5 for _ in range(n)])
        one(ctx, y, yh, x, 'long-vector')


def replay(ctx, body):
    c = body['case']
    if c.get('int_dtype'):
        int_same(ctx, np.array(c['y'], float), np.array(c['y_hat'], float), np.array(c['x'], float), 'replay')
        return
    if c.get('signed'):
        one_signed(ctx, np.array(c['y'], float), np.array(c['y_hat'], float), 'replay')
        return
    one(ctx, np.array(c['y'], float), np.array(c['y_hat'], float), np.array(c['x'], float), 'replay')

"""Core of the correspondence / verdict harness (see DESIGN.md §2).

Runs with /venv/bin/python (needs numpy, numba, uts and /repo/src).  Every run imports
`kneeliverse` afresh from /repo/src (asserted), builds the Lean project, audits the
axioms of the property's theorems, replays the corpus, streams generated cases through
(a) the correspondence with the Lean model and (b) the direct predicate on the real code,
writes evidence and prints the verdict.
"""
import sys, os, json, time, random, subprocess, hashlib, re, math, traceback, fractions

VERIF = os.path.dirname(os.path.dirname(os.path.abspath(__file__)))
LEAN_DIR = os.path.join(VERIF, 'lean')
REPO = os.environ.get('KNEE_REPO', '/repo')
SRC = os.path.join(REPO, 'src')
ALLOWED_AXIOMS = {'propext', 'Classical.choice', 'Quot.sound'}
FORBIDDEN = re.compile(r'\b(sorry|admit|native_decide|bv_decide|implemented_by|unsafe)\b|^axiom\s|maxHeartbeats\s+0', re.M)

os.environ.setdefault('NUMBA_DISABLE_PERFORMANCE_WARNINGS', '1')
if hasattr(sys, 'set_int_max_str_digits'):
    sys.set_int_max_str_digits(0)


def import_repo():
    """Import kneeliverse from /repo/src and assert that is where it came from."""
    if SRC not in sys.path:
        sys.path.insert(0, SRC)
    import warnings
    import numpy as np
    warnings.filterwarnings('ignore')
    np.seterr(all='ignore')
    import kneeliverse  # noqa
    f = os.path.realpath(kneeliverse.__file__)
    if not f.startswith(os.path.realpath(SRC) + os.sep):
        raise InfraError(f'kneeliverse imported from {f}, not from {SRC}')
    return kneeliverse


class InfraError(Exception):
    pass


class LoopBudgetExceeded(Exception):
    pass


class CaseTimeout(BaseException):          # not an Exception: no `except Exception` of a property module may turn the watchdog into a verdict
    pass


# ----------------------------------------------------------------------------------------
# exact rationals on the wire
# ----------------------------------------------------------------------------------------
BIG = 1 << 1100   # sentinel beyond the double range for +-inf


def rat(x):
    """float/int/np scalar -> wire token (exact). inf -> sentinel, NaN -> raises."""
    if isinstance(x, fractions.Fraction):
        return f'{x.numerator}/{x.denominator}' if x.denominator != 1 else str(x.numerator)
    if isinstance(x, (int,)) and not isinstance(x, bool):
        return str(int(x))
    xf = float(x)
    if math.isnan(xf):
        raise NonFinite('nan')
    if math.isinf(xf):
        return str(BIG if xf > 0 else -BIG)
    n, d = xf.as_integer_ratio()
    return f'{n}/{d}' if d != 1 else str(n)


class NonFinite(Exception):
    pass


def rats(xs):
    xs = list(xs)
    return ','.join(rat(x) for x in xs) if xs else '-'


def nats(xs):
    xs = [int(x) for x in xs]
    return ','.join(str(x) for x in xs) if xs else '-'


def pairs(rows):
    rows = [(int(a), int(b)) for a, b in rows]
    return ','.join(f'{a}:{b}' for a, b in rows) if rows else '-'


def parse_nats(tok):
    return [] if tok == '-' else [int(t) for t in tok.split(',')]


def parse_pairs(tok):
    return [] if tok == '-' else [tuple(int(u) for u in t.split(':')) for t in tok.split(',')]


def parse_rat(tok):
    return fractions.Fraction(tok)


def parse_rats(tok):
    return [] if tok == '-' else [fractions.Fraction(t) for t in tok.split(',')]


# ----------------------------------------------------------------------------------------
# Lean side
# ----------------------------------------------------------------------------------------
class lean_lock:
    """serialise every use of the lake project (build, audit, leanchecker) across concurrently running checks: two `lake build`s or an
    audit elaborating while another check rebuilds its imports would otherwise fail spuriously"""

    def __enter__(self):
        import fcntl
        os.makedirs(os.path.join(LEAN_DIR, '.lake'), exist_ok=True)
        self.f = open(os.path.join(LEAN_DIR, '.lake', 'verif.lock'), 'w')
        fcntl.flock(self.f, fcntl.LOCK_EX)
        return self

    def __exit__(self, *a):
        import fcntl
        fcntl.flock(self.f, fcntl.LOCK_UN)
        self.f.close()


def lean_build(log, prop_files=None):
    """(Re)build the property's own modules (with everything they import) + the driver. Returns (ok, output).
    Only the property's modules: a theorem of another property that no longer checks (e.g. C20's table regenerated from a tree
    with a dangling reference) is that property's verdict, not this one's."""
    t0 = time.time()
    if prop_files:
        files = [prop_files] if isinstance(prop_files, str) else list(prop_files)
        targets = [pf[:-5].replace('/', '.') for pf in files]
    else:
        targets = ['Knee']
    log['lean_build_targets'] = targets + ['driver']
    with lean_lock():
        p = subprocess.run(['lake', 'build'] + targets + ['driver'], cwd=LEAN_DIR, capture_output=True, text=True)
    log['lean_build_s'] = round(time.time() - t0, 2)
    return p.returncode == 0, (p.stdout + p.stderr)


def theorem_names(prop_file):
    src = open(os.path.join(LEAN_DIR, prop_file)).read()
    # strip comments (block and line) before looking for declarations
    src_nc = re.sub(r'/-.*?-/', '', src, flags=re.S)
    src_nc = re.sub(r'--.*', '', src_nc)
    ns = re.findall(r'^namespace\s+(\S+)', src_nc, flags=re.M)
    prefix = (ns[0] + '.') if ns else ''
    # private theorems cannot be named from outside their file; whatever they use shows up in the axioms of the public theorems built on them
    names = re.findall(r'^\s*(?:protected\s+)?theorem\s+(\S+)', src_nc, flags=re.M)
    examples = len(re.findall(r'^\s*example\b', src_nc, flags=re.M))
    return [prefix + n for n in names], examples, src_nc


def lean_audit(prop_id, prop_file):
    """#print axioms on every theorem of the property file(s) + forbidden-token grep on the
    whole library.  Returns dict(obligations, discharged, problems, axioms)."""
    files = [prop_file] if isinstance(prop_file, str) else list(prop_file)
    names, examples = [], 0
    for pf in files:
        ns, ex, _ = theorem_names(pf)
        names += ns
        examples += ex
    os.makedirs(os.path.join(LEAN_DIR, '.lake', 'audit'), exist_ok=True)
    af = os.path.join(LEAN_DIR, '.lake', 'audit', f'{prop_id}.lean')
    with open(af, 'w') as f:
        for pf in files:
            f.write(f'import {pf[:-5].replace("/", ".")}\n')
        for n in names:
            f.write(f'#print axioms {n}\n')
    with lean_lock():
        p = subprocess.run(['lake', 'env', 'lean', af], cwd=LEAN_DIR, capture_output=True, text=True)
    out = p.stdout + p.stderr
    problems = []
    axioms = {}
    for m in re.finditer(r"'(\S+)' depends on axioms: \[([^\]]*)\]", out, flags=re.S):
        axioms[m.group(1)] = [a.strip() for a in m.group(2).replace('\n', ' ').split(',') if a.strip()]
    for m in re.finditer(r"'(\S+)' does not depend on any axioms", out):
        axioms[m.group(1)] = []
    discharged = 0
    for n in names:
        if n not in axioms:
            problems.append(f'theorem {n}: no axiom report (does it compile?)')
        elif set(axioms[n]) - ALLOWED_AXIOMS:
            problems.append(f'theorem {n}: uses axioms {sorted(set(axioms[n]) - ALLOWED_AXIOMS)}')
        else:
            discharged += 1
    if p.returncode != 0:
        problems.append('audit file failed to elaborate: ' + out[-800:])
    # forbidden tokens anywhere in the library (comments stripped)
    for root, _, files in os.walk(os.path.join(LEAN_DIR, 'Knee')):
        for fn in files:
            if fn.endswith('.lean'):
                s = open(os.path.join(root, fn)).read()
                s = re.sub(r'/-.*?-/', '', s, flags=re.S)
                s = re.sub(r'--.*', '', s)
                m = FORBIDDEN.search(s)
                if m:
                    problems.append(f'forbidden token {m.group(0).strip()!r} in {os.path.relpath(os.path.join(root, fn), LEAN_DIR)}')
    return dict(obligations=len(names), discharged=discharged, examples=examples, problems=problems,
                axioms_used=sorted({a for n in names for a in axioms.get(n, [])}), theorems=names)


def knee_modules(prop_file):
    """Knee.* modules transitively imported by the property file (the proof's own code, not Mathlib/core)"""
    seen, todo = [], [prop_file[:-5].replace('/', '.')]
    while todo:
        m = todo.pop()
        if m in seen:
            continue
        seen.append(m)
        path = os.path.join(LEAN_DIR, m.replace('.', '/') + '.lean')
        if os.path.exists(path):
            for imp in re.findall(r'^import\s+(Knee\.\S+)', open(path).read(), flags=re.M):
                todo.append(imp)
    return seen


def lean_recheck(prop_file):
    """thorough tier: replay the compiled declarations of the property's modules (every registered file and everything they import from this
    project) through leanchecker (independent kernel re-check)"""
    files = [prop_file] if isinstance(prop_file, str) else list(prop_file)
    mods = []
    for pf in files:
        for m in knee_modules(pf):
            if m not in mods:
                mods.append(m)
    t0 = time.time()
    with lean_lock():
        p = subprocess.run(['lake', 'env', 'leanchecker'] + mods, cwd=LEAN_DIR, capture_output=True, text=True)
    return dict(modules=mods, ok=p.returncode == 0, seconds=round(time.time() - t0, 1), output=(p.stdout + p.stderr)[-500:])


class Driver:
    """Long-lived Lean model process speaking the line protocol."""

    def __init__(self):
        exe = os.path.join(LEAN_DIR, '.lake', 'build', 'bin', 'driver')
        if not os.path.exists(exe):
            raise InfraError('driver executable missing (run setup: lake build Knee driver)')
        self.p = subprocess.Popen([exe], stdin=subprocess.PIPE, stdout=subprocess.PIPE, text=True, bufsize=1)
        self.queries = 0
        self.dead = False

    def call(self, fn, args, oracle=None):
        line = 'CALL ' + fn + ''.join(' ' + a for a in args) + '\n'
        self.p.stdin.write(line)
        self.p.stdin.flush()
        while True:
            out = self.p.stdout.readline()
            if not out:
                raise InfraError(f'driver died on {line[:200]!r}')
            out = out.rstrip('\n')
            if out.startswith('Q '):
                self.queries += 1
                toks = out[2:].split(' ')
                if oracle is None:
                    raise InfraError('unexpected oracle query ' + out)
                try:
                    ans = oracle(toks[0], toks[1:])
                except BaseException:
                    # the model is blocked waiting for an answer: this process cannot be reused
                    self.dead = True
                    self.p.kill()
                    raise
                self.p.stdin.write(ans + '\n')
                self.p.stdin.flush()
            elif out.startswith('R '):
                return out[2:].split(' ')
            elif out == 'R':
                return []
            elif out.startswith('E '):
                raise ModelError(out[2:])
            else:
                raise InfraError('bad driver line ' + out[:200])

    def close(self):
        try:
            self.p.stdin.close()
            self.p.wait(timeout=5)
        except Exception:
            self.p.kill()


class ModelError(Exception):
    pass


# ----------------------------------------------------------------------------------------
# guarding the real call: count `while` header executions (no timers)
# ----------------------------------------------------------------------------------------
_WHILE_LINES = None
_guard_state = {'count': 0, 'budget': None, 'on': False, 'trips': 0}
_TOOL = 3


def _while_lines():
    global _WHILE_LINES
    if _WHILE_LINES is None:
        import ast
        _WHILE_LINES = {}
        pk = os.path.join(SRC, 'kneeliverse')
        for fn in os.listdir(pk):
            if fn.endswith('.py'):
                path = os.path.realpath(os.path.join(pk, fn))
                try:
                    tree = ast.parse(open(path).read())
                except SyntaxError:
                    continue
                _WHILE_LINES[path] = {n.lineno for n in ast.walk(tree) if isinstance(n, ast.While)}
    return _WHILE_LINES


def _line_cb(code, line):
    mon = sys.monitoring
    wl = _while_lines().get(code.co_filename)
    if not wl or line not in wl:
        return mon.DISABLE
    st = _guard_state
    if st['on']:
        st['count'] += 1
        if st['budget'] is not None and st['count'] > st['budget']:
            st['on'] = False
            st['trips'] += 1
            raise LoopBudgetExceeded(f'{os.path.basename(code.co_filename)}:{line} executed > {st["budget"]} times')
    return None


_mon_ready = False


def _ensure_monitor():
    global _mon_ready
    if _mon_ready:
        return
    mon = sys.monitoring
    mon.use_tool_id(_TOOL, 'knee-verif-loopguard')
    mon.register_callback(_TOOL, mon.events.LINE, _line_cb)
    mon.set_events(_TOOL, mon.events.LINE)
    _mon_ready = True


def guarded(fn, budget):
    """Run fn() counting while-header executions inside the package; abort deterministically
    when the count exceeds `budget`.  Returns (result, count).  Exceptions propagate.
    Re-entrant: an inner guard's iterations also count towards the enclosing guard (safe_case puts one round every case)."""
    _ensure_monitor()
    st = _guard_state
    prev = dict(st)
    st['count'] = 0
    st['budget'] = budget
    st['on'] = True
    try:
        r = fn()
        return r, st['count']
    finally:
        inner, trips = st['count'], st['trips']
        st.update(prev)
        st['trips'] = trips
        if prev['on']:
            st['count'] = prev['count'] + inner
            if st['budget'] is not None and st['count'] > st['budget']:
                st['on'] = False
                raise LoopBudgetExceeded(f'enclosing case executed > {st["budget"]} while-iterations inside the package')


# ----------------------------------------------------------------------------------------
# failures, findings, verdict
# ----------------------------------------------------------------------------------------
class Failure:
    """A failing case. kind: 'predicate' (the property fails on the REAL code),
    'correspondence' (model and code disagree), 'proof' (theorem/audit broken)."""

    def __init__(self, kind, clause, site, case, detail):
        self.kind, self.clause, self.site, self.case, self.detail = kind, clause, site, case, detail

    def to_json(self):
        return dict(kind=self.kind, clause=self.clause, site=self.site, case=self.case, detail=self.detail)


def load_findings():
    p = os.path.join(VERIF, 'known_findings.json')
    if not os.path.exists(p):
        return []
    return json.load(open(p)).get('entries', [])


def jsonable(o):
    import numpy as np
    if isinstance(o, dict):
        return {str(k): jsonable(v) for k, v in o.items()}
    if isinstance(o, (list, tuple)):
        return [jsonable(v) for v in o]
    if isinstance(o, np.ndarray):
        return jsonable(o.tolist())
    if isinstance(o, (np.integer,)):
        return int(o)
    if isinstance(o, (np.floating, float)):
        f = float(o)
        return f if math.isfinite(f) else repr(f)
    if isinstance(o, fractions.Fraction):
        return str(o)
    if isinstance(o, (str, int, bool)) or o is None:
        return o
    return repr(o)


CASE_LOOP_BUDGET = {True: 4_000_000, False: 60_000_000}      # quick / thorough: while-header executions inside the package per case


def poison_allocator(value):
    """fill NumPy's small-block free lists with `value` (allocate and release arrays of every small size): a buffer obtained with
    np.empty and not fully written then carries this garbage instead of whatever the previous call happened to leave behind"""
    import numpy as np
    for size in list(range(1, 65)) + [96, 128, 256, 512, 1024]:
        a = np.full(size, value, dtype=float)
        del a
    for size in (2, 3, 4, 6, 8, 12, 16, 24, 32, 48, 64):
        a = np.full((size, 2), value, dtype=float)
        del a


def _copy_arg(x):
    import numpy as np
    if isinstance(x, np.ndarray):
        return x.copy()
    if isinstance(x, (list, dict)):
        import copy
        return copy.deepcopy(x)
    return x


def _raised_in_package(tb):
    """innermost frame of the traceback lies in the package under test?"""
    last = None
    while tb is not None:
        last = tb
        tb = tb.tb_next
    if last is None:
        return None
    fn = os.path.realpath(last.tb_frame.f_code.co_filename)
    if fn.startswith(os.path.realpath(SRC) + os.sep):
        return f'{os.path.basename(fn)}:{last.tb_frame.f_code.co_name}'
    return None


def safe_case(fn):
    """A harness-side exception in one generated case must not kill the whole check: it is counted, the first
    traceback is kept for the log, and the run ends with exit 2 (infrastructure) if more than 1% of cases do this
    (unless the exceptions come out of the package itself, see run_property).
    Every case is also a candidate for the HISTORY phase (run_property): a sample of the cases is evaluated a second time at
    the end of the run, grouped by kind, in a different order, with the array arguments delivered in re-used buffers."""
    import functools

    @functools.wraps(fn)
    def wrapper(ctx, *a, **k):
        if ctx.phase == 'main' and ctx.pool is not None:
            ctx.pool_seen += 1
            if len(ctx.pool) < ctx.pool_cap:
                ctx.pool.append((wrapper, tuple(_copy_arg(x) for x in a), {kk: _copy_arg(v) for kk, v in k.items()}))
            else:
                j = ctx.pool_rng.randrange(ctx.pool_seen)
                if j < ctx.pool_cap:
                    ctx.pool[j] = (wrapper, tuple(_copy_arg(x) for x in a), {kk: _copy_arg(v) for kk, v in k.items()})
        poison_allocator(float('nan') if ctx.phase == 'main' else 1e300)
        # wall-clock watchdog against HARNESS-side run-aways (a search in a predicate, a reference implementation): never a verdict, the case is
        # counted as a harness exception (verdicts about termination come from the iteration-counting guard only)
        import signal

        def _alarm(signum, frame):
            raise CaseTimeout(f'case exceeded the wall-clock watchdog ({fn.__module__}.{fn.__qualname__})')
        old_handler = signal.signal(signal.SIGALRM, _alarm)
        signal.alarm(120 if ctx.tier == 'quick' else 900)
        try:
            # every case runs under a loop guard: no `while` loop of the package may spin for ever inside a check, whichever function it is in
            # (once loops have been found spinning in this run the budget shrinks, so that a non-terminating change is reported in seconds)
            return guarded(lambda: fn(ctx, *a, **k), max(150_000, CASE_LOOP_BUDGET[ctx.tier == 'quick'] // (1 + 6 * _guard_state['trips'])))[0]
        except (InfraError, KeyboardInterrupt):
            raise
        except LoopBudgetExceeded as e:
            # not caught by the case itself: report it as what it is - a call of the package that does not complete
            ctx.fail('predicate', 'completes (a while-loop of the package exceeded the per-case iteration budget)', str(e).split(' executed')[0],
                     dict(function=fn.__module__ + '.' + fn.__qualname__, args=jsonable(a), kwargs=jsonable(k)), str(e))
            return None
        except (Exception, CaseTimeout) as e:
            ctx.harness_exceptions += 1
            where = None if isinstance(e, CaseTimeout) else _raised_in_package(e.__traceback__)
            if where:
                ctx.pkg_exceptions += 1
                ctx.pkg_exception_sites[where] = ctx.pkg_exception_sites.get(where, 0) + 1
                if 'first_package_exception' not in ctx.log:
                    ctx.log['first_package_exception'] = traceback.format_exc()[-1500:]
            if ctx.harness_exceptions == 1:
                ctx.log['first_harness_exception'] = traceback.format_exc()[-1500:]
            if ctx.driver is not None and ctx.driver.p.poll() is not None:
                ctx.driver.dead = True
            if isinstance(e, CaseTimeout) and ctx.driver is not None:
                ctx.driver.dead = True
                ctx.driver.p.kill()
            return None
        finally:
            signal.alarm(0)
            signal.signal(signal.SIGALRM, old_handler)
    wrapper.__wrapped_case__ = fn
    return wrapper


class Ctx:
    def __init__(self, prop_id, tier, seed):
        self.prop_id, self.tier, self.seed = prop_id, tier, seed
        self.rng = random.Random(seed * 1000003 + int(prop_id[1:]))
        self.t0 = time.time()
        self.evaluations = 0
        self.nontrivial = set()
        self.samples = []
        self.failures = []
        self.tags = {}
        self.families = {}
        self.nhist = {}
        self.inconclusive = 0
        self.corr_checked = 0
        self.driver = None
        self.log = {}
        self.known_lines = []
        self.harness_exceptions = 0
        self.pkg_exceptions = 0
        self.pkg_exception_sites = {}
        # history phase (see run_property)
        self.phase = 'main'
        self.pool = [] if os.environ.get('VERIF_HISTORY', '1') != '0' else None
        self.pool_cap = 250 if tier == 'quick' else 1500
        self.pool_seen = 0
        self.pool_rng = random.Random(seed * 31337 + 7)
        self.buffers = {}

    # bookkeeping -------------------------------------------------------------------
    def tag(self, name, k=1):
        self.tags[name] = self.tags.get(name, 0) + k

    def count(self, family, n=None, nontrivial_key=None, sample=None):
        self.evaluations += 1
        self.families[family] = self.families.get(family, 0) + 1
        if n is not None:
            b = str(n) if n <= 8 else ('9-16' if n <= 16 else '17-64' if n <= 64 else '65-512' if n <= 512 else '>512')
            self.nhist[b] = self.nhist.get(b, 0) + 1
        if nontrivial_key is not None:
            h = hashlib.sha1(repr(nontrivial_key).encode()).hexdigest()[:16]
            if h not in self.nontrivial:
                self.nontrivial.add(h)
                if sample is not None and len(self.samples) < 6 and (len(self.samples) < 2 or self.rng.random() < 0.02):
                    self.samples.append(jsonable(sample))

    def fail(self, kind, clause, site, case, detail):
        self.failures.append(Failure(kind, clause, site, jsonable(case), jsonable(detail)))

    def elapsed(self):
        return time.time() - self.t0

    def get_driver(self):
        if self.driver is None or self.driver.dead:
            self.driver = Driver()
        return self.driver


def write_replay(prop_id, failure, extra=None):
    os.makedirs(os.path.join(VERIF, 'replays'), exist_ok=True)
    body = dict(property=prop_id, **failure.to_json())
    if extra:
        body.update(extra)
    h = hashlib.sha1(json.dumps(body, sort_keys=True, default=str).encode()).hexdigest()[:12]
    path = os.path.join('replays', f'{prop_id}-{h}.json')
    with open(os.path.join(VERIF, path), 'w') as f:
        json.dump(body, f, indent=1, default=str)
    return path


def finding_matches(entry, prop_id, failure, classes):
    if entry.get('status') != 'known' or entry.get('property') != prop_id:
        return False
    # the history phase re-evaluates sampled cases and tags what it finds: the same listed finding seen a second time is still that finding
    clause = failure.clause.split(' [history phase:')[0]
    if entry.get('clause') != clause or entry.get('site') != failure.site:
        return False
    pred = classes.get(entry.get('class'))
    try:
        return bool(pred and pred(failure.case))
    except Exception:
        return False


def write_evidence(ctx, audit, level='proof', extra_cov=None, assumptions=None, violations=0, checker_cmd=None):
    cov = dict(
        obligations=max(audit.get('obligations', 0), 1),
        discharged=audit.get('discharged', 0),
        checker_cmd=checker_cmd or 'cd /verif/lean && lake build Knee driver && lake env lean .lake/audit/%s.lean  (#print axioms on every theorem of the property file)' % ctx.prop_id,
        trusted_base=[
            'Lean 4.33.0 kernel; axioms used by this property\'s theorems: ' + (', '.join(audit.get('axioms_used', [])) or 'none'),
            'hand-written model (lean/Knee/Model) tied to /repo only by the sampled correspondence reported below',
            'harness: generators, float->rational conversion, oracle calls to the package\'s public primitives, comparison rules, sys.monitoring loop counter',
        ],
        theorems=audit.get('theorems', []),
        nonvacuity_examples=audit.get('examples', 0),
        evaluations=max(ctx.evaluations, 1),
        distinct_nontrivial=len(ctx.nontrivial),
        rule=getattr(ctx, 'rule', ''),
        samples=ctx.samples[:6] or [{'note': 'no generated case this run'}],
        correspondence_cases=ctx.corr_checked,
        inconclusive_near_tie=ctx.inconclusive,
        families=ctx.families, n_histogram=ctx.nhist, branch_tags=ctx.tags,
        lean_build_s=ctx.log.get('lean_build_s'),
        leanchecker=audit.get('leanchecker'),
    )
    if extra_cov:
        cov.update(extra_cov)
    ev = dict(property_id=ctx.prop_id, tier=ctx.tier, seed=ctx.seed, level=level, coverage=cov,
              assumptions=assumptions or [], wall_s=round(ctx.elapsed(), 2), violations=violations)
    # VERIF_EVIDENCE_DIR: scratch runs of the tools (seeded changes applied in a worktree) must not overwrite the evidence of the real tree
    edir = os.environ.get('VERIF_EVIDENCE_DIR') or os.path.join(VERIF, 'evidence')
    if not re.fullmatch(r'C\d\d', ctx.prop_id):
        edir = os.path.join(os.path.dirname(edir.rstrip('/')), 'evidence_extras') if not os.environ.get('VERIF_EVIDENCE_DIR') else os.path.join(edir, 'extras')      # suites beyond the 20 listed properties (X01, …): never mixed with the properties' evidence
    os.makedirs(edir, exist_ok=True)
    tmp = os.path.join(edir, ctx.prop_id + '.json.%d.tmp' % os.getpid())
    with open(tmp, 'w') as f:
        json.dump(jsonable(ev), f, indent=1)
    os.replace(tmp, os.path.join(edir, ctx.prop_id + '.json'))


def reuse_buffer(ctx, x):
    """deliver an array argument in a buffer that is re-used for every array of that shape/dtype (same id, same shape, new content):
    what a caller does who refills a work array; caches keyed on identity or shape collide here."""
    import numpy as np
    if not isinstance(x, np.ndarray) or x.size == 0:
        return x
    key = (x.shape, x.dtype.str, np.isfortran(x))
    b = ctx.buffers.get(key)
    if b is None:
        b = np.empty_like(x)
        ctx.buffers[key] = b
    np.copyto(b, x)
    return b


def history_phase(ctx):
    """Second evaluation of a sample of the run's cases under a DIFFERENT call history: grouped by kind (same function, same string
    options), shuffled inside the group, array arguments in re-used buffers.  Public functions are specified as functions of their
    arguments; a module-level memo, a mutable default, a buffer kept between calls or a cache keyed on identity makes the second
    evaluation differ, and the case's own predicate / correspondence then reports it with the case as replay."""
    if not ctx.pool or ctx.phase != 'main':
        return
    budget = 60 if ctx.tier == 'quick' else 600
    t0 = time.time()
    ctx.phase = 'history'
    groups = {}
    for fn, a, k in ctx.pool:
        key = (fn.__module__, fn.__qualname__, tuple(x for x in a if isinstance(x, str)))
        groups.setdefault(key, []).append((fn, a, k))
    nfail0 = len(ctx.failures)
    done = 0
    for key in sorted(groups, key=repr):
        g = groups[key]
        ctx.pool_rng.shuffle(g)
        # equal shapes next to each other: consecutive calls then receive THE SAME ndarray object with new content (a work array refilled in
        # place) - what a single-entry cache keyed on the identity of its argument gets wrong
        g.sort(key=lambda it: repr([(x.shape, x.dtype.str) for x in it[1] if hasattr(x, 'shape')]))
        for fn, a, k in g:
            if time.time() - t0 > budget:
                break
            fn(ctx, *[reuse_buffer(ctx, x) for x in a], **k)
            done += 1
    ctx.tag('history-phase-cases', done)
    for f in ctx.failures[nfail0:]:
        f.clause = f.clause + ' [history phase: second evaluation, grouped by kind, re-used argument buffers]'
    ctx.phase = 'done'
    ctx.pool = None
    ctx.buffers = {}


def run_property(mod, prop_id, tier, seed, replay=None):
    """Generic verdict logic (DESIGN §2.3). `mod` is the property module."""
    ctx = Ctx(prop_id, tier, seed)
    ctx.rule = getattr(mod, 'RULE', '')
    classes = getattr(mod, 'FINDING_CLASSES', {})
    try:
        import_repo()
        if hasattr(mod, 'pre_build'):
            mod.pre_build(ctx)
        ok, out = lean_build(ctx.log, getattr(mod, 'PROP_FILES', mod.PROP_FILE))
        audit = dict(obligations=0, discharged=0, problems=[], theorems=[])
        if not ok:
            if hasattr(mod, 'on_build_failure'):
                mod.on_build_failure(ctx, out)
            ctx.fail('proof', 'lean-build', 'lake build ' + ' '.join(ctx.log.get('lean_build_targets', [])), {}, out[-3000:])
        else:
            pfiles = getattr(mod, 'PROP_FILES', mod.PROP_FILE)
            audit = lean_audit(prop_id, pfiles)
            for pr in audit['problems']:
                ctx.fail('proof', 'axiom-audit', mod.PROP_FILE, {}, pr)
            if tier == 'thorough':
                rc_ = lean_recheck(getattr(mod, 'PROP_FILES', mod.PROP_FILE))
                audit['leanchecker'] = rc_
                if not rc_['ok']:
                    ctx.fail('proof', 'leanchecker', mod.PROP_FILE, {}, rc_['output'])
        if ok:
            if replay:
                mod.replay(ctx, json.load(open(replay)))
            else:
                # corpus first: minimised past failures (pinned-tree defects, seeded changes); they must pass on a correct tree
                cdir = os.path.join(VERIF, 'corpus', prop_id)
                if os.path.isdir(cdir) and hasattr(mod, 'replay'):
                    for fn in sorted(os.listdir(cdir)):
                        if fn.endswith('.json'):
                            try:
                                mod.replay(ctx, json.load(open(os.path.join(cdir, fn))))
                                ctx.tag('corpus-replayed')
                            except InfraError:
                                raise
                            except Exception:
                                ctx.harness_exceptions += 1
                mod.run(ctx)
                history_phase(ctx)
                # escalation (DESIGN §2.3): a correspondence disagrees but no input violating the property was found yet ->
                # search further (fresh random streams, same generators) for a concrete failing input before reporting
                tries = 0
                while (any(f.kind == 'correspondence' for f in ctx.failures) and not any(f.kind == 'predicate' for f in ctx.failures)
                       and tries < 3 and ctx.elapsed() < 240):
                    tries += 1
                    ctx.rng = random.Random(seed * 7919 + 104729 * tries + int(prop_id[1:]))
                    ctx.tag('escalated-search-pass')
                    mod.run(ctx)
            if ctx.harness_exceptions:
                print(f'HARNESS-EXCEPTIONS {ctx.harness_exceptions} (first: {ctx.log.get("first_harness_exception", "")[-400:]})')
                ctx.tag('harness-exceptions', ctx.harness_exceptions)
                if ctx.harness_exceptions > max(3, ctx.evaluations // 100):
                    if any(f.kind == 'predicate' for f in ctx.failures):
                        # a concrete failing input on the real code was found: that is the verdict, whatever else went wrong in the harness
                        print('  (harness-side exceptions exceeded the infrastructure limit, but a failing input was found; verdict follows)')
                    elif ctx.pkg_exceptions * 2 > ctx.harness_exceptions:
                        # the package itself raises inside the primitives the correspondence needs: the correspondence no longer checks
                        site = max(ctx.pkg_exception_sites.items(), key=lambda kv: kv[1])[0]
                        ctx.fail('correspondence', 'oracle-call-raises-inside-the-package', site, dict(exhibited=False),
                                 dict(cases=ctx.pkg_exceptions, first=ctx.log.get('first_package_exception', '')[-800:]))
                    else:
                        raise InfraError('too many harness-side exceptions')
    except InfraError as e:
        print('INFRA-ERROR', e)
        traceback.print_exc()
        return 2
    except Exception as e:
        print('INFRA-ERROR unexpected harness exception', repr(e))
        traceback.print_exc()
        return 2
    finally:
        if ctx.driver:
            ctx.driver.close()

    # ---- verdict ----------------------------------------------------------------------
    findings = load_findings()
    pred = [f for f in ctx.failures if f.kind == 'predicate']
    other = [f for f in ctx.failures if f.kind != 'predicate']
    unlisted = []
    known_hit = {}
    for f in pred:
        hit = next((e for e in findings if finding_matches(e, prop_id, f, classes)), None)
        if hit is None:
            unlisted.append(f)
        else:
            known_hit.setdefault(hit['what'], f)
    for what in known_hit:
        print(f'KNOWN-FINDING: property={prop_id} {what}')
    rc = 0
    nviol = 0
    if unlisted:
        # smallest case first
        unlisted.sort(key=lambda f: (isinstance(f.case, dict) and f.case.get('exhibited') is False, len(json.dumps(f.case, default=str))))
        f = unlisted[0]
        path = write_replay(prop_id, f, dict(seed=seed, tier=tier, other_failing_cases=len(unlisted) - 1,
                                             related=[o.to_json() for o in other[:3]]))
        noinput = isinstance(f.case, dict) and f.case.get('exhibited') is False
        print(f'VIOLATION property={prop_id} replay={path}' + (' no-failing-input-found' if noinput else ''))
        print(f'  clause={f.clause} site={f.site} detail={json.dumps(f.detail, default=str)[:400]}')
        rc, nviol = 1, len(unlisted)
    elif other and not known_hit:
        f = other[0]
        path = write_replay(prop_id, f, dict(seed=seed, tier=tier, note='no failing input found on the real code by the predicate search; '
                                             'the named theorem/correspondence no longer checks', other=len(other) - 1))
        print(f'VIOLATION property={prop_id} replay={path} no-failing-input-found')
        print(f'  {f.kind}: clause={f.clause} site={f.site} detail={json.dumps(f.detail, default=str)[:400]}')
        rc, nviol = 1, len(other)
    elif other and known_hit:
        # disagreements explained by a listed finding on the same run are not re-reported
        pass
    if ctx.failures:
        hist = {}
        for f in ctx.failures:
            k = f'{f.kind}:{f.clause}@{f.site}'
            hist[k] = hist.get(k, 0) + 1
        for k, v in sorted(hist.items(), key=lambda kv: -kv[1])[:int(os.environ.get('VERIF_HIST', '25'))]:
            print(f'  failing-cases {v:6d}  {k}')
    write_evidence(ctx, audit, violations=nviol, assumptions=getattr(mod, 'ASSUMPTIONS', []),
                   extra_cov=getattr(ctx, 'extra_cov', None))
    print(f'{prop_id} tier={tier} seed={seed} evaluations={ctx.evaluations} nontrivial={len(ctx.nontrivial)} '
          f'correspondence={ctx.corr_checked} theorems={audit.get("discharged")}/{audit.get("obligations")} '
          f'wall={ctx.elapsed():.1f}s rc={rc}')
    return rc

"""Detector family (C02, C03, C09): criterion oracles from public primitives, real calls, model calls."""
import math
import numpy as np
from . import core

DETS = ['curvature', 'menger', 'dfdt', 'lmethod', 'kneedle']
MIN_T2 = {'curvature': 3, 'dfdt': 3, 'menger': 4, 'lmethod': 4, 'kneedle': 3}


def mods():
    import kneeliverse.curvature as curvature, kneeliverse.menger as menger, kneeliverse.dfdt as dfdt
    import kneeliverse.lmethod as lmethod, kneeliverse.kneedle as kneedle
    return dict(curvature=curvature, menger=menger, dfdt=dfdt, lmethod=lmethod, kneedle=kneedle)


class DetOracles:
    """criterion arrays for the sub-curve points[l:r], computed with the package's / uts' public primitives"""

    def __init__(self, pts, fit='pointfit', cost='rmse', kneedle_t=1.0):
        import uts.gradient as grad, uts.thresholding as thresh, uts.ema as ema
        import kneeliverse.linear_fit as lf, kneeliverse.menger as menger, kneeliverse.lmethod as lm, kneeliverse.kneedle as kn
        self.pts = pts
        self.grad, self.thresh, self.ema, self.lf, self.menger, self.lm, self.kn = grad, thresh, ema, lf, menger, lm, kn
        self.fit = {'pointfit': lm.Fit.point_fit, 'bestfit': lm.Fit.best_fit}[fit]
        self.cost = {'rmse': lm.Cost.rmse, 'rss': lm.Cost.rss}[cost]
        self.kneedle_t = kneedle_t
        self.nonfinite = False
        self.log = {}

    def sm(self, l, r):
        pt = self.pts[l:r]
        return self.lf.smape_points(pt, self.lf.linear_fit_points(pt))

    def crit(self, l, r):
        pt = self.pts[l:r]
        x, y = pt[:, 0], pt[:, 1]
        g1, g2 = self.grad.cfd(x, y), self.grad.csd(x, y)
        return np.absolute(g2) / ((1.0 + g1 ** 2.0) ** 1.5)

    def mc(self, l, r):
        pt = self.pts[l:r]
        return [self.menger.menger_curvature(pt[i], pt[i - 1], pt[i + 1]) for i in range(1, len(pt) - 1)]

    def diffs(self, l, r, c):
        pt = self.pts[l:r]
        g = self.grad.cfd(pt[:, 0], pt[:, 1])[c:]
        t = self.thresh.isodata(g)
        return np.absolute(g - t)

    def errs(self, l, r, ln):
        pt = self.pts[l:r][:ln]
        x, y = pt[:, 0], pt[:, 1]
        length = x[-1] - x[0]
        return [self.lm.compute_error(x, y, i, length, self.fit, self.cost)[0] for i in range(2, len(x) - 2)]

    def dd(self, l, r):
        kn = self.kn
        pt = self.pts[l:r]
        b, m = self.lf.linear_fit_points(pt)
        cd = kn.Direction.Increasing if m > 0.0 else kn.Direction.Decreasing
        vote = np.sum(pt[:, 1] - (pt[:, 0] * m + b))
        cc = kn.Concavity.Clockwise if vote > 0 else kn.Concavity.Counterclockwise
        Ds = self.ema.ema_linear(pt, self.kneedle_t)
        pmin, pmax = Ds.min(axis=0), Ds.max(axis=0)
        diff = pmax - pmin
        diff[diff == 0] = 1.0
        Dn = (Ds - pmin) / diff
        return kn.differences(Dn, cd, cc)[:, 1]

    def answer(self, name, args):
        a = [int(v) for v in args]
        try:
            if name == 'sm':
                return core.rat(self.sm(*a))
            v = getattr(self, name)(*a)
            self.log[name] = self.log.get(name, 0) + 1
            return core.rats(v)
        except core.NonFinite:
            self.nonfinite = True
            return '0'


def real_knee(kind, pts, opts):
    m = mods()[kind]
    n = len(pts)

    def call():
        if kind == 'lmethod':
            lm = m
            fit = {'pointfit': lm.Fit.point_fit, 'bestfit': lm.Fit.best_fit}[opts.get('fit', 'pointfit')]
            it = {'none': lm.Refinement.none, 'original': lm.Refinement.original, 'adjusted': lm.Refinement.adjusted}[opts.get('mode', 'adjusted')]
            return lm.knee(pts, fit=fit, it=it, limit=opts.get('limit', 10))
        if kind == 'kneedle':
            return m.knee(pts, t=opts.get('kneedle_t', 1.0))
        return m.knee(pts)
    return core.guarded(call, 64 * (n + 8) + 1024)


def model_knee(ctx, kind, pts, opts):
    orc = DetOracles(pts, opts.get('fit', 'pointfit'), 'rmse', opts.get('kneedle_t', 1.0))
    d = ctx.get_driver()

    def ans(name, args):
        return orc.answer(name, args)
    out = d.call('knee', [kind, str(len(pts)), opts.get('mode', 'adjusted'), str(opts.get('limit', 10))], ans)
    return (None if out[0] == 'none' else int(out[0])), orc


def real_multi(kind, pts, t1, t2):
    m = mods()[kind]
    n = len(pts)
    return core.guarded(lambda: m.multi_knee(pts, t1, t2), 64 * (2 * n + 2) * (n + 8) + 1024)


def model_multi(ctx, kind, pts, t1, t2):
    orc = DetOracles(pts)
    d = ctx.get_driver()
    out = d.call('multi_knee', [kind, core.rat(t1), str(t2), str(len(pts))], orc.answer)
    return (None if out[0] == 'none' else core.parse_nats(out[0])), orc

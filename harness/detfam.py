"""Detector family (C02, C03, C09): criterion oracles from public primitives, real calls, model calls."""
import math
import numpy as np
from . import core

DETS = ['curvature', 'menger', 'dfdt', 'lmethod', 'kneedle']
MIN_T2 = {'curvature': 3, 'dfdt': 3, 'menger': 4, 'lmethod': 4, 'kneedle': 3}


def mods():
    import kneeliverse.curvature as curvature, kneeliverse.menger as menger, kneeliverse.dfdt as dfdt
    import kneeliverse.lmethod as lmethod, kneeliverse.kneedle as kneedle
    return dict(curvature=curvature, menger=menger, dfdt=dfdt, lmethod=lmethod, kneedle=kneedle)


class DetOracles:
    """criterion arrays for the sub-curve points[l:r], computed with the package's / uts' public primitives"""

    def __init__(self, pts, fit='pointfit', cost='rmse', kneedle_t=1.0):
        import uts.gradient as grad, uts.thresholding as thresh, uts.ema as ema
        import kneeliverse.linear_fit as lf, kneeliverse.menger as menger, kneeliverse.lmethod as lm, kneeliverse.kneedle as kn
        self.pts = pts
        self.grad, self.thresh, self.ema, self.lf, self.menger, self.lm, self.kn = grad, thresh, ema, lf, menger, lm, kn
        self.fit = {'pointfit': lm.Fit.point_fit, 'bestfit': lm.Fit.best_fit}[fit]
        self.cost = {'rmse': lm.Cost.rmse, 'rss': lm.Cost.rss}[cost]
        self.kneedle_t = kneedle_t
        self.nonfinite = False
        self.log = {}

    def sm(self, l, r):
        pt = self.pts[l:r]
        return self.lf.smape_points(pt, self.lf.linear_fit_points(pt))

    def crit(self, l, r):
        pt = self.pts[l:r]
        x, y = pt[:, 0], pt[:, 1]
        g1, g2 = self.grad.cfd(x, y), self.grad.csd(x, y)
        return np.absolute(g2) / ((1.0 + g1 ** 2.0) ** 1.5)

    def mc(self, l, r):
        pt = self.pts[l:r]
        return [self.menger.menger_curvature(pt[i], pt[i - 1], pt[i + 1]) for i in range(1, len(pt) - 1)]

    def diffs(self, l, r, c):
        pt = self.pts[l:r]
        g = self.grad.cfd(pt[:, 0], pt[:, 1])[c:]
        t = self.thresh.isodata(g)
        return np.absolute(g - t)

    def errs(self, l, r, ln):
        pt = self.pts[l:r][:ln]
        x, y = pt[:, 0], pt[:, 1]
        length = x[-1] - x[0]
        return [self.lm.compute_error(x, y, i, length, self.fit, self.cost)[0] for i in range(2, len(x) - 2)]

    def dd(self, l, r):
        kn = self.kn
        pt = self.pts[l:r]
        b, m = self.lf.linear_fit_points(pt)
        cd = kn.Direction.Increasing if m > 0.0 else kn.Direction.Decreasing
        vote = np.sum(pt[:, 1] - (pt[:, 0] * m + b))
        cc = kn.Concavity.Clockwise if vote > 0 else kn.Concavity.Counterclockwise
        Ds = self.ema.ema_linear(pt, self.kneedle_t)
        pmin, pmax = Ds.min(axis=0), Ds.max(axis=0)
        diff = pmax - pmin
        diff[diff == 0] = 1.0
        Dn = (Ds - pmin) / diff
        return kn.differences(Dn, cd, cc)[:, 1]

    # ---- the same criteria from their DEFINITIONS, written out by the harness (independent of kneeliverse's own helpers)
    def mc_ref(self, l, r):
        pt = np.asarray(self.pts[l:r], float)
        out = []
        for i in range(1, len(pt) - 1):
            (x1, y1), (x2, y2), (x3, y3) = pt[i], pt[i - 1], pt[i + 1]
            area2 = abs((x2 - x1) * (y3 - y1) - (y2 - y1) * (x3 - x1))
            sides = math.hypot(x2 - x1, y2 - y1) * math.hypot(x3 - x2, y3 - y2) * math.hypot(x1 - x3, y1 - y3)
            out.append(2.0 * area2 / sides if sides > 0 else float('nan'))
        return out

    def errs_ref(self, l, r, ln, fit, cost):
        """L-method error of every split 2..n-3: residual sum of squares of the two lines (end-point lines or least squares), weighted by the
        share of the x range each side covers (rss: r*w; rmse: w*sqrt(r*w)), as lmethod.compute_error documents it"""
        pt = np.asarray(self.pts[l:r][:ln], float)
        x, y = pt[:, 0], pt[:, 1]
        length = x[-1] - x[0]

        def rss(xs, ys):
            if fit == 'bestfit':
                xc, yc = xs - xs.mean(), ys - ys.mean()
                sxx = float(np.sum(xc * xc))
                m = float(np.sum(xc * yc)) / sxx
                return float(np.sum(np.square(yc - m * xc)))
            m = (ys[-1] - ys[0]) / (xs[-1] - xs[0])
            return float(np.sum(np.square(ys - (ys[0] + m * (xs - xs[0])))))
        out = []
        for i in range(2, len(x) - 2):
            wl, wr = (x[i] - x[0]) / length, (x[-1] - x[i]) / length
            rl, rr = rss(x[:i + 1], y[:i + 1]), rss(x[i:], y[i:])
            out.append(wl * math.sqrt(rl * wl) + wr * math.sqrt(wr * rr) if cost == 'rmse' else rl * wl + rr * wr)
        return out

    def dd_ref(self, l, r):
        pt = np.asarray(self.pts[l:r], float)
        m = (pt[-1, 1] - pt[0, 1]) / (pt[-1, 0] - pt[0, 0])
        line = pt[0, 1] + m * (pt[:, 0] - pt[0, 0])
        vote = float(np.sum(pt[:, 1] - line))
        if abs(vote) <= 1e-9 * float(np.sum(np.abs(pt[:, 1])) + np.sum(np.abs(line))) or m == 0.0:
            return None            # concavity vote / direction within rounding of 0: the package's choice is not determined by the definition
        increasing, clockwise = m > 0.0, vote > 0
        Ds = self.ema.ema_linear(pt, self.kneedle_t)
        pmin, pmax = Ds.min(axis=0), Ds.max(axis=0)
        diff = pmax - pmin
        diff[diff == 0] = 1.0
        Dn = (Ds - pmin) / diff
        X, Y = Dn[:, 0], Dn[:, 1]
        if not increasing:
            return (X + Y) if clockwise else (1.0 - (X + Y))
        return (Y - X) if clockwise else np.abs(Y - X)

    def answer(self, name, args):
        a = [int(v) for v in args]
        try:
            if name == 'sm':
                return core.rat(self.sm(*a))
            v = getattr(self, name)(*a)
            self.log[name] = self.log.get(name, 0) + 1
            return core.rats(v)
        except core.NonFinite:
            self.nonfinite = True
            return '0'


def integral_small(pts):
    a = np.asarray(pts, float)
    return bool(len(a) and np.all(np.isfinite(a)) and np.all(a == np.floor(a)) and np.max(np.abs(a)) < 2 ** 20)


def real_knee(kind, pts, opts):
    m = mods()[kind]
    n = len(pts)
    if opts.get('int_dtype'):
        # the same curve as an integer-dtype array; the criterion oracles stay on the float64 copy
        pts = np.asarray(pts).astype(np.int64)

    def call():
        if kind == 'lmethod':
            lm = m
            fit = {'pointfit': lm.Fit.point_fit, 'bestfit': lm.Fit.best_fit}[opts.get('fit', 'pointfit')]
            it = {'none': lm.Refinement.none, 'original': lm.Refinement.original, 'adjusted': lm.Refinement.adjusted}[opts.get('mode', 'adjusted')]
            return lm.knee(pts, fit=fit, it=it, limit=opts.get('limit', 10))
        if kind == 'kneedle':
            return m.knee(pts, t=opts.get('kneedle_t', 1.0))
        return m.knee(pts)
    return core.guarded(call, 64 * (n + 8) + 1024)


def model_knee(ctx, kind, pts, opts):
    orc = DetOracles(pts, opts.get('fit', 'pointfit'), 'rmse', opts.get('kneedle_t', 1.0))
    d = ctx.get_driver()

    def ans(name, args):
        return orc.answer(name, args)
    out = d.call('knee', [kind, str(len(pts)), opts.get('mode', 'adjusted'), str(opts.get('limit', 10))], ans)
    return (None if out[0] == 'none' else int(out[0])), orc


def real_multi(kind, pts, t1, t2, int_dtype=False):
    m = mods()[kind]
    n = len(pts)
    if int_dtype:
        pts = np.asarray(pts).astype(np.int64)
    return core.guarded(lambda: m.multi_knee(pts, t1, t2), 64 * (2 * n + 2) * (n + 8) + 1024)


def model_multi(ctx, kind, pts, t1, t2):
    orc = DetOracles(pts)
    d = ctx.get_driver()
    out = d.call('multi_knee', [kind, core.rat(t1), str(t2), str(len(pts))], orc.answer)
    return (None if out[0] == 'none' else core.parse_nats(out[0])), orc

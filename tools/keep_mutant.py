#!/usr/bin/env python3
"""Validate a sub-agent's seeded change independently and file it under /verif/seeded/<name>/.
usage: tools/keep_mutant.py <agent worktree> <name> <check ids…>
Steps (all in a fresh scratch worktree, never in /repo): patch applies; test-suite passes with it; demo exits 1 with it and 0
without it.  Then the named quick checks are run against /repo with the patch applied and undone straight afterwards."""
import sys, os, subprocess, json, shutil, tempfile
wt, name, checks = sys.argv[1], sys.argv[2], sys.argv[3:]
dst = f'/verif/seeded/{name}'
os.makedirs(dst, exist_ok=True)
for f in ('patch.diff', 'demo.py', 'meta.json'):
    shutil.copy(os.path.join(wt, f), dst)
scratch = tempfile.mkdtemp(prefix='knee-mut-')
os.rmdir(scratch)
def sh(cmd, cwd=None, env=None):
    e = dict(os.environ); e.update(env or {})
    return subprocess.run(cmd, shell=True, cwd=cwd, env=e, capture_output=True, text=True)
sh(f'git -C /repo worktree add -q --detach {scratch} HEAD')
env = {'PYTHONPATH': f'{scratch}/src'}
log = {}
try:
    r0 = sh(f'/venv/bin/python {dst}/demo.py', cwd=scratch, env=env); log['demo_without'] = r0.returncode
    a = sh(f'git apply {dst}/patch.diff', cwd=scratch); log['applies'] = a.returncode == 0
    t = sh('/venv/bin/python -m pytest -q -p no:cacheprovider test 2>&1 | tail -1', cwd=scratch, env=env); log['tests'] = t.stdout.strip()
    r1 = sh(f'/venv/bin/python {dst}/demo.py', cwd=scratch, env=env); log['demo_with'] = r1.returncode
    log['demo_output'] = (r1.stdout + r1.stderr)[-600:]
finally:
    sh(f'git -C /repo worktree remove --force {scratch}')
ok = log.get('applies') and log.get('demo_without') == 0 and log.get('demo_with') == 1 and 'passed' in log.get('tests', '') and 'failed' not in log.get('tests', '')
log['confirmed'] = bool(ok)
det = {}
if ok and checks:
    # run the checks against a scratch worktree carrying the patch (KNEE_REPO), never against /repo itself
    w2 = tempfile.mkdtemp(prefix='knee-mutchk-')
    os.rmdir(w2)
    sh(f'git -C /repo worktree add -q --detach {w2} HEAD')
    try:
        sh(f'git apply {dst}/patch.diff', cwd=w2)
        for c in checks:
            r = sh(f'bin/check {c} --tier quick', cwd='/verif', env={'KNEE_REPO': w2, 'VERIF_EVIDENCE_DIR': w2 + '/.verif-evidence'})
            line = next((l for l in r.stdout.splitlines() if 'VIOLATION' in l), '')
            det[c] = dict(rc=r.returncode, line=line)
    finally:
        sh(f'git -C /repo worktree remove --force {w2}')
meta = json.load(open(f'{dst}/meta.json'))
meta['validation'] = log
meta['checks_run'] = det
meta['detected_by'] = [c for c, v in det.items() if v['rc'] == 1]
json.dump(meta, open(f'{dst}/meta.json', 'w'), indent=1)
print(json.dumps(dict(name=name, confirmed=ok, tests=log.get('tests'), detected_by=meta['detected_by'], missed=[c for c, v in det.items() if v['rc'] != 1]), indent=0))
if not ok:
    print(log)

#!/usr/bin/env python3
"""For every seeded change: run the first detecting check against a scratch worktree carrying the patch and keep the
replay it reports as a corpus seed (/verif/corpus/<Cxx>/<name>.json). Corpus seeds are replayed first on every run."""
import os, json, subprocess, tempfile, shutil, re, sys
V = '/verif'
only = set(sys.argv[1:])
for name in sorted(os.listdir(f'{V}/seeded')):
    meta = json.load(open(f'{V}/seeded/{name}/meta.json'))
    det = meta.get('detected_by') or []
    if not det or (only and name not in only):
        continue
    prop = meta.get('property', det[0])
    chk = prop if prop in det else det[0]
    dst = f'{V}/corpus/{chk}/seeded-{name}.json'
    if os.path.exists(dst):
        continue
    w = tempfile.mkdtemp(prefix='knee-harv-'); os.rmdir(w)
    subprocess.run(f'git -C /repo worktree add -q --detach {w} HEAD', shell=True)
    try:
        subprocess.run(f'git apply {V}/seeded/{name}/patch.diff', shell=True, cwd=w)
        r = subprocess.run(f'bin/check {chk} --tier quick', shell=True, cwd=V, env=dict(os.environ, KNEE_REPO=w), capture_output=True, text=True)
        m = re.search(r'VIOLATION property=\S+ replay=(\S+)', r.stdout)
        if m and 'no-failing-input-found' not in r.stdout.split(m.group(0))[1].split('\n')[0]:
            os.makedirs(os.path.dirname(dst), exist_ok=True)
            shutil.copy(f'{V}/{m.group(1)}', dst)
            print('kept', dst)
        else:
            print('no concrete replay for', name, chk)
    finally:
        subprocess.run(f'git -C /repo worktree remove --force {w}', shell=True)

#!/usr/bin/env python3
"""Regenerates /verif/MANIFEST.json from the table below (single source of truth)."""
import json, os
V = os.path.dirname(os.path.dirname(os.path.abspath(__file__)))
TB = ("Trusted: Lean 4.33 kernel (axioms propext, Classical.choice, Quot.sound only; no sorry/native_decide), the hand-written "
      "Lean model (tied to /repo by the differential correspondence run on every check: same inputs/oracle values -> same outputs), "
      "the Python harness (generators, float->rational conversion, predicates).")
CHECKS = {
 'C07': dict(
   text="Theorems for ALL strictly increasing reductions and ALL ascending position lists (mapping_computeRemoved), ALL row orders "
        "(mapping_unsorted), accounting (computeRemoved_total/length) about an integer-only Lean model; the model is tied to rdp.mapping / "
        "rdp.compute_removed_points by exact differential correspondence (exhaustive for n<=9, random to n=2000, simplifier outputs).",
   note=TB + " No oracle, no tolerance: integers only.",
   tech="Lean 4 proof (induction over the position list with a running-count invariant) + exact differential correspondence of the model with the Python code",
   ref="DESIGN.md §3 C07"),
}
CHECKS.update({
 'C01': dict(
   text="Oracle-parametric Lean theorems (for ALL cost/distance/ordering/global-cost oracle values, ALL n>=2, ALL k, m, threshold lists): rdp_total_wf "
        "(fuel 2n never exhausted; strictly increasing 0..n-1; removed table = compute_removed_points; retained+dropped=n), rdp_steps_linear (<= 2n-3 "
        "iterations), fixed_wf, grdp_total_wf, mp_wf, minpoint_wf (state invariant RInv of the shared refinement step). Tie to /repo: exact equality of "
        "(reduced, removed) for 5 entry points x 2 distances x 5 metrics x 3 orders with oracle values taken from the package's own public primitives, "
        "plus while-iteration counts (sys.monitoring) against the linear bound.",
   note=TB + " Oracle values: IEEE rounding inside the primitives is not modelled - theorems quantify over all values. Domain: n>=2, t>0 (t<=1 for R2).",
   tech="Lean 4 proof (chain invariant + potential; permutation invariant of the keyed work stack) + exact oracle-fed differential correspondence",
   ref="DESIGN.md §3 C01"),
 'C04': dict(
   text="Lean theorem rdp_is_recursive_partition: for all oracles, the loop's output admits a derivation in the inductive nondeterministic RDP specification "
        "IsRDP (leaf = accepting cost; node = rejecting cost, split strictly inside at a farthest interior point); corollaries retained_segment_accepts, "
        "retained_interior_explained, partition_tiles. Tie: exact oracle-fed correspondence of rdp.rdp + a tolerant recursive explainer on the real output.",
   note=TB + " 'farther' is compared on the oracle values the code itself saw (exact); the explainer on the real output grants 1e-9 relative rounding noise.",
   tech="Lean 4 proof (induction on fuel producing an inductive derivation) + exact oracle-fed differential correspondence",
   ref="DESIGN.md §3 C04"),
 'C05': dict(
   text="Lean theorems fixed_card (|S_k| = min(max(k,2),n) for every k) and fixed_nested_greedy (S_{k+1} = S_k + one new index strictly inside the top "
        "segment of the work stack; the stack is exactly the retained segments with interior points and its top has the maximal recorded score; the index is the "
        "eps-guarded farthest interior point), for all oracles. Tie: exact correspondence of rdp_fixed for every k in 0..n+1 per curve + direct predicate.",
   note=TB + " Python's stable list.sort is modelled by a stable insertion sort (sortKeyed_perm/sortKeyed_sorted proved).",
   tech="Lean 4 proof (loop invariant: stack ~ gaps(reduced), sorted by key) + exact oracle-fed differential correspondence over the whole chain k=0..n+1",
   ref="DESIGN.md §3 C05"),
 'C06': dict(
   text="Lean theorems grdp_eq_first (grdp = S_k for the least k>=2 whose global cost is accepted, all points if none), mp_eq (S_max(k*,min(m,n))), minpoint_eq "
        "(first threshold in descending order with >= m points, else S_m), acceptOf_mono; for every acceptance predicate/oracle. Tie: exact correspondence with a lazily "
        "asked compute_global_cost oracle (fresh cache) + predicate built from real rdp_fixed/compute_global_cost calls.",
   note=TB,
   tech="Lean 4 proof (global loop = first accepted prefix of the fixed-size refinement sequence) + exact oracle-fed differential correspondence",
   ref="DESIGN.md §3 C06"),
})
NA = {}
props = [json.loads(l) for l in open(os.path.join(V, 'properties.jsonl'))]
checks = []
na = []
for p in props:
    i = p['id']
    if i in CHECKS:
        c = CHECKS[i]
        checks.append(dict(property_id=i, quick_cmd=f'bin/check {i} --tier quick', thorough_cmd=f'bin/check {i} --tier thorough',
                           evidence_file=f'/verif/evidence/{i}.json', replay_cmd_template=f'bin/check {i} --replay {{path}}',
                           engine='lean4-model+correspondence',
                           level_claimed=dict(category='proof', text=c['text'], design_ref=c['ref']),
                           level_note=c['note'], technique=c['tech']))
    else:
        na.append(dict(property_id=i, reason=NA.get(i, 'check not built yet in this round (planned: Lean 4 proof + correspondence, see DESIGN.md §3); not claimed until it exists')))
m = dict(version=1,
         setup_cmd='cd /verif/lean && lake build Knee driver',
         hooks=dict(guard='KNEE_VERIF', enable='none needed: no hooks are added to /repo (observation through public functions and sys.monitoring)',
                    baseline_off_cmd='cd /repo && /venv/bin/python -m pytest -ra -q -p no:cacheprovider --timeout=900 --continue-on-collection-errors',
                    source_commits=[], add_only=True),
         engines=[dict(name='lean4-model+correspondence', path='/verif/lean + /verif/harness',
                       serves_properties=[c['property_id'] for c in checks],
                       kind_free_text='Lean 4 theorems about a hand-written executable model; Python differential harness ties the model to /repo on every run')],
         checks=checks, not_applicable=na,
         notes='bin/check <ID> [--tier quick|thorough] [--replay file]; VERIF_SEED seeds every random choice. exit 0 held / 1 VIOLATION / 2 infrastructure.')
json.dump(m, open(os.path.join(V, 'MANIFEST.json'), 'w'), indent=1)
print('checks', len(checks), 'not_applicable', len(na))

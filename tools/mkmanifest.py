#!/usr/bin/env python3
"""Regenerates /verif/MANIFEST.json from the table below (single source of truth)."""
import json, os
V = os.path.dirname(os.path.dirname(os.path.abspath(__file__)))
TB = ("Trusted: Lean 4.33 kernel (axioms propext, Classical.choice, Quot.sound only; no sorry/native_decide), the hand-written "
      "Lean model (tied to /repo by the differential correspondence run on every check: same inputs/oracle values -> same outputs), "
      "the Python harness (generators, float->rational conversion, predicates).")
CHECKS = {
 'C07': dict(
   text="Theorems for ALL strictly increasing reductions and ALL ascending position lists (mapping_computeRemoved), ALL row orders "
        "(mapping_unsorted), accounting (computeRemoved_total/length) about an integer-only Lean model; the model is tied to rdp.mapping / "
        "rdp.compute_removed_points by exact differential correspondence (exhaustive for n<=9, random to n=2000, simplifier outputs).",
   note=TB + " No oracle, no tolerance: integers only.",
   tech="Lean 4 proof (induction over the position list with a running-count invariant) + exact differential correspondence of the model with the Python code",
   ref="DESIGN.md §3 C07"),
}
CHECKS.update({
 'C01': dict(
   text="Oracle-parametric Lean theorems (for ALL cost/distance/ordering/global-cost oracle values, ALL n>=2, ALL k, m, threshold lists): rdp_total_wf "
        "(fuel 2n never exhausted; strictly increasing 0..n-1; removed table = compute_removed_points; retained+dropped=n), rdp_steps_linear (<= 2n-3 "
        "iterations), fixed_wf, grdp_total_wf, mp_wf, minpoint_wf (state invariant RInv of the shared refinement step); Props/C01S: step counters agreeing with the loops, linear step bounds for ALL five simplifiers (fixed = min(k-2,n-2); global <= n-2; min-points <= n-2; multi-threshold <= (|ts|+1)(n-2)), one retained index per step, removed table rows for the four stack-ordered simplifiers. Tie to /repo: exact equality of "
        "(reduced, removed) for 5 entry points x 2 distances x 5 metrics x 3 orders with oracle values taken from the package's own public primitives, "
        "plus while-iteration counts (sys.monitoring) against the linear bound.",
   note=TB + " Oracle values: IEEE rounding inside the primitives is not modelled - theorems quantify over all values. Domain: n>=2, t>0 (t<=1 for R2).",
   tech="Lean 4 proof (chain invariant + potential; permutation invariant of the keyed work stack) + exact oracle-fed differential correspondence",
   ref="DESIGN.md §3 C01"),
 'C04': dict(
   text="Lean theorem rdp_is_recursive_partition: for all oracles, the loop's output admits a derivation in the inductive nondeterministic RDP specification "
        "IsRDP (leaf = accepting cost; node = rejecting cost, split strictly inside at a farthest interior point); corollaries retained_segment_accepts, "
        "retained_interior_explained, partition_tiles. Tie: exact oracle-fed correspondence of rdp.rdp + a tolerant recursive explainer on the real output.",
   note=TB + " 'farther' is compared on the oracle values the code itself saw (exact); the explainer on the real output grants 1e-9 relative rounding noise.",
   tech="Lean 4 proof (induction on fuel producing an inductive derivation) + exact oracle-fed differential correspondence",
   ref="DESIGN.md §3 C04"),
 'C05': dict(
   text="Lean theorems fixed_card (|S_k| = min(max(k,2),n) for every k) and fixed_nested_greedy (S_{k+1} = S_k + one new index strictly inside the top "
        "segment of the work stack; the stack is exactly the retained segments with interior points and its top has the maximal recorded score; the index is the "
        "eps-guarded farthest interior point), for all oracles. Tie: exact correspondence of rdp_fixed for every k in 0..n+1 per curve + direct predicate "
        "(size, nesting, farthest point, maximal score) evaluated both with the package's own primitives and with a harness-owned geometric reference for distance and score.",
   note=TB + " Python's stable list.sort is modelled by a stable insertion sort (sortKeyed_perm/sortKeyed_sorted proved).",
   tech="Lean 4 proof (loop invariant: stack ~ gaps(reduced), sorted by key) + exact oracle-fed differential correspondence over the whole chain k=0..n+1",
   ref="DESIGN.md §3 C05"),
 'C06': dict(
   text="Lean theorems grdp_eq_first (grdp = S_k for the least k>=2 whose global cost is accepted, all points if none), mp_eq (S_max(k*,min(m,n))), minpoint_eq "
        "(first threshold in descending order with >= m points, else S_m), minpoint_largest_threshold (Props/C06B: the descending sort is a sorted permutation, so that is the LARGEST listed threshold reaching m points), acceptOf_mono; for every acceptance predicate/oracle. Tie: exact correspondence with a lazily "
        "asked compute_global_cost oracle (fresh cache) + predicate built from real rdp_fixed/compute_global_cost calls.",
   note=TB,
   tech="Lean 4 proof (global loop = first accepted prefix of the fixed-size refinement sequence) + exact oracle-fed differential correspondence",
   ref="DESIGN.md §3 C06"),
})
CHECKS.update({
 'C11': dict(
   text="Lean theorems about ONE skeleton shared by the four linkages, for every distance oracle, threshold and n: labels_length, labels_start_at_zero, labels_step, "
        "labels_monotone, labels_rule (a new cluster starts at i iff the linkage distance of i to the cluster containing i-1 is >= t), count_antitone_of_antitone_start "
        "with corollaries single_count_antitone and complete_count_antitone (exact Q distances, strictly increasing x), centroid_is_mean (incremental update = arithmetic mean in Q). "
        "Tie: oracle-fed exact label correspondence for all four linkages, exact-Q model on conclusive cases, Layer-N value check of the four distance definitions.",
   note=TB + " Float evaluation of the linkage distance is an oracle (harness evaluates the property's definition in float64); exact-Q comparisons are made only where every margin exceeds 2^-30 or the float value is exactly the rational one.",
   tech="Lean 4 proof (prefix invariant of the label walk; two-run simulation for antitonicity; field arithmetic for the centroid) + oracle-fed differential correspondence",
   ref="DESIGN.md §3 C11"),
 'C13': dict(
   text="Lean theorems for every height function, IoU oracle, threshold and knee list: worst_sublist, worst_heights_nonincreasing, worst_idempotent, worst_is_running_minimum "
        "(kept knees = prefix-minimum records), corner_partition, corner_disjoint, corner_filter_rule, corner_select_rule, sublist/idempotence of both corner filters. "
        "Tie: exact correspondence of filter_worst_knees / filter_corner_knees / select_corner_knees with IoU values from the package's own rect/rect_overlap.",
   note=TB + " IoU is an oracle here; its exact definition is tied to rect_overlap under C17.",
   tech="Lean 4 proof (structural induction over the knee list) + exact oracle-fed differential correspondence",
   ref="DESIGN.md §3 C13"),
 'C19': dict(
   text="Lean theorems for every distance oracle, tolerance and sizes: cm_tp_fn, cm_tp_fp (used knees are duplicate-free indices < |K|), cm_sum, cm_tn_nonneg, cm_greedy_step; "
        "accuracy_unit, f1_unit, mcc_sq_le_one ((tp*tn-fp*fn)^2 <= (tp+fp)(tp+fn)(tn+fp)(tn+fn)), perfect-detection values; matching errors (Props/C19M): nearest_closest, mae/mse/rmspe^2 >= 0, = 0 when E is the knee points (mseSides_eq_zero_iff), strategy_* (which side each strategy iterates). Tie: exact oracle-fed correspondence of evaluation.cm; "
        "direct predicates for accuracy/F1/MCC ranges and for MAE/MSE/RMSE/RMSPE against a reference nearest-neighbour matching for the 4 strategies.",
   note=TB + " RMSE = sqrt(MSE) is a direct predicate (sqrt is not modelled); (near-)equidistant nearest neighbours are compared relationally.",
   tech="Lean 4 proof (Nodup/pigeonhole invariant of the greedy matching; polynomial inequality for MCC) + exact oracle-fed differential correspondence",
   ref="DESIGN.md §3 C19"),
})
CHECKS.update({
 'C02': dict(
   text="Lean theorems for every detector satisfying the range contract (DetOK / DetInterior - themselves theorems for the five detector models in C09), every gate and t2: "
        "multiKnee_total (fuel 2n+1 never exhausted), multiKnee_steps, multiKnee_eq_rec (the stack loop's sorted output IS the in-order recursion), multiKneeRec_unfold / "
        "multiKnee_self_similar ({k} U result on points[0..k] U shifted result on points[k+1..]), multiKnee_sorted_range, multiKnee_interior, multiKnee_empty; Props/C02D discharges the contract for each of the five real detector models (multiKnee_{curv,menger,dfdt,lmethod,kneedle}_wf). "
        "Tie: exact correspondence of multi_knee of the 5 modules with criterion oracles (never the detector's own knee()), plus the self-similarity predicate evaluated with real calls.",
   note=TB + " Criterion arrays (gradients, ISODATA threshold, Menger curvature, L-method errors, Kneedle difference curve, SMAPE gate) are oracles from uts/package primitives.",
   tech="Lean 4 proof (stack machine refines structural recursion; potential 2m-1) + exact oracle-fed differential correspondence",
   ref="DESIGN.md §3 C02"),
 'C09': dict(
   text="Lean theorems over arbitrary criterion arrays: curvKnee_range/opt/first, mengerKnee_range/opt/zero_iff_flat, dfdtInner_opt, dfdtKnee_range, dfdt_rounds_le, dfdtLoop_fuel "
        "(the loop stops by its own condition within n rounds), lmethodScan_range/opt/first, lmethod_refine_total (terminates for none, original and adjusted, any error oracle, n>=5, limit>=4), "
        "kneedleKnee_range/is_peak/highest/none_iff. Tie: exact oracle-fed correspondence of knee() of the five modules (all Fit x Refinement x limit), loop budget, direct optimum predicate.",
   note=TB + " The criterion VALUES (|f''|/(1+f'^2)^1.5, ISODATA, Menger curvature, two-line error) are oracles here; their definitions are tied under C03/C16/C17.",
   tech="Lean 4 proof (first-extremum specs; potential functions for the DFDT and L-method refinement loops) + exact oracle-fed differential correspondence",
   ref="DESIGN.md §3 C09"),
})
CHECKS.update({
 'C16': dict(
   text="Lean theorems over Q for all vectors: rss/mse/smape symmetric; rss, mse, rmspe^2, rmsle^2 (any log), rpd, smape >= 0 and = 0 at y = y_hat; smape_le_two; r2_le_one, r2_self; "
        "adjust_def/adjust_le; fit_through_ends, lineQ_head/getLast, fit_vertical; corrSq_nonneg, corrSq_le_one (list Cauchy-Schwarz); Props/Invariance: rssQ/mseQ/r2Q/corrSqQ under affine maps, and the eps-guarded ratio metrics are NOT scale invariant (scaling by s = guard eps/s). Tie: the exact-Q value of every metric is compared "
        "with metrics.* / linear_fit.* on vector pairs y != y_hat (non-negative for all metrics; signed vectors for residuals, RMSE, SMAPE, R2) under a cancellation-scaled 1e-9 tolerance (squares for rooted metrics, np.log values supplied), plus bit-wise predicates "
        "(symmetry, zeros, bounds, wrappers == metrics(y, m*x+b), best-fit R2 == squared Pearson correlation).",
   note=TB + " IEEE rounding is not modelled: 'to within floating-point rounding' is the tolerance above on dyadic inputs. log is a parameter of the RMSLE theorems.",
   tech="Lean 4 proof (ordered-field algebra over Q with single Mathlib modules) + Layer-N value correspondence with tolerance",
   ref="DESIGN.md §3 C16"),
 'C17': dict(
   text="Lean theorems over Q: perpSq is the minimum over the whole line and shortestSq the minimum over the closed segment of the squared distance (both attained; a = b case); "
        "IoU symmetric, in [0,1], 1 for identical non-degenerate rectangles, 0 for disjoint ones; Menger curvature^2 symmetric under all permutations, 0 iff collinear, = 1/circumradius^2 "
        "(existence of an equidistant centre); rankOf is a permutation of 0..n-1 that orders the values (stable); Props/Invariance: perpSq/shortestSq/mengerSq/triArea translation invariant and homogeneous (degrees 2, 2, -2, 2), hence inputs at 1e-9 scale, 1e9 scale and with large common offsets are judged with relative rounding scales. Tie: exact-Q values vs linear_fit.shortest/perpendicular_distance_*, "
        "knee_ranking.rect_overlap, menger.menger_curvature, postprocessing.triangle_area under tolerance; rank exact; sub-range and symmetry predicates on the real code.",
   note=TB + " Square roots are avoided by comparing squares; rounding is the stated tolerance.",
   tech="Lean 4 proof (Lagrange identity, field_simp/ring/nlinarith over Q) + Layer-N value correspondence with tolerance",
   ref="DESIGN.md §3 C17"),
 'C18': dict(
   text="Lean theorems for every x-sorted curve over Q, n>=2: hullLower/hullUpper_indices (strictly increasing chain 0..n-1), _strict_turns, _supports (EVERY input point on or above / below EVERY "
        "chain edge line - the full hull property, via exact orientation identities), hullUpper_eq_reflect; graham_scan in general position (Props/C18G): grahamScan_head, _length, _strict_turns(+closing), _supports_cyclic, _supports_strict, grahamScan_is_hull, angLt_trans, sortAng_sorted; graham_scan on ARBITRARY sets of >= 3 distinct points (Props/C18H, collinear triples and all-collinear sets included): grahamScanD_supports_cyclic (every input point on or right of every edge of the closed output polygon), grahamScanD_head/_length, grahamScanD_boundary_only (a supporting line through every output vertex), grahamScanD_extreme_included (every strict unique maximiser of a linear functional is output); grahamScan_nodup_bounded. Tie: exact comparison of "
        "graham_scan_lower/upper/graham_scan with the model on integer/dyadic coordinates + brute-force hull specification on the real output (extreme vertices, boundary only, clockwise order in general position).",
   note=TB + " graham_scan on degenerate sets (collinear triples) is now a theorem too (C18H); the brute-force specification on sampled point sets remains as the direct predicate on the real output.",
   tech="Lean 4 proof (stack = hull-of-prefix invariant with ring-checked orientation identities) + exact differential correspondence + brute-force relational spec",
   ref="DESIGN.md §3 C18"),
})
CHECKS.update({
 'C08': dict(
   text="Lean theorems pipeline_wf / pipeline_hull_wf for the composed post-detection pipeline (worst -> corner -> cluster filter -> mapping), for every height function, IoU/score/hull-error oracle, "
        "labelling and threshold: every filter stage is a Sublist of its input, heights are non-increasing from the worst-knee filter on, the mapped output equals reduced[k] for the surviving "
        "reduced-space knees, is strictly increasing and a subset of the retained points. The simplifier and multi-knee stages are C01/C02 theorems (well-formed reduction; strictly increasing interior knees); Props/C08E pipeline_end_to_end states the conclusion for the WHOLE composition pipelineFull (simplify -> multi-knee -> filters -> cluster filter -> map back), and Props/C08F pipelineCfg_end_to_end for EVERY configuration: 5 simplifiers (simplify_wf) x any detector/gates x 3 cluster filters (rank, hull, corners; clusterStage_sublist) x 2 final stages (rdp.mapping, add_points_even). "
        "Tie: the real pipeline exactly as the demos compose it (5 simplifiers x 5 detectors x 4 linkages x 4 ranking modes) compared stage by stage with the models, on synthetic families and the bundled traces.",
   note=TB + " Each model stage is fed the real output of the previous stage; in addition the whole pipeline of every configuration is run as ONE model call (pipeline_cfg = the monadic twin pipelineCfgM at IO, lazily asked oracles; Lemmas/BridgeCfg pipelineCfgM_id proves the twin at Id IS pipelineCfg) and compared with the real end result stage by stage; every case is evaluated a second time under a different call history (history phase).",
   tech="Lean 4 proof (composition of the stage theorems C07/C12/C13 with a sublist/monotone-map argument) + stage-by-stage exact differential correspondence of the real pipeline",
   ref="DESIGN.md §3 C08"),
 'C12': dict(
   text="Lean theorems for every score / hull-error / area oracle and every labelling: groups_flatten, groups_ordered; pickByRank_max (argmax of the ranks is a maximiser of the scores); "
        "clusterFilter_one_per_cluster (exactly one member of every cluster, maximal score in multi-member clusters), clusterFilter_sublist/_strict; clusterFilterHull_sublist/_strict/_at_most_one/_needs_hull; "
        "clusterFilterCorners_max (first maximiser of the corner-triangle score). Tie: exact correspondence of filter_clusters (4 modes x 4 linkages) and filter_clusters_corners with oracle values from "
        "smooth_ranking / shortest_distance_points / rank_corners_triangle / graham_scan_lower; relational on equal scores.",
   note=TB + " NumPy's argsort tie order is not modelled: on equal scores only the specification predicate (chosen member attains the maximum) is checked.",
   tech="Lean 4 proof (grouping by contiguous labels; rank/argmax lemmas) + exact oracle-fed differential correspondence, relational on ties",
   ref="DESIGN.md §3 C12"),
 'C14': dict(
   text="Lean theorems: evenInsert_length/range/spaced (ceil(w/2tx) evenly index-spaced points inside the segment), dedupSort = sorted duplicate-free union, addEven_eq (both mapping calls are reduced[.] by C07), "
        "addEven_valid / addEvenKnees_valid (every returned index < n), _strict, _heights (running-minimum filtered), addEvenKnees_mem (every result is a knee, an inserted point of a wide gap or an end point), "
        "nptsQ_ge_two. Tie: exact correspondence of add_points_even / add_points_even_knees with the two float decisions per segment as oracles, exact-Q decisions on conclusive cases, independent reference predicate.",
   note=TB + " The float decisions (width/height test, ceil) are oracles evaluated by the harness from the property's definition.",
   tech="Lean 4 proof (index arithmetic, dedup-sort, reuse of C07 and C13 theorems) + exact oracle-fed differential correspondence",
   ref="DESIGN.md §3 C14"),
 'C15': dict(
   text="Lean theorems: cache transparency as a state-machine invariant over ALL query histories (lookupSeg_ok, evalSegs_ok, evalShared_eq_fresh, runShared_eq_fresh: any sequence of breakpoint sets against one "
        "shared cache returns the fresh-cache values), gcost_nonneg, gcost_all_breakpoints (0, or 1 for R2), segments_le2_zero, gcost_divisor (n + #segments - 1), gcost_r2_clip, partialQ_nonneg, grmseSq_nonneg, "
        "median/MAD lemmas. Tie: value correspondence of compute_global_cost with the model fed per-segment partial costs (1e-12) and with the fully exact-Q model (1e-9, y bounded away from 0 for ratio metrics); "
        "bit-wise shared == fresh on the real code and cache contents == fresh values over random query histories; global RMSE vs np.interp; MIP vs the model.",
   note=TB + " One cache serves one (curve, metric) - the cache key carries no metric. sqrt is a parameter (rooted metrics compared by squares).",
   tech="Lean 4 proof (cache invariant by induction over the query history; algebra over Q) + value correspondence and bit-wise cache-transparency predicate",
   ref="DESIGN.md §3 C15"),
})
CHECKS.update({
 'C10': dict(
   text="Lean theorems for the Z-method loop over Q, for every z-score array, band sizes and threshold sequence: zLoop_total (terminates within K + n + 2 rounds once the threshold sequence is below min z "
        "from round K on; every productive round removes the selected point), zKnees_valid, zKnees_strict, sweep_heights (non-increasing heights), zLoop_sep / zLoop_final_separated / zPoints_separated (any two reported "
        "knees are >= w apart in x and >= h apart in y - single- AND multi-group rounds, via the invariant Sep/Clear and the group-gap lemma), zLoop_outl_from_pts; Props/C10B exact_thresholds_reach / zLoop_total_exact (for the exact halving sequence 3, 3-dz, ... the loop terminates with no assumption on the thresholds). Tie: exact index correspondence of zmethod.knees with the "
        "model fed the package's own z-scores, integer band width, float band height and float threshold sequence; direct separation/ordering predicates on the real result.",
   note=TB + " dz below the float resolution of 3.0 is outside the generators (exact arithmetic cannot exhibit absorption); z-score ties between same-round groups are relational.",
   tech="Lean 4 proof (separation invariant + length-decreasing productive rounds) + exact oracle-fed differential correspondence",
   ref="DESIGN.md §3 C10"),
 'C20': dict(
   text="(b) linking - translator + kernel-decided finite table: harness/linkgraph.py regenerates Knee/Generated/LinkTable.lean from /repo/src on every run (CPython ast + symtable; dir() and signatures of the "
        "installed modules) and Lean decides it: all_resolve (decide +kernel, no extra axiom), lifted by subsetSorted_sound to every_reference_resolves; the listed known-finding call site is PROVED to be an arity error "
        "(known_bad_really_bad). (a) purity / determinism / layout independence - decided by observation only: ~100 public functions x {C, Fortran, strided view, int64} representations, deep argument snapshots, repeated calls, and history independence: the results obtained after hundreds of earlier calls (sibling inputs: same sizes and index arguments, other curves) are compared with a fresh interpreter evaluating the same calls in reverse order.",
   note=TB + " (a) is partial: aliasing, in-place writes and hidden module state are runtime behaviour the value-level model cannot exhibit. Trusted for (b): CPython symtable/ast, hasattr/inspect.signature on the live modules.",
   tech="translator (ast+symtable) regenerating a finite link table decided by Lean's kernel (decide +kernel) + observational layout/purity harness",
   ref="DESIGN.md §3 C20"),
})
CHECKS.update({
 'C03': dict(
   text="Lean theorems over Q for EVERY exact two-slope elbow (structure IsElbow: any strictly increasing x, any distinct rational slopes, any offset, arms >= 3 segments - more general than the property): "
        "elbow_curvature, elbow_menger, elbow_dfdt (with a full model of ISODATA: isodata_between - the corner gradient is strictly closer to the threshold than either slope; incl. the tail refinement), "
        "lmethod_elbow_gen (L-method for EVERY Fit x Cost x Refinement option and every limit, least squares via olsRss, sqrt a parameter with sq 0 = 0 and positivity), elbow_kneedle (t = 0, all four direction x concavity cases on monotone elbows). Tie: all five real detectors with every Fit x Cost x Refinement x limit return the corner on sampled elbows (arms to 1500), "
        "the oracle-fed and the exact-Q detector models agree, cfdQ/csdQ vs uts.gradient under tolerance.",
   note=TB + " Trusted beyond the usual: np.polyfit's residual = olsRss, uts ISODATA = isodataQ, ema_linear(tau=0) = identity (tied by the sampled correspondence only).",
   tech="Lean 4 proof (exact criteria over Q: three-point derivatives, Menger curvature, RSS of end-point lines, ISODATA iteration invariant) + differential correspondence on exact elbows",
   ref="DESIGN.md §3 C03"),
})
NA = {}
props = [json.loads(l) for l in open(os.path.join(V, 'properties.jsonl'))]
checks = []
na = []
EXTRA = {
 'C02': " Props/C02S: self-similarity stated on SLICES with shifted oracles (multiKnee_slice, multiKnee_slice_cases), as the property words it.",
 'C05': " Props/C05S: with segment-determined scores the refined segment has the maximal SCORE (fixed_greedy_score); boundary sizes (k <= 2, k >= n) and nesting for all j <= k.",
 'C07': " Props/C07S: mapping after EVERY simplifier equals reduced[I], sorted and for any row permutation unsorted; simplifier_removed_is_computeRemoved for all five.",
 'C08': " Props/C08G: the end-to-end theorem instantiated with each of the five bundled detector models (no DetOKLarge hypothesis left; documented minimum t2).",
 'C10': " Props/C10S: heights non-increasing and x / y separations restated for the returned INDICES against the input arrays (zKnees_spec).",
 'C12': " Props/C12S: no member of a cluster without a hull point occurs in the hull-mode output (>= 2 knees); instantiations with the Layer-N scores smoothScores / cornerTriQ.",
 'C15': " Props/C15S: independent piecewise-linear interpolation spec interpQ; global RMSE = MSE against the interpolant; global cost = metric numerator against the interpolant over the divisor n + #segments - 1 (every interior breakpoint counted once per adjoining segment); R2 clipped.",
 'C16': " Props/C16S: best-fit R2 = squared Pearson correlation (r2_ols_eq_corrSq); OLS minimises RSS.",
 'C18': " Props/C18U: the lower / upper chain is UNIQUE among strictly increasing, strictly turning, supporting chains (hullLower_iff): exactly the brute-force hull chain.",
 'C19': " Props/C19S: MCC = +1 (sign) on perfect detection; RMSE = root of MSE for a parametric root.",
}
for _k, _v in EXTRA.items():
    CHECKS[_k]['text'] = CHECKS[_k]['text'] + _v
# batch 11: integral curves are also delivered to the real code as int64 arrays (byte-count magnitudes included), references keep the float64 copy
for _k in ('C02', 'C03', 'C08', 'C09', 'C10', 'C12', 'C13', 'C14', 'C15', 'C16', 'C18', 'C19'):
    CHECKS[_k]['note'] = CHECKS[_k]['note'] + ' Integral curves are also run as int64 arrays (small abscissae, heights up to byte-count size, DESIGN section 4 "domain decisions"); oracles and references stay on the float64 copy.'
# batch 13: long inputs in every check
for _k in CHECKS:
    if _k != 'C20':
        CHECKS[_k]['note'] = CHECKS[_k]['note'] + ' Every run includes a few LONG inputs (1100-1600 and beyond 4096 points / entries, deep recursion, a giant trace in C08); where the exact reference is quadratic only the direct predicates judge them.'
CHECKS['C20']['note'] = CHECKS['C20']['note'] + ' Refilled-work-array clause: every registry function is also called on argument arrays that first held a sibling input and were then overwritten in place.'
for p in props:
    i = p['id']
    if i in CHECKS:
        c = CHECKS[i]
        checks.append(dict(property_id=i, quick_cmd=f'bin/check {i} --tier quick', thorough_cmd=f'bin/check {i} --tier thorough',
                           evidence_file=f'/verif/evidence/{i}.json', replay_cmd_template=f'bin/check {i} --replay {{path}}',
                           engine='lean4-model+correspondence',
                           level_claimed=dict(category='proof', text=c['text'], design_ref=c['ref']),
                           level_note=c['note'], technique=c['tech']))
    else:
        na.append(dict(property_id=i, reason=NA.get(i, 'check not built yet in this round (planned: Lean 4 proof + correspondence, see DESIGN.md §3); not claimed until it exists')))
m = dict(version=1,
         setup_cmd='cd /verif/lean && lake build Knee driver',
         hooks=dict(guard='KNEE_VERIF', enable='none needed: no hooks are added to /repo (observation through public functions and sys.monitoring)',
                    baseline_off_cmd='cd /repo && /venv/bin/python -m pytest -ra -q -p no:cacheprovider --timeout=900 --continue-on-collection-errors',
                    source_commits=[], add_only=True),
         engines=[dict(name='lean4-model+correspondence', path='/verif/lean + /verif/harness',
                       serves_properties=[c['property_id'] for c in checks],
                       kind_free_text='Lean 4 theorems about a hand-written executable model; Python differential harness ties the model to /repo on every run')],
         checks=checks, not_applicable=na,
         notes='bin/check <ID> [--tier quick|thorough] [--replay file]; VERIF_SEED seeds every random choice. exit 0 held / 1 VIOLATION / 2 infrastructure.')
json.dump(m, open(os.path.join(V, 'MANIFEST.json'), 'w'), indent=1)
print('checks', len(checks), 'not_applicable', len(na))

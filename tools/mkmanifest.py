#!/usr/bin/env python3
"""Regenerates /verif/MANIFEST.json from the table below (single source of truth)."""
import json, os
V = os.path.dirname(os.path.dirname(os.path.abspath(__file__)))
TB = ("Trusted: Lean 4.33 kernel (axioms propext, Classical.choice, Quot.sound only; no sorry/native_decide), the hand-written "
      "Lean model (tied to /repo by the differential correspondence run on every check: same inputs/oracle values -> same outputs), "
      "the Python harness (generators, float->rational conversion, predicates).")
CHECKS = {
 'C07': dict(
   text="Theorems for ALL strictly increasing reductions and ALL ascending position lists (mapping_computeRemoved), ALL row orders "
        "(mapping_unsorted), accounting (computeRemoved_total/length) about an integer-only Lean model; the model is tied to rdp.mapping / "
        "rdp.compute_removed_points by exact differential correspondence (exhaustive for n<=9, random to n=2000, simplifier outputs).",
   note=TB + " No oracle, no tolerance: integers only.",
   tech="Lean 4 proof (induction over the position list with a running-count invariant) + exact differential correspondence of the model with the Python code",
   ref="DESIGN.md §3 C07"),
}
NA = {}
props = [json.loads(l) for l in open(os.path.join(V, 'properties.jsonl'))]
checks = []
na = []
for p in props:
    i = p['id']
    if i in CHECKS:
        c = CHECKS[i]
        checks.append(dict(property_id=i, quick_cmd=f'bin/check {i} --tier quick', thorough_cmd=f'bin/check {i} --tier thorough',
                           evidence_file=f'/verif/evidence/{i}.json', replay_cmd_template=f'bin/check {i} --replay {{path}}',
                           engine='lean4-model+correspondence',
                           level_claimed=dict(category='proof', text=c['text'], design_ref=c['ref']),
                           level_note=c['note'], technique=c['tech']))
    else:
        na.append(dict(property_id=i, reason=NA.get(i, 'check not built yet in this round (planned: Lean 4 proof + correspondence, see DESIGN.md §3); not claimed until it exists')))
m = dict(version=1,
         setup_cmd='cd /verif/lean && lake build Knee driver',
         hooks=dict(guard='KNEE_VERIF', enable='none needed: no hooks are added to /repo (observation through public functions and sys.monitoring)',
                    baseline_off_cmd='cd /repo && /venv/bin/python -m pytest -ra -q -p no:cacheprovider --timeout=900 --continue-on-collection-errors',
                    source_commits=[], add_only=True),
         engines=[dict(name='lean4-model+correspondence', path='/verif/lean + /verif/harness',
                       serves_properties=[c['property_id'] for c in checks],
                       kind_free_text='Lean 4 theorems about a hand-written executable model; Python differential harness ties the model to /repo on every run')],
         checks=checks, not_applicable=na,
         notes='bin/check <ID> [--tier quick|thorough] [--replay file]; VERIF_SEED seeds every random choice. exit 0 held / 1 VIOLATION / 2 infrastructure.')
json.dump(m, open(os.path.join(V, 'MANIFEST.json'), 'w'), indent=1)
print('checks', len(checks), 'not_applicable', len(na))

#!/bin/sh
# usage: tools/try_patch.sh <patch.diff> C01 C04 ...   — apply to /repo, run the quick checks, undo.
P="$1"; shift
cd /repo || exit 2
git diff --quiet || { echo "repo dirty"; exit 2; }
git apply "$P" || { echo "patch does not apply"; exit 2; }
cd /verif
for c in "$@"; do
  out=$(bin/check "$c" --tier quick 2>&1); rc=$?
  echo "== $c rc=$rc :: $(echo "$out" | grep -m1 -E 'VIOLATION|KNOWN-FINDING|INFRA' )"
done
git -C /repo checkout -- . 

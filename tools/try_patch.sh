#!/bin/sh
# usage: tools/try_patch.sh <patch.diff> C01 C04 ...
# Applies the patch in a scratch worktree of /repo (never in /repo itself, so background sweeps are not disturbed),
# points the checks at it with KNEE_REPO, runs the quick checks, removes the worktree.
P="$1"; shift
W=$(mktemp -d /tmp/knee-try-XXXXXX); rmdir "$W"
git -C /repo worktree add -q --detach "$W" HEAD || exit 2
( cd "$W" && git apply "$P" ) || { echo "patch does not apply"; git -C /repo worktree remove --force "$W"; exit 2; }
cd /verif
for c in "$@"; do
  out=$(KNEE_REPO="$W" VERIF_EVIDENCE_DIR="$W/.verif-evidence" bin/check "$c" --tier quick 2>&1); rc=$?
  echo "== $c rc=$rc :: $(echo "$out" | grep -m1 -E 'VIOLATION|INFRA' )"
done
git -C /repo worktree remove --force "$W"

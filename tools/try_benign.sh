#!/bin/sh
# usage: tools/try_benign.sh <patch.diff> <label> [check ids…]   — a behaviour-preserving change must raise NO alarm.
# Applies the patch in a scratch worktree (KNEE_REPO), runs the quick checks (all 20 by default), prints every check whose rc != 0.
P="$1"; L="$2"; shift 2
IDS="$@"
[ -z "$IDS" ] && IDS="C01 C02 C03 C04 C05 C06 C07 C08 C09 C10 C11 C12 C13 C14 C15 C16 C17 C18 C19 C20"
W=$(mktemp -d /tmp/knee-ben-XXXXXX); rmdir "$W"
git -C /repo worktree add -q --detach "$W" HEAD || exit 2
( cd "$W" && git apply "$P" ) || { echo "$L: patch does not apply"; git -C /repo worktree remove --force "$W"; exit 2; }
cd /verif
bad=""
for c in $IDS; do
  out=$(KNEE_REPO="$W" VERIF_EVIDENCE_DIR="$W/.verif-evidence" bin/check "$c" --tier quick 2>&1); rc=$?
  if [ $rc -ne 0 ]; then bad="$bad $c"; echo "$L: ALARM $c rc=$rc :: $(echo "$out" | grep -m2 -E 'VIOLATION|INFRA|clause=' | tr '\n' ' ')"; fi
done
echo "$L: done; alarms:${bad:- none}"
git -C /repo worktree remove --force "$W"

#!/bin/sh
# usage: tools/run_all.sh "<seeds>" [ids…] — run quick checks for several seeds, print one line each
cd /verif
SEEDS="${1:-0}"; shift
IDS="$@"
[ -z "$IDS" ] && IDS=$(python3 -c "import json;print(' '.join(c['property_id'] for c in json.load(open('MANIFEST.json'))['checks']))")
for s in $SEEDS; do for c in $IDS; do
  out=$(VERIF_SEED=$s bin/check $c --tier quick 2>&1); rc=$?
  echo "seed=$s $c rc=$rc $(echo "$out" | grep -E 'VIOLATION|INFRA|KNOWN' | head -2 | tr '\n' ' ') $(echo "$out" | tail -1 | sed 's/.*wall=/wall=/')"
done; done

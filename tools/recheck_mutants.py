#!/usr/bin/env python3
"""Re-run every seeded change against its target check (and the checks that caught it before) in scratch worktrees of /repo
(KNEE_REPO; /repo itself is never touched) and refresh seeded/<name>/meta.json.  usage: tools/recheck_mutants.py [-j N] [name-prefix ...]"""
import json, os, subprocess, sys, tempfile, shutil
from concurrent.futures import ThreadPoolExecutor
V = os.path.dirname(os.path.dirname(os.path.abspath(__file__)))
args = sys.argv[1:]
J = 4
if args[:1] == ['-j']:
    J = int(args[1]); args = args[2:]
names = sorted(d for d in os.listdir(f'{V}/seeded') if os.path.exists(f'{V}/seeded/{d}/patch.diff') and (not args or any(d.startswith(a) for a in args)))


def work(name):
    mp = f'{V}/seeded/{name}/meta.json'
    m = json.load(open(mp))
    checks = [m['property']] + [c for c in (m.get('detected_by') or []) + (m.get('missed') or []) if c != m['property']]
    W = tempfile.mkdtemp(prefix='knee-re-', dir='/tmp'); os.rmdir(W)
    if subprocess.run(['git', '-C', '/repo', 'worktree', 'add', '-q', '--detach', W, 'HEAD']).returncode:
        return name, None
    try:
        if subprocess.run(['git', 'apply', f'{V}/seeded/{name}/patch.diff'], cwd=W).returncode:
            return name, 'patch does not apply'
        res = {}
        for c in checks:
            p = subprocess.run([f'{V}/bin/check', c, '--tier', 'quick'], cwd=V, env=dict(os.environ, KNEE_REPO=W, VERIF_EVIDENCE_DIR=W + '/.verif-evidence'), capture_output=True, text=True)
            line = next((l for l in p.stdout.splitlines() if l.startswith('VIOLATION')), '')
            res[c] = dict(rc=p.returncode, line=line)
        m['checks_run'] = {**m.get('checks_run', {}), **{c: {**m.get('checks_run', {}).get(c, {}), **r} for c, r in res.items()}}
        m['detected_by'] = [c for c in checks if res[c]['rc'] == 1]
        m['missed'] = [c for c in checks if res[c]['rc'] == 0]
        json.dump(m, open(mp, 'w'), indent=1)
        return name, res
    finally:
        subprocess.run(['git', '-C', '/repo', 'worktree', 'remove', '--force', W])


with ThreadPoolExecutor(J) as ex:
    for name, res in ex.map(work, names):
        if not isinstance(res, dict):
            print(name, 'ERROR', res); continue
        tgt = json.load(open(f'{V}/seeded/{name}/meta.json'))['property']
        print(f"{name:55s} target {tgt}: {'DETECTED' if res[tgt]['rc'] == 1 else 'rc=%d' % res[tgt]['rc']}   others: " + ' '.join(f"{c}={r['rc']}" for c, r in res.items() if c != tgt))

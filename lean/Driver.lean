import Knee.Model.Basic
import Knee.Model.Wire
import Knee.Model.Mapping
import Knee.Model.RdpM
import Knee.Model.Filters
import Knee.Model.PostM
import Knee.Model.DetectM
import Knee.Model.Metrics
import Knee.Model.Geometry
import Knee.Model.Hull
import Knee.Model.GlobalCost
import Knee.Model.ClusterFilter
import Knee.Model.EvenPoints
import Knee.Model.ZMethod
import Knee.Model.Elbow
import Knee.Model.KneedleQ
import Knee.Model.Isodata
import Knee.Model.Matching
import Knee.Model.Ranking
import Knee.Model.PipelineFull
import Knee.Model.PipelineCfgM
import Knee.Model.Neighbourhood
import Knee.Model.Knees2
import Knee.Model.EvalTrace
/-
Correspondence driver.  `lake env lean --run Driver.lean` (or the compiled `driver` exe).
Harness → driver : `CALL <fn> <arg> <arg> …`
driver → harness : `Q <oracle> <arg> …`   (harness answers with one line of tokens)
                   `R <result tokens>`    (final answer)   |   `E <message>` (bad call)
-/
open Knee Knee.Wire

def ask (out inp : IO.FS.Stream) (q : String) : IO (List String) := do
  out.putStrLn ("Q " ++ q)
  out.flush
  let line ← inp.getLine
  pure ((line.trimAscii.toString.splitOn " ").filter (· ≠ ""))

def orErr {α} (o : Option α) (msg : String) : ExceptT String IO α :=
  match o with
  | some a => pure a
  | none => throw msg

abbrev M := ExceptT String IO

def askRats (out inp : IO.FS.Stream) (q : String) : M (List Rat) := do
  let toks ← ask out inp q
  match toks with
  | [tok] => orErr (parseList? parseRat? tok) ("bad oracle answer to " ++ q)
  | _ => throw ("bad oracle answer to " ++ q)

def askRat (out inp : IO.FS.Stream) (q : String) : M Rat := do
  match ← askRats out inp q with
  | [r] => pure r
  | _ => throw ("expected one rational for " ++ q)

def askPair (out inp : IO.FS.Stream) (q : String) : M (Rat × Rat) := do
  match ← askRats out inp q with
  | [a, b] => pure (a, b)
  | _ => throw ("expected two rationals for " ++ q)

def oCst (out inp : IO.FS.Stream) (l r : Nat) : M Rat := askRat out inp s!"cst {l} {r}"
def oDst (out inp : IO.FS.Stream) (l r : Nat) : M (List Rat) := askRats out inp s!"dst {l} {r}"
def oKey (out inp : IO.FS.Stream) (l r i : Nat) : M (Rat × Rat) := askPair out inp s!"key {l} {r} {i}"
def oAccept (out inp : IO.FS.Stream) (isR2 : Bool) (t : Rat) (red : List Nat) : M Bool := do
  let g ← askRat out inp s!"gcs {showNats red}"
  pure (!curved isR2 t g)

def parseMode (s : String) : Refinement :=
  if s == "original" then .original else if s == "none" then .none else .adjusted

/-- detector on the sub-curve `[l, r)`; all criterion arrays are oracle answers -/
def detM (out inp : IO.FS.Stream) (kind : String) (mode : Refinement) (limit : Nat) (l r : Nat) : M (Option Nat) := do
  match kind with
  | "curvature" => do
    let c ← askRats out inp s!"crit {l} {r}"
    pure (some (curvKnee c))
  | "menger" => do
    let c ← askRats out inp s!"mc {l} {r}"
    pure (some (mengerKnee c))
  | "dfdt" => do
    let k ← dfdtKneeM (fun c => askRats out inp s!"diffs {l} {r} {c}") (r - l)
    pure (some k)
  | "lmethod" => lmethodKneeM (fun len => askRats out inp s!"errs {l} {r} {len}") mode (r - l) limit
  | "kneedle" => do
    let d ← askRats out inp s!"dd {l} {r}"
    pure (kneedleKnee d)
  | _ => throw "unknown detector"

def pt2 (s : String) : M P2 := do
  match ← orErr (parseList? parseRat? s) "point" with
  | [a, b] => pure (a, b)
  | _ => throw "point needs two coordinates"

def parseKind (s : String) : MKind :=
  match s with
  | "r2" => .r2 | "rmspe" => .rmspe | "rmsle" => .rmsle | "rpd" => .rpd | _ => .smape

def lookupPair (tbl : List ((Nat × Nat) × Rat)) (l r : Nat) : Rat :=
  ((tbl.find? fun e => e.1 == (l, r)).map (·.2)).getD 0

/-- groups given on the wire as `a,b;c;d,e` -/
def parseGroupScores (s : String) : Option (List (List Rat)) :=
  if s = "-" then some [] else (s.splitOn ";").mapM (parseList? parseRat?)

/-- glue (not part of the proved model): does some round of the Z-method loop sort group candidates with EQUAL z keys?
NumPy's argsort order on equal keys is unspecified (SIMD sorts), so such cases are compared relationally only. -/
def zRoundHasTie (w thr : Rat) (pts : List P3) : Bool :=
  let cand := pts.filter fun p => decide (thr ≤ p.2.2)
  match splitGaps w cand with
  | g1 :: g2 :: gs =>
    let zs := (g1 :: g2 :: gs).map minZ
    decide (zs.eraseDups.length < zs.length)
  | _ => false

def zLoopHasTie (w h : Rat) (zthr : Nat → Rat) (minz : Rat) : Nat → Nat → List P3 → List (Rat × Rat) → Bool
  | 0, _, _, _ => false
  | f + 1, k, pts, outl =>
    let tie := zRoundHasTie w (zthr k) pts
    let r := zRound w h (zthr k) pts outl
    if r.1.isEmpty || (decide (zthr k ≤ minz) && r.2.2 == 0) then tie
    else tie || zLoopHasTie w h zthr minz f (k + 1) r.1 r.2.1


/-- extended rationals on the wire: `nan`, `inf`, `-inf` or a rational -/
def parseExt? (s : String) : Option ExtQ :=
  if s == "nan" then some .nan else if s == "inf" then some .pinf else if s == "-inf" then some .ninf
  else (parseRat? s).map .fin

def showExt : ExtQ → String
  | .nan => "nan" | .pinf => "inf" | .ninf => "-inf" | .fin q => showRat q

/-- rows separated by `;` (one oracle table per call) -/
def parseRows? {α} (p : String → Option α) (s : String) : Option (List (List α)) :=
  if s = "-" then some [] else (s.splitOn ";").mapM (parseList? p)

def showNbOut : NbOut ExtQ → String
  | .found i v tr => s!"found {i} {showExt v} {showNats tr}"
  | .unbound tr => s!"unbound {showNats tr}"
  | .negIndex => "negindex"

def showSrErr : SrErr → String
  | .emptyKnees => "error empty 0"
  | .negIndex p => s!"error negindex {p}"
  | .unbound p => s!"error unbound {p}"

/-- glue for `knees2`: a square table over the index list `idx`, row-major (`tbl[pos a * m + pos b]`) -/
def lookupSquare (idx : Array Nat) (tbl : Array Rat) (a b : Nat) : Rat :=
  match idx.idxOf? a, idx.idxOf? b with
  | some i, some j => tbl.getD (i * idx.size + j) 0
  | _, _ => 0

def showKnees2 (o : Option Knees2Out) : String :=
  match o with
  | none => "none"
  | some o => showNats o.result ++ " " ++ toString o.rounds ++ " " ++ showNats o.outliers ++ " " ++ showNats o.worst ++ " " ++
      showNats o.corner ++ " " ++ ";".intercalate (o.trace.map showNats)

def iouTable (ks : List Nat) (ious : List Rat) : Nat → Rat :=
  let tbl := ks.zip ious
  fun k => ((tbl.find? (fun p => p.1 == k)).map (·.2)).getD 0

def dispatch (out inp : IO.FS.Stream) (fn : String) (args : List String) : M String := do
  match fn, args with
  | "nb_binary", [t, a, b, r2s] =>
    let t ← orErr (parseExt? t) "t"
    let a ← orErr (parseNat? a) "a"
    let b ← orErr (parseNat? b) "b"
    let r2s ← orErr (parseList? parseExt? r2s) "r2"
    match nbBinary (fun i => r2s[i]?.getD .nan) t a b with
    | some s => pure s!"{s.i} {s.right} {showNats s.trace}"
    | none => pure "none"
  | "nb_fast", [t, a, b, r2s] =>
    let t ← orErr (parseExt? t) "t"
    let a ← orErr (parseNat? a) "a"
    let b ← orErr (parseNat? b) "b"
    let r2s ← orErr (parseList? parseExt? r2s) "r2"
    match nbFast (fun i => r2s[i]?.getD .nan) t a b with
    | some f => pure s!"{f.i} {showExt f.r2} {showNats f.binTrace} {showNats f.trace}"
    | none => pure "none"
  | "nb_linear", [t, a, b, r2s] =>
    let t ← orErr (parseExt? t) "t"
    let a ← orErr (parseNat? a) "a"
    let b ← orErr (parseNat? b) "b"
    let r2s ← orErr (parseList? parseExt? r2s) "r2"
    pure (showNbOut (nbLinear (fun i => r2s[i]?.getD .nan) (.fin 1) t a b))
  | "slope_ranking", [t, knees, r2rows, slrows] =>
    -- one oracle row per call (row p: the values for the slices i..knees[p], i = 0..knees[p]); rows are looked up by the right end
    let t ← orErr (parseExt? t) "t"
    let knees ← orErr (parseList? parseNat? knees) "knees"
    let r2rows ← orErr (parseRows? parseExt? r2rows) "r2 rows"
    let slrows ← orErr (parseRows? parseRat? slrows) "slope rows"
    let rt := knees.zip r2rows
    let st := knees.zip slrows
    let r2 := fun (a i : Nat) => (((rt.find? fun e => e.1 == a).map (·.2)).getD [])[i]?.getD .nan
    let sl := fun (a i : Nat) => (((st.find? fun e => e.1 == a).map (·.2)).getD [])[i]?.getD 0
    let calls := slopeCalls r2 (.fin 1) t knees
    let idx := match nbIdxSeq 0 calls with | .ok l => showNats l | .error _ => "-"
    match slopeRanking r2 (.fin 1) t sl knees with
    | .ok l => pure s!"ok {showList showRat l} {idx} {";".intercalate (calls.map fun c => match c with | .found _ _ tr => showNats tr | _ => "-")}"
    | .error e => pure (showSrErr e)
  | "rank_ok", [vals, ranks] =>
    let vals ← orErr (parseList? parseRat? vals) "vals"
    let ranks ← orErr (parseList? parseNat? ranks) "ranks"
    pure (if isRankOfB vals ranks then "1" else "0")
  | "norm_ranks", [ranks] =>
    let ranks ← orErr (parseList? parseNat? ranks) "ranks"
    pure (showList showRat (normRanks ranks))
  | "accuracy_knee", [t, knees, r2rows] =>
    let t ← orErr (parseExt? t) "t"
    let knees ← orErr (parseList? parseNat? knees) "knees"
    let r2rows ← orErr (parseRows? parseExt? r2rows) "r2 rows"
    let rt := knees.zip r2rows
    let r2 := fun (a i : Nat) => (((rt.find? fun e => e.1 == a).map (·.2)).getD [])[i]?.getD .nan
    let calls := accuracyKneeCalls r2 t knees
    pure (showList (fun c => match c with | some (f : NbFast ExtQ) => toString f.i | none => "none") calls)
  | "computeRemoved", [red] =>
    let r ← orErr (parseList? parseNat? red) "reduced"
    pure (showPairs (computeRemoved r))
  | "mapping", [idx, red, rem, srt] =>
    let i ← orErr (parseList? parseNat? idx) "idx"
    let r ← orErr (parseList? parseNat? red) "reduced"
    let m ← orErr (parseList? (parsePair? parseNat? parseNat?) rem) "removed"
    pure (showNats (mapping i r m (srt == "1")))
  | "rdp", [isR2, t, n] =>
    let t ← orErr (parseRat? t) "t"
    let n ← orErr (parseNat? n) "n"
    let r ← rdpM (isR2 == "1") t (oCst out inp) (oDst out inp) n
    match r with
    | none => pure "none"
    | some (red, rem) => pure (showNats red ++ " " ++ showPairs rem)
  | "rdp_fixed", [n, k] =>
    let n ← orErr (parseNat? n) "n"
    let k ← orErr (parseNat? k) "k"
    let s ← fixedLoopM (oDst out inp) (oKey out inp) (k - 2) (rinit n)
    pure (showNats s.reduced)
  | "grdp", [isR2, t, n] =>
    let t ← orErr (parseRat? t) "t"
    let n ← orErr (parseNat? n) "n"
    let s ← grdpLoopM (oAccept out inp (isR2 == "1") t) (oDst out inp) (oKey out inp) n (rinit n)
    pure (showNats s.reduced)
  | "mp_grdp", [isR2, t, n, mp] =>
    let t ← orErr (parseRat? t) "t"
    let n ← orErr (parseNat? n) "n"
    let mp ← orErr (parseNat? mp) "mp"
    let r ← mpGrdpM (oAccept out inp (isR2 == "1") t) (oDst out inp) (oKey out inp) n mp
    pure (showNats r)
  | "min_point_rdp", [n, mp, ts] =>
    let n ← orErr (parseNat? n) "n"
    let mp ← orErr (parseNat? mp) "mp"
    let ts ← orErr (parseList? parseRat? ts) "ts"
    let r ← minPointRdpM (fun t => oAccept out inp false t) (oDst out inp) (oKey out inp) n mp (sortDesc ts)
    pure (showNats r)
  | "worst", [hs, ks] =>
    let hs ← orErr (parseList? parseRat? hs) "heights"
    let ks ← orErr (parseList? parseNat? ks) "ks"
    pure (showNats (worstFilter (fun k => hs[k]?.getD 0) ks))
  | "corner", [mode, n, t, ks, ious] =>
    let n ← orErr (parseNat? n) "n"
    let t ← orErr (parseRat? t) "t"
    let ks ← orErr (parseList? parseNat? ks) "ks"
    let ious ← orErr (parseList? parseRat? ious) "ious"
    let tbl := ks.zip ious
    let iou := fun k => ((tbl.find? (fun p => p.1 == k)).map (·.2)).getD 0
    pure (showNats (if mode == "filter" then cornerFilter n iou t ks else cornerSelect n iou t ks))
  | "cornerIoU", [a, b, c] =>
    let a ← orErr (parseList? parseRat? a) "p0"
    let b ← orErr (parseList? parseRat? b) "p1"
    let c ← orErr (parseList? parseRat? c) "p2"
    match a, b, c with
    | [ax, ay], [bx, by'], [cx, cy] => pure (showRat (cornerIoU (ax, ay) (bx, by') (cx, cy)))
    | _, _, _ => throw "points"
  | "link", [t, n] =>
    let t ← orErr (parseRat? t) "t"
    let n ← orErr (parseNat? n) "n"
    let r ← linkLabelsM (fun s i => askRat out inp s!"dist {s} {i}") t n
    pure (showNats r)
  | "linkQ", [kind, t, xs] =>
    let t ← orErr (parseRat? t) "t"
    let xs ← orErr (parseList? parseRat? xs) "xs"
    let x := fun i => xs[i]?.getD 0
    let n := xs.length
    let r := match kind with
      | "single" => singleLinkage x n t
      | "complete" => completeLinkage x n t
      | "centroid" => centroidLinkage x n t
      | _ => averageLinkage x n t
    pure (showNats r)
  | "distQ", [kind, xs, start, i] =>
    let xs ← orErr (parseList? parseRat? xs) "xs"
    let start ← orErr (parseNat? start) "start"
    let i ← orErr (parseNat? i) "i"
    let x := fun i => xs[i]?.getD 0
    let L := x (xs.length - 1) - x 0
    let r := match kind with
      | "single" => distSingle x L start i
      | "complete" => distComplete x L start i
      | "centroid" => distCentroid x L start i
      | _ => distAverage x L start i
    pure (showRat r)
  | "cm", [t, n, nk, ne] =>
    let t ← orErr (parseRat? t) "t"
    let n ← orErr (parseNat? n) "n"
    let nk ← orErr (parseNat? nk) "nk"
    let ne ← orErr (parseNat? ne) "ne"
    let r ← cmM (fun e => askRats out inp s!"row {e}") t n nk ne
    pure s!"{r.1} {r.2.1} {r.2.2.1} {r.2.2.2}"
  | "knee", [kind, n, mode, limit] =>
    let n ← orErr (parseNat? n) "n"
    let limit ← orErr (parseNat? limit) "limit"
    let r ← detM out inp kind (parseMode mode) limit 0 n
    match r with
    | some k => pure (toString k)
    | none => pure "none"
  | "multi_knee", [kind, t1, t2, n] =>
    let t1 ← orErr (parseRat? t1) "t1"
    let t2 ← orErr (parseNat? t2) "t2"
    let n ← orErr (parseNat? n) "n"
    let gate := fun (l r : Nat) => (do
      if r - l ≤ 2 then pure (decide (t1 ≤ 1)) else do
        let v ← askRat out inp s!"sm {l} {r}"
        pure (decide (t1 ≤ v)) : M Bool)
    let r ← multiKneeM (detM out inp kind .adjusted 10) gate t2 n
    match r with
    | some ks => pure (showNats ks)
    | none => pure "none"
  | "metric", [name, y, yh] =>
    let y ← orErr (parseList? parseRat? y) "y"
    let yh ← orErr (parseList? parseRat? yh) "yh"
    match name with
    | "rss" => pure (showRat (rssQ y yh))
    | "r2" => pure (showRat (r2Q y yh))
    | "r2adj" => pure (showRat (adjustQ y.length (r2Q y yh)))
    | "mse" => pure (showRat (mseQ y yh))
    | "rmspeSq" => pure (showRat (rmspeSq y yh))
    | "rpd" => pure (showRat (rpdQ y yh))
    | "smape" => pure (showRat (smapeQ y yh))
    | "corrSq" => pure (showRat (corrSqQ y yh))
    | "corrSqAdj" => pure (showRat (adjustQ y.length (corrSqQ y yh)))
    | "fit" => let c := fitQ y yh; pure (showRat c.1 ++ " " ++ showRat c.2)
    | _ => throw "unknown metric"
  | "geom", [name, p, a, b] =>
    let p ← pt2 p
    let a ← pt2 a
    let b ← pt2 b
    match name with
    | "shortestSq" => pure (showRat (shortestSq p a b))
    | "perpSq" => pure (showRat (perpSq p a b))
    | "mengerSq" => pure (showRat (mengerSq p a b))
    | "triArea" => pure (showRat (triArea p a b))
    | "cornerIoU" => pure (showRat (cornerIoU p a b))
    | "ccw" => pure (showRat (ccw p a b))
    | _ => throw "unknown geom"
  | "iou", [amin, amax, bmin, bmax] =>
    let amin ← pt2 amin
    let amax ← pt2 amax
    let bmin ← pt2 bmin
    let bmax ← pt2 bmax
    pure (showRat (rectOverlap amin amax bmin bmax))
  | "rank", [v] =>
    let v ← orErr (parseList? parseRat? v) "v"
    pure (showNats (rankOf v))
  | "hull", [which, xs, ys] =>
    let xs ← orErr (parseList? parseRat? xs) "xs"
    let ys ← orErr (parseList? parseRat? ys) "ys"
    let pt := fun i => (xs[i]?.getD 0, ys[i]?.getD 0)
    match which with
    | "lower" => pure (showNats (hullLower pt xs.length))
    | "upper" => pure (showNats (hullUpper pt xs.length))
    | "graham" => pure (showNats (grahamScan (xs.zip ys)))
    | _ => throw "unknown hull"
  | "gcost", [kind, n, tss, red, errs] =>
    let n ← orErr (parseNat? n) "n"
    let tss ← orErr (parseRat? tss) "tss"
    let red ← orErr (parseList? parseNat? red) "red"
    let errs ← orErr (parseList? parseRat? errs) "errs"
    let tbl := (pairsOf red).zip errs
    pure (showRat (gcostQ (parseKind kind) n tss (lookupPair tbl) red))
  | "gshared", [kind, n, tss, queries, tblS] =>
    -- queries `0,3,6;0,3,5,6`, table `l:r:num/den,...` for every pair that can occur
    let n ← orErr (parseNat? n) "n"
    let tss ← orErr (parseRat? tss) "tss"
    let qs ← orErr ((queries.splitOn ";").mapM (parseList? parseNat?)) "queries"
    let ents ← orErr (parseList? (fun e => match e.splitOn ":" with
      | [l, r, v] => do let l ← parseNat? l; let r ← parseNat? r; let v ← parseRat? v; pure ((l, r), v)
      | _ => none) tblS) "table"
    let vals := runShared (parseKind kind) n tss (lookupPair ents) [] qs
    pure (showList showRat vals)
  | "partial", [kind, y, yh] =>
    let y ← orErr (parseList? parseRat? y) "y"
    let yh ← orErr (parseList? parseRat? yh) "yh"
    pure (showRat (partialQ (parseKind kind) y yh))
  | "segErrQ", [kind, xs, ys, l, r] =>
    let xs ← orErr (parseList? parseRat? xs) "xs"
    let ys ← orErr (parseList? parseRat? ys) "ys"
    let l ← orErr (parseNat? l) "l"
    let r ← orErr (parseNat? r) "r"
    pure (showRat (segErrQ (parseKind kind) xs ys l r))
  | "grmseSq", [xs, ys, red] =>
    let xs ← orErr (parseList? parseRat? xs) "xs"
    let ys ← orErr (parseList? parseRat? ys) "ys"
    let red ← orErr (parseList? parseNat? red) "red"
    pure (showRat (grmseSq (segErrQ .r2 xs ys) xs.length red))
  | "mip", [xs, ys, red] =>
    let xs ← orErr (parseList? parseRat? xs) "xs"
    let ys ← orErr (parseList? parseRat? ys) "ys"
    let red ← orErr (parseList? parseNat? red) "red"
    let rss := segErrQ .r2 xs ys
    let n := xs.length
    let args := grmseSq rss n red :: (List.range (red.length - 2)).map fun i => grmseSq rss n (deleteAt red (i + 1))
    let vals ← args.mapM fun a => askRat out inp s!"sqrt {showRat a}"
    let tbl := args.zip vals
    let sq := fun (q : Rat) => ((tbl.find? fun e => e.1 == q).map (·.2)).getD 0
    let r := mipQ sq rss n red
    pure (showRat r.1 ++ " " ++ showRat r.2)
  | "cluster_filter", [mode, labels, knees, scores] =>
    let labels ← orErr (parseList? parseNat? labels) "labels"
    let knees ← orErr (parseList? parseNat? knees) "knees"
    let sc ← orErr (parseGroupScores scores) "scores"
    let groups := groupByLabels labels knees
    let tbl := groups.zip sc
    let score := fun (c : List Nat) => ((tbl.find? fun e => e.1 == c).map (·.2)).getD []
    match mode with
    | "rank" => pure (showNats (clusterFilter score labels knees))
    | "corners" => pure (showNats (clusterFilterCorners score labels knees))
    | _ => throw "mode"
  | "cluster_filter_hull", [labels, knees, hull, errs] =>
    let labels ← orErr (parseList? parseNat? labels) "labels"
    let knees ← orErr (parseList? parseNat? knees) "knees"
    let hull ← orErr (parseList? parseNat? hull) "hull"
    let sc ← orErr (parseGroupScores errs) "errs"
    let groups := groupByLabels labels knees
    let tbl := groups.zip sc
    let herr := fun (c : List Nat) (j : Nat) =>
      let row := ((tbl.find? fun e => e.1 == c).map (·.2)).getD []
      ((c.zip row).find? fun e => e.1 == j).map (·.2) |>.getD 0
    pure (showNats (clusterFilterHull hull herr labels knees))
  | "groups", [labels, knees] =>
    let labels ← orErr (parseList? parseNat? labels) "labels"
    let knees ← orErr (parseList? parseNat? knees) "knees"
    pure (";".intercalate ((groupByLabels labels knees).map showNats))
  | "add_even", [n, hs, red, rem, knees, wide, npts, ext] =>
    let n ← orErr (parseNat? n) "n"
    let hs ← orErr (parseList? parseRat? hs) "heights"
    let red ← orErr (parseList? parseNat? red) "reduced"
    let rem ← orErr (parseList? (parsePair? parseNat? parseNat?) rem) "removed"
    let knees ← orErr (parseList? parseNat? knees) "knees"
    let wide ← orErr (parseList? parseNat? wide) "wide"
    let npts ← orErr (parseList? parseNat? npts) "npts"
    pure (showNats (addEven (fun k => hs[k]?.getD 0) n red rem knees (fun i => wide[i]?.getD 0 == 1) (fun i => npts[i]?.getD 1) (ext == "1")))
  | "add_even_knees", [n, hs, knees, wide, npts, ext] =>
    let n ← orErr (parseNat? n) "n"
    let hs ← orErr (parseList? parseRat? hs) "heights"
    let knees ← orErr (parseList? parseNat? knees) "knees"
    let wide ← orErr (parseList? parseNat? wide) "wide"
    let npts ← orErr (parseList? parseNat? npts) "npts"
    pure (showNats (addEvenKnees (fun k => hs[k]?.getD 0) n knees (fun i => wide[i]?.getD 0 == 1) (fun i => npts[i]?.getD 1) (ext == "1")))
  | "evenQ", [xl, yl, xr, yr, dx, dy, tx, ty] =>
    let v ← orErr ([xl, yl, xr, yr, dx, dy, tx, ty].mapM parseRat?) "args"
    match v with
    | [xl, yl, xr, yr, dx, dy, tx, ty] => pure ((if wideQ xl yl xr yr dx dy tx ty then "1" else "0") ++ " " ++ toString (nptsQ xl xr dx tx))
    | _ => throw "args"
  | "zknees", [xs, ys, zs, w, h, ymin, thr] =>
    let xs ← orErr (parseList? parseRat? xs) "xs"
    let ys ← orErr (parseList? parseRat? ys) "ys"
    let zs ← orErr (parseList? parseRat? zs) "zs"
    let w ← orErr (parseRat? w) "w"
    let h ← orErr (parseRat? h) "h"
    let ymin ← orErr (parseRat? ymin) "ymin"
    let thr ← orErr (parseList? parseRat? thr) "thr"
    let zt := fun k => thr[k]?.getD (thr.getLast?.getD 0)
    let pts : List P3 := xs.zip (ys.zip zs)
    let tie := if xs.length < 4 || ymin == 1 then false else zLoopHasTie w h zt (minZ pts) thr.length 0 pts []
    match zKnees xs ys zs w h ymin zt thr.length with
    | some ks => pure (showNats ks ++ (if tie then " tie" else " notie"))
    | none => pure "none"
  | "elbowQ", [kind, xs, ys] =>
    let xs ← orErr (parseList? parseRat? xs) "xs"
    let ys ← orErr (parseList? parseRat? ys) "ys"
    let x := fun i => xs[i]?.getD 0
    let y := fun i => ys[i]?.getD 0
    let n := xs.length
    match kind with
    | "curvature" => pure (toString (curvKneeQ x y n))
    | "menger" => pure (toString (mengerKneeQ x y n))
    | "lmethod" => pure (match lmethodKneeQ x y .adjusted n 10 with | some k => toString k | none => "none")
    | "kneedle" => pure (match kneedleKneeQ xs ys with | some k => toString k | none => "none")
    | "dfdt" => pure (toString (dfdtKnee (dfdtDiffsQ ((List.range n).map (cfdQ x y n))) n))
    | _ => throw "kind"
  | "gradQ", [xs, ys] =>
    let xs ← orErr (parseList? parseRat? xs) "xs"
    let ys ← orErr (parseList? parseRat? ys) "ys"
    let x := fun i => xs[i]?.getD 0
    let y := fun i => ys[i]?.getD 0
    let n := xs.length
    pure (showList showRat ((List.range n).map (cfdQ x y n)) ++ " " ++ showList showRat ((List.range n).map (csdQ x y n)))
  | "match_err", [strat, ex, ey, kx, ky] =>
    let ex ← orErr (parseList? parseRat? ex) "ex"
    let ey ← orErr (parseList? parseRat? ey) "ey"
    let kx ← orErr (parseList? parseRat? kx) "kx"
    let ky ← orErr (parseList? parseRat? ky) "ky"
    let st : Strategy := match strat with | "knees" => .knees | "expected" => .expected | "best" => .best | _ => .worst
    let E := ex.zip ey
    let K := kx.zip ky
    pure (showRat (maeQ st E K) ++ " " ++ showRat (mseQ2 st E K) ++ " " ++ showRat (rmspeSqQ st E K))
  | "smooth_scores", [fit, hs] =>
    let fit ← orErr (parseList? parseRat? fit) "fit"
    let hs ← orErr (parseList? parseRat? hs) "heights"
    pure (showList showRat (smoothScores fit hs))
  | "corner_tri", [a, b, c] =>
    let a ← pt2 a
    let b ← pt2 b
    let c ← pt2 c
    pure (showRat (cornerTriQ a b c))
  | "pipeline_full", [isR2, t, n, kind, t1, t2, tc] =>
    -- the whole pipeline in ONE model run (the composition `pipelineFull`), oracles asked lazily:
    -- stage 1 in original space (cst/dst), then `reduced` is announced and every later oracle is in reduced space
    let t ← orErr (parseRat? t) "t"
    let n ← orErr (parseNat? n) "n"
    let t1 ← orErr (parseRat? t1) "t1"
    let t2 ← orErr (parseNat? t2) "t2"
    let tc ← orErr (parseRat? tc) "tc"
    let r ← rdpM (isR2 == "1") t (oCst out inp) (oDst out inp) n
    match r with
    | none => pure "none"
    | some (red, rem) =>
      let _ ← ask out inp s!"reduced {showNats red}"
      let gate := fun (l r : Nat) => (do
        if r - l ≤ 2 then pure (decide (t1 ≤ 1)) else do
          let v ← askRat out inp s!"sm {l} {r}"
          pure (decide (t1 ≤ v)) : M Bool)
      let ko ← multiKneeM (detM out inp kind .adjusted 10) gate t2 red.length
      match ko with
      | none => pure "none"
      | some knees =>
        let hs ← askRats out inp "hts"
        let w := worstFilter (fun k => hs[k]?.getD 0) knees
        let ious ← if w.isEmpty then pure [] else askRats out inp s!"ious {showNats w}"
        let tbl := w.zip ious
        let c := cornerFilter red.length (fun k => ((tbl.find? fun p => p.1 == k).map (·.2)).getD 0) tc w
        let labelToks ← if c.length ≤ 1 then pure ["-"] else ask out inp s!"labels {showNats c}"
        let labels ← orErr (parseList? parseNat? (labelToks.headD "-")) "labels"
        let groups := groupByLabels labels c
        let rows ← groups.mapM fun g => if g.length > 1 then askRats out inp s!"scores {showNats g}" else pure (g.map fun _ => (0 : Rat))
        let gt := groups.zip rows
        let score := fun (g : List Nat) => ((gt.find? fun e => e.1 == g).map (·.2)).getD []
        let k := clusterFilter score labels c
        let o := mapping k red rem true
        pure (showNats red ++ " " ++ showNats knees ++ " " ++ showNats w ++ " " ++ showNats c ++ " " ++ showNats k ++ " " ++ showNats o)
  | "pipeline_cfg", [simp, n, kind, t1, t2, tc, cmode, fin] =>
    -- the pipeline for ANY configuration in ONE model run: `pipelineCfgM` (Knee/Model/PipelineCfgM.lean) at IO;
    -- `pipelineCfgM_id` (Knee/Lemmas/BridgeCfg.lean) proves the same function at Id is `pipelineCfg`, the subject of C08F.
    -- simp = rdp:isR2:t | grdp:isR2:t | fixed:k | mp:isR2:t:m | minpoint:isR2:m:t;t;t   cmode = rank|hull|corners   fin = map|even:0|even:1
    let n ← orErr (parseNat? n) "n"
    let t1 ← orErr (parseRat? t1) "t1"
    let t2 ← orErr (parseNat? t2) "t2"
    let tc ← orErr (parseRat? tc) "tc"
    let s ← (match simp.splitOn ":" with
      | ["rdp", r, t] => do let t ← orErr (parseRat? t) "t"; pure (Simplifier.rdp (r == "1") t)
      | ["grdp", r, t] => do let t ← orErr (parseRat? t) "t"; pure (Simplifier.grdp (r == "1") t)
      | ["fixed", k] => do let k ← orErr (parseNat? k) "k"; pure (Simplifier.fixed k)
      | ["mp", r, t, m] => do let t ← orErr (parseRat? t) "t"; let m ← orErr (parseNat? m) "m"; pure (Simplifier.mpGrdp (r == "1") t m)
      | ["minpoint", r, m, ts] => do
        let m ← orErr (parseNat? m) "m"
        let ts ← orErr ((ts.splitOn ";").mapM parseRat?) "ts"
        pure (Simplifier.minPoint (r == "1") m ts)
      | _ => throw "simplifier" : M Simplifier)
    let o : SimpOraclesM M := ⟨oCst out inp, oDst out inp, oKey out inp, fun red => askRat out inp s!"gcs {showNats red}"⟩
    let gate := fun (l r : Nat) => (do
      if r - l ≤ 2 then pure (decide (t1 ≤ 1)) else do
        let v ← askRat out inp s!"sm {l} {r}"
        pure (decide (t1 ≤ v)) : M Bool)
    let askNats := fun (q : String) => (do
      let toks ← ask out inp q
      orErr (parseList? parseNat? (toks.headD "-")) q : M (List Nat))
    let cm ← (match cmode with
      | "rank" => pure (ClusterModeM.rank fun g => askRats out inp s!"scores {showNats g}")
      | "hull" => pure (ClusterModeM.hull (askNats "hull") fun g => askRats out inp s!"herrs {showNats g}")
      | "corners" => pure (ClusterModeM.corners fun g => askRats out inp s!"areas {showNats g}")
      | _ => throw "cluster mode" : M (ClusterModeM M))
    let fin ← (match fin.splitOn ":" with
      | ["map"] => pure FinalM.map
      | ["even", e] => pure (FinalM.addEven (fun _ => askRats out inp "hts0") (fun _ => askNats "wide") (fun _ => askNats "npts") (e == "1"))
      | _ => throw "final stage" : M (FinalM M))
    let r ← pipelineCfgM s o n (fun red => do let _ ← ask out inp s!"reduced {showNats red}"; pure ())
      (detM out inp kind .adjusted 10) gate t2 (fun _ => askRats out inp "hts") (fun ks => askRats out inp s!"ious {showNats ks}") tc
      (fun ks => askNats s!"labels {showNats ks}") cm fin
    match r with
    | none => pure "none"
    | some S => pure (showNats S.reduced ++ " " ++ showNats S.knees ++ " " ++ showNats S.worst ++ " " ++ showNats S.corner ++ " " ++ showNats S.cluster ++ " " ++ showNats S.out)
  | "knees2", [v, z, hs, cidx, ious, t, xstep, ystep, tidx, dxm, dym] =>
    -- zmethod.knees2 with float-difference tables: dxm/dym[pos a * m + pos b] = fl(x[a]-x[b]) / fl(y[a]-y[b]) over the index list tidx
    let v ← orErr (parseList? parseRat? v) "v"
    let z ← orErr (parseRat? z) "z"
    let hs ← orErr (parseList? parseRat? hs) "heights"
    let cidx ← orErr (parseList? parseNat? cidx) "cidx"
    let ious ← orErr (parseList? parseRat? ious) "ious"
    let t ← orErr (parseRat? t) "t"
    let xstep ← orErr (parseRat? xstep) "xstep"
    let ystep ← orErr (parseRat? ystep) "ystep"
    let tidx ← orErr (parseList? parseNat? tidx) "tidx"
    let dxm ← orErr (parseList? parseRat? dxm) "dxm"
    let dym ← orErr (parseList? parseRat? dym) "dym"
    if dxm.length ≠ tidx.length * tidx.length || dym.length ≠ tidx.length * tidx.length then throw "table size" else
    let ia := tidx.toArray
    pure (showKnees2 (knees2F v z hs.length (fun k => hs[k]?.getD 0) (iouTable cidx ious) t
      (lookupSquare ia dxm.toArray) (lookupSquare ia dym.toArray) xstep ystep))
  | "knees2Q", [v, z, xs, ys, cidx, ious, t, xstep, ystep] =>
    -- the same over exact coordinates
    let v ← orErr (parseList? parseRat? v) "v"
    let z ← orErr (parseRat? z) "z"
    let xs ← orErr (parseList? parseRat? xs) "xs"
    let ys ← orErr (parseList? parseRat? ys) "ys"
    let cidx ← orErr (parseList? parseNat? cidx) "cidx"
    let ious ← orErr (parseList? parseRat? ious) "ious"
    let t ← orErr (parseRat? t) "t"
    let xstep ← orErr (parseRat? xstep) "xstep"
    let ystep ← orErr (parseRat? ystep) "ystep"
    pure (showKnees2 (knees2Q v z xs ys (iouTable cidx ious) t xstep ystep))
  | "knees2_round", [cands, nearm, scores] =>
    -- one refinement round for an ARBITRARY boolean box table over the candidate positions (nearm[pos j * m + pos i] = near cands[j] cands[i], 0/1)
    -- and an arbitrary score table `n1:s,s,s;n2:…` (neighbourhood list -> scores); a missing neighbourhood scores [].
    let cands ← orErr (parseList? parseNat? cands) "cands"
    let nearm ← orErr (parseList? parseNat? nearm) "near"
    let ents ← (if scores == "-" then pure [] else orErr ((scores.splitOn ";").mapM fun e => match e.splitOn ":" with
      | [n, sc] => do let n ← parseList? parseNat? n; let sc ← parseList? parseRat? sc; pure (n, sc)
      | _ => none) "scores" : M (List (List Nat × List Rat)))
    let ca := cands.toArray
    let na := nearm.toArray
    let near := fun (j i : Nat) => match ca.idxOf? j, ca.idxOf? i with
      | some a, some b => na.getD (a * ca.size + b) 0 == 1
      | _, _ => false
    let score := fun (n : List Nat) => ((ents.find? fun e => e.1 == n).map (·.2)).getD []
    let r := refineRound near score cands
    pure (showNats r ++ " " ++ ";".intercalate (cands.map fun i => showNats (neighbourhood near cands i)))
  | "map_index", [a, sigma, b] =>
    let a ← orErr (parseList? parseRat? a) "a"
    let sigma ← orErr (parseList? parseNat? sigma) "sigma"
    let b ← orErr (parseList? parseRat? b) "b"
    match mapIndex a sigma b with
    | some r => pure (showNats r ++ " " ++ showNats (b.map (searchLeft a sigma)))
    | none => pure ("none " ++ showNats (b.map (searchLeft a sigma)))
  | "acc_trace", [xs, ys, knees, coefs] =>
    -- evaluation.accuracy_trace; `coefs` = the per-gap lf.linear_r2 values (oracle, one per knee), or `exact` for the Layer-N r2
    let xs ← orErr (parseList? parseRat? xs) "xs"
    let ys ← orErr (parseList? parseRat? ys) "ys"
    let knees ← orErr (parseList? parseNat? knees) "knees"
    let so := fun (o : Option Rat) => match o with | some v => showRat v | none => "none"
    let sl := fun (o : Option (List Rat)) => match o with | some v => showList showRat v | none => "none"
    let coef ← (if coefs == "exact" then pure (coefQ xs ys) else do
      let cs ← orErr (parseList? parseRat? coefs) "coefs"
      let tbl := (gapsOf knees).zip cs
      pure (fun l r => lookupPair tbl l r) : M (Nat → Nat → Rat))
    match accTrace coef xs ys knees with
    | none => pure "raise"
    | some r => pure (s!"{so r.avgX} {so r.avgY} {so r.avgSlope} {so r.avgCoef} {so r.cost} "
        ++ s!"{sl (accNormX xs knees)} {sl (accNormX ys knees)} {sl (accNormSlopes xs ys knees)} {sl (accNormCoefs coef knees)} {sl (accP coef xs ys knees)} "
        ++ showList showRat (gapCoefs coef knees))
  | "rank_corners", [xs, knees] =>
    let xs ← orErr (parseList? parseRat? xs) "xs"
    let knees ← orErr (parseList? parseNat? knees) "knees"
    match rankCornersQ xs knees with
    | none => pure "raise"
    | some r => pure (showList showRat r)
  | "dist2sim", [v] =>
    let v ← orErr (parseList? parseRat? v) "v"
    pure (showList showRat (dist2sim v))
  | "hv_res", [xs, ys] =>
    let xs ← orErr (parseList? parseRat? xs) "xs"
    let ys ← orErr (parseList? parseRat? ys) "ys"
    pure (showRat (hvResQ xs ys) ++ " " ++ showRat (resFit xs ys) ++ " " ++ showRat (resFit ys xs))
  | "fit_transform", [xs, ys, vertical] =>
    let xs ← orErr (parseList? parseRat? xs) "xs"
    let ys ← orErr (parseList? parseRat? ys) "ys"
    if vertical == "1" then
      let r := fitTransformVQ xs ys
      pure ((if resFit xs ys ≤ resFit ys xs then "y" else "x") ++ " " ++ showList showRat r.1 ++ " " ++ showList showRat r.2)
    else pure (showList showRat (fitTransformQ xs ys))
  | "cost_coef", [kind, xs, ys, coef, largs, lvals] =>
    -- rdp.compute_cost_coef; the logarithm (RMSLE only) is a table `largs[i] ↦ lvals[i]` supplied by the harness
    let xs ← orErr (parseList? parseRat? xs) "xs"
    let ys ← orErr (parseList? parseRat? ys) "ys"
    let c ← pt2 coef
    let la ← orErr (parseList? parseRat? largs) "largs"
    let lv ← orErr (parseList? parseRat? lvals) "lvals"
    let tbl := la.zip lv
    let lg := fun (q : Rat) => ((tbl.find? fun e => e.1 == q).map (·.2)).getD 0
    pure (showRat (costCoefQ lg (parseKind kind) xs ys c))
  | "angle_arg", [m1, m2] =>
    let m1 ← orErr (parseRat? m1) "m1"
    let m2 ← orErr (parseRat? m2) "m2"
    match angleArg m1 m2 with
    | none => pure "none"
    | some a => pure (showRat a)
  | _, _ => throw s!"unknown call {fn}/{args.length}"

partial def loop (out inp : IO.FS.Stream) : IO Unit := do
  let line ← inp.getLine
  if line.isEmpty then return ()
  let toks := (line.trimAscii.toString.splitOn " ").filter (· ≠ "")
  match toks with
  | "CALL" :: fn :: args =>
    let r ← (dispatch out inp fn args).run
    match r with
    | .ok s => out.putStrLn ("R " ++ s)
    | .error e => out.putStrLn ("E " ++ e)
    out.flush
  | [] => pure ()
  | _ => out.putStrLn "E bad-line"; out.flush
  loop out inp

def main : IO Unit := do
  loop (← IO.getStdout) (← IO.getStdin)

import Knee.Model.Basic
import Knee.Model.Wire
import Knee.Model.Mapping
/-
Correspondence driver.  `lake env lean --run Driver.lean` (or the compiled `driver` exe).
Harness → driver : `CALL <fn> <arg> <arg> …`
driver → harness : `Q <oracle> <arg> …`   (harness answers with one line of tokens)
                   `R <result tokens>`    (final answer)   |   `E <message>` (bad call)
-/
open Knee Knee.Wire

def ask (out inp : IO.FS.Stream) (q : String) : IO (List String) := do
  out.putStrLn ("Q " ++ q)
  out.flush
  let line ← inp.getLine
  pure ((line.trimAscii.toString.splitOn " ").filter (· ≠ ""))

def orErr {α} (o : Option α) (msg : String) : ExceptT String IO α :=
  match o with
  | some a => pure a
  | none => throw msg

def dispatch (out inp : IO.FS.Stream) (fn : String) (args : List String) : ExceptT String IO String := do
  match fn, args with
  | "computeRemoved", [red] =>
    let r ← orErr (parseList? parseNat? red) "reduced"
    pure (showPairs (computeRemoved r))
  | "mapping", [idx, red, rem, srt] =>
    let i ← orErr (parseList? parseNat? idx) "idx"
    let r ← orErr (parseList? parseNat? red) "reduced"
    let m ← orErr (parseList? (parsePair? parseNat? parseNat?) rem) "removed"
    pure (showNats (mapping i r m (srt == "1")))
  | _, _ => throw s!"unknown call {fn}/{args.length}"

partial def loop (out inp : IO.FS.Stream) : IO Unit := do
  let line ← inp.getLine
  if line.isEmpty then return ()
  let toks := (line.trimAscii.toString.splitOn " ").filter (· ≠ "")
  match toks with
  | "CALL" :: fn :: args =>
    let r ← (dispatch out inp fn args).run
    match r with
    | .ok s => out.putStrLn ("R " ++ s)
    | .error e => out.putStrLn ("E " ++ e)
    out.flush
  | [] => pure ()
  | _ => out.putStrLn "E bad-line"; out.flush
  loop out inp

def main : IO Unit := do
  loop (← IO.getStdout) (← IO.getStdin)

import Knee.Props.C01
import Knee.Props.C05
import Knee.Props.C06B
/-!
# C01S — linear step bounds for ALL simplifiers, and the removed-table clause

C01 says: "each simplifier (threshold RDP, global RDP, fixed-size RDP, min-points and
multi-threshold variants) returns after a number of refinement steps bounded linearly in n".
`rdp_steps_linear` (C01.lean) covers threshold RDP.  This file adds step counters for the four
stack-ordered simplifiers (`_rdp_fixed`, `_grdp`, `mp_grdp`, `min_point_rdp`) and proves

* fixed-size      : steps = min (k - 2) (n - 2)
* global          : steps ≤ n - 2              (for every fuel, in particular the model's fuel `n`)
* min-points      : steps ≤ n - 2 in total     (global phase + continuation)
* multi-threshold : steps ≤ (ts.length + 1) * (n - 2)

and that every step adds exactly one retained index (`steps + 2 = reduced.length` for
fixed/global/min-points; for multi-threshold the same holds for the run that produced the result,
the earlier, rejected runs are accounted for separately).

Oracle-parametric (Layer S): every statement holds for EVERY distance oracle `dst` returning one
distance per point of the range (`hd`), EVERY ordering-score oracle `key` and EVERY acceptance
oracle `accept` / `acceptAt` — i.e. whatever the floating-point primitives return.

A "step" is one execution of the body of the `while` loop of `_rdp_fixed` / `_grdp`
(pop the top segment, split it, push the children, re-sort): one call of `refineStep`.
-/
namespace Knee

/-! ### 1. step counters: the same recursion as the loops, counting body executions -/

/-- number of executions of the body of `_rdp_fixed`'s `while length > 0 and stack:` loop;
same recursion as `fixedLoop` -/
def fixedSteps (dst : Nat → Nat → List Rat) (key : Nat → Nat → Nat → Rat × Rat) : Nat → RState → Nat
  | 0, _ => 0
  | k + 1, s => if s.stack.isEmpty then 0 else fixedSteps dst key k (refineStep dst key s) + 1

/-- number of executions of the body of `_grdp`'s `while curved and stack:` loop;
same recursion as `grdpLoop` -/
def grdpSteps (accept : List Nat → Bool) (dst : Nat → Nat → List Rat) (key : Nat → Nat → Nat → Rat × Rat) :
    Nat → RState → Nat
  | 0, _ => 0
  | f + 1, s =>
    if accept s.reduced || s.stack.isEmpty then 0 else grdpSteps accept dst key f (refineStep dst key s) + 1

/-- `_rdp_fixed`'s loop instrumented with a counter `c` that is incremented in the loop body -/
def fixedLoopC (dst : Nat → Nat → List Rat) (key : Nat → Nat → Nat → Rat × Rat) :
    Nat → RState → Nat → RState × Nat
  | 0, s, c => (s, c)
  | k + 1, s, c => if s.stack.isEmpty then (s, c) else fixedLoopC dst key k (refineStep dst key s) (c + 1)

/-- `_grdp`'s loop instrumented with a counter `c` that is incremented in the loop body -/
def grdpLoopC (accept : List Nat → Bool) (dst : Nat → Nat → List Rat) (key : Nat → Nat → Nat → Rat × Rat) :
    Nat → RState → Nat → RState × Nat
  | 0, s, c => (s, c)
  | f + 1, s, c =>
    if accept s.reduced || s.stack.isEmpty then (s, c)
    else grdpLoopC accept dst key f (refineStep dst key s) (c + 1)

/-- total number of loop-body executions of `mp_grdp`: the global phase, plus (only when the global
result has fewer than `m` points) the continuation of `_rdp_fixed` on the *same* state -/
def mpSteps (accept : List Nat → Bool) (dst : Nat → Nat → List Rat) (key : Nat → Nat → Nat → Rat × Rat)
    (n m : Nat) : Nat :=
  let s := grdpLoop accept dst key n (rinit n)
  grdpSteps accept dst key n (rinit n) +
    (if s.reduced.length ≥ m then 0 else fixedSteps dst key (m - s.reduced.length) s)

/-- total number of loop-body executions of `min_point_rdp`: every threshold that is tried costs a
full `grdp` run from scratch; if none yields `m` points, `rdp_fixed(m)` is run from scratch -/
def minPointSteps (acceptAt : Rat → List Nat → Bool) (dst : Nat → Nat → List Rat)
    (key : Nat → Nat → Nat → Rat × Rat) (n m : Nat) : List Rat → Nat
  | [] => fixedSteps dst key (m - 2) (rinit n)
  | t :: ts =>
    grdpSteps (acceptAt t) dst key n (rinit n) +
      (if (grdp (acceptAt t) dst key n).length ≥ m then 0 else minPointSteps acceptAt dst key n m ts)

/-- the part of `minPointSteps` spent in `grdp` runs whose result was rejected (fewer than `m` points) -/
def minPointWasted (acceptAt : Rat → List Nat → Bool) (dst : Nat → Nat → List Rat)
    (key : Nat → Nat → Nat → Rat × Rat) (n m : Nat) : List Rat → Nat
  | [] => 0
  | t :: ts =>
    if (grdp (acceptAt t) dst key n).length ≥ m then 0
    else grdpSteps (acceptAt t) dst key n (rinit n) + minPointWasted acceptAt dst key n m ts

/-- `j` consecutive executions of the loop body (pop, split, push, sort) -/
def stepN (dst : Nat → Nat → List Rat) (key : Nat → Nat → Nat → Rat × Rat) : Nat → RState → RState
  | 0, s => s
  | j + 1, s => stepN dst key j (refineStep dst key s)

/-! ### 2. the counters and the loops agree on the state -/

/-- The instrumented `_rdp_fixed` loop computes the same state as the model's `fixedLoop`, and its
counter has advanced by exactly `fixedSteps`: counting does not change what the Python loop computes,
and `fixedSteps` is the number of times the loop body ran. -/
theorem fixedLoopC_eq (dst : Nat → Nat → List Rat) (key : Nat → Nat → Nat → Rat × Rat) (k : Nat)
    (s : RState) (c : Nat) :
    fixedLoopC dst key k s c = (fixedLoop dst key k s, c + fixedSteps dst key k s) := by
  induction k generalizing s c with
  | zero => simp [fixedLoopC, fixedLoop, fixedSteps]
  | succ k ih =>
    simp only [fixedLoopC, fixedLoop, fixedSteps]
    split
    · simp
    · rw [ih]; congr 1; omega

/-- The instrumented `_grdp` loop computes the same state as the model's `grdpLoop`, and its counter
has advanced by exactly `grdpSteps`. -/
theorem grdpLoopC_eq (accept : List Nat → Bool) (dst : Nat → Nat → List Rat)
    (key : Nat → Nat → Nat → Rat × Rat) (f : Nat) (s : RState) (c : Nat) :
    grdpLoopC accept dst key f s c = (grdpLoop accept dst key f s, c + grdpSteps accept dst key f s) := by
  induction f generalizing s c with
  | zero => simp [grdpLoopC, grdpLoop, grdpSteps]
  | succ f ih =>
    simp only [grdpLoopC, grdpLoop, grdpSteps]
    split
    · simp
    · rw [ih]; congr 1; omega

/-- The state `_rdp_fixed` returns is the initial state after exactly `fixedSteps` applications of
the loop body, and the stack was non-empty before each of them (every counted step really popped a
segment). -/
theorem fixedLoop_eq_iterate (dst : Nat → Nat → List Rat) (key : Nat → Nat → Nat → Rat × Rat) (k : Nat)
    (s : RState) :
    fixedLoop dst key k s = stepN dst key (fixedSteps dst key k s) s ∧
    ∀ j < fixedSteps dst key k s, (stepN dst key j s).stack ≠ [] := by
  induction k generalizing s with
  | zero => simp [fixedLoop, fixedSteps, stepN]
  | succ k ih =>
    simp only [fixedLoop, fixedSteps]
    split
    · simp [stepN]
    · rename_i he
      obtain ⟨h1, h2⟩ := ih (refineStep dst key s)
      refine ⟨by rw [h1]; rfl, ?_⟩
      intro j hj
      cases j with
      | zero => simpa [stepN] using he
      | succ j => exact h2 j (by omega)

/-- The state `_grdp` returns is the initial state after exactly `grdpSteps` applications of the loop
body; before each of them the cost was not accepted and the stack was non-empty. -/
theorem grdpLoop_eq_iterate (accept : List Nat → Bool) (dst : Nat → Nat → List Rat)
    (key : Nat → Nat → Nat → Rat × Rat) (f : Nat) (s : RState) :
    grdpLoop accept dst key f s = stepN dst key (grdpSteps accept dst key f s) s ∧
    ∀ j < grdpSteps accept dst key f s,
      accept (stepN dst key j s).reduced = false ∧
      (stepN dst key j s).stack ≠ [] := by
  induction f generalizing s with
  | zero => simp [grdpLoop, grdpSteps, stepN]
  | succ f ih =>
    simp only [grdpLoop, grdpSteps]
    split
    · simp [stepN]
    · rename_i he
      obtain ⟨h1, h2⟩ := ih (refineStep dst key s)
      refine ⟨by rw [h1]; rfl, ?_⟩
      intro j hj
      cases j with
      | zero =>
        simp only [stepN]
        cases ha : accept s.reduced <;> cases hs : s.stack <;> simp_all
      | succ j => exact h2 j (by omega)

/-- The global loop is the fixed-size loop run for exactly `grdpSteps` iterations: `grdp` returns
what `rdp_fixed` returns for `grdpSteps + 2` points. -/
theorem grdpLoop_eq_fixedLoop_steps (accept : List Nat → Bool) (dst : Nat → Nat → List Rat)
    (key : Nat → Nat → Nat → Rat × Rat) (f : Nat) (s : RState) :
    grdpLoop accept dst key f s = fixedLoop dst key (grdpSteps accept dst key f s) s := by
  induction f generalizing s with
  | zero => simp [grdpLoop, grdpSteps, fixedLoop]
  | succ f ih =>
    simp only [grdpLoop, grdpSteps]
    split
    · simp [fixedLoop]
    · rename_i he
      have hemp : s.stack.isEmpty = false := by
        cases hs : s.stack.isEmpty <;> simp_all
      rw [ih]
      simp [fixedLoop, hemp]

/-! ### 3. every step adds exactly one retained index -/

/-- **C01, one index per step.** Whenever the loop body runs (the stack is non-empty) on a state
reachable from the initial one, it inserts exactly one index that was not yet retained: the retained
set grows by exactly one, never by zero (no stalling) and never by a duplicate. -/
theorem refineStep_adds_one (dst : Nat → Nat → List Rat) (key : Nat → Nat → Nat → Rat × Rat)
    (hd : ∀ l r, (dst l r).length = r - l) {n : Nat} {s : RState} (h : RInv n s) (hne : s.stack ≠ []) :
    RInv n (refineStep dst key s) ∧
    ∃ x, x ∉ s.reduced ∧ (refineStep dst key s).reduced = insertSorted x s.reduced ∧
      (refineStep dst key s).reduced.length = s.reduced.length + 1 := by
  have htop : s.stack.getLast? = some (s.stack.getLast hne) := List.getLast?_eq_some_getLast hne
  have hs := refineStep_spec dst key hd h htop
  exact ⟨hs.1, _, hs.2.2.1, hs.2.1, hs.2.2.2.2.2.2.2⟩

/-- Fixed-size loop from any reachable state: the retained set grows by exactly the number of
loop-body executions, which is at most the budget `k`. -/
theorem fixedSteps_spec {dst : Nat → Nat → List Rat} {key : Nat → Nat → Nat → Rat × Rat}
    (hd : ∀ l r, (dst l r).length = r - l) {n : Nat} (k : Nat) {s : RState} (h : RInv n s) :
    (fixedLoop dst key k s).reduced.length = s.reduced.length + fixedSteps dst key k s ∧
    fixedSteps dst key k s ≤ k := by
  induction k generalizing s with
  | zero => simp [fixedLoop, fixedSteps]
  | succ k ih =>
    simp only [fixedLoop, fixedSteps]
    split
    · simp
    · rename_i he
      have hne : s.stack ≠ [] := by simpa using he
      obtain ⟨hinv, _, _, _, hlen⟩ := refineStep_adds_one dst key hd h hne
      obtain ⟨h1, h2⟩ := ih hinv
      rw [h1, hlen]
      omega

/-- Fixed-size loop from any reachable state: the exact number of loop-body executions is
`min k (n - #retained)`: the budget, unless the curve runs out of points first. -/
theorem fixedSteps_eq {dst : Nat → Nat → List Rat} {key : Nat → Nat → Nat → Rat × Rat}
    (hd : ∀ l r, (dst l r).length = r - l) {n : Nat} (hn : 2 ≤ n) (k : Nat) {s : RState} (h : RInv n s) :
    fixedSteps dst key k s = min k (n - s.reduced.length) := by
  have h1 := (fixedSteps_spec (key := key) hd k h).1
  have h2 := fixedLoop_length (key := key) hd hn h k
  have h3 := h.length_le hn
  omega

/-- Global loop from any reachable state and with any fuel: the result state is reachable, the
retained set grew by exactly the number of loop-body executions, which is at most the fuel. -/
theorem grdpSteps_spec {accept : List Nat → Bool} {dst : Nat → Nat → List Rat}
    {key : Nat → Nat → Nat → Rat × Rat} (hd : ∀ l r, (dst l r).length = r - l) {n : Nat} (f : Nat)
    {s : RState} (h : RInv n s) :
    RInv n (grdpLoop accept dst key f s) ∧
    (grdpLoop accept dst key f s).reduced.length = s.reduced.length + grdpSteps accept dst key f s ∧
    grdpSteps accept dst key f s ≤ f := by
  induction f generalizing s with
  | zero => simp [grdpLoop, grdpSteps, h]
  | succ f ih =>
    simp only [grdpLoop, grdpSteps]
    split
    · simp [h]
    · rename_i he
      have hne : s.stack ≠ [] := by
        intro e; simp [e] at he
      obtain ⟨hinv, _, _, _, hlen⟩ := refineStep_adds_one dst key hd h hne
      obtain ⟨h0, h1, h2⟩ := ih hinv
      refine ⟨h0, ?_, by omega⟩
      rw [h1, hlen]
      omega

/-- Global loop from any reachable state, ANY fuel: at most `n - #retained` loop-body executions. -/
theorem grdpSteps_le {accept : List Nat → Bool} {dst : Nat → Nat → List Rat}
    {key : Nat → Nat → Nat → Rat × Rat} (hd : ∀ l r, (dst l r).length = r - l) {n : Nat} (hn : 2 ≤ n)
    (f : Nat) {s : RState} (h : RInv n s) :
    grdpSteps accept dst key f s ≤ n - s.reduced.length := by
  obtain ⟨h0, h1, _⟩ := grdpSteps_spec (accept := accept) (key := key) hd f h
  have := h0.length_le hn
  omega

/-! ### 4. the step bounds of the property -/

/-- **C01, fixed-size RDP, step bound.** For every distance/ordering oracle and every `k`,
`rdp_fixed(points, k)` executes its loop body exactly `min (k - 2) (n - 2)` times — in particular at
most `k - 2` times and at most `n - 2` times (linear in n, independent of `k` when `k > n`) — and
each execution adds exactly one retained index: the result has `steps + 2` points. -/
theorem fixed_steps_linear (dst : Nat → Nat → List Rat) (key : Nat → Nat → Nat → Rat × Rat) (n k : Nat)
    (hn : 2 ≤ n) (hd : ∀ l r, (dst l r).length = r - l) :
    fixedSteps dst key (k - 2) (rinit n) ≤ min (k - 2) (n - 2) ∧
    fixedSteps dst key (k - 2) (rinit n) = min (k - 2) (n - 2) ∧
    fixedSteps dst key (k - 2) (rinit n) = (rdpFixed dst key n k).length - 2 ∧
    (rdpFixed dst key n k).length = fixedSteps dst key (k - 2) (rinit n) + 2 := by
  have h1 := fixedSteps_eq (key := key) hd hn (k - 2) (rinit_inv n hn)
  have h2 := (fixedSteps_spec (key := key) hd (k - 2) (rinit_inv n hn)).1
  have h3 : (rinit n).reduced.length = 2 := rfl
  rw [h3] at h1 h2
  unfold rdpFixed
  omega

/-- **C01, global RDP, step bound.** Whatever the global-cost oracle answers, `grdp` executes its loop
body at most `n - 2` times (the fuel `n` of the model is never the reason for stopping, see
`grdp_total_wf`), each execution adds exactly one retained index (the result has `steps + 2`
points), and the result is what `rdp_fixed` returns for `steps + 2` points. -/
theorem grdp_steps_linear (accept : List Nat → Bool) (dst : Nat → Nat → List Rat)
    (key : Nat → Nat → Nat → Rat × Rat) (n : Nat) (hn : 2 ≤ n) (hd : ∀ l r, (dst l r).length = r - l) :
    grdpSteps accept dst key n (rinit n) ≤ n - 2 ∧
    grdpSteps accept dst key n (rinit n) = (grdp accept dst key n).length - 2 ∧
    (grdp accept dst key n).length = grdpSteps accept dst key n (rinit n) + 2 ∧
    grdp accept dst key n = rdpFixed dst key n (grdpSteps accept dst key n (rinit n) + 2) := by
  have h1 := grdpSteps_le (accept := accept) (key := key) hd hn n (rinit_inv n hn)
  have h2 := (grdpSteps_spec (accept := accept) (key := key) hd n (rinit_inv n hn)).2.1
  have h3 : (rinit n).reduced.length = 2 := rfl
  rw [h3] at h1 h2
  refine ⟨h1, ?_, ?_, ?_⟩
  · unfold grdp; omega
  · unfold grdp; omega
  · simp [grdp, rdpFixed, grdpLoop_eq_fixedLoop_steps]

/-- **C01, global RDP, the bound does not depend on the fuel.** With ANY iteration budget `f` the
global loop executes its body at most `n - 2` times: the linear bound is a property of the loop, not
an artefact of the fuel the model passes. -/
theorem grdp_steps_any_fuel (accept : List Nat → Bool) (dst : Nat → Nat → List Rat)
    (key : Nat → Nat → Nat → Rat × Rat) (n f : Nat) (hn : 2 ≤ n) (hd : ∀ l r, (dst l r).length = r - l) :
    grdpSteps accept dst key f (rinit n) ≤ n - 2 :=
  grdpSteps_le (accept := accept) (key := key) hd hn f (rinit_inv n hn)

/-- **C01, min-points variant, step bound.** `mp_grdp(points, t, m)` executes at most `n - 2` loop
bodies IN TOTAL (global phase plus the `_rdp_fixed` continuation on the same stack), for every
oracle and every `m`; each execution adds exactly one retained index, so the result has
`steps + 2` points. -/
theorem mp_steps_linear (accept : List Nat → Bool) (dst : Nat → Nat → List Rat)
    (key : Nat → Nat → Nat → Rat × Rat) (n m : Nat) (hn : 2 ≤ n) (hd : ∀ l r, (dst l r).length = r - l) :
    mpSteps accept dst key n m ≤ n - 2 ∧
    mpSteps accept dst key n m = (mpGrdp accept dst key n m).length - 2 ∧
    (mpGrdp accept dst key n m).length = mpSteps accept dst key n m + 2 := by
  obtain ⟨hinv, hlen, _⟩ := grdpSteps_spec (accept := accept) (key := key) hd n (rinit_inv n hn)
  have h3 : (rinit n).reduced.length = 2 := rfl
  rw [h3] at hlen
  have hle := hinv.length_le hn
  unfold mpSteps mpGrdp
  simp only
  split
  · omega
  · obtain ⟨hf, _⟩ := fixedSteps_spec (key := key) hd
      (m - (grdpLoop accept dst key n (rinit n)).reduced.length) hinv
    have hle2 := (fixedLoop_inv (key := key) hd hn hinv
      (m - (grdpLoop accept dst key n (rinit n)).reduced.length)).length_le hn
    omega

/-- **C01, min-points variant, phases.** The global phase of `mp_grdp` takes `grdpSteps` steps; the
continuation runs only if the global result has fewer than `m` points and then takes exactly
`min m n - #global result` further steps. -/
theorem mp_steps_phases (accept : List Nat → Bool) (dst : Nat → Nat → List Rat)
    (key : Nat → Nat → Nat → Rat × Rat) (n m : Nat) (hn : 2 ≤ n) (hd : ∀ l r, (dst l r).length = r - l) :
    mpSteps accept dst key n m =
      grdpSteps accept dst key n (rinit n) + (min m n - (grdp accept dst key n).length) := by
  obtain ⟨hinv, _, _⟩ := grdpSteps_spec (accept := accept) (key := key) hd n (rinit_inv n hn)
  have hle := hinv.length_le hn
  unfold mpSteps grdp
  simp only
  split
  · omega
  · rw [fixedSteps_eq (key := key) hd hn _ hinv]
    omega

/-- **C01, multi-threshold variant, accounting.** The steps of `min_point_rdp` split into the steps
of the rejected `grdp` runs (`minPointWasted`) and the steps of the run that produced the returned
reduction; for the latter each step adds exactly one retained index (`result.length - 2` steps).
A rejected run has fewer than `m` (and at most `n`) points, hence at most `min (m - 1) n - 2` steps. -/
theorem minpoint_steps_split (acceptAt : Rat → List Nat → Bool) (dst : Nat → Nat → List Rat)
    (key : Nat → Nat → Nat → Rat × Rat) (n m : Nat) (hn : 2 ≤ n) (hd : ∀ l r, (dst l r).length = r - l)
    (ts : List Rat) :
    minPointSteps acceptAt dst key n m ts =
      minPointWasted acceptAt dst key n m ts + ((minPointRdp acceptAt dst key n m ts).length - 2) ∧
    minPointWasted acceptAt dst key n m ts ≤ ts.length * (min (m - 1) n - 2) := by
  induction ts with
  | nil =>
    simp only [minPointSteps, minPointWasted, minPointRdp, List.length_nil]
    have := (fixed_steps_linear dst key n m hn hd).2.2.1
    omega
  | cons t ts ih =>
    obtain ⟨hle, heq, hlen, _⟩ := grdp_steps_linear (acceptAt t) dst key n hn hd
    simp only [minPointSteps, minPointWasted, minPointRdp, List.length_cons]
    split
    · refine ⟨by omega, by omega⟩
    · rename_i hlt
      obtain ⟨ih1, ih2⟩ := ih
      refine ⟨by omega, ?_⟩
      have : grdpSteps (acceptAt t) dst key n (rinit n) ≤ min (m - 1) n - 2 := by omega
      rw [Nat.add_mul, Nat.one_mul]
      omega

/-- **C01, multi-threshold variant, step bound.** `min_point_rdp(points, ts, m)` tries the thresholds
in order and may fall back to `rdp_fixed`; whatever the oracles answer it executes at most
`(len(ts) + 1) * (n - 2)` loop bodies in total — linear in n for a fixed threshold list. -/
theorem minpoint_steps_linear (acceptAt : Rat → List Nat → Bool) (dst : Nat → Nat → List Rat)
    (key : Nat → Nat → Nat → Rat × Rat) (n m : Nat) (hn : 2 ≤ n) (hd : ∀ l r, (dst l r).length = r - l)
    (ts : List Rat) :
    minPointSteps acceptAt dst key n m ts ≤ (ts.length + 1) * (n - 2) := by
  induction ts with
  | nil =>
    simp only [minPointSteps, List.length_nil]
    have := (fixed_steps_linear dst key n m hn hd).1
    omega
  | cons t ts ih =>
    have hle := (grdp_steps_linear (acceptAt t) dst key n hn hd).1
    simp only [minPointSteps, List.length_cons]
    rw [Nat.add_mul, Nat.one_mul]
    split <;> omega

/-- **C01, multi-threshold variant as called by the code.** `min_point_rdp` first sorts the caller's
thresholds in descending order (`t.sort(reverse=True)`, `sortDesc`); the bound is in terms of the
caller's list. -/
theorem minpoint_steps_linear_sorted (acceptAt : Rat → List Nat → Bool) (dst : Nat → Nat → List Rat)
    (key : Nat → Nat → Nat → Rat × Rat) (n m : Nat) (hn : 2 ≤ n) (hd : ∀ l r, (dst l r).length = r - l)
    (ts : List Rat) :
    minPointSteps acceptAt dst key n m (sortDesc ts) ≤ (ts.length + 1) * (n - 2) := by
  have := minpoint_steps_linear acceptAt dst key n m hn hd (sortDesc ts)
  rwa [(sortDesc_perm ts).length_eq] at this

/-! ### 5. the removed table of the stack-ordered simplifiers

`rdp_fixed`, `grdp`, `mp_grdp` and `min_point_rdp` return `reduced, compute_removed_points(reduced)`:
the table is computed by the code itself from the returned index list. -/

/-- the removed-table clause of C01 for a reduction `reduced` of an n-point curve:
one row per retained segment, each row is `[left index, number of dropped interior points]`,
and retained + dropped = n -/
def RemovedRows (n : Nat) (reduced : List Nat) : Prop :=
  (computeRemoved reduced).length + 1 = reduced.length ∧
  (∀ i, i + 1 < reduced.length →
    (computeRemoved reduced)[i]? =
      some (reduced[i]?.getD 0, reduced[i + 1]?.getD 0 - reduced[i]?.getD 0 - 1)) ∧
  reduced.length + ((computeRemoved reduced).map (·.2)).sum = n

/-- row `i` of `compute_removed_points(reduced)` is `[reduced[i], reduced[i+1] - reduced[i] - 1]` -/
theorem computeRemoved_row : ∀ (s : List Nat) (i : Nat), i + 1 < s.length →
    (computeRemoved s)[i]? = some (s[i]?.getD 0, s[i + 1]?.getD 0 - s[i]?.getD 0 - 1) := by
  intro s
  induction s with
  | nil => intro i h; simp at h
  | cons a t ih =>
    intro i h
    cases t with
    | nil => simp at h
    | cons b t' =>
      cases i with
      | zero => simp [computeRemoved]
      | succ j =>
        have := ih j (by simpa using h)
        simpa [computeRemoved] using this

/-- a well-formed reduction (C01.lean) has a removed table of the stated shape -/
theorem removedRows_of_wf {n : Nat} {reduced : List Nat} (h : WellFormed n reduced) :
    RemovedRows n reduced := by
  obtain ⟨_, hf, _, htot⟩ := h
  have hne : 1 ≤ reduced.length := by
    cases reduced with
    | nil => simp at hf
    | cons _ _ => simp
  refine ⟨?_, fun i hi => computeRemoved_row reduced i hi, htot⟩
  rw [computeRemoved_length]; omega

/-- **C01, fixed-size RDP, removed table.** `rdp_fixed` returns `compute_removed_points(reduced)`:
exactly one row `[left index, dropped count]` per retained segment, and retained + dropped = n,
for every oracle and every `k`. -/
theorem fixed_removed_rows (dst : Nat → Nat → List Rat) (key : Nat → Nat → Nat → Rat × Rat) (n k : Nat)
    (hn : 2 ≤ n) (hd : ∀ l r, (dst l r).length = r - l) : RemovedRows n (rdpFixed dst key n k) :=
  removedRows_of_wf (fixed_wf dst key n k hn hd)

/-- **C01, global RDP, removed table.** Same clause for `grdp`, whatever the global-cost oracle answers. -/
theorem grdp_removed_rows (accept : List Nat → Bool) (dst : Nat → Nat → List Rat)
    (key : Nat → Nat → Nat → Rat × Rat) (n : Nat) (hn : 2 ≤ n) (hd : ∀ l r, (dst l r).length = r - l) :
    RemovedRows n (grdp accept dst key n) :=
  removedRows_of_wf (grdp_total_wf accept dst key n hn hd).1

/-- **C01, min-points variant, removed table.** Same clause for `mp_grdp`, for every `m`. -/
theorem mp_removed_rows (accept : List Nat → Bool) (dst : Nat → Nat → List Rat)
    (key : Nat → Nat → Nat → Rat × Rat) (n m : Nat) (hn : 2 ≤ n) (hd : ∀ l r, (dst l r).length = r - l) :
    RemovedRows n (mpGrdp accept dst key n m) :=
  removedRows_of_wf (mp_wf accept dst key n m hn hd)

/-- **C01, multi-threshold variant, removed table.** Same clause for `min_point_rdp`, for every
threshold list (in particular the descending-sorted one the code uses) and every `m`. -/
theorem minpoint_removed_rows (acceptAt : Rat → List Nat → Bool) (dst : Nat → Nat → List Rat)
    (key : Nat → Nat → Nat → Rat × Rat) (n m : Nat) (hn : 2 ≤ n) (hd : ∀ l r, (dst l r).length = r - l)
    (ts : List Rat) : RemovedRows n (minPointRdp acceptAt dst key n m ts) :=
  removedRows_of_wf (minpoint_wf acceptAt dst key n m hn hd ts)

/-! ### 6. non-vacuity: concrete oracles meeting `hd` on which the loops really refine -/

/-- distance oracle used in the examples: one value per point of the range (so `hd` holds), the
point at offset 2 is the farthest -/
def exDst : Nat → Nat → List Rat := fun l r => (List.range (r - l)).map fun i => if i = 2 then 1 else 0
/-- ordering-score oracle used in the examples -/
def exKey : Nat → Nat → Nat → Rat × Rat := fun l _ i => ((l : Rat), ((l + i : Nat) : Rat))

/-- the example distance oracle satisfies the shape hypothesis of all theorems above -/
example : ∀ l r, (exDst l r).length = r - l := by intro l r; simp [exDst]

/-- fixed-size: n = 8, k = 5 → exactly 3 steps, 5 points; k = 20 → n - 2 = 6 steps (bound attained) -/
example : fixedSteps exDst exKey (5 - 2) (rinit 8) = 3 ∧ rdpFixed exDst exKey 8 5 = [0, 2, 4, 6, 7] ∧
    fixedSteps exDst exKey (20 - 2) (rinit 8) = 6 ∧
    (fixedLoopC exDst exKey (5 - 2) (rinit 8) 0).2 = 3 ∧
    (fixedLoopC exDst exKey (5 - 2) (rinit 8) 0).1.reduced = [0, 2, 4, 6, 7] := by
  decide +kernel

/-- global: the acceptance oracle accepts from 4 points on → 2 steps; an oracle that never accepts
→ n - 2 = 6 steps (bound attained, fuel `n` = 8 not exhausted) -/
example : grdpSteps (fun red => decide (4 ≤ red.length)) exDst exKey 8 (rinit 8) = 2 ∧
    grdp (fun red => decide (4 ≤ red.length)) exDst exKey 8 = [0, 2, 4, 7] ∧
    grdpSteps (fun _ => false) exDst exKey 8 (rinit 8) = 6 ∧
    (grdp (fun _ => false) exDst exKey 8).length = 8 := by
  decide +kernel

/-- min-points: global phase stops after 1 step (3 points), continuation to m = 6 adds 3 more -/
example : mpSteps (fun red => decide (3 ≤ red.length)) exDst exKey 8 6 = 4 ∧
    grdpSteps (fun red => decide (3 ≤ red.length)) exDst exKey 8 (rinit 8) = 1 ∧
    mpGrdp (fun red => decide (3 ≤ red.length)) exDst exKey 8 6 = [0, 2, 4, 5, 6, 7] := by
  decide +kernel

/-- the acceptance oracle of the multi-threshold example: threshold `t` accepts from `2 / t` points on -/
def exAcc : Rat → List Nat → Bool := fun t red => decide (2 ≤ t * red.length)

/-- multi-threshold: the caller's list [1/2, 1/3, 3/4] is tried as [3/4, 1/2, 1/3]; thresholds 3/4 and
1/2 give too few points (3 resp. 4 < m = 5: 1 + 2 wasted steps), threshold 1/3 gives 6 points
(4 steps): 7 steps in total ≤ (3 + 1) * (8 - 2) -/
example : sortDesc [1/2, 1/3, 3/4] = [3/4, 1/2, 1/3] ∧
    minPointSteps exAcc exDst exKey 8 5 (sortDesc [1/2, 1/3, 3/4]) = 7 ∧
    minPointWasted exAcc exDst exKey 8 5 (sortDesc [1/2, 1/3, 3/4]) = 3 ∧
    minPointRdp exAcc exDst exKey 8 5 (sortDesc [1/2, 1/3, 3/4]) = [0, 2, 4, 5, 6, 7] := by
  decide +kernel

/-- multi-threshold, fallback: no threshold yields m = 8 points, so `rdp_fixed(8)` runs after three
rejected `grdp` runs: 1 + 2 + 4 wasted steps + 6 steps = 13 ≤ (3 + 1) * (8 - 2) -/
example : minPointSteps exAcc exDst exKey 8 8 (sortDesc [1/2, 1/3, 3/4]) = 13 ∧
    minPointWasted exAcc exDst exKey 8 8 (sortDesc [1/2, 1/3, 3/4]) = 7 := by
  decide +kernel

/-- multi-threshold, the bound is attained: with m > n and an oracle that never accepts, every run
refines down to all n points and is rejected: (3 + 1) * (8 - 2) = 24 steps -/
example : minPointSteps (fun _ _ => false) exDst exKey 8 9 [3/4, 1/2, 1/3] = (3 + 1) * (8 - 2) := by
  decide +kernel

/-- removed table on a concrete run: 4 retained segments, 4 rows, 5 + 3 = 8 -/
example : computeRemoved (rdpFixed exDst exKey 8 5) = [(0, 1), (2, 1), (4, 1), (6, 0)] := by
  decide +kernel

end Knee

section Audit
open Knee
#print axioms fixedLoopC_eq
#print axioms grdpLoopC_eq
#print axioms fixedLoop_eq_iterate
#print axioms grdpLoop_eq_iterate
#print axioms grdpLoop_eq_fixedLoop_steps
#print axioms refineStep_adds_one
#print axioms fixedSteps_spec
#print axioms fixedSteps_eq
#print axioms grdpSteps_spec
#print axioms grdpSteps_le
#print axioms fixed_steps_linear
#print axioms grdp_steps_linear
#print axioms grdp_steps_any_fuel
#print axioms mp_steps_linear
#print axioms mp_steps_phases
#print axioms minpoint_steps_split
#print axioms minpoint_steps_linear
#print axioms minpoint_steps_linear_sorted
#print axioms computeRemoved_row
#print axioms removedRows_of_wf
#print axioms fixed_removed_rows
#print axioms grdp_removed_rows
#print axioms mp_removed_rows
#print axioms minpoint_removed_rows
end Audit

import Knee.Props.C07
import Knee.Props.C08F
/-!
# C07S — `rdp.mapping` composed with every simplifier

C07 (`mapping_computeRemoved`, `mapping_unsorted`) is stated for an abstract strictly increasing
`reduced` starting at `0` and the table `compute_removed_points(reduced)`.  This file composes it
with the simplifier stage (`simplify_wf`, C08F, itself composed from the C01 theorems): for each
of the five simplifiers of `rdp.py` the pair `(reduced, removed)` the simplifier actually returns
satisfies those hypotheses, so `mapping(I, reduced, removed)` returns exactly `reduced[I]`.

It also provides the theorem the header comment of `Props/C07.lean` refers to under the name
`simplifier_removed` (no theorem of that name exists in `Props/C01.lean`): the removed table
returned by each simplifier IS `compute_removed_points(reduced)`
(`simplifier_removed_is_computeRemoved`).

Oracles: every floating-point quantity (`o.cst`, `o.dst`, `o.key`, `o.gcs`); only contract: `hd`,
the distance primitive returns one value per point of the range.  Threshold RDP needs its
threshold in the domain (`SimpDomain`).
-/
namespace Knee

/-- **C07S, removed table.** For all five simplifiers (`rdp`, `grdp`, `rdp_fixed`, `mp_grdp`,
`min_point_rdp`; parameters in the domain), whatever the floating-point primitives return, the
`removed` array returned next to `reduced` equals `compute_removed_points(reduced)`: one row
`[left index, number of dropped interior points]` per pair of consecutive retained indices.  For
the four stack-ordered variants this is how the code computes it; for threshold RDP, which builds
the table from its accepted segments, it is the content of `rdp_total_wf`. -/
theorem simplifier_removed_is_computeRemoved (s : Simplifier) (o : SimpOracles) (n : Nat)
    (hn : 2 ≤ n) (hs : SimpDomain s) (hd : ∀ l r, (o.dst l r).length = r - l)
    (reduced : List Nat) (removed : List (Nat × Nat))
    (h : simplify s o n = some (reduced, removed)) : removed = computeRemoved reduced := by
  obtain ⟨reduced', removed', h', _, _, _, hrem, _⟩ := simplify_wf s o n hn hs hd
  rw [h] at h'
  have e := Option.some.inj h'
  have e1 : reduced = reduced' := congrArg Prod.fst e
  have e2 : removed = removed' := congrArg Prod.snd e
  rw [e1, e2]
  exact hrem

/-- The four stack-ordered simplifiers return `compute_removed_points(reduced)` by construction:
no hypothesis at all (any `n`, any oracle, any parameter). -/
theorem simplifier_removed_is_computeRemoved_stack (s : Simplifier) (o : SimpOracles) (n : Nat)
    (hs : ∀ isR2 t, s ≠ .rdp isR2 t)
    (reduced : List Nat) (removed : List (Nat × Nat))
    (h : simplify s o n = some (reduced, removed)) : removed = computeRemoved reduced := by
  cases s with
  | rdp isR2 t => exact absurd rfl (hs isR2 t)
  | grdp isR2 t =>
    simp only [simplify, Option.some.injEq, Prod.mk.injEq] at h
    rw [← h.1, ← h.2]
  | fixed k =>
    simp only [simplify, Option.some.injEq, Prod.mk.injEq] at h
    rw [← h.1, ← h.2]
  | mpGrdp isR2 t m =>
    simp only [simplify, Option.some.injEq, Prod.mk.injEq] at h
    rw [← h.1, ← h.2]
  | minPoint isR2 m ts =>
    simp only [simplify, Option.some.injEq, Prod.mk.injEq] at h
    rw [← h.1, ← h.2]

/-- **C07S, mapping after any simplifier (existence form).** For every simplifier (parameters in
its domain), every oracle family (`hd`) and every curve of `n ≥ 2` points, the simplifier
terminates with some `(reduced, removed)`, and for every ascending list `I` of positions of the
reduced curve (`i < len(reduced)`; repetitions allowed):

* `mapping(I, reduced, removed, sorted=True) = reduced[I]`, and
* `mapping(I, reduced, rows, sorted=False) = reduced[I]` for ANY reordering `rows` of `removed`.

So knees found on the simplified curve are reported at exactly the original indices of the
retained points they sit on. -/
theorem mapping_after_simplifier (s : Simplifier) (o : SimpOracles) (n : Nat)
    (hn : 2 ≤ n) (hs : SimpDomain s) (hd : ∀ l r, (o.dst l r).length = r - l) :
    ∃ reduced removed, simplify s o n = some (reduced, removed) ∧
      ∀ I : List Nat, I.Pairwise (· ≤ ·) → (∀ i ∈ I, i < reduced.length) →
        mapping I reduced removed true = I.map (fun i => reduced[i]?.getD 0) ∧
        ∀ rows : List (Nat × Nat), rows.Perm removed →
          mapping I reduced rows false = I.map (fun i => reduced[i]?.getD 0) := by
  obtain ⟨reduced, removed, h, hpw, h0, _, hrem, _⟩ := simplify_wf s o n hn hs hd
  refine ⟨reduced, removed, h, ?_⟩
  intro I hI hb
  subst hrem
  exact ⟨mapping_computeRemoved reduced I hpw h0 hI hb,
    fun rows hperm => mapping_unsorted reduced I rows hpw h0 hI hb hperm⟩

/-- **C07S, mapping after any simplifier, `sorted=True` (universal form).** Whatever pair
`(reduced, removed)` the simplifier returns, `mapping(I, reduced, removed) = reduced[I]` for every
ascending position list `I` within the reduced curve. -/
theorem mapping_after_simplifier_sorted (s : Simplifier) (o : SimpOracles) (n : Nat)
    (hn : 2 ≤ n) (hs : SimpDomain s) (hd : ∀ l r, (o.dst l r).length = r - l)
    (reduced : List Nat) (removed : List (Nat × Nat))
    (h : simplify s o n = some (reduced, removed))
    (I : List Nat) (hI : I.Pairwise (· ≤ ·)) (hb : ∀ i ∈ I, i < reduced.length) :
    mapping I reduced removed true = I.map (fun i => reduced[i]?.getD 0) := by
  obtain ⟨reduced', removed', h', hall⟩ := mapping_after_simplifier s o n hn hs hd
  rw [h] at h'
  have e := Option.some.inj h'
  have e1 : reduced = reduced' := congrArg Prod.fst e
  have e2 : removed = removed' := congrArg Prod.snd e
  subst e1 e2
  exact (hall I hI hb).1

/-- **C07S, mapping after any simplifier, `sorted=False` (universal form).** The same with
`sorted=False` and the rows of the returned table in ANY order (`rows` a permutation of
`removed`): `mapping` sorts the rows by left index itself and the result is again `reduced[I]`. -/
theorem mapping_after_simplifier_unsorted (s : Simplifier) (o : SimpOracles) (n : Nat)
    (hn : 2 ≤ n) (hs : SimpDomain s) (hd : ∀ l r, (o.dst l r).length = r - l)
    (reduced : List Nat) (removed : List (Nat × Nat))
    (h : simplify s o n = some (reduced, removed))
    (rows : List (Nat × Nat)) (hperm : rows.Perm removed)
    (I : List Nat) (hI : I.Pairwise (· ≤ ·)) (hb : ∀ i ∈ I, i < reduced.length) :
    mapping I reduced rows false = I.map (fun i => reduced[i]?.getD 0) := by
  obtain ⟨reduced', removed', h', hall⟩ := mapping_after_simplifier s o n hn hs hd
  rw [h] at h'
  have e := Option.some.inj h'
  have e1 : reduced = reduced' := congrArg Prod.fst e
  have e2 : removed = removed' := congrArg Prod.snd e
  subst e1 e2
  exact (hall I hI hb).2 rows hperm

/-- **C07S, the mapped indices are valid and ordered.** The values `mapping` returns after any
simplifier are retained original indices `< n`, in ascending order (strictly, if `I` is strict). -/
theorem mapping_after_simplifier_range (s : Simplifier) (o : SimpOracles) (n : Nat)
    (hn : 2 ≤ n) (hs : SimpDomain s) (hd : ∀ l r, (o.dst l r).length = r - l)
    (reduced : List Nat) (removed : List (Nat × Nat))
    (h : simplify s o n = some (reduced, removed))
    (I : List Nat) (hI : I.Pairwise (· ≤ ·)) (hb : ∀ i ∈ I, i < reduced.length) :
    (∀ x ∈ mapping I reduced removed true, x ∈ reduced ∧ x < n) ∧
    (mapping I reduced removed true).length = I.length := by
  rw [mapping_after_simplifier_sorted s o n hn hs hd reduced removed h I hI hb]
  obtain ⟨reduced', removed', h', hpw, _, hlast, _, _⟩ := simplify_wf s o n hn hs hd
  rw [h] at h'
  have e1 : reduced = reduced' := congrArg Prod.fst (Option.some.inj h')
  subst e1
  refine ⟨?_, by simp⟩
  intro x hx
  obtain ⟨i, hi, rfl⟩ := List.mem_map.mp hx
  have hlt := hb i hi
  have hm : reduced[i]?.getD 0 ∈ reduced := by
    rw [List.getElem?_eq_getElem hlt]
    exact List.getElem_mem hlt
  refine ⟨hm, ?_⟩
  have := le_getLast_of_pairwise hpw hlast _ hm
  omega

/-! ### Non-vacuity
Concrete oracle families (10 points; the cost oracle splits every range of more than 3 points,
the distance oracle peaks in the middle, the key is the children's sizes, the global cost is
`1 / len(reduced)`): each of the five simplifiers returns a non-trivial `(reduced, removed)` with
`removed = compute_removed_points(reduced)`, and `mapping` (both with the returned table and with a
shuffled one and `sorted=False`) returns `reduced[I]`.  The hypotheses `hd`, `SimpDomain` hold. -/
private def cstG : Nat → Nat → Rat := fun l r => if r - l > 3 then 1 else 0
private def dstG : Nat → Nat → List Rat := fun l r =>
  (List.range (r - l)).map fun i => ((min i (r - l - 1 - i) : Nat) : Rat)
private def keyG : Nat → Nat → Nat → Rat × Rat := fun l r i =>
  (((i : Nat) : Rat), ((r - l - i : Nat) : Rat))
private def gcsG : List Nat → Rat := fun red => 1 / ((red.length : Nat) : Rat)
private def oG : SimpOracles := ⟨cstG, dstG, keyG, gcsG⟩

example : ∀ l r, (oG.dst l r).length = r - l := by intro l r; simp [oG, dstG]
example : SimpDomain (.rdp false (1/2)) := by simp only [SimpDomain]; decide +kernel
example : SimpDomain (.fixed 5) := trivial

example : simplify (.rdp false (1/2)) oG 10 = some ([0, 2, 4, 6, 7, 9], [(0, 1), (2, 1), (4, 1), (6, 0), (7, 1)]) ∧
    computeRemoved [0, 2, 4, 6, 7, 9] = [(0, 1), (2, 1), (4, 1), (6, 0), (7, 1)] ∧
    mapping [1, 1, 3, 5] [0, 2, 4, 6, 7, 9] [(0, 1), (2, 1), (4, 1), (6, 0), (7, 1)] true = [2, 2, 6, 9] ∧
    mapping [1, 1, 3, 5] [0, 2, 4, 6, 7, 9] [(6, 0), (0, 1), (7, 1), (4, 1), (2, 1)] false = [2, 2, 6, 9] := by
  decide +kernel
example : simplify (.fixed 5) oG 10 = some ([0, 4, 6, 7, 9], [(0, 3), (4, 1), (6, 0), (7, 1)]) ∧
    computeRemoved [0, 4, 6, 7, 9] = [(0, 3), (4, 1), (6, 0), (7, 1)] ∧
    mapping [0, 1, 3] [0, 4, 6, 7, 9] [(0, 3), (4, 1), (6, 0), (7, 1)] true = [0, 4, 7] ∧
    mapping [0, 1, 3] [0, 4, 6, 7, 9] [(7, 1), (4, 1), (0, 3), (6, 0)] false = [0, 4, 7] := by
  decide +kernel
example : simplify (.grdp false (1/5)) oG 10 = some ([0, 2, 4, 6, 7, 9], [(0, 1), (2, 1), (4, 1), (6, 0), (7, 1)]) ∧
    simplify (.mpGrdp false (1/3) 6) oG 10 = some ([0, 2, 4, 6, 7, 9], [(0, 1), (2, 1), (4, 1), (6, 0), (7, 1)]) ∧
    simplify (.minPoint false 5 [1/20, 1/2, 1/4]) oG 10 = some ([0, 4, 6, 7, 9], [(0, 3), (4, 1), (6, 0), (7, 1)]) := by
  decide +kernel

end Knee

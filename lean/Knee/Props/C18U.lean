import Knee.Props.C18
/-!
# C18U — the lower / upper hull chain is UNIQUE

`Knee/Props/C18.lean` shows that `hullLower pt n` (convex_hull.graham_scan_lower) is a strictly
increasing index chain from `0` to `n - 1` whose consecutive edges turn strictly counter-clockwise
and whose edge lines have every input point on or above them.  Here we show that these three
properties *characterise* the chain: on a curve with strictly increasing x there is exactly one
index list with them (`lowerChain_unique`), hence the routine returns exactly the brute-force
lower hull chain (`hullLower_is_the_chain`, `hullLower_iff`).  The upper twins follow through the
reflection `hullUpper_eq_reflect`.

Positions in a chain are read with `c[i]?.getD 0`, exactly as in `C18.lean`.
-/
namespace Knee

/-- `c` is a *lower hull chain* of the first `n` points of the curve `pt`:
(i) strictly increasing indices from `0` to `n - 1`, (ii) strictly counter-clockwise turns at every
interior vertex, (iii) every point `k < n` on or above the line through every chain edge.
This is the brute-force specification of the output of `graham_scan_lower`. -/
structure LowerChain (pt : Nat → P2) (n : Nat) (c : List Nat) : Prop where
  incr : c.Pairwise (· < ·)
  head : c.head? = some 0
  last : c.getLast? = some (n - 1)
  turns : ∀ i, i + 2 < c.length →
    0 < ccw (pt (c[i]?.getD 0)) (pt (c[i + 1]?.getD 0)) (pt (c[i + 2]?.getD 0))
  supports : ∀ k, k < n → ∀ i, i + 1 < c.length →
    0 ≤ ccw (pt (c[i]?.getD 0)) (pt (c[i + 1]?.getD 0)) (pt k)

/-- `c` is an *upper hull chain*: as `LowerChain` with strictly clockwise turns and every point on
or below every chain edge line.  Brute-force specification of the output of `graham_scan_upper`. -/
structure UpperChain (pt : Nat → P2) (n : Nat) (c : List Nat) : Prop where
  incr : c.Pairwise (· < ·)
  head : c.head? = some 0
  last : c.getLast? = some (n - 1)
  turns : ∀ i, i + 2 < c.length →
    ccw (pt (c[i]?.getD 0)) (pt (c[i + 1]?.getD 0)) (pt (c[i + 2]?.getD 0)) < 0
  supports : ∀ k, k < n → ∀ i, i + 1 < c.length →
    ccw (pt (c[i]?.getD 0)) (pt (c[i + 1]?.getD 0)) (pt k) ≤ 0

/-! ### positional ⇒ structural adjacency -/

/-- converse of `Adj2.getD`: a relation holding at every pair of consecutive positions holds
structurally -/
theorem Adj2.of_getD {R : Nat → Nat → Prop} : ∀ (l : List Nat),
    (∀ i, i + 1 < l.length → R (l[i]?.getD 0) (l[i + 1]?.getD 0)) → Adj2 R l
  | [], _ => trivial
  | [_], _ => trivial
  | b :: a :: rest, h => by
    refine ⟨by simpa using h 0 (by simp), Adj2.of_getD (a :: rest) ?_⟩
    intro i hi
    have := h (i + 1) (by simpa using hi)
    simpa using this

/-- converse of `Adj3.getD` -/
theorem Adj3.of_getD {R : Nat → Nat → Nat → Prop} : ∀ (l : List Nat),
    (∀ i, i + 2 < l.length → R (l[i]?.getD 0) (l[i + 1]?.getD 0) (l[i + 2]?.getD 0)) → Adj3 R l
  | [], _ => trivial
  | [_], _ => trivial
  | [_, _], _ => trivial
  | c :: b :: a :: rest, h => by
    refine ⟨by simpa using h 0 (by simp), Adj3.of_getD (b :: a :: rest) ?_⟩
    intro i hi
    have := h (i + 1) (by simpa using hi)
    simpa using this

/-! ### structural chain tails -/

/-- a tail of a lower chain: increasing, ending at `n - 1`, strictly convex, supporting -/
private def Ch (pt : Nat → P2) (n : Nat) (l : List Nat) : Prop :=
  l.Pairwise (· < ·) ∧ l.getLast? = some (n - 1) ∧
    Adj3 (fun x y z => 0 < ccw (pt x) (pt y) (pt z)) l ∧
    Adj2 (fun x y => ∀ k, k < n → 0 ≤ ccw (pt x) (pt y) (pt k)) l

/-- dropping the first vertex of a chain tail leaves a chain tail (the later part of a
`graham_scan_lower`-style chain still satisfies the specification) -/
private theorem Ch.tail {pt : Nat → P2} {n x y : Nat} {l : List Nat} (h : Ch pt n (x :: y :: l)) :
    Ch pt n (y :: l) := by
  obtain ⟨h1, h2, h3, h4⟩ := h
  refine ⟨(List.pairwise_cons.1 h1).2, ?_, Adj3.tail h3, Adj2.tail h4⟩
  rwa [List.getLast?_cons_cons] at h2

/-- every member of a chain tail is at most its last element `n - 1` -/
private theorem Ch.le_last {pt : Nat → P2} {n : Nat} : ∀ {l : List Nat}, Ch pt n l →
    ∀ x ∈ l, x ≤ n - 1
  | [], _, x, hx => by simp at hx
  | [a], h, x, hx => by
    have := h.2.1
    simp only [List.getLast?_singleton, Option.some.injEq] at this
    simp only [List.mem_singleton] at hx
    omega
  | a :: b :: l, h, x, hx => by
    have ih := Ch.le_last h.tail
    rcases List.mem_cons.1 hx with rfl | hx
    · have h1 : x < b := (List.pairwise_cons.1 h.1).1 b (by simp)
      have := ih b (by simp)
      omega
    · exact ih x hx

/-- the positional specification (as stated for the Python output in `C18.lean`) in structural
form -/
private theorem LowerChain.toCh {pt : Nat → P2} {n : Nat} {c : List Nat} (h : LowerChain pt n c) :
    Ch pt n c :=
  ⟨h.incr, h.last, Adj3.of_getD c h.turns,
    Adj2.of_getD c (fun i hi k hk => h.supports k hk i hi)⟩

/-! ### the geometric core -/

/-- collinear `u, v, w` (x strictly increasing) and `t` right of `v`, strictly above the line:
then `w` is strictly below the line through `v, t`. -/
theorem ccw_collinear_break (u v t w : P2) (huv : u.1 < v.1) (hvw : v.1 < w.1)
    (hcol : ccw u v w = 0) (hturn : 0 < ccw u v t) : ccw v t w < 0 := by
  have key : ccw v t w * (v.1 - u.1) = ccw u v w * (t.1 - v.1) + ccw u v t * (v.1 - w.1) := by
    unfold ccw; ring
  rw [hcol, zero_mul, zero_add] at key
  have hneg : ccw u v t * (v.1 - w.1) < 0 := mul_neg_of_pos_of_neg hturn (by linarith)
  by_contra hc
  have : 0 ≤ ccw v t w * (v.1 - u.1) := mul_nonneg (le_of_not_gt hc) (by linarith)
  linarith

/-- `_ccw` changes sign when its last two arguments are exchanged -/
theorem ccw_swap (a b c : P2) : ccw a c b = -ccw a b c := by unfold ccw; ring

section Unique
variable {pt : Nat → P2} {n : Nat} (hx : ∀ i j, i < j → j < n → (pt i).1 < (pt j).1)
include hx

/-- two chain tails from the same vertex `u`: the next vertex of the first is not smaller than the
next vertex of the second -/
private theorem next_not_lt {u v w : Nat} {r r' : List Nat} (h : Ch pt n (u :: v :: r))
    (h' : Ch pt n (u :: w :: r')) : ¬ v < w := by
  intro hvw
  have huv : u < v := (List.pairwise_cons.1 h.1).1 v (by simp)
  have hwn : w ≤ n - 1 := Ch.le_last h' w (by simp)
  have hw : w < n := by omega
  have hv : v < n := by omega
  -- support both ways makes u, v, w collinear
  have s1 : 0 ≤ ccw (pt u) (pt v) (pt w) := h.2.2.2.1 w hw
  have s2 : 0 ≤ ccw (pt u) (pt w) (pt v) := h'.2.2.2.1 v hv
  rw [ccw_swap] at s2
  have hcol : ccw (pt u) (pt v) (pt w) = 0 := le_antisymm (by linarith) s1
  match r, h with
  | [], h =>
    have := h.2.1
    simp only [List.getLast?_cons_cons, List.getLast?_singleton, Option.some.injEq] at this
    omega
  | t :: r, h =>
    have hturn : 0 < ccw (pt u) (pt v) (pt t) := h.2.2.1.1
    have s3 : 0 ≤ ccw (pt v) (pt t) (pt w) := h.2.2.2.2.1 w hw
    have := ccw_collinear_break (pt u) (pt v) (pt t) (pt w) (hx u v huv hv) (hx v w hvw hw)
      hcol hturn
    linarith

/-- two chain tails starting at the same vertex are equal -/
private theorem ch_unique : ∀ (l l' : List Nat) (u : Nat), Ch pt n (u :: l) → Ch pt n (u :: l') →
    l = l'
  | [], [], _, _, _ => rfl
  | [], w :: r', u, h, h' => by
    have e := h.2.1
    simp only [List.getLast?_singleton, Option.some.injEq] at e
    have h1 : u < w := (List.pairwise_cons.1 h'.1).1 w (by simp)
    have := Ch.le_last h' w (by simp)
    omega
  | v :: r, [], u, h, h' => by
    have e := h'.2.1
    simp only [List.getLast?_singleton, Option.some.injEq] at e
    have h1 : u < v := (List.pairwise_cons.1 h.1).1 v (by simp)
    have := Ch.le_last h v (by simp)
    omega
  | v :: r, w :: r', u, h, h' => by
    have e : v = w := by
      have a := next_not_lt hx h h'
      have b := next_not_lt hx h' h
      omega
    subst e
    rw [ch_unique r r' v h.tail h'.tail]

/-- **C18 (uniqueness).** On a curve with strictly increasing x, any two index lists that
(i) increase strictly from `0` to `n - 1`, (ii) turn strictly counter-clockwise at every interior
vertex and (iii) have every point on or above every edge line are equal: the specification of
`graham_scan_lower`'s output in `C18.lean` determines that output completely. -/
theorem lowerChain_unique {c c' : List Nat} (h : LowerChain pt n c) (h' : LowerChain pt n c') :
    c = c' := by
  have hc := h.toCh
  have hc' := h'.toCh
  have hh := h.head
  have hh' := h'.head
  match c, c', hh, hh', hc, hc' with
  | a :: l, a' :: l', hh, hh', hc, hc' =>
    simp only [List.head?_cons, Option.some.injEq] at hh hh'
    subst hh; subst hh'
    rw [ch_unique hx l l' 0 hc hc']

end Unique

/-- **C18 (existence).** For `n ≥ 2` points with strictly increasing x the list returned by
`graham_scan_lower` is a lower hull chain (this bundles `hullLower_indices`,
`hullLower_strict_turns`, `hullLower_supports`). -/
theorem hullLower_lowerChain (pt : Nat → P2) (n : Nat) (hn : 2 ≤ n)
    (hx : ∀ i j, i < j → j < n → (pt i).1 < (pt j).1) : LowerChain pt n (hullLower pt n) := by
  obtain ⟨h1, h2, h3, _⟩ := hullLower_indices pt n hn
  exact ⟨h1, h2, h3, hullLower_strict_turns pt n, hullLower_supports pt n hn hx⟩

/-- **C18 (the routine returns exactly the brute-force chain).** For `n ≥ 2` points with strictly
increasing x, every index list with properties (i)–(iii) is the list returned by
`graham_scan_lower`. -/
theorem hullLower_is_the_chain (pt : Nat → P2) (n : Nat) (hn : 2 ≤ n)
    (hx : ∀ i j, i < j → j < n → (pt i).1 < (pt j).1) {c : List Nat} (h : LowerChain pt n c) :
    c = hullLower pt n :=
  lowerChain_unique hx h (hullLower_lowerChain pt n hn hx)

/-- **C18 (characterisation).** `graham_scan_lower`'s output is the unique lower hull chain. -/
theorem hullLower_iff (pt : Nat → P2) (n : Nat) (hn : 2 ≤ n)
    (hx : ∀ i j, i < j → j < n → (pt i).1 < (pt j).1) (c : List Nat) :
    LowerChain pt n c ↔ c = hullLower pt n :=
  ⟨hullLower_is_the_chain pt n hn hx, fun e => e ▸ hullLower_lowerChain pt n hn hx⟩

/-! ### upper twins -/

/-- an upper chain of `pt` is a lower chain of the curve reflected in the x-axis, and conversely -/
theorem upperChain_iff_reflect (pt : Nat → P2) (n : Nat) (c : List Nat) :
    UpperChain pt n c ↔ LowerChain (fun k => ((pt k).1, -(pt k).2)) n c := by
  show _ ↔ LowerChain (reflY pt) n c
  constructor
  · rintro ⟨h1, h2, h3, h4, h5⟩
    refine ⟨h1, h2, h3, fun i hi => ?_, fun k hk i hi => ?_⟩
    · rw [ccw_reflY]; exact neg_pos.2 (h4 i hi)
    · rw [ccw_reflY]; exact neg_nonneg.2 (h5 k hk i hi)
  · rintro ⟨h1, h2, h3, h4, h5⟩
    refine ⟨h1, h2, h3, fun i hi => ?_, fun k hk i hi => ?_⟩
    · have := h4 i hi; rw [ccw_reflY] at this; exact neg_pos.1 this
    · have := h5 k hk i hi; rw [ccw_reflY] at this; exact neg_nonneg.1 this

/-- **C18 (uniqueness, upper).** On a curve with strictly increasing x, any two index lists that
increase strictly from `0` to `n - 1`, turn strictly clockwise at every interior vertex and have
every point on or below every edge line are equal. -/
theorem upperChain_unique {pt : Nat → P2} {n : Nat}
    (hx : ∀ i j, i < j → j < n → (pt i).1 < (pt j).1) {c c' : List Nat}
    (h : UpperChain pt n c) (h' : UpperChain pt n c') : c = c' :=
  lowerChain_unique (pt := fun k => ((pt k).1, -(pt k).2)) hx
    ((upperChain_iff_reflect pt n c).1 h) ((upperChain_iff_reflect pt n c').1 h')

/-- **C18 (existence, upper).** `graham_scan_upper` returns an upper hull chain. -/
theorem hullUpper_upperChain (pt : Nat → P2) (n : Nat) (hn : 2 ≤ n)
    (hx : ∀ i j, i < j → j < n → (pt i).1 < (pt j).1) : UpperChain pt n (hullUpper pt n) := by
  rw [upperChain_iff_reflect, hullUpper_eq_reflect]
  exact hullLower_lowerChain _ n hn hx

/-- **C18 (the routine returns exactly the brute-force chain, upper).** For `n ≥ 2` points with
strictly increasing x, every index list with the upper-chain properties is the list returned by
`graham_scan_upper`. -/
theorem hullUpper_is_the_chain (pt : Nat → P2) (n : Nat) (hn : 2 ≤ n)
    (hx : ∀ i j, i < j → j < n → (pt i).1 < (pt j).1) {c : List Nat} (h : UpperChain pt n c) :
    c = hullUpper pt n :=
  upperChain_unique hx h (hullUpper_upperChain pt n hn hx)

/-- **C18 (characterisation, upper).** `graham_scan_upper`'s output is the unique upper hull
chain. -/
theorem hullUpper_iff (pt : Nat → P2) (n : Nat) (hn : 2 ≤ n)
    (hx : ∀ i j, i < j → j < n → (pt i).1 < (pt j).1) (c : List Nat) :
    UpperChain pt n c ↔ c = hullUpper pt n :=
  ⟨hullUpper_is_the_chain pt n hn hx, fun e => e ▸ hullUpper_upperChain pt n hn hx⟩

/-! ### non-vacuity: the hypotheses hold on concrete curves, by kernel computation -/

private def curveU (l : List P2) : Nat → P2 := fun k => l.getD k (0, 0)

/-- a bowl with a bump at index 2 and a point (index 4) exactly on the edge 3–5 -/
private def bowl : List P2 := [(0, 4), (1, 1), (2, 2), (3, 0), (4, 1), (5, 2), (6, 6)]

/-- strictly increasing x on the bowl -/
example : ∀ i j, i < j → j < 7 → (curveU bowl i).1 < (curveU bowl j).1 := by
  intro i j hij hj
  have : ∀ j, j < 7 → ∀ i, i < j → (curveU bowl i).1 < (curveU bowl j).1 := by decide +kernel
  exact this j hj i hij

/-- `[0, 1, 3, 5, 6]` satisfies (i)–(iii) on the bowl: the bump (2) and the collinear point (4)
are not vertices -/
example : LowerChain (curveU bowl) 7 [0, 1, 3, 5, 6] where
  incr := by decide +kernel
  head := by decide +kernel
  last := by decide +kernel
  turns := by
    intro i hi
    have : ∀ i, i < 3 → 0 < ccw (curveU bowl ([0, 1, 3, 5, 6][i]?.getD 0))
        (curveU bowl ([0, 1, 3, 5, 6][i + 1]?.getD 0))
        (curveU bowl ([0, 1, 3, 5, 6][i + 2]?.getD 0)) := by decide +kernel
    exact this i (by simp at hi; omega)
  supports := by
    intro k hk i hi
    have : ∀ k, k < 7 → ∀ i, i < 4 → 0 ≤ ccw (curveU bowl ([0, 1, 3, 5, 6][i]?.getD 0))
        (curveU bowl ([0, 1, 3, 5, 6][i + 1]?.getD 0)) (curveU bowl k) := by decide +kernel
    exact this k hk i (by simp at hi; omega)

/-- and it is what the model of `graham_scan_lower` computes -/
example : hullLower (curveU bowl) 7 = [0, 1, 3, 5, 6] := by decide +kernel

/-- the collinear point is rejected by (ii): `[0, 1, 3, 4, 5, 6]` has a straight turn at 4, so the
strictness in (ii) is what makes the chain unique -/
example : ¬ LowerChain (curveU bowl) 7 [0, 1, 3, 4, 5, 6] := by
  intro h
  have := h.turns 2 (by decide)
  revert this
  decide +kernel

/-- upper chain of the bowl: only the two ends -/
example : UpperChain (curveU bowl) 7 [0, 6] where
  incr := by decide +kernel
  head := by decide +kernel
  last := by decide +kernel
  turns := by intro i hi; simp at hi
  supports := by
    intro k hk i hi
    have : ∀ k, k < 7 → ∀ i, i < 1 → ccw (curveU bowl ([0, 6][i]?.getD 0))
        (curveU bowl ([0, 6][i + 1]?.getD 0)) (curveU bowl k) ≤ 0 := by decide +kernel
    exact this k hk i (by simp at hi; omega)

example : hullUpper (curveU bowl) 7 = [0, 6] := by decide +kernel

end Knee

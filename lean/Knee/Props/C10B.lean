import Knee.Props.C10
/-!
# C10B — the Z-method's threshold sequence reaches every level, so the loop terminates

`zmethod.knees` lowers the z threshold by a fixed positive step per round: round `k` uses
`3 - k * dz`.  C10 (`zLoop_total`, `zKnees_total`) proves termination under the hypothesis that the
sequence is eventually at or below the minimal z.  Here that hypothesis is discharged for the exact
sequence (Archimedean property of ℚ), with the explicit round `K = ⌈(3 - minz) / dz⌉` (clamped at 0).
Exact rationals; `w`, `h`, `dz`, `minz` arbitrary (`0 < w`, `0 < dz`).
-/
namespace Knee

/-- the round from which the exact threshold sequence is at or below `minz` -/
def reachRound (minz dz : Rat) : Nat := ((3 - minz) / dz).ceil.toNat

/-- **C10B (explicit round).** From round `reachRound minz dz = ⌈(3 - minz) / dz⌉` on, the exact
threshold `3 - k * dz` is at or below `minz`. -/
theorem exact_thresholds_reach_at (minz dz : Rat) (hdz : 0 < dz) :
    ∀ k : Nat, reachRound minz dz ≤ k → 3 - (k : Rat) * dz ≤ minz := by
  intro k hk
  unfold reachRound at hk
  have h1 : (3 - minz) / dz ≤ ((((3 - minz) / dz).ceil : Int) : Rat) := Rat.le_ceil
  have h2 : ((((3 - minz) / dz).ceil : Int) : Rat) ≤ ((((3 - minz) / dz).ceil.toNat : Int) : Rat) :=
    Rat.intCast_le_intCast.mpr (Int.self_le_toNat _)
  have h3 : ((((3 - minz) / dz).ceil.toNat : Nat) : Rat) ≤ (k : Rat) :=
    Rat.natCast_le_natCast.mpr hk
  have h4 : ((((3 - minz) / dz).ceil.toNat : Int) : Rat)
      = ((((3 - minz) / dz).ceil.toNat : Nat) : Rat) := by
    norm_cast
  have h5 : (3 - minz) / dz ≤ (k : Rat) := by grind
  have h6 := Rat.mul_le_mul_of_nonneg_right h5 (Rat.le_of_lt hdz)
  rw [Rat.div_mul_cancel (by grind)] at h6
  grind

/-- **C10B (the thresholds reach any level).** For every positive step `dz` and every level `minz`
the sequence `3 - k * dz` is at or below `minz` from some round on. -/
theorem exact_thresholds_reach (minz dz : Rat) (hdz : 0 < dz) :
    ∃ K : Nat, ∀ k : Nat, K ≤ k → 3 - (k : Rat) * dz ≤ minz :=
  ⟨reachRound minz dz, exact_thresholds_reach_at minz dz hdz⟩

/-- **C10B (termination, explicit fuel).** With the exact threshold sequence the loop returns for
every fuel `≥ ⌈(3 - minz) / dz⌉ + |pts| + 2`. -/
theorem zLoop_total_exact_fuel {w h : Rat} (hw : 0 < w) (minz dz : Rat) (hdz : 0 < dz)
    (pts : List P3) (fuel : Nat) (hfuel : reachRound minz dz + pts.length + 2 ≤ fuel) :
    ∃ outl, zLoop w h (fun k => 3 - (k : Rat) * dz) minz fuel 0 pts [] = some outl :=
  zLoop_total hw (fun k => 3 - (k : Rat) * dz) minz (reachRound minz dz)
    (exact_thresholds_reach_at minz dz hdz) pts fuel hfuel

/-- **C10B (termination).** With the exact threshold sequence `3 - k * dz`, `0 < dz`, and `0 < w`,
the Z-method loop terminates: some fuel makes it return. -/
theorem zLoop_total_exact {w h : Rat} (hw : 0 < w) (minz dz : Rat) (hdz : 0 < dz) (pts : List P3) :
    ∃ fuel outl, zLoop w h (fun k => 3 - (k : Rat) * dz) minz fuel 0 pts [] = some outl :=
  ⟨reachRound minz dz + pts.length + 2,
    zLoop_total_exact_fuel hw minz dz hdz pts _ (Nat.le_refl _)⟩

/-- **C10B (termination of `knees`).** With the exact threshold sequence `knees` returns a result
for some fuel, whatever the curve. -/
theorem zKnees_total_exact {xs ys zs : List Rat} {w h ymin : Rat} (hw : 0 < w) (dz : Rat)
    (hdz : 0 < dz) :
    ∃ fuel ks, zKnees xs ys zs w h ymin (fun k => 3 - (k : Rat) * dz) fuel = some ks :=
  ⟨reachRound (minZ (xs.zip (ys.zip zs))) dz + xs.length + 2,
    zKnees_total hw (fun k => 3 - (k : Rat) * dz) (reachRound (minZ (xs.zip (ys.zip zs))) dz)
      (exact_thresholds_reach_at _ dz hdz) _ (Nat.le_refl _)⟩

/-! Non-vacuity: for the step `dz = 1/2` and minimal z `-1` (the C10 example curve) the explicit
round is `8`, the threshold of round 8 is exactly `-1` and the one of round 7 is still above. -/
example : reachRound (-1) (1/2) = 8 := by decide +kernel
example : (3 : Rat) - ((8 : Nat) : Rat) * (1/2) ≤ -1 ∧ ¬ (3 : Rat) - ((7 : Nat) : Rat) * (1/2) ≤ -1 := by
  decide +kernel

end Knee

import Knee.Lemmas.Metrics
/-!
# C16 — algebraic sanity of the regression metrics (`metrics.py`, `linear_fit.py`)

Model: `Knee/Model/Metrics.lean` — exact definitions over ℚ.  Rooted metrics are modelled by
their squares (`mseQ` = RMSE², `rmspeSq`, `rmsleSq`); the logarithm of RMSLE is a parameter `lg`;
`epsM` is the code's `eps = 1e-16`, exactly.  Vectors are `List Rat`; `List.zipWith` truncates to
the shorter list, so no statement below needs an equal-length hypothesis.
-/
namespace Knee

/-! ## 1. Symmetry -/

/-- residual sum of squares is symmetric in (truth, prediction) -/
theorem rss_symm (y yh : List Rat) : rssQ y yh = rssQ yh y := by
  unfold rssQ
  rw [zipWith_swap _ (fun a b => by ring) y yh]

/-- RMSE² is symmetric -/
theorem mse_symm (y yh : List Rat) : mseQ y yh = mseQ yh y := by
  unfold mseQ
  rw [zipWith_swap _ (fun a b => by ring) y yh]

/-- SMAPE is symmetric -/
theorem smape_symm (y yh : List Rat) : smapeQ y yh = smapeQ yh y := by
  unfold smapeQ
  rw [zipWith_swap _ (fun a b => by rw [rabs_sub_comm b a, add_comm (rabs a) (rabs b)]) y yh]

/-! ## 2. Non-negativity -/

/-- `0 ≤ rss` -/
theorem rss_nonneg (y yh : List Rat) : 0 ≤ rssQ y yh :=
  zipWith_sum_nonneg _ (fun _ _ => mul_self_nonneg _) y yh

/-- `0 ≤ RMSE²` -/
theorem mse_nonneg (y yh : List Rat) : 0 ≤ mseQ y yh :=
  meanQ_nonneg _ (zipWith_sum_nonneg _ (fun _ _ => mul_self_nonneg _) y yh)

/-- `0 ≤ RMSPE²` -/
theorem rmspeSq_nonneg (y yh : List Rat) : 0 ≤ rmspeSq y yh :=
  meanQ_nonneg _ (zipWith_sum_nonneg _ (fun _ _ => mul_self_nonneg _) y yh)

/-- `0 ≤ RMSLE²`, whatever the logarithm -/
theorem rmsleSq_nonneg (lg : Rat → Rat) (y yh : List Rat) : 0 ≤ rmsleSq lg y yh :=
  meanQ_nonneg _ (zipWith_sum_nonneg _ (fun _ _ => mul_self_nonneg _) y yh)

/-- `0 ≤ RPD` -/
theorem rpd_nonneg (y yh : List Rat) : 0 ≤ rpdQ y yh :=
  meanQ_nonneg _ (zipWith_sum_nonneg _ (fun _ _ => rabs_nonneg _) y yh)

/-- `0 ≤ SMAPE`: every denominator `|y|+|ŷ|+eps` is positive -/
theorem smape_nonneg (y yh : List Rat) : 0 ≤ smapeQ y yh :=
  meanQ_nonneg _ (zipWith_sum_nonneg _ smape_term_nonneg y yh)

/-! ## 3. Vanishing on a perfect prediction -/

/-- `rss y y = 0` -/
theorem rss_self (y : List Rat) : rssQ y y = 0 :=
  zipWith_self_sum_zero _ (fun a => by simp) y

/-- `RMSE² y y = 0` -/
theorem mse_self (y : List Rat) : mseQ y y = 0 :=
  meanQ_eq_zero _ (zipWith_self_sum_zero _ (fun a => by simp) y)

/-- `RMSPE² y y = 0` -/
theorem rmspeSq_self (y : List Rat) : rmspeSq y y = 0 :=
  meanQ_eq_zero _ (zipWith_self_sum_zero _ (fun a => by simp) y)

/-- `RMSLE² y y = 0`, whatever the logarithm -/
theorem rmsleSq_self (lg : Rat → Rat) (y : List Rat) : rmsleSq lg y y = 0 :=
  meanQ_eq_zero _ (zipWith_self_sum_zero _ (fun a => by simp) y)

/-- `RPD y y = 0` -/
theorem rpd_self (y : List Rat) : rpdQ y y = 0 :=
  meanQ_eq_zero _ (zipWith_self_sum_zero _ (fun a => by simp [rabs_zero]) y)

/-- `SMAPE y y = 0` -/
theorem smape_self (y : List Rat) : smapeQ y y = 0 :=
  meanQ_eq_zero _ (zipWith_self_sum_zero _ (fun a => by simp [rabs_zero]) y)

/-! ## 4. SMAPE is bounded by 2 -/

/-- `SMAPE ≤ 2`: each term is `2|ŷ−y| / (|y|+|ŷ|+eps) ≤ 2` by the triangle inequality -/
theorem smape_le_two (y yh : List Rat) : smapeQ y yh ≤ 2 :=
  meanQ_le _ 2 (by norm_num) (zipWith_sum_le _ 2 smape_term_le_two y yh)

/-! ## 5. R² -/

/-- total sum of squares is non-negative -/
theorem tss_nonneg (y : List Rat) : 0 ≤ tssQ y :=
  map_sum_nonneg _ (fun _ => mul_self_nonneg _) y

/-- `R² ≤ 1` in both branches (`tss = 0` and `tss ≠ 0`) -/
theorem r2_le_one (y yh : List Rat) : r2Q y yh ≤ 1 := by
  have hr := rss_nonneg y yh
  have ht := tss_nonneg y
  unfold r2Q
  split
  · linarith
  · have : 0 ≤ rssQ y yh / tssQ y := div_nonneg hr ht
    linarith

/-- a perfect prediction has `R² = 1` -/
theorem r2_self (y : List Rat) : r2Q y y = 1 := by
  unfold r2Q
  rw [rss_self]
  split <;> simp

/-! ## 6. Adjusted R² -/

/-- the adjustment formula, verbatim -/
theorem adjust_def (n : Nat) (r2 : Rat) :
    adjustQ n r2 = 1 - (1 - r2) * (((n : Rat) - 1) / ((n : Rat) - 2)) := rfl

/-- with at least 3 samples the adjustment never increases an `R² ≤ 1`
(the correction factor `(n-1)/(n-2)` is `≥ 1`) -/
theorem adjust_le (n : Nat) (r2 : Rat) (hn : 3 ≤ n) (h : r2 ≤ 1) : adjustQ n r2 ≤ r2 := by
  unfold adjustQ
  have hn' : (3 : Rat) ≤ (n : Rat) := by exact_mod_cast hn
  have hd : (0 : Rat) < (n : Rat) - 2 := by linarith
  have hk : 1 ≤ ((n : Rat) - 1) / ((n : Rat) - 2) := by
    rw [le_div_iff₀ hd]; linarith
  have h1 : 0 ≤ 1 - r2 := by linarith
  nlinarith [mul_nonneg h1 (sub_nonneg.mpr hk)]

/-! ## 7. The end-point fit -/

/-- `linear_fit` returns the line through the first and the last point -/
theorem fit_through_ends (x y : List Rat) (x0 xl y0 yl : Rat)
    (hx0 : x.head? = some x0) (hxl : x.getLast? = some xl)
    (hy0 : y.head? = some y0) (hyl : y.getLast? = some yl) (hne : x0 ≠ xl) :
    let c := fitQ x y
    x0 * c.2 + c.1 = y0 ∧ xl * c.2 + c.1 = yl := by
  have hd : x0 - xl ≠ 0 := sub_ne_zero.mpr hne
  simp only [fitQ, hx0, hxl, hy0, hyl, Option.getD_some, ne_eq, hd, not_false_eq_true, if_true]
  constructor
  · ring
  · field_simp
    ring

/-- a vertical chord (`x0 = xl`) yields the degenerate coefficients `(0, 0)` -/
theorem fit_vertical (x y : List Rat) (x0 xl : Rat)
    (hx0 : x.head? = some x0) (hxl : x.getLast? = some xl) (h : x0 = xl) :
    fitQ x y = (0, 0) := by
  simp [fitQ, hx0, hxl, h]

/-- the fitted line starts at `y0` -/
theorem lineQ_head (x y : List Rat) (x0 xl y0 yl : Rat)
    (hx0 : x.head? = some x0) (hxl : x.getLast? = some xl)
    (hy0 : y.head? = some y0) (hyl : y.getLast? = some yl) (hne : x0 ≠ xl) :
    (lineQ x (fitQ x y)).head? = some y0 := by
  have h := (fit_through_ends x y x0 xl y0 yl hx0 hxl hy0 hyl hne).1
  simp only [lineQ, List.head?_map, hx0, Option.map_some]
  exact congrArg some h

/-- the fitted line ends at `yl` -/
theorem lineQ_getLast (x y : List Rat) (x0 xl y0 yl : Rat)
    (hx0 : x.head? = some x0) (hxl : x.getLast? = some xl)
    (hy0 : y.head? = some y0) (hyl : y.getLast? = some yl) (hne : x0 ≠ xl) :
    (lineQ x (fitQ x y)).getLast? = some yl := by
  have h := (fit_through_ends x y x0 xl y0 yl hx0 hxl hy0 hyl hne).2
  simp only [lineQ, List.getLast?_map, hxl, Option.map_some]
  exact congrArg some h

/-! ## 8. The linear transform is pointwise `m*x + b` -/

/-- `linear_transform` preserves the length -/
theorem lineQ_length (x : List Rat) (c : Rat × Rat) : (lineQ x c).length = x.length := by
  simp [lineQ]

/-- `linear_transform` is pointwise `v ↦ v*m + b`; hence every `*_fit` wrapper metric is the plain
metric applied to `m*x + b` -/
theorem lineQ_getElem (x : List Rat) (c : Rat × Rat) (i : Nat) :
    (lineQ x c)[i]? = x[i]?.map (fun v => v * c.2 + c.1) := by
  simp [lineQ]

/-! ## 9. Squared correlation -/

/-- `0 ≤ r²` -/
theorem corrSq_nonneg (x y : List Rat) : 0 ≤ corrSqQ x y := by
  unfold corrSqQ
  exact div_nonneg (mul_self_nonneg _)
    (mul_nonneg (map_sum_nonneg _ (fun _ => mul_self_nonneg _) x)
      (map_sum_nonneg _ (fun _ => mul_self_nonneg _) y))

/-- `r² ≤ 1` (Cauchy–Schwarz).  No hypothesis is needed: `zipWith` truncation only shrinks the
numerator, and a zero denominator makes the quotient `0` in ℚ. -/
theorem corrSq_le_one (x y : List Rat) : corrSqQ x y ≤ 1 := by
  have hcs := cauchy_schwarz_list (x.map fun a => a - meanQ x) (y.map fun b => b - meanQ y)
  simp only [List.zipWith_map, List.map_map, Function.comp_def] at hcs
  have hA := map_sum_nonneg (fun a => (a - meanQ x) * (a - meanQ x)) (fun _ => mul_self_nonneg _) x
  have hB := map_sum_nonneg (fun b => (b - meanQ y) * (b - meanQ y)) (fun _ => mul_self_nonneg _) y
  unfold corrSqQ
  exact div_le_one_of_le₀ hcs (mul_nonneg hA hB)

/-! ## Non-vacuity: the model computes concrete, non-trivial values -/

example : smapeQ [1, 2, 4] [1, 3, 2]
    = 3200000000000000060000000000000000 / 9000000000000000330000000000000003 := by decide +kernel
example : smapeQ [1, 2, 4] [1, 3, 2] = smapeQ [1, 3, 2] [1, 2, 4] ∧ 0 < smapeQ [1, 2, 4] [1, 3, 2]
    ∧ smapeQ [1, 2, 4] [1, 3, 2] < 2 := by decide +kernel
example : rssQ [1, 2, 4] [1, 3, 2] = 5 ∧ mseQ [1, 2, 4] [1, 3, 2] = 5 / 3 := by decide +kernel
example : r2Q [1, 2, 4] [1, 3, 2] = -1 / 14 ∧ adjustQ 3 (r2Q [1, 2, 4] [1, 3, 2]) = -8 / 7 := by
  decide +kernel
example : r2Q [3, 3, 3] [3, 4, 3] = 0 := by decide +kernel
example : fitQ [0, 1, 3] [1, 5, 7] = (1, 2) := by decide +kernel
example : lineQ [0, 1, 3] (fitQ [0, 1, 3] [1, 5, 7]) = [1, 3, 7] := by decide +kernel
example : fitQ [2, 1, 2] [1, 5, 7] = (0, 0) := by decide +kernel
example : corrSqQ [0, 1, 3] [1, 5, 7] = 169 / 196 := by decide +kernel
example : rpdQ [1, 2, 4] [1, 3, 2]
    = 1000000000000000030000000000000000 / 3600000000000000210000000000000003 := by decide +kernel

end Knee

import Knee.Lemmas.Filters
/-!
# C13 — the worst-knee filter is a running minimum; the corner filters are complementary

Model: `Knee.worstFilter` (postprocessing.filter_worst_knees), `Knee.cornerFilter`
(postprocessing.filter_corner_knees), `Knee.cornerSelect` (postprocessing.select_corner_knees).
`h : Nat → Rat` is the height of the point with a given index, `iou : Nat → Rat` is an oracle
(Layer S) for the corner/neighbour rectangle intersection-over-union, `t` the threshold and
`n` the number of points.  Every theorem holds for all `h`, `iou`, `t`, `n`, `ks`; no
hypothesis on `ks` (duplicates allowed).
-/
namespace Knee

/-! ### worst-knee filter -/

/-- The worst-knee filter only drops knees and never reorders them. -/
theorem worst_sublist (h : Nat → Rat) (ks : List Nat) : (worstFilter h ks).Sublist ks := by
  cases ks with
  | nil => simp [worstFilter]
  | cons k ks => exact (worstGo_sublist h (h k) ks).cons_cons k

/-- The heights of the kept knees are non-increasing. -/
theorem worst_heights_nonincreasing (h : Nat → Rat) (ks : List Nat) :
    (worstFilter h ks).Pairwise (fun a b => h b ≤ h a) := by
  cases ks with
  | nil => simp [worstFilter]
  | cons k ks =>
    exact List.pairwise_cons.2 ⟨worstGo_le h (h k) ks, worstGo_pairwise h (h k) ks⟩

/-- Filtering twice is the same as filtering once. -/
theorem worst_idempotent (h : Nat → Rat) (ks : List Nat) :
    worstFilter h (worstFilter h ks) = worstFilter h ks := by
  cases ks with
  | nil => simp [worstFilter]
  | cons k ks => simp only [worstFilter, worstGo_idem]

/-- The kept knees are exactly the prefix-minimum records: `k` is kept iff some occurrence of
`k` in the input is no higher than every earlier input knee (kept or dropped). -/
theorem worst_is_running_minimum (h : Nat → Rat) (ks : List Nat) (k : Nat) :
    k ∈ worstFilter h ks ↔ ∃ pre post, ks = pre ++ k :: post ∧ ∀ j ∈ pre, h k ≤ h j :=
  mem_worstFilter h ks k

/-- The first knee is always kept, and stays first. -/
theorem worst_keeps_first (h : Nat → Rat) (k : Nat) (ks : List Nat) :
    (worstFilter h (k :: ks)).head? = some k := rfl

/-- A sublist of a list with non-increasing heights has non-increasing heights. -/
theorem worst_of_sublist_heights (h : Nat → Rat) (l ks : List Nat) (hs : l.Sublist ks)
    (hp : ks.Pairwise (fun a b => h b ≤ h a)) : l.Pairwise (fun a b => h b ≤ h a) :=
  hp.sublist hs

/-- A list whose heights are already non-increasing is a fixed point of the filter. -/
theorem worst_fixpoint_of_nonincreasing (h : Nat → Rat) (ks : List Nat)
    (hp : ks.Pairwise (fun a b => h b ≤ h a)) : worstFilter h ks = ks := by
  cases ks with
  | nil => simp [worstFilter]
  | cons k ks =>
    rw [List.pairwise_cons] at hp
    simp only [worstFilter, worstGo_fix h (h k) ks hp.2 hp.1]

/-! ### corner filters -/

/-- `select_corner_knees` filters by exactly the negation of the `filter_corner_knees`
predicate. -/
theorem corner_select_is_complement (n : Nat) (iou : Nat → Rat) (t : Rat) (ks : List Nat) :
    cornerSelect n iou t ks =
      ks.filter (fun k => !(if hasNeighbours n k then decide (iou k < t) else true)) := by
  unfold cornerSelect
  congr 1
  funext k
  exact cornerSelect_pred n iou t k

/-- Filtered and selected knees together are a rearrangement of the input. -/
theorem corner_partition (n : Nat) (iou : Nat → Rat) (t : Rat) (ks : List Nat) :
    (cornerFilter n iou t ks ++ cornerSelect n iou t ks).Perm ks := by
  rw [corner_select_is_complement]
  exact filter_append_filter_not_perm _ ks

/-- No knee is both filtered and selected. -/
theorem corner_disjoint (n : Nat) (iou : Nat → Rat) (t : Rat) (ks : List Nat) :
    ∀ k, k ∈ cornerFilter n iou t ks → k ∉ cornerSelect n iou t ks := by
  intro k hf hs
  rw [corner_select_is_complement] at hs
  simp only [cornerFilter, List.mem_filter] at hf hs
  simp [hf.2] at hs

/-- `filter_corner_knees` keeps a knee iff it lacks a neighbour or its IoU is below `t`. -/
theorem corner_filter_rule (n : Nat) (iou : Nat → Rat) (t : Rat) (ks : List Nat) (k : Nat) :
    k ∈ cornerFilter n iou t ks ↔ k ∈ ks ∧ (hasNeighbours n k = true → iou k < t) := by
  simp only [cornerFilter, List.mem_filter]
  cases hasNeighbours n k <;> simp

/-- `select_corner_knees` keeps a knee iff it has both neighbours and its IoU is at least `t`. -/
theorem corner_select_rule (n : Nat) (iou : Nat → Rat) (t : Rat) (ks : List Nat) (k : Nat) :
    k ∈ cornerSelect n iou t ks ↔ k ∈ ks ∧ hasNeighbours n k = true ∧ t ≤ iou k := by
  simp [cornerSelect, List.mem_filter]

/-- `filter_corner_knees` only drops knees and preserves their order. -/
theorem corner_filter_sublist (n : Nat) (iou : Nat → Rat) (t : Rat) (ks : List Nat) :
    (cornerFilter n iou t ks).Sublist ks := List.filter_sublist

/-- `select_corner_knees` only drops knees and preserves their order. -/
theorem corner_select_sublist (n : Nat) (iou : Nat → Rat) (t : Rat) (ks : List Nat) :
    (cornerSelect n iou t ks).Sublist ks := List.filter_sublist

/-- Filtering corner knees twice is the same as once. -/
theorem corner_filter_idempotent (n : Nat) (iou : Nat → Rat) (t : Rat) (ks : List Nat) :
    cornerFilter n iou t (cornerFilter n iou t ks) = cornerFilter n iou t ks := by
  simp [cornerFilter, List.filter_filter]

/-- Selecting corner knees twice is the same as once. -/
theorem corner_select_idempotent (n : Nat) (iou : Nat → Rat) (t : Rat) (ks : List Nat) :
    cornerSelect n iou t (cornerSelect n iou t ks) = cornerSelect n iou t ks := by
  simp [cornerSelect, List.filter_filter]

/-! Non-vacuity: the functions evaluated on concrete data.  Heights `5,3,4,3,1`: knee 2 (height
4 > 3) is dropped, the tie at knee 3 is kept.  Corner filters on 5 points with IoUs
`0, 1/2, 1/10, 3/4, 0` and threshold `2/5`: end knees 0 and 4 are always filtered-in. -/
example : worstFilter (fun k => ([5, 3, 4, 3, 1] : List Rat)[k]?.getD 0) [0, 1, 2, 3, 4]
    = [0, 1, 3, 4] := by decide +kernel
example : cornerFilter 5 (fun k => ([0, 1/2, 1/10, 3/4, 0] : List Rat)[k]?.getD 0) (2/5)
    [0, 1, 2, 3, 4] = [0, 2, 4] := by decide +kernel
example : cornerSelect 5 (fun k => ([0, 1/2, 1/10, 3/4, 0] : List Rat)[k]?.getD 0) (2/5)
    [0, 1, 2, 3, 4] = [1, 3] := by decide +kernel

end Knee

import Knee.Lemmas.EvalTrace
import Knee.Model.Knees2
import Mathlib.Tactic.IntervalCases
/-!
# X03 — exact-rational (Layer N) models of the remaining evaluation / ranking arithmetic

Models: `Knee/Model/EvalTrace.lean` (+ `dist2sim` of `Model/Ranking.lean`).  Everything is over ℚ and for ALL inputs; the per-gap
`linear_r2` values of `accuracy_trace` are an arbitrary oracle `coef : Nat → Nat → Rat`, `atan` is an arbitrary function.
`ptAt v i` = `v[i]`, `lastKnee knees` = `knees[-1]`, `gapsOf knees` = `(0,k₀), (k₀,k₁), …`.

Sections: 1 `accuracy_trace` · 2 `rank_corners` · 3 `distance_to_similarity` · 4 `linear_hv_residuals` / `linear_fit_transform` ·
5 `compute_cost_coef` · 6 `angle`.
-/
namespace Knee

/-! ## 1. `evaluation.accuracy_trace` -/

/-- The call raises (IndexError) exactly when `kneesOk` fails. -/
theorem accTrace_eq_none_iff (coef : Nat → Nat → Rat) (xs ys : List Rat) (knees : List Nat) :
    accTrace coef xs ys knees = none ↔ kneesOk xs.length knees = false := by
  unfold accTrace; split_ifs with h <;> simp [h]

/-- `kneesOk`, spelled out: a knee exists, every knee is an index, no gap runs backwards. -/
theorem kneesOk_iff (n : Nat) (knees : List Nat) :
    kneesOk n knees = true ↔ knees ≠ [] ∧ (∀ k ∈ knees, k < n) ∧ ∀ g ∈ gapsOf knees, g.1 ≤ g.2 := by
  unfold kneesOk
  simp only [Bool.and_eq_true, Bool.not_eq_true', List.isEmpty_eq_false_iff, List.all_eq_true, decide_eq_true_eq, and_assoc]

/-- Non-decreasing in-range knee lists (repeats allowed, a knee at index 0 or n-1 allowed) are accepted. -/
theorem kneesOk_of_sorted (n : Nat) (knees : List Nat) (hne : knees ≠ []) (hn : ∀ k ∈ knees, k < n)
    (hk : knees.Pairwise (· ≤ ·)) : kneesOk n knees = true :=
  (kneesOk_iff n knees).2 ⟨hne, hn, gapsOf_le knees hk⟩

/-- Which output is undefined (went through a division by zero), exactly. -/
theorem accTrace_undefined_iff (coef : Nat → Nat → Rat) (xs ys : List Rat) (knees : List Nat) (r : AccTrace)
    (h : accTrace coef xs ys knees = some r) :
    (r.avgX = none ↔ extent xs = 0) ∧ (r.avgY = none ↔ extent ys = 0) ∧
    (r.avgSlope = none ↔ listMax (gapSlopes xs ys knees) = 0) ∧
    (r.avgCoef = none ↔ listMax (gapCoefs coef knees) = 0) ∧
    (r.cost = none ↔ extent xs = 0 ∨ extent ys = 0 ∨ listMax (gapSlopes xs ys knees) = 0 ∨
        listMax (gapCoefs coef knees) = 0 ∨ ∃ p, accP coef xs ys knees = some p ∧ meanQ p = 0) := by
  unfold accTrace at h
  split_ifs at h
  cases Option.some.inj h
  simp only [Option.map_eq_none_iff]
  refine ⟨divAll_eq_none, divAll_eq_none, divAll_eq_none, ?_, ?_⟩
  · unfold accNormCoefs; rw [Option.map_eq_none_iff]; exact divAll_eq_none
  · unfold accCost accP accNormX accNormSlopes accNormCoefs
    by_cases h1 : extent xs = 0
    · simp [divAll, h1]
    by_cases h2 : extent ys = 0
    · simp [divAll, h2]
    by_cases h3 : listMax (gapSlopes xs ys knees) = 0
    · simp [divAll, h3]
    by_cases h4 : listMax (gapCoefs coef knees) = 0
    · simp [divAll, h4]
    simp only [divAll, h1, h2, h3, h4, if_false, Option.map_some, false_or]
    split_ifs with h5
    · simpa using h5
    · simpa using h5

/-- **x gaps telescope.**  For non-decreasing `x` and a non-decreasing in-range knee list the gaps `|x[kᵢ₋₁] - x[kᵢ]|`
(first gap from point 0) sum to `x[k_last] - x[0]`. -/
theorem acc_gapX_sum (xs : List Rat) (knees : List Nat)
    (hx : ∀ i j, i ≤ j → j < xs.length → ptAt xs i ≤ ptAt xs j)
    (hk : knees.Pairwise (· ≤ ·)) (hn : ∀ k ∈ knees, k < xs.length) :
    (gapAbs xs knees).sum = ptAt xs (lastKnee knees) - ptAt xs 0 := by
  unfold gapAbs
  rw [sum_map_congr_mem _ (fun g => ptAt xs g.2 - ptAt xs g.1)]
  · rw [gapsOf_eq, chain_sum_sub (ptAt xs), chainLast_zero]
  · intro g hg
    have hle := gapsOf_le knees hk g hg
    have hb := (chain_mem 0 knees g hg).2
    exact rabs_sub_of_le (hx _ _ hle (hn _ hb))

/-- The normalised x gaps: each in `[0, 1]`, summing to `(x[k_last] - x[0]) / |x[n-1] - x[0]|`. -/
theorem acc_normX (xs : List Rat) (knees : List Nat) (l : List Rat)
    (hx : ∀ i j, i ≤ j → j < xs.length → ptAt xs i ≤ ptAt xs j)
    (hk : knees.Pairwise (· ≤ ·)) (hn : ∀ k ∈ knees, k < xs.length)
    (h : accNormX xs knees = some l) :
    l.sum = (ptAt xs (lastKnee knees) - ptAt xs 0) / extent xs ∧ ∀ v ∈ l, 0 ≤ v ∧ v ≤ 1 := by
  obtain ⟨hd, rfl⟩ := divAll_eq_some h
  have he : 0 < extent xs := lt_of_le_of_ne (rabs_nonneg _) (Ne.symm hd)
  refine ⟨by rw [sum_map_div, acc_gapX_sum xs knees hx hk hn], ?_⟩
  intro v hv
  obtain ⟨u, hu, rfl⟩ := List.mem_map.1 hv
  unfold gapAbs at hu
  obtain ⟨g, hg, rfl⟩ := List.mem_map.1 hu
  refine ⟨div_nonneg (rabs_nonneg _) he.le, (div_le_one he).2 ?_⟩
  have hle := gapsOf_le knees hk g hg
  have hb := hn _ (chain_mem 0 knees g hg).2
  rw [rabs_sub_of_le (hx _ _ hle hb)]
  have h0 := hx 0 g.1 (Nat.zero_le _) (by omega)
  have h1 := hx g.2 (xs.length - 1) (by omega) (by omega)
  have h2 := hx 0 (xs.length - 1) (Nat.zero_le _) (by omega)
  unfold extent
  rw [rabs_of_nonneg (by linarith)]
  linarith

/-- `average_x = ((x[k_last] - x[0]) / |x[n-1] - x[0]|) / m`, and it lies in `[0, 1]`. -/
theorem accTrace_avgX (coef : Nat → Nat → Rat) (xs ys : List Rat) (knees : List Nat) (r : AccTrace) (a : Rat)
    (hx : ∀ i j, i ≤ j → j < xs.length → ptAt xs i ≤ ptAt xs j) (hk : knees.Pairwise (· ≤ ·))
    (h : accTrace coef xs ys knees = some r) (ha : r.avgX = some a) :
    a = (ptAt xs (lastKnee knees) - ptAt xs 0) / extent xs / (knees.length : Rat) ∧ 0 ≤ a ∧ a ≤ 1 := by
  have hok : kneesOk xs.length knees = true := by
    by_contra hc
    rw [(accTrace_eq_none_iff coef xs ys knees).2 (by simpa using hc)] at h
    cases h
  obtain ⟨hne, hn, -⟩ := (kneesOk_iff _ _).1 hok
  unfold accTrace at h
  rw [if_pos hok] at h
  cases Option.some.inj h
  simp only [Option.map_eq_some_iff] at ha
  obtain ⟨l, hl, rfl⟩ := ha
  obtain ⟨hs, hr⟩ := acc_normX xs knees l hx hk hn hl
  have hlen : l.length = knees.length := by
    obtain ⟨_, rfl⟩ := divAll_eq_some hl
    simp [gapAbs, gapsOf_length]
  have hm : (0 : Rat) < (knees.length : Rat) := by
    have : 0 < knees.length := List.length_pos_of_ne_nil hne
    exact_mod_cast this
  refine ⟨by unfold meanQ; rw [hs, hlen], ?_, ?_⟩
  · exact meanQ_nonneg l (sum_nonneg_of_mem l fun v hv => (hr v hv).1)
  · apply meanQ_le l 1 (by norm_num)
    have hsum : ∀ l : List Rat, (∀ v ∈ l, v ≤ 1) → l.sum ≤ 1 * (l.length : Rat) := by
      intro l
      induction l with
      | nil => intro _; simp
      | cons b l ih =>
        intro hb
        simp only [List.sum_cons, List.length_cons, Nat.cast_add, Nat.cast_one]
        have := hb b List.mem_cons_self
        have := ih fun v hv => hb v (List.mem_cons_of_mem _ hv)
        linarith
    exact hsum l fun v hv => (hr v hv).2

/-- **y gaps: triangle inequality** (no hypothesis at all): `Σ|Δy| ≥ |y[0] - y[k_last]|`. -/
theorem acc_gapY_sum_ge (ys : List Rat) (knees : List Nat) :
    rabs (ptAt ys 0 - ptAt ys (lastKnee knees)) ≤ (gapAbs ys knees).sum := by
  have := chain_sum_abs_ge (ptAt ys) knees 0
  rwa [chainLast_zero] at this

/-- … with equality for non-decreasing `y` (and sorted in-range knees) -/
theorem acc_gapY_sum_mono (ys : List Rat) (knees : List Nat)
    (hy : ∀ i j, i ≤ j → j < ys.length → ptAt ys i ≤ ptAt ys j)
    (hk : knees.Pairwise (· ≤ ·)) (hn : ∀ k ∈ knees, k < ys.length) :
    (gapAbs ys knees).sum = rabs (ptAt ys 0 - ptAt ys (lastKnee knees)) := by
  rw [acc_gapX_sum ys knees hy hk hn]
  by_cases hne : knees = []
  · subst hne; simp [lastKnee, rabs]
  · have := hy 0 (lastKnee knees) (Nat.zero_le _) (hn _ (lastKnee_mem knees hne))
    rw [rabs_sub_of_le this]

/-- … and for non-increasing `y` -/
theorem acc_gapY_sum_anti (ys : List Rat) (knees : List Nat)
    (hy : ∀ i j, i ≤ j → j < ys.length → ptAt ys j ≤ ptAt ys i)
    (hk : knees.Pairwise (· ≤ ·)) (hn : ∀ k ∈ knees, k < ys.length) :
    (gapAbs ys knees).sum = rabs (ptAt ys 0 - ptAt ys (lastKnee knees)) := by
  unfold gapAbs
  rw [sum_map_congr_mem _ (fun g => (fun i => - ptAt ys i) g.2 - (fun i => - ptAt ys i) g.1)]
  · rw [gapsOf_eq, chain_sum_sub (fun i => - ptAt ys i), chainLast_zero]
    by_cases hne : knees = []
    · subst hne; simp [lastKnee, rabs]
    · have := hy 0 (lastKnee knees) (Nat.zero_le _) (hn _ (lastKnee_mem knees hne))
      rw [rabs_of_nonneg (by linarith)]
      ring
  · intro g hg
    have hle := gapsOf_le knees hk g hg
    have hb := (chain_mem 0 knees g hg).2
    have := hy _ _ hle (hn _ hb)
    rw [rabs_of_nonneg (by linarith)]
    ring

/-- The normalised y gaps are `≥ 0` and sum to at least `|y[0] - y[k_last]| / |y[n-1] - y[0]|` (any curve, any knees). -/
theorem acc_normY (ys : List Rat) (knees : List Nat) (l : List Rat) (h : accNormX ys knees = some l) :
    rabs (ptAt ys 0 - ptAt ys (lastKnee knees)) / extent ys ≤ l.sum ∧ ∀ v ∈ l, 0 ≤ v := by
  obtain ⟨hd, rfl⟩ := divAll_eq_some h
  have he : 0 < extent ys := lt_of_le_of_ne (rabs_nonneg _) (Ne.symm hd)
  refine ⟨by rw [sum_map_div]; exact div_le_div_of_nonneg_right (acc_gapY_sum_ge ys knees) he.le, ?_⟩
  intro v hv
  obtain ⟨u, hu, rfl⟩ := List.mem_map.1 hv
  unfold gapAbs at hu
  obtain ⟨g, _, rfl⟩ := List.mem_map.1 hu
  exact div_nonneg (rabs_nonneg _) he.le

theorem gapSlopes_nonneg (xs ys : List Rat) (knees : List Nat) : ∀ v ∈ gapSlopes xs ys knees, 0 ≤ v := by
  intro v hv
  unfold gapSlopes at hv
  obtain ⟨g, _, rfl⟩ := List.mem_map.1 hv
  exact rabs_nonneg _

/-- **slopes / max** lie in `[0, 1]` and some entry equals `1` (whenever the maximum is not 0). -/
theorem acc_normSlopes (xs ys : List Rat) (knees : List Nat) (l : List Rat) (h : accNormSlopes xs ys knees = some l) :
    (∀ v ∈ l, 0 ≤ v ∧ v ≤ 1) ∧ (1 : Rat) ∈ l :=
  normMax_range _ l (gapSlopes_nonneg xs ys knees) h

/-- the slopes are undefined iff every gap is flat (all end-point slopes are 0; in particular for an empty list) -/
theorem acc_normSlopes_none_iff (xs ys : List Rat) (knees : List Nat) :
    accNormSlopes xs ys knees = none ↔ ∀ v ∈ gapSlopes xs ys knees, v = 0 := by
  unfold accNormSlopes
  rw [divAll_eq_none]
  exact listMax_eq_zero_iff _ (gapSlopes_nonneg xs ys knees)

/-- **coefficients / max, clipped**: always `≥ 0`; in `[0, 1]` with an entry `1` when the maximum is `> 0`;
but ALL `≥ 1` when the maximum is negative (every R² negative: dividing by the negative maximum flips the signs). -/
theorem acc_normCoefs (coef : Nat → Nat → Rat) (knees : List Nat) (l : List Rat) (h : accNormCoefs coef knees = some l) :
    (∀ v ∈ l, 0 ≤ v) ∧
    (0 < listMax (gapCoefs coef knees) → (∀ v ∈ l, v ≤ 1) ∧ (1 : Rat) ∈ l) ∧
    (listMax (gapCoefs coef knees) < 0 → ∀ v ∈ l, 1 ≤ v) := by
  unfold accNormCoefs at h
  rw [Option.map_eq_some_iff] at h
  obtain ⟨r, hr, rfl⟩ := h
  obtain ⟨hd, rfl⟩ := divAll_eq_some hr
  have hl : gapCoefs coef knees ≠ [] := by intro h0; rw [h0] at hd; exact hd rfl
  have hmem := listMax_mem _ hl
  refine ⟨?_, ?_, ?_⟩
  · intro v hv
    obtain ⟨u, _, rfl⟩ := List.mem_map.1 hv
    exact clip0_nonneg u
  · intro hpos
    refine ⟨?_, ?_⟩
    · intro v hv
      obtain ⟨u, hu, rfl⟩ := List.mem_map.1 hv
      obtain ⟨w, hw, rfl⟩ := List.mem_map.1 hu
      have h1 : w / listMax (gapCoefs coef knees) ≤ 1 := (div_le_one hpos).2 (le_listMax _ w hw)
      unfold clip0; split_ifs
      · norm_num
      · exact h1
    · refine List.mem_map.2 ⟨1, List.mem_map.2 ⟨_, hmem, div_self hd⟩, ?_⟩
      exact clip0_of_nonneg (by norm_num)
  · intro hneg v hv
    obtain ⟨u, hu, rfl⟩ := List.mem_map.1 hv
    obtain ⟨w, hw, rfl⟩ := List.mem_map.1 hu
    have hw' := le_listMax _ w hw
    have h1 : 1 ≤ w / listMax (gapCoefs coef knees) := by
      rw [le_div_iff_of_neg hneg]; linarith
    rw [clip0_of_nonneg (by linarith)]
    exact h1

/-- **p ≥ 0** -/
theorem acc_p_nonneg (coef : Nat → Nat → Rat) (xs ys : List Rat) (knees : List Nat) (p : List Rat)
    (h : accP coef xs ys knees = some p) : ∀ v ∈ p, 0 ≤ v := by
  unfold accP at h
  split at h
  · rename_i a b c ha hb hc
    cases Option.some.inj h
    exact mul3_nonneg a b c (fun v hv => ((acc_normSlopes xs ys knees a ha).1 v hv).1)
      (acc_normY ys knees b hb).2 (acc_normCoefs coef knees c hc).1
  · cases h

/-- **cost ≥ 0 when defined, and `> 0` as soon as some x gap is non-zero.** -/
theorem acc_cost_nonneg (coef : Nat → Nat → Rat) (xs ys : List Rat) (knees : List Nat) (c : Rat)
    (h : accCost coef xs ys knees = some c) : 0 ≤ c ∧ (0 < (gapAbs xs knees).sum → 0 < c) := by
  unfold accCost at h
  split at h
  · rename_i dx p hdx hp
    split_ifs at h with h0
    cases Option.some.inj h
    have hp0 : 0 ≤ meanQ p := meanQ_nonneg p (sum_nonneg_of_mem p (acc_p_nonneg coef xs ys knees p hp))
    have hppos : 0 < meanQ p := lt_of_le_of_ne hp0 (Ne.symm h0)
    obtain ⟨hd, rfl⟩ := divAll_eq_some hdx
    have he : 0 < extent xs := lt_of_le_of_ne (rabs_nonneg _) (Ne.symm hd)
    have hlen : 0 < ((List.map (fun a => a / extent xs) (gapAbs xs knees)).length : Rat) := by
      have : p ≠ [] := by rintro rfl; exact h0 meanQ_nil
      have hpl : p.length = knees.length := by
        unfold accP at hp
        split at hp
        · rename_i a b c ha hb hc
          cases Option.some.inj hp
          obtain ⟨_, rfl⟩ := divAll_eq_some ha
          obtain ⟨_, rfl⟩ := divAll_eq_some hb
          unfold accNormCoefs at hc
          rw [Option.map_eq_some_iff] at hc
          obtain ⟨r, hr, rfl⟩ := hc
          obtain ⟨_, rfl⟩ := divAll_eq_some hr
          simp [mul3, gapSlopes, gapAbs, gapCoefs, gapsOf_length]
        · cases hp
      have : 0 < p.length := List.length_pos_of_ne_nil this
      simp only [List.length_map, gapAbs, gapsOf_length]
      rw [hpl] at this
      exact_mod_cast this
    have hsum : 0 ≤ (gapAbs xs knees).sum := sum_nonneg_of_mem _ (by
      intro v hv; unfold gapAbs at hv; obtain ⟨g, _, rfl⟩ := List.mem_map.1 hv; exact rabs_nonneg _)
    constructor
    · apply div_nonneg _ hp0
      unfold meanQ; rw [sum_map_div]
      exact div_nonneg (div_nonneg hsum he.le) hlen.le
    · intro hpos
      apply div_pos _ hppos
      unfold meanQ; rw [sum_map_div]
      exact div_pos (div_pos hpos he) hlen
  · cases h

/-- **cost > 0 when defined**, for strictly increasing `x`, sorted in-range knees and a last knee that is not index 0. -/
theorem acc_cost_pos (coef : Nat → Nat → Rat) (xs ys : List Rat) (knees : List Nat) (c : Rat)
    (hx : ∀ i j, i < j → j < xs.length → ptAt xs i < ptAt xs j)
    (hk : knees.Pairwise (· ≤ ·)) (hn : ∀ k ∈ knees, k < xs.length) (h1 : 1 ≤ lastKnee knees)
    (h : accCost coef xs ys knees = some c) : 0 < c := by
  have hne : knees ≠ [] := by rintro rfl; simp [lastKnee] at h1
  apply (acc_cost_nonneg coef xs ys knees c h).2
  rw [acc_gapX_sum xs knees (fun i j hij hj => by
    rcases Nat.eq_or_lt_of_le hij with rfl | hlt
    · exact le_refl _
    · exact (hx i j hlt hj).le) hk hn]
  have := hx 0 (lastKnee knees) h1 (hn _ (lastKnee_mem knees hne))
  linarith

/-- **Invariance.**  With the R² oracle unchanged, all five outputs (and their definedness) are the same for the curve
`x ↦ a·x + c`, `y ↦ b·y + d` (`a, b > 0`: change of units and of origin on both axes). -/
theorem accTrace_affine (coef : Nat → Nat → Rat) {a b : Rat} (ha : 0 < a) (hb : 0 < b) (c d : Rat)
    (xs ys : List Rat) (knees : List Nat) (hlen : ys.length = xs.length) :
    accTrace coef (xs.map fun u => a * u + c) (ys.map fun u => b * u + d) knees = accTrace coef xs ys knees := by
  unfold accTrace
  rw [List.length_map]
  split_ifs with hok
  · obtain ⟨hne, hg⟩ := kneesOk_gaps hok
    have hxs : xs ≠ [] := by
      rintro rfl
      cases knees with
      | nil => exact hne rfl
      | cons k ks => have := (hg (0, k) (by simp [gapsOf])).2.2; simp at this
    have hys : ys ≠ [] := by intro h0; rw [h0] at hlen; exact hxs (List.eq_nil_of_length_eq_zero hlen.symm)
    have hgx : ∀ g ∈ gapsOf knees, g.1 < xs.length ∧ g.2 < xs.length := fun g h => (hg g h).2
    have hgy : ∀ g ∈ gapsOf knees, g.1 < ys.length ∧ g.2 < ys.length := by rw [hlen]; exact hgx
    have hba : 0 < b / a := div_pos hb ha
    have eX : accNormX (xs.map fun u => a * u + c) knees = accNormX xs knees := by
      unfold accNormX
      rw [gapAbs_affine ha.le c xs knees hgx, extent_affine ha.le c xs hxs, divAll_scale ha.ne']
    have eY : accNormX (ys.map fun u => b * u + d) knees = accNormX ys knees := by
      unfold accNormX
      rw [gapAbs_affine hb.le d ys knees hgy, extent_affine hb.le d ys hys, divAll_scale hb.ne']
    have eS : accNormSlopes (xs.map fun u => a * u + c) (ys.map fun u => b * u + d) knees = accNormSlopes xs ys knees := by
      unfold accNormSlopes
      rw [gapSlopes_affine ha hb c d xs ys knees hlen hg, listMax_map_mul hba, divAll_scale hba.ne']
    have eP : accP coef (xs.map fun u => a * u + c) (ys.map fun u => b * u + d) knees = accP coef xs ys knees := by
      unfold accP; rw [eS, eY]
    have eC : accCost coef (xs.map fun u => a * u + c) (ys.map fun u => b * u + d) knees = accCost coef xs ys knees := by
      unfold accCost; rw [eX, eP]
    rw [eX, eY, eS, eC]
  · rfl

/-- only the oracle values of the gaps actually walked matter -/
theorem accTrace_congr (coef coef' : Nat → Nat → Rat) (xs ys : List Rat) (knees : List Nat)
    (h : ∀ g ∈ gapsOf knees, coef g.1 g.2 = coef' g.1 g.2) :
    accTrace coef xs ys knees = accTrace coef' xs ys knees := by
  have e : gapCoefs coef knees = gapCoefs coef' knees := by
    unfold gapCoefs; exact List.map_congr_left h
  unfold accTrace accCost accP accNormCoefs
  rw [e]

/-- **Invariance of the fully exact model** (R² by its Layer-N definition): for a curve whose gaps all have end points with
different `x` (e.g. strictly increasing `x`, strictly increasing knees, first knee ≥ 1), all five outputs of `accuracy_trace`
are invariant under `x ↦ a·x + c`, `y ↦ b·y + d`, `a, b > 0`.  (A one-point gap — a knee at index 0 or a repeated knee — has
`R² = 1 - y²`, which is NOT invariant: see the example below.) -/
theorem accTraceQ_affine {a b : Rat} (ha : 0 < a) (hb : 0 < b) (c d : Rat)
    (xs ys : List Rat) (knees : List Nat) (hlen : ys.length = xs.length)
    (hgap : ∀ g ∈ gapsOf knees, ptAt xs g.1 ≠ ptAt xs g.2) :
    accTraceQ (xs.map fun u => a * u + c) (ys.map fun u => b * u + d) knees = accTraceQ xs ys knees := by
  unfold accTraceQ
  by_cases hok : kneesOk xs.length knees = true
  · obtain ⟨_, hg⟩ := kneesOk_gaps hok
    rw [accTrace_congr _ (coefQ xs ys) _ _ knees fun g hgm =>
      coefQ_affine ha.ne' hb.ne' c d xs ys (hg g hgm).1 (hg g hgm).2.2 (by rw [hlen]; exact (hg g hgm).2.2) (hgap g hgm)]
    exact accTrace_affine (coefQ xs ys) ha hb c d xs ys knees hlen
  · have h1 : accTrace (coefQ xs ys) xs ys knees = none :=
      (accTrace_eq_none_iff _ _ _ _).2 (by simpa using hok)
    have h2 : accTrace (coefQ (xs.map fun u => a * u + c) (ys.map fun u => b * u + d)) (xs.map fun u => a * u + c)
        (ys.map fun u => b * u + d) knees = none :=
      (accTrace_eq_none_iff _ _ _ _).2 (by simpa using hok)
    rw [h1, h2]

/-- a knee at index 0: the one-point slice has `R² = 1 - y[0]²` (here `3/4`, the other gap `-25/56`); doubling `y` makes it
`0 = max`, and `average_coeffients` turns from `1/2` into a division by zero -/
example : (accTraceQ [0, 1, 2, 3] [1 / 2, 3, 1, 0] [0, 2]).map (·.avgCoef) = some (some (1 / 2)) ∧
    (accTraceQ [0, 1, 2, 3] [1, 6, 2, 0] [0, 2]).map (·.avgCoef) = some none := by decide +kernel

/-- the monotonicity / sortedness hypotheses of `acc_gapX_sum`, `acc_normX`, `accTrace_avgX`, `rankCornersQ_pos` are satisfiable:
`x = 0, 1, 3, 7`, knees `1, 3` -/
theorem x03_mono_witness : (∀ i j, i < j → j < [(0 : Rat), 1, 3, 7].length → ptAt [0, 1, 3, 7] i < ptAt [0, 1, 3, 7] j) ∧
    [1, 3].Pairwise (· < ·) ∧ (∀ k ∈ [1, 3], k < [(0 : Rat), 1, 3, 7].length) := by
  refine ⟨?_, by decide, by decide⟩
  intro i j hij hj
  have hj' : j < 4 := hj
  interval_cases j <;> interval_cases i <;> first | omega | (simp [ptAt] <;> norm_num)

example : (gapAbs [0, 1, 3, 7] [1, 3]).sum = 7 := by
  have h := acc_gapX_sum [0, 1, 3, 7] [1, 3]
    (fun i j hij hj => by
      rcases Nat.eq_or_lt_of_le hij with rfl | hlt
      · exact le_refl _
      · exact (x03_mono_witness.1 i j hlt hj).le)
    (by decide) x03_mono_witness.2.2
  rw [h]; decide +kernel

/-- Non-vacuity / concrete instance (points (0,5),(1,3),(2,2),(3,3/2),(4,6/5),(5,11/10), knees 1 and 3, oracle R² values 1 and 3/4):
every output defined; `average_x = 3/10`. -/
example : (accTrace (fun l _ => if l = 0 then 1 else 3 / 4) [0, 1, 2, 3, 4, 5] [5, 3, 2, 3 / 2, 6 / 5, 11 / 10] [1, 3]).map (·.avgX)
    = some (some (3 / 10)) := by decide +kernel
example : ((accTraceQ [0, 1, 2, 3, 4, 5] [5, 3, 2, 3 / 2, 6 / 5, 11 / 10] [1, 3]).map fun r => r.cost.isSome) = some true := by
  decide +kernel
/-- a knee at index 0: one-point slice, slope 0; flat curve: `average_y`, `average_slope`, `cost` undefined -/
example : accTraceQ [0, 1, 2, 3] [1, 1, 1, 1] [1, 2] = some ⟨some (1 / 3), none, none, some 1, none⟩ := by decide +kernel
/-- IndexError: empty list, backward gap, out-of-range knee -/
example : accTraceQ [0, 1, 2, 3] [1, 1, 1, 1] [] = none ∧ accTraceQ [0, 1, 2, 3] [1, 1, 1, 1] [3, 2] = none
    ∧ accTraceQ [0, 1, 2, 3] [1, 1, 1, 1] [4] = none ∧ (accTraceQ [0, 1, 2, 3] [1, 1, 1, 1] [2, 2]).isSome = true := by decide +kernel
/-- ODDITY: all R² negative (zig-zag curve): the normalised coefficients are `≥ 1`, not clipped (R² = -1/2, -49/153 ↦ 153/98, 1; `average_coeffients = 251/196 > 1`). -/
example : ((accTraceQ [0, 1, 2, 3, 4, 5] [0, 5, 0, 7, 0, 1] [2, 5]).map (·.avgCoef)) = some (some (251 / 196)) := by decide +kernel

/-! ## 2. `postprocessing.rank_corners` -/

/-- The ranks sum to `x[k_last] - x[0]` — for ANY in-range knee list and any `x` (pure telescoping). -/
theorem rankCornersQ_sum (xs : List Rat) (knees : List Nat) (r : List Rat) (h : rankCornersQ xs knees = some r) :
    r.sum = ptAt xs (lastKnee knees) - ptAt xs 0 := by
  unfold rankCornersQ at h
  split_ifs at h
  cases Option.some.inj h
  rw [gapsOf_eq, chain_sum_sub (ptAt xs), chainLast_zero]

theorem rankCornersQ_length (xs : List Rat) (knees : List Nat) (r : List Rat) (h : rankCornersQ xs knees = some r) :
    r.length = knees.length := by
  unfold rankCornersQ at h
  split_ifs at h
  cases Option.some.inj h
  simp [gapsOf_length]

/-- IndexError exactly for an empty list or an out-of-range knee -/
theorem rankCornersQ_eq_none_iff (xs : List Rat) (knees : List Nat) :
    rankCornersQ xs knees = none ↔ knees = [] ∨ ∃ k ∈ knees, xs.length ≤ k := by
  unfold rankCornersQ
  split_ifs with h
  · simp only [Bool.and_eq_true, Bool.not_eq_true', List.isEmpty_eq_false_iff, List.all_eq_true, decide_eq_true_eq] at h
    simp only [false_iff, not_or, not_exists, not_and, not_le]
    exact ⟨h.1, h.2⟩
  · simp only [Bool.and_eq_true, Bool.not_eq_true', List.isEmpty_eq_false_iff, List.all_eq_true, decide_eq_true_eq, not_and,
      not_forall, not_lt] at h
    simp only [true_iff]
    by_cases hne : knees = []
    · exact Or.inl hne
    · obtain ⟨k, hk, hle⟩ := h hne
      exact Or.inr ⟨k, hk, hle⟩

/-- Strictly increasing `x`, strictly increasing knees: every rank after the first is `> 0`, the first is `≥ 0`,
and `> 0` too when the first knee is not index 0. -/
theorem rankCornersQ_pos (xs : List Rat) (knees : List Nat) (r : List Rat)
    (hx : ∀ i j, i < j → j < xs.length → ptAt xs i < ptAt xs j)
    (hk : knees.Pairwise (· < ·)) (h : rankCornersQ xs knees = some r) :
    (∀ v ∈ r, 0 ≤ v) ∧ (∀ v ∈ r.drop 1, 0 < v) ∧ ((∀ k ∈ knees, 1 ≤ k) → ∀ v ∈ r, 0 < v) := by
  unfold rankCornersQ at h
  split_ifs at h with hok
  cases Option.some.inj h
  simp only [Bool.and_eq_true, Bool.not_eq_true', List.isEmpty_eq_false_iff, List.all_eq_true, decide_eq_true_eq] at hok
  obtain ⟨hne, hn⟩ := hok
  cases knees with
  | nil => exact absurd rfl hne
  | cons k ks =>
    have htail : ∀ g ∈ chainFrom k ks, 0 < ptAt xs g.2 - ptAt xs g.1 := by
      intro g hg
      have hlt := chain_lt k ks hk g hg
      have hb := hn _ (List.mem_cons_of_mem _ (chain_mem k ks g hg).2)
      have := hx _ _ hlt hb
      linarith
    have hk0 : k < xs.length := hn k List.mem_cons_self
    have hfirst : 0 ≤ ptAt xs k - ptAt xs 0 := by
      rcases Nat.eq_zero_or_pos k with h0 | h0
      · rw [h0]; linarith
      · have := hx 0 k h0 hk0; linarith
    rw [gapsOf_eq, chainFrom_cons]
    refine ⟨?_, ?_, ?_⟩
    · intro v hv
      simp only [List.map_cons, List.mem_cons, List.mem_map] at hv
      rcases hv with rfl | ⟨g, hg, rfl⟩
      · exact hfirst
      · exact (htail g hg).le
    · intro v hv
      simp only [List.map_cons, List.drop_one, List.tail_cons, List.mem_map] at hv
      obtain ⟨g, hg, rfl⟩ := hv
      exact htail g hg
    · intro h1 v hv
      simp only [List.map_cons, List.mem_cons, List.mem_map] at hv
      rcases hv with rfl | ⟨g, hg, rfl⟩
      · have := hx 0 k (h1 k List.mem_cons_self) hk0
        linarith
      · exact htail g hg

/-- tie to the oracle-fed list builder of X02 (`rankCorners dxf`, `Model/Knees2.lean`): with exact differences it is this model -/
theorem rankCornersQ_eq_rankCorners (xs : List Rat) (knees : List Nat) (r : List Rat) (h : rankCornersQ xs knees = some r) :
    r = rankCorners (fun k p => ptAt xs k - ptAt xs p) knees := by
  unfold rankCornersQ at h
  split_ifs at h
  cases Option.some.inj h
  have : ∀ (ks : List Nat) (a : Nat), (chainFrom a ks).map (fun g => ptAt xs g.2 - ptAt xs g.1)
      = rankCornersGo (fun k p => ptAt xs k - ptAt xs p) a ks := by
    intro ks
    induction ks with
    | nil => intro a; rfl
    | cons k ks ih => intro a; rw [chainFrom_cons, List.map_cons, ih k]; rfl
  exact this knees 0

example : rankCornersQ [0, 1, 2, 4, 8] [1, 3, 4] = some [1, 3, 4] := by decide +kernel
/-- backward gaps are accepted (negative ranks); the sum still telescopes -/
example : rankCornersQ [0, 1, 2, 4, 8] [3, 1] = some [4, -3] := by decide +kernel
example : rankCornersQ [0, 1, 2, 4, 8] [] = none ∧ rankCornersQ [0, 1, 2, 4, 8] [5] = none := by decide +kernel

/-! ## 3. `knee_ranking.distance_to_similarity` -/

theorem dist2sim_length (a : List Rat) : (dist2sim a).length = a.length := by simp [dist2sim]

/-- every similarity is `≥ 0` -/
theorem dist2sim_nonneg (a : List Rat) : ∀ s ∈ dist2sim a, 0 ≤ s := by
  intro s hs
  unfold dist2sim at hs
  obtain ⟨v, hv, rfl⟩ := List.mem_map.1 hs
  have := le_listMax a v hv
  linarith

/-- some similarity is `0` (at a maximum) -/
theorem dist2sim_zero_mem (a : List Rat) (ha : a ≠ []) : (0 : Rat) ∈ dist2sim a := by
  unfold dist2sim
  exact List.mem_map.2 ⟨listMax a, listMax_mem a ha, sub_self _⟩

theorem dist2sim_getElem (a : List Rat) (i : Nat) (hi : i < a.length) :
    (dist2sim a)[i]'(by rw [dist2sim_length]; exact hi) = listMax a - a[i] := by
  simp [dist2sim]

/-- order reversal -/
theorem dist2sim_antitone (a : List Rat) (i j : Nat) (hi : i < a.length) (hj : j < a.length) :
    a[i] ≤ a[j] ↔ (dist2sim a)[j]'(by rw [dist2sim_length]; exact hj) ≤ (dist2sim a)[i]'(by rw [dist2sim_length]; exact hi) := by
  rw [dist2sim_getElem a i hi, dist2sim_getElem a j hj]
  constructor <;> intro h <;> linarith

/-- the maximum of the similarities is `max a - m` for a minimum `m` of `a` -/
theorem dist2sim_twice (a : List Rat) (ha : a ≠ []) :
    ∃ m ∈ a, (∀ v ∈ a, m ≤ v) ∧ listMax (dist2sim a) = listMax a - m ∧ dist2sim (dist2sim a) = a.map fun v => v - m := by
  have hs : dist2sim a ≠ [] := by
    intro h; apply ha; have := congrArg List.length h; rw [dist2sim_length] at this; exact List.eq_nil_of_length_eq_zero this
  obtain ⟨m, hm, hmax⟩ := List.mem_map.1 (show listMax (dist2sim a) ∈ a.map (fun v => listMax a - v) from listMax_mem _ hs)
  have hmin : ∀ v ∈ a, m ≤ v := by
    intro v hv
    have := le_listMax (dist2sim a) (listMax a - v) (List.mem_map.2 ⟨v, hv, rfl⟩)
    rw [← hmax] at this
    linarith
  refine ⟨m, hm, hmin, hmax.symm, ?_⟩
  have e : listMax (List.map (fun v => listMax a - v) a) = listMax a - m := hmax.symm
  unfold dist2sim
  rw [e, List.map_map]
  apply List.map_congr_left
  intro v _
  simp only [Function.comp]
  ring

example : dist2sim [1, 3, 2] = [2, 0, 1] ∧ dist2sim (dist2sim [1, 3, 2]) = [0, 2, 1] := by decide +kernel

/-! ## 4. `linear_fit.linear_hv_residuals`, `linear_fit.linear_fit_transform` -/

theorem resFit_nonneg (xs ys : List Rat) : 0 ≤ resFit xs ys := rss_nonneg _ _

/-- the value is the smaller of the two one-sided residual sums (`y` on `x`, `x` on `y`) -/
theorem hvRes_eq_min (xs ys : List Rat) : hvResQ xs ys = min (resFit xs ys) (resFit ys xs) := by
  unfold hvResQ; split_ifs with h
  · exact (min_eq_left h).symm
  · exact (min_eq_right (not_le.1 h).le).symm

theorem hvRes_nonneg (xs ys : List Rat) : 0 ≤ hvResQ xs ys := by
  rw [hvRes_eq_min]; exact le_min (resFit_nonneg xs ys) (resFit_nonneg ys xs)

/-- symmetric under swapping the roles of `x` and `y` -/
theorem hvRes_symm (xs ys : List Rat) : hvResQ xs ys = hvResQ ys xs := by
  rw [hvRes_eq_min, hvRes_eq_min, min_comm]

theorem hvRes_le (xs ys : List Rat) : hvResQ xs ys ≤ resFit xs ys ∧ hvResQ xs ys ≤ resFit ys xs := by
  rw [hvRes_eq_min]; exact ⟨min_le_left _ _, min_le_right _ _⟩

/-- the end-point fit recovers a line from its own samples (first and last abscissa different) -/
theorem fitQ_of_line (xs : List Rat) (b m : Rat) (h : xs.head?.getD 0 ≠ xs.getLast?.getD 0) :
    fitQ xs (lineQ xs (b, m)) = (b, m) := by
  have hxs : xs ≠ [] := by rintro rfl; exact h rfl
  have hd : xs.head?.getD 0 - xs.getLast?.getD 0 ≠ 0 := sub_ne_zero.2 h
  unfold fitQ lineQ
  simp only [head?_getD_map _ xs hxs, getLast?_getD_map _ xs hxs]
  rw [if_pos hd]
  generalize xs.head?.getD 0 = x0 at *
  generalize xs.getLast?.getD 0 = xl at *
  refine Prod.ext ?_ ?_ <;> simp only <;> field_simp <;> ring

/-- samples of a non-vertical line (`y = m·x + b`, first and last `x` different): the y-on-x residual is 0 -/
theorem resFit_collinear (xs : List Rat) (b m : Rat) (h : xs.head?.getD 0 ≠ xs.getLast?.getD 0) :
    resFit xs (lineQ xs (b, m)) = 0 := by
  unfold resFit
  rw [fitQ_of_line xs b m h]
  exact rss_self _

/-- **collinear ⇒ 0**, stated exactly: the points lie on `y = m·x + b` and the first and last `x` differ, or they lie on
`x = m·y + b` and the first and last `y` differ.  (Points on a line whose first and last point COINCIDE are not covered:
see the closed-path example below.) -/
theorem hvRes_collinear (xs ys : List Rat) (b m : Rat)
    (h : (ys = lineQ xs (b, m) ∧ xs.head?.getD 0 ≠ xs.getLast?.getD 0) ∨
         (xs = lineQ ys (b, m) ∧ ys.head?.getD 0 ≠ ys.getLast?.getD 0)) : hvResQ xs ys = 0 := by
  apply le_antisymm _ (hvRes_nonneg xs ys)
  rcases h with ⟨rfl, h⟩ | ⟨rfl, h⟩
  · exact (hvRes_le _ _).1.trans_eq (resFit_collinear xs b m h)
  · exact (hvRes_le _ _).2.trans_eq (resFit_collinear ys b m h)

example : hvResQ [0, 1, 2, 4] [1, 3, 5, 9] = 0 := by decide +kernel
/-- a vertical line (all `x` equal, `y` ends different) is fitted exactly by the x-on-y line -/
example : hvResQ [2, 2, 2] [0, 5, 1] = 0 ∧ resFit [2, 2, 2] [0, 5, 1] = 26 := by decide +kernel
/-- ODDITIES of the degenerate `(0, 0)` fit: a single point `(3, 4)` has "residual" `min(4², 3²) = 9`; a closed path on the
line `y = x` (first = last point) has residual 1 although the points are collinear -/
example : hvResQ [3] [4] = 9 ∧ hvResQ [0, 1, 0] [0, 1, 0] = 1 := by decide +kernel
example : hvResQ [0, 1, 2, 3] [0, 2, 1, 3] = 2 ∧ resFit [0, 1, 2, 3] [0, 2, 1, 3] = 2 := by decide +kernel

theorem fitTransform_length (xs ys : List Rat) : (fitTransformQ xs ys).length = xs.length := lineQ_length _ _

/-- `vertical=False`: the returned line passes through the first and the last point (when their `x` differ) -/
theorem fitTransform_ends (xs ys : List Rat) (x0 xl y0 yl : Rat)
    (hx0 : xs.head? = some x0) (hxl : xs.getLast? = some xl)
    (hy0 : ys.head? = some y0) (hyl : ys.getLast? = some yl) (hne : x0 ≠ xl) :
    (fitTransformQ xs ys).head? = some y0 ∧ (fitTransformQ xs ys).getLast? = some yl :=
  ⟨lineQ_head xs ys x0 xl y0 yl hx0 hxl hy0 hyl hne, lineQ_getLast xs ys x0 xl y0 yl hx0 hxl hy0 hyl hne⟩

/-- `vertical=True`: the returned pair is `(y, ŷ)` or `(x, x̂)` — the fitted coordinate itself with its line (NOT "the x points
and the y_hat values" of the docstring) — and its residual sum is `linear_hv_residuals`. -/
theorem fitTransformV_spec (xs ys : List Rat) :
    ((fitTransformVQ xs ys = (ys, lineQ xs (fitQ xs ys)) ∧ resFit xs ys ≤ resFit ys xs) ∨
     (fitTransformVQ xs ys = (xs, lineQ ys (fitQ ys xs)) ∧ resFit ys xs < resFit xs ys)) ∧
    rssQ (fitTransformVQ xs ys).1 (fitTransformVQ xs ys).2 = hvResQ xs ys := by
  unfold fitTransformVQ hvResQ
  split_ifs with h
  · exact ⟨Or.inl ⟨rfl, h⟩, rfl⟩
  · exact ⟨Or.inr ⟨rfl, not_le.1 h⟩, rfl⟩

example : fitTransformVQ [0, 1, 2, 3] [0, 2, 1, 3] = ([0, 2, 1, 3], [0, 1, 2, 3]) := by decide +kernel
example : fitTransformVQ [2, 2, 2] [0, 5, 1] = ([2, 2, 2], [2, 2, 2]) := by decide +kernel

/-! ## 5. `rdp.compute_cost_coef` -/

/-- **dispatch**: each `Metrics` member yields the corresponding Layer-N metric of `(y, m·x + b)`
(`rmspe`, `rmsle` as squares; `lg` = the logarithm). -/
theorem costCoef_dispatch (lg : Rat → Rat) (xs ys : List Rat) (c : Rat × Rat) :
    costCoefQ lg .r2 xs ys c = r2Q ys (lineQ xs c) ∧
    costCoefQ lg .rmspe xs ys c = rmspeSq ys (lineQ xs c) ∧
    costCoefQ lg .rmsle xs ys c = rmsleSq lg ys (lineQ xs c) ∧
    costCoefQ lg .smape xs ys c = smapeQ ys (lineQ xs c) ∧
    costCoefQ lg .rpd xs ys c = rpdQ ys (lineQ xs c) := ⟨rfl, rfl, rfl, rfl, rfl⟩

/-- ranges: `r2 ≤ 1`, the four error metrics are `≥ 0`, `smape ≤ 2` -/
theorem costCoef_range (lg : Rat → Rat) (kind : MKind) (xs ys : List Rat) (c : Rat × Rat) :
    (kind = .r2 → costCoefQ lg kind xs ys c ≤ 1) ∧ (kind ≠ .r2 → 0 ≤ costCoefQ lg kind xs ys c) ∧
    (kind = .smape → costCoefQ lg kind xs ys c ≤ 2) := by
  refine ⟨?_, ?_, ?_⟩
  · rintro rfl; exact r2_le_one _ _
  · intro h
    cases kind with
    | r2 => exact absurd rfl h
    | rmspe => exact rmspeSq_nonneg _ _
    | rmsle => exact rmsleSq_nonneg lg _ _
    | smape => exact smape_nonneg _ _
    | rpd => exact rpd_nonneg _ _
  · rintro rfl; exact smape_le_two _ _

/-- a curve that IS the line scores perfectly under every member: `r2 = 1`, every error `0` -/
theorem costCoef_perfect (lg : Rat → Rat) (kind : MKind) (xs : List Rat) (c : Rat × Rat) :
    costCoefQ lg kind xs (lineQ xs c) c = if kind = .r2 then 1 else 0 := by
  cases kind with
  | r2 => exact r2_self _
  | rmspe => exact rmspeSq_self _
  | rmsle => exact rmsleSq_self lg _
  | smape => exact smape_self _
  | rpd => exact rpd_self _

/-- with the curve's own end-point line the R² cost is the oracle of `accuracy_trace` on the whole curve -/
theorem costCoef_r2_eq_coefQ (lg : Rat → Rat) (xs ys : List Rat) (hlen : ys.length = xs.length) :
    costCoefQ lg .r2 xs ys (fitQ xs ys) = coefQ xs ys 0 (xs.length - 1) := by
  have e : ∀ v : List Rat, v.length = xs.length → sliceQ v 0 (xs.length - 1) = v := by
    intro v hv
    unfold sliceQ
    rw [List.drop_zero, List.take_of_length_le (by omega)]
  unfold coefQ
  rw [e xs rfl, e ys hlen]
  rfl

example : costCoefQ id .smape [0, 1, 2] [1, 2, 5] (1, 2) = 1 / 3 * (2 * 1 / (2 + 3 + epsM)) := by decide +kernel
example : costCoefQ id .r2 [0, 1, 2] [1, 2, 5] (fitQ [0, 1, 2] [1, 2, 5]) = 23 / 26 := by decide +kernel

/-! ## 6. `linear_fit.angle` -/

/-- the division by zero happens exactly for perpendicular lines (`m1·m2 = -1`) -/
theorem angleArg_eq_none_iff (m1 m2 : Rat) : angleArg m1 m2 = none ↔ m1 * m2 = -1 := by
  unfold angleArg
  split_ifs with h
  · simp only [true_iff]; linarith
  · simp only [false_iff]; intro h'; apply h; linarith

/-- antisymmetric in the two lines -/
theorem angleArg_antisymm (m1 m2 : Rat) : angleArg m2 m1 = (angleArg m1 m2).map fun a => -a := by
  unfold angleArg
  rw [mul_comm m2 m1]
  split_ifs with h
  · rfl
  · simp only [Option.map_some, Option.some.injEq]
    rw [← neg_div]; congr 1; ring

/-- zero iff the slopes are equal (equal slopes are never perpendicular: `1 + m² > 0`) -/
theorem angleArg_eq_zero_iff (m1 m2 : Rat) : angleArg m1 m2 = some 0 ↔ m1 = m2 := by
  unfold angleArg
  constructor
  · intro h
    split_ifs at h with h0
    have := Option.some.inj h
    rcases div_eq_zero_iff.1 this with h1 | h1
    · linarith
    · exact absurd h1 h0
  · rintro rfl
    have : 1 + m1 * m1 ≠ 0 := by nlinarith [mul_self_nonneg m1]
    rw [if_neg this, sub_self, zero_div]

/-- the argument is negative exactly when `m1 - m2` and `1 + m1·m2` have opposite signs -/
theorem angleArg_neg_iff (m1 m2 a : Rat) (h : angleArg m1 m2 = some a) :
    a < 0 ↔ (m1 < m2 ∧ 0 < 1 + m1 * m2) ∨ (m2 < m1 ∧ 1 + m1 * m2 < 0) := by
  unfold angleArg at h
  split_ifs at h with h0
  cases Option.some.inj h
  rw [div_neg_iff]
  constructor
  · rintro (⟨h1, h2⟩ | ⟨h1, h2⟩)
    · exact Or.inr ⟨by linarith, h2⟩
    · exact Or.inl ⟨by linarith, h2⟩
  · rintro (⟨h1, h2⟩ | ⟨h1, h2⟩)
    · exact Or.inr ⟨by linarith, h2⟩
    · exact Or.inl ⟨by linarith, h2⟩

/-- for an ODD arc tangent the angle is antisymmetric: `angle(l2, l1) = -angle(l1, l2)` -/
theorem angle_antisymm (atn : Rat → Rat) (hodd : ∀ a, atn (-a) = -atn a) (m1 m2 : Rat) :
    angleQ atn m2 m1 = (angleQ atn m1 m2).map fun a => -a := by
  unfold angleQ
  rw [angleArg_antisymm m1 m2]
  cases angleArg m1 m2 with
  | none => rfl
  | some a => simp [hodd]

/-- for an odd, strictly increasing arc tangent the angle has the sign of the argument: it is NEGATIVE whenever
`m1 < m2` and `1 + m1·m2 > 0` (e.g. `m1 = 0`, `m2 = 1`: `atan(-1) = -π/4`).  The docstring's range `[0, π/2]` is false. -/
theorem angle_sign (atn : Rat → Rat) (hodd : ∀ a, atn (-a) = -atn a) (hmono : ∀ a b, a < b → atn a < atn b)
    (m1 m2 t : Rat) (h : angleQ atn m1 m2 = some t) :
    (t < 0 ↔ (m1 < m2 ∧ 0 < 1 + m1 * m2) ∨ (m2 < m1 ∧ 1 + m1 * m2 < 0)) ∧ (t = 0 ↔ m1 = m2) := by
  have h0 : atn 0 = 0 := by have := hodd 0; rw [neg_zero] at this; linarith
  unfold angleQ at h
  rw [Option.map_eq_some_iff] at h
  obtain ⟨a, ha, rfl⟩ := h
  have hinj : ∀ u, atn u = 0 ↔ u = 0 := by
    intro u
    constructor
    · intro hu
      rcases lt_trichotomy u 0 with h1 | h1 | h1
      · have := hmono _ _ h1; rw [h0] at this; linarith
      · exact h1
      · have := hmono _ _ h1; rw [h0] at this; linarith
    · rintro rfl; exact h0
  constructor
  · rw [← angleArg_neg_iff m1 m2 a ha]
    constructor
    · intro ht
      by_contra hc
      rcases (not_lt.1 hc).eq_or_lt with h1 | h1
      · rw [← h1, h0] at ht; exact lt_irrefl _ ht
      · have := hmono _ _ h1; rw [h0] at this; linarith
    · intro hlt; have := hmono _ _ hlt; rwa [h0] at this
  · rw [hinj, ← angleArg_eq_zero_iff m1 m2, ha]
    constructor
    · rintro rfl; rfl
    · intro h; exact Option.some.inj h

/-- concrete: lines of slope 0 and 1 → argument `-1` (angle `-π/4`); swapped → `+1`; perpendicular `2`, `-1/2` → undefined -/
example : angleArg 0 1 = some (-1) ∧ angleArg 1 0 = some 1 ∧ angleArg 2 (-1 / 2) = none ∧ angleArg 3 3 = some 0 := by decide +kernel
/-- the hypotheses of `angle_sign` are satisfiable (`atn = id` is odd and strictly increasing); the value is negative -/
example : angleQ id 0 1 = some (-1) ∧ (∀ a : Rat, id (-a) = -id a) ∧ (∀ a b : Rat, a < b → id a < id b) :=
  ⟨by decide +kernel, fun _ => rfl, fun _ _ h => h⟩

end Knee

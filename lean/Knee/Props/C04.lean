import Knee.Lemmas.IsRdp
/-!
# C04 — threshold RDP keeps a segment only if it fits and splits only where it must

`IsRDP isR2 t cst dst l r segs` (Knee/Lemmas/IsRdp.lean) is the nondeterministic specification of a
recursive Ramer-Douglas-Peucker partition of `[l, r)`: a *leaf* is a range whose end-point-line cost
is on the accepting side of `t`; a *node* is a range whose cost is on the rejecting side, split at an
index strictly inside at which no interior point is farther from the chord, followed by partitions
of the two halves.  Oracle-parametric: "under the library's own cost and distance primitives", for
all 5 × 2 configurations at once.
-/
namespace Knee

/-- **C04.** The output of `rdp.rdp` is a recursive RDP partition of the whole curve. -/
theorem rdp_is_recursive_partition (isR2 : Bool) (t : Rat) (cst : Nat → Nat → Rat) (dst : Nat → Nat → List Rat)
    (n : Nat) (hn : 2 ≤ n) (ht : if isR2 then t ≤ 1 else 0 < t) (hd : ∀ l r, (dst l r).length = r - l) :
    ∃ segs, IsRDP isR2 t cst dst 0 n segs ∧ rdp isR2 t cst dst n = some (segsToResult n segs) :=
  rdp_isRDP isR2 t cst dst n hn ht hd

/-- **C04 (a).** Every retained segment has a cost on the accepting side of `t`
(`cost < t`, or `R² ≥ t`); segments of ≤ 2 points count as accepted by the code's constant. -/
theorem retained_segment_accepts {isR2 : Bool} {t : Rat} {cst : Nat → Nat → Rat} {dst : Nat → Nat → List Rat}
    {l r : Nat} {segs : List (Nat × Nat)} (h : IsRDP isR2 t cst dst l r segs) :
    ∀ p ∈ segs, curved isR2 t (segCost isR2 cst p.1 p.2) = false :=
  IsRDP_leaf_accepting h

/-- **C04 (b).** Every retained interior index is explained by a recursive split: it lies strictly
inside a visited range `[l', r')` whose cost was on the rejecting side and no interior point of
that range is farther from its chord. -/
theorem retained_interior_explained {isR2 : Bool} {t : Rat} {cst : Nat → Nat → Rat} {dst : Nat → Nat → List Rat}
    {l r : Nat} {segs : List (Nat × Nat)} (h : IsRDP isR2 t cst dst l r segs) :
    ∀ p ∈ segs, p.1 ≠ l → ∃ l' r' s, curved isR2 t (segCost isR2 cst l' r') = true ∧ 1 ≤ s ∧ s + 2 ≤ r' - l' ∧
      l ≤ l' ∧ r' ≤ r ∧ p.1 = l' + s ∧
      ∀ j, 1 ≤ j → j + 1 < r' - l' → (dst l' r')[j]?.getD 0 ≤ (dst l' r')[s]?.getD 0 :=
  IsRDP_interior_explained h

/-- the partition tiles the curve: consecutive retained segments share an end point, from 0 to n-1 -/
theorem partition_tiles {isR2 : Bool} {t : Rat} {cst : Nat → Nat → Rat} {dst : Nat → Nat → List Rat}
    {l r : Nat} {segs : List (Nat × Nat)} (h : IsRDP isR2 t cst dst l r segs) (hlr : l + 2 ≤ r) : IsChain r l segs :=
  IsRDP_tiles h hlr

/-! Non-vacuity: a derivation with a real split exists. -/
example : IsRDP false (1/2) (fun l r => if l = 0 ∧ r = 3 then 1 else 0) (fun _ _ => [0, 1, 0]) 0 3 ([(0, 2)] ++ [(1, 3)]) := by
  refine IsRDP.node 0 3 1 _ _ (by decide +kernel) (by decide) (by decide) ?_ (IsRDP.leaf _ _ (by decide +kernel)) (IsRDP.leaf _ _ (by decide +kernel))
  intro j h1 h2
  have : j = 1 := by omega
  subst this
  decide +kernel

end Knee

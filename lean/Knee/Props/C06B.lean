import Knee.Model.RdpM
import Knee.Props.C06
/-!
# C06B — multi-threshold RDP picks the LARGEST listed threshold that yields enough points

`min_point_rdp` sorts the caller's thresholds in descending order (`t.sort(reverse=True)`, modelled
by `sortDesc`, `Knee/Model/RdpM.lean`) and returns the global-RDP result of the first threshold
whose result has at least `m` points (`minPointRdp`, `Knee/Model/Rdp.lean`; C06 `minpoint_eq`).
Because the sort is a descending permutation of the input, "first in order" is "largest listed".
Oracles: `acceptAt`, `dst`, `key` (any functions).  Exact rationals; no tolerance.
-/
namespace Knee

theorem insertDesc_perm (x : Rat) (l : List Rat) : (insertDesc x l).Perm (x :: l) := by
  induction l with
  | nil => exact List.Perm.refl _
  | cons y ys ih =>
    simp only [insertDesc]
    split
    · exact List.Perm.refl _
    · exact (List.Perm.cons y ih).trans (List.Perm.swap x y ys)

theorem insertDesc_sorted (x : Rat) (l : List Rat) (h : l.Pairwise (fun a b => b ≤ a)) :
    (insertDesc x l).Pairwise (fun a b => b ≤ a) := by
  induction l with
  | nil => simp [insertDesc]
  | cons y ys ih =>
    rw [List.pairwise_cons] at h
    simp only [insertDesc]
    split
    · rename_i hyx
      refine List.pairwise_cons.mpr ⟨?_, List.pairwise_cons.mpr h⟩
      intro b hb
      rcases List.mem_cons.mp hb with rfl | hb
      · exact Rat.le_of_lt hyx
      · have := h.1 b hb
        grind
    · rename_i hyx
      refine List.pairwise_cons.mpr ⟨?_, ih h.2⟩
      intro b hb
      rcases List.mem_cons.mp ((insertDesc_perm x ys).mem_iff.mp hb) with rfl | hb
      · grind
      · exact h.1 b hb

/-- **C06B (sort, order).** The sorted threshold list is non-increasing. -/
theorem sortDesc_sorted (l : List Rat) : (sortDesc l).Pairwise (fun a b => b ≤ a) := by
  induction l with
  | nil => simp [sortDesc]
  | cons x xs ih => exact insertDesc_sorted x _ ih

/-- **C06B (sort, content).** The sorted threshold list is a permutation of the caller's list. -/
theorem sortDesc_perm (l : List Rat) : (sortDesc l).Perm l := by
  induction l with
  | nil => exact List.Perm.refl _
  | cons x xs ih => exact (insertDesc_perm x _).trans (List.Perm.cons x ih)

/-- **C06B (largest threshold).** With the caller's thresholds `ts` sorted in descending order as
the code does, `min_point_rdp` returns the global-RDP result of a listed threshold `t` that yields
at least `m` points and that is the LARGEST such listed threshold; if no listed threshold yields
`m` points the result is the fixed-size simplification `rdpFixed … m`. -/
theorem minpoint_largest_threshold (acceptAt : Rat → List Nat → Bool) (dst : Nat → Nat → List Rat)
    (key : Nat → Nat → Nat → Rat × Rat) (n m : Nat) (ts : List Rat) :
    (∃ t ∈ ts, m ≤ (grdp (acceptAt t) dst key n).length ∧
        minPointRdp acceptAt dst key n m (sortDesc ts) = grdp (acceptAt t) dst key n ∧
        ∀ t' ∈ ts, m ≤ (grdp (acceptAt t') dst key n).length → t' ≤ t) ∨
    ((∀ t' ∈ ts, (grdp (acceptAt t') dst key n).length < m) ∧
        minPointRdp acceptAt dst key n m (sortDesc ts) = rdpFixed dst key n m) := by
  have hperm := sortDesc_perm ts
  have hsorted := sortDesc_sorted ts
  rcases minpoint_eq acceptAt dst key n m (sortDesc ts) with
    ⟨pre, t, post, he, hpre, hm, hres⟩ | ⟨hall, hres⟩
  · left
    refine ⟨t, hperm.mem_iff.mp (by rw [he]; simp), hm, hres, ?_⟩
    intro t' ht' hm'
    have hmem : t' ∈ sortDesc ts := hperm.mem_iff.mpr ht'
    rw [he] at hmem hsorted
    rw [List.pairwise_append, List.pairwise_cons] at hsorted
    rcases List.mem_append.mp hmem with h | h
    · have := hpre t' h; omega
    · rcases List.mem_cons.mp h with rfl | h
      · exact Rat.le_refl
      · exact hsorted.2.1.1 t' h
  · right
    exact ⟨fun t' ht' => hall t' (hperm.mem_iff.mpr ht'), hres⟩

/-! Non-vacuity: the sort on a concrete unsorted list with a duplicate, and the selection on a toy
instance (4 points, `acceptAt t red := red.length ≥ ⌈t⌉`-style test) where the first branch holds
with a threshold that is neither the largest nor the first listed. -/
example : sortDesc [1/2, 3, 1/4, 3, 2] = [3, 3, 2, 1/2, 1/4] := by decide +kernel

/-- toy acceptance test: the "global cost" of `red` is `1 / red.length`, accepted when `< t` -/
private def toyAccept (t : Rat) (red : List Nat) : Bool :=
  acceptOf false t (fun r => 1 / ((r.length : Int) : Rat)) red

example :
    let dst : Nat → Nat → List Rat := fun l r => List.replicate (r - l) 0
    let key : Nat → Nat → Nat → Rat × Rat := fun _ _ _ => (0, 0)
    (grdp (toyAccept 1) dst key 5).length = 2 ∧ (grdp (toyAccept (1/3)) dst key 5).length = 4 ∧
    (grdp (toyAccept (1/4)) dst key 5).length = 5 ∧
    minPointRdp toyAccept dst key 5 3 (sortDesc [1/4, 1, 1/3]) = grdp (toyAccept (1/3)) dst key 5 ∧
    minPointRdp toyAccept dst key 5 6 (sortDesc [1/4, 1, 1/3]) = rdpFixed dst key 5 6 := by
  decide +kernel

end Knee

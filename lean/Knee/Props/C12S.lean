import Knee.Props.C12
import Knee.Model.Ranking
/-!
# C12S — hull mode excludes hull-free clusters from the *output list*; Layer-N score instances

C12 proves `clusterFilterHull_needs_hull` for the per-cluster picker (`hullPick … c = none`).  Here
the statement is lifted to the list returned by `postprocessing.filter_clusters(…, hull)`
(`Knee.clusterFilterHull`): **no member of a cluster whose index span `[first, last]` contains no
hull index occurs in the output.**  The lift needs that the knees are strictly increasing (so that
a knee belongs to exactly one cluster) and at least two knees (with `len(knees) <= 1` the Python
returns `knees` unfiltered; `clusterFilterHull_excludes_needs_two` shows the statement is false
there).  Of `groupByLabels`' assumptions only `labels.length = knees.length` is used (labels need
not be non-decreasing: the groups are the maximal runs of equal labels in any case).

The second part instantiates the Layer-S parameters of C12 (`score`, `area`) with the Layer-N
score models of `Model/Ranking.lean`:
* `smoothScoreOf fit ys c = smoothScores (fit c) (ys at the members of c)` — `kr.smooth_ranking`;
  `fit c` (the R² values of the documented spans, one per member) stays an oracle;
* `cornerAreaOf pts c = [cornerTriQ pts[k-1] pts[k] pts[k+1] | k ∈ c]` — `rank_corners_triangle`.
-/
namespace Knee

/-! ## 1. a knee belongs to exactly one cluster -/

/-- for strictly increasing knees, two clusters that share a member are the same cluster -/
theorem groups_eq_of_common (labels knees : List Nat) (h : labels.length = knees.length)
    (hk : knees.Pairwise (· < ·)) {c c' : List Nat}
    (hc : c ∈ groupByLabels labels knees) (hc' : c' ∈ groupByLabels labels knees)
    {k : Nat} (h1 : k ∈ c) (h2 : k ∈ c') : c = c' := by
  obtain ⟨i, hi, rfl⟩ := List.getElem_of_mem hc
  obtain ⟨j, hj, rfl⟩ := List.getElem_of_mem hc'
  have hord := groups_ordered labels knees h hk
  rw [List.pairwise_iff_getElem] at hord
  rcases Nat.lt_trichotomy i j with hij | hij | hij
  · exact absurd (hord i j hi hj hij k h1 k h2) (Nat.lt_irrefl k)
  · subst hij; rfl
  · exact absurd (hord j i hj hi hij k h2 k h1) (Nat.lt_irrefl k)

/-! ## 2. hull mode: the output list -/

/-- **C12S (every output knee comes from a cluster with a hull point).** With at least two knees,
every knee returned by the hull-mode filter is a member of some cluster whose index span
`[first, last]` contains a hull index.  (No order hypothesis on the knees.) -/
theorem clusterFilterHull_mem_has_hull (hull : List Nat) (herr : List Nat → Nat → Rat)
    (labels knees : List Nat) (h2 : 2 ≤ knees.length) :
    ∀ k ∈ clusterFilterHull hull herr labels knees,
      ∃ c ∈ groupByLabels labels knees, k ∈ c ∧
        ∃ x ∈ hull, c.head?.getD 0 ≤ x ∧ x ≤ c.getLast?.getD 0 := by
  intro k hk
  rw [clusterFilterHull_eq hull herr labels knees h2, List.mem_filterMap] at hk
  obtain ⟨c, hc, hpick⟩ := hk
  refine ⟨c, hc, hullPick_mem hull herr c k hpick, ?_⟩
  by_contra hno
  have hnone := clusterFilterHull_needs_hull hull herr c (by
    intro x hx hspan
    exact hno ⟨x, hx, hspan⟩)
  rw [hnone] at hpick
  cases hpick

/-- **C12S (hull-free clusters are excluded from the output).** For strictly increasing knees
(at least two), if the index span `[first, last]` of a cluster `c` contains no hull index, then
*no member of `c`* occurs in the list returned by the hull-mode filter. -/
theorem clusterFilterHull_excludes (hull : List Nat) (herr : List Nat → Nat → Rat)
    (labels knees : List Nat) (h : labels.length = knees.length)
    (hk : knees.Pairwise (· < ·)) (h2 : 2 ≤ knees.length)
    (c : List Nat) (hc : c ∈ groupByLabels labels knees)
    (hno : ∀ x ∈ hull, ¬ (c.head?.getD 0 ≤ x ∧ x ≤ c.getLast?.getD 0)) :
    ∀ k ∈ c, k ∉ clusterFilterHull hull herr labels knees := by
  intro k hkc hout
  obtain ⟨c', hc', hkc', x, hx, hspan⟩ :=
    clusterFilterHull_mem_has_hull hull herr labels knees h2 k hout
  have : c = c' := groups_eq_of_common labels knees h hk hc hc' hkc hkc'
  subst this
  exact hno x hx hspan

/-- the same with the span condition written on the members: no hull index lies between two
members of the cluster (the first and the last member are members) -/
theorem clusterFilterHull_excludes_between (hull : List Nat) (herr : List Nat → Nat → Rat)
    (labels knees : List Nat) (h : labels.length = knees.length)
    (hk : knees.Pairwise (· < ·)) (h2 : 2 ≤ knees.length)
    (c : List Nat) (hc : c ∈ groupByLabels labels knees)
    (hno : ∀ x ∈ hull, ∀ a ∈ c, ∀ b ∈ c, ¬ (a ≤ x ∧ x ≤ b)) :
    ∀ k ∈ c, k ∉ clusterFilterHull hull herr labels knees := by
  refine clusterFilterHull_excludes hull herr labels knees h hk h2 c hc ?_
  have hne := groups_nonempty labels knees c hc
  intro x hx
  have ha : c.head?.getD 0 ∈ c := by
    cases c with
    | nil => exact absurd rfl hne
    | cons a as => simp
  have hb : c.getLast?.getD 0 ∈ c := by
    rw [List.getLast?_eq_some_getLast hne]
    exact List.getLast_mem hne
  exact hno x hx _ ha _ hb

/-- consequently, if the hull misses the span of every cluster, hull mode returns the empty list
(at least two knees) -/
theorem clusterFilterHull_empty_of_no_hull (hull : List Nat) (herr : List Nat → Nat → Rat)
    (labels knees : List Nat) (h2 : 2 ≤ knees.length)
    (hno : ∀ c ∈ groupByLabels labels knees,
      ∀ x ∈ hull, ¬ (c.head?.getD 0 ≤ x ∧ x ≤ c.getLast?.getD 0)) :
    clusterFilterHull hull herr labels knees = [] := by
  rw [List.eq_nil_iff_forall_not_mem]
  intro k hk
  obtain ⟨c, hc, -, x, hx, hspan⟩ := clusterFilterHull_mem_has_hull hull herr labels knees h2 k hk
  exact hno c hc x hx hspan

/-- **C12S (`2 ≤ |knees|` is needed).** With a single knee the Python returns `knees` unchanged
(`if len(knees) <= 1: return knees`), also in hull mode and also when the knee is not on the hull:
the only cluster `[7]` has no hull point in its span, yet 7 is returned. -/
theorem clusterFilterHull_excludes_needs_two :
    groupByLabels [0] [7] = [[7]]
    ∧ (∀ x ∈ ([] : List Nat), ¬ (([7] : List Nat).head?.getD 0 ≤ x ∧ x ≤ ([7] : List Nat).getLast?.getD 0))
    ∧ 7 ∈ clusterFilterHull [] (fun _ _ => 0) [0] [7] := by
  decide +kernel

/-! ## 3. Layer-N score instances -/

/-- the score argument of `filter_clusters` for left / linear / right ranking:
`kr.smooth_ranking(points, c, method)` = `fit(c) * relative_height(y[c])`, with the R² values
`fit c` of the documented spans as an oracle and the heights read off the curve `ys` -/
def smoothScoreOf (fit : List Nat → List Rat) (ys : List Rat) (c : List Nat) : List Rat :=
  smoothScores (fit c) (c.map fun k => ys[k]?.getD 0)

/-- the area argument of `filter_clusters_corners`: `rank_corners_triangle(points, c)`, the
corner-triangle score `0.5·(x_k − x_{k−1})·(y_k − y_{k+1})` of every member `k` (the model reads
`pts[k-1]` with truncated subtraction and default `(0,0)`; it is the Python value for
`1 ≤ k` and `k + 1 < |pts|`) -/
def cornerAreaOf (pts : List P2) (c : List Nat) : List Rat :=
  c.map fun k => cornerTriQ (pts[k - 1]?.getD (0, 0)) (pts[k]?.getD (0, 0)) (pts[k + 1]?.getD (0, 0))

/-- `smooth_ranking` returns one score per member of the cluster (given one R² value per member) -/
theorem smoothScoreOf_length (fit : List Nat → List Rat) (ys : List Rat)
    (hfit : ∀ c, (fit c).length = c.length) (c : List Nat) :
    (smoothScoreOf fit ys c).length = c.length := by
  unfold smoothScoreOf
  rw [smoothScores_length _ _ (by simp [hfit c]), hfit c]

/-- `rank_corners_triangle` returns one score per member of the cluster -/
theorem cornerAreaOf_length (pts : List P2) (c : List Nat) : (cornerAreaOf pts c).length = c.length := by
  simp [cornerAreaOf]

/-- entry `j` of the corner score is the triangle score of member `c[j]` -/
theorem cornerAreaOf_getElem (pts : List P2) (c : List Nat) (j : Nat) (hj : j < c.length) :
    (cornerAreaOf pts c)[j]?.getD 0 =
      cornerTriQ (pts[c[j] - 1]?.getD (0, 0)) (pts[c[j]]?.getD (0, 0)) (pts[c[j] + 1]?.getD (0, 0)) := by
  simp [cornerAreaOf, hj]

/-- **C12S (`filter_clusters` with `smooth_ranking`).** Instantiation of
`clusterFilter_one_per_cluster` with `score := smoothScoreOf fit ys`
(`= smoothScores (fit c) (ys at c)`): with at least two knees and an R² oracle returning one value
per member, the output has exactly one entry per cluster, in cluster order; entry `i` is a member
of cluster `i`, and in a multi-member cluster it attains the maximal `fit × relative height`
score of that cluster. -/
theorem clusterFilter_with_smoothScores (fit : List Nat → List Rat) (ys : List Rat)
    (labels knees : List Nat) (hfit : ∀ c, (fit c).length = c.length) (h2 : 2 ≤ knees.length) :
    let G := groupByLabels labels knees
    let out := clusterFilter (smoothScoreOf fit ys) labels knees
    out.length = G.length ∧
      ∀ i, i < G.length → ∃ k, out[i]? = some k ∧ k ∈ G[i]?.getD [] ∧
        ((G[i]?.getD []).length > 1 → ∃ p, p < (G[i]?.getD []).length ∧
          (G[i]?.getD [])[p]? = some k ∧
          ∀ j, j < (G[i]?.getD []).length →
            (smoothScores (fit (G[i]?.getD [])) ((G[i]?.getD []).map fun k => ys[k]?.getD 0))[j]?.getD 0
              ≤ (smoothScores (fit (G[i]?.getD [])) ((G[i]?.getD []).map fun k => ys[k]?.getD 0))[p]?.getD 0) :=
  clusterFilter_one_per_cluster (smoothScoreOf fit ys) labels knees
    (smoothScoreOf_length fit ys hfit) h2

/-- **C12S (`pickByRank` with `smooth_ranking`).** Instantiation of `pickByRank_max`: the member
picked from one cluster `c` by `argmax(rank(smooth_ranking(points, c)))` attains the maximal
smooth score of `c`. -/
theorem pickByRank_with_smoothScores (fit : List Nat → List Rat) (ys : List Rat) (c : List Nat)
    (hfit : (fit c).length = c.length) {k : Nat}
    (hk : pickByRank (smoothScores (fit c) (c.map fun k => ys[k]?.getD 0)) c = some k) :
    ∃ i, i < c.length ∧ c[i]? = some k ∧
      ∀ j, j < c.length →
        (smoothScores (fit c) (c.map fun k => ys[k]?.getD 0))[j]?.getD 0
          ≤ (smoothScores (fit c) (c.map fun k => ys[k]?.getD 0))[i]?.getD 0 :=
  pickByRank_max (by rw [smoothScores_length _ _ (by simp [hfit]), hfit]) hk

/-- **C12S (`filter_clusters_corners` with `rank_corners_triangle`).** Instantiation of
`clusterFilterCorners_length` / `clusterFilterCorners_max` with `area := cornerAreaOf pts`
(no hypothesis: the score list has one entry per member by construction): exactly one entry per
cluster; entry `i` is the member of cluster `i` at position `p = argmax` of the corner-triangle
scores, `p` maximises the score `cornerTriQ pts[k-1] pts[k] pts[k+1]` over the members and is the
*first* maximiser. -/
theorem clusterFilterCorners_with_cornerTri (pts : List P2) (labels knees : List Nat) :
    let G := groupByLabels labels knees
    let out := clusterFilterCorners (cornerAreaOf pts) labels knees
    out.length = G.length ∧
    ∀ i, i < G.length → ∃ k p, p = argmaxIdx (cornerAreaOf pts (G[i]?.getD [])) ∧
      p < (G[i]?.getD []).length ∧ out[i]? = some k ∧ (G[i]?.getD [])[p]? = some k ∧
      (∀ j, j < (G[i]?.getD []).length →
        (cornerAreaOf pts (G[i]?.getD []))[j]?.getD 0 ≤ (cornerAreaOf pts (G[i]?.getD []))[p]?.getD 0) ∧
      (∀ j, j < p →
        (cornerAreaOf pts (G[i]?.getD []))[j]?.getD 0 < (cornerAreaOf pts (G[i]?.getD []))[p]?.getD 0) :=
  ⟨clusterFilterCorners_length (cornerAreaOf pts) labels knees (cornerAreaOf_length pts),
   clusterFilterCorners_max (cornerAreaOf pts) labels knees (cornerAreaOf_length pts)⟩

/-- the same with the score written out: the knee `k` kept for a cluster `c` has a corner-triangle
score at least that of every member of `c` -/
theorem clusterFilterCorners_with_cornerTri_mem (pts : List P2) (labels knees : List Nat)
    (i : Nat) (hi : i < (groupByLabels labels knees).length) :
    ∃ k, (clusterFilterCorners (cornerAreaOf pts) labels knees)[i]? = some k ∧
      k ∈ (groupByLabels labels knees)[i] ∧
      ∀ m ∈ (groupByLabels labels knees)[i],
        cornerTriQ (pts[m - 1]?.getD (0, 0)) (pts[m]?.getD (0, 0)) (pts[m + 1]?.getD (0, 0))
          ≤ cornerTriQ (pts[k - 1]?.getD (0, 0)) (pts[k]?.getD (0, 0)) (pts[k + 1]?.getD (0, 0)) := by
  obtain ⟨k, p, -, hp, hout, hkp, hmax, -⟩ :=
    (clusterFilterCorners_with_cornerTri pts labels knees).2 i hi
  have hGi : (groupByLabels labels knees)[i]?.getD [] = (groupByLabels labels knees)[i] := by
    simp [hi]
  rw [hGi] at hp hkp hmax
  refine ⟨k, hout, List.mem_of_getElem? hkp, ?_⟩
  intro m hm
  obtain ⟨j, hj, rfl⟩ := List.getElem_of_mem hm
  have := hmax j hj
  rw [cornerAreaOf_getElem pts _ j hj, cornerAreaOf_getElem pts _ p hp] at this
  obtain ⟨_, hk'⟩ := List.getElem?_eq_some_iff.1 hkp
  rw [hk'] at this
  exact this

/-! ## Non-vacuity -/

/-- hull mode on six strictly increasing knees in three clusters `[3,5] [8] [9,12,20]`, hull
`[9, 12, 20]`: the spans `[3,5]` and `[8,8]` contain no hull index, so 3, 5 and 8 are absent. -/
example : groupByLabels [0, 0, 1, 2, 2, 2] [3, 5, 8, 9, 12, 20] = [[3, 5], [8], [9, 12, 20]]
    ∧ clusterFilterHull [9, 12, 20] (fun _ j => if j = 12 then 1 else 5)
        [0, 0, 1, 2, 2, 2] [3, 5, 8, 9, 12, 20] = [12]
    ∧ (∀ x ∈ ([9, 12, 20] : List Nat),
        ¬ (([3, 5] : List Nat).head?.getD 0 ≤ x ∧ x ≤ ([3, 5] : List Nat).getLast?.getD 0))
    ∧ ([3, 5, 8, 9, 12, 20] : List Nat).Pairwise (· < ·)
    ∧ ([0, 0, 1, 2, 2, 2] : List Nat).length = ([3, 5, 8, 9, 12, 20] : List Nat).length := by
  decide +kernel

/-- the theorem applied to that instance -/
example : (3 : Nat) ∉ clusterFilterHull [9, 12, 20] (fun _ j => if j = 12 then 1 else 5)
    [0, 0, 1, 2, 2, 2] [3, 5, 8, 9, 12, 20] :=
  clusterFilterHull_excludes [9, 12, 20] _ [0, 0, 1, 2, 2, 2] [3, 5, 8, 9, 12, 20]
    (by decide) (by decide) (by decide) [3, 5] (by decide +kernel) (by decide +kernel) 3 (by decide)

/-- a 7-point curve, knees `[1, 2, 4, 5]` in two clusters; constant fit 1: the smooth score is the
relative height below the cluster's peak, so the *lowest* member of every cluster wins -/
private def cys : List Rat := [10, 8, 5, 4, 3, 1, 0]
example : smoothScoreOf (fun c => c.map fun _ => 1) cys [1, 2] = [0, 1]
    ∧ smoothScoreOf (fun c => c.map fun _ => 1) cys [4, 5] = [0, 1]
    ∧ clusterFilter (smoothScoreOf (fun c => c.map fun _ => 1) cys) [0, 0, 1, 1] [1, 2, 4, 5] = [2, 5] := by
  decide +kernel
/-- a non-trivial fit oracle (R² 1 for the first member, 1/4 for the others) and three-member
clusters: scores `fit × relative height` -/
example : smoothScoreOf (fun c => c.mapIdx fun i _ => if i = 0 then 1 else 1/4) cys [1, 2, 3]
      = [0, 3/28, 1/7]
    ∧ clusterFilter (smoothScoreOf (fun c => c.mapIdx fun i _ => if i = 0 then 1 else 1/4) cys)
        [0, 0, 0, 1] [1, 2, 3, 5] = [3, 5] := by
  decide +kernel
/-- corner scores on the curve `(i, cys[i])`: `0.5·(x_k − x_{k−1})·(y_k − y_{k+1})` -/
private def cpts : List P2 := [(0, 10), (1, 8), (2, 5), (3, 4), (4, 3), (5, 1), (6, 0)]
example : cornerAreaOf cpts [1, 2, 3] = [3/2, 1/2, 1/2]
    ∧ cornerAreaOf cpts [4, 5] = [1, 1/2]
    ∧ clusterFilterCorners (cornerAreaOf cpts) [0, 0, 0, 1, 1] [1, 2, 3, 4, 5] = [1, 4] := by
  decide +kernel

end Knee

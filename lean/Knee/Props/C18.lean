import Knee.Model.Hull
import Knee.Model.Metrics
namespace Knee
theorem stub_C18 : True := trivial
end Knee

import Knee.Lemmas.Hull
/-!
# C18 — monotone-chain hull scans return the convex chain of an x-sorted curve

Model: `Knee.hullLower`, `Knee.hullUpper` (convex_hull.graham_scan_lower / graham_scan_upper),
`Knee.grahamScan` (convex_hull.graham_scan).  Orientation signs are exact in ℚ.

For a curve `pt : Nat → P2` with `n ≥ 2` points the lower chain `H = hullLower pt n`
* is a strictly increasing index chain from `0` to `n - 1` (`hullLower_indices`);
* turns strictly counter-clockwise at every interior vertex (`hullLower_strict_turns`);
* for strictly increasing x: every input point lies on or above the line through every chain edge
  (`hullLower_supports`), in particular on or above the edge spanning its x-range.
Together: `H` is exactly the lower convex hull (vertices only, no collinear points).
The upper chain is the lower chain of the curve reflected in the x-axis (`hullUpper_eq_reflect`)
and satisfies the mirror images.  Positions in a chain are read with `H[i]?.getD 0`.
-/
namespace Knee

/-! ### lower chain -/

/-- **C18 (indices).** The lower chain is a strictly increasing index chain from `0` to `n - 1`. -/
theorem hullLower_indices (pt : Nat → P2) (n : Nat) (hn : 2 ≤ n) :
    let H := hullLower pt n
    H.Pairwise (· < ·) ∧ H.head? = some 0 ∧ H.getLast? = some (n - 1) ∧ ∀ k ∈ H, k < n := by
  intro H
  have h := lowerStack_idx pt (n - 2)
  have e : n - 2 + 1 = n - 1 := by omega
  rw [e] at h
  obtain ⟨hp, hh, hl, _⟩ := h
  refine ⟨?_, ?_, ?_, ?_⟩
  · exact List.pairwise_reverse.2 hp
  · show (lowerStack pt (n - 2)).reverse.head? = _
    rw [List.head?_reverse, hl]
  · show (lowerStack pt (n - 2)).reverse.getLast? = _
    rw [List.getLast?_reverse, hh]
  · intro k hk
    have hk' : k ∈ lowerStack pt (n - 2) := List.mem_reverse.1 hk
    have := IdxInv.lt ⟨hp, hh, hl, ‹_›⟩ k hk'
    omega

/-- the lower chain has at least the two end points -/
theorem hullLower_length (pt : Nat → P2) (n : Nat) : 2 ≤ (hullLower pt n).length := by
  rw [hullLower_eq, List.length_reverse]
  exact (lowerStack_idx pt (n - 2)).2.2.2

/-- **C18 (strict turns).** Consecutive chain edges turn strictly counter-clockwise; no
hypothesis on the curve is needed. -/
theorem hullLower_strict_turns (pt : Nat → P2) (n : Nat) :
    let H := hullLower pt n
    ∀ i, i + 2 < H.length →
      0 < ccw (pt (H[i]?.getD 0)) (pt (H[i + 1]?.getD 0)) (pt (H[i + 2]?.getD 0)) := by
  intro H i hi
  exact Adj3.reverse_getD (R := fun c b a => 0 < ccw (pt a) (pt b) (pt c)) _
    (lowerStack_convex pt (n - 2)) i hi

/-- **C18 (support).** On a curve with strictly increasing x, every input point lies on or above
the line through every edge of the lower chain. -/
theorem hullLower_supports (pt : Nat → P2) (n : Nat) (hn : 2 ≤ n)
    (hx : ∀ i j, i < j → j < n → (pt i).1 < (pt j).1) :
    let H := hullLower pt n
    ∀ k, k < n → ∀ i, i + 1 < H.length →
      0 ≤ ccw (pt (H[i]?.getD 0)) (pt (H[i + 1]?.getD 0)) (pt k) := by
  intro H k hk i hi
  have h := lowerStack_above hx (n - 2) (by omega)
  exact Adj2.reverse_getD (R := fun b a => ∀ k, k ≤ n - 2 + 1 → 0 ≤ ccw (pt a) (pt b) (pt k)) _
    h i hi k (by omega)

/-! ### upper chain -/

/-- The upper chain of `pt` is the lower chain of the curve reflected in the x-axis. -/
theorem hullUpper_eq_reflect (pt : Nat → P2) (n : Nat) :
    hullUpper pt n = hullLower (fun k => ((pt k).1, -(pt k).2)) n :=
  hullUpper_eq_hullLower pt n

/-- **C18 (indices, upper).** -/
theorem hullUpper_indices (pt : Nat → P2) (n : Nat) (hn : 2 ≤ n) :
    let H := hullUpper pt n
    H.Pairwise (· < ·) ∧ H.head? = some 0 ∧ H.getLast? = some (n - 1) ∧ ∀ k ∈ H, k < n := by
  rw [hullUpper_eq_hullLower]
  exact hullLower_indices (reflY pt) n hn

theorem hullUpper_length (pt : Nat → P2) (n : Nat) : 2 ≤ (hullUpper pt n).length := by
  rw [hullUpper_eq_hullLower]
  exact hullLower_length (reflY pt) n

/-- **C18 (strict turns, upper).** Consecutive edges of the upper chain turn strictly clockwise. -/
theorem hullUpper_strict_turns (pt : Nat → P2) (n : Nat) :
    let H := hullUpper pt n
    ∀ i, i + 2 < H.length →
      ccw (pt (H[i]?.getD 0)) (pt (H[i + 1]?.getD 0)) (pt (H[i + 2]?.getD 0)) < 0 := by
  rw [hullUpper_eq_hullLower]
  intro H i hi
  have := hullLower_strict_turns (reflY pt) n i hi
  rw [ccw_reflY] at this
  exact neg_pos.1 this

/-- **C18 (support, upper).** On a curve with strictly increasing x, every input point lies on or
below the line through every edge of the upper chain. -/
theorem hullUpper_supports (pt : Nat → P2) (n : Nat) (hn : 2 ≤ n)
    (hx : ∀ i j, i < j → j < n → (pt i).1 < (pt j).1) :
    let H := hullUpper pt n
    ∀ k, k < n → ∀ i, i + 1 < H.length →
      ccw (pt (H[i]?.getD 0)) (pt (H[i + 1]?.getD 0)) (pt k) ≤ 0 := by
  rw [hullUpper_eq_hullLower]
  intro H k hk i hi
  have := hullLower_supports (reflY pt) n hn hx k hk i hi
  rw [ccw_reflY] at this
  exact neg_nonneg.1 this

/-! ### `graham_scan` sanity -/

/-- `graham_scan` returns distinct, in-range original indices. -/
theorem grahamScan_nodup_bounded (pts : List P2) :
    (grahamScan pts).Nodup ∧ ∀ i ∈ grahamScan pts, i < pts.length :=
  grahamScan_sound pts

/-- the pop loop of `graham_scan` never empties a non-empty stack -/
theorem popGraham_nonempty (p : P2) (st : List (P2 × Nat)) (h : st ≠ []) : popGraham p st ≠ [] :=
  popGraham_ne_nil p st h

/-- the pop loop only removes elements from the top of the stack -/
theorem popGraham_isSuffix (p : P2) (st : List (P2 × Nat)) : popGraham p st <:+ st :=
  popGraham_suffix p st

/-! Non-vacuity: concrete curves (strictly increasing x) and the chains the model computes. -/

private def curveOf (l : List P2) : Nat → P2 := fun k => l.getD k (0, 0)

/-- zig-zag: the lower chain keeps only the ends, the upper chain drops the dip at index 2 -/
example : hullLower (curveOf [(0, 0), (1, 2), (2, 1), (3, 3), (4, 0)]) 5 = [0, 4] := by decide +kernel
example : hullUpper (curveOf [(0, 0), (1, 2), (2, 1), (3, 3), (4, 0)]) 5 = [0, 1, 3, 4] := by
  decide +kernel
/-- V shape -/
example : hullLower (curveOf [(0, 2), (1, 0), (2, 2)]) 3 = [0, 1, 2] := by decide +kernel
example : hullUpper (curveOf [(0, 2), (1, 0), (2, 2)]) 3 = [0, 2] := by decide +kernel
/-- collinear run: the middle point is dropped by both chains (turns are strict) -/
example : hullLower (curveOf [(0, 0), (1, 1), (2, 2)]) 3 = [0, 2] := by decide +kernel
example : hullUpper (curveOf [(0, 0), (1, 1), (2, 2)]) 3 = [0, 2] := by decide +kernel
/-- the x-monotonicity hypothesis is satisfiable by the zig-zag curve -/
example : ∀ i j, i < j → j < 5 →
    (curveOf [(0, 0), (1, 2), (2, 1), (3, 3), (4, 0)] i).1 <
      (curveOf [(0, 0), (1, 2), (2, 1), (3, 3), (4, 0)] j).1 := by
  intro i j hij hj
  have : ∀ j, j < 5 → ∀ i, i < j →
      (curveOf [(0, 0), (1, 2), (2, 1), (3, 3), (4, 0)] i).1 <
        (curveOf [(0, 0), (1, 2), (2, 1), (3, 3), (4, 0)] j).1 := by decide +kernel
  exact this j hj i hij
/-- square with an interior point: the interior index 4 is discarded -/
example : grahamScan [(0, 0), (2, 0), (2, 2), (0, 2), (1, 1)] = [0, 3, 2, 1] := by decide +kernel

end Knee

import Knee.Lemmas.ClusterFilter
/-!
# C12 — the cluster filter keeps one best-ranked knee per cluster

Models: `Knee.groupByLabels` (`knees[clusters == i]`: the knees grouped into contiguous runs of
equal cluster label), `Knee.pickByRank` (`cluster[np.argmax(kr.rank(rankings))]`),
`Knee.clusterFilter` (postprocessing.filter_clusters, left / linear / right ranking),
`Knee.clusterFilterHull` (hull ranking), `Knee.clusterFilterCorners`
(postprocessing.filter_clusters_corners).  `score c`, `herr c j`, `area c` are Layer-S parameters
(arbitrary functions of the members of one cluster).  The per-group pickers `rankPick`, `hullPick`,
`cornerPick` and the helper lemmas are in `Lemmas/ClusterFilter.lean`.

Since NumPy's argsort tie order is unspecified, the correspondence on equal scores is relational:
the theorems state that the chosen member *attains the maximal score* of its cluster.
-/
namespace Knee

/-! ## 1. Grouping: the clusters are a partition of the knees into contiguous blocks -/

/-- concatenating the groups gives back the knees (nothing lost, nothing duplicated, order kept) -/
theorem groups_flatten (labels knees : List Nat) (h : labels.length = knees.length) :
    (groupByLabels labels knees).flatten = knees :=
  groupByLabels_flatten labels knees h

/-- no group is empty -/
theorem groups_nonempty (labels knees : List Nat) :
    ∀ c ∈ groupByLabels labels knees, c ≠ [] :=
  groupByLabels_nonempty labels knees

/-- every group is a contiguous block of the knees -/
theorem groups_infix (labels knees : List Nat) (h : labels.length = knees.length) :
    ∀ c ∈ groupByLabels labels knees, c <:+: knees := by
  intro c hc
  have := infix_flatten_of_mem hc
  rwa [groups_flatten labels knees h] at this

/-- hence a sublist -/
theorem groups_sublist (labels knees : List Nat) (h : labels.length = knees.length) :
    ∀ c ∈ groupByLabels labels knees, c.Sublist knees :=
  fun c hc => (groups_infix labels knees h c hc).sublist

/-- for strictly increasing knees, an earlier group lies entirely below a later group -/
theorem groups_ordered (labels knees : List Nat) (h : labels.length = knees.length)
    (hk : knees.Pairwise (· < ·)) :
    (groupByLabels labels knees).Pairwise (fun g1 g2 => ∀ a ∈ g1, ∀ b ∈ g2, a < b) := by
  rw [← groups_flatten labels knees h] at hk
  exact (List.pairwise_flatten.1 hk).2

/-- and every group is itself strictly increasing -/
theorem groups_strict (labels knees : List Nat) (h : labels.length = knees.length)
    (hk : knees.Pairwise (· < ·)) :
    ∀ c ∈ groupByLabels labels knees, c.Pairwise (· < ·) := by
  rw [← groups_flatten labels knees h] at hk
  exact (List.pairwise_flatten.1 hk).1

/-! ## 2. The rank picker returns a member with maximal score -/

theorem pickByRank_mem {scores : List Rat} {c : List Nat} {k : Nat}
    (hk : pickByRank scores c = some k) : k ∈ c :=
  pickByRank_mem' hk

theorem pickByRank_some {scores : List Rat} {c : List Nat} (h : scores.length = c.length)
    (hne : c ≠ []) : ∃ k, pickByRank scores c = some k := by
  have hs : scores ≠ [] := by
    intro h0; subst h0; exact hne (List.length_eq_zero_iff.1 (by simpa using h.symm))
  have hlt : argmaxIdx (ranksQ scores) < c.length := h ▸ argmax_ranksQ_lt scores hs
  exact ⟨c[argmaxIdx (ranksQ scores)], by rw [pickByRank_eq, List.getElem?_eq_getElem hlt]⟩

theorem pickByRank_max {scores : List Rat} {c : List Nat} {k : Nat}
    (h : scores.length = c.length) (hk : pickByRank scores c = some k) :
    ∃ i, i < c.length ∧ c[i]? = some k ∧
      ∀ j, j < c.length → scores[j]?.getD 0 ≤ scores[i]?.getD 0 := by
  rw [pickByRank_eq] at hk
  refine ⟨argmaxIdx (ranksQ scores), ?_, hk, ?_⟩
  · exact (List.getElem?_eq_some_iff.1 hk).1
  · intro j hj
    exact argmax_ranksQ_max scores j (h ▸ hj)

/-! ## 3. Left / linear / right ranking: exactly one best-scored member per cluster -/

/-- **C12 (main).** With at least two knees the output has exactly one entry per cluster, in
cluster order; entry `i` is a member of cluster `i`, and in a multi-member cluster it is a member
whose score is maximal in that cluster. -/
theorem clusterFilter_one_per_cluster (score : List Nat → List Rat) (labels knees : List Nat)
    (hs : ∀ c, (score c).length = c.length) (h2 : 2 ≤ knees.length) :
    let G := groupByLabels labels knees
    let out := clusterFilter score labels knees
    out.length = G.length ∧
      ∀ i, i < G.length → ∃ k, out[i]? = some k ∧ k ∈ G[i]?.getD [] ∧
        ((G[i]?.getD []).length > 1 → ∃ p, p < (G[i]?.getD []).length ∧
          (G[i]?.getD [])[p]? = some k ∧
          ∀ j, j < (G[i]?.getD []).length →
            (score (G[i]?.getD []))[j]?.getD 0 ≤ (score (G[i]?.getD []))[p]?.getD 0) := by
  intro G out
  have hall : ∀ c ∈ G, ∃ k, rankPick score c = some k := by
    intro c hc
    have hne := groups_nonempty labels knees c hc
    unfold rankPick
    split
    · exact pickByRank_some (hs c) hne
    · cases c with
      | nil => exact absurd rfl hne
      | cons a as => exact ⟨a, rfl⟩
  obtain ⟨hlen, hget⟩ := filterMap_all_some (rankPick score) G hall
  have hout : out = G.filterMap (rankPick score) := clusterFilter_eq score labels knees h2
  rw [hout]
  refine ⟨hlen, ?_⟩
  intro i hi
  have hGi : G[i]?.getD [] = G[i] := by simp [hi]
  rw [hGi]
  obtain ⟨k, hk⟩ := hall G[i] (List.getElem_mem hi)
  refine ⟨k, by rw [hget i hi, hk], rankPick_mem score _ k hk, ?_⟩
  intro hgt
  have hk' : pickByRank (score G[i]) G[i] = some k := by
    simpa [rankPick, hgt] using hk
  exact pickByRank_max (hs _) hk'

/-- the output is a sublist of the knees (order kept, no knee invented or duplicated) -/
theorem clusterFilter_sublist (score : List Nat → List Rat) (labels knees : List Nat)
    (h : labels.length = knees.length) :
    (clusterFilter score labels knees).Sublist knees := by
  by_cases h1 : knees.length ≤ 1
  · simp [clusterFilter, h1]
  · rw [clusterFilter_eq score labels knees (by omega)]
    have := filterMap_pick_sublist (rankPick score) (rankPick_mem score)
      (groupByLabels labels knees)
    rwa [groups_flatten labels knees h] at this

theorem clusterFilter_strict (score : List Nat → List Rat) (labels knees : List Nat)
    (h : labels.length = knees.length) (hk : knees.Pairwise (· < ·)) :
    (clusterFilter score labels knees).Pairwise (· < ·) :=
  List.Pairwise.sublist (clusterFilter_sublist score labels knees h) hk

theorem clusterFilter_small (score : List Nat → List Rat) (labels knees : List Nat)
    (h1 : knees.length ≤ 1) : clusterFilter score labels knees = knees := by
  simp [clusterFilter, h1]

/-! ## 4. Hull ranking: at most one member per cluster, none without a hull point -/

/-- with at least two knees the hull filter is `hullPick` applied to every cluster -/
theorem clusterFilterHull_filterMap (hull : List Nat) (herr : List Nat → Nat → Rat)
    (labels knees : List Nat) (h2 : 2 ≤ knees.length) :
    clusterFilterHull hull herr labels knees =
      (groupByLabels labels knees).filterMap (hullPick hull herr) :=
  clusterFilterHull_eq hull herr labels knees h2

/-- at most one member per cluster: the output is `G.filterMap f` for a picker `f` that returns
nothing or a member of its argument -/
theorem clusterFilterHull_at_most_one (hull : List Nat) (herr : List Nat → Nat → Rat)
    (labels knees : List Nat) (h2 : 2 ≤ knees.length) :
    ∃ f : List Nat → Option Nat, (∀ c k, f c = some k → k ∈ c) ∧
      clusterFilterHull hull herr labels knees = (groupByLabels labels knees).filterMap f :=
  ⟨hullPick hull herr, hullPick_mem hull herr, clusterFilterHull_eq hull herr labels knees h2⟩

/-- a cluster whose span `[first, last]` contains no hull index contributes nothing -/
theorem clusterFilterHull_needs_hull (hull : List Nat) (herr : List Nat → Nat → Rat)
    (c : List Nat)
    (hno : ∀ x ∈ hull, ¬ (c.head?.getD 0 ≤ x ∧ x ≤ c.getLast?.getD 0)) :
    hullPick hull herr c = none := by
  unfold hullPick
  split
  · have hw : hull.filter (fun h => c.head?.getD 0 ≤ h ∧ h ≤ c.getLast?.getD 0) = [] := by
      rw [List.filter_eq_nil_iff]
      intro x hx
      simpa using hno x hx
    simp only [hw]
    simp
  · cases c with
    | nil => rfl
    | cons a as =>
      rename_i hlen
      have hlen' : ¬ as.length + 1 > 1 := hlen
      have hnil : as = [] := List.length_eq_zero_iff.1 (by omega)
      subst hnil
      have : a ∉ hull := fun ha => hno a ha (by simp)
      simp [this]

/-- a picked member is a hull index when the cluster is a singleton -/
theorem hullPick_singleton (hull : List Nat) (herr : List Nat → Nat → Rat) (a : Nat) :
    hullPick hull herr [a] = if a ∈ hull then some a else none := by
  simp [hullPick]

theorem clusterFilterHull_sublist (hull : List Nat) (herr : List Nat → Nat → Rat)
    (labels knees : List Nat) (h : labels.length = knees.length) :
    (clusterFilterHull hull herr labels knees).Sublist knees := by
  by_cases h1 : knees.length ≤ 1
  · simp [clusterFilterHull, h1]
  · rw [clusterFilterHull_eq hull herr labels knees (by omega)]
    have := filterMap_pick_sublist (hullPick hull herr) (hullPick_mem hull herr)
      (groupByLabels labels knees)
    rwa [groups_flatten labels knees h] at this

theorem clusterFilterHull_strict (hull : List Nat) (herr : List Nat → Nat → Rat)
    (labels knees : List Nat) (h : labels.length = knees.length)
    (hk : knees.Pairwise (· < ·)) :
    (clusterFilterHull hull herr labels knees).Pairwise (· < ·) :=
  List.Pairwise.sublist (clusterFilterHull_sublist hull herr labels knees h) hk

/-! ## 5. Corner variant: the first maximiser of the corner score of every cluster -/

theorem clusterFilterCorners_sublist (area : List Nat → List Rat) (labels knees : List Nat)
    (h : labels.length = knees.length) :
    (clusterFilterCorners area labels knees).Sublist knees := by
  rw [clusterFilterCorners_eq]
  have := filterMap_pick_sublist (cornerPick area) (cornerPick_mem area)
    (groupByLabels labels knees)
  rwa [groups_flatten labels knees h] at this

theorem cornerPick_some (area : List Nat → List Rat) (ha : ∀ c, (area c).length = c.length)
    (c : List Nat) (hne : c ≠ []) : ∃ k, cornerPick area c = some k := by
  have hane : area c ≠ [] := by
    intro h0
    have := ha c
    rw [h0] at this
    exact hne (List.length_eq_zero_iff.1 this.symm)
  have hlt : argmaxIdx (area c) < c.length := ha c ▸ argmaxIdx_lt_length hane
  exact ⟨c[argmaxIdx (area c)], by simp [cornerPick, hlt]⟩

/-- exactly one entry per cluster -/
theorem clusterFilterCorners_length (area : List Nat → List Rat) (labels knees : List Nat)
    (ha : ∀ c, (area c).length = c.length) :
    (clusterFilterCorners area labels knees).length = (groupByLabels labels knees).length := by
  rw [clusterFilterCorners_eq]
  exact (filterMap_all_some (cornerPick area) _
    (fun c hc => cornerPick_some area ha c (groups_nonempty labels knees c hc))).1

/-- entry `i` is the member of cluster `i` at position `p = argmaxIdx (area cluster)`, and `p` is
the *first* maximiser of the corner score (numpy.argmax) -/
theorem clusterFilterCorners_max (area : List Nat → List Rat) (labels knees : List Nat)
    (ha : ∀ c, (area c).length = c.length) :
    let G := groupByLabels labels knees
    let out := clusterFilterCorners area labels knees
    ∀ i, i < G.length → ∃ k p, p = argmaxIdx (area (G[i]?.getD [])) ∧
      p < (G[i]?.getD []).length ∧ out[i]? = some k ∧ (G[i]?.getD [])[p]? = some k ∧
      (∀ j, j < (G[i]?.getD []).length →
        (area (G[i]?.getD []))[j]?.getD 0 ≤ (area (G[i]?.getD []))[p]?.getD 0) ∧
      (∀ j, j < p → (area (G[i]?.getD []))[j]?.getD 0 < (area (G[i]?.getD []))[p]?.getD 0) := by
  intro G out i hi
  have hall : ∀ c ∈ G, ∃ k, cornerPick area c = some k :=
    fun c hc => cornerPick_some area ha c (groups_nonempty labels knees c hc)
  obtain ⟨_, hget⟩ := filterMap_all_some (cornerPick area) G hall
  have hGi : G[i]?.getD [] = G[i] := by simp [hi]
  rw [hGi]
  obtain ⟨k, hk⟩ := hall G[i] (List.getElem_mem hi)
  have hk2 : (G[i])[argmaxIdx (area G[i])]? = some k := hk
  refine ⟨k, argmaxIdx (area G[i]), rfl, (List.getElem?_eq_some_iff.1 hk2).1, ?_, hk2, ?_, ?_⟩
  · show (G.filterMap (cornerPick area))[i]? = some k
    rw [hget i hi, hk]
  · intro j hj
    exact argmaxIdx_ge j (by rw [ha]; exact hj)
  · intro j hj
    exact argmaxIdx_first j hj

/-! ## Non-vacuity: the models compute the expected values on concrete inputs. -/

example : groupByLabels [0, 0, 1, 2, 2, 2] [3, 5, 8, 9, 12, 20] = [[3, 5], [8], [9, 12, 20]] := by
  decide +kernel
/-- score = the knee index itself: the largest member of every cluster wins -/
example : clusterFilter (fun c => c.map fun k => ((k : Int) : Rat))
    [0, 0, 1, 2, 2, 2] [3, 5, 8, 9, 12, 20] = [5, 8, 20] := by decide +kernel
/-- decreasing score: the smallest member of every cluster wins -/
example : clusterFilter (fun c => c.map fun k => -((k : Int) : Rat))
    [0, 0, 1, 2, 2, 2] [3, 5, 8, 9, 12, 20] = [3, 8, 9] := by decide +kernel
/-- constant score: stable rank, the last of the ties has the highest rank -/
example : clusterFilter (fun c => c.map fun _ => (1 : Rat))
    [0, 0, 1, 2, 2, 2] [3, 5, 8, 9, 12, 20] = [5, 8, 20] := by decide +kernel
example : clusterFilter (fun c => c.map fun _ => (1 : Rat)) [0] [7] = [7] := by decide +kernel
/-- hull mode: cluster `[8]` contains no hull point and is dropped; `[3, 5]` has one hull point
(picked); `[9, 12, 20]` has two, the one with the smaller error (9) wins -/
example : clusterFilterHull [3, 9, 20] (fun _ j => ((j : Int) : Rat))
    [0, 0, 1, 2, 2, 2] [3, 5, 8, 9, 12, 20] = [3, 9] := by decide +kernel
/-- hull mode: the first two clusters have no hull index in their span -/
example : clusterFilterHull [9, 12, 20] (fun _ j => if j = 12 then 1 else 5)
    [0, 0, 1, 2, 2, 2] [3, 5, 8, 9, 12, 20] = [12] := by decide +kernel
example : hullPick [3, 9, 20] (fun _ j => ((j : Int) : Rat)) [8] = none := by decide +kernel
/-- corner variant: first maximiser on ties (12 before 20) -/
example : clusterFilterCorners (fun c => c.map fun k => if k = 12 ∨ k = 20 then 7 else 1)
    [0, 0, 1, 2, 2, 2] [3, 5, 8, 9, 12, 20] = [3, 8, 12] := by decide +kernel
/-- the hypotheses of the main theorems hold on the example -/
example : ([0, 0, 1, 2, 2, 2] : List Nat).length = ([3, 5, 8, 9, 12, 20] : List Nat).length
    ∧ 2 ≤ ([3, 5, 8, 9, 12, 20] : List Nat).length
    ∧ ([3, 5, 8, 9, 12, 20] : List Nat).Pairwise (· < ·) := by decide

end Knee

import Knee.Lemmas.Refine
import Knee.Lemmas.Argmax
/-!
# C05 — fixed-size simplification is an exact-size, nested greedy refinement

Oracle-parametric: for EVERY distance oracle `dst` (one value per point of the range) and EVERY
ordering-score oracle `key`.  `S k := rdpFixed dst key n k` is the fixed-size result, and
`state k := fixedLoop dst key (k-2) (rinit n)` the loop state that produced it.
-/
namespace Knee

/-- **C05, exact size.** `rdp_fixed(points, k)` returns exactly `min(max(k,2), n)` indices, for every `k`. -/
theorem fixed_card (dst : Nat → Nat → List Rat) (key : Nat → Nat → Nat → Rat × Rat) (n k : Nat)
    (hn : 2 ≤ n) (hd : ∀ l r, (dst l r).length = r - l) :
    (rdpFixed dst key n k).length = min (max k 2) n := by
  have h := fixedLoop_length (key := key) hd hn (rinit_inv n hn) (k - 2)
  have h2 : (rinit n).reduced.length = 2 := rfl
  rw [h2] at h
  unfold rdpFixed
  rw [h]
  omega

/-- **C05, nested + greedy.** For `2 ≤ k < n` the result for `k+1` is the result for `k` plus a single
new index `x`. `x` lies strictly inside one currently retained segment `[l, r)` (`l` and `r-1`
consecutive retained indices); that segment is the top of the work stack, the stack holds exactly
the retained segments that still have interior points, and the top's recorded ordering score is
maximal among them; `x = l + pickSplit (dst l r)`, where (by `pickSplit_spec`) either every
distance is below eps and the middle index is taken, or no interior point of the segment is
farther from the chord than `x`. -/
theorem fixed_nested_greedy (dst : Nat → Nat → List Rat) (key : Nat → Nat → Nat → Rat × Rat) (n k : Nat)
    (hn : 2 ≤ n) (hk : 2 ≤ k) (hkn : k < n) (hd : ∀ l r, (dst l r).length = r - l) :
    ∃ (top : Rat × Nat × Nat) (x : Nat),
      (fixedLoop dst key (k - 2) (rinit n)).stack.getLast? = some top ∧
      x = top.2.1 + pickSplit (dst top.2.1 top.2.2) ∧
      rdpFixed dst key n (k + 1) = insertSorted x (rdpFixed dst key n k) ∧
      x ∉ rdpFixed dst key n k ∧
      top.2.1 < x ∧ x + 1 < top.2.2 ∧
      (top.2.1, top.2.2) ∈ gaps (rdpFixed dst key n k) ∧
      ((fixedLoop dst key (k - 2) (rinit n)).stack.map rng).Perm (gaps (rdpFixed dst key n k)) ∧
      (∀ e ∈ (fixedLoop dst key (k - 2) (rinit n)).stack, e.1 ≤ top.1) ∧
      (((∀ v ∈ dst top.2.1 top.2.2, v < eps) ∧ pickSplit (dst top.2.1 top.2.2) = (top.2.2 - top.2.1) / 2) ∨
        (∀ j, 1 ≤ j → j + 1 < top.2.2 - top.2.1 →
          (dst top.2.1 top.2.2)[j]?.getD 0 ≤ (dst top.2.1 top.2.2)[pickSplit (dst top.2.1 top.2.2)]?.getD 0)) := by
  have hinv := fixedLoop_inv (key := key) hd hn (rinit_inv n hn) (k - 2)
  have hlen := fixed_card dst key n k hn hd
  have hne : (fixedLoop dst key (k - 2) (rinit n)).stack ≠ [] := by
    intro e
    have := (hinv.stack_nil_iff hn).mp e
    simp only [rdpFixed] at hlen
    omega
  have htop := List.getLast?_eq_some_getLast hne
  have hs := refineStep_spec dst key hd hinv htop
  obtain ⟨_, hred, hnot, hlt, hgt, hgap, hmax, _⟩ := hs
  refine ⟨_, _, htop, rfl, ?_, hnot, hlt, hgt, hgap, hinv.stk, hmax, ?_⟩
  · have e : k + 1 - 2 = (k - 2) + 1 := by omega
    simp only [rdpFixed, e, fixedLoop_succ, stepOrStop]
    have : (fixedLoop dst key (k - 2) (rinit n)).stack.isEmpty = false := by
      cases h : (fixedLoop dst key (k - 2) (rinit n)).stack with
      | nil => exact absurd h hne
      | cons _ _ => rfl
    simp only [this, Bool.false_eq_true, if_false]
    exact hred
  · have hr3 : 3 ≤ (dst (((fixedLoop dst key (k - 2) (rinit n)).stack.getLast hne).2.1)
        (((fixedLoop dst key (k - 2) (rinit n)).stack.getLast hne).2.2)).length := by rw [hd]; omega
    have := pickSplit_spec hr3
    rw [hd] at this
    exact this

/-! Non-vacuity: the hypotheses are met by a concrete oracle family on which the loop refines. -/
example : rdpFixed (fun l r => (List.range (r - l)).map fun i => if i = 2 then 1 else 0)
    (fun l _ i => ((l : Rat), ((l + i : Nat) : Rat))) 6 3 = [0, 2, 5] ∧
    rdpFixed (fun l r => (List.range (r - l)).map fun i => if i = 2 then 1 else 0)
    (fun l _ i => ((l : Rat), ((l + i : Nat) : Rat))) 6 4 = [0, 2, 4, 5] := by decide +kernel

end Knee

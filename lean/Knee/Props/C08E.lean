import Knee.Model.PipelineFull
import Knee.Props.C01
import Knee.Props.C02D
import Knee.Props.C08
/-!
# C08E — the whole pipeline, end to end

Model: `Knee.pipelineFull` (`Knee/Model/PipelineFull.lean`): threshold RDP → `multiKnee` on the
reduced curve → worst-knee filter → corner filter → cluster filter → index mapping.
The theorem composes C01 (`rdp_total_wf`), C02D (`multiKnee_sorted_range_large`) and C08
(`pipeline_wf`).  Oracles: every floating-point quantity (`cst`, `dst`, `det`, `gate`, `h`, `iou`,
`labelsOf`, `score`); the only contracts are the ones of the component theorems (`hd` : the distance
oracle returns one value per point of the range, `hdet` : the detector's range contract on ranges
longer than `t2`, `hl` : the linkage assigns one label per knee).
-/
namespace Knee

/-- every entry of a strictly increasing list is at most its last entry -/
theorem le_getLast_of_pairwise {l : List Nat} {b : Nat} (hp : l.Pairwise (· < ·))
    (hb : l.getLast? = some b) : ∀ x ∈ l, x ≤ b := by
  obtain ⟨ys, rfl⟩ := List.getLast?_eq_some_iff.mp hb
  intro x hx
  rw [List.pairwise_append] at hp
  rcases List.mem_append.mp hx with hx | hx
  · exact Nat.le_of_lt (hp.2.2 x hx b (by simp))
  · simp at hx; omega

/-- **C08E (end to end).** For every choice of the oracles, on a curve of `n ≥ 2` points with the
threshold in its domain, the whole pipeline completes; the simplifier's output `reduced` is a
strictly increasing index list from `0` to `n - 1`; the multi-knee stage returns strictly increasing
positions `knees` of the reduced curve (never its last point); every filter stage returns a
subsequence of its input; from the worst-knee filter onwards the heights are non-increasing from
left to right; and the reported knees `S.mapped` are strictly increasing original indices below
`n`, each a retained simplification point, namely the one at the surviving reduced-space position
(original and reduced coordinates coincide), with no knee lost or duplicated by the mapping. -/
theorem pipeline_end_to_end (isR2 : Bool) (t : Rat) (cst : Nat → Nat → Rat) (dst : Nat → Nat → List Rat)
    (n : Nat) (det : Nat → Nat → Option Nat) (gate : Nat → Nat → Bool) (t2 : Nat)
    (h : Nat → Rat) (iou : Nat → Rat) (tc : Rat) (labelsOf : List Nat → List Nat)
    (score : List Nat → List Rat)
    (hn : 2 ≤ n) (ht : if isR2 then t ≤ 1 else 0 < t) (hd : ∀ l r, (dst l r).length = r - l)
    (hdet : DetOKLarge t2 det) (hl : ∀ ks, (labelsOf ks).length = ks.length) :
    ∃ reduced knees S,
      pipelineFull isR2 t cst dst n det gate t2 h iou tc labelsOf score = some (reduced, S) ∧
      (reduced.Pairwise (· < ·) ∧ reduced[0]? = some 0 ∧ reduced.getLast? = some (n - 1)) ∧
      (multiKnee det gate t2 reduced.length = some knees ∧ knees.Pairwise (· < ·) ∧
        ∀ k ∈ knees, k + 2 ≤ reduced.length) ∧
      (S.worst.Sublist knees ∧ S.corner.Sublist S.worst ∧ S.cluster.Sublist S.corner) ∧
      (S.worst.Pairwise (fun a b => h b ≤ h a) ∧ S.corner.Pairwise (fun a b => h b ≤ h a) ∧
        S.cluster.Pairwise (fun a b => h b ≤ h a)) ∧
      S.mapped = S.cluster.map (fun k => reduced[k]?.getD 0) ∧ S.mapped.Pairwise (· < ·) ∧
      (∀ x ∈ S.mapped, x ∈ reduced) ∧ (∀ x ∈ S.mapped, x < n) ∧
      S.mapped.length = S.cluster.length := by
  obtain ⟨reduced, removed, hrdp, hpw, h0, hlast, hrem, hlen, _⟩ :=
    rdp_total_wf isR2 t cst dst n hn ht hd
  obtain ⟨knees, hmk, hkpw, hkb⟩ :=
    multiKnee_sorted_range_large (gate := gate) (n := reduced.length) hdet (by omega)
  have hwf := pipeline_wf h iou tc labelsOf score reduced knees hpw h0 hkpw
    (fun k hk => by have := hkb k hk; omega) hl
  subst hrem
  refine ⟨reduced, knees, _, by simp only [pipelineFull, hrdp, hmk], ⟨hpw, h0, hlast⟩,
    ⟨hmk, hkpw, hkb⟩, hwf.1, hwf.2.1, hwf.2.2.1, hwf.2.2.2.1, hwf.2.2.2.2.1, ?_, hwf.2.2.2.2.2⟩
  intro x hx
  have := le_getLast_of_pairwise hpw hlast x (hwf.2.2.2.2.1 x hx)
  omega

/-! Non-vacuity: the whole pipeline evaluated on a concrete instance (24 points; the cost oracle
splits every range of more than 3 points, the distance oracle peaks in the middle, the detector
answers the middle of every range of at least 3 points).  RDP keeps 16 points, `multiKnee` finds 7
knees, the worst-knee filter drops knee 3 (height 39/2 > 19), the corner filter drops knee 5
(IoU 3/4 ≥ 2/5), the cluster filter keeps the best of each of the two clusters, and the survivors
map to `reduced[1] = 2`, `reduced[13] = 20`.  The hypotheses of the theorem hold on this data. -/
private def cstE : Nat → Nat → Rat := fun l r => if r - l > 3 then 1 else 0
private def dstE : Nat → Nat → List Rat := fun l r =>
  (List.range (r - l)).map fun i => ((min i (r - l - 1 - i) : Nat) : Rat)
private def detE : Nat → Nat → Option Nat := fun l r =>
  if r - l ≥ 3 then some ((r - l - 2) / 2) else none
private def hE : Nat → Rat := fun k => if k = 3 then 39/2 else 20 - ((k : Int) : Rat)
private def iouE : Nat → Rat := fun k => if k = 5 then 3/4 else 0
private def labE : List Nat → List Nat := fun ks => ks.map fun k => if k < 4 then 0 else 1
private def scoreE : List Nat → List Rat := fun c => c.map fun k => ((k : Int) : Rat)

example : pipelineFull false (1/2) cstE dstE 24 detE (fun _ _ => true) 1 hE iouE (2/5) labE scoreE
    = some ([0, 2, 3, 5, 6, 8, 9, 11, 12, 14, 15, 17, 18, 20, 21, 23],
        { worst := [1, 5, 7, 9, 11, 13], corner := [1, 7, 9, 11, 13], cluster := [1, 13],
          mapped := [2, 20] }) := by decide +kernel
example : multiKnee detE (fun _ _ => true) 1 16 = some [1, 3, 5, 7, 9, 11, 13] := by decide +kernel
example : DetOKLarge 1 detE := by
  intro l r k _ h2
  unfold detE at h2
  split at h2 <;> simp at h2
  omega
example : ∀ l r, (dstE l r).length = r - l := by intro l r; simp [dstE]
example : ∀ ks, (labE ks).length = ks.length := by intro ks; simp [labE]

end Knee

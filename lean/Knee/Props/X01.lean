import Knee.Lemmas.Neighbourhood
/-!
# X01 — the R²-neighbourhood searches of `evaluation.py` and `knee_ranking.slope_ranking`

Model: `Knee/Model/Neighbourhood.lean` (`nbBinary`, `nbFast`, `nbLinear`, `slopeRanking`).
Every theorem holds for EVERY oracle `r2 : Nat → α`, every threshold `t : α`, every `a b : Nat`, where `α` is any type with a
decidable `<` (no order axioms are used: NaN-like incomparable values are covered; the driver uses `ExtQ`).
-/
namespace Knee

section
variable {α : Type} [LT α] [DecidableLT α]

/-! ## 1. `get_neighbourhood_binary` -/

/-- TERMINATION, for all `a`, `b` (also `b > a`): the fuel `|a-b|² + |a-b| + 1` supplied by the wrapper is never exhausted. -/
theorem nbBinary_terminates (r2 : Nat → α) (t : α) (a b : Nat) : ∃ s, nbBinary r2 t a b = some s := by
  unfold nbBinary nbBinFuel
  rcases Nat.le_total b a with h | h
  · have e : a - b + (b - a) = a - b := by omega
    simp only [e]
    exact nbBinLoop_isSome r2 t b (fun i r => b ≤ i ∧ i ≤ r ∧ r ≤ a) (fun i r => (r - b) * (r - b) + (r - i))
      (fun i r hinv hfar => nbBin_step_le a b i r hinv hfar) _ b a ⟨Nat.le_refl _, h, Nat.le_refl _⟩ (by omega)
  · have e : a - b + (b - a) = b - a := by omega
    simp only [e]
    exact nbBinLoop_isSome r2 t b (fun i r => a ≤ r ∧ r ≤ i ∧ i ≤ b) (fun i r => (b - r) * (b - r) + (i - r))
      (fun i r hinv hfar => nbBin_step_ge a b i r hinv hfar) _ b a ⟨Nat.le_refl _, h, Nat.le_refl _⟩ (by omega)

/-- INVARIANT and RESULT RANGE for `b ≤ a`: `b ≤ i ≤ right ≤ a` at exit (it holds at every loop head, see
`nbBinary_trace_range` for the evaluated indices), and the loop exits with `right - i ≤ 1`. -/
theorem nbBinary_invariant (r2 : Nat → α) (t : α) (a b : Nat) (h : b ≤ a) (s : NbBin)
    (hs : nbBinary r2 t a b = some s) : b ≤ s.i ∧ s.i ≤ s.right ∧ s.right ≤ a ∧ s.right ≤ s.i + 1 := by
  obtain ⟨p1, p2, _, _⟩ := nbBinLoop_post r2 t b (fun i r => b ≤ i ∧ i ≤ r ∧ r ≤ a)
    (fun i r => (r - b) * (r - b) + (r - i)) (fun i r hinv hfar => nbBin_step_le a b i r hinv hfar)
    _ b a s ⟨Nat.le_refl _, h, Nat.le_refl _⟩ hs
  rw [nbFar_false_iff] at p2
  exact ⟨p1.1, p1.2.1, p1.2.2, p2.2⟩

/-- the returned index lies in `[b, a]` -/
theorem nbBinary_result_range (r2 : Nat → α) (t : α) (a b : Nat) (h : b ≤ a) (s : NbBin)
    (hs : nbBinary r2 t a b = some s) : b ≤ s.i ∧ s.i ≤ a := by
  have := nbBinary_invariant r2 t a b h s hs
  omega

/-- every index at which the oracle is evaluated lies in `[b, a-2]`: the slices `x[i:a+1]` have at least 3 points -/
theorem nbBinary_trace_range (r2 : Nat → α) (t : α) (a b : Nat) (h : b ≤ a) (s : NbBin)
    (hs : nbBinary r2 t a b = some s) : ∀ j ∈ s.trace, b ≤ j ∧ j + 2 ≤ a := by
  obtain ⟨_, _, _, p4⟩ := nbBinLoop_post r2 t b (fun i r => b ≤ i ∧ i ≤ r ∧ r ≤ a)
    (fun i r => (r - b) * (r - b) + (r - i)) (fun i r hinv hfar => nbBin_step_le a b i r hinv hfar)
    _ b a s ⟨Nat.le_refl _, h, Nat.le_refl _⟩ hs
  intro j hj
  obtain ⟨r', hinv, hfar⟩ := p4 j hj
  rw [nbFar_iff] at hfar
  omega

/-- the final `right` is `a` itself or an index where the test `r2 < t` FAILED -/
theorem nbBinary_right_post (r2 : Nat → α) (t : α) (a b : Nat) (s : NbBin)
    (hs : nbBinary r2 t a b = some s) : s.right = a ∨ ¬ r2 s.right < t :=
  nbBinLoop_right r2 t b _ b a s hs

/-- ITERATION BOUND (simple): at most `(a-b)² + (a-b)` iterations -/
theorem nbBinary_iterations_le_quadratic (r2 : Nat → α) (t : α) (a b : Nat) (h : b ≤ a) (s : NbBin)
    (hs : nbBinary r2 t a b = some s) : s.trace.length ≤ (a - b) * (a - b) + (a - b) := by
  obtain ⟨_, _, p3, _⟩ := nbBinLoop_post r2 t b (fun i r => b ≤ i ∧ i ≤ r ∧ r ≤ a)
    (fun i r => (r - b) * (r - b) + (r - i)) (fun i r hinv hfar => nbBin_step_le a b i r hinv hfar)
    _ b a s ⟨Nat.le_refl _, h, Nat.le_refl _⟩ hs
  exact p3

/-- ITERATION BOUND (better order): at most `(⌊(a-b)/2⌋ + 1) · ⌈log₂(a-b)⌉` iterations.  The loop is NOT an `O(log n)` bisection for
arbitrary (non-monotone) oracles: `right` may shrink by only 2 per `⌈log₂⌉` halvings of `right - i`; the example at the end of the
file needs 10 iterations for `a - b = 12` (a linear scan needs at most 11). -/
theorem nbBinary_iterations_le_nlogn (r2 : Nat → α) (t : α) (a b : Nat) (h : b ≤ a) (s : NbBin)
    (hs : nbBinary r2 t a b = some s) : s.trace.length ≤ ((a - b) / 2 + 1) * Nat.clog 2 (a - b) := by
  obtain ⟨_, _, p3, _⟩ := nbBinLoop_post r2 t b (fun i r => b ≤ i ∧ i ≤ r ∧ r ≤ a)
    (fun i r => (r - b) / 2 * Nat.clog 2 (a - b) + Nat.clog 2 (r - i))
    (fun i r hinv hfar => nbBin_step_log a b i r hinv hfar)
    _ b a s ⟨Nat.le_refl _, h, Nat.le_refl _⟩ hs
  rw [Nat.add_mul, Nat.one_mul]
  exact p3

/-- no evaluation at all when `|a - b| ≤ 1` (`b = a`, `b = a-1`, and also `b = a+1`, which returns `a+1 ∉ [b, a]`) -/
theorem nbBinary_adjacent (r2 : Nat → α) (t : α) (a b : Nat) (h1 : a ≤ b + 1) (h2 : b ≤ a + 1) :
    nbBinary r2 t a b = some ⟨b, a, []⟩ := by
  have hf : nbFar b a = false := by rw [nbFar_false_iff]; omega
  unfold nbBinary nbBinFuel
  simp only
  rw [nbBinLoop_succ, hf]
  rfl

/-- `b > a`: the mirrored invariant `a ≤ right ≤ i ≤ b`; the returned index is NOT in `[b, a]` (which is empty) -/
theorem nbBinary_invariant_gt (r2 : Nat → α) (t : α) (a b : Nat) (h : a ≤ b) (s : NbBin)
    (hs : nbBinary r2 t a b = some s) : a ≤ s.right ∧ s.right ≤ s.i ∧ s.i ≤ b ∧ s.i ≤ s.right + 1 := by
  obtain ⟨p1, p2, _, _⟩ := nbBinLoop_post r2 t b (fun i r => a ≤ r ∧ r ≤ i ∧ i ≤ b)
    (fun i r => (b - r) * (b - r) + (i - r)) (fun i r hinv hfar => nbBin_step_ge a b i r hinv hfar)
    _ b a s ⟨Nat.le_refl _, h, Nat.le_refl _⟩ hs
  rw [nbFar_false_iff] at p2
  exact ⟨p1.1, p1.2.1, p1.2.2, p2.1⟩

/-- `b ≥ a + 2`: the very first thing the loop does is to evaluate the oracle at `i = b > a`, i.e. on the EMPTY slice
`x[b:a+1]` (the real `linear_fit` raises `IndexError` there) -/
theorem nbBinary_gt_first_eval (r2 : Nat → α) (t : α) (a b : Nat) (h : a + 2 ≤ b) (s : NbBin)
    (hs : nbBinary r2 t a b = some s) : s.trace.head? = some b := by
  have hf : nbFar b a = true := by rw [nbFar_iff]; omega
  unfold nbBinary nbBinFuel at hs
  simp only at hs
  rw [nbBinLoop_succ, hf] at hs
  simp only [if_true, Option.map_eq_some_iff] at hs
  obtain ⟨s', _, rfl⟩ := hs
  rfl

/-! ## 2. `get_neighbourhood` -/

theorem nbLinear_negIndex_iff (r2 : Nat → α) (one t : α) (a b : Nat) :
    nbLinear r2 one t a b = .negIndex ↔ a = 0 := by
  cases a with
  | zero => simp [nbLinear]
  | succ a' =>
    simp only [nbLinear]
    split
    · simp
    · split <;> simp

/-- everything about one call with `a = a' + 1 ≥ 1`: either `t < 1.0` fails and `previous_res` is unbound (nothing was evaluated),
or the call returns `(k, v)` with the listed properties -/
theorem nbLinear_master (r2 : Nat → α) (one t : α) (a' b : Nat) :
    (¬ t < one ∧ nbLinear r2 one t (a' + 1) b = .unbound []) ∨
    (t < one ∧ ∃ k v tr, nbLinear r2 one t (a' + 1) b = .found k v tr ∧
      v = nbR r2 one (a' + 1) k ∧ t < v ∧ k ≤ a' ∧ (b ≤ a' → b ≤ k) ∧ (a' ≤ b → k = a') ∧
      (∀ j, k ≤ j → j ≤ a' → t < nbR r2 one (a' + 1) j) ∧
      (b < k → ¬ t < nbR r2 one (a' + 1) (k - 1)) ∧
      tr = (List.range tr.length).map (fun n => a' - 1 - n) ∧
      a' - k ≤ tr.length ∧ tr.length ≤ a' + 1 - k ∧ tr.length ≤ a' - b) := by
  obtain ⟨p1, p2, p3, p4, p5, p6, p7, p8⟩ := nbWalk_spec r2 t b a' one none
  have hR : ∀ j, nbR r2 one (a' + 1) j = if j = a' then one else r2 j := by
    intro j
    unfold nbR
    by_cases hj : j = a'
    · simp [hj]
    · rw [if_neg hj, if_neg (by omega)]
  have hdef : nbLinear r2 one t (a' + 1) b =
      if t < (nbWalk r2 t b a' one none).cur then
        .found (nbWalk r2 t b a' one none).i (nbWalk r2 t b a' one none).cur (nbWalk r2 t b a' one none).trace
      else match (nbWalk r2 t b a' one none).prev with
        | some (i, v) => .found i v (nbWalk r2 t b a' one none).trace
        | none => .unbound (nbWalk r2 t b a' one none).trace := rfl
  rw [hdef]
  generalize nbWalk r2 t b a' one none = s at *
  have hlen : s.trace.length = a' - s.i := by rw [p4]; simp
  have htr : s.trace = (List.range s.trace.length).map (fun n => a' - 1 - n) := by rw [hlen]; exact p4
  by_cases hcur : t < s.cur
  · -- stopped by the limit `i ≤ b` with a good value in hand
    right
    have hib : s.i ≤ b := by
      rcases p7 with h | h
      · exact absurd hcur h
      · exact h
    have hone : t < one := by
      by_cases hi : s.i = a'
      · rw [p5, if_pos hi] at hcur; exact hcur
      · have := p6 a' (by omega) (Nat.le_refl _)
        rwa [if_pos rfl] at this
    refine ⟨hone, s.i, s.cur, s.trace, by rw [if_pos hcur], ?_, hcur, p1, p2, p3, ?_, ?_, htr, by omega, by omega, ?_⟩
    · rw [hR, p5]
    · intro j h1 h2
      rw [hR]
      by_cases hj : j = s.i
      · rw [hj, ← p5]; exact hcur
      · exact p6 j (by omega) h2
    · intro h; omega
    · rw [hlen]
      rcases Nat.le_total b a' with hb | hb
      · have := p2 hb; omega
      · have := p3 hb; omega
  · by_cases hi : s.i = a'
    · -- loop never ran: `previous_res` unbound
      left
      have hone : ¬ t < one := by
        rw [p5, if_pos hi] at hcur; exact hcur
      refine ⟨hone, ?_⟩
      rw [if_neg hcur, p8, if_pos hi]
      have : s.trace = [] := by rw [p4, hi]; simp
      rw [this]
    · -- the loop ran and stopped on a bad value at `s.i`: return `previous_res`
      right
      have hlt : s.i < a' := by omega
      have hone : t < one := by
        have := p6 a' hlt (Nat.le_refl _)
        rwa [if_pos rfl] at this
      have hbi : b ≤ s.i := by
        rcases Nat.le_total b a' with hb | hb
        · exact p2 hb
        · exact absurd (p3 hb) hi
      refine ⟨hone, s.i + 1, (if s.i + 1 = a' then one else r2 (s.i + 1)), s.trace, ?_, ?_, ?_, by omega,
        fun _ => by omega, fun h => by omega, ?_, ?_, htr, by omega, by omega, by omega⟩
      · rw [if_neg hcur, p8, if_neg hi]
      · rw [hR]
      · exact p6 (s.i + 1) (by omega) (by omega)
      · intro j h1 h2
        rw [hR]
        exact p6 j (by omega) h2
      · intro _
        rw [hR, Nat.add_sub_cancel, if_neg hi]
        rw [p5, if_neg hi] at hcur
        exact hcur

/-- WHEN `UnboundLocalError`: exactly when `1.0 > t` is false (`t ≥ 1`, or `t` is NaN), whatever `a ≥ 1`, `b` and the data;
nothing has been evaluated then -/
theorem nbLinear_unbound_iff (r2 : Nat → α) (one t : α) (a b : Nat) (ha : 1 ≤ a) :
    (∃ tr, nbLinear r2 one t a b = .unbound tr) ↔ ¬ t < one := by
  obtain ⟨a', rfl⟩ : ∃ a', a = a' + 1 := ⟨a - 1, by omega⟩
  rcases nbLinear_master r2 one t a' b with ⟨h1, h2⟩ | ⟨h1, k, v, tr, h2, _⟩
  · exact ⟨fun _ => h1, fun _ => ⟨[], h2⟩⟩
  · constructor
    · rintro ⟨tr', h⟩; rw [h2] at h; cases h
    · intro h; exact absurd h1 h

theorem nbLinear_unbound_trace (r2 : Nat → α) (one t : α) (a b : Nat) (tr : List Nat)
    (h : nbLinear r2 one t a b = .unbound tr) : tr = [] := by
  cases a with
  | zero => simp [nbLinear] at h
  | succ a' =>
    rcases nbLinear_master r2 one t a' b with ⟨_, h2⟩ | ⟨_, k, v, tr', h2, _⟩
    · rw [h2] at h; cases h; rfl
    · rw [h2] at h; cases h

/-- a result exists iff `a ≥ 1` and `t < 1.0` -/
theorem nbLinear_found_iff (r2 : Nat → α) (one t : α) (a b : Nat) :
    (∃ k v tr, nbLinear r2 one t a b = .found k v tr) ↔ 1 ≤ a ∧ t < one := by
  cases a with
  | zero => simp [nbLinear]
  | succ a' =>
    rcases nbLinear_master r2 one t a' b with ⟨h1, h2⟩ | ⟨h1, k, v, tr, h2, _⟩
    · constructor
      · rintro ⟨k, v, tr, h⟩; rw [h2] at h; cases h
      · intro h; exact absurd h.2 h1
    · exact ⟨fun _ => ⟨by omega, h1⟩, fun _ => ⟨k, v, tr, h2⟩⟩

/-- RESULT RANGE: the returned index lies in `[b, a-1]` when `b ≤ a-1`, and is `a-1` when `a-1 ≤ b` (then nothing is evaluated) -/
theorem nbLinear_index_range (r2 : Nat → α) (one t : α) (a b k : Nat) (v : α) (tr : List Nat)
    (h : nbLinear r2 one t a b = .found k v tr) :
    k + 1 ≤ a ∧ (b + 1 ≤ a → b ≤ k) ∧ (a ≤ b + 1 → k + 1 = a ∧ tr = []) := by
  cases a with
  | zero => simp [nbLinear] at h
  | succ a' =>
    rcases nbLinear_master r2 one t a' b with ⟨_, h2⟩ | ⟨_, k', v', tr', h2, _, _, q3, q4, q5, _, _, _, _, _, q11⟩
    · rw [h2] at h; cases h
    · rw [h2] at h; cases h
      refine ⟨by omega, fun hb => q4 (by omega), fun hb => ⟨by have := q5 (by omega); omega, ?_⟩⟩
      have : tr.length = 0 := by omega
      exact List.eq_nil_of_length_eq_zero this

/-- ITERATIONS: the loop body runs at most `a-1-b` times, on the contiguous indices `a-2, a-3, …` (all in `[b, a-2]`) -/
theorem nbLinear_iterations (r2 : Nat → α) (one t : α) (a b k : Nat) (v : α) (tr : List Nat)
    (h : nbLinear r2 one t a b = .found k v tr) :
    tr.length ≤ a - 1 - b ∧ tr = (List.range tr.length).map (fun n => a - 2 - n) ∧
      a - 1 - k ≤ tr.length ∧ tr.length ≤ a - k ∧ ∀ j ∈ tr, b ≤ j ∧ j + 2 ≤ a := by
  cases a with
  | zero => simp [nbLinear] at h
  | succ a' =>
    rcases nbLinear_master r2 one t a' b with ⟨_, h2⟩ | ⟨_, k', v', tr', h2, _, _, _, _, _, _, _, q8, q9, q10, q11⟩
    · rw [h2] at h; cases h
    · rw [h2] at h; cases h
      refine ⟨by omega, q8, by omega, by omega, ?_⟩
      intro j hj
      rw [q8, List.mem_map] at hj
      obtain ⟨n, hn, rfl⟩ := hj
      rw [List.mem_range] at hn
      omega

/-- CHARACTERISATION ("the longest run of r2 > t walking left from a-1"): with `R j` the value the code has in hand at `j`
(`1.0` at `j = a-1`, the oracle below), the result `(k, v)` satisfies `v = R k > t`, every `j ∈ [k, a-1]` has `R j > t`,
and `k` is the left limit `b` or `R (k-1) > t` fails. -/
theorem nbLinear_run (r2 : Nat → α) (one t : α) (a b k : Nat) (v : α) (tr : List Nat)
    (h : nbLinear r2 one t a b = .found k v tr) :
    v = nbR r2 one a k ∧ t < v ∧ (∀ j, k ≤ j → j + 1 ≤ a → t < nbR r2 one a j) ∧
      (b < k → ¬ t < nbR r2 one a (k - 1)) := by
  cases a with
  | zero => simp [nbLinear] at h
  | succ a' =>
    rcases nbLinear_master r2 one t a' b with ⟨_, h2⟩ | ⟨_, k', v', tr', h2, q1, q2, _, _, _, q6, q7, _⟩
    · rw [h2] at h; cases h
    · rw [h2] at h; cases h
      exact ⟨q1, q2, fun j h1 h2 => q6 j h1 (by omega), q7⟩

/-- … and `k` is the SMALLEST index `i ≥ b` such that every `j ∈ [i, a-1]` has `R j > t` -/
theorem nbLinear_least (r2 : Nat → α) (one t : α) (a b k : Nat) (v : α) (tr : List Nat)
    (h : nbLinear r2 one t a b = .found k v tr) (i : Nat) (hb : b ≤ i)
    (hrun : ∀ j, i ≤ j → j + 1 ≤ a → t < nbR r2 one a j) : k ≤ i := by
  obtain ⟨_, _, _, q4⟩ := nbLinear_run r2 one t a b k v tr h
  have hk := (nbLinear_index_range r2 one t a b k v tr h).1
  by_contra hlt
  exact q4 (by omega) (hrun (k - 1) (by omega) (by omega))

/-! ## 3. `get_neighbourhood_fast` -/

theorem nbFast_terminates (r2 : Nat → α) (t : α) (a b : Nat) : ∃ f, nbFast r2 t a b = some f := by
  obtain ⟨s, hs⟩ := nbBinary_terminates r2 t a b
  unfold nbFast
  rw [hs]
  exact ⟨_, rfl⟩

/-- for `b ≤ a`: the returned index lies in `[binary result, a]` (hence in `[b, a]`), the returned r2 is the oracle at that index and
`r2 < t` FAILS there unless the index is `a`; every index skipped by the linear phase has `r2 < t`; the linear phase evaluates the
contiguous indices `binary result … returned index` -/
theorem nbFast_spec (r2 : Nat → α) (t : α) (a b : Nat) (h : b ≤ a) (s : NbBin) (f : NbFast α)
    (hs : nbBinary r2 t a b = some s) (hf : nbFast r2 t a b = some f) :
    s.i ≤ f.i ∧ f.i ≤ a ∧ b ≤ f.i ∧ f.r2 = r2 f.i ∧ (¬ f.r2 < t ∨ f.i = a) ∧
      (∀ j, s.i ≤ j → j < f.i → r2 j < t) ∧
      f.binTrace = s.trace ∧ f.trace = List.range' s.i (f.i - s.i + 1) := by
  obtain ⟨hb1, hb2⟩ := nbBinary_result_range r2 t a b h s hs
  simp only [nbFast, hs, Option.map_some, Option.some.injEq] at hf
  subst hf
  obtain ⟨p1, p2, p3, p4, p5⟩ := nbUp_spec r2 t (a - s.i) s.i
  refine ⟨p1, ?_, ?_, rfl, ?_, p4, rfl, p3⟩
  · show (nbUp r2 t (a - s.i) s.i).1 ≤ a; omega
  · show b ≤ (nbUp r2 t (a - s.i) s.i).1; omega
  rcases p5 with h5 | h5
  · exact Or.inl h5
  · right; show (nbUp r2 t (a - s.i) s.i).1 = a; omega

/-- total number of oracle evaluations of the linear phase: at most `a - b + 1` -/
theorem nbFast_linear_evaluations (r2 : Nat → α) (t : α) (a b : Nat) (h : b ≤ a) (f : NbFast α)
    (hf : nbFast r2 t a b = some f) : f.trace.length ≤ a - b + 1 := by
  obtain ⟨s, hs⟩ := nbBinary_terminates r2 t a b
  obtain ⟨q1, q2, _, _, _, _, _, q8⟩ := nbFast_spec r2 t a b h s f hs hf
  have := (nbBinary_result_range r2 t a b h s hs).1
  rw [q8, List.length_range']
  omega

/-- `b > a`: the linear phase does not move (`i < a` is false at once) and its single evaluation is at the binary result `≥ a`;
for `b ≥ a+1` that index is `> a`: an EMPTY slice in the real code (`IndexError`), although `get_neighbourhood_binary(a, a+1)` returns -/
theorem nbFast_gt (r2 : Nat → α) (t : α) (a b : Nat) (h : a < b) (s : NbBin) (f : NbFast α)
    (hs : nbBinary r2 t a b = some s) (hf : nbFast r2 t a b = some f) :
    f.i = s.i ∧ a < f.i ∧ f.trace = [s.i] := by
  obtain ⟨q1, q2, q3, q4⟩ := nbBinary_invariant_gt r2 t a b (by omega) s hs
  have hgt : a < s.i := by
    have := nbBinLoop_post r2 t b (fun i r => (a ≤ r ∧ r ≤ i ∧ i ≤ b) ∧ a < i)
      (fun i r => (b - r) * (b - r) + (i - r))
      (fun i r hinv hfar => by
        have hfar' := (nbFar_iff i r).1 hfar
        have hstep := nbBin_step_ge a b i r hinv.1 hfar
        exact ⟨⟨⟨hstep.1.1, by omega⟩, hstep.1.2⟩, ⟨⟨hstep.2.1, by omega⟩, hstep.2.2⟩⟩)
      _ b a s ⟨⟨Nat.le_refl _, by omega, Nat.le_refl _⟩, h⟩ hs
    exact this.1.2
  simp only [nbFast, hs, Option.map_some, Option.some.injEq] at hf
  subst hf
  have e : a - s.i = 0 := by omega
  show (nbUp r2 t (a - s.i) s.i).1 = s.i ∧ a < (nbUp r2 t (a - s.i) s.i).1 ∧ (nbUp r2 t (a - s.i) s.i).2 = [s.i]
  rw [e]
  exact ⟨rfl, hgt, rfl⟩

/-! ## 4. `slope_ranking` -/

/-- a single knee: `[1.0]`, nothing is evaluated (whatever the knee, `t` and the data) -/
theorem slopeRanking_single (r2 : Nat → Nat → α) (one t : α) (aslope : Nat → Nat → Rat) (k : Nat) :
    slopeRanking r2 one t aslope [k] = .ok [1] := rfl

/-- no knee: `knees[0]` raises -/
theorem slopeRanking_empty (r2 : Nat → Nat → α) (one t : α) (aslope : Nat → Nat → Rat) :
    slopeRanking r2 one t aslope [] = .error .emptyKnees := rfl

theorem slopeRanking_two (r2 : Nat → Nat → α) (one t : α) (aslope : Nat → Nat → Rat) (knees : List Nat)
    (hm : 2 ≤ knees.length) :
    slopeRanking r2 one t aslope knees =
      (nbIdxSeq 0 (slopeCalls r2 one t knees)).map fun idx =>
        if (rankOf (List.zipWith (fun ab k => aslope ab.1 k) (nbArgs knees) idx)).length > 1 then
          normRanks (rankOf (List.zipWith (fun ab k => aslope ab.1 k) (nbArgs knees) idx))
        else [1] := by
  match knees, hm with
  | _ :: _ :: _, _ => rfl

/-- THE PRECONDITIONS THE CODE SILENTLY NEEDS: with at least two knees, `slope_ranking` returns iff `t < 1.0` and every knee is `≥ 1`
(a knee at index 0 makes `get_neighbourhood` slice `x[-1:1]`; `t ≥ 1` leaves `previous_res` unbound).  No order on the knees is
needed for the call to return. -/
theorem slopeRanking_ok_iff (r2 : Nat → Nat → α) (one t : α) (aslope : Nat → Nat → Rat) (knees : List Nat)
    (hm : 2 ≤ knees.length) :
    (∃ l, slopeRanking r2 one t aslope knees = .ok l) ↔ t < one ∧ ∀ k ∈ knees, 1 ≤ k := by
  rw [slopeRanking_two r2 one t aslope knees hm]
  have hne : ∃ k0, k0 ∈ knees := by
    cases knees with
    | nil => simp at hm
    | cons k ks => exact ⟨k, List.mem_cons_self⟩
  have key : (∃ l, nbIdxSeq 0 (slopeCalls r2 one t knees) = .ok l) ↔ t < one ∧ ∀ k ∈ knees, 1 ≤ k := by
    rw [nbIdxSeq_exists_iff]
    constructor
    · intro h
      have h' : ∀ ab ∈ nbArgs knees, 1 ≤ ab.1 ∧ t < one := by
        intro ab hab
        exact (nbLinear_found_iff (r2 ab.1) one t ab.1 ab.2).1
          (h _ (List.mem_map.2 ⟨ab, hab, rfl⟩))
      have hk : ∀ k ∈ knees, ∃ ab ∈ nbArgs knees, ab.1 = k := by
        intro k hk
        rw [← nbArgs_fst knees, List.mem_map] at hk
        exact hk
      obtain ⟨k0, hk0⟩ := hne
      obtain ⟨ab0, hab0, _⟩ := hk k0 hk0
      refine ⟨(h' ab0 hab0).2, fun k hk' => ?_⟩
      obtain ⟨ab, hab, rfl⟩ := hk k hk'
      exact (h' ab hab).1
    · rintro ⟨h1, h2⟩ c hc
      obtain ⟨ab, hab, rfl⟩ := List.mem_map.1 hc
      have : ab.1 ∈ knees := by
        rw [← nbArgs_fst knees]; exact List.mem_map_of_mem hab
      exact (nbLinear_found_iff (r2 ab.1) one t ab.1 ab.2).2 ⟨h2 _ this, h1⟩
  rw [← key]
  constructor
  · rintro ⟨l, hl⟩
    cases hseq : nbIdxSeq 0 (slopeCalls r2 one t knees) with
    | error e => rw [hseq] at hl; cases hl
    | ok idx => exact ⟨idx, rfl⟩
  · rintro ⟨idx, hidx⟩
    rw [hidx]
    exact ⟨_, rfl⟩

/-- SHAPE OF THE OUTPUT (two or more knees): with `idx` the indices returned by the successive `get_neighbourhood` calls and `vals`
the `|slope|` oracle at those indices, the output is `rank(vals) / (m-1)` entry by entry, one value per knee, and `rank(vals)` is a
permutation of `0..m-1` (so the output is a permutation of `0, 1/(m-1), …, 1`).  The `else [1.0]` branch after the ranking is dead code. -/
theorem slopeRanking_values (r2 : Nat → Nat → α) (one t : α) (aslope : Nat → Nat → Rat) (knees : List Nat)
    (hm : 2 ≤ knees.length) (l : List Rat) (h : slopeRanking r2 one t aslope knees = .ok l) :
    ∃ idx : List Nat, nbIdxSeq 0 (slopeCalls r2 one t knees) = .ok idx ∧ idx.length = knees.length ∧
      let vals := List.zipWith (fun ab k => aslope ab.1 k) (nbArgs knees) idx
      vals.length = knees.length ∧
      (rankOf vals).Perm (List.range knees.length) ∧
      l = (rankOf vals).map (fun (k : Nat) => ((k : Int) : Rat) / (((knees.length - 1 : Nat) : Int) : Rat)) ∧
      l.length = knees.length := by
  rw [slopeRanking_two r2 one t aslope knees hm] at h
  cases hseq : nbIdxSeq 0 (slopeCalls r2 one t knees) with
  | error e => rw [hseq] at h; cases h
  | ok idx =>
    rw [hseq] at h
    have hlen : idx.length = knees.length := by
      rw [nbIdxSeq_ok_length _ _ _ hseq]; simp [slopeCalls, nbArgs_length]
    have hvals : (List.zipWith (fun ab k => aslope ab.1 k) (nbArgs knees) idx).length = knees.length := by
      simp [nbArgs_length, hlen]
    refine ⟨idx, rfl, hlen, hvals, ?_, ?_, ?_⟩
    · have := rankOf_perm_range (List.zipWith (fun ab k => aslope ab.1 k) (nbArgs knees) idx)
      rwa [hvals] at this
    · simp only [Except.map] at h
      have hgt : (rankOf (List.zipWith (fun ab k => aslope ab.1 k) (nbArgs knees) idx)).length > 1 := by
        rw [rankOf_length', hvals]; omega
      rw [if_pos hgt] at h
      cases h
      have hp := rankOf_perm_range (List.zipWith (fun ab k => aslope ab.1 k) (nbArgs knees) idx)
      rw [hvals] at hp
      exact normRanks_of_perm _ _ hp (by omega)
    · simp only [Except.map] at h
      have hgt : (rankOf (List.zipWith (fun ab k => aslope ab.1 k) (nbArgs knees) idx)).length > 1 := by
        rw [rankOf_length', hvals]; omega
      rw [if_pos hgt] at h
      cases h
      simp [normRanks, rankOf_length', hvals]

/-- one rank per knee, in every case -/
theorem slopeRanking_length (r2 : Nat → Nat → α) (one t : α) (aslope : Nat → Nat → Rat) (knees : List Nat)
    (l : List Rat) (h : slopeRanking r2 one t aslope knees = .ok l) : l.length = knees.length := by
  match knees, h with
  | [], h => cases h
  | [_], h => cases h; rfl
  | k1 :: k2 :: ks, h =>
    obtain ⟨_, _, _, _, _, _, hl⟩ := slopeRanking_values r2 one t aslope (k1 :: k2 :: ks) (by simp) l h
    exact hl

/-- TIES (`argsort` order of equal `|slope|` is unspecified): whatever rank vector `r` NumPy produces with `IsRankOf vals r`, the
min-max normalisation still yields `r / (m-1)`, a permutation of `0, 1/(m-1), …, 1` -/
theorem normRanks_of_isRankOf (vals : List Rat) (r : List Nat) (h : IsRankOf vals r) (hm : 1 ≤ vals.length) :
    r.Perm (List.range vals.length) ∧
      normRanks r = r.map fun (k : Nat) => ((k : Int) : Rat) / (((vals.length - 1 : Nat) : Int) : Rat) :=
  ⟨isRankOf_perm vals r h, normRanks_of_perm r vals.length (isRankOf_perm vals r h) hm⟩

/-- the model's stable rank is one of the admissible rank vectors … -/
theorem rankOf_admissible (vals : List Rat) : IsRankOf vals (rankOf vals) := rankOf_isRankOf vals

/-- … and the ONLY one when no two values are equal (then the real output must equal the model's exactly) -/
theorem isRankOf_unique (vals : List Rat) (r : List Nat) (h : IsRankOf vals r)
    (hd : ∀ i j, i < vals.length → j < vals.length → i ≠ j → vals[i]?.getD 0 ≠ vals[j]?.getD 0) : r = rankOf vals :=
  isRankOf_eq_rankOf vals r h hd

/-- the driver's executable judge of real outputs decides exactly `IsRankOf` -/
theorem isRankOfB_correct (vals : List Rat) (r : List Nat) : isRankOfB vals r = true ↔ IsRankOf vals r :=
  isRankOfB_iff vals r

/-- INDEX ARGUMENTS STAY IN RANGE: for strictly increasing knees `≥ 1` and `t < 1.0`, call number `p` is
`get_neighbourhood(x, y, knees[p], knees[p-1], t)` (`0` for `p = 0`) with `b < a`; it returns an index in `[b, a-1]` and evaluates
the oracle only at indices in `[b, a-2]`: nothing outside `[0, last knee]` is ever touched. -/
theorem slopeRanking_calls_in_range (r2 : Nat → Nat → α) (one t : α) (knees : List Nat)
    (hs : knees.Pairwise (· < ·)) (h1 : ∀ k ∈ knees, 1 ≤ k) (ht : t < one) :
    ∀ ab ∈ nbArgs knees, ab.1 ∈ knees ∧ ab.2 < ab.1 ∧
      ∃ k v tr, nbLinear (r2 ab.1) one t ab.1 ab.2 = .found k v tr ∧ ab.2 ≤ k ∧ k < ab.1 ∧
        ∀ j ∈ tr, ab.2 ≤ j ∧ j + 2 ≤ ab.1 := by
  intro ab hab
  have hmem : ab.1 ∈ knees := by
    rw [← nbArgs_fst knees]; exact List.mem_map_of_mem hab
  have hlt : ab.2 < ab.1 := zip_prev_lt knees 0 (fun k hk => h1 k hk) hs ab hab
  obtain ⟨k, v, tr, hf⟩ := (nbLinear_found_iff (r2 ab.1) one t ab.1 ab.2).2 ⟨h1 _ hmem, ht⟩
  obtain ⟨q1, q2, _⟩ := nbLinear_index_range (r2 ab.1) one t ab.1 ab.2 k v tr hf
  obtain ⟨_, _, _, _, q5⟩ := nbLinear_iterations (r2 ab.1) one t ab.1 ab.2 k v tr hf
  exact ⟨hmem, hlt, k, v, tr, hf, q2 (by omega), by omega, q5⟩

/-- which exception comes first: `t < 1.0` false and a first knee `≥ 1` → the first call raises `UnboundLocalError`;
a first knee `0` → the first call slices `x[-1:1]` -/
theorem slopeRanking_first_error (r2 : Nat → Nat → α) (one t : α) (aslope : Nat → Nat → Rat) (k1 k2 : Nat) (ks : List Nat) :
    (k1 = 0 → slopeRanking r2 one t aslope (k1 :: k2 :: ks) = .error (.negIndex 0)) ∧
    (1 ≤ k1 → ¬ t < one → slopeRanking r2 one t aslope (k1 :: k2 :: ks) = .error (.unbound 0)) := by
  constructor
  · rintro rfl
    rfl
  · intro hk ht
    obtain ⟨tr, htr⟩ := (nbLinear_unbound_iff (r2 k1) one t k1 0 hk).2 ht
    show Except.map _ (nbIdxSeq 0 (nbLinear (r2 k1) one t k1 0 :: _)) = _
    rw [htr]
    rfl

/-! ## 5. the index skeleton of `accuracy_knee` -/

/-- `accuracy_knee` calls `get_neighbourhood_fast(x, y, knees[p], previous knee)` (default threshold!) for `p = 0, 1, …`; for
non-decreasing knees every call terminates with `b ≤ a`, returns an index in `[previous knee, knee]` and its r2 is not below the
threshold unless the index is the knee itself -/
theorem accuracyKnee_calls_in_range (r2 : Nat → Nat → α) (tf : α) (knees : List Nat) (hs : knees.Pairwise (· ≤ ·)) :
    (accuracyKneeCalls r2 tf knees).length = knees.length ∧
    ∀ ab ∈ nbArgs knees, ab.2 ≤ ab.1 ∧
      ∃ f, nbFast (r2 ab.1) tf ab.1 ab.2 = some f ∧ ab.2 ≤ f.i ∧ f.i ≤ ab.1 ∧ (¬ f.r2 < tf ∨ f.i = ab.1) := by
  refine ⟨by simp [accuracyKneeCalls, nbArgs_length], ?_⟩
  intro ab hab
  have hle : ab.2 ≤ ab.1 := zip_prev_le knees 0 (fun _ _ => Nat.zero_le _) hs ab hab
  obtain ⟨f, hf⟩ := nbFast_terminates (r2 ab.1) tf ab.1 ab.2
  obtain ⟨s, hs'⟩ := nbBinary_terminates (r2 ab.1) tf ab.1 ab.2
  obtain ⟨_, q2, q3, _, q5, _⟩ := nbFast_spec (r2 ab.1) tf ab.1 ab.2 hle s f hs' hf
  exact ⟨hle, f, hf, q3, q2, q5⟩

end

/-! ## Non-vacuity: the models evaluated on concrete oracles

`α = Nat` (r2 in percent), oracle given by a table; `one = 100`. -/

private def tab (l : List Nat) : Nat → Nat := fun i => l[i]?.getD 0

/-- binary search, `a = 9`, `b = 0`, threshold 65: five evaluations, returns 5 with `right = 6` (`r2 6 = 70 ≥ 65`) -/
example : nbBinary (tab [10, 20, 30, 40, 50, 60, 70, 80, 90, 95]) 65 9 0 = some ⟨5, 6, [0, 4, 6, 3, 4]⟩ := by
  decide +kernel
/-- a non-monotone oracle (`r2 i < t` at `i ∈ {0, 2, 3, 4, 6}` only): 10 iterations for `a - b = 12`, indices 6 and 3 are fitted twice -/
example : nbBinary (tab [0, 1, 0, 0, 0, 1, 0, 1, 1, 1, 1, 1, 1]) 1 12 0 = some ⟨4, 5, [0, 6, 9, 4, 6, 7, 3, 5, 2, 3]⟩ := by
  decide +kernel
/-- `b = a + 1`: returns `a + 1`, outside `[b, a]`, without evaluating anything -/
example : nbBinary (tab []) 1 5 6 = some ⟨6, 5, []⟩ := by decide +kernel
/-- `b = a + 9`: terminates in the model, but the first evaluation is at index 14 > a (an empty slice in the real code) -/
example : nbBinary (tab [0, 1, 0, 0, 0, 1, 0, 1, 1, 1, 1, 1, 1]) 1 5 14 = some ⟨12, 11, [14, 9, 11]⟩ := by decide +kernel
/-- fast search: binary phase returns 5 (`r2 = 60 < 65`), one linear step to 6 (`r2 = 70`) -/
example : nbFast (tab [10, 20, 30, 40, 50, 60, 70, 80, 90, 5]) 65 9 0 = some ⟨6, 70, [0, 4, 6, 3, 4], [5, 6]⟩ := by
  decide +kernel
/-- fast search ending at `a` with `r2 a = 5 < t` (the one-point slice: `1 - y[a]²`): the "or the index is `a`" case -/
example : nbFast (tab [10, 20, 30, 40, 50, 60, 70, 80, 60, 5]) 85 9 0 = some ⟨9, 5, [0, 4, 6, 7], [8, 9]⟩ := by
  decide +kernel
/-- linear search from `a - 1 = 8` down: 94, 93, 91, 92 are `> 90`, 40 is not: returns 4 -/
example : nbLinear (tab [10, 20, 95, 40, 92, 91, 93, 94, 0, 0]) 100 90 9 0 = .found 4 92 [7, 6, 5, 4, 3] := by
  decide +kernel
/-- stopped by the left limit `b = 5` with a good value in hand -/
example : nbLinear (tab [10, 20, 95, 40, 92, 91, 93, 94, 0, 0]) 100 90 9 5 = .found 5 91 [7, 6, 5] := by decide +kernel
/-- `b ≥ a - 1`: returns `a - 1` with the constant `1.0`, the oracle (0 at index 8!) is never consulted -/
example : nbLinear (tab [10, 20, 95, 40, 92, 91, 93, 94, 0, 0]) 100 90 9 8 = .found 8 100 [] := by decide +kernel
example : nbLinear (tab [10, 20, 95, 40, 92, 91, 93, 94, 0, 0]) 100 90 9 12 = .found 8 100 [] := by decide +kernel
/-- `t = 1.0`: `UnboundLocalError` -/
example : nbLinear (tab [10, 20, 95, 40, 92, 91, 93, 94, 0, 0]) 100 100 9 5 = .unbound [] := by decide +kernel
example : nbLinear (tab []) 100 90 0 0 = .negIndex := by decide +kernel
/-- NaN values (`ExtQ`): a NaN r2 stops the walk like a bad value; a NaN threshold leaves `previous_res` unbound -/
example : nbLinear (fun i => if i = 5 then ExtQ.nan else .fin 1) (.fin 1) (.fin (9 / 10)) 9 0 = .found 6 (.fin 1) [7, 6, 5] := by
  decide +kernel
example : nbLinear (fun _ => ExtQ.fin 1) (.fin 1) .nan 9 0 = .unbound [] := by decide +kernel
/-- NaN r2 in the binary search takes the `else` branch (`r2 < t` is false) -/
example : nbBinary (fun _ => ExtQ.nan) (.fin (9 / 10)) 9 0 = some ⟨0, 0, [0]⟩ := by decide +kernel

private def r2tab : Nat → Nat → Nat := fun a i =>
  (([[], [], [], [50, 95, 100], [], [], [0, 0, 0, 80, 95, 100], [], [0, 0, 0, 0, 0, 0, 95, 100]] : List (List Nat))[a]?.getD []).getD i 0
private def sltab : Nat → Nat → Rat := fun a i =>
  (([[], [], [], [5, 7, 9], [], [], [0, 0, 0, 3, 2, 1], [], [0, 0, 0, 0, 0, 0, 4, 6]] : List (List Rat))[a]?.getD []).getD i 0

/-- three knees 3 < 6 < 8: neighbourhood indices 1, 4, 6, `|slope|` there 7, 2, 4, ranks 2, 0, 1, output 1, 0, 1/2 -/
example : slopeRanking r2tab 100 90 sltab [3, 6, 8] = .ok [1, 0, 1 / 2] := by decide +kernel
example : slopeRanking r2tab 100 100 sltab [3, 6, 8] = .error (.unbound 0) := by decide +kernel
example : slopeRanking r2tab 100 90 sltab [3, 0, 8] = .error (.negIndex 1) := by decide +kernel
/-- hypotheses of `slopeRanking_calls_in_range` are satisfiable -/
example : ([3, 6, 8] : List Nat).Pairwise (· < ·) ∧ (∀ k ∈ ([3, 6, 8] : List Nat), 1 ≤ k) ∧ (90 : Nat) < 100 := by decide
/-- ties: both `[0, 1, 2]` and `[1, 0, 2]` are admissible ranks of `[5, 5, 7]`; the model picks the stable one -/
example : isRankOfB [5, 5, 7] [0, 1, 2] = true ∧ isRankOfB [5, 5, 7] [1, 0, 2] = true ∧ isRankOfB [5, 5, 7] [0, 2, 1] = false ∧
    rankOf [5, 5, 7] = [0, 1, 2] := by decide +kernel
example : normRanks [2, 0, 1] = [1, 0, 1 / 2] := by decide +kernel
/-- the three `get_neighbourhood_fast` calls of `accuracy_knee` for knees 3 ≤ 6 ≤ 8 return the indices 1, 4, 6 -/
example : (accuracyKneeCalls r2tab 90 [3, 6, 8]).map (fun c => c.map (·.i)) = [some 1, some 4, some 6] := by decide +kernel
example : ([3, 6, 8] : List Nat).Pairwise (· ≤ ·) := by decide

end Knee

import Knee.Lemmas.Matching
/-!
# C19M — matching-error scores (`mae`, `mse`, `rmse`, `rmspe`) of `evaluation.py`

Model: `Knee.nearest` (first nearest neighbour by squared Euclidean distance), `Knee.strategySide`
(which side is iterated, which is searched), `Knee.maeSides` / `Knee.mseSides` /
`Knee.rmspeSqSides` (mean per-coordinate error of matching every point of the iterated side `a`
to its nearest neighbour in the searched side `b`; divisor `2·|a|`), and the strategy-level scores
`Knee.maeQ`, `Knee.mseQ2`, `Knee.rmspeSqQ` (`rmse = sqrt(mseQ2)`, `rmspe = sqrt(rmspeSqQ)`; the
square roots are monotone and vanish only at 0, so sign and vanishing carry over).
Exact rational arithmetic; no oracle, no tolerance.
-/
namespace Knee

/-! ### 1. the nearest neighbour -/

/-- **C19M (nearest is a member).** The nearest neighbour of `p` in a non-empty side `b` is a
point of `b`. -/
theorem nearest_mem {b : List P2} {p : P2} (hb : b ≠ []) : nearest b p ∈ b := by
  obtain ⟨i, hi, he, _⟩ := nearest_spec p hb
  rw [he]
  exact List.getElem_mem hi

/-- **C19M (nearest is closest).** No point of `b` is strictly closer to `p` than `nearest b p`
(squared Euclidean distance). -/
theorem nearest_closest {b : List P2} {p : P2} (hb : b ≠ []) :
    ∀ q ∈ b, normSq (sub (nearest b p) p) ≤ normSq (sub q p) := by
  intro q hq
  obtain ⟨i, hi, he, hmin⟩ := nearest_spec p hb
  obtain ⟨j, hj, rfl⟩ := List.getElem_of_mem hq
  rw [he]
  exact hmin j hj

/-- **C19M (a member is its own nearest neighbour).** If `p ∈ b`, the minimal squared distance
is 0, and squared distance 0 forces equal coordinates. -/
theorem nearest_self {b : List P2} {p : P2} (hp : p ∈ b) : nearest b p = p := by
  have hb : b ≠ [] := List.ne_nil_of_mem hp
  have h := nearest_closest (p := p) hb p hp
  rw [normSq_sub_self] at h
  exact eq_of_normSq_sub_eq_zero (le_antisymm h (normSq_nonneg _))

/-- converse of `nearest_self` for a non-empty searched side -/
theorem mem_of_nearest_eq {b : List P2} {p : P2} (hb : b ≠ []) (h : nearest b p = p) :
    p ∈ b := by
  have := nearest_mem (p := p) hb
  rwa [h] at this

/-! ### 2. non-negativity -/

/-- **C19M (MAE ≥ 0)** for every pair of sides (empty ones included: `x / 0 = 0`). -/
theorem maeSides_nonneg (a b : List P2) : 0 ≤ maeSides a b :=
  div_len_nonneg (sum_map_nonneg _ a fun p _ => match_mae_term_nonneg p (nearest b p)) _

/-- **C19M (MSE ≥ 0)** for every pair of sides. -/
theorem mseSides_nonneg (a b : List P2) : 0 ≤ mseSides a b :=
  div_len_nonneg (sum_map_nonneg _ a fun p _ => match_mse_term_nonneg p (nearest b p)) _

/-- **C19M (RMSPE² ≥ 0)** for every pair of sides. -/
theorem rmspeSqSides_nonneg (a b : List P2) : 0 ≤ rmspeSqSides a b :=
  div_len_nonneg (sum_map_nonneg _ a fun p _ => match_rmspe_term_nonneg p (nearest b p)) _

/-- **C19M (mae ≥ 0)** for every strategy, expected set and knee list. -/
theorem maeQ_nonneg (s : Strategy) (E K : List P2) : 0 ≤ maeQ s E K := maeSides_nonneg _ _

/-- **C19M (mse ≥ 0)** for every strategy, expected set and knee list. -/
theorem mseQ2_nonneg (s : Strategy) (E K : List P2) : 0 ≤ mseQ2 s E K := mseSides_nonneg _ _

/-- **C19M (rmspe² ≥ 0)** for every strategy, expected set and knee list. -/
theorem rmspeSqQ_nonneg (s : Strategy) (E K : List P2) : 0 ≤ rmspeSqQ s E K :=
  rmspeSqSides_nonneg _ _

/-! ### 3. vanishing on perfect detection -/

/-- **C19M (MAE = 0 on containment).** If every iterated point occurs in the searched side, the
mean absolute error is 0. -/
theorem maeSides_subset_zero {a b : List P2} (h : ∀ p ∈ a, p ∈ b) : maeSides a b = 0 := by
  unfold maeSides
  rw [sum_map_eq_zero, zero_div]
  intro p hp
  simp [nearest_self (h p hp), rabs]

/-- **C19M (MSE = 0 on containment).** -/
theorem mseSides_subset_zero {a b : List P2} (h : ∀ p ∈ a, p ∈ b) : mseSides a b = 0 := by
  unfold mseSides
  rw [sum_map_eq_zero, zero_div]
  intro p hp
  simp [nearest_self (h p hp)]

/-- **C19M (RMSPE² = 0 on containment).** -/
theorem rmspeSqSides_subset_zero {a b : List P2} (h : ∀ p ∈ a, p ∈ b) :
    rmspeSqSides a b = 0 := by
  unfold rmspeSqSides
  rw [sum_map_eq_zero, zero_div]
  intro p hp
  simp [nearest_self (h p hp)]

/-- both components of `strategySide s E E` are `E`, whatever the strategy -/
theorem strategySide_self (s : Strategy) (E : List P2) : strategySide s E E = (E, E) := by
  cases s <;> simp [strategySide]

/-- **C19M (mae of a perfect detection).** When the knee points are exactly the expected points,
every strategy gives 0. -/
theorem maeQ_self (s : Strategy) (E : List P2) : maeQ s E E = 0 := by
  simp only [maeQ, strategySide_self]
  exact maeSides_subset_zero fun _ h => h

/-- **C19M (mse of a perfect detection).** -/
theorem mseQ2_self (s : Strategy) (E : List P2) : mseQ2 s E E = 0 := by
  simp only [mseQ2, strategySide_self]
  exact mseSides_subset_zero fun _ h => h

/-- **C19M (rmspe² of a perfect detection).** -/
theorem rmspeSqQ_self (s : Strategy) (E : List P2) : rmspeSqQ s E E = 0 := by
  simp only [rmspeSqQ, strategySide_self]
  exact rmspeSqSides_subset_zero fun _ h => h

/-! ### 4. the side selected by the strategy -/

/-- `knees`: iterate over the knee points, search in the expected set. -/
theorem strategy_knees (E K : List P2) : strategySide .knees E K = (K, E) := rfl

/-- `expected`: iterate over the expected set, search in the knee points. -/
theorem strategy_expected (E K : List P2) : strategySide .expected E K = (E, K) := rfl

/-- `best`, `|E| ≤ |K|`: iterate over the expected set. -/
theorem strategy_best_le {E K : List P2} (h : E.length ≤ K.length) :
    strategySide .best E K = (E, K) := by
  simp [strategySide, h]

/-- `best`, `|K| < |E|`: iterate over the knee points. -/
theorem strategy_best_gt {E K : List P2} (h : K.length < E.length) :
    strategySide .best E K = (K, E) := by
  simp [strategySide, Nat.not_le.2 h]

/-- `worst`, `|K| ≤ |E|`: iterate over the expected set. -/
theorem strategy_worst_ge {E K : List P2} (h : K.length ≤ E.length) :
    strategySide .worst E K = (E, K) := by
  simp [strategySide, h]

/-- `worst`, `|E| < |K|`: iterate over the knee points. -/
theorem strategy_worst_lt {E K : List P2} (h : E.length < K.length) :
    strategySide .worst E K = (K, E) := by
  simp [strategySide, Nat.not_le.2 h]

/-- **C19M (`best` iterates the smaller side).** -/
theorem strategy_best_iterates_smaller (E K : List P2) :
    (strategySide .best E K).1.length ≤ (strategySide .best E K).2.length := by
  by_cases h : E.length ≤ K.length
  · rw [strategy_best_le h]; exact h
  · rw [strategy_best_gt (Nat.not_le.1 h)]; exact Nat.le_of_lt (Nat.not_le.1 h)

/-- **C19M (`worst` iterates the larger side).** -/
theorem strategy_worst_iterates_larger (E K : List P2) :
    (strategySide .worst E K).2.length ≤ (strategySide .worst E K).1.length := by
  by_cases h : K.length ≤ E.length
  · rw [strategy_worst_ge h]; exact h
  · rw [strategy_worst_lt (Nat.not_le.1 h)]; exact Nat.le_of_lt (Nat.not_le.1 h)

/-- the two sides are always the expected set and the knee list, in one order or the other -/
theorem strategySide_cases (s : Strategy) (E K : List P2) :
    strategySide s E K = (E, K) ∨ strategySide s E K = (K, E) := by
  cases s <;> simp only [strategySide] <;> (try split) <;> simp

/-! ### 5. `mse = 0` characterises containment -/

/-- **C19M (MSE = 0 iff containment).** For non-empty sides the mean squared error vanishes
exactly when every iterated point occurs in the searched side: a sum of non-negative terms is 0
iff every term is, and a term is 0 iff the nearest neighbour equals the point. -/
theorem mseSides_eq_zero_iff {a b : List P2} (ha : a ≠ []) (hb : b ≠ []) :
    mseSides a b = 0 ↔ ∀ p ∈ a, p ∈ b := by
  constructor
  · intro h0
    unfold mseSides at h0
    have hs := (div_eq_zero_iff.1 h0).resolve_right (len_mul_two_ne_zero ha)
    have hall := (sum_map_eq_zero_iff _ a
      fun p _ => match_mse_term_nonneg p (nearest b p)).1 hs
    intro p hp
    exact mem_of_nearest_eq hb ((match_mse_term_eq_zero_iff p (nearest b p)).1 (hall p hp))
  · exact mseSides_subset_zero

/-- **C19M (mse = 0 iff the iterated side is contained in the searched side)**, at strategy
level, for non-empty expected set and knee list. -/
theorem mseQ2_eq_zero_iff (s : Strategy) {E K : List P2} (hE : E ≠ []) (hK : K ≠ []) :
    mseQ2 s E K = 0 ↔ ∀ p ∈ (strategySide s E K).1, p ∈ (strategySide s E K).2 := by
  unfold mseQ2
  rcases strategySide_cases s E K with h | h <;> rw [h]
  · exact mseSides_eq_zero_iff hE hK
  · exact mseSides_eq_zero_iff hK hE

/-! Non-vacuity: concrete values of the model on E = [(2,2),(3,3)], K = [(1,1),(11,11)]
(both expected points match the knee (1,1); the knee (11,11) matches (3,3)), a first-minimum
tie in `nearest`, both branches of `best` / `worst`, and a non-empty pair satisfying the
hypotheses of `mseSides_eq_zero_iff` on either side of the equivalence. -/
example : maeQ .expected [(2, 2), (3, 3)] [(1, 1), (11, 11)] = 3 / 2 := by decide +kernel
example : mseQ2 .expected [(2, 2), (3, 3)] [(1, 1), (11, 11)] = 5 / 2 := by decide +kernel
example : mseQ2 .knees [(2, 2), (3, 3)] [(1, 1), (11, 11)] = 65 / 2 := by decide +kernel
example : maeQ .knees [(2, 2), (3, 3)] [(1, 1), (11, 11)] = 9 / 2 := by decide +kernel
example : maeQ .best [(2, 2), (3, 3)] [(2, 2), (3, 3)] = 0 := by decide +kernel
example : 0 < rmspeSqQ .expected [(2, 2), (3, 3)] [(1, 1), (11, 11)] := by decide +kernel
example : nearest [(1, 1), (3, 3), (1, 3)] (2, 2) = (1, 1) := by decide +kernel
example : mseQ2 .best [(2, 2), (3, 3)] [(1, 1), (11, 11), (4, 5)] = 7 / 4
    ∧ mseQ2 .worst [(2, 2), (3, 3)] [(1, 1), (11, 11), (4, 5)] = 45 / 2 := by decide +kernel
example : strategySide .best [(2, 2), (3, 3)] [(1, 1)] = ([(1, 1)], [(2, 2), (3, 3)])
    ∧ strategySide .worst [(2, 2), (3, 3)] [(1, 1)] = ([(2, 2), (3, 3)], [(1, 1)]) := by
  decide +kernel
example : mseSides [(3, 3)] [(2, 2), (3, 3)] = 0 ∧ mseSides [(2, 2), (3, 3)] [(3, 3)] ≠ 0 := by
  decide +kernel

end Knee

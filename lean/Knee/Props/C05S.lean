import Knee.Props.C05
import Knee.Props.C01
/-!
# C05S — the greedy clause of C05 with SEGMENT-ONLY scores, and the boundary sizes

`fixed_nested_greedy` (C05) proves that the refined segment carries a maximal key *as stored on
the work stack*.  The property, however, speaks about an ordering score that depends only on the
segment (`order_triangle/area/segment(points[a:b])`).  Here the ordering-key oracle is assumed to
be segment-determined,

  `hseg : ∀ l r i, key l r i = (score l (l + i + 1), score (l + i) r)`

(index conventions of `refineStep`: splitting the half-open range `[l, r)` at relative index `i`
gives the children `[l, l+i+1)` and `[l+i, r)`, which share the split point `l+i`), and the
statement is lifted from stored keys to scores:  every stack entry `(k, a, b)` has
`k = score a b`, except the very first entry `(0, 0, n)` pushed by the code with the literal key
`0` (`stack = [(0, 0, len(points))]`, see `rinit`), which is alone on the stack while it exists.

Oracle-parametric: EVERY distance oracle `dst` (one value per point of the range) and EVERY
score oracle `score`.
-/
namespace Knee

/-- every entry `(k, a, b)` of the work stack carries the score of its own segment: `k = score a b` -/
def AllScored (score : Nat → Nat → Rat) (s : RState) : Prop :=
  ∀ e ∈ s.stack, e.1 = score e.2.1 e.2.2

/-- the documented invariant: either the stack is still the initial `[(0, 0, n)]` (whose key is the
literal `0` of the code, not a score), or every entry carries the score of its segment -/
def Scored (score : Nat → Nat → Rat) (n : Nat) (s : RState) : Prop :=
  s.stack = [(0, 0, n)] ∨ AllScored score s

/-- One refinement step (`stack.pop()`, push the children with their scores, `stack.sort`) leaves
only correctly scored entries, as soon as the entries *below the top* were correctly scored: the
popped entry's own key is never copied. -/
theorem refineStep_allScored (dst : Nat → Nat → List Rat) (key : Nat → Nat → Nat → Rat × Rat)
    (score : Nat → Nat → Rat)
    (hseg : ∀ l r i, key l r i = (score l (l + i + 1), score (l + i) r)) (s : RState)
    (h : ∀ e ∈ s.stack.dropLast, e.1 = score e.2.1 e.2.2) :
    AllScored score (refineStep dst key s) := by
  cases htop : s.stack.getLast? with
  | none =>
    have hnil : s.stack = [] := List.getLast?_eq_none_iff.mp htop
    intro e he
    unfold refineStep at he
    rw [htop] at he
    simp [hnil] at he
  | some top =>
    obtain ⟨k, l, r⟩ := top
    rw [refineStep_eq dst key s htop]
    intro e he
    dsimp only at he
    rw [(sortKeyed_perm _).mem_iff, List.mem_append, List.mem_append] at he
    rcases he with (he | he) | he
    · exact h e he
    · split at he
      · have : e = ((key l r (pickSplit (dst l r))).1, l, l + pickSplit (dst l r) + 1) := by
          simpa using he
        subst this
        simp [hseg]
      · simp at he
    · split at he
      · have : e = ((key l r (pickSplit (dst l r))).2, l + pickSplit (dst l r), r) := by
          simpa using he
        subst this
        simp [hseg]
      · simp at he

/-- One iteration of `while length > 0 and stack:` turns the documented invariant into the strong
one: after the first iteration the literal key `0` is gone for good. -/
theorem stepOrStop_allScored (dst : Nat → Nat → List Rat) (key : Nat → Nat → Nat → Rat × Rat)
    (score : Nat → Nat → Rat)
    (hseg : ∀ l r i, key l r i = (score l (l + i + 1), score (l + i) r)) {n : Nat} {s : RState}
    (h : Scored score n s) : AllScored score (stepOrStop dst key s) := by
  unfold stepOrStop
  split
  · rename_i he
    have : s.stack = [] := by simpa using he
    intro e hm
    rw [this] at hm
    simp at hm
  · apply refineStep_allScored dst key score hseg
    rcases h with h | h
    · rw [h]; intro e he; simp at he
    · intro e he
      exact h e (List.dropLast_subset _ he)

/-- **C05S, stack invariant.** Through the whole `_rdp_fixed` loop started from any state that
satisfies the documented invariant, the invariant holds. -/
theorem fixedLoop_scored_of (dst : Nat → Nat → List Rat) (key : Nat → Nat → Nat → Rat × Rat)
    (score : Nat → Nat → Rat)
    (hseg : ∀ l r i, key l r i = (score l (l + i + 1), score (l + i) r)) {n : Nat} {s : RState}
    (h : Scored score n s) (j : Nat) : Scored score n (fixedLoop dst key j s) := by
  induction j with
  | zero => exact h
  | succ j ih => rw [fixedLoop_succ]; exact Or.inr (stepOrStop_allScored dst key score hseg ih)

/-- the initial state `stack = [(0, 0, len(points))]` satisfies the documented invariant -/
theorem rinit_scored (score : Nat → Nat → Rat) (n : Nat) : Scored score n (rinit n) := by
  unfold Scored rinit
  by_cases h : n > 2
  · left; simp [h]
  · right; intro e he; simp [h] at he

/-- **C05S, stack invariant from the initial state.** At every moment of `rdp_fixed(points, ·)` the
work stack is either the initial `[(0, 0, n)]` or each entry `(k, a, b)` has `k = score(points[a:b])`. -/
theorem fixedLoop_scored (dst : Nat → Nat → List Rat) (key : Nat → Nat → Nat → Rat × Rat)
    (score : Nat → Nat → Rat)
    (hseg : ∀ l r i, key l r i = (score l (l + i + 1), score (l + i) r)) (n j : Nat) :
    Scored score n (fixedLoop dst key j (rinit n)) :=
  fixedLoop_scored_of dst key score hseg (rinit_scored score n) j

/-- **C05S, stack invariant after the first iteration.** As soon as the loop body has run once
(target size `k ≥ 3`), *every* stack entry `(k, a, b)` has `k = score(points[a:b])`: the literal
key `0` of the initial entry never survives. -/
theorem fixedLoop_allScored (dst : Nat → Nat → List Rat) (key : Nat → Nat → Nat → Rat × Rat)
    (score : Nat → Nat → Rat)
    (hseg : ∀ l r i, key l r i = (score l (l + i + 1), score (l + i) r)) (n j : Nat) :
    AllScored score (fixedLoop dst key (j + 1) (rinit n)) := by
  rw [fixedLoop_succ]
  exact stepOrStop_allScored dst key score hseg (fixedLoop_scored dst key score hseg n j)

/-- **C05S, greedy clause with segment-only scores.** Let the ordering key be segment-determined
(`hseg`).  For `2 ≤ k < n`, `rdp_fixed(points, k+1)` is `rdp_fixed(points, k)` plus one new index
`x = l + pickSplit (dst l r)` strictly inside a retained segment `[l, r)` (`l`, `r-1` consecutive
retained indices with at least one point in between; it is the segment on top of the work stack),
and that segment has the maximal SCORE — not just the maximal stored key — among all retained
segments that still have interior points: `score g ≤ score (l, r)` for every
`g ∈ gaps (rdp_fixed(points, k))`.  For `k ≥ 3` the key stored with the refined segment is its
score. -/
theorem fixed_greedy_score (dst : Nat → Nat → List Rat) (key : Nat → Nat → Nat → Rat × Rat)
    (score : Nat → Nat → Rat) (n k : Nat)
    (hn : 2 ≤ n) (hk : 2 ≤ k) (hkn : k < n) (hd : ∀ l r, (dst l r).length = r - l)
    (hseg : ∀ l r i, key l r i = (score l (l + i + 1), score (l + i) r)) :
    ∃ (kk : Rat) (l r : Nat),
      (fixedLoop dst key (k - 2) (rinit n)).stack.getLast? = some (kk, l, r) ∧
      (l, r) ∈ gaps (rdpFixed dst key n k) ∧
      rdpFixed dst key n (k + 1) = insertSorted (l + pickSplit (dst l r)) (rdpFixed dst key n k) ∧
      l + pickSplit (dst l r) ∉ rdpFixed dst key n k ∧
      l < l + pickSplit (dst l r) ∧ l + pickSplit (dst l r) + 1 < r ∧
      (∀ g ∈ gaps (rdpFixed dst key n k), score g.1 g.2 ≤ score l r) ∧
      (3 ≤ k → kk = score l r) := by
  obtain ⟨top, x, htop, hx, hred, hnot, hlt, hgt, hgap, hperm, hmax, _⟩ :=
    fixed_nested_greedy dst key n k hn hk hkn hd
  obtain ⟨kk, l, r⟩ := top
  subst hx
  dsimp only at hred hnot hlt hgt hgap hmax
  have hsc := fixedLoop_scored dst key score hseg n (k - 2)
  have htopmem : (kk, l, r) ∈ (fixedLoop dst key (k - 2) (rinit n)).stack :=
    List.mem_of_getLast? htop
  refine ⟨kk, l, r, htop, hgap, hred, hnot, hlt, hgt, ?_, ?_⟩
  · intro g hg
    have hg' : g ∈ (fixedLoop dst key (k - 2) (rinit n)).stack.map rng := hperm.mem_iff.mpr hg
    obtain ⟨e, he, heg⟩ := List.mem_map.mp hg'
    subst heg
    rcases hsc with h0 | hall
    · -- the initial stack: the only retained segment is the refined one
      rw [h0] at he htopmem
      have e1 : e = (0, 0, n) := by simpa using he
      have e2 : (kk, l, r) = ((0 : Rat), 0, n) := by simpa using htopmem
      have hl : l = 0 := by simpa using congrArg (fun p => p.2.1) e2
      have hr : r = n := by simpa using congrArg (fun p => p.2.2) e2
      subst e1 hl hr
      exact Rat.le_refl
    · have h1 := hall e he
      have h2 := hall _ htopmem
      have h3 := hmax e he
      dsimp only [rng] at h2 ⊢
      rw [← h1, ← h2]
      exact h3
  · intro hk3
    have e : k - 2 = (k - 3) + 1 := by omega
    have hall := fixedLoop_allScored dst key score hseg n (k - 3)
    rw [← e] at hall
    exact hall _ htopmem

/-- **C05S, greedy clause, stack-free form.** The same statement phrased with the returned index
lists only: some retained segment `[l, r)` of `rdp_fixed(points, k)` with interior points has
maximal score among all such segments, and `rdp_fixed(points, k+1)` adds exactly the split point of
that segment. -/
theorem fixed_greedy_score_lists (dst : Nat → Nat → List Rat) (key : Nat → Nat → Nat → Rat × Rat)
    (score : Nat → Nat → Rat) (n k : Nat)
    (hn : 2 ≤ n) (hk : 2 ≤ k) (hkn : k < n) (hd : ∀ l r, (dst l r).length = r - l)
    (hseg : ∀ l r i, key l r i = (score l (l + i + 1), score (l + i) r)) :
    ∃ l r, (l, r) ∈ gaps (rdpFixed dst key n k) ∧
      (∀ g ∈ gaps (rdpFixed dst key n k), score g.1 g.2 ≤ score l r) ∧
      rdpFixed dst key n (k + 1) = insertSorted (l + pickSplit (dst l r)) (rdpFixed dst key n k) ∧
      l < l + pickSplit (dst l r) ∧ l + pickSplit (dst l r) + 1 < r := by
  obtain ⟨_, l, r, _, hgap, hred, _, hlt, hgt, hmax, _⟩ :=
    fixed_greedy_score dst key score n k hn hk hkn hd hseg
  exact ⟨l, r, hgap, hmax, hred, hlt, hgt⟩

/-! ### boundary sizes -/

/-- a strictly increasing list from `a` whose last element is `a + (length - 1)` has no holes -/
theorem chain_tight : ∀ (l : List Nat) (a : Nat), (a :: l).Pairwise (· < ·) →
    (a :: l).getLast? = some (a + l.length) → a :: l = List.range' a (l.length + 1) := by
  intro l
  induction l with
  | nil => intro a _ _; rfl
  | cons c t ih =>
    intro a h hl
    have h' := h
    rw [List.pairwise_cons] at h'
    have hac : a < c := h'.1 c (by simp)
    obtain ⟨b, hb, hle, _⟩ := chain_length_gaps t c h'.2
    rw [List.getLast?_cons_cons, hb] at hl
    have hbe : b = a + (t.length + 1) := by simpa using hl
    have hc : c = a + 1 := by omega
    subst hc
    have := ih (a + 1) h'.2 (by rw [hb, hbe]; congr 1; omega)
    rw [List.length_cons, List.range'_succ, this]

/-- **C05S, sizes 0, 1, 2.** `rdp_fixed(points, k)` with `k ≤ 2` never enters the loop
(`length = k - 2 ≤ 0`) and returns the two end points `[0, n-1]`; no hypothesis on the oracles. -/
theorem fixed_small (dst : Nat → Nat → List Rat) (key : Nat → Nat → Nat → Rat × Rat) (n k : Nat)
    (hk : k ≤ 2) : rdpFixed dst key n k = [0, n - 1] := by
  have e : k - 2 = 0 := by omega
  simp [rdpFixed, e, fixedLoop, rinit]

/-- the same, composed from `fixed_card` (size) and `fixed_wf` (shape) as a cross-check -/
theorem fixed_small_of_card_wf (dst : Nat → Nat → List Rat) (key : Nat → Nat → Nat → Rat × Rat)
    (n k : Nat) (hn : 2 ≤ n) (hd : ∀ l r, (dst l r).length = r - l) (hk : k ≤ 2) :
    rdpFixed dst key n k = [0, n - 1] := by
  have hc := fixed_card dst key n k hn hd
  obtain ⟨_, h0, hl, _⟩ := fixed_wf dst key n k hn hd
  have h2 : (rdpFixed dst key n k).length = 2 := by omega
  match hr : rdpFixed dst key n k, h2 with
  | [a, b], _ =>
    rw [hr] at h0 hl
    have ha : a = 0 := by simpa using h0
    have hb : b = n - 1 := by simpa using hl
    rw [ha, hb]

/-- **C05S, sizes ≥ n.** `rdp_fixed(points, k)` with `k ≥ n` retains every point: the result is
`[0, 1, …, n-1]`, whatever the distance and ordering oracles return. Composed from `fixed_card`
(exactly `n` indices) and `fixed_wf` (strictly increasing from `0` to `n-1`). -/
theorem fixed_all (dst : Nat → Nat → List Rat) (key : Nat → Nat → Nat → Rat × Rat) (n k : Nat)
    (hn : 2 ≤ n) (hd : ∀ l r, (dst l r).length = r - l) (hk : n ≤ k) :
    rdpFixed dst key n k = List.range n := by
  have hc := fixed_card dst key n k hn hd
  obtain ⟨hpw, h0, hl, _⟩ := fixed_wf dst key n k hn hd
  have hlen : (rdpFixed dst key n k).length = n := by omega
  generalize rdpFixed dst key n k = red at hpw h0 hl hlen
  cases red with
  | nil => simp at h0
  | cons a t =>
    have ha : a = 0 := by simpa using h0
    subst ha
    simp only [List.length_cons] at hlen
    have := chain_tight t 0 hpw (by rw [hl]; congr 1; omega)
    rw [this, hlen, List.range_eq_range']

/-- `reduced.append(x); reduced.sort()` only adds an index: the old list is a subsequence of the new -/
theorem sublist_insertSorted (x : Nat) (l : List Nat) : l.Sublist (insertSorted x l) := by
  induction l with
  | nil => simp [insertSorted]
  | cons y ys ih =>
    simp only [insertSorted]
    split
    · exact List.Sublist.cons _ (List.Sublist.refl _)
    · exact List.Sublist.cons_cons _ ih

/-- **C05S, nesting for every size.** For EVERY `k` (including `k < 2` and `k ≥ n`) the result for
`k` is a subsequence of the result for `k + 1`: constant `[0, n-1]` up to `k = 2`, one new index
per step for `2 ≤ k < n`, constant `[0, …, n-1]` from `k = n` on. -/
theorem fixed_nested_step (dst : Nat → Nat → List Rat) (key : Nat → Nat → Nat → Rat × Rat) (n k : Nat)
    (hn : 2 ≤ n) (hd : ∀ l r, (dst l r).length = r - l) :
    (rdpFixed dst key n k).Sublist (rdpFixed dst key n (k + 1)) := by
  by_cases h1 : k < 2
  · rw [fixed_small dst key n k (by omega), fixed_small dst key n (k + 1) (by omega)]
    exact List.Sublist.refl _
  · by_cases h2 : k < n
    · obtain ⟨_, x, _, _, hred, _⟩ := fixed_nested_greedy dst key n k hn (by omega) h2 hd
      rw [hred]
      exact sublist_insertSorted _ _
    · rw [fixed_all dst key n k hn hd (by omega), fixed_all dst key n (k + 1) hn hd (by omega)]
      exact List.Sublist.refl _

/-- **C05S, nesting, any two sizes.** `j ≤ k` ⇒ `rdp_fixed(points, j)` is a subsequence of
`rdp_fixed(points, k)`. -/
theorem fixed_nested_le (dst : Nat → Nat → List Rat) (key : Nat → Nat → Nat → Rat × Rat) (n j k : Nat)
    (hn : 2 ≤ n) (hd : ∀ l r, (dst l r).length = r - l) (hjk : j ≤ k) :
    (rdpFixed dst key n j).Sublist (rdpFixed dst key n k) := by
  induction k with
  | zero =>
    have : j = 0 := by omega
    subst this
    exact List.Sublist.refl _
  | succ k ih =>
    by_cases h : j ≤ k
    · exact (ih h).trans (fixed_nested_step dst key n k hn hd)
    · have : j = k + 1 := by omega
      subst this
      exact List.Sublist.refl _

/-! ### Non-vacuity
A segment-determined key (score = number of points of the segment, i.e. the `order_segment`
flavour) and a distance oracle with a peak; `hd` and `hseg` hold, the loop really refines, and
the greedy conclusion can be read off: at `k = 3` the retained segments with interior points are
`[0,3)` (score 3) and `[2,8)` (score 6); the next split is inside `[2,8)`. -/
private def dstE : Nat → Nat → List Rat := fun l r =>
  (List.range (r - l)).map fun i => if i = 2 then 1 else 0
private def scoreE : Nat → Nat → Rat := fun a b => ((b - a : Nat) : Rat)
private def keyE : Nat → Nat → Nat → Rat × Rat := fun l r i => (scoreE l (l + i + 1), scoreE (l + i) r)

example : ∀ l r, (dstE l r).length = r - l := by intro l r; simp [dstE]
example : ∀ l r i, keyE l r i = (scoreE l (l + i + 1), scoreE (l + i) r) := fun _ _ _ => rfl
example : rdpFixed dstE keyE 8 3 = [0, 2, 7] ∧ gaps (rdpFixed dstE keyE 8 3) = [(0, 3), (2, 8)] ∧
    rdpFixed dstE keyE 8 4 = [0, 2, 4, 7] ∧ rdpFixed dstE keyE 8 5 = [0, 2, 4, 6, 7] ∧
    (fixedLoop dstE keyE 1 (rinit 8)).stack = [(3, 0, 3), (6, 2, 8)] ∧
    (fixedLoop dstE keyE 2 (rinit 8)).stack = [(3, 0, 3), (3, 2, 5), (4, 4, 8)] ∧
    rdpFixed dstE keyE 8 1 = [0, 7] ∧ rdpFixed dstE keyE 8 11 = List.range 8 := by
  decide +kernel

end Knee

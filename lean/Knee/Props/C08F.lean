import Knee.Model.PipelineCfg
import Knee.Model.PipelineFull
import Knee.Props.C01
import Knee.Props.C02D
import Knee.Props.C08
import Knee.Props.C08E
import Knee.Props.C12
import Knee.Props.C14
/-!
# C08F — the whole pipeline, end to end, for EVERY configuration

Model: `Knee.pipelineCfg` (`Knee/Model/PipelineCfg.lean`): any of the five simplifiers
(`rdp`, `grdp`, `rdp_fixed`, `mp_grdp`, `min_point_rdp`) → `multiKnee` on the reduced curve →
worst-knee filter → corner filter → any of the three cluster filters (left/linear/right ranking,
hull ranking, corners) → either `rdp.mapping` or `postprocessing.add_points_even`.

The theorems compose C01 (`rdp_total_wf`, `fixed_wf`, `grdp_total_wf`, `mp_wf`, `minpoint_wf`),
C02D (`multiKnee_sorted_range_large`), C08 (`tail_generic`), C12 (the three `*_sublist` theorems)
and C14 (`addEven_valid`, `addEven_strict`, `addEven_heights`).

Oracles: every floating-point quantity.  The only contracts are those of the component theorems:
`hd` (the distance oracle returns one value per point of the range), `hdet` (the detector's range
contract on ranges longer than `t2`), `hl` (the linkage assigns one label per knee), the threshold
domain of threshold RDP (`SimpDomain`), and `0 < npts i` for `add_points_even`.  No extra shape
hypothesis was needed: in particular the corner-area oracle of the `corners` cluster filter may
return a list of any length.
-/
namespace Knee

/-- The parameter domain of a simplifier: threshold RDP (`rdp.rdp`) needs `t > 0` for the
distance costs and `t ≤ 1` for R² (the domain of `rdp_total_wf`, outside of which the Python loop
could split two-point segments forever); the four stack-ordered variants (`grdp`, `rdp_fixed`,
`mp_grdp`, `min_point_rdp`) are well formed for every parameter value. -/
def SimpDomain : Simplifier → Prop
  | .rdp isR2 t => if isR2 then t ≤ 1 else 0 < t
  | .grdp _ _ => True
  | .fixed _ => True
  | .mpGrdp _ _ _ => True
  | .minPoint _ _ _ => True

/-- a `WellFormed` reduction together with the removed table the code computes from it -/
theorem simplify_of_wf {n : Nat} {r : List Nat} (h : WellFormed n r) :
    ∃ reduced removed, some (r, computeRemoved r) = some (reduced, removed) ∧
      reduced.Pairwise (· < ·) ∧ reduced[0]? = some 0 ∧ reduced.getLast? = some (n - 1) ∧
      removed = computeRemoved reduced ∧ reduced.length + (removed.map (·.2)).sum = n :=
  ⟨r, computeRemoved r, rfl, h.1, h.2.1, h.2.2.1, rfl, h.2.2.2⟩

/-- **C08F (simplifier stage).** Whichever of the five simplifiers of `rdp.py` is chosen, with its
parameters in the domain and whatever the floating-point cost/distance/ordering/global-cost
primitives return (as long as the distance primitive returns one value per point of the range),
on a curve of `n ≥ 2` points the simplifier terminates and returns `(reduced, removed)` where
`reduced` is a strictly increasing index list from `0` to `n - 1`, `removed` is exactly
`compute_removed_points(reduced)`, and retained + dropped points add up to `n`. -/
theorem simplify_wf (s : Simplifier) (o : SimpOracles) (n : Nat) (hn : 2 ≤ n) (hs : SimpDomain s)
    (hd : ∀ l r, (o.dst l r).length = r - l) :
    ∃ reduced removed, simplify s o n = some (reduced, removed) ∧
      reduced.Pairwise (· < ·) ∧ reduced[0]? = some 0 ∧ reduced.getLast? = some (n - 1) ∧
      removed = computeRemoved reduced ∧ reduced.length + (removed.map (·.2)).sum = n := by
  cases s with
  | rdp isR2 t =>
    obtain ⟨reduced, removed, hrdp, hpw, h0, hlast, hrem, _, hsum⟩ :=
      rdp_total_wf isR2 t o.cst o.dst n hn hs hd
    exact ⟨reduced, removed, hrdp, hpw, h0, hlast, hrem, hsum⟩
  | grdp isR2 t =>
    exact simplify_of_wf (grdp_total_wf (acceptOf isR2 t o.gcs) o.dst o.key n hn hd).1
  | fixed k =>
    exact simplify_of_wf (fixed_wf o.dst o.key n k hn hd)
  | mpGrdp isR2 t m =>
    exact simplify_of_wf (mp_wf (acceptOf isR2 t o.gcs) o.dst o.key n m hn hd)
  | minPoint isR2 m ts =>
    exact simplify_of_wf
      (minpoint_wf (fun t => acceptOf isR2 t o.gcs) o.dst o.key n m hn hd (sortDesc ts))

/-- **C08F (cluster stage).** Each of the three cluster filters (`filter_clusters` with
left/linear/right ranking, with hull ranking, and `filter_clusters_corner`) returns a subsequence
of the knees it is given, as soon as the linkage assigns one label per knee. -/
theorem clusterStage_sublist (cm : ClusterMode) (labels knees : List Nat)
    (h : labels.length = knees.length) : (clusterStage cm labels knees).Sublist knees := by
  cases cm with
  | rank score => exact clusterFilter_sublist score labels knees h
  | hull hull herr => exact clusterFilterHull_sublist hull herr labels knees h
  | corners area => exact clusterFilterCorners_sublist area labels knees h

/-- **C08F (end to end, every configuration).** For every simplifier (parameters in its domain),
every detector / straightness gate / size gate, every cluster filter and either final stage, and
for every value the floating-point primitives may return (subject only to the shape contracts
`hd`, `hdet`, `hl`), the whole Python pipeline on a curve of `n ≥ 2` points completes, and:
the simplifier's `reduced` is a strictly increasing index list from `0` to `n - 1` whose removed
table is `compute_removed_points(reduced)`; `multi_knee` returns strictly increasing positions of
the reduced curve, never its last point; the worst-knee, corner and cluster filters each return a
subsequence of their input; from the worst-knee filter onwards the (reduced-curve) heights are
non-increasing from left to right; and the final stage (the `match` in the conclusion): with
`rdp.mapping` the reported knees are the retained points at the surviving reduced-space
positions (strictly increasing, `< n`, one per surviving knee); with `add_points_even` (and
`0 < npts i`) the output is strictly increasing, `< n`, with non-increasing original heights.
No hypothesis beyond those listed in the task was needed. -/
theorem pipelineCfg_end_to_end (s : Simplifier) (o : SimpOracles) (n : Nat)
    (det : Nat → Nat → Option Nat) (gate : Nat → Nat → Bool) (t2 : Nat)
    (h : Nat → Rat) (iou : Nat → Rat) (tc : Rat) (labelsOf : List Nat → List Nat)
    (cm : ClusterMode) (fin : Final)
    (hn : 2 ≤ n) (hs : SimpDomain s) (hd : ∀ l r, (o.dst l r).length = r - l)
    (hdet : DetOKLarge t2 det) (hl : ∀ ks, (labelsOf ks).length = ks.length) :
    ∃ S, pipelineCfg s o n det gate t2 h iou tc labelsOf cm fin = some S ∧
      (S.reduced.Pairwise (· < ·) ∧ S.reduced[0]? = some 0 ∧ S.reduced.getLast? = some (n - 1) ∧
        S.removed = computeRemoved S.reduced) ∧
      (multiKnee det gate t2 S.reduced.length = some S.knees ∧ S.knees.Pairwise (· < ·) ∧
        ∀ k ∈ S.knees, k + 2 ≤ S.reduced.length) ∧
      (S.worst.Sublist S.knees ∧ S.corner.Sublist S.worst ∧ S.cluster.Sublist S.corner) ∧
      (S.worst.Pairwise (fun a b => h b ≤ h a) ∧ S.corner.Pairwise (fun a b => h b ≤ h a) ∧
        S.cluster.Pairwise (fun a b => h b ≤ h a)) ∧
      match fin with
      | .map =>
        S.out = S.cluster.map (fun k => S.reduced[k]?.getD 0) ∧ S.out.Pairwise (· < ·) ∧
        (∀ x ∈ S.out, x ∈ S.reduced) ∧ (∀ x ∈ S.out, x < n) ∧ S.out.length = S.cluster.length
      | .addEven hOrig _ npts _ =>
        (∀ i, 0 < npts i) →
          S.out.Pairwise (· < ·) ∧ (∀ x ∈ S.out, x < n) ∧
          S.out.Pairwise (fun a b => hOrig b ≤ hOrig a) := by
  obtain ⟨reduced, removed, hsimp, hpw, h0, hlast, hrem, _⟩ := simplify_wf s o n hn hs hd
  have hlen : 1 ≤ reduced.length := by
    cases reduced with
    | nil => simp at h0
    | cons _ _ => simp
  obtain ⟨knees, hmk, hkpw, hkb⟩ :=
    multiKnee_sorted_range_large (gate := gate) (n := reduced.length) hdet hlen
  have hkb' : ∀ k ∈ knees, k < reduced.length := fun k hk => by have := hkb k hk; omega
  have hwf := tail_generic h reduced.length iou tc (fun c => clusterStage cm (labelsOf c) c)
    (fun c => clusterStage_sublist cm (labelsOf c) c (hl c)) reduced knees hpw h0 hkpw hkb'
  have hrb : ∀ r ∈ reduced, r < n := fun r hr => by
    have := le_getLast_of_pairwise hpw hlast r hr
    omega
  subst hrem
  -- the cluster stage's output: strictly increasing positions of the reduced curve
  have hkk : (clusterStage cm (labelsOf (cornerFilter reduced.length iou tc (worstFilter h knees)))
      (cornerFilter reduced.length iou tc (worstFilter h knees))).Sublist knees :=
    (hwf.1.2.2.trans hwf.1.2.1).trans hwf.1.1
  cases fin with
  | map =>
    have hS : pipelineCfg s o n det gate t2 h iou tc labelsOf cm .map = some
        { reduced := reduced, removed := computeRemoved reduced, knees := knees,
          worst := worstFilter h knees,
          corner := cornerFilter reduced.length iou tc (worstFilter h knees),
          cluster := clusterStage cm
            (labelsOf (cornerFilter reduced.length iou tc (worstFilter h knees)))
            (cornerFilter reduced.length iou tc (worstFilter h knees)),
          out := mapping (clusterStage cm
            (labelsOf (cornerFilter reduced.length iou tc (worstFilter h knees)))
            (cornerFilter reduced.length iou tc (worstFilter h knees)))
            reduced (computeRemoved reduced) true } := by
      simp only [pipelineCfg, hsimp, hmk]
    refine ⟨_, hS, ⟨hpw, h0, hlast, rfl⟩, ⟨hmk, hkpw, hkb⟩, hwf.1, hwf.2.1,
      hwf.2.2.1, hwf.2.2.2.1, hwf.2.2.2.2.1, ?_, hwf.2.2.2.2.2⟩
    intro x hx
    exact hrb x (hwf.2.2.2.2.1 x hx)
  | addEven hOrig wide npts ext =>
    have hS : pipelineCfg s o n det gate t2 h iou tc labelsOf cm (.addEven hOrig wide npts ext) =
        some
        { reduced := reduced, removed := computeRemoved reduced, knees := knees,
          worst := worstFilter h knees,
          corner := cornerFilter reduced.length iou tc (worstFilter h knees),
          cluster := clusterStage cm
            (labelsOf (cornerFilter reduced.length iou tc (worstFilter h knees)))
            (cornerFilter reduced.length iou tc (worstFilter h knees)),
          out := addEven hOrig n reduced (computeRemoved reduced) (clusterStage cm
            (labelsOf (cornerFilter reduced.length iou tc (worstFilter h knees)))
            (cornerFilter reduced.length iou tc (worstFilter h knees))) wide npts ext } := by
      simp only [pipelineCfg, hsimp, hmk]
    refine ⟨_, hS, ⟨hpw, h0, hlast, rfl⟩, ⟨hmk, hkpw, hkb⟩, hwf.1, hwf.2.1, ?_⟩
    intro hnp
    refine ⟨addEven_strict hOrig n reduced _ wide npts ext _, ?_,
      addEven_heights hOrig n reduced _ wide npts ext _⟩
    exact addEven_valid hOrig n reduced _ wide npts ext hpw h0 hrb
      (strict_to_le (hkpw.sublist hkk)) (fun k hk => hkb' k (hkk.subset hk)) hnp

/-- **C08F, `rdp.mapping` configurations.** The end-to-end statement specialised to the mapping
final stage: the reported knees are the retained simplification points at the surviving
reduced-space positions, strictly increasing valid indices, one per surviving knee. -/
theorem pipelineCfg_end_to_end_map (s : Simplifier) (o : SimpOracles) (n : Nat)
    (det : Nat → Nat → Option Nat) (gate : Nat → Nat → Bool) (t2 : Nat)
    (h : Nat → Rat) (iou : Nat → Rat) (tc : Rat) (labelsOf : List Nat → List Nat)
    (cm : ClusterMode)
    (hn : 2 ≤ n) (hs : SimpDomain s) (hd : ∀ l r, (o.dst l r).length = r - l)
    (hdet : DetOKLarge t2 det) (hl : ∀ ks, (labelsOf ks).length = ks.length) :
    ∃ S, pipelineCfg s o n det gate t2 h iou tc labelsOf cm .map = some S ∧
      S.out = S.cluster.map (fun k => S.reduced[k]?.getD 0) ∧ S.out.Pairwise (· < ·) ∧
      (∀ x ∈ S.out, x ∈ S.reduced) ∧ (∀ x ∈ S.out, x < n) ∧ S.out.length = S.cluster.length := by
  obtain ⟨S, hS, _, _, _, _, hfin⟩ :=
    pipelineCfg_end_to_end s o n det gate t2 h iou tc labelsOf cm .map hn hs hd hdet hl
  exact ⟨S, hS, hfin⟩

/-- **C08F, `add_points_even` configurations.** The end-to-end statement specialised to the
even-points final stage: the output of `add_points_even` on the pipeline's knees is a strictly
increasing list of valid indices of the original curve with non-increasing original heights. -/
theorem pipelineCfg_end_to_end_addEven (s : Simplifier) (o : SimpOracles) (n : Nat)
    (det : Nat → Nat → Option Nat) (gate : Nat → Nat → Bool) (t2 : Nat)
    (h : Nat → Rat) (iou : Nat → Rat) (tc : Rat) (labelsOf : List Nat → List Nat)
    (cm : ClusterMode) (hOrig : Nat → Rat) (wide : Nat → Bool) (npts : Nat → Nat) (ext : Bool)
    (hn : 2 ≤ n) (hs : SimpDomain s) (hd : ∀ l r, (o.dst l r).length = r - l)
    (hdet : DetOKLarge t2 det) (hl : ∀ ks, (labelsOf ks).length = ks.length)
    (hnp : ∀ i, 0 < npts i) :
    ∃ S, pipelineCfg s o n det gate t2 h iou tc labelsOf cm (.addEven hOrig wide npts ext) = some S ∧
      S.out.Pairwise (· < ·) ∧ (∀ x ∈ S.out, x < n) ∧
      S.out.Pairwise (fun a b => hOrig b ≤ hOrig a) := by
  obtain ⟨S, hS, _, _, _, _, hfin⟩ :=
    pipelineCfg_end_to_end s o n det gate t2 h iou tc labelsOf cm (.addEven hOrig wide npts ext)
      hn hs hd hdet hl
  exact ⟨S, hS, hfin hnp⟩

/-- **C08F (the C08E pipeline is one configuration).** The demo pipeline `pipelineFull`
(threshold RDP → multi-knee → worst → corner → rank cluster filter → mapping) is, stage for
stage, the configuration `(.rdp isR2 t, .rank score, .map)` of `pipelineCfg`; the ordering-key and
global-cost oracles `key`, `gcs` are not consulted by threshold RDP, so they are arbitrary. -/
theorem pipelineFull_is_instance (isR2 : Bool) (t : Rat) (cst : Nat → Nat → Rat)
    (dst : Nat → Nat → List Rat) (key : Nat → Nat → Nat → Rat × Rat) (gcs : List Nat → Rat) (n : Nat)
    (det : Nat → Nat → Option Nat) (gate : Nat → Nat → Bool) (t2 : Nat)
    (h : Nat → Rat) (iou : Nat → Rat) (tc : Rat) (labelsOf : List Nat → List Nat)
    (score : List Nat → List Rat) :
    pipelineFull isR2 t cst dst n det gate t2 h iou tc labelsOf score =
      (pipelineCfg (.rdp isR2 t) ⟨cst, dst, key, gcs⟩ n det gate t2 h iou tc labelsOf
        (.rank score) .map).map
        (fun S => (S.reduced,
          { worst := S.worst, corner := S.corner, cluster := S.cluster, mapped := S.out })) := by
  unfold pipelineFull pipelineCfg
  simp only [simplify]
  cases rdp isR2 t cst dst n with
  | none => rfl
  | some p =>
    obtain ⟨reduced, removed⟩ := p
    simp only
    cases multiKnee det gate t2 reduced.length with
    | none => rfl
    | some knees => rfl

/-! Non-vacuity: `pipelineCfg` evaluated on concrete oracle families (24 points; the oracle
families of C08E: the cost oracle splits every range of more than 3 points, the distance oracle
peaks in the middle, the detector answers the middle of every range of at least 3 points; in
addition an ordering key, a global cost `1 / len(reduced)`, three clusters, a hull-error and a
corner-area oracle, and original-curve heights with one raised point for `add_points_even`).
Shown: `((reduced, knees, worst), (corner, cluster, out))` (two triples: a flat 6-tuple exceeds the
instance-size limit of `DecidableEq` synthesis).  All five simplifiers, all three cluster
modes and both final stages occur, and in each run several knees survive to the cluster stage.
The hypotheses of the theorems hold on this data (last examples). -/
private def cstF : Nat → Nat → Rat := fun l r => if r - l > 3 then 1 else 0
private def dstF : Nat → Nat → List Rat := fun l r =>
  (List.range (r - l)).map fun i => ((min i (r - l - 1 - i) : Nat) : Rat)
private def keyF : Nat → Nat → Nat → Rat × Rat := fun l r i =>
  (((i : Nat) : Rat), ((r - l - i : Nat) : Rat))
private def gcsF : List Nat → Rat := fun red => 1 / ((red.length : Nat) : Rat)
private def oF : SimpOracles := ⟨cstF, dstF, keyF, gcsF⟩
private def detF : Nat → Nat → Option Nat := fun l r =>
  if r - l ≥ 3 then some ((r - l - 2) / 2) else none
private def hF : Nat → Rat := fun k => if k = 3 then 39/2 else 20 - ((k : Int) : Rat)
private def iouF : Nat → Rat := fun k => if k = 5 then 3/4 else 0
private def labF : List Nat → List Nat := fun ks =>
  ks.map fun k => if k < 4 then 0 else if k < 10 then 1 else 2
private def scoreF : List Nat → List Rat := fun c => c.map fun k => ((k : Int) : Rat)
private def herrF : List Nat → Nat → Rat := fun _ j => ((j : Int) : Rat)
private def areaF : List Nat → List Rat := fun c => c.map fun k => (((k % 4 : Nat) : Int) : Rat)
private def hOrigF : Nat → Rat := fun k => if k = 12 then 100 else 40 - ((k : Int) : Rat)
private def wideF : Nat → Bool := fun i => i == 2 || i == 4
private def nptsF : Nat → Nat := fun i => if i = 2 then 3 else 2
/-- the fields shown in the examples -/
private def viewF (S : StagesCfg) :
    (List Nat × List Nat × List Nat) × (List Nat × List Nat × List Nat) :=
  ((S.reduced, S.knees, S.worst), (S.corner, S.cluster, S.out))

/-- threshold RDP × hull ranking × mapping: 16 retained points, 7 knees, 3 survive -/
example : Option.map viewF
    (pipelineCfg (.rdp false (1/2)) oF 24 detF (fun _ _ => true) 1 hF iouF (2/5) labF
      (.hull [1, 7, 11] herrF) .map)
    = some (([0, 2, 3, 5, 6, 8, 9, 11, 12, 14, 15, 17, 18, 20, 21, 23],
        [1, 3, 5, 7, 9, 11, 13],
        [1, 5, 7, 9, 11, 13]),
        ([1, 7, 9, 11, 13],
        [1, 7, 11], [2, 11, 17])) := by decide +kernel
/-- fixed-size RDP (12 points) × corner cluster filter × `add_points_even` with the extremes:
the raised point 12 is not reported, the output is sorted and its original heights decrease -/
example : Option.map viewF
    (pipelineCfg (.fixed 12) oF 24 detF (fun _ _ => true) 1 hF iouF (2/5) labF
      (.corners areaF) (.addEven hOrigF wideF nptsF true))
    = some (([0, 2, 3, 5, 8, 11, 14, 15, 17, 20, 21, 23],
        [0, 2, 3, 5, 6, 8, 9],
        [0, 2, 5, 6, 8, 9]),
        ([0, 2, 6, 8, 9],
        [2, 6], [0, 3, 9, 10, 14, 23])) := by decide +kernel
/-- global RDP (distance cost) × rank cluster filter × `add_points_even` without the extremes -/
example : Option.map viewF
    (pipelineCfg (.grdp false (1/15)) oF 24 detF (fun _ _ => true) 1 hF iouF (2/5) labF
      (.rank scoreF) (.addEven hOrigF wideF nptsF false))
    = some (([0, 2, 3, 5, 8, 9, 10, 11, 14, 15, 16, 17, 20, 21, 22, 23],
        [1, 3, 5, 7, 9, 11, 13],
        [1, 5, 7, 9, 11, 13]),
        ([1, 7, 9, 11, 13],
        [1, 9, 13], [2, 3, 8, 15, 21])) := by decide +kernel
/-- global RDP (R² cost, never accepted: every point is retained) × rank × mapping -/
example : Option.map viewF
    (pipelineCfg (.grdp true (9/10)) oF 24 detF (fun _ _ => true) 1 hF iouF (2/5) labF
      (.rank scoreF) .map)
    = some ((List.range 24,
        [0, 2, 3, 5, 6, 8, 9, 11, 12, 14, 15, 17, 18, 20, 21],
        [0, 2, 5, 6, 8, 9, 11, 12, 14, 15, 17, 18, 20, 21]),
        ([0, 2, 6, 8, 9, 11, 12, 14, 15, 17, 18, 20, 21],
        [2, 9, 21], [2, 9, 21])) := by
  decide +kernel
/-- min-points global RDP (topped up to 14 points) × hull ranking × mapping -/
example : Option.map viewF
    (pipelineCfg (.mpGrdp false (1/5) 14) oF 24 detF (fun _ _ => true) 1 hF iouF (2/5)
      labF (.hull [1, 5] herrF) .map)
    = some (([0, 2, 3, 5, 8, 9, 10, 11, 14, 15, 17, 20, 21, 23],
        [0, 2, 4, 6, 7, 9, 11],
        [0, 2, 4, 6, 7, 9, 11]),
        ([0, 2, 4, 6, 7, 9, 11],
        [2, 9], [3, 15])) := by decide +kernel
/-- multi-threshold RDP (thresholds given unsorted; `1/4` yields too few points, `1/12` is used)
× corner cluster filter × mapping -/
example : Option.map viewF
    (pipelineCfg (.minPoint false 10 [1/20, 1/4, 1/12]) oF 24 detF (fun _ _ => true) 1
      hF iouF (2/5) labF (.corners areaF) .map)
    = some (([0, 2, 3, 5, 8, 9, 11, 14, 15, 17, 20, 21, 23],
        [0, 2, 3, 5, 6, 8, 10],
        [0, 2, 5, 6, 8, 10]),
        ([0, 2, 6, 8, 10],
        [2, 6, 10], [3, 11, 20])) := by decide +kernel
/-- the hypotheses of `pipelineCfg_end_to_end` hold for the oracle families above -/
example : SimpDomain (.rdp false (1/2)) := by simp only [SimpDomain]; decide +kernel
example : ∀ l r, (oF.dst l r).length = r - l := by intro l r; simp [oF, dstF]
example : DetOKLarge 1 detF := by
  intro l r k _ h2
  unfold detF at h2
  split at h2 <;> simp at h2
  omega
example : ∀ ks, (labF ks).length = ks.length := by intro ks; simp [labF]
example : ∀ i, 0 < nptsF i := by intro i; unfold nptsF; split <;> omega

end Knee

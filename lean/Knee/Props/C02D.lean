import Knee.Lemmas.MultiKneeDet
/-!
# C02D — C02 for real detectors: the contract is only needed on ranges with more than `t2` points

The C02 theorems (`Props/C02.lean`) assume `DetOK det` on *every* range, but a real detector only
satisfies its range contract (`Props/C09.lean`) when the range is long enough — e.g. the curvature
knee `1 + argmax(crit[1:-1])` of a two-point range is `1`, which violates `k + 2 ≤ len`.
`multi_knee` never calls the detector on such a range: the test `len(pt) > t2` comes first.

* §1 `multiKnee_congr_large`: the loop, `multiKnee` and `multiKneeRec` depend on the detector only
  through its values on ranges with more than `t2` points.
* §2 `guard t2 det` (answer `none` on short ranges) satisfies `DetOK` as soon as `det` satisfies the
  contract on the large ranges (`DetOKLarge t2 det`), and `multiKnee (guard t2 det) = multiKnee det`.
  Hence every C02 theorem holds under `DetOKLarge` / `DetInteriorLarge`.
* §3 the five bundled detectors as `det` functions over their criterion oracles (`detCurv`,
  `detMenger`, `detDfdt`, `detLmethod`, `detKneedle`): contract on large ranges from C09 and the
  resulting well-formedness of `multiKnee`.

Oracles: the criterion arrays and the gate.  Naturals only; no tolerance.
-/
namespace Knee

variable {det det' : Nat → Nat → Option Nat} {gate : Nat → Nat → Bool} {t2 n : Nat}

/-! ## 1. Only the large ranges matter -/

/-- **C02D (congruence, loop).** Two detectors that agree on every range with more than `t2` points
give the same run of the work-stack loop, from every state and with every fuel. -/
theorem multiKneeLoop_congr (h : ∀ l r, r - l > t2 → det l r = det' l r)
    (f : Nat) (st : List (Nat × Nat)) (acc : List Nat) :
    multiKneeLoop det gate t2 f st acc = multiKneeLoop det' gate t2 f st acc :=
  multiKneeLoop_congr_large gate h f st acc

/-- **C02D (congruence, top level).** … hence the same `multi_knee` result. -/
theorem multiKnee_congr_large (h : ∀ l r, r - l > t2 → det l r = det' l r) :
    multiKnee det gate t2 n = multiKnee det' gate t2 n := by
  simp only [multiKnee, multiKneeLoop_congr_large gate h]

/-- **C02D (congruence, recursion).** … and the same in-order recursion. -/
theorem multiKneeRec_congr (h : ∀ l r, r - l > t2 → det l r = det' l r) (f l r : Nat) :
    multiKneeRec det gate t2 f l r = multiKneeRec det' gate t2 f l r :=
  multiKneeRec_congr_large gate h f l r

/-! ## 2. The guarded detector and the transfer of C02 -/

/-- **C02D (guard, contract).** If `det` satisfies the range contract on the ranges with more than
`t2` points then the guarded detector satisfies it everywhere. -/
theorem detOK_guard (h : ∀ l r k, r - l > t2 → det l r = some k → k + 2 ≤ r - l) :
    DetOK (guard t2 det) :=
  detOK_guard_aux h

/-- **C02D (guard, strict contract).** -/
theorem detInterior_guard (h : ∀ l r k, r - l > t2 → det l r = some k → 1 ≤ k ∧ k + 2 ≤ r - l) :
    DetInterior (guard t2 det) :=
  detInterior_guard_aux h

/-- **C02D (guard is invisible).** `multi_knee` cannot tell `det` from `guard t2 det`.  No
assumption on the detector. -/
theorem multiKnee_guard : multiKnee (guard t2 det) gate t2 n = multiKnee det gate t2 n :=
  multiKnee_guard_aux det gate t2 n

/-- **C02D (guard is invisible, recursion).** -/
theorem multiKneeRec_guard (f l r : Nat) :
    multiKneeRec (guard t2 det) gate t2 f l r = multiKneeRec det gate t2 f l r :=
  multiKneeRec_guard_aux det gate t2 f l r

/-- **C02D (termination).** `multiKnee_total` with the contract only on large ranges. -/
theorem multiKnee_total_large (h : DetOKLarge t2 det) (hn : 1 ≤ n) :
    ∃ ks, multiKnee det gate t2 n = some ks := by
  rw [← multiKnee_guard]
  exact multiKnee_total (detOK_guard h) hn

/-- **C02D (step count).** `multiKnee_steps` with the contract only on large ranges. -/
theorem multiKnee_steps_large (h : DetOKLarge t2 det) (hn : 1 ≤ n) :
    ∃ res, ∀ f, 2 * n ≤ f → multiKneeLoop det gate t2 f [(0, n)] [] = some res := by
  obtain ⟨res, hres⟩ := multiKnee_steps (gate := gate) (detOK_guard h) hn
  refine ⟨res, fun f hf => ?_⟩
  rw [← multiKneeLoop_guard]
  exact hres f hf

/-- **C02D (stack loop = recursion, guarded form).** -/
theorem multiKnee_eq_rec_large (h : DetOKLarge t2 det) (hn : 1 ≤ n) :
    multiKnee det gate t2 n = some (multiKneeRec (guard t2 det) gate t2 n 0 n) := by
  rw [← multiKnee_guard]
  exact multiKnee_eq_rec (detOK_guard h) hn

/-- **C02D (stack loop = recursion).** The recursion does not see the guard either, so the sorted
output of the work-stack loop is the in-order recursion of `det` itself. -/
theorem multiKnee_eq_rec_large' (h : DetOKLarge t2 det) (hn : 1 ≤ n) :
    multiKnee det gate t2 n = some (multiKneeRec det gate t2 n 0 n) := by
  rw [multiKnee_eq_rec_large h hn, multiKneeRec_guard]

/-- **C02D (fuel independence of the recursion).** -/
theorem multiKneeRec_fuel_large (h : DetOKLarge t2 det) (f f' l r : Nat) (hf : r - l ≤ f)
    (hf' : r - l ≤ f') : multiKneeRec det gate t2 f l r = multiKneeRec det gate t2 f' l r := by
  rw [← multiKneeRec_guard, ← multiKneeRec_guard (f := f')]
  exact multiKneeRec_fuel (detOK_guard h) f f' l r hf hf'

/-- **C02D (sorted, in range; recursion).** -/
theorem multiKneeRec_sorted_range_large (h : DetOKLarge t2 det) (f l r : Nat) :
    (multiKneeRec det gate t2 f l r).Pairwise (· < ·) ∧
      ∀ x ∈ multiKneeRec det gate t2 f l r, l ≤ x ∧ x + 2 ≤ r := by
  rw [← multiKneeRec_guard]
  exact multiKneeRec_sorted_range (detOK_guard h) f l r

/-- **C02D (interior; recursion).** -/
theorem multiKneeRec_interior_large (h : DetInteriorLarge t2 det) (f l r : Nat) :
    ∀ x ∈ multiKneeRec det gate t2 f l r, l + 1 ≤ x ∧ x + 2 ≤ r := by
  rw [← multiKneeRec_guard]
  exact multiKneeRec_interior (detInterior_guard h) f l r

/-- **C02D (sorted, in range; top level).** `multi_knee` terminates with a strictly increasing list
of indices, none of which is the last point. -/
theorem multiKnee_sorted_range_large (h : DetOKLarge t2 det) (hn : 1 ≤ n) :
    ∃ ks, multiKnee det gate t2 n = some ks ∧ ks.Pairwise (· < ·) ∧ ∀ x ∈ ks, x + 2 ≤ n := by
  rw [← multiKnee_guard]
  exact multiKnee_sorted_range (detOK_guard h) hn

/-- **C02D (interior; top level).** With a detector that is strictly interior on large ranges the
first point is never a knee either. -/
theorem multiKnee_interior_large (h : DetInteriorLarge t2 det) (hn : 1 ≤ n) :
    ∃ ks, multiKnee det gate t2 n = some ks ∧ ks.Pairwise (· < ·) ∧
      ∀ x ∈ ks, 1 ≤ x ∧ x + 2 ≤ n := by
  rw [← multiKnee_guard]
  exact multiKnee_interior (detInterior_guard h) hn

/-- **C02D (self-similarity).** -/
theorem multiKnee_self_similar_large (h : DetOKLarge t2 det) (hn : 1 ≤ n) (h1 : n > t2)
    (h2 : gate 0 n = true) (k : Nat) (hk : det 0 n = some k) :
    multiKnee det gate t2 n =
      some (multiKneeRec det gate t2 n 0 (k + 1) ++ k :: multiKneeRec det gate t2 n (k + 1) n) := by
  rw [← multiKnee_guard, multiKnee_self_similar (detOK_guard h) hn h1 h2 k
    (by rw [guard_of_large (by omega)]; exact hk), multiKneeRec_guard, multiKneeRec_guard]

/-! ## 3. The bundled detectors -/

/-! ### curvature -/

/-- **C02D (curvature, contract).** With one criterion value per point, the curvature knee of a
range with more than `t2 ≥ 2` points is strictly interior. -/
theorem detCurv_large {crit : Nat → Nat → List Rat} (hc : ∀ l r, (crit l r).length = r - l)
    (ht : 2 ≤ t2) : DetInteriorLarge t2 (detCurv crit) :=
  detCurv_large_aux hc ht

/-- **C02D (curvature).** `multi_knee` with the curvature detector terminates with strictly
increasing knees inside `[1, n - 2]`. -/
theorem multiKnee_curv_wf {crit : Nat → Nat → List Rat} (hc : ∀ l r, (crit l r).length = r - l)
    (ht : 2 ≤ t2) (hn : 1 ≤ n) :
    ∃ ks, multiKnee (detCurv crit) gate t2 n = some ks ∧ ks.Pairwise (· < ·) ∧
      ∀ x ∈ ks, 1 ≤ x ∧ x + 2 ≤ n :=
  multiKnee_interior_large (detCurv_large hc ht) hn

/-! ### Menger -/

/-- **C02D (Menger, contract).** With one curvature per consecutive triple, the Menger knee of a
range with more than `t2 ≥ 2` points is never the last point (it is `0` on a flat range). -/
theorem detMenger_large {mc : Nat → Nat → List Rat} (hc : ∀ l r, (mc l r).length = r - l - 2)
    (ht : 2 ≤ t2) : DetOKLarge t2 (detMenger mc) :=
  detMenger_large_aux hc ht

/-- **C02D (Menger).** `multi_knee` with the Menger detector terminates with strictly increasing
knees inside `[0, n - 2]`. -/
theorem multiKnee_menger_wf {mc : Nat → Nat → List Rat} (hc : ∀ l r, (mc l r).length = r - l - 2)
    (ht : 2 ≤ t2) (hn : 1 ≤ n) :
    ∃ ks, multiKnee (detMenger mc) gate t2 n = some ks ∧ ks.Pairwise (· < ·) ∧
      ∀ x ∈ ks, x + 2 ≤ n :=
  multiKnee_sorted_range_large (detMenger_large hc ht) hn

/-! ### DFDT -/

/-- **C02D (DFDT, contract).** -/
theorem detDfdt_large {diffs : Nat → Nat → Nat → List Rat}
    (hd : ∀ l r c, (diffs l r c).length = (r - l) - c) (ht : 2 ≤ t2) :
    DetInteriorLarge t2 (detDfdt diffs) :=
  detDfdt_large_aux hd ht

/-- **C02D (DFDT).** `multi_knee` with the DFDT detector terminates with strictly increasing knees
inside `[1, n - 2]`. -/
theorem multiKnee_dfdt_wf {diffs : Nat → Nat → Nat → List Rat}
    (hd : ∀ l r c, (diffs l r c).length = (r - l) - c) (ht : 2 ≤ t2) (hn : 1 ≤ n) :
    ∃ ks, multiKnee (detDfdt diffs) gate t2 n = some ks ∧ ks.Pairwise (· < ·) ∧
      ∀ x ∈ ks, 1 ≤ x ∧ x + 2 ≤ n :=
  multiKnee_interior_large (detDfdt_large hd ht) hn

/-! ### L-method -/

/-- **C02D (L-method, contract).** For every refinement option, on a range with more than
`t2 ≥ 4` points the returned split `k` satisfies `2 ≤ k ≤ len - 3`; in particular it is interior. -/
theorem detLmethod_large {errs : Nat → Nat → Nat → List Rat} {limit : Nat}
    (he : ∀ l r len, (errs l r len).length = len - 4) (ht : 4 ≤ t2) (hl : 4 ≤ limit)
    (mode : Refinement) : DetInteriorLarge t2 (detLmethod errs mode limit) :=
  detLmethod_large_aux he ht hl mode

/-- **C02D (L-method, the detector answers).** On a range with more than `t2 ≥ 4` points the
L-method always returns a knee (its own loop terminates). -/
theorem detLmethod_some {errs : Nat → Nat → Nat → List Rat} {limit : Nat}
    (he : ∀ l r len, (errs l r len).length = len - 4) (ht : 4 ≤ t2) (hl : 4 ≤ limit)
    (mode : Refinement) (l r : Nat) (hlr : r - l > t2) :
    ∃ k, detLmethod errs mode limit l r = some k ∧ 2 ≤ k ∧ k + 3 ≤ r - l :=
  lmethod_refine_total (he l r) (by omega) hl mode

/-- **C02D (L-method).** `multi_knee` with the L-method detector terminates with strictly
increasing knees inside `[1, n - 2]`. -/
theorem multiKnee_lmethod_wf {errs : Nat → Nat → Nat → List Rat} {limit : Nat}
    (he : ∀ l r len, (errs l r len).length = len - 4) (ht : 4 ≤ t2) (hl : 4 ≤ limit)
    (mode : Refinement) (hn : 1 ≤ n) :
    ∃ ks, multiKnee (detLmethod errs mode limit) gate t2 n = some ks ∧ ks.Pairwise (· < ·) ∧
      ∀ x ∈ ks, 1 ≤ x ∧ x + 2 ≤ n :=
  multiKnee_interior_large (detLmethod_large he ht hl mode) hn

/-! ### Kneedle -/

/-- **C02D (Kneedle, contract).** A strict peak is interior on every range: Kneedle satisfies the
strict contract without any assumption on `t2`. -/
theorem detKneedle_interior {dd : Nat → Nat → List Rat} (hd : ∀ l r, (dd l r).length = r - l) :
    DetInterior (detKneedle dd) :=
  detKneedle_interior_aux hd

/-- **C02D (Kneedle).** `multi_knee` with the Kneedle detector terminates with strictly increasing
knees inside `[1, n - 2]`, for every `t2`. -/
theorem multiKnee_kneedle_wf {dd : Nat → Nat → List Rat} (hd : ∀ l r, (dd l r).length = r - l)
    (hn : 1 ≤ n) :
    ∃ ks, multiKnee (detKneedle dd) gate t2 n = some ks ∧ ks.Pairwise (· < ·) ∧
      ∀ x ∈ ks, 1 ≤ x ∧ x + 2 ≤ n :=
  multiKnee_interior (detKneedle_interior hd) hn

/-! ## Non-vacuity

Concrete oracles satisfying the length hypotheses; the detectors really are called on several
levels of the recursion; and the gap closed here is real: the bare curvature detector violates
`DetOK` on a two-point range, so `Props/C02.lean` alone does not apply to it. -/

private def critArr : List Rat := [0, 1, 6, 2, 9, 3, 3, 7, 1, 4, 0, 0]

/-- criterion oracle for the examples: the slice `critArr[l:r]` (zero-padded) -/
private def critEx : Nat → Nat → List Rat := fun l r =>
  (List.range (r - l)).map fun i => critArr[l + i]?.getD 0

/-- Menger oracle for the examples: one value per interior point of `points[l:r]` -/
private def mcEx : Nat → Nat → List Rat := fun l r =>
  (List.range (r - l - 2)).map fun i => critArr[l + i + 1]?.getD 0

/-- DFDT oracle for the examples (the C09 example oracle on every range) -/
private def diffsEx2 : Nat → Nat → Nat → List Rat := fun l r c =>
  (List.range (r - l - c)).map fun (i : Nat) => ((((i : Int) - c - 1) ^ 2 : Int) : Rat)

/-- L-method oracle for the examples: best split near the middle of the sub-curve, shifted by `l` -/
private def errsEx2 : Nat → Nat → Nat → List Rat := fun l _ len =>
  (List.range (len - 4)).map fun (i : Nat) =>
    ((((i : Int) + l - ((len - 4) / 2 : Nat)) ^ 2 : Int) : Rat)

example : ∀ l r, (critEx l r).length = r - l := by intro l r; simp [critEx]
example : ∀ l r, (mcEx l r).length = r - l - 2 := by intro l r; simp [mcEx]
example : ∀ l r c, (diffsEx2 l r c).length = (r - l) - c := by intro l r c; simp [diffsEx2]
example : ∀ l r len, (errsEx2 l r len).length = len - 4 := by intro l r len; simp [errsEx2]

/-- the bare detector is *not* `DetOK`: on the two-point range `[0, 2)` it answers `1` -/
example : ¬ DetOK (detCurv critEx) := by
  intro h
  have := h 0 2 1 (by decide +kernel)
  omega

example : multiKnee (detCurv critEx) (fun _ _ => true) 2 12 = some [1, 2, 4, 6, 7, 9] := by
  decide +kernel
example : multiKnee (detCurv critEx) (fun _ _ => true) 3 12 = some [2, 4, 7, 9] := by
  decide +kernel
example : multiKnee (detCurv critEx) (fun l r => r - l != 7) 2 12 = some [1, 2, 4] := by
  decide +kernel
example : multiKnee (guard 2 (detCurv critEx)) (fun _ _ => true) 2 12
    = multiKnee (detCurv critEx) (fun _ _ => true) 2 12 := by decide +kernel
example : multiKnee (detMenger mcEx) (fun _ _ => true) 2 12 = some [1, 2, 4, 6, 7, 9] := by
  decide +kernel
example : multiKnee (detKneedle critEx) (fun _ _ => true) 0 12 = some [2, 4, 7, 9] := by
  decide +kernel
example : multiKnee (detDfdt diffsEx2) (fun _ _ => true) 2 12
    = some [1, 2, 3, 4, 5, 6, 7, 8, 9, 10] := by decide +kernel
example : multiKnee (detLmethod errsEx2 .none 4) (fun _ _ => true) 4 20
      = some [3, 5, 8, 10, 13, 16]
    ∧ multiKnee (detLmethod errsEx2 .original 4) (fun _ _ => true) 4 20
      = some [3, 5, 8, 10, 13, 16]
    ∧ multiKnee (detLmethod errsEx2 .adjusted 4) (fun _ _ => true) 4 20
      = some [2, 5, 8, 11, 14, 17] := by decide +kernel

end Knee

import Knee.Lemmas.ElbowD
/-!
# C03 (part D) — the L-method returns the corner of an exact elbow for every Fit × Cost option and
every refinement option

Model: `Knee/Model/LMethodQ.lean` (`olsRss`, `lmErrGen`, `lmErrsGen`, `lmethodKneeGen`: the
fitting error of `lmethod.compute_error` for `fit ∈ {point_fit, best_fit}` × `cost ∈ {rss, rmse}`
over ℚ) plugged into the Layer-S scan and refinement loop of `Knee/Model/Detectors.lean`.
`sq : ℚ → ℚ` stands for `math.sqrt`; only `sq 0 = 0` and `0 < v → 0 < sq v` are used.
An elbow (`IsElbow x y n c s1 s2`) has strictly increasing abscissae and exactly two straight arms
of slopes `s1 ≠ s2` meeting at index `c`, each with at least three segments.

Exact rational arithmetic; no tolerance, no oracle.  Helper lemmas: `Lemmas/ElbowD.lean`.
-/
namespace Knee

variable {x y : Nat → Rat} {n c : Nat} {s1 s2 : Rat} {sq : Rat → Rat}

/-! ## 1. Least squares -/

/-- the least-squares residual is a sum of squares -/
theorem ols_rss_nonneg (xs ys : List Rat) : 0 ≤ olsRss xs ys := olsRss_nonneg xs ys

/-- points that lie on one line `y = a + s x` (at least two distinct abscissae) are fitted
exactly by least squares -/
theorem ols_rss_collinear (x y : Nat → Rat) (a s : Rat) (L : List Nat) (p q : Nat)
    (hp : p ∈ L) (hq : q ∈ L) (hne : x p ≠ x q) (hline : ∀ k ∈ L, y k = a + s * x k) :
    olsRss (L.map x) (L.map y) = 0 := olsRss_collinear x y a s L p q hp hq hne hline

/-- three points `p, q, r` with increasing abscissae, `p q` on slope `s1` and `q r` on slope
`s2 ≠ s1`, cannot be fitted exactly: the least-squares residual is positive -/
theorem ols_rss_pos_of_not_collinear (x y : Nat → Rat) (s1 s2 : Rat) (L : List Nat) (p q r : Nat)
    (hp : p ∈ L) (hq : q ∈ L) (hr : r ∈ L) (h1 : x p < x q) (h2 : x q < x r) (hs : s1 ≠ s2)
    (e1 : y p = y q + s1 * (x p - x q)) (e3 : y r = y q + s2 * (x r - x q)) :
    0 < olsRss (L.map x) (L.map y) :=
  olsRss_pos_of_not_collinear x y s1 s2 L p q r hp hq hr h1 h2 hs e1 e3

/-! ## 2. The error of every Fit × Cost option on an elbow and on its prefixes -/

/-- on the first `len` points (`c + 3 ≤ len ≤ n`) the split at the corner has error `0`, for
`bestfit ∈ {false, true}` and `rmse ∈ {false, true}` … -/
theorem lmErrGen_elbow_corner_prefix (h : IsElbow x y n c s1 s2) (hsq0 : sq 0 = 0)
    (bestfit rmse : Bool) (len : Nat) (hc : c + 3 ≤ len) (hn : len ≤ n) :
    lmErrGen sq bestfit rmse x y len c = 0 := h.lmErrGen_corner hsq0 bestfit rmse len hc hn

/-- … and every other admissible split `2 ≤ i ≤ len - 3` has strictly positive error -/
theorem lmErrGen_elbow_off_prefix (h : IsElbow x y n c s1 s2) (hsq0 : sq 0 = 0)
    (hsqpos : ∀ v, 0 < v → 0 < sq v) (bestfit rmse : Bool) (len : Nat) (hc : c + 3 ≤ len)
    (hn : len ≤ n) (i : Nat) (hi2 : 2 ≤ i) (hin : i + 3 ≤ len) (hic : i ≠ c) :
    0 < lmErrGen sq bestfit rmse x y len i :=
  h.lmErrGen_off hsq0 hsqpos bestfit rmse len hc hn i hi2 hin hic

/-- full curve: error `0` at the corner -/
theorem lmErrGen_elbow_corner (h : IsElbow x y n c s1 s2) (hsq0 : sq 0 = 0) (bestfit rmse : Bool) :
    lmErrGen sq bestfit rmse x y n c = 0 :=
  h.lmErrGen_corner hsq0 bestfit rmse n (by have := h.arm2; omega) (Nat.le_refl n)

/-- full curve: positive error at every other admissible split -/
theorem lmErrGen_elbow_off (h : IsElbow x y n c s1 s2) (hsq0 : sq 0 = 0)
    (hsqpos : ∀ v, 0 < v → 0 < sq v) (bestfit rmse : Bool) (i : Nat) (hi2 : 2 ≤ i)
    (hin : i + 3 ≤ n) (hic : i ≠ c) : 0 < lmErrGen sq bestfit rmse x y n i :=
  h.lmErrGen_off hsq0 hsqpos bestfit rmse n (by have := h.arm2; omega) (Nat.le_refl n) i hi2 hin hic

/-! ## 3. One scan -/

/-- **C03 (L-method, one scan on a prefix).** On the first `len` points of an exact elbow, with
at least three points of the right arm kept (`c + 3 ≤ len ≤ n`), the first minimum of the error
over the splits `2 … len-3` is the corner — for all four Fit × Cost options. -/
theorem lmethod_scan_elbow_prefix (h : IsElbow x y n c s1 s2) (hsq0 : sq 0 = 0)
    (hsqpos : ∀ v, 0 < v → 0 < sq v) (bestfit rmse : Bool) (len : Nat) (hc : c + 3 ≤ len)
    (hn : len ≤ n) : lmethodScan (lmErrsGen sq bestfit rmse x y len) = c :=
  h.scan_prefix hsq0 hsqpos bestfit rmse len hc hn

/-- **C03 (L-method, one scan, every Fit × Cost).** `get_knee` on the full curve returns the
corner for `point_fit`/`best_fit` × `rss`/`rmse`. -/
theorem lmethod_scan_elbow_gen (h : IsElbow x y n c s1 s2) (hsq0 : sq 0 = 0)
    (hsqpos : ∀ v, 0 < v → 0 < sq v) (bestfit rmse : Bool) :
    lmethodScan (lmErrsGen sq bestfit rmse x y n) = c :=
  h.scan_prefix hsq0 hsqpos bestfit rmse n (by have := h.arm2; omega) (Nat.le_refl n)

/-! ## 4. `lmethod.knee` with each refinement option -/

/-- **C03 (L-method, no refinement).** One scan on the full curve: the corner, for both fits and
every `limit`. -/
theorem lmethod_elbow_gen_none (h : IsElbow x y n c s1 s2) (hsq0 : sq 0 = 0)
    (hsqpos : ∀ v, 0 < v → 0 < sq v) (bestfit : Bool) (limit : Nat) :
    lmethodKneeGen sq bestfit x y .none n limit = some c := by
  have h2 := h.arm2
  exact lmethodKnee_none_of_scan _ n limit c (h.scanAt hsq0 hsqpos bestfit true n (by omega))

/-- **C03 (L-method, original refinement).** Round 1 finds the corner `c`; the next cutoff
`max limit (min (2c) n) ≥ c + 2` keeps at least `c + 3` points, so round 2 finds `c` again and the
paper's stopping rule ends the loop with `c`.  Holds for both fits and every `limit`. -/
theorem lmethod_elbow_gen_original (h : IsElbow x y n c s1 s2) (hsq0 : sq 0 = 0)
    (hsqpos : ∀ v, 0 < v → 0 < sq v) (bestfit : Bool) (limit : Nat) :
    lmethodKneeGen sq bestfit x y .original n limit = some c := by
  have h2 := h.arm2
  exact lmethodKnee_original_of_scan _ n limit c h.arm1 (by omega)
    (fun cutoff hc => h.scanAt hsq0 hsqpos bestfit true cutoff hc)

/-- **C03 (L-method, adjusted refinement).** Round 1 finds the corner `c`; the next cutoff
`max limit ((c + n) / 2) ≥ c + 2` keeps at least `c + 3` points, so round 2 finds `c` again and
the loop stops because the knee did not move.  Holds for both fits and every `limit`. -/
theorem lmethod_elbow_gen_adjusted (h : IsElbow x y n c s1 s2) (hsq0 : sq 0 = 0)
    (hsqpos : ∀ v, 0 < v → 0 < sq v) (bestfit : Bool) (limit : Nat) :
    lmethodKneeGen sq bestfit x y .adjusted n limit = some c := by
  have h2 := h.arm2
  exact lmethodKnee_adjusted_of_scan _ n limit c (by omega)
    (fun cutoff hc => h.scanAt hsq0 hsqpos bestfit true cutoff hc)

/-- every refinement option at once -/
theorem lmethod_elbow_gen (h : IsElbow x y n c s1 s2) (hsq0 : sq 0 = 0)
    (hsqpos : ∀ v, 0 < v → 0 < sq v) (bestfit : Bool) (mode : Refinement) (limit : Nat) :
    lmethodKneeGen sq bestfit x y mode n limit = some c := by
  cases mode
  · exact lmethod_elbow_gen_none h hsq0 hsqpos bestfit limit
  · exact lmethod_elbow_gen_original h hsq0 hsqpos bestfit limit
  · exact lmethod_elbow_gen_adjusted h hsq0 hsqpos bestfit limit

/-! ## 5. Non-vacuity: the sample elbow of `Props/C03A.lean` with `sq = id` -/

/-- the identity satisfies both hypotheses on `sq` -/
theorem id_sq_hyps : (fun v : Rat => v) 0 = 0 ∧ ∀ v : Rat, 0 < v → 0 < (fun v : Rat => v) v :=
  ⟨rfl, fun _ hv => hv⟩

/-- the model computes the corner of the sample (point fit: all refinement options) … -/
example : lmethodKneeGen (fun v => v) false (fun i => (i : Rat)) sampleElbowY .none 9 4 = some 4 := by
  decide +kernel
example : lmethodKneeGen (fun v => v) false (fun i => (i : Rat)) sampleElbowY .original 9 4 = some 4 := by
  decide +kernel
example : lmethodKneeGen (fun v => v) false (fun i => (i : Rat)) sampleElbowY .adjusted 9 4 = some 4 := by
  decide +kernel
/-- … and with the least-squares fit -/
example : lmethodKneeGen (fun v => v) true (fun i => (i : Rat)) sampleElbowY .none 9 4 = some 4 := by
  decide +kernel
example : lmethodKneeGen (fun v => v) true (fun i => (i : Rat)) sampleElbowY .original 9 4 = some 4 := by
  decide +kernel
example : lmethodKneeGen (fun v => v) true (fun i => (i : Rat)) sampleElbowY .adjusted 9 4 = some 4 := by
  decide +kernel
/-- the theorems agree with the computation -/
example (bestfit : Bool) (mode : Refinement) (limit : Nat) :
    lmethodKneeGen (fun v => v) bestfit (fun i => (i : Rat)) sampleElbowY mode 9 limit = some 4 :=
  lmethod_elbow_gen sampleElbow_isElbow id_sq_hyps.1 id_sq_hyps.2 bestfit mode limit
/-- the errors are non-trivial on the sample: zero at the corner only, on the full curve and on
the shortest admissible prefix (`len = c + 3 = 7`, which is not itself an elbow) -/
example : lmErrsGen (fun v => v) true true (fun i => (i : Rat)) sampleElbowY 9
    = [10125 / 3584, 9375 / 14336, 0, 9375 / 14336, 10125 / 3584] := by decide +kernel
example : lmErrsGen (fun v => v) true true (fun i => (i : Rat)) sampleElbowY 7
    = [35 / 32, 135 / 512, 0] := by decide +kernel
example : (lmErrsGen (fun v => v) false false (fun i => (i : Rat)) sampleElbowY 9).map
    (fun e => decide (e = 0)) = [false, false, true, false, false] := by decide +kernel

end Knee

import Knee.Lemmas.Invariance
import Knee.Props.C11
import Knee.Props.C13
import Knee.Props.C14
import Knee.Props.C16
import Knee.Props.C17
import Knee.Props.C18
/-!
# Invariance — the exact (Layer N) models do not depend on absolute magnitude

The harness feeds every check with curves at ~1e-9 scale, at ~1e9 scale and with large common
offsets.  That is sound because the *definitions* of the numeric primitives are homogeneous and
translation invariant: a change of units (`x ↦ sx·x`, `y ↦ sy·y`) or of origin (`p ↦ p + v`)
changes the exact value by a known power of the scale, or not at all.  Consequently any dependence
of the Python (float) result on absolute magnitude can only come from *absolute constants in the
code* (an `eps`, an absolute tolerance, a hard-coded threshold) or from rounding — which is exactly
what the magnitude variants of the generators are meant to expose.  This file makes the premise a
theorem, model by model, and pins down the places where it is false.

Notation: `p + v` translation, `s • p` uniform scaling, `axScale sx sy p = (sx·p.1, sy·p.2)`,
`axMap sx sy v p = axScale sx sy p + v` (helpers in `Lemmas/Invariance.lean`); lists are mapped
element-wise (`List.map`).  Everything is over ℚ, for *all* inputs (degenerate ones included:
division by zero is `0` on both sides).

Found FALSE for the models as written (negations proved below):
* `perpSq`, `shortestSq`, `mengerSq` are not homogeneous under *independent* axis scaling
  (`perpSq_not_axScale_homogeneous`, `shortestSq_not_axScale_homogeneous`,
  `mengerSq_not_axScale_homogeneous`): distances and curvature need a common unit on both axes;
* `r2Q` is not scale invariant when `y` is constant (`tssQ y = 0`, the code then returns
  `1 - rss`, an absolute quantity): `r2Q_not_scale_invariant`; it is invariant whenever
  `tssQ y ≠ 0` (`r2Q_affine`) and always shift invariant (`r2Q_shift`);
* `distCentroid` is affine invariant only for `start < i` (an empty cluster has mean `0/0 = 0`,
  an absolute constant): `distCentroid_not_affine_empty`; the linkage skeleton never asks for
  `start ≥ i`, so the labels are invariant (`centroidLinkage_affine`);
* the eps-guarded ratio metrics `smapeQ`, `rpdQ`, `rmspeSq` are not scale invariant
  (`smapeQ_not_scale_invariant`, …); the absolute guard `epsM` is the *only* scale dependence
  (`smapeQ_scale`, …: scaling the data by `s` is the same as dividing the guard by `s`);
* (bonus, §8) `kneedleDiffQ` is invariant only when the first and last x differ; otherwise the
  concavity vote degenerates to `Σ y` (`kneedleDiffQ_not_shift_invariant_degenerate`).
-/
namespace Knee

/-! ## 1. Geometry (C17): distances, curvature, triangle area -/

/-- `linear_fit.perpendicular_distance_points` does not depend on the origin: moving the point and
the line by the same vector leaves the (squared) distance unchanged.  Generators may add any common
offset; a float disagreement is then pure cancellation error. -/
theorem perpSq_translate (p a b v : P2) : perpSq (p + v) (a + v) (b + v) = perpSq p a b := by
  simp [perpSq]

/-- `perpendicular_distance_points` is homogeneous of degree 1 (squared: degree 2) in a common
unit, for every `s` (also `s ≤ 0`, and also for `a = b`).  RDP-style comparisons
`distance > t·scale` therefore are unit-free as long as the threshold scales along. -/
theorem perpSq_scale (s : Rat) (p a b : P2) :
    perpSq (s • p) (s • a) (s • b) = s ^ 2 * perpSq p a b := by
  simp only [perpSq, sub_smul_smul, cross_smul_smul, normSq_smul]
  by_cases hs : s = 0
  · simp [hs]
  · rw [show s ^ 2 * cross (sub b a) (sub p a) * (s ^ 2 * cross (sub b a) (sub p a))
        = s ^ 2 * (s ^ 2 * (cross (sub b a) (sub p a) * cross (sub b a) (sub p a))) by ring,
      mul_div_mul_left _ _ (pow_ne_zero 2 hs), mul_div_assoc]

/-- FALSE under independent axis scaling: there is no factor `c` with
`perpSq (x doubled) = c · perpSq`.  A horizontal base line gives `c = 1`, a vertical one `c = 4`.
Generators must scale both axes by the same factor when they compare distances (or normalise
first, as the library does). -/
theorem perpSq_not_axScale_homogeneous :
    ¬ ∃ c : Rat, ∀ p a b : P2,
      perpSq (axScale 2 1 p) (axScale 2 1 a) (axScale 2 1 b) = c * perpSq p a b := by
  rintro ⟨c, hc⟩
  have h1 := hc (0, 1) (0, 0) (1, 0)
  have h2 := hc (1, 0) (0, 0) (0, 1)
  have e1 : perpSq (axScale 2 1 (0, 1)) (axScale 2 1 (0, 0)) (axScale 2 1 (1, 0)) = 1 := by
    decide +kernel
  have e2 : perpSq ((0, 1) : P2) (0, 0) (1, 0) = 1 := by decide +kernel
  have e3 : perpSq (axScale 2 1 (1, 0)) (axScale 2 1 (0, 0)) (axScale 2 1 (0, 1)) = 4 := by
    decide +kernel
  have e4 : perpSq ((1, 0) : P2) (0, 0) (0, 1) = 1 := by decide +kernel
  rw [e1, e2] at h1
  rw [e3, e4] at h2
  linarith

/-- `linear_fit.shortest_distance_points` (distance to the closed segment) does not depend on the
origin; the degenerate branch `a == b` is taken for the same inputs. -/
theorem shortestSq_translate (p a b v : P2) :
    shortestSq (p + v) (a + v) (b + v) = shortestSq p a b := by
  simp [shortestSq]

/-- `shortest_distance_points` is homogeneous of degree 1 (squared: 2) in a common unit, for every
`s`; the clamping `max(S, T, 0)` and the `a == b` branch commute with the scaling. -/
theorem shortestSq_scale (s : Rat) (p a b : P2) :
    shortestSq (s • p) (s • a) (s • b) = s ^ 2 * shortestSq p a b := by
  by_cases hs : s = 0
  · subst hs
    simp [shortestSq, normSq, dot, sub]
  · have h2 : (0 : Rat) ≤ s ^ 2 := sq_nonneg s
    simp only [shortestSq, sub_smul_smul, cross_smul_smul, normSq_smul, dot_smul_smul,
      smul_inj_P2 hs]
    split_ifs
    · rfl
    · rw [rmax_mul_left h2, show (0 : Rat) = s ^ 2 * 0 by ring, rmax_mul_left h2]
      simp only [mul_zero]
      generalize rmax (rmax _ _) 0 = h
      generalize cross _ _ = c
      rw [show s ^ 2 * h * (s ^ 2 * h) + s ^ 2 * c * (s ^ 2 * c)
          = s ^ 2 * (s ^ 2 * (h * h + c * c)) by ring,
        mul_div_mul_left _ _ (pow_ne_zero 2 hs), mul_div_assoc]

/-- FALSE under independent axis scaling (same two instances as for `perpSq`). -/
theorem shortestSq_not_axScale_homogeneous :
    ¬ ∃ c : Rat, ∀ p a b : P2,
      shortestSq (axScale 2 1 p) (axScale 2 1 a) (axScale 2 1 b) = c * shortestSq p a b := by
  rintro ⟨c, hc⟩
  have h1 := hc (0, 1) (0, 0) (1, 0)
  have h2 := hc (1, 0) (0, 0) (0, 1)
  have e1 : shortestSq (axScale 2 1 (0, 1)) (axScale 2 1 (0, 0)) (axScale 2 1 (1, 0)) = 1 := by
    decide +kernel
  have e2 : shortestSq ((0, 1) : P2) (0, 0) (1, 0) = 1 := by decide +kernel
  have e3 : shortestSq (axScale 2 1 (1, 0)) (axScale 2 1 (0, 0)) (axScale 2 1 (0, 1)) = 4 := by
    decide +kernel
  have e4 : shortestSq ((1, 0) : P2) (0, 0) (0, 1) = 1 := by decide +kernel
  rw [e1, e2] at h1
  rw [e3, e4] at h2
  linarith

/-- `menger.menger_curvature` does not depend on the origin. -/
theorem mengerSq_translate (f g h v : P2) :
    mengerSq (f + v) (g + v) (h + v) = mengerSq f g h := by
  simp [mengerSq]

/-- Curvature is homogeneous of degree −1 (squared: −2) in a common unit, for every `s`
(`s = 0` gives `0 = x / 0`): blowing a curve up by `s` divides the Menger curvature by `|s|`, so
the *ranking* of the points by curvature (all `menger` uses) does not change. -/
theorem mengerSq_scale (s : Rat) (f g h : P2) :
    mengerSq (s • f) (s • g) (s • h) = mengerSq f g h / s ^ 2 := by
  simp only [mengerSq, sub_smul_smul, cross_smul_smul, normSq_smul]
  by_cases hs : s = 0
  · simp [hs]
  · generalize cross _ _ = c
    generalize normSq (sub g f) = n1
    generalize normSq (sub h g) = n2
    generalize normSq (sub f h) = n3
    rw [div_div, show 4 * (s ^ 2 * c) * (s ^ 2 * c) = s ^ 4 * (4 * c * c) by ring,
      show s ^ 2 * n1 * (s ^ 2 * n2) * (s ^ 2 * n3) = s ^ 4 * (n1 * n2 * n3 * s ^ 2) by ring,
      mul_div_mul_left _ _ (pow_ne_zero 4 hs)]

/-- Menger curvature is invariant under the cyclic permutation of its arguments; together with
`mengerSq_symm_swap12` / `mengerSq_symm_swap23` (C17) this covers all six permutations. -/
theorem mengerSq_rotate (f g h : P2) : mengerSq f g h = mengerSq g h f := by
  rw [mengerSq_symm_swap12 f g h, mengerSq_symm_swap23 g f h]

/-- Menger curvature does not depend on the direction in which the curve is traversed. -/
theorem mengerSq_reverse (f g h : P2) : mengerSq f g h = mengerSq h g f := by
  rw [mengerSq_rotate f g h, mengerSq_symm_swap12 g h f]

/-- the sixth permutation -/
theorem mengerSq_rotate' (f g h : P2) : mengerSq f g h = mengerSq h f g := by
  rw [mengerSq_rotate f g h, mengerSq_rotate g h f]

/-- FALSE under independent axis scaling: curvature is not a unit-free notion when the two axes
carry different units (the library normalises the curve before calling `menger`). -/
theorem mengerSq_not_axScale_homogeneous :
    ¬ ∃ c : Rat, ∀ f g h : P2,
      mengerSq (axScale 2 1 f) (axScale 2 1 g) (axScale 2 1 h) = c * mengerSq f g h := by
  rintro ⟨c, hc⟩
  have h1 := hc (0, 0) (1, 0) (0, 1)
  have h2 := hc (0, 0) (1, 1) (2, 0)
  have e1 : mengerSq (axScale 2 1 (0, 0)) (axScale 2 1 (1, 0)) (axScale 2 1 (0, 1)) = 4 / 5 := by
    decide +kernel
  have e2 : mengerSq ((0, 0) : P2) (1, 0) (0, 1) = 2 := by decide +kernel
  have e3 : mengerSq (axScale 2 1 (0, 0)) (axScale 2 1 (1, 1)) (axScale 2 1 (2, 0)) = 4 / 25 := by
    decide +kernel
  have e4 : mengerSq ((0, 0) : P2) (1, 1) (2, 0) = 1 := by decide +kernel
  rw [e1, e2] at h1
  rw [e3, e4] at h2
  linarith

/-- `postprocessing.triangle_area` (signed) does not depend on the origin. -/
theorem triArea_translate (p0 p1 p2 v : P2) :
    triArea (p0 + v) (p1 + v) (p2 + v) = triArea p0 p1 p2 := by
  simp [triArea]; ring

/-- `triangle_area` is homogeneous of degree 2 in a common unit (sign included, every `s`). -/
theorem triArea_scale (s : Rat) (p0 p1 p2 : P2) :
    triArea (s • p0) (s • p1) (s • p2) = s ^ 2 * triArea p0 p1 p2 := by
  simp [triArea]; ring

/-- Unlike distances, the triangle area is also well behaved under *independent* axis scaling: it is
multiplied by `sx·sy`, so its sign (orientation of the corner) is unit-free for `sx·sy > 0`. -/
theorem triArea_axMap (sx sy : Rat) (v p0 p1 p2 : P2) :
    triArea (axMap sx sy v p0) (axMap sx sy v p1) (axMap sx sy v p2)
      = sx * sy * triArea p0 p1 p2 := by
  simp [triArea, axMap]; ring

/-! ## 2. Rectangles (C13/C17): intersection over union -/

/-- `knee_ranking.rect` commutes with a change of units and origin (positive — here even
non-negative — factors keep "lower-left / upper-right"). -/
theorem rect_axMap {sx sy : Rat} (hx : 0 ≤ sx) (hy : 0 ≤ sy) (v p q : P2) :
    rect (axMap sx sy v p) (axMap sx sy v q)
      = (axMap sx sy v (rect p q).1, axMap sx sy v (rect p q).2) := by
  simp only [rect, axMap, rmin_affine hx, rmin_affine hy, rmax_affine hx, rmax_affine hy]

/-- `knee_ranking.rect_overlap` (IoU) is invariant under translation and *independent* positive
scaling of the two axes: overlap area and union area both pick up the factor `sx·sy`, and the test
`overlap > 0` is unaffected.  The corner filter threshold `t` on the IoU is therefore unit-free;
any magnitude dependence of `filter_corner_knees` comes from rounding only. -/
theorem rectOverlap_axMap {sx sy : Rat} (hx : 0 < sx) (hy : 0 < sy) (v amin amax bmin bmax : P2) :
    rectOverlap (axMap sx sy v amin) (axMap sx sy v amax) (axMap sx sy v bmin) (axMap sx sy v bmax)
      = rectOverlap amin amax bmin bmax := by
  have hxy : 0 < sx * sy := mul_pos hx hy
  simp only [rectOverlap, axMap, rmin_affine hx.le, rmin_affine hy.le, rmax_affine hx.le,
    rmax_affine hy.le]
  have e1 : ∀ a b c : Rat, sx * a + c - (sx * b + c) = sx * (a - b) := by intros; ring
  have e2 : ∀ a b c : Rat, sy * a + c - (sy * b + c) = sy * (a - b) := by intros; ring
  simp only [e1, e2, rmax_zero_mul hx.le, rmax_zero_mul hy.le, rabs_mul_left hx.le,
    rabs_mul_left hy.le]
  generalize rmax 0 (rmin amax.1 bmax.1 - rmax amin.1 bmin.1) = dx
  generalize rmax 0 (rmin amax.2 bmax.2 - rmax amin.2 bmin.2) = dy
  generalize rabs (amax.1 - amin.1) = a1
  generalize rabs (amax.2 - amin.2) = a2
  generalize rabs (bmax.1 - bmin.1) = b1
  generalize rabs (bmax.2 - bmin.2) = b2
  have hov : sx * dx * (sy * dy) = (sx * sy) * (dx * dy) := by ring
  rw [hov, show sx * a1 * (sy * a2) + sx * b1 * (sy * b2) - sx * sy * (dx * dy)
    = (sx * sy) * (a1 * a2 + b1 * b2 - dx * dy) by ring, mul_div_mul_left _ _ hxy.ne']
  by_cases h : 0 < dx * dy
  · rw [if_pos h, if_pos (mul_pos hxy h)]
  · rw [if_neg h, if_neg (fun h' => h ((mul_pos_iff_of_pos_left hxy).1 h'))]

/-- translation only -/
theorem rectOverlap_translate (v amin amax bmin bmax : P2) :
    rectOverlap (amin + v) (amax + v) (bmin + v) (bmax + v) = rectOverlap amin amax bmin bmax := by
  simpa only [axMap_one] using rectOverlap_axMap one_pos one_pos v amin amax bmin bmax

/-- independent positive axis scaling only -/
theorem rectOverlap_axScale {sx sy : Rat} (hx : 0 < sx) (hy : 0 < sy) (amin amax bmin bmax : P2) :
    rectOverlap (axScale sx sy amin) (axScale sx sy amax) (axScale sx sy bmin) (axScale sx sy bmax)
      = rectOverlap amin amax bmin bmax := by
  simpa only [axMap_zero] using rectOverlap_axMap hx hy (0, 0) amin amax bmin bmax

/-- The corner score of a knee (IoU of the corner rectangle and the neighbour rectangle, what
`filter_corner_knees` / `select_corner_knees` threshold) is invariant under translation and
independent positive scaling of the axes. -/
theorem cornerIoU_axMap {sx sy : Rat} (hx : 0 < sx) (hy : 0 < sy) (v p0 p1 p2 : P2) :
    cornerIoU (axMap sx sy v p0) (axMap sx sy v p1) (axMap sx sy v p2) = cornerIoU p0 p1 p2 := by
  have hc : ((axMap sx sy v p0).1, (axMap sx sy v p2).2) = axMap sx sy v (p0.1, p2.2) := rfl
  simp only [cornerIoU, hc, rect_axMap hx.le hy.le, rectOverlap_axMap hx hy]

theorem cornerIoU_translate (v p0 p1 p2 : P2) :
    cornerIoU (p0 + v) (p1 + v) (p2 + v) = cornerIoU p0 p1 p2 := by
  simpa only [axMap_one] using cornerIoU_axMap one_pos one_pos v p0 p1 p2

theorem cornerIoU_axScale {sx sy : Rat} (hx : 0 < sx) (hy : 0 < sy) (p0 p1 p2 : P2) :
    cornerIoU (axScale sx sy p0) (axScale sx sy p1) (axScale sx sy p2) = cornerIoU p0 p1 p2 := by
  simpa only [axMap_zero] using cornerIoU_axMap hx hy (0, 0) p0 p1 p2

/-- Hence the two corner filters return the same knees for a curve and for its image under a change
of units/origin (`pt` = the curve, `iou k` computed from `pt (k-1)`, `pt k`, `pt (k+1)`). -/
theorem cornerFilter_axMap {sx sy : Rat} (hx : 0 < sx) (hy : 0 < sy) (v : P2) (pt : Nat → P2)
    (n : Nat) (t : Rat) (ks : List Nat) :
    cornerFilter n (fun k => cornerIoU (axMap sx sy v (pt (k - 1))) (axMap sx sy v (pt k))
        (axMap sx sy v (pt (k + 1)))) t ks
      = cornerFilter n (fun k => cornerIoU (pt (k - 1)) (pt k) (pt (k + 1))) t ks := by
  simp only [cornerIoU_axMap hx hy]

/-! ## 3. Hull (C18): orientation test and monotone-chain scans -/

/-- `convex_hull._ccw` does not depend on the origin. -/
theorem ccw_translate (a b c v : P2) : ccw (a + v) (b + v) (c + v) = ccw a b c := by
  simp [ccw]

/-- Under independent axis scaling the orientation determinant is multiplied by `sx·sy`. -/
theorem ccw_axScale (sx sy : Rat) (a b c : P2) :
    ccw (axScale sx sy a) (axScale sx sy b) (axScale sx sy c) = sx * sy * ccw a b c := by
  simp [ccw, axScale]; ring

/-- scaling and translation together -/
theorem ccw_axMap (sx sy : Rat) (v a b c : P2) :
    ccw (axMap sx sy v a) (axMap sx sy v b) (axMap sx sy v c) = sx * sy * ccw a b c := by
  simp [ccw, axMap]; ring

/-- uniform scaling: degree 2 -/
theorem ccw_scale (s : Rat) (a b c : P2) : ccw (s • a) (s • b) (s • c) = s ^ 2 * ccw a b c := by
  simp [ccw]; ring

/-- The only thing the scans look at — `ccw(...) <= 0` — is unchanged by a change of units and
origin with `sx·sy > 0` (in particular `sx, sy > 0`).  Exact ties (`ccw = 0`, collinear points)
stay ties: that is where float and exact results may differ at extreme magnitude. -/
theorem ccw_sign_axMap {sx sy : Rat} (h : 0 < sx * sy) (v : P2) (pt : Nat → P2) (a b c : Nat) :
    ccw ((axMap sx sy v ∘ pt) a) ((axMap sx sy v ∘ pt) b) ((axMap sx sy v ∘ pt) c) ≤ 0
      ↔ ccw (pt a) (pt b) (pt c) ≤ 0 := by
  simp only [Function.comp, ccw_axMap]
  constructor
  · intro h'
    by_contra hc
    exact absurd (mul_pos h (not_le.1 hc)) (not_lt.2 h')
  · intro h'
    exact mul_nonpos_of_nonneg_of_nonpos h.le h'

/-- The pop loop of `graham_scan_lower` pops exactly the same stack entries for the transformed
curve, for every stack and every new point (induction over the whole loop). -/
theorem popLower_axMap {sx sy : Rat} (h : 0 < sx * sy) (v : P2) (pt : Nat → P2) (i : Nat)
    (st : List Nat) : popLower (axMap sx sy v ∘ pt) i st = popLower pt i st :=
  popLower_congr pt _ (ccw_sign_axMap h v pt) i st

/-- same for the pop loop of `graham_scan_upper` -/
theorem popUpper_axMap {sx sy : Rat} (h : 0 < sx * sy) (v : P2) (pt : Nat → P2) (i : Nat)
    (st : List Nat) : popUpper (axMap sx sy v ∘ pt) i st = popUpper pt i st :=
  popUpper_congr pt _ (ccw_sign_axMap h v pt) i st

/-- `graham_scan_lower` returns the same index list for a curve and for its image under
translation and independent positive axis scaling (whole scan, any `n`). -/
theorem hullLower_axMap {sx sy : Rat} (h : 0 < sx * sy) (v : P2) (pt : Nat → P2) (n : Nat) :
    hullLower (axMap sx sy v ∘ pt) n = hullLower pt n :=
  hullLower_congr pt _ (ccw_sign_axMap h v pt) n

/-- `graham_scan_upper` likewise. -/
theorem hullUpper_axMap {sx sy : Rat} (h : 0 < sx * sy) (v : P2) (pt : Nat → P2) (n : Nat) :
    hullUpper (axMap sx sy v ∘ pt) n = hullUpper pt n :=
  hullUpper_congr pt _ (ccw_sign_axMap h v pt) n

/-- translation only, in `+` notation -/
theorem hullLower_translate (v : P2) (pt : Nat → P2) (n : Nat) :
    hullLower (fun i => pt i + v) n = hullLower pt n :=
  hullLower_congr pt _ (fun a b c => by rw [ccw_translate]) n

theorem hullUpper_translate (v : P2) (pt : Nat → P2) (n : Nat) :
    hullUpper (fun i => pt i + v) n = hullUpper pt n :=
  hullUpper_congr pt _ (fun a b c => by rw [ccw_translate]) n

/-- independent positive axis scaling only -/
theorem hullLower_axScale {sx sy : Rat} (hx : 0 < sx) (hy : 0 < sy) (pt : Nat → P2) (n : Nat) :
    hullLower (fun i => axScale sx sy (pt i)) n = hullLower pt n := by
  have := hullLower_axMap (mul_pos hx hy) (0, 0) pt n
  simpa only [Function.comp_def, axMap_zero] using this

theorem hullUpper_axScale {sx sy : Rat} (hx : 0 < sx) (hy : 0 < sy) (pt : Nat → P2) (n : Nat) :
    hullUpper (fun i => axScale sx sy (pt i)) n = hullUpper pt n := by
  have := hullUpper_axMap (mul_pos hx hy) (0, 0) pt n
  simpa only [Function.comp_def, axMap_zero] using this

/-! ## 4. Even points (C14): the two per-segment decisions -/

/-- `add_points_even`: the "segment is wide and tall enough" decision compares *normalised* width
and height with the unit-free thresholds `2·tx`, `ty`; it is unchanged when all x's (`xl`, `xr`
and the curve extent `dx`) are scaled by `sx > 0` and shifted, and all y's by `sy > 0` and
shifted. -/
theorem wideQ_axMap {sx sy : Rat} (hx : 0 < sx) (hy : 0 < sy)
    (cx cy xl yl xr yr dx dy tx ty : Rat) :
    wideQ (sx * xl + cx) (sy * yl + cy) (sx * xr + cx) (sy * yr + cy) (sx * dx) (sy * dy) tx ty
      = wideQ xl yl xr yr dx dy tx ty := by
  simp only [wideQ, normExtent_affine hx, normExtent_affine hy]

/-- the number of inserted points `ceil(pdx / (2·tx))` likewise (x only) -/
theorem nptsQ_axMap {sx : Rat} (hx : 0 < sx) (cx xl xr dx tx : Rat) :
    nptsQ (sx * xl + cx) (sx * xr + cx) (sx * dx) tx = nptsQ xl xr dx tx := by
  simp only [nptsQ, normExtent_affine hx]

/-- pure scaling (the form stated in the task) -/
theorem wideQ_axScale {sx sy : Rat} (hx : 0 < sx) (hy : 0 < sy) (xl yl xr yr dx dy tx ty : Rat) :
    wideQ (sx * xl) (sy * yl) (sx * xr) (sy * yr) (sx * dx) (sy * dy) tx ty
      = wideQ xl yl xr yr dx dy tx ty := by
  simpa using wideQ_axMap hx hy 0 0 xl yl xr yr dx dy tx ty

theorem nptsQ_axScale {sx : Rat} (hx : 0 < sx) (xl xr dx tx : Rat) :
    nptsQ (sx * xl) (sx * xr) (sx * dx) tx = nptsQ xl xr dx tx := by
  simpa using nptsQ_axMap hx 0 xl xr dx tx

/-! ## 5. Linkage (C11): distances relative to the x range, and the labels -/

/-- `single_linkage`: gap to the previous point over the x range — invariant under
`x ↦ s·x + c`, `s > 0` (the range `L` becomes `s·L`). -/
theorem distSingle_affine {s : Rat} (hs : 0 < s) (c : Rat) (x : Nat → Rat) (L : Rat)
    (start i : Nat) :
    distSingle (fun m => s * x m + c) (s * L) start i = distSingle x L start i := by
  simp only [distSingle, normExtent_affine hs]

/-- `complete_linkage`: distance to the first member of the cluster over the x range. -/
theorem distComplete_affine {s : Rat} (hs : 0 < s) (c : Rat) (x : Nat → Rat) (L : Rat)
    (start i : Nat) :
    distComplete (fun m => s * x m + c) (s * L) start i = distComplete x L start i := by
  simp only [distComplete, normExtent_affine hs]

/-- `centroid_linkage`: distance to the mean of the (non-empty) cluster over the x range. -/
theorem distCentroid_affine {s : Rat} (hs : 0 < s) (c : Rat) (x : Nat → Rat) (L : Rat)
    (start i : Nat) (h : start < i) :
    distCentroid (fun m => s * x m + c) (s * L) start i = distCentroid x L start i := by
  simp only [distCentroid, meanRange_affine s c x start i h, normExtent_affine hs]

/-- FALSE without `start < i`: the mean of an empty cluster is `0/0 = 0`, an absolute constant, so
a shift changes the distance.  Irrelevant for the code (a cluster always has a member) and for the
labels below. -/
theorem distCentroid_not_affine_empty :
    distCentroid (fun m => 1 * (fun _ => (1 : Rat)) m + 1) (1 * 1) 0 0
      ≠ distCentroid (fun _ => (1 : Rat)) 1 0 0 := by
  decide +kernel

/-- `average_linkage`: mean distance to the members over the x range. -/
theorem distAverage_affine {s : Rat} (hs : 0 < s) (c : Rat) (x : Nat → Rat) (L : Rat)
    (start i : Nat) :
    distAverage (fun m => s * x m + c) (s * L) start i = distAverage x L start i := by
  simp only [distAverage]
  have e : (fun m => rabs (s * x m + c - (s * x i + c))) = fun m => s * rabs (x m - x i) + 0 := by
    funext m
    rw [show s * x m + c - (s * x i + c) = s * (x m - x i) by ring, rabs_mul_left hs.le, add_zero]
  rw [e, sumRange_affine, mul_zero, add_zero,
    show ((i - start : Nat) : Rat) * (s * L) = s * (((i - start : Nat) : Rat) * L) by ring,
    mul_div_mul_left _ _ hs.ne']

/-- The labels of `single_linkage(points, t)` are the same for `x` and for `s·x + c` (`s > 0`):
the threshold `t` is relative to the x range, so clustering is unit- and origin-free.  Generators
may scale/shift x freely; a different labelling from the float code is then a rounding tie. -/
theorem singleLinkage_affine {s : Rat} (hs : 0 < s) (c : Rat) (x : Nat → Rat) (n : Nat) (t : Rat) :
    singleLinkage (fun m => s * x m + c) n t = singleLinkage x n t := by
  unfold singleLinkage
  rw [xrange_affine]
  exact linkLabels_congr _ _ t n fun st i _ => distSingle_affine hs c x _ st i

theorem completeLinkage_affine {s : Rat} (hs : 0 < s) (c : Rat) (x : Nat → Rat) (n : Nat)
    (t : Rat) : completeLinkage (fun m => s * x m + c) n t = completeLinkage x n t := by
  unfold completeLinkage
  rw [xrange_affine]
  exact linkLabels_congr _ _ t n fun st i _ => distComplete_affine hs c x _ st i

/-- uses that the skeleton only asks for distances to non-empty clusters (`linkGo_congr`) -/
theorem centroidLinkage_affine {s : Rat} (hs : 0 < s) (c : Rat) (x : Nat → Rat) (n : Nat)
    (t : Rat) : centroidLinkage (fun m => s * x m + c) n t = centroidLinkage x n t := by
  unfold centroidLinkage
  rw [xrange_affine]
  exact linkLabels_congr _ _ t n fun st i h => distCentroid_affine hs c x _ st i h

theorem averageLinkage_affine {s : Rat} (hs : 0 < s) (c : Rat) (x : Nat → Rat) (n : Nat)
    (t : Rat) : averageLinkage (fun m => s * x m + c) n t = averageLinkage x n t := by
  unfold averageLinkage
  rw [xrange_affine]
  exact linkLabels_congr _ _ t n fun st i _ => distAverage_affine hs c x _ st i

/-- The incremental centre of `centroid_linkage` is equivariant: for `s·x + c` (any `s`) it is
`s·centre + c`, with the same size.  (The convex weights `size/(size+1)` and `1/(size+1)` sum
to 1.) -/
theorem centroidInc_affine (s c : Rat) (x : Nat → Rat) (start : Nat) : ∀ k,
    centroidInc (fun m => s * x m + c) start k
      = (s * (centroidInc x start k).1 + c, (centroidInc x start k).2) := by
  intro k
  induction k with
  | zero => simp [centroidInc]
  | succ k ih =>
    have hsz := (centroidInc_spec x start k).1
    simp only [centroidInc, ih]
    generalize centroidInc x start k = cs at hsz ⊢
    obtain ⟨ce, sz⟩ := cs
    simp only at hsz ⊢
    subst hsz
    have : ((k + 1 : Nat) : Rat) + 1 ≠ 0 := by positivity
    congr 1
    field_simp
    ring

/-! ## 6. Metrics (C16) -/

/-- `metrics.residuals` (RSS) under a common `v ↦ s·v + c` of `y` and `ŷ`: degree 2 in `s`, no
dependence on `c`. -/
theorem rssQ_affine (s c : Rat) (y yh : List Rat) :
    rssQ (y.map fun v => s * v + c) (yh.map fun v => s * v + c) = s ^ 2 * rssQ y yh := by
  unfold rssQ
  exact sum_zipWith_map _ _ _ _ _ (fun a b => by ring) y yh

/-- RSS is homogeneous of degree 2 -/
theorem rssQ_scale (s : Rat) (y yh : List Rat) :
    rssQ (y.map fun v => s * v) (yh.map fun v => s * v) = s ^ 2 * rssQ y yh := by
  simpa using rssQ_affine s 0 y yh

/-- RSS is shift invariant -/
theorem rssQ_shift (c : Rat) (y yh : List Rat) :
    rssQ (y.map fun v => v + c) (yh.map fun v => v + c) = rssQ y yh := by
  simpa using rssQ_affine 1 c y yh

/-- RMSE² under a common `v ↦ s·v + c`: degree 2, shift invariant (RMSE itself: degree 1). -/
theorem mseQ_affine (s c : Rat) (y yh : List Rat) :
    mseQ (y.map fun v => s * v + c) (yh.map fun v => s * v + c) = s ^ 2 * mseQ y yh := by
  unfold mseQ meanQ
  rw [sum_zipWith_map (fun a b => (a - b) * (a - b)) _ _ _ (s ^ 2) (fun a b => by ring) y yh,
    length_zipWith_map (fun a b => (a - b) * (a - b)), mul_div_assoc]

theorem mseQ_scale (s : Rat) (y yh : List Rat) :
    mseQ (y.map fun v => s * v) (yh.map fun v => s * v) = s ^ 2 * mseQ y yh := by
  simpa using mseQ_affine s 0 y yh

theorem mseQ_shift (c : Rat) (y yh : List Rat) :
    mseQ (y.map fun v => v + c) (yh.map fun v => v + c) = mseQ y yh := by
  simpa using mseQ_affine 1 c y yh

/-- total sum of squares: degree 2, shift invariant (the mean moves along) -/
theorem tssQ_affine (s c : Rat) (y : List Rat) :
    tssQ (y.map fun v => s * v + c) = s ^ 2 * tssQ y := by
  by_cases hy : y = []
  · subst hy; simp [tssQ]
  · unfold tssQ
    rw [meanQ_affine s c y hy]
    exact sum_map_map (fun a => (a - meanQ y) * (a - meanQ y)) _ _ (s ^ 2) (fun a => by ring) y

/-- `metrics.r2` is invariant under a common `v ↦ s·v + c` (`s ≠ 0`) of `y` and `ŷ` whenever `y`
is not constant (`tss ≠ 0`): R² is unit- and origin-free. -/
theorem r2Q_affine {s : Rat} (hs : s ≠ 0) (c : Rat) (y yh : List Rat) (ht : tssQ y ≠ 0) :
    r2Q (y.map fun v => s * v + c) (yh.map fun v => s * v + c) = r2Q y yh := by
  have h2 : s ^ 2 ≠ 0 := pow_ne_zero 2 hs
  unfold r2Q
  rw [tssQ_affine, rssQ_affine, if_neg ht, if_neg (mul_ne_zero h2 ht), mul_div_mul_left _ _ h2]

/-- common positive (indeed non-zero) scaling -/
theorem r2Q_scale {s : Rat} (hs : s ≠ 0) (y yh : List Rat) (ht : tssQ y ≠ 0) :
    r2Q (y.map fun v => s * v) (yh.map fun v => s * v) = r2Q y yh := by
  simpa using r2Q_affine hs 0 y yh ht

/-- `r2` is invariant under a common shift `y + c`, `ŷ + c`, for all inputs (constant `y`
included). -/
theorem r2Q_shift (c : Rat) (y yh : List Rat) :
    r2Q (y.map fun v => v + c) (yh.map fun v => v + c) = r2Q y yh := by
  have h := tssQ_affine 1 c y
  have h' := rssQ_affine 1 c y yh
  simp only [one_mul, one_pow] at h h'
  unfold r2Q
  rw [h, h']

/-- For constant `y` (`tss = 0`) the code's fallback `1 - rss` is an absolute quantity: it scales
with `s²`.  This is the only magnitude dependence of `r2`. -/
theorem r2Q_affine_const (s c : Rat) (y yh : List Rat) (ht : tssQ y = 0) :
    r2Q (y.map fun v => s * v + c) (yh.map fun v => s * v + c) = 1 - s ^ 2 * rssQ y yh := by
  unfold r2Q
  rw [tssQ_affine, rssQ_affine, ht, mul_zero, if_pos rfl]

/-- FALSE without `tss ≠ 0`: `y = [1,1]`, `ŷ = [0,0]` has `r2 = -1`, doubled `r2 = -7`.  Generators
that scale `y` must keep constant-`y` cases apart (expected value `1 - s²·rss`). -/
theorem r2Q_not_scale_invariant :
    ¬ ∀ (s : Rat) (y yh : List Rat), 0 < s →
      r2Q (y.map fun v => s * v) (yh.map fun v => s * v) = r2Q y yh := by
  intro h
  exact absurd (h 2 [1, 1] [0, 0] (by decide +kernel)) (by decide +kernel)

/-- Squared Pearson correlation (the R² of the best linear fit) is invariant under independent
affine maps `x ↦ a·x + b`, `y ↦ c·y + d` with `a, c ≠ 0` (sign changes included). -/
theorem corrSqQ_affine {a c : Rat} (ha : a ≠ 0) (hc : c ≠ 0) (b d : Rat) (x y : List Rat) :
    corrSqQ (x.map fun v => a * v + b) (y.map fun v => c * v + d) = corrSqQ x y := by
  by_cases hx : x = []
  · subst hx; simp [corrSqQ]
  by_cases hy : y = []
  · subst hy; simp [corrSqQ]
  simp only [corrSqQ]
  rw [meanQ_affine a b x hx, meanQ_affine c d y hy,
    sum_zipWith_map (fun u v => (u - meanQ x) * (v - meanQ y)) _ _ _ (a * c) (fun u v => by ring) x y,
    sum_map_map (fun u => (u - meanQ x) * (u - meanQ x)) _ _ (a ^ 2) (fun u => by ring) x,
    sum_map_map (fun u => (u - meanQ y) * (u - meanQ y)) _ _ (c ^ 2) (fun u => by ring) y]
  have hk : a ^ 2 * c ^ 2 ≠ 0 := mul_ne_zero (pow_ne_zero 2 ha) (pow_ne_zero 2 hc)
  generalize (List.zipWith (fun u v => (u - meanQ x) * (v - meanQ y)) x y).sum = sxy
  generalize (List.map (fun u => (u - meanQ x) * (u - meanQ x)) x).sum = sxx
  generalize (List.map (fun u => (u - meanQ y) * (u - meanQ y)) y).sum = syy
  rw [show a * c * sxy * (a * c * sxy) = (a ^ 2 * c ^ 2) * (sxy * sxy) by ring,
    show a ^ 2 * sxx * (c ^ 2 * syy) = (a ^ 2 * c ^ 2) * (sxx * syy) by ring,
    mul_div_mul_left _ _ hk]

/-! ### the eps-guarded ratio metrics: the guard is the only scale dependence

`smapeE e`, `rpdE e`, `rmspeSqE e` are `smapeQ`, `rpdQ`, `rmspeSq` with the code's absolute
`eps = 1e-16` replaced by a parameter (`smapeQ = smapeE epsM` by `rfl`). -/

/-- scaling data *and guard* leaves SMAPE unchanged -/
theorem smapeE_scale {s : Rat} (hs : 0 < s) (e : Rat) (y yh : List Rat) :
    smapeE (s * e) (y.map fun v => s * v) (yh.map fun v => s * v) = smapeE e y yh := by
  unfold smapeE
  apply meanQ_zipWith_map
  intro a b
  rw [← mul_sub, rabs_mul_left hs.le, rabs_mul_left hs.le, rabs_mul_left hs.le,
    show 2 * (s * rabs (b - a)) = s * (2 * rabs (b - a)) by ring,
    show s * rabs a + s * rabs b + s * e = s * (rabs a + rabs b + e) by ring,
    mul_div_mul_left _ _ hs.ne']

theorem rpdE_scale {s : Rat} (hs : 0 < s) (e : Rat) (y yh : List Rat) :
    rpdE (s * e) (y.map fun v => s * v) (yh.map fun v => s * v) = rpdE e y yh := by
  unfold rpdE
  apply meanQ_zipWith_map
  intro a b
  have hle : s * a ≤ s * b ↔ a ≤ b := mul_le_mul_iff_right₀ hs
  simp only [hle]
  have : (if a ≤ b then s * b else s * a) = s * (if a ≤ b then b else a) := by split_ifs <;> rfl
  rw [this, ← mul_sub, ← mul_add, mul_div_mul_left _ _ hs.ne']

theorem rmspeSqE_scale {s : Rat} (hs : s ≠ 0) (e : Rat) (y yh : List Rat) :
    rmspeSqE (s * e) (y.map fun v => s * v) (yh.map fun v => s * v) = rmspeSqE e y yh := by
  unfold rmspeSqE
  apply meanQ_zipWith_map
  intro a b
  rw [← mul_sub, ← mul_add, mul_div_mul_left _ _ hs]

/-- `metrics.smape` on data scaled by `s > 0` equals SMAPE on the original data with the guard
`eps/s`: at 1e-9 scale the guard acts like `1e-7`, at 1e9 scale like `1e-25`.  Nothing else in
the definition depends on the scale.  Generators must therefore expect (small, computable)
differences between magnitude variants for these metrics, and none for the others. -/
theorem smapeQ_scale {s : Rat} (hs : 0 < s) (y yh : List Rat) :
    smapeQ (y.map fun v => s * v) (yh.map fun v => s * v) = smapeE (epsM / s) y yh := by
  rw [smapeQ_eq, ← smapeE_scale hs (epsM / s), mul_div_cancel₀ _ hs.ne']

/-- `metrics.rpd` likewise -/
theorem rpdQ_scale {s : Rat} (hs : 0 < s) (y yh : List Rat) :
    rpdQ (y.map fun v => s * v) (yh.map fun v => s * v) = rpdE (epsM / s) y yh := by
  rw [rpdQ_eq, ← rpdE_scale hs (epsM / s), mul_div_cancel₀ _ hs.ne']

/-- `metrics.rmspe` (squared) likewise -/
theorem rmspeSq_scale {s : Rat} (hs : s ≠ 0) (y yh : List Rat) :
    rmspeSq (y.map fun v => s * v) (yh.map fun v => s * v) = rmspeSqE (epsM / s) y yh := by
  rw [rmspeSq_eq, ← rmspeSqE_scale hs (epsM / s), mul_div_cancel₀ _ hs]

/-- FALSE: `smape([1],[2]) = 2/(3+eps) ≠ 4/(6+eps) = smape([2],[4])`. -/
theorem smapeQ_not_scale_invariant :
    ¬ ∀ (s : Rat) (y yh : List Rat), 0 < s →
      smapeQ (y.map fun v => s * v) (yh.map fun v => s * v) = smapeQ y yh := by
  intro h
  exact absurd (h 2 [1] [2] (by decide +kernel)) (by decide +kernel)

/-- FALSE: `rpd([1],[2]) = 1/(2+eps) ≠ 2/(4+eps) = rpd([2],[4])`. -/
theorem rpdQ_not_scale_invariant :
    ¬ ∀ (s : Rat) (y yh : List Rat), 0 < s →
      rpdQ (y.map fun v => s * v) (yh.map fun v => s * v) = rpdQ y yh := by
  intro h
  exact absurd (h 2 [1] [2] (by decide +kernel)) (by decide +kernel)

/-- FALSE: `rmspe²([1],[2]) = 1/(1+eps)² ≠ 4/(2+eps)² = rmspe²([2],[4])`. -/
theorem rmspeSq_not_scale_invariant :
    ¬ ∀ (s : Rat) (y yh : List Rat), 0 < s →
      rmspeSq (y.map fun v => s * v) (yh.map fun v => s * v) = rmspeSq y yh := by
  intro h
  exact absurd (h 2 [1] [2] (by decide +kernel)) (by decide +kernel)

/-! ## 8. Kneedle (bonus): normalisation, end-point fit, difference curve -/

/-- Min-max normalisation `(v - min)/(max - min)` (with the code's `diff == 0 → 1` replacement) is
invariant under `v ↦ s·v + c`, `s > 0`, for every list: Kneedle sees the same normalised curve
whatever the units and origin of the input.  (For a constant list all entries equal the minimum, so
the replacement constant `1` is never multiplied by anything but `0`.) -/
theorem normQ_affine {s : Rat} (hs : 0 < s) (c : Rat) (l : List Rat) :
    normQ (l.map fun v => s * v + c) = normQ l := by
  by_cases hl : l = []
  · subst hl; rfl
  have hlt : ∀ a b : Rat, s * a + c < s * b + c ↔ a < b := by
    intro a b
    constructor
    · intro h; exact lt_of_mul_lt_mul_left (by linarith) hs.le
    · intro h; have := mul_lt_mul_of_pos_left h hs; linarith
  simp only [normQ]
  rw [listMinQ_map _ (fun a b => hlt b a) l hl, listMaxQ_map _ hlt l hl, List.map_map]
  apply List.map_congr_left
  intro v hv
  simp only [Function.comp]
  have e : s * listMaxQ l + c - (s * listMinQ l + c) = s * (listMaxQ l - listMinQ l) := by ring
  rw [e, show s * v + c - (s * listMinQ l + c) = s * (v - listMinQ l) by ring]
  by_cases hd : listMaxQ l - listMinQ l = 0
  · have h1 := listMinQ_le l v hv
    have h2 := le_listMaxQ l v hv
    have : v - listMinQ l = 0 := by linarith
    simp [hd, this]
  · rw [if_neg hd, if_neg (mul_ne_zero hs.ne' hd), mul_div_mul_left _ _ hs.ne']

/-- `linear_fit.linear_fit` (line through the first and last point) is covariant: for
`x ↦ sx·x + cx`, `y ↦ sy·y + cy` the slope becomes `(sy/sx)·m` and the intercept
`sy·b + cy - (sy/sx)·m·cx`, provided the end points have different x. -/
theorem fitQ_affine {sx : Rat} (hx : sx ≠ 0) (sy cx cy : Rat) (xs ys : List Rat) (hys : ys ≠ [])
    (h : xs.head?.getD 0 ≠ xs.getLast?.getD 0) :
    fitQ (xs.map fun v => sx * v + cx) (ys.map fun v => sy * v + cy)
      = (sy * (fitQ xs ys).1 + cy - sy / sx * (fitQ xs ys).2 * cx, sy / sx * (fitQ xs ys).2) := by
  have hxs : xs ≠ [] := by rintro rfl; exact h rfl
  have hd : xs.head?.getD 0 - xs.getLast?.getD 0 ≠ 0 := sub_ne_zero.2 h
  simp only [fitQ, head?_getD_map _ xs hxs, getLast?_getD_map _ xs hxs, head?_getD_map _ ys hys,
    getLast?_getD_map _ ys hys]
  have hd' : sx * xs.head?.getD 0 + cx - (sx * xs.getLast?.getD 0 + cx) ≠ 0 := by
    rw [show sx * xs.head?.getD 0 + cx - (sx * xs.getLast?.getD 0 + cx)
      = sx * (xs.head?.getD 0 - xs.getLast?.getD 0) by ring]
    exact mul_ne_zero hx hd
  rw [if_pos hd', if_pos hd]
  generalize xs.head?.getD 0 = x0 at *
  generalize xs.getLast?.getD 0 = xl at *
  generalize ys.head?.getD 0 = y0 at *
  generalize ys.getLast?.getD 0 = yl at *
  have hd2 : sx * x0 + cx - (sx * xl + cx) = sx * (x0 - xl) := by ring
  simp only [hd2]
  refine Prod.ext ?_ ?_ <;> simp only <;> field_simp <;> ring

/-- `kneedle.differences` for the direction/concavity chosen by `kneedle.knee`: the whole difference
curve is *identical* for a curve and its image under independent positive scaling and translation
of the two axes (slope sign, concavity vote sign and both normalisations are preserved), provided the
first and last x differ (always true for an x-sorted curve with two distinct x's). -/
theorem kneedleDiffQ_affine {sx sy : Rat} (hx : 0 < sx) (hy : 0 < sy) (cx cy : Rat) (xs ys : List Rat)
    (h : xs.head?.getD 0 ≠ xs.getLast?.getD 0) :
    kneedleDiffQ (xs.map fun v => sx * v + cx) (ys.map fun v => sy * v + cy) = kneedleDiffQ xs ys := by
  by_cases hys : ys = []
  · subst hys; simp [kneedleDiffQ, normQ]
  have hm : (0 < sy / sx * (fitQ xs ys).2) ↔ 0 < (fitQ xs ys).2 :=
    mul_pos_iff_of_pos_left (div_pos hy hx)
  have hvote : (List.zipWith (fun x y => y - (x * (sy / sx * (fitQ xs ys).2)
        + (sy * (fitQ xs ys).1 + cy - sy / sx * (fitQ xs ys).2 * cx)))
        (xs.map fun v => sx * v + cx) (ys.map fun v => sy * v + cy)).sum
      = sy * (List.zipWith (fun x y => y - (x * (fitQ xs ys).2 + (fitQ xs ys).1)) xs ys).sum :=
    sum_zipWith_map _ _ _ _ sy (fun a b => by field_simp; ring) xs ys
  simp only [kneedleDiffQ, fitQ_affine hx.ne' sy cx cy xs ys hys h, normQ_affine hx, normQ_affine hy,
    hvote, hm, mul_pos_iff_of_pos_left hy]

/-- Hence `kneedle.knee(points, t=0)` returns the same index at 1e-9 scale, at 1e9 scale and with
any offsets: a magnitude-dependent answer of the float code is a rounding tie in the peak search. -/
theorem kneedleKneeQ_affine {sx sy : Rat} (hx : 0 < sx) (hy : 0 < sy) (cx cy : Rat) (xs ys : List Rat)
    (h : xs.head?.getD 0 ≠ xs.getLast?.getD 0) :
    kneedleKneeQ (xs.map fun v => sx * v + cx) (ys.map fun v => sy * v + cy) = kneedleKneeQ xs ys := by
  simp only [kneedleKneeQ, kneedleDiffQ_affine hx hy cx cy xs ys h]

/-- FALSE without the end-point hypothesis: when the first and last x coincide the code falls back
to the line `(0, 0)`, the concavity vote becomes `Σ y` — an absolute quantity — and a shift of `y`
flips it.  Generators must keep `x[0] ≠ x[-1]` (they do: curves are x-sorted). -/
theorem kneedleDiffQ_not_shift_invariant_degenerate :
    kneedleDiffQ ([0, 1, 0].map fun v => 1 * v + 0) ([1, 2, 3].map fun v => 1 * v + (-10))
      ≠ kneedleDiffQ [0, 1, 0] [1, 2, 3] := by
  decide +kernel

/-! ## 7. Non-vacuity: both sides evaluated on concrete inputs (magnitudes 1e-9, 1e9, offsets) -/

section examples

/-- scale 1e9 and an offset of 1e9: both sides are the same number, and it is not zero -/
example : perpSq ((1, 3) + (1000000000, -1000000000)) ((0, 0) + (1000000000, -1000000000))
    ((4, 2) + (1000000000, -1000000000)) = 5 ∧ perpSq ((1, 3) : P2) (0, 0) (4, 2) = 5 := by
  decide +kernel
example : perpSq ((1000000000 : Rat) • ((1, 3) : P2)) ((1000000000 : Rat) • ((0, 0) : P2))
    ((1000000000 : Rat) • ((4, 2) : P2)) = 1000000000 ^ 2 * 5 := by decide +kernel
example : shortestSq (((1 : Rat) / 1000000000) • ((6, 3) : P2)) (((1 : Rat) / 1000000000) • ((0, 0) : P2))
    (((1 : Rat) / 1000000000) • ((4, 2) : P2)) = (1 / 1000000000) ^ 2 * shortestSq ((6, 3) : P2) (0, 0) (4, 2)
    ∧ shortestSq ((6, 3) : P2) (0, 0) (4, 2) = 5 := by decide +kernel
example : mengerSq ((3 : Rat) • ((0, 0) : P2)) ((3 : Rat) • ((1, 1) : P2)) ((3 : Rat) • ((2, 0) : P2)) = 1 / 9
    ∧ mengerSq ((0, 0) : P2) (1, 1) (2, 0) = 1
    ∧ mengerSq (((0, 0) : P2) + (7, -5)) ((1, 1) + (7, -5)) ((2, 0) + (7, -5)) = 1 := by decide +kernel
example : triArea ((2 : Rat) • ((0, 0) : P2)) ((2 : Rat) • ((4, 0) : P2)) ((2 : Rat) • ((0, 3) : P2)) = 24
    ∧ triArea ((0, 0) : P2) (4, 0) (0, 3) = 6 := by decide +kernel

/-- IoU `1/7` before and after `x ↦ 1e9·x + 5`, `y ↦ 1e-9·y - 3` -/
example : rectOverlap ((0, 0) : P2) (2, 2) (1, 1) (3, 3) = 1 / 7
    ∧ rectOverlap (axMap 1000000000 (1 / 1000000000) (5, -3) (0, 0))
        (axMap 1000000000 (1 / 1000000000) (5, -3) (2, 2))
        (axMap 1000000000 (1 / 1000000000) (5, -3) (1, 1))
        (axMap 1000000000 (1 / 1000000000) (5, -3) (3, 3)) = 1 / 7 := by decide +kernel
example : cornerIoU ((0, 10) : P2) (1, 2) (10, 0) = 1 / 50
    ∧ cornerIoU (axMap 3 (1 / 7) (100, 200) (0, 10)) (axMap 3 (1 / 7) (100, 200) (1, 2))
        (axMap 3 (1 / 7) (100, 200) (10, 0)) = 1 / 50 := by decide +kernel

/-- a convex-then-concave curve: same chains after `x ↦ 1e-9·x + 1e9`, `y ↦ 1e9·y - 1e9` -/
example :
    let pt : Nat → P2 := fun i => ([(0, 0), (1, 3), (2, 1), (3, 4), (4, 0), (5, 5)] : List P2)[i]?.getD (0, 0)
    hullLower pt 6 = [0, 4, 5] ∧ hullUpper pt 6 = [0, 1, 5]
    ∧ hullLower (axMap (1 / 1000000000) 1000000000 (1000000000, -1000000000) ∘ pt) 6 = [0, 4, 5]
    ∧ hullUpper (axMap (1 / 1000000000) 1000000000 (1000000000, -1000000000) ∘ pt) 6 = [0, 1, 5] := by
  decide +kernel
/-- the sign hypothesis matters: a reflection (`sx·sy < 0`) swaps the chains -/
example :
    let pt : Nat → P2 := fun i => ([(0, 0), (1, 3), (2, 1), (3, 4), (4, 0), (5, 5)] : List P2)[i]?.getD (0, 0)
    hullLower (axMap 1 (-1) (0, 0) ∘ pt) 6 = [0, 1, 5] := by
  decide +kernel

example : wideQ 2 10 8 4 10 10 (1 / 10) (1 / 10) = true ∧ nptsQ 2 8 10 (1 / 10) = 3
    ∧ wideQ (1000000000 * 2 + 7) (10 / 1000000000 - 7) (1000000000 * 8 + 7) (4 / 1000000000 - 7)
        (1000000000 * 10) (10 / 1000000000) (1 / 10) (1 / 10) = true
    ∧ nptsQ (1000000000 * 2 + 7) (1000000000 * 8 + 7) (1000000000 * 10) (1 / 10) = 3 := by
  decide +kernel

example :
    let x : Nat → Rat := fun i => ([0, 1, 2, 10, 11] : List Rat)[i]?.getD 0
    let x' : Nat → Rat := fun m => (1 / 1000000000) * x m + 1000000000
    singleLinkage x 5 (1 / 2) = [0, 0, 0, 1, 1] ∧ singleLinkage x' 5 (1 / 2) = [0, 0, 0, 1, 1]
    ∧ completeLinkage x 5 (1 / 10) = [0, 0, 1, 2, 2] ∧ completeLinkage x' 5 (1 / 10) = [0, 0, 1, 2, 2]
    ∧ centroidLinkage x 5 (1 / 10) = centroidLinkage x' 5 (1 / 10)
    ∧ averageLinkage x 5 (1 / 10) = averageLinkage x' 5 (1 / 10)
    ∧ centroidLinkage x 5 (1 / 10) = [0, 0, 1, 2, 2] ∧ averageLinkage x 5 (1 / 10) = [0, 0, 1, 2, 2] := by
  decide +kernel

example : r2Q [1, 2, 4] [1, 3, 3] = 4 / 7
    ∧ r2Q ([1, 2, 4].map fun v => 1000000000 * v + 5) ([1, 3, 3].map fun v => 1000000000 * v + 5) = 4 / 7 := by
  decide +kernel
example : tssQ [1, 2, 4] ≠ 0 := by decide +kernel
example : rssQ ([1, 2, 4].map fun v => 3 * v + 5) ([1, 3, 3].map fun v => 3 * v + 5) = 18
    ∧ rssQ [1, 2, 4] [1, 3, 3] = 2 ∧ mseQ [1, 2, 4] [1, 3, 3] = 2 / 3
    ∧ mseQ ([1, 2, 4].map fun v => 3 * v + 5) ([1, 3, 3].map fun v => 3 * v + 5) = 6 := by
  decide +kernel
example : corrSqQ [0, 1, 2, 3] [1, 3, 2, 5] = 121 / 175
    ∧ corrSqQ ([0, 1, 2, 3].map fun v => (-1000000000) * v + 3)
        ([1, 3, 2, 5].map fun v => (1 / 1000000000) * v - 8) = 121 / 175 := by decide +kernel
/-- the guard really is what moves: with the guard scaled along, the values agree -/
example : smapeE (2 * epsM) ([1].map fun v => 2 * v) ([2].map fun v => 2 * v) = smapeQ [1] [2]
    ∧ smapeQ ([1].map fun v => 2 * v) ([2].map fun v => 2 * v) ≠ smapeQ [1] [2] := by
  decide +kernel

example : normQ [2, 5, 3] = [0, 1, 1 / 3]
    ∧ normQ ([2, 5, 3].map fun v => (1 / 1000000000) * v + 1000000000) = [0, 1, 1 / 3]
    ∧ normQ ([4, 4].map fun v => 3 * v + 1) = normQ [4, 4] := by decide +kernel
example : kneedleKneeQ [0, 1, 2, 3, 4, 5] [0, 5, 8, 9, 19 / 2, 10] = some 2
    ∧ kneedleKneeQ ([0, 1, 2, 3, 4, 5].map fun v => 1000000000 * v + 7)
        ([0, 5, 8, 9, 19 / 2, 10].map fun v => (1 / 1000000000) * v - 1000000000) = some 2 := by
  decide +kernel

end examples

end Knee

import Knee.Lemmas.Graham
import Knee.Props.C18
/-!
# C18G — `graham_scan` returns the convex hull of a point set in general position

Model: `Knee.grahamScan` (convex_hull.graham_scan): pivot = lexicographically smallest point
(lowest x, then lowest y), the other points sorted by `_compare_points` (clockwise first), scan
with `while len(stack) > 1 and ccw(stack[-2], stack[-1], p) >= 0: pop`.  Orientation signs are
exact in ℚ.

Hypotheses: `pts.Nodup`, `3 ≤ pts.length`, and `GenPos pts` (no three distinct input points are
collinear).  With `H := grahamScan pts` and `P k := pts[k]?.getD (0, 0)`:
* `H` starts at the pivot and has at least three vertices (`grahamScan_head`, `grahamScan_length`);
* consecutive output edges turn strictly clockwise, also around the closing edge
  (`grahamScan_strict_turns`, `grahamScan_strict_turns_closing`);
* all other points lie in the right half-plane of the pivot, where "strictly clockwise of" is a
  strict total order, and the angular sort returns a list sorted by it
  (`pivot_rightOf`, `angLt_trans`, `angLt_total`, `sortAng_sorted`);
* every input point lies on or to the right of every directed output edge, including the closing
  edge from the last output point back to the pivot (`grahamScan_supports`,
  `grahamScan_supports_closing`, `grahamScan_supports_cyclic`), strictly so for every point that is
  not an end point of that edge (`grahamScan_supports_strict`).
Together: `H` is a strictly convex clockwise polygon on input points that contains every input
point, i.e. exactly the hull vertices; input points not in `H` are strictly inside
(`grahamScan_interior`).

Proof: `grahamScan pts` is the counter-clockwise chain scan `hullLower` (C18) run on the x-axis
reflection of `p0 :: sorted` (`GrahamSeq.eq`); the chain scan supports every sequence that is
sorted by angle about its first point (`lowerStack_above_ang`), by the orientation identities of
C18 with the x-differences replaced by orientation determinants about the pivot.
-/
namespace Knee

/-! ### angular order about the pivot -/

/-- Every point that is lexicographically at least `p0` and different from it lies in the closed
right half-plane of `p0` (strictly above `p0` when on its vertical). -/
theorem pivot_rightOf (p0 q : P2) (h : LexLe p0 q) (hne : p0 ≠ q) : RightOf p0 q := h.rightOf hne

/-- On that half-plane "strictly clockwise of, about `p0`" is irreflexive … -/
theorem angLt_irrefl (p0 a : P2) : ¬ ccw p0 a a < 0 := by
  rw [ccw_self_right]; exact lt_irrefl _

/-- … asymmetric … -/
theorem angLt_asymm (p0 a b : P2) (h : ccw p0 a b < 0) : ¬ ccw p0 b a < 0 := by
  rw [ccw_swap]; intro h'; linarith

/-- … total on points not collinear with the pivot … -/
theorem angLt_total (p0 a b : P2) (h : ccw p0 a b ≠ 0) : ccw p0 a b < 0 ∨ ccw p0 b a < 0 := by
  rcases lt_or_gt_of_ne h with h | h
  · exact Or.inl h
  · right; rw [ccw_swap]; linarith

/-- … and transitive (this needs the half-plane). -/
theorem angLt_trans (p0 a b c : P2) (ha : RightOf p0 a) (hb : RightOf p0 b) (hc : RightOf p0 c)
    (h1 : ccw p0 a b < 0) (h2 : ccw p0 b c < 0) : ccw p0 a c < 0 :=
  ang_trans p0 a b c ha hb hc h1 h2

/-- When no tie occurs `_compare_points` is that order. -/
theorem angBefore_eq (p0 a b : P2) (h : ccw p0 a b ≠ 0) : angBefore p0 a b = true ↔ ccw p0 a b < 0 :=
  angBefore_iff p0 a b h

/-- **C18G (sort).** For points in the right half-plane of the pivot, no two of them collinear with
the pivot, the angular sort returns a permutation that is pairwise strictly clockwise. -/
theorem sortAng_sorted (p0 : P2) (l : List (P2 × Nat)) (hr : ∀ q ∈ l, RightOf p0 q.1)
    (hne : l.Pairwise (fun a b => ccw p0 a.1 b.1 ≠ 0)) :
    (sortAng p0 l).Perm l ∧ (sortAng p0 l).Pairwise (fun a b => ccw p0 a.1 b.1 < 0) :=
  ⟨sortAng_perm p0 l, sortAng_pairwise p0 l hr hne⟩

/-! ### the output polygon -/

section Scan
variable (pts : List P2) (hnd : pts.Nodup) (h3 : 3 ≤ pts.length) (hgp : GenPos pts)
include hnd h3 hgp

/-- **C18G (pivot first).** The output starts at the index of the lexicographically smallest
input point. -/
theorem grahamScan_head :
    ∃ i0, (grahamScan pts).head? = some i0 ∧ i0 < pts.length ∧
      ∀ k, k < pts.length → LexLe (pts[i0]?.getD (0, 0)) (pts[k]?.getD (0, 0)) := by
  obtain ⟨L, hs⟩ := grahamScan_struct pts hnd h3 hgp
  have hL := hs.length_eq
  have h0 := hs.gAt_spec (k := 0) (by omega)
  refine ⟨(gAt L 0).2, ?_, h0.1, ?_⟩
  · rw [hs.eq, List.head?_map, (hullLower_indices (gPt L) L.length (by omega)).2.1]
    rfl
  · intro k hk
    rw [h0.2]
    exact hs.lexmin (pts[k]?.getD (0, 0), k) (mem_ip.2 ⟨hk, rfl⟩)

/-- **C18G (size).** In general position the output has at least three vertices. -/
theorem grahamScan_length : 3 ≤ (grahamScan pts).length := by
  obtain ⟨L, hs⟩ := grahamScan_struct pts hnd h3 hgp
  rw [hs.length_scan]
  exact hullLower_length_ang (gPt L) L.length (by rw [hs.length_eq]; exact h3) hs.hang

/-- **C18G (strict turns).** Consecutive output edges turn strictly clockwise. -/
theorem grahamScan_strict_turns :
    let H := grahamScan pts
    let P := fun k => pts[k]?.getD (0, 0)
    ∀ i, i + 2 < H.length →
      ccw (P (H[i]?.getD 0)) (P (H[i + 1]?.getD 0)) (P (H[i + 2]?.getD 0)) < 0 := by
  intro H P i hi
  simp only [H, P] at hi ⊢
  obtain ⟨L, hs⟩ := grahamScan_struct pts hnd h3 hgp
  have h2 : 2 ≤ L.length := by rw [hs.length_eq]; omega
  have hi' : i + 2 < (hullLower (gPt L) L.length).length := by rw [← hs.length_scan]; exact hi
  have := hullLower_strict_turns (gPt L) L.length i hi'
  rw [ccw_gPt] at this
  rw [hs.point h2 (by omega : i < (grahamScan pts).length),
    hs.point h2 (by omega : i + 1 < (grahamScan pts).length), hs.point h2 hi]
  linarith

/-- **C18G (support).** Every input point lies on or to the right of every directed output edge. -/
theorem grahamScan_supports :
    let H := grahamScan pts
    let P := fun k => pts[k]?.getD (0, 0)
    ∀ k, k < pts.length → ∀ i, i + 1 < H.length →
      ccw (P (H[i]?.getD 0)) (P (H[i + 1]?.getD 0)) (P k) ≤ 0 := by
  intro H P k hk i hi
  simp only [H, P] at hi ⊢
  obtain ⟨L, hs⟩ := grahamScan_struct pts hnd h3 hgp
  have h2 : 2 ≤ L.length := by rw [hs.length_eq]; omega
  have hi' : i + 1 < (hullLower (gPt L) L.length).length := by rw [← hs.length_scan]; exact hi
  obtain ⟨k', hk', e⟩ := hs.exists_pos hk
  have := hullLower_supports_ang (gPt L) L.length h2 hs.hang k' hk' i hi'
  rw [ccw_gPt] at this
  rw [hs.point h2 (by omega : i < (grahamScan pts).length), hs.point h2 hi, ← e]
  linarith

/-- **C18G (support, closing edge).** Every input point lies on or to the right of the edge from
the last output point back to the pivot. -/
theorem grahamScan_supports_closing :
    let H := grahamScan pts
    let P := fun k => pts[k]?.getD (0, 0)
    ∀ k, k < pts.length →
      ccw (P (H[H.length - 1]?.getD 0)) (P (H[0]?.getD 0)) (P k) ≤ 0 := by
  intro H P k hk
  simp only [H, P]
  obtain ⟨L, hs⟩ := grahamScan_struct pts hnd h3 hgp
  have h2 : 2 ≤ L.length := by rw [hs.length_eq]; omega
  have hlen := grahamScan_length pts hnd h3 hgp
  obtain ⟨k', hk', e⟩ := hs.exists_pos hk
  have := hullLower_closing_ang (gPt L) L.length hs.hang k' hk'
  rw [ccw_gPt] at this
  have hidx := hullLower_indices (gPt L) L.length h2
  have hfirst : (hullLower (gPt L) L.length)[0]?.getD 0 = 0 := by
    have := hidx.2.1
    rw [List.head?_eq_getElem?] at this
    rw [this]; rfl
  have hlast : (hullLower (gPt L) L.length)[(grahamScan pts).length - 1]?.getD 0 = L.length - 1 := by
    have := hidx.2.2.1
    rw [List.getLast?_eq_getElem?, ← hs.length_scan] at this
    rw [this]; rfl
  rw [hs.point h2 (by omega : (grahamScan pts).length - 1 < (grahamScan pts).length),
    hs.point h2 (by omega : 0 < (grahamScan pts).length), ← e, hfirst, hlast]
  linarith

/-- **C18G (support, closed polygon).** Every input point lies on or to the right of every
directed edge of the closed output polygon `H ++ [H[0]]`. -/
theorem grahamScan_supports_cyclic :
    let H := grahamScan pts
    let C := H ++ [H[0]?.getD 0]
    let P := fun k => pts[k]?.getD (0, 0)
    ∀ k, k < pts.length → ∀ i, i + 1 < C.length →
      ccw (P (C[i]?.getD 0)) (P (C[i + 1]?.getD 0)) (P k) ≤ 0 := by
  intro H C P k hk i hi
  simp only [H, C, P] at hi ⊢
  obtain ⟨e1, ⟨h, e2⟩ | ⟨h, e2⟩⟩ := cycle_getD (grahamScan pts) i hi
  · rw [e1, e2]
    exact grahamScan_supports pts hnd h3 hgp k hk i h
  · rw [e1, e2]
    have := grahamScan_supports_closing pts hnd h3 hgp k hk
    simp only [← h, Nat.add_sub_cancel] at this
    exact this

/-- **C18G (strict support).** Every input point other than the two end points of an edge of the
closed output polygon lies strictly to the right of it. -/
theorem grahamScan_supports_strict :
    let H := grahamScan pts
    let C := H ++ [H[0]?.getD 0]
    let P := fun k => pts[k]?.getD (0, 0)
    ∀ k, k < pts.length → ∀ i, i + 1 < C.length → k ≠ C[i]?.getD 0 → k ≠ C[i + 1]?.getD 0 →
      ccw (P (C[i]?.getD 0)) (P (C[i + 1]?.getD 0)) (P k) < 0 := by
  intro H C P k hk i hi hk1 hk2
  have hle := grahamScan_supports_cyclic pts hnd h3 hgp k hk i hi
  simp only [H, C, P] at hi hk1 hk2 hle ⊢
  have hlen := grahamScan_length pts hnd h3 hgp
  have hsound := grahamScan_nodup_bounded pts
  have hiH : i < (grahamScan pts).length := by simpa using hi
  refine lt_of_le_of_ne hle ?_
  obtain ⟨e1, ⟨h, e2⟩ | ⟨h, e2⟩⟩ := cycle_getD (grahamScan pts) i hi
  · rw [e1] at hk1 ⊢
    rw [e2] at hk2 ⊢
    exact hgp _ _ _ (hsound.2 _ (getD_mem_nat hiH)) (hsound.2 _ (getD_mem_nat h)) hk
      (nodup_getD_ne_nat hsound.1 hiH h (by omega)) (Ne.symm hk1) (Ne.symm hk2)
  · rw [e1] at hk1 ⊢
    rw [e2] at hk2 ⊢
    have h0 : 0 < (grahamScan pts).length := by omega
    exact hgp _ _ _ (hsound.2 _ (getD_mem_nat hiH)) (hsound.2 _ (getD_mem_nat h0)) hk
      (nodup_getD_ne_nat hsound.1 hiH h0 (by omega)) (Ne.symm hk1) (Ne.symm hk2)

/-- **C18G (interior).** Input points that are not output vertices lie strictly inside the output
polygon. -/
theorem grahamScan_interior :
    let H := grahamScan pts
    let C := H ++ [H[0]?.getD 0]
    let P := fun k => pts[k]?.getD (0, 0)
    ∀ k, k < pts.length → k ∉ H → ∀ i, i + 1 < C.length →
      ccw (P (C[i]?.getD 0)) (P (C[i + 1]?.getD 0)) (P k) < 0 := by
  intro H C P k hk hkH i hi
  have hiH : i < (grahamScan pts).length := by simpa [C, H] using hi
  have h0 : 0 < (grahamScan pts).length := by omega
  refine grahamScan_supports_strict pts hnd h3 hgp k hk i hi ?_ ?_
  · rintro rfl
    obtain ⟨e1, _⟩ := cycle_getD (grahamScan pts) i hi
    exact hkH (by simp only [H, e1]; exact getD_mem_nat hiH)
  · rintro rfl
    obtain ⟨_, ⟨h, e2⟩ | ⟨h, e2⟩⟩ := cycle_getD (grahamScan pts) i hi
    · exact hkH (by simp only [H, e2]; exact getD_mem_nat h)
    · exact hkH (by simp only [H, e2]; exact getD_mem_nat h0)

/-- **C18G (hull vertices).** An input point lies on the boundary of the output polygon iff it is
one of its vertices: the output is exactly the set of hull vertices. -/
theorem grahamScan_is_hull :
    let H := grahamScan pts
    let C := H ++ [H[0]?.getD 0]
    let P := fun k => pts[k]?.getD (0, 0)
    ∀ k, k < pts.length →
      (k ∈ H ↔ ∃ i, i + 1 < C.length ∧ ccw (P (C[i]?.getD 0)) (P (C[i + 1]?.getD 0)) (P k) = 0) := by
  intro H C P k hk
  constructor
  · intro hmem
    obtain ⟨i, hi, e⟩ := List.getElem_of_mem hmem
    have hi' : i + 1 < C.length := by simpa [C] using hi
    refine ⟨i, hi', ?_⟩
    obtain ⟨e1, _⟩ := cycle_getD (grahamScan pts) i hi'
    have : C[i]?.getD 0 = k := by
      simp only [C, H, e1]
      rw [List.getElem?_eq_getElem hi, Option.getD_some, e]
    rw [this, ccw_self_mid]
  · rintro ⟨i, hi, e⟩
    by_contra hkH
    exact absurd e (ne_of_lt (grahamScan_interior pts hnd h3 hgp k hk hkH i hi))

/-- **C18G (strict turns, closing).** The two turns around the closing edge are strictly clockwise
as well: the closed output polygon is strictly convex. -/
theorem grahamScan_strict_turns_closing :
    let H := grahamScan pts
    let P := fun k => pts[k]?.getD (0, 0)
    ccw (P (H[H.length - 2]?.getD 0)) (P (H[H.length - 1]?.getD 0)) (P (H[0]?.getD 0)) < 0 ∧
      ccw (P (H[H.length - 1]?.getD 0)) (P (H[0]?.getD 0)) (P (H[1]?.getD 0)) < 0 := by
  intro H P
  simp only [H, P]
  have hlen := grahamScan_length pts hnd h3 hgp
  have hsound := grahamScan_nodup_bounded pts
  have hl2 : (grahamScan pts).length - 2 < (grahamScan pts).length := by omega
  have hl1 : (grahamScan pts).length - 1 < (grahamScan pts).length := by omega
  have h0 : 0 < (grahamScan pts).length := by omega
  have h1 : 1 < (grahamScan pts).length := by omega
  have hC : ∀ i, i < (grahamScan pts).length →
      i + 1 < ((grahamScan pts) ++ [(grahamScan pts)[0]?.getD 0]).length := by
    intro i hi; simpa using hi
  constructor
  · have hi := hC ((grahamScan pts).length - 2) hl2
    have := grahamScan_supports_strict pts hnd h3 hgp _ (hsound.2 _ (getD_mem_nat h0)) _ hi
    obtain ⟨e1, ⟨h, e2⟩ | ⟨h, e2⟩⟩ := cycle_getD (grahamScan pts) _ hi
    · simp only [e1, e2] at this
      have e : (grahamScan pts).length - 2 + 1 = (grahamScan pts).length - 1 := by omega
      rw [e] at this
      exact this (nodup_getD_ne_nat hsound.1 h0 hl2 (by omega))
        (nodup_getD_ne_nat hsound.1 h0 hl1 (by omega))
    · omega
  · have hi := hC ((grahamScan pts).length - 1) hl1
    have := grahamScan_supports_strict pts hnd h3 hgp _ (hsound.2 _ (getD_mem_nat h1)) _ hi
    obtain ⟨e1, ⟨h, e2⟩ | ⟨h, e2⟩⟩ := cycle_getD (grahamScan pts) _ hi
    · omega
    · simp only [e1, e2] at this
      exact this (nodup_getD_ne_nat hsound.1 h1 hl1 (by omega))
        (nodup_getD_ne_nat hsound.1 h1 h0 (by omega))

end Scan

/-- `hnd` is implied by the other two hypotheses. -/
theorem genPos_nodup (pts : List P2) (h3 : 3 ≤ pts.length) (hgp : GenPos pts) : pts.Nodup :=
  hgp.nodup h3

/-! Non-vacuity: a concrete point set (given in non-sorted order, with one interior point) satisfies
every hypothesis, and the model computes the clockwise hull starting at the pivot. -/

private def ex1 : List P2 := [(2, 2), (4, 1), (3, 4), (0, 0), (1, 3)]

example : grahamScan ex1 = [3, 4, 2, 1] := by decide +kernel
example : grahamScan [(0, 0), (4, 1), (3, 4), (1, 3), (2, 2)] = [0, 3, 2, 1] := by decide +kernel
example : ex1.Nodup ∧ 3 ≤ ex1.length := by decide +kernel
example : GenPos ex1 := by
  have h : ∀ i < 5, ∀ j < 5, ∀ k < 5, (i ≠ j ∧ i ≠ k ∧ j ≠ k) →
      ccw (ex1[i]?.getD (0, 0)) (ex1[j]?.getD (0, 0)) (ex1[k]?.getD (0, 0)) ≠ 0 := by decide +kernel
  intro i j k hi hj hk h1 h2 h3
  exact h i hi j hj k hk ⟨h1, h2, h3⟩
/-- the interior point (index 0) is strictly right of all four edges of the closed polygon -/
example : ∀ i, i < 4 →
    ccw (ex1[([3, 4, 2, 1, 3] : List Nat)[i]?.getD 0]?.getD (0, 0))
      (ex1[([3, 4, 2, 1, 3] : List Nat)[i + 1]?.getD 0]?.getD (0, 0)) (ex1[0]?.getD (0, 0)) < 0 := by
  decide +kernel
/-- a collinear triple violates the hypothesis (and the scan then drops the middle point) -/
example : ¬ GenPos [(0, 0), (1, 1), (2, 2)] := by
  intro h
  exact h 0 1 2 (by decide) (by decide) (by decide) (by decide) (by decide) (by decide)
    (by decide +kernel)

end Knee

import Knee.Props.C19
import Knee.Props.C19M
import Mathlib.Tactic.Ring
import Mathlib.Tactic.Linarith
import Mathlib.Tactic.Positivity
import Mathlib.Algebra.Order.Field.Basic
import Mathlib.Data.Rat.Lemmas
/-!
# C19S — sign of MCC on perfect detection; `rmse = sqrt(mse)`

C19 handles `evaluation.mcc` through its numerator and *squared* denominator (`mcc_sq_le_one`,
`mcc_perfect : num² = den²`), which leaves the sign open (`MCC = ±1`).  Here the sign is fixed:
on a perfect detection with at least one knee and at least one true negative the numerator is
*positive*, hence `MCC = +1`.  The square root of the Python (`math.sqrt`) is a parameter
`sq : ℚ → ℚ`; the only property used is that it is exact on squares, `sq (v*v) = v` for `v ≥ 0`.

`evaluation.rmse` is `math.sqrt(mse(…))`: `rmseQ sq := sq (mseQ2 …)`.  Non-negativity and
vanishing carry over from C19M under `0 ≤ sq v` for `0 ≤ v` and `sq 0 = 0`.

Remark on the hypotheses on `sq`.  No function `ℚ → ℚ` is *both* exact on squares *and* monotone
(`no_exact_monotone_root` below: it would have to send 2 to a rational `q` with `r ≤ q` for all
rational `r ≥ 0` with `r² ≤ 2` and `q ≤ r` for all rational `r ≥ 0` with `2 ≤ r²`).  Therefore the two kinds of hypotheses are never
combined in one theorem: the MCC theorems use exactness on squares only, the RMSE theorems use
sign / zero / (for `rmseQ_mono`) monotonicity only.  `exactRoot` below is a function satisfying
the first kind together with `sq 0 = 0` and non-negativity; `fun v => v` satisfies the second kind.
-/
namespace Knee

/-! ## 1. MCC with an explicit square root -/

/-- `evaluation.mcc`: `n / math.sqrt((tp+fp)*(tp+fn)*(tn+fp)*(tn+fn))`, `n = tp*tn - fp*fn`,
with the square root as a parameter -/
def mccQ (sq : Rat → Rat) (tp fp fn : Nat) (tn : Int) : Rat :=
  ((mccNum tp fp fn tn : Int) : Rat) / sq ((mccDenSq tp fp fn tn : Int) : Rat)

/-- on `fp = fn = 0` the numerator is `tp·tn` -/
theorem mccNum_perfect (tp : Nat) (tn : Int) : mccNum tp 0 0 tn = (tp : Int) * tn := by
  simp [mccNum]

/-- on `fp = fn = 0` the squared denominator is `(tp·tn)²` -/
theorem mccDenSq_perfect (tp : Nat) (tn : Int) :
    mccDenSq tp 0 0 tn = ((tp : Int) * tn) * ((tp : Int) * tn) := by
  simp only [mccDenSq]
  push_cast
  ring

/-- **C19S (MCC = +1 on perfect detection).** If every knee is a true positive and nothing is
missed (`fp = fn = 0`), with at least one knee (`tp > 0`) and at least one true negative
(`tn > 0`): the MCC numerator is *positive*, numerator² = denominator², and for every square root
`sq` that is exact on squares the value computed by `evaluation.mcc` is exactly `+1`. -/
theorem mcc_perfect_sign (sq : Rat → Rat) (hsq : ∀ v : Rat, 0 ≤ v → sq (v * v) = v)
    (tp : Nat) (tn : Int) (htp : 0 < tp) (htn : 0 < tn) :
    0 < mccNum tp 0 0 tn
    ∧ (mccNum tp 0 0 tn) ^ 2 = mccDenSq tp 0 0 tn
    ∧ mccQ sq tp 0 0 tn = 1 := by
  have hpos : 0 < (tp : Int) * tn := Int.mul_pos (by exact_mod_cast htp) htn
  have hposQ : (0 : Rat) < (((tp : Int) * tn : Int) : Rat) := by exact_mod_cast hpos
  refine ⟨by rw [mccNum_perfect]; exact hpos, mcc_perfect tp tn, ?_⟩
  unfold mccQ
  rw [mccNum_perfect, mccDenSq_perfect]
  have hcast : ((((tp : Int) * tn) * ((tp : Int) * tn) : Int) : Rat)
      = (((tp : Int) * tn : Int) : Rat) * (((tp : Int) * tn : Int) : Rat) := by push_cast; ring
  rw [hcast, hsq _ (le_of_lt hposQ)]
  exact div_self (ne_of_gt hposQ)

/-- the sign alone needs no square root: with `fp = fn = 0` the numerator has the sign of `tn`
(for `tp > 0`); a perfect detection on a curve with *no* true negative gives numerator 0
(the Python then divides by zero) -/
theorem mccNum_perfect_pos_iff (tp : Nat) (tn : Int) (htp : 0 < tp) :
    0 < mccNum tp 0 0 tn ↔ 0 < tn := by
  rw [mccNum_perfect]
  have h : (0 : Int) < (tp : Int) := by exact_mod_cast htp
  constructor
  · intro hm
    by_contra hn
    have : (tp : Int) * tn ≤ 0 := Int.mul_nonpos_of_nonneg_of_nonpos (le_of_lt h) (not_lt.1 hn)
    omega
  · exact fun htn => Int.mul_pos h htn

/-- **C19S (general sign).** Whatever the matrix, with an exact-on-squares root and a positive
squared denominator, the MCC has the sign of its numerator and `|MCC| ≤ 1` — stated without
division: `MCC · den = num` with `den > 0`, `den² = denSq`.  (Only needs `sq v > 0` and
`sq v * sq v = v` at the one value `v = denSq`.) -/
theorem mccQ_mul_den (sq : Rat → Rat) (tp fp fn : Nat) (tn : Int)
    (hpos : 0 < sq ((mccDenSq tp fp fn tn : Int) : Rat)) :
    mccQ sq tp fp fn tn * sq ((mccDenSq tp fp fn tn : Int) : Rat) = ((mccNum tp fp fn tn : Int) : Rat) := by
  unfold mccQ
  exact div_mul_cancel₀ _ (ne_of_gt hpos)

/-! ## 2. the confusion matrix of a perfect detection -/

/-- **C19S (confusion matrix of a perfect detection).** If the greedy matching counts every one of
the `nk > 0` knees as a true positive and there are as many expected points as knees, the matrix
is `[[nk, 0], [0, n - nk]]`. -/
theorem cm_perfect (d : Nat → Nat → Rat) (t : Rat) (n nk : Nat)
    (htp : (cm d t n nk nk).1 = nk) :
    cm d t n nk nk = (nk, 0, 0, (n : Int) - nk) := by
  have h1 := cm_tp_fn d t n nk nk
  simp only [cm] at htp h1 ⊢
  have hfn : (cmGo d t nk (List.range nk) (0, 0, [])).2.1 = 0 := by omega
  rw [htp, hfn]
  simp

/-- **C19S (all three scores are 1 on a perfect detection).** With `tp = |K| = |E| > 0` and
fewer knees than points (so `tn = n - |K| > 0`), accuracy, F1 and MCC computed from
`evaluation.cm` are all exactly 1. -/
theorem cm_perfect_scores (sq : Rat → Rat) (hsq : ∀ v : Rat, 0 ≤ v → sq (v * v) = v)
    (d : Nat → Nat → Rat) (t : Rat) (n nk : Nat) (hk : 0 < nk) (hn : nk < n)
    (htp : (cm d t n nk nk).1 = nk) :
    let r := cm d t n nk nk
    accuracyQ r.1 r.2.1 r.2.2.1 r.2.2.2 = 1 ∧ f1Q r.1 r.2.1 r.2.2.1 = 1
      ∧ mccQ sq r.1 r.2.1 r.2.2.1 r.2.2.2 = 1 ∧ 0 < mccNum r.1 r.2.1 r.2.2.1 r.2.2.2 := by
  intro r
  have hr : r = (nk, 0, 0, (n : Int) - nk) := cm_perfect d t n nk htp
  rw [hr]
  show accuracyQ nk 0 0 ((n : Int) - nk) = 1 ∧ f1Q nk 0 0 = 1
      ∧ mccQ sq nk 0 0 ((n : Int) - nk) = 1 ∧ 0 < mccNum nk 0 0 ((n : Int) - nk)
  have htn : (0 : Int) < (n : Int) - nk := by omega
  obtain ⟨h1, -, h3⟩ := mcc_perfect_sign sq hsq nk ((n : Int) - nk) hk htn
  exact ⟨accuracy_perfect nk _ (by omega), f1_perfect nk hk, h3, h1⟩

/-! ## 3. `rmse = sqrt(mse)` -/

/-- `evaluation.rmse`: `math.sqrt(mse(points, knees, expected, s))` -/
def rmseQ (sq : Rat → Rat) (s : Strategy) (expected kneePts : List P2) : Rat :=
  sq (mseQ2 s expected kneePts)

/-- `evaluation.rmspe` likewise is the square root of `rmspeSqQ` -/
def rmspeQ (sq : Rat → Rat) (s : Strategy) (expected kneePts : List P2) : Rat :=
  sq (rmspeSqQ s expected kneePts)

/-- **C19S (rmse ≥ 0).** For a square root that is non-negative on non-negative arguments,
`rmse ≥ 0` for every strategy, expected set and knee list. -/
theorem rmseQ_nonneg (sq : Rat → Rat) (hnn : ∀ v : Rat, 0 ≤ v → 0 ≤ sq v)
    (s : Strategy) (E K : List P2) : 0 ≤ rmseQ sq s E K :=
  hnn _ (mseQ2_nonneg s E K)

/-- the same from `sq 0 = 0` and monotonicity on the non-negative rationals -/
theorem rmseQ_nonneg_of_mono (sq : Rat → Rat) (h0 : sq 0 = 0)
    (hmono : ∀ u v : Rat, 0 ≤ u → u ≤ v → sq u ≤ sq v)
    (s : Strategy) (E K : List P2) : 0 ≤ rmseQ sq s E K := by
  have := hmono 0 _ (le_refl 0) (mseQ2_nonneg s E K)
  rw [h0] at this
  exact this

/-- **C19S (rmse = 0 on perfect detection).** When the knee points are exactly the expected
points, `rmse = 0` for every strategy (`sq 0 = 0`). -/
theorem rmseQ_self (sq : Rat → Rat) (h0 : sq 0 = 0) (s : Strategy) (E : List P2) :
    rmseQ sq s E E = 0 := by
  unfold rmseQ
  rw [mseQ2_self, h0]

/-- **C19S (rmse = 0 when both sides have the same points).** Order and multiplicity do not
matter: if `E` and the knee points have the same members, `rmse = 0` for every strategy. -/
theorem rmseQ_same_points (sq : Rat → Rat) (h0 : sq 0 = 0) (s : Strategy) {E K : List P2}
    (hEK : ∀ p, p ∈ E ↔ p ∈ K) : rmseQ sq s E K = 0 := by
  unfold rmseQ mseQ2
  rcases strategySide_cases s E K with h | h <;> rw [h]
  · rw [mseSides_subset_zero fun p hp => (hEK p).1 hp, h0]
  · rw [mseSides_subset_zero fun p hp => (hEK p).2 hp, h0]

/-- **C19S (`rmse` is the square root of `mse`).** `rmseQ sq = sq ∘ mseQ2` (by definition, as in
the Python), and for a root with `sq 0 = 0` that is non-negative on non-negative arguments:
`rmse ≥ 0`, and `rmse = 0` when `E` is exactly the list of knee points. -/
theorem rmse_is_sqrt_mse (sq : Rat → Rat) (h0 : sq 0 = 0) (hnn : ∀ v : Rat, 0 ≤ v → 0 ≤ sq v)
    (s : Strategy) (E K : List P2) :
    rmseQ sq s E K = sq (mseQ2 s E K) ∧ 0 ≤ rmseQ sq s E K ∧ rmseQ sq s E E = 0 :=
  ⟨rfl, rmseQ_nonneg sq hnn s E K, rmseQ_self sq h0 s E⟩

/-- **C19S (rmse = 0 iff mse = 0 iff containment).** For a root that vanishes only at 0
(`sq 0 = 0`, `sq v > 0` for `v > 0`) and non-empty sides, `rmse = 0` exactly when every point of
the iterated side occurs in the searched side. -/
theorem rmseQ_eq_zero_iff (sq : Rat → Rat) (h0 : sq 0 = 0) (hpos : ∀ v : Rat, 0 < v → 0 < sq v)
    (s : Strategy) {E K : List P2} (hE : E ≠ []) (hK : K ≠ []) :
    rmseQ sq s E K = 0 ↔ ∀ p ∈ (strategySide s E K).1, p ∈ (strategySide s E K).2 := by
  rw [← mseQ2_eq_zero_iff s hE hK]
  unfold rmseQ
  constructor
  · intro h
    rcases lt_or_eq_of_le (mseQ2_nonneg s E K) with hlt | heq
    · have := hpos _ hlt; rw [h] at this; exact absurd this (lt_irrefl 0)
    · exact heq.symm
  · intro h; rw [h, h0]

/-- **C19S (rmse is monotone in mse).** For a monotone root, a smaller `mse` gives a smaller or
equal `rmse` (so ranking detectors by `rmse` or by `mse` is the same). -/
theorem rmseQ_mono (sq : Rat → Rat) (hmono : ∀ u v : Rat, 0 ≤ u → u ≤ v → sq u ≤ sq v)
    (s s' : Strategy) (E K E' K' : List P2) (h : mseQ2 s E K ≤ mseQ2 s' E' K') :
    rmseQ sq s E K ≤ rmseQ sq s' E' K' :=
  hmono _ _ (mseQ2_nonneg s E K) h

/-- `rmspe` likewise: non-negative, and 0 on perfect detection -/
theorem rmspeQ_nonneg_self (sq : Rat → Rat) (h0 : sq 0 = 0) (hnn : ∀ v : Rat, 0 ≤ v → 0 ≤ sq v)
    (s : Strategy) (E K : List P2) : 0 ≤ rmspeQ sq s E K ∧ rmspeQ sq s E E = 0 := by
  refine ⟨hnn _ (rmspeSqQ_nonneg s E K), ?_⟩
  unfold rmspeQ
  rw [rmspeSqQ_self, h0]

/-! ## 4. the hypotheses on `sq` are satisfiable -/

/-- an exact square root on the rational squares (0 elsewhere) -/
noncomputable def exactRoot (v : Rat) : Rat :=
  open Classical in if h : ∃ r : Rat, 0 ≤ r ∧ r * r = v then h.choose else 0

/-- a non-negative rational is determined by its square -/
theorem nonneg_root_unique {a b : Rat} (ha : 0 ≤ a) (hb : 0 ≤ b) (h : a * a = b * b) : a = b := by
  have h1 : (a - b) * (a + b) = 0 := by ring_nf; linarith
  rcases mul_eq_zero.1 h1 with h2 | h2
  · linarith
  · have ha0 : a = 0 := by linarith
    have hb0 : b = 0 := by linarith
    rw [ha0, hb0]

/-- **C19S (non-vacuity of the MCC hypothesis).** `exactRoot` is exact on squares, vanishes at 0
and is non-negative: the hypotheses `hsq` of `mcc_perfect_sign`,
`h0`/`hnn` of `rmse_is_sqrt_mse` hold for it simultaneously. -/
theorem exactRoot_spec :
    (∀ v : Rat, 0 ≤ v → exactRoot (v * v) = v) ∧ exactRoot 0 = 0
      ∧ (∀ v : Rat, 0 ≤ v → 0 ≤ exactRoot v) := by
  have hex : ∀ v : Rat, 0 ≤ v → exactRoot (v * v) = v := by
    intro v hv
    have h : ∃ r : Rat, 0 ≤ r ∧ r * r = v * v := ⟨v, hv, rfl⟩
    unfold exactRoot
    rw [dif_pos h]
    exact nonneg_root_unique h.choose_spec.1 hv h.choose_spec.2
  refine ⟨hex, by simpa using hex 0 (le_refl 0), ?_⟩
  intro v _
  unfold exactRoot
  split
  · next h => exact h.choose_spec.1
  · exact le_refl 0

/-- 2 is not the square of a rational -/
theorem no_rat_sq_two (q : Rat) : q * q ≠ 2 := by
  intro h
  have hd : (q * q).den = q.den * q.den := Rat.mul_self_den q
  have hn : (q * q).num = q.num * q.num := Rat.mul_self_num q
  rw [h] at hd hn
  have hd1 : q.den * q.den = 1 := by simpa using hd.symm
  have hn2 : q.num * q.num = 2 := by simpa using hn.symm
  have : q.num.natAbs * q.num.natAbs = 2 := by
    have := congrArg Int.natAbs hn2
    simpa [Int.natAbs_mul] using this
  generalize q.num.natAbs = m at this
  rcases Nat.lt_or_ge m 2 with h1 | h1
  · have : m = 0 ∨ m = 1 := by omega
    rcases this with rfl | rfl <;> omega
  · nlinarith

/-- **C19S (why the hypotheses on `sq` are kept apart).** No function `ℚ → ℚ` is both exact on
squares and monotone on the non-negative rationals: its value `q` at 2 satisfies `1 ≤ q ≤ 2`,
`q² ≠ 2`, and a rational strictly between `q` and `√2` contradicts monotonicity.  So a theorem
assuming both about the `math.sqrt` parameter would be vacuous; the MCC theorems assume exactness
only, the RMSE theorems sign / zero / monotonicity only. -/
theorem no_exact_monotone_root :
    ¬ ∃ sq : Rat → Rat, (∀ v : Rat, 0 ≤ v → sq (v * v) = v)
      ∧ (∀ u v : Rat, 0 ≤ u → u ≤ v → sq u ≤ sq v) := by
  rintro ⟨sq, hex, hmono⟩
  have h1 : sq 1 = 1 := by simpa using hex 1 (by norm_num)
  have h4 : sq 4 = 2 := by
    have := hex 2 (by norm_num); norm_num at this; exact this
  have hq1 : 1 ≤ sq 2 := by
    have := hmono 1 2 (by norm_num) (by norm_num); rwa [h1] at this
  have hq2 : sq 2 ≤ 2 := by
    have := hmono 2 4 (by norm_num) (by norm_num); rwa [h4] at this
  rcases lt_trichotomy (sq 2 * sq 2) 2 with hlt | heq | hgt
  · -- a rational r > sq 2 with r² ≤ 2
    have hr0 : 0 ≤ sq 2 + (2 - sq 2 * sq 2) / 5 := by nlinarith
    have hr2 : (sq 2 + (2 - sq 2 * sq 2) / 5) * (sq 2 + (2 - sq 2 * sq 2) / 5) ≤ 2 := by
      nlinarith
    have := hmono _ _ (mul_nonneg hr0 hr0) hr2
    rw [hex _ hr0] at this
    nlinarith
  · exact no_rat_sq_two _ heq
  · have hr0 : 0 ≤ sq 2 - (sq 2 * sq 2 - 2) / 4 := by nlinarith
    have hr2 : 2 ≤ (sq 2 - (sq 2 * sq 2 - 2) / 4) * (sq 2 - (sq 2 * sq 2 - 2) / 4) := by
      nlinarith
    have := hmono _ _ (by norm_num) hr2
    rw [hex _ hr0] at this
    nlinarith
/-- the identity satisfies the RMSE-side hypotheses (`sq 0 = 0`, monotone, positive on positives) -/
example : (fun v : Rat => v) 0 = 0 ∧ (∀ u v : Rat, 0 ≤ u → u ≤ v → (fun v : Rat => v) u ≤ (fun v : Rat => v) v)
    ∧ (∀ v : Rat, 0 < v → 0 < (fun v : Rat => v) v) := ⟨rfl, fun _ _ _ h => h, fun _ h => h⟩

/-! Non-vacuity on concrete data.  One-to-one oracle `d e j = |e − j|`, tolerance 0, three knees,
three expected points, ten points: the matrix is `[[3, 0], [0, 7]]`; numerator `21 > 0`,
denominator² `441 = 21²`. -/
example : cm (fun e j => rabs ((e : Rat) - j)) 0 10 3 3 = (3, 0, 0, 7)
    ∧ (cm (fun e j => rabs ((e : Rat) - j)) 0 10 3 3).1 = 3 ∧ 0 < 3 ∧ 3 < 10
    ∧ mccNum 3 0 0 7 = 21 ∧ mccDenSq 3 0 0 7 = 441 := by decide +kernel
/-- the MCC of that matrix is `+1` for the exact root -/
example : mccQ exactRoot 3 0 0 7 = 1 :=
  (mcc_perfect_sign exactRoot exactRoot_spec.1 3 7 (by decide) (by decide)).2.2
/-- all three scores from `cm` on that instance -/
example : let r := cm (fun e j => rabs ((e : Rat) - j)) 0 10 3 3
    accuracyQ r.1 r.2.1 r.2.2.1 r.2.2.2 = 1 ∧ f1Q r.1 r.2.1 r.2.2.1 = 1
      ∧ mccQ exactRoot r.1 r.2.1 r.2.2.1 r.2.2.2 = 1 ∧ 0 < mccNum r.1 r.2.1 r.2.2.1 r.2.2.2 :=
  cm_perfect_scores exactRoot exactRoot_spec.1 _ 0 10 3 (by decide) (by decide) (by decide +kernel)
/-- `tn > 0` is needed for the sign: a perfect detection that uses up all points has numerator 0 -/
example : cm (fun e j => rabs ((e : Rat) - j)) 0 3 3 3 = (3, 0, 0, 0) ∧ mccNum 3 0 0 0 = 0 := by
  decide +kernel
/-- an imperfect detection has a numerator of either sign: `[[1,1],[1,7]]` → 6, `[[0,2],[2,0]]` → −4 -/
example : mccNum 1 1 1 7 = 6 ∧ mccNum 0 2 2 0 = -4 := by decide +kernel
/-- `mse` values whose root is rational: `mse = 1/4` (one point, off by `(1/2, 1/2)`), `rmse = 1/2` -/
example : mseQ2 .expected [(1, 1)] [(3/2, 3/2)] = (1/2) * (1/2) := by decide +kernel
example : rmseQ exactRoot .expected [(1, 1)] [(3/2, 3/2)] = 1/2 := by
  unfold rmseQ
  rw [show mseQ2 .expected [(1, 1)] [(3/2, 3/2)] = (1/2) * (1/2) by decide +kernel]
  exact exactRoot_spec.1 _ (by decide +kernel)
/-- same members in a different order, with a repetition: every strategy gives 0 -/
example : mseQ2 .worst [(2, 2), (3, 3)] [(3, 3), (2, 2), (3, 3)] = 0
    ∧ mseQ2 .knees [(2, 2), (3, 3)] [(3, 3), (2, 2), (3, 3)] = 0 := by decide +kernel

end Knee

import Knee.Model.Link
import Knee.Generated.LinkTable
/-!
# C20 (b) — every name, module attribute and intra-package call signature resolves

`Knee/Generated/LinkTable.lean` is regenerated from `/repo/src/kneeliverse` on every run by the
translator `harness/linkgraph.py` (CPython `ast` + `symtable` for scoping, introspection of the
installed modules for `dir()` and signatures).  The *decision* is made here, by the kernel
(`decide +kernel`, no extra axiom): the theorem `Knee.Generated.all_resolve` is re-proved against
what the code says now.  The lemmas below turn the Boolean table check into the statement the
property makes.  (C20 (a) — purity, determinism, layout independence — is decided by observation,
see DESIGN.md.)
-/
namespace Knee

theorem subsetSorted_sound : ∀ (ds rs : List Nat), subsetSorted rs ds = true → ∀ r ∈ rs, r ∈ ds := by
  intro ds
  induction ds with
  | nil =>
    intro rs h r hr
    cases rs with
    | nil => simp at hr
    | cons a t => simp [subsetSorted] at h
  | cons d ds ih =>
    intro rs h r hr
    cases rs with
    | nil => simp at hr
    | cons a t =>
      simp only [subsetSorted] at h
      split at h
      · exact List.mem_cons_of_mem _ (ih (a :: t) h r hr)
      · split at h
        · rename_i hda
          rcases List.mem_cons.mp hr with rfl | hr'
          · rw [hda]; exact List.mem_cons_self
          · exact List.mem_cons_of_mem _ (ih t h r hr')
        · exact absurd h (by simp)

/-- **C20 (b).** In the package as it is now: every global name a scope loads is bound at module level
or is a builtin; every attribute asked of an imported module (or of an attribute of one) exists on the
installed object; every intra-package call site matches its callee's signature (positional count,
keyword names, required parameters) — so no code path can fail with NameError, AttributeError on a
module attribute, or an arity TypeError — apart from the call sites listed as known findings, which
are proved to be arity errors (`Knee.Generated.known_bad_really_bad`). -/
theorem every_reference_resolves :
    (∀ r ∈ Generated.nameRefs, r ∈ Generated.nameDefs) ∧
    (∀ r ∈ Generated.attrRefs, r ∈ Generated.attrDefs) ∧
    (∀ c ∈ Generated.calls, callOkIn Generated.sigs c = true) := by
  have h := Generated.all_resolve
  simp only [linkOk, Bool.and_eq_true] at h
  obtain ⟨⟨h1, h2⟩, h3⟩ := h
  exact ⟨subsetSorted_sound _ _ h1, subsetSorted_sound _ _ h2, fun c hc => List.all_eq_true.mp h3 c hc⟩

/-- the known-finding call sites are genuine arity errors -/
theorem known_findings_are_arity_errors :
    ∀ c ∈ Generated.knownBadCalls, callOkIn Generated.sigs c = false := by
  intro c hc
  have := List.all_eq_true.mp Generated.known_bad_really_bad c hc
  simpa using this

/-! Non-vacuity: the table is not empty, and the checker rejects a broken table. -/
example : Generated.nameRefs.length > 100 ∧ Generated.attrRefs.length > 50 ∧ Generated.calls.length > 100 := by decide +kernel
example : subsetSorted [3, 7] [1, 3, 5, 8] = false := by decide
example : callOk ⟨1, [10, 11, 12, 13], 4, false, false, [], []⟩ ⟨1, 3, []⟩ = false := by decide

end Knee

import Knee.Props.C03A
import Knee.Props.C03B
import Knee.Lemmas.ElbowC
/-!
# C03 — every single-knee detector finds the corner of an exact two-slope elbow

Models: the Layer-N exact criteria over ℚ (`Knee/Model/Elbow.lean`: `cfdQ`, `csdQ`, `curvCritSq`,
`mengerAt`, `lmErrRss`; `Knee/Model/Isodata.lean`: `isodataQ`, `dfdtDiffsQ`;
`Knee/Model/KneedleQ.lean`: `kneedleDiffQ`) plugged into the Layer-S index selection of
`Knee/Model/Detectors.lean` (`curvKnee`, `mengerKnee`, `lmethodKnee`, `dfdtKnee`, `kneedleKnee`).
Everything is exact rational arithmetic: no tolerance, no oracle.

An elbow `IsElbow x y n c s1 s2` is a curve of `n` points with strictly increasing abscissae made
of exactly two straight arms of slopes `s1 ≠ s2` meeting at index `c`, each arm having at least
three segments (`3 ≤ c`, `c + 3 < n`).  The statements are therefore *more general* than the
property ("unit-spaced x, slopes a and b"): any strictly increasing `x`, any pair of distinct
rational slopes, any offset, any arm lengths ≥ 3.

* `elbow_curvature`     — curvature detector
* `elbow_menger`        — Menger-curvature detector
* `elbow_lmethod_scan`, `elbow_lmethod_none` — L-method (one scan; the whole loop, no refinement)
* `elbow_dfdt`          — DFDT on the gradient array of the curve (ISODATA threshold)
* `elbow_kneedle`       — Kneedle without smoothing, on monotone elbows (all four
                          direction × concavity cases; `elbow_kneedle_diff_*` give the difference curve)
* `elbow_exists`        — the hypotheses are satisfiable for every `n`, `c`, `s1 ≠ s2`

Parts: `Props/C03A.lean` (curvature, Menger, L-method), `Props/C03B.lean` (ISODATA / DFDT on the
gradient array `elbowG`), `Lemmas/ElbowC.lean` (the gradient array of the curve is an `elbowG`;
Kneedle: chord, vote, normalisation and unimodality of the difference curve).
-/
namespace Knee

variable {x y : Nat → Rat} {n c : Nat} {s1 s2 : Rat}

/-! ## 1. The detectors return the corner -/

/-- **C03 (curvature).** `np.argmax(curvature[1:-1]) + 1` of an exact elbow is the corner: the
criterion `f''² / (1 + f'²)³` vanishes off the corner and is positive at it. -/
theorem elbow_curvature (h : IsElbow x y n c s1 s2) : curvKneeQ x y n = c := curv_elbow h

/-- **C03 (Menger).** `np.argmax([0] + menger + [0])` of an exact elbow is the corner. -/
theorem elbow_menger (h : IsElbow x y n c s1 s2) : mengerKneeQ x y n = c := menger_elbow h

/-- **C03 (L-method, one scan).** The first minimum of the end-point-fit RSS error over the splits
`2 … n-3` is the corner (error exactly `0` there, `> 0` elsewhere). -/
theorem elbow_lmethod_scan (h : IsElbow x y n c s1 s2) : lmethodScan (lmErrsRss x y n) = c :=
  lmethod_scan_elbow h

/-- **C03 (L-method, no refinement).** `lmethod.knee(…, Refinement.none)` returns the corner, for
every `limit`. -/
theorem elbow_lmethod_none (h : IsElbow x y n c s1 s2) (limit : Nat) :
    lmethodKneeQ x y .none n limit = some c := lmethod_elbow_none h limit

/-- the gradient array of an exact elbow: `c` copies of `s1`, the corner gradient, `n - 1 - c`
copies of `s2` -/
theorem elbow_gradient (h : IsElbow x y n c s1 s2) :
    (List.range n).map (cfdQ x y n) = elbowG c (cfdQ x y n c) (n - 1 - c) s1 s2 :=
  gradient_elbow h

/-- the corner gradient (three-point central derivative) is the convex combination of the two
slopes weighted by the neighbouring spacings … -/
theorem elbow_corner_gradient (h : IsElbow x y n c s1 s2) :
    cfdQ x y n c =
      (s1 * (x (c + 1) - x c) + s2 * (x c - x (c - 1))) / (x (c + 1) - x (c - 1)) :=
  h.cfd_corner

/-- … hence strictly between the slopes -/
theorem elbow_corner_gradient_between (h : IsElbow x y n c s1 s2) :
    min s1 s2 < cfdQ x y n c ∧ cfdQ x y n c < max s1 s2 := cfd_corner_between h

/-- **C03 (DFDT).** `dfdt.knee` on the gradient of an exact elbow (exact ISODATA threshold,
`eps = 1e-6`, `max_iter = 100`) returns the corner. -/
theorem elbow_dfdt (h : IsElbow x y n c s1 s2) :
    dfdtKnee (dfdtDiffsQ ((List.range n).map (cfdQ x y n))) n = c := dfdt_elbow_curve h

/-! ## 2. Kneedle (no smoothing) on monotone elbows

`kneedle.knee` needs a monotone curve to make sense (the difference curve is built from the
min-max normalised coordinates and the direction of the chord), so the elbow is taken
non-decreasing (`0 ≤ s1, s2`) or non-increasing (`s1, s2 ≤ 0`); a flat arm is allowed. -/

/-- a difference curve that strictly increases up to `c` and strictly decreases after it has `c`
as its only strict peak, which `highest_peak` returns -/
theorem kneedle_unimodal (d : List Rat) (c : Nat) (hc1 : 1 ≤ c) (hc2 : c + 1 < d.length)
    (hup : ∀ i, i < c → d[i]?.getD 0 < d[i + 1]?.getD 0)
    (hdown : ∀ i, c ≤ i → i + 1 < d.length → d[i + 1]?.getD 0 < d[i]?.getD 0) :
    kneedleKnee d = some c := unimodal_peak d c hc1 hc2 hup hdown

/-- `linear_fit` of an elbow is its chord; the chord's slope lies strictly between the slopes -/
theorem elbow_chord (h : IsElbow x y n c s1 s2) :
    fitQ ((List.range n).map x) ((List.range n).map y) =
        (y 0 - chordM x y n * x 0, chordM x y n) ∧
      min s1 s2 < chordM x y n ∧ chordM x y n < max s1 s2 :=
  ⟨h.fit, h.chordM_between⟩

/-- the concavity vote `Σ (y − ŷ)` is never `0` on an elbow: positive iff `s2 < s1` (the curve lies
above its chord), negative iff `s1 < s2` -/
theorem elbow_vote (h : IsElbow x y n c s1 s2) :
    (s2 < s1 → 0 < ((List.range n).map fun i =>
        y i - (x i * chordM x y n + (y 0 - chordM x y n * x 0))).sum) ∧
      (s1 < s2 → ((List.range n).map fun i =>
        y i - (x i * chordM x y n + (y 0 - chordM x y n * x 0))).sum < 0) :=
  ⟨h.vote_pos, h.vote_neg⟩

/-- **C03 (Kneedle).** On a monotone exact elbow `kneedle.knee` without smoothing returns the
corner: the difference curve is affine in `(x, y)` on each arm, strictly increasing along the first
arm and strictly decreasing along the second, so the corner is its only strict peak.  The four
cases are `kneedle_elbow_increasing_concave / _increasing_convex / _decreasing_concave /
_decreasing_convex` in `Lemmas/ElbowC.lean`. -/
theorem elbow_kneedle (h : IsElbow x y n c s1 s2)
    (hmono : (0 ≤ s1 ∧ 0 ≤ s2 ∧ (0 < s1 ∨ 0 < s2)) ∨ (s1 ≤ 0 ∧ s2 ≤ 0 ∧ (s1 < 0 ∨ s2 < 0))) :
    kneedleKneeQ ((List.range n).map x) ((List.range n).map y) = some c := kneedle_elbow h hmono

/-- the positivity clause of the monotonicity hypothesis is implied by `s1 ≠ s2` -/
theorem elbow_kneedle' (h : IsElbow x y n c s1 s2)
    (hmono : (0 ≤ s1 ∧ 0 ≤ s2) ∨ (s1 ≤ 0 ∧ s2 ≤ 0)) :
    kneedleKneeQ ((List.range n).map x) ((List.range n).map y) = some c := by
  apply kneedle_elbow h
  have hs := h.slopes
  rcases hmono with ⟨h1, h2⟩ | ⟨h1, h2⟩
  · refine Or.inl ⟨h1, h2, ?_⟩
    by_contra hc
    rw [not_or, not_lt, not_lt] at hc
    exact hs (by rw [le_antisymm hc.1 h1, le_antisymm hc.2 h2])
  · refine Or.inr ⟨h1, h2, ?_⟩
    by_contra hc
    rw [not_or, not_lt, not_lt] at hc
    exact hs (by rw [le_antisymm h1 hc.1, le_antisymm h2 hc.2])

/-! ## 3. Non-vacuity -/

/-- **C03 (non-vacuity, general).** For every corner index `c ≥ 3`, every length `n > c + 3` and
every pair of distinct slopes, the unit-spaced two-slope curve is an elbow. -/
theorem elbow_exists (n c : Nat) (s1 s2 : Rat) (hc : 3 ≤ c) (hn : c + 3 < n) (hs : s1 ≠ s2) :
    IsElbow (fun i => (i : Rat))
      (fun i => if i ≤ c then s1 * (i : Rat) else s1 * (c : Rat) + s2 * ((i : Rat) - (c : Rat)))
      n c s1 s2 where
  xinc := by
    intro i j hij _
    exact_mod_cast hij
  left := by
    intro i hi
    simp only [if_pos hi, Nat.zero_le, if_true]
    push_cast
    ring
  right := by
    intro i hi _
    simp only [Nat.le_refl, if_true]
    by_cases hic : i ≤ c
    · have e : i = c := by omega
      subst e
      simp
    · simp only [if_neg hic]
  slopes := hs
  arm1 := hc
  arm2 := hn

/-- the sample elbow of `Props/C03A.lean` (9 points, corner 4, slopes −2 and −1/8) -/
example : IsElbow (fun i => (i : Rat)) sampleElbowY 9 4 (-2) (-1 / 8) := sampleElbow_isElbow

example : curvKneeQ (fun i => (i : Rat)) sampleElbowY 9 = 4 := by decide +kernel
example : mengerKneeQ (fun i => (i : Rat)) sampleElbowY 9 = 4 := by decide +kernel
example : lmethodKneeQ (fun i => (i : Rat)) sampleElbowY .none 9 4 = some 4 := by decide +kernel
example : (List.range 9).map (cfdQ (fun i => (i : Rat)) sampleElbowY 9)
    = [-2, -2, -2, -2, -17 / 16, -1 / 8, -1 / 8, -1 / 8, -1 / 8] := by decide +kernel
example : dfdtKnee (dfdtDiffsQ ((List.range 9).map (cfdQ (fun i => (i : Rat)) sampleElbowY 9))) 9
    = 4 := by decide +kernel
example : kneedleDiffQ ((List.range 9).map fun i : Nat => (i : Rat)) ((List.range 9).map sampleElbowY)
    = [0, 15 / 136, 15 / 68, 45 / 136, 15 / 34, 45 / 136, 15 / 68, 15 / 136, 0] := by decide +kernel
example : kneedleKneeQ ((List.range 9).map fun i : Nat => (i : Rat)) ((List.range 9).map sampleElbowY)
    = some 4 := by decide +kernel
/-- the theorems agree with the computation -/
example : dfdtKnee (dfdtDiffsQ ((List.range 9).map (cfdQ (fun i => (i : Rat)) sampleElbowY 9))) 9
    = 4 := elbow_dfdt sampleElbow_isElbow
example : kneedleKneeQ ((List.range 9).map fun i : Nat => (i : Rat)) ((List.range 9).map sampleElbowY)
    = some 4 := elbow_kneedle sampleElbow_isElbow (Or.inr (by norm_num))

/-- the generic unit-spaced elbow of `elbow_exists` -/
def unitElbowY (c : Nat) (s1 s2 : Rat) (i : Nat) : Rat :=
  if i ≤ c then s1 * (i : Rat) else s1 * (c : Rat) + s2 * ((i : Rat) - (c : Rat))

/-- the other three Kneedle cases, kernel-evaluated: increasing concave-down (`3, 1/2`), increasing
concave-up with a flat first arm (`0, 2`: exercises `|y_n − x_n|`), decreasing concave-down with a
flat first arm (`0, −1`) -/
example : kneedleKneeQ ((List.range 10).map fun i : Nat => (i : Rat))
    ((List.range 10).map (unitElbowY 5 3 (1 / 2))) = some 5 := by decide +kernel
example : kneedleKneeQ ((List.range 10).map fun i : Nat => (i : Rat))
    ((List.range 10).map (unitElbowY 3 0 2)) = some 3 := by decide +kernel
example : kneedleKneeQ ((List.range 10).map fun i : Nat => (i : Rat))
    ((List.range 10).map (unitElbowY 6 0 (-1))) = some 6 := by decide +kernel
/-- … and as instances of the theorems -/
example : kneedleKneeQ ((List.range 10).map fun i : Nat => (i : Rat))
    ((List.range 10).map (unitElbowY 3 0 2)) = some 3 :=
  elbow_kneedle' (elbow_exists 10 3 0 2 (by omega) (by omega) (by norm_num)) (Or.inl (by norm_num))
example : dfdtKnee (dfdtDiffsQ ((List.range 10).map
    (cfdQ (fun i : Nat => (i : Rat)) (unitElbowY 5 3 (1 / 2)) 10))) 10 = 5 :=
  elbow_dfdt (elbow_exists 10 5 3 (1 / 2) (by omega) (by omega) (by norm_num))

end Knee

import Knee.Model.Detectors
namespace Knee
theorem stub_C03 : True := trivial
end Knee

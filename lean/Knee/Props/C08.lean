import Knee.Model.EvenPoints
import Knee.Model.Pipeline
namespace Knee
theorem stub_C08 : True := trivial
end Knee

import Knee.Lemmas.Pipeline
/-!
# C08 — every stage of the post-detection pipeline is well formed

Model: `Knee.pipelineTail` / `Knee.pipelineTailHull` (`Knee/Model/Pipeline.lean`): knees of the
REDUCED curve → `worstFilter` → `cornerFilter` → `clusterFilter` (or the hull-ranking variant
`clusterFilterHull`) → `mapping` back to original indices.
`h k` = height of reduced point `k`; `iou`, `labelsOf`, `score`, `herr` are Layer-S oracles (any
functions); the only contract used is that the linkage assigns one label per knee (`hl`).
Hypotheses throughout: `reduced` strictly increasing and starting at `0`, the removed table is
`computeRemoved reduced` (C01/C07), the detected knees are strictly increasing positions of the
reduced curve.
-/
namespace Knee

section
variable (h : Nat → Rat) (iou : Nat → Rat) (tc : Rat) (labelsOf : List Nat → List Nat)
  (score : List Nat → List Rat) (hull : List Nat) (herr : List Nat → Nat → Rat)
  (reduced knees : List Nat)

/-! ### left / linear / right ranking -/

/-- **C08 (all stages).** Every filter stage returns a subsequence of its input; from the
worst-knee filter onwards the heights are non-increasing from left to right; the mapped output is
the list of retained simplification points at the surviving reduced-space positions (so the
coordinates coincide), it is strictly increasing, every entry is a retained point, and no knee is
lost or duplicated by the mapping. -/
theorem pipeline_wf
    (hred : reduced.Pairwise (· < ·)) (h0 : reduced[0]? = some 0)
    (hk : knees.Pairwise (· < ·)) (hkb : ∀ k ∈ knees, k < reduced.length)
    (hl : ∀ ks, (labelsOf ks).length = ks.length) :
    let S := pipelineTail h reduced.length iou tc labelsOf score reduced (computeRemoved reduced) knees
    (S.worst.Sublist knees ∧ S.corner.Sublist S.worst ∧ S.cluster.Sublist S.corner) ∧
    (S.worst.Pairwise (fun a b => h b ≤ h a) ∧ S.corner.Pairwise (fun a b => h b ≤ h a) ∧
      S.cluster.Pairwise (fun a b => h b ≤ h a)) ∧
    S.mapped = S.cluster.map (fun k => reduced[k]?.getD 0) ∧ S.mapped.Pairwise (· < ·) ∧
    (∀ x ∈ S.mapped, x ∈ reduced) ∧ S.mapped.length = S.cluster.length :=
  tail_generic h reduced.length iou tc (fun c => clusterFilter score (labelsOf c) c)
    (fun c => clusterFilter_sublist score (labelsOf c) c (hl c)) reduced knees hred h0 hk hkb

/-- **C08.1** Every filter stage returns a subsequence of its input. -/
theorem pipeline_stages_sublist
    (hred : reduced.Pairwise (· < ·)) (h0 : reduced[0]? = some 0)
    (hk : knees.Pairwise (· < ·)) (hkb : ∀ k ∈ knees, k < reduced.length)
    (hl : ∀ ks, (labelsOf ks).length = ks.length) :
    let S := pipelineTail h reduced.length iou tc labelsOf score reduced (computeRemoved reduced) knees
    S.worst.Sublist knees ∧ S.corner.Sublist S.worst ∧ S.cluster.Sublist S.corner :=
  (pipeline_wf h iou tc labelsOf score reduced knees hred h0 hk hkb hl).1

/-- **C08.2** From the worst-knee filter onwards heights are non-increasing from left to right. -/
theorem pipeline_heights
    (hred : reduced.Pairwise (· < ·)) (h0 : reduced[0]? = some 0)
    (hk : knees.Pairwise (· < ·)) (hkb : ∀ k ∈ knees, k < reduced.length)
    (hl : ∀ ks, (labelsOf ks).length = ks.length) :
    let S := pipelineTail h reduced.length iou tc labelsOf score reduced (computeRemoved reduced) knees
    S.worst.Pairwise (fun a b => h b ≤ h a) ∧ S.corner.Pairwise (fun a b => h b ≤ h a) ∧
      S.cluster.Pairwise (fun a b => h b ≤ h a) :=
  (pipeline_wf h iou tc labelsOf score reduced knees hred h0 hk hkb hl).2.1

/-- **C08.3a** Each output index is the retained simplification point at the reduced-space
knee's position: original and reduced coordinates of a reported knee coincide. -/
theorem pipeline_mapped
    (hred : reduced.Pairwise (· < ·)) (h0 : reduced[0]? = some 0)
    (hk : knees.Pairwise (· < ·)) (hkb : ∀ k ∈ knees, k < reduced.length)
    (hl : ∀ ks, (labelsOf ks).length = ks.length) :
    let S := pipelineTail h reduced.length iou tc labelsOf score reduced (computeRemoved reduced) knees
    S.mapped = S.cluster.map (fun k => reduced[k]?.getD 0) :=
  (pipeline_wf h iou tc labelsOf score reduced knees hred h0 hk hkb hl).2.2.1

/-- **C08.3b** The reported original indices are strictly increasing (sorted, duplicate-free). -/
theorem pipeline_mapped_strict
    (hred : reduced.Pairwise (· < ·)) (h0 : reduced[0]? = some 0)
    (hk : knees.Pairwise (· < ·)) (hkb : ∀ k ∈ knees, k < reduced.length)
    (hl : ∀ ks, (labelsOf ks).length = ks.length) :
    let S := pipelineTail h reduced.length iou tc labelsOf score reduced (computeRemoved reduced) knees
    S.mapped.Pairwise (· < ·) :=
  (pipeline_wf h iou tc labelsOf score reduced knees hred h0 hk hkb hl).2.2.2.1

/-- **C08.3c** Every reported original index is a point retained by the simplifier. -/
theorem pipeline_mapped_subset
    (hred : reduced.Pairwise (· < ·)) (h0 : reduced[0]? = some 0)
    (hk : knees.Pairwise (· < ·)) (hkb : ∀ k ∈ knees, k < reduced.length)
    (hl : ∀ ks, (labelsOf ks).length = ks.length) :
    let S := pipelineTail h reduced.length iou tc labelsOf score reduced (computeRemoved reduced) knees
    ∀ x ∈ S.mapped, x ∈ reduced :=
  (pipeline_wf h iou tc labelsOf score reduced knees hred h0 hk hkb hl).2.2.2.2.1

/-- **C08.3d** The mapping neither loses nor invents knees. -/
theorem pipeline_mapped_length
    (hred : reduced.Pairwise (· < ·)) (h0 : reduced[0]? = some 0)
    (hk : knees.Pairwise (· < ·)) (hkb : ∀ k ∈ knees, k < reduced.length)
    (hl : ∀ ks, (labelsOf ks).length = ks.length) :
    let S := pipelineTail h reduced.length iou tc labelsOf score reduced (computeRemoved reduced) knees
    S.mapped.length = S.cluster.length :=
  (pipeline_wf h iou tc labelsOf score reduced knees hred h0 hk hkb hl).2.2.2.2.2

/-! ### hull ranking (the demos' default) -/

/-- **C08 (all stages, hull variant).** Same statement for `pipelineTailHull`. -/
theorem pipeline_hull_wf
    (hred : reduced.Pairwise (· < ·)) (h0 : reduced[0]? = some 0)
    (hk : knees.Pairwise (· < ·)) (hkb : ∀ k ∈ knees, k < reduced.length)
    (hl : ∀ ks, (labelsOf ks).length = ks.length) :
    let S := pipelineTailHull h reduced.length iou tc labelsOf hull herr reduced (computeRemoved reduced) knees
    (S.worst.Sublist knees ∧ S.corner.Sublist S.worst ∧ S.cluster.Sublist S.corner) ∧
    (S.worst.Pairwise (fun a b => h b ≤ h a) ∧ S.corner.Pairwise (fun a b => h b ≤ h a) ∧
      S.cluster.Pairwise (fun a b => h b ≤ h a)) ∧
    S.mapped = S.cluster.map (fun k => reduced[k]?.getD 0) ∧ S.mapped.Pairwise (· < ·) ∧
    (∀ x ∈ S.mapped, x ∈ reduced) ∧ S.mapped.length = S.cluster.length :=
  tail_generic h reduced.length iou tc (fun c => clusterFilterHull hull herr (labelsOf c) c)
    (fun c => clusterFilterHull_sublist hull herr (labelsOf c) c (hl c)) reduced knees hred h0 hk hkb

/-- **C08.1 (hull)** Every filter stage returns a subsequence of its input. -/
theorem pipeline_hull_stages_sublist
    (hred : reduced.Pairwise (· < ·)) (h0 : reduced[0]? = some 0)
    (hk : knees.Pairwise (· < ·)) (hkb : ∀ k ∈ knees, k < reduced.length)
    (hl : ∀ ks, (labelsOf ks).length = ks.length) :
    let S := pipelineTailHull h reduced.length iou tc labelsOf hull herr reduced (computeRemoved reduced) knees
    S.worst.Sublist knees ∧ S.corner.Sublist S.worst ∧ S.cluster.Sublist S.corner :=
  (pipeline_hull_wf h iou tc labelsOf hull herr reduced knees hred h0 hk hkb hl).1

/-- **C08.2 (hull)** Heights are non-increasing from the worst-knee filter onwards. -/
theorem pipeline_hull_heights
    (hred : reduced.Pairwise (· < ·)) (h0 : reduced[0]? = some 0)
    (hk : knees.Pairwise (· < ·)) (hkb : ∀ k ∈ knees, k < reduced.length)
    (hl : ∀ ks, (labelsOf ks).length = ks.length) :
    let S := pipelineTailHull h reduced.length iou tc labelsOf hull herr reduced (computeRemoved reduced) knees
    S.worst.Pairwise (fun a b => h b ≤ h a) ∧ S.corner.Pairwise (fun a b => h b ≤ h a) ∧
      S.cluster.Pairwise (fun a b => h b ≤ h a) :=
  (pipeline_hull_wf h iou tc labelsOf hull herr reduced knees hred h0 hk hkb hl).2.1

/-- **C08.3a (hull)** Output indices are the retained points at the surviving positions. -/
theorem pipeline_hull_mapped
    (hred : reduced.Pairwise (· < ·)) (h0 : reduced[0]? = some 0)
    (hk : knees.Pairwise (· < ·)) (hkb : ∀ k ∈ knees, k < reduced.length)
    (hl : ∀ ks, (labelsOf ks).length = ks.length) :
    let S := pipelineTailHull h reduced.length iou tc labelsOf hull herr reduced (computeRemoved reduced) knees
    S.mapped = S.cluster.map (fun k => reduced[k]?.getD 0) :=
  (pipeline_hull_wf h iou tc labelsOf hull herr reduced knees hred h0 hk hkb hl).2.2.1

/-- **C08.3b (hull)** The reported original indices are strictly increasing. -/
theorem pipeline_hull_mapped_strict
    (hred : reduced.Pairwise (· < ·)) (h0 : reduced[0]? = some 0)
    (hk : knees.Pairwise (· < ·)) (hkb : ∀ k ∈ knees, k < reduced.length)
    (hl : ∀ ks, (labelsOf ks).length = ks.length) :
    let S := pipelineTailHull h reduced.length iou tc labelsOf hull herr reduced (computeRemoved reduced) knees
    S.mapped.Pairwise (· < ·) :=
  (pipeline_hull_wf h iou tc labelsOf hull herr reduced knees hred h0 hk hkb hl).2.2.2.1

/-- **C08.3c (hull)** Every reported original index is a point retained by the simplifier. -/
theorem pipeline_hull_mapped_subset
    (hred : reduced.Pairwise (· < ·)) (h0 : reduced[0]? = some 0)
    (hk : knees.Pairwise (· < ·)) (hkb : ∀ k ∈ knees, k < reduced.length)
    (hl : ∀ ks, (labelsOf ks).length = ks.length) :
    let S := pipelineTailHull h reduced.length iou tc labelsOf hull herr reduced (computeRemoved reduced) knees
    ∀ x ∈ S.mapped, x ∈ reduced :=
  (pipeline_hull_wf h iou tc labelsOf hull herr reduced knees hred h0 hk hkb hl).2.2.2.2.1

/-- **C08.3d (hull)** The mapping neither loses nor invents knees. -/
theorem pipeline_hull_mapped_length
    (hred : reduced.Pairwise (· < ·)) (h0 : reduced[0]? = some 0)
    (hk : knees.Pairwise (· < ·)) (hkb : ∀ k ∈ knees, k < reduced.length)
    (hl : ∀ ks, (labelsOf ks).length = ks.length) :
    let S := pipelineTailHull h reduced.length iou tc labelsOf hull herr reduced (computeRemoved reduced) knees
    S.mapped.length = S.cluster.length :=
  (pipeline_hull_wf h iou tc labelsOf hull herr reduced knees hred h0 hk hkb hl).2.2.2.2.2

end

/-! Non-vacuity: both tails evaluated on a concrete reduction with 8 retained points (heights
`9,7,8,6,5,4,3,1`).  Knee 2 (height 8 > 7) is dropped by the worst filter, knee 3 (IoU 3/4 ≥ 2/5)
by the corner filter; the clusters are `[1]`, `[5, 6]`; score = position picks 6, the hull ranking
(hull points 1 and 5) picks 5; the survivors map to `reduced[1] = 2`, `reduced[6] = 12` /
`reduced[5] = 9`.  The hypotheses of the theorems hold on this data. -/
deriving instance DecidableEq for Stages
example : pipelineTail (fun k => ([9, 7, 8, 6, 5, 4, 3, 1] : List Rat)[k]?.getD 0) 8
    (fun k => ([0, 0, 0, 3/4, 0, 1/10, 0, 0] : List Rat)[k]?.getD 0) (2/5)
    (fun ks => ks.map fun k => if k < 4 then 0 else 1) (fun c => c.map fun k => ((k : Int) : Rat))
    [0, 2, 3, 5, 8, 9, 12, 15] (computeRemoved [0, 2, 3, 5, 8, 9, 12, 15]) [1, 2, 3, 5, 6]
    = { worst := [1, 3, 5, 6], corner := [1, 5, 6], cluster := [1, 6], mapped := [2, 12] } := by
  decide +kernel
example : pipelineTailHull (fun k => ([9, 7, 8, 6, 5, 4, 3, 1] : List Rat)[k]?.getD 0) 8
    (fun k => ([0, 0, 0, 3/4, 0, 1/10, 0, 0] : List Rat)[k]?.getD 0) (2/5)
    (fun ks => ks.map fun k => if k < 4 then 0 else 1) [1, 5] (fun _ j => ((j : Int) : Rat))
    [0, 2, 3, 5, 8, 9, 12, 15] (computeRemoved [0, 2, 3, 5, 8, 9, 12, 15]) [1, 2, 3, 5, 6]
    = { worst := [1, 3, 5, 6], corner := [1, 5, 6], cluster := [1, 5], mapped := [2, 9] } := by
  decide +kernel
example : ([0, 2, 3, 5, 8, 9, 12, 15] : List Nat).Pairwise (· < ·)
    ∧ ([0, 2, 3, 5, 8, 9, 12, 15] : List Nat)[0]? = some 0
    ∧ ([1, 2, 3, 5, 6] : List Nat).Pairwise (· < ·)
    ∧ (∀ k ∈ [1, 2, 3, 5, 6], k < [0, 2, 3, 5, 8, 9, 12, 15].length) := by decide
example : ∀ ks : List Nat, (ks.map fun k => if k < 4 then 0 else 1).length = ks.length := by
  intro ks; simp

end Knee

import Knee.Lemmas.ElbowA
/-!
# C03 (part A) — on an exact two-slope elbow the exact detectors return the corner

Model: `Knee/Model/Elbow.lean` (Layer N criteria over ℚ: `curvCritSq`, `mengerAt`, `lmErrRss`)
plugged into the Layer-S index selection of `Knee/Model/Detectors.lean` (`curvKnee`, `mengerKnee`,
`lmethodScan`, `lmethodKnee`).  An elbow (`IsElbow x y n c s1 s2`) is a curve with strictly
increasing abscissae made of exactly two straight arms of slopes `s1 ≠ s2` that meet at index `c`,
each arm having at least three segments (`3 ≤ c`, `c + 3 < n`).

Everything is exact rational arithmetic: no tolerance, no oracle.  Helper lemmas:
`Lemmas/ElbowA.lean`.
-/
namespace Knee

variable {x y : Nat → Rat} {n c : Nat} {s1 s2 : Rat}

/-! ## 1. The criteria on an elbow -/

/-- the squared curvature criterion vanishes at every point but the corner … -/
theorem curvCrit_elbow_off (h : IsElbow x y n c s1 s2) (i : Nat) (hi : i < n) (hic : i ≠ c) :
    curvCritSq x y n i = 0 := h.curvCrit_off i hi hic

/-- … where it is strictly positive -/
theorem curvCrit_elbow_corner (h : IsElbow x y n c s1 s2) : 0 < curvCritSq x y n c :=
  h.curvCrit_corner

/-- the three-point second derivative at the corner, in closed form -/
theorem csd_elbow_corner (h : IsElbow x y n c s1 s2) :
    csdQ x y n c = 2 * (s2 - s1) / (x (c + 1) - x (c - 1)) := by
  have h1 := h.arm1
  have h2 := h.arm2
  unfold csdQ
  have h0 : c ≠ 0 := by omega
  have hl : c + 1 ≠ n := by omega
  simp only [h0, hl, if_false]
  exact secondD_corner s1 s2 _ _ _ _ _ _ (h.lt (by omega) (by omega))
    (h.lt (by omega) (by omega)) (h.left_corner _ (by omega)) (h.right _ (by omega) (by omega))

/-- the three-point first derivative is the arm's slope on either side of the corner -/
theorem cfd_elbow (h : IsElbow x y n c s1 s2) (i : Nat) (hn : i < n) :
    (i < c → cfdQ x y n i = s1) ∧ (c < i → cfdQ x y n i = s2) :=
  ⟨fun hi => h.cfd_left i hi, fun hi => h.cfd_right i hi hn⟩

/-- the squared Menger curvature vanishes at every interior point but the corner … -/
theorem menger_elbow_off (h : IsElbow x y n c s1 s2) (i : Nat) (hi1 : 1 ≤ i) (hin : i + 1 < n)
    (hic : i ≠ c) : mengerAt x y i = 0 := h.menger_off i hi1 hin hic

/-- … where it is strictly positive -/
theorem menger_elbow_corner (h : IsElbow x y n c s1 s2) : 0 < mengerAt x y c := h.menger_corner

/-- the L-method error (end-point fit, RSS cost) of the split at the corner is `0` … -/
theorem lmErr_elbow_corner (h : IsElbow x y n c s1 s2) : lmErrRss x y n c = 0 := h.lmErr_corner

/-- … and strictly positive at every other admissible split `2 ≤ i ≤ n - 3` -/
theorem lmErr_elbow_off (h : IsElbow x y n c s1 s2) (i : Nat) (hi2 : 2 ≤ i) (hin : i + 3 ≤ n)
    (hic : i ≠ c) : 0 < lmErrRss x y n i := h.lmErr_off i hi2 hin hic

/-! ## 2. The detectors return the corner -/

/-- **C03 (curvature).** `np.argmax(curvature[1:-1]) + 1` on an exact elbow is the corner. -/
theorem curv_elbow (h : IsElbow x y n c s1 s2) : curvKneeQ x y n = c := by
  have h1 := h.arm1
  have h2 := h.arm2
  unfold curvKneeQ curvKnee
  have hlen : ((List.range n).map (curvCritSq x y n)).length = n := by simp
  have hint : (interior ((List.range n).map (curvCritSq x y n))).length = n - 2 := by
    rw [interior_length, hlen]
  have hget : ∀ k, k < n - 2 →
      (interior ((List.range n).map (curvCritSq x y n)))[k]?.getD 0 = curvCritSq x y n (k + 1) := by
    intro k hk
    rw [interior_getD _ k (by rw [hlen]; omega), map_range_getD _ n (k + 1) (by omega)]
  have := argmaxIdx_unique_pos (l := interior ((List.range n).map (curvCritSq x y n))) (k := c - 1)
    (by
      intro j hj hjc
      rw [hint] at hj
      rw [hget j hj]
      exact h.curvCrit_off (j + 1) (by omega) (by omega))
    (by
      rw [hget (c - 1) (by omega)]
      have e : c - 1 + 1 = c := by omega
      rw [e]
      exact h.curvCrit_corner)
    (by rw [hint]; omega)
  rw [this]
  omega

/-- **C03 (Menger).** `np.argmax([0] + curvatures + [0])` on an exact elbow is the corner. -/
theorem menger_elbow (h : IsElbow x y n c s1 s2) : mengerKneeQ x y n = c := by
  have h1 := h.arm1
  have h2 := h.arm2
  unfold mengerKneeQ mengerKnee
  have hlen : ((List.range (n - 2)).map fun k => mengerAt x y (k + 1)).length = n - 2 := by simp
  have hget : ∀ j, 1 ≤ j → j + 1 < n →
      ((0 : Rat) :: ((List.range (n - 2)).map fun k => mengerAt x y (k + 1)) ++ [0])[j]?.getD 0 =
        mengerAt x y j := by
    intro j hj1 hjn
    have e : j = (j - 1) + 1 := by omega
    rw [e, padded_succ _ (j - 1) (by rw [hlen]; omega),
      map_range_getD (fun k => mengerAt x y (k + 1)) (n - 2) (j - 1) (by omega)]
  apply argmaxIdx_unique_pos
  · intro j hj hjc
    rw [padded_length, hlen] at hj
    by_cases hj0 : j = 0
    · subst hj0; exact padded_zero _
    · by_cases hjl : j = n - 1
      · have e : j = ((List.range (n - 2)).map fun k => mengerAt x y (k + 1)).length + 1 := by
          rw [hlen]; omega
        rw [e]
        exact padded_last _
      · rw [hget j (by omega) (by omega)]
        exact h.menger_off j (by omega) (by omega) hjc
  · rw [hget c (by omega) (by omega)]
    exact h.menger_corner
  · rw [padded_length, hlen]; omega

/-- the error list of the L-method scan on the full curve: entry `k` is the error of split `k + 2` -/
theorem lmErrsRss_getD (x y : Nat → Rat) (n k : Nat) (hk : k < n - 4) :
    (lmErrsRss x y n)[k]?.getD 0 = lmErrRss x y n (k + 2) :=
  map_range_getD (fun k => lmErrRss x y n (k + 2)) (n - 4) k hk

/-- **C03 (L-method, one scan).** The first minimum of the end-point-fit RSS error over the
splits `2 … n-3` of an exact elbow is the corner (error exactly `0` there, `> 0` elsewhere). -/
theorem lmethod_scan_elbow (h : IsElbow x y n c s1 s2) : lmethodScan (lmErrsRss x y n) = c := by
  have h1 := h.arm1
  have h2 := h.arm2
  have hlen : (lmErrsRss x y n).length = n - 4 := by simp [lmErrsRss]
  unfold lmethodScan
  have := argminIdx_unique_zero (l := lmErrsRss x y n) (k := c - 2)
    (by
      intro j hj hjc
      rw [hlen] at hj
      rw [lmErrsRss_getD x y n j hj]
      exact h.lmErr_off (j + 2) (by omega) (by omega) (by omega))
    (by
      rw [lmErrsRss_getD x y n (c - 2) (by omega)]
      have e : c - 2 + 2 = c := by omega
      rw [e]
      exact h.lmErr_corner)
    (by rw [hlen]; omega)
  rw [this]
  omega

/-- **C03 (L-method, no refinement).** `lmethod.knee` with `Refinement.none` performs one scan on
the full curve and stops: it returns the corner, for every `limit`. -/
theorem lmethod_elbow_none (h : IsElbow x y n c s1 s2) (limit : Nat) :
    lmethodKneeQ x y .none n limit = some c := by
  unfold lmethodKneeQ lmethodKnee
  have e : n + 8 = (n + 6 + 1) + 1 := by omega
  rw [e, lmethodLoop_step_none _ _ _ _ _ _ _ (by omega),
    lmethodLoop_stop _ _ _ _ _ _ _ _ _ (by simp)]
  unfold lmScanAt
  rw [Nat.min_eq_right (by omega), lmethod_scan_elbow h]

/-! ## 3. Non-vacuity: a concrete elbow (9 points, corner 4, slopes −2 and −1/8) -/

/-- ordinates of the sample elbow `x i = i`: `10, 8, 6, 4, 2` then `2 − (i−4)/8` -/
def sampleElbowY (i : Nat) : Rat := if i ≤ 4 then 10 - 2 * (i : Rat) else 2 - ((i : Rat) - 4) / 8

/-- the sample satisfies every hypothesis of `IsElbow` -/
theorem sampleElbow_isElbow : IsElbow (fun i => (i : Rat)) sampleElbowY 9 4 (-2) (-1 / 8) where
  xinc := by
    intro i j hij _
    exact_mod_cast hij
  left := by
    intro i hi
    simp only [sampleElbowY, if_pos hi]
    norm_num
    ring
  right := by
    intro i hi _
    rcases Nat.eq_or_lt_of_le hi with e | hlt
    · subst e; simp [sampleElbowY]
    · have hn : ¬ i ≤ 4 := by omega
      simp only [sampleElbowY, if_neg hn]
      norm_num
      ring
  slopes := by norm_num
  arm1 := by omega
  arm2 := by omega

example : curvKneeQ (fun i => (i : Rat)) sampleElbowY 9 = 4 := by decide +kernel
example : mengerKneeQ (fun i => (i : Rat)) sampleElbowY 9 = 4 := by decide +kernel
example : lmethodKneeQ (fun i => (i : Rat)) sampleElbowY .none 9 4 = some 4 := by decide +kernel
/-- the theorems agree with the computation -/
example : curvKneeQ (fun i => (i : Rat)) sampleElbowY 9 = 4 := curv_elbow sampleElbow_isElbow
example : mengerKneeQ (fun i => (i : Rat)) sampleElbowY 9 = 4 := menger_elbow sampleElbow_isElbow
example : lmethodKneeQ (fun i => (i : Rat)) sampleElbowY .none 9 4 = some 4 :=
  lmethod_elbow_none sampleElbow_isElbow 4
/-- the criteria are non-trivial on the sample: zero off the corner, positive at it -/
example : (List.range 9).map (curvCritSq (fun i => (i : Rat)) sampleElbowY 9)
    = [0, 0, 0, 0, 2359296 / 6475145, 0, 0, 0, 0] := by decide +kernel
example : (lmErrsRss (fun i => (i : Rat)) sampleElbowY 9).map (fun e => decide (e = 0))
    = [false, false, true, false, false] := by decide +kernel

end Knee

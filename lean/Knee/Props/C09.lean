import Knee.Lemmas.Detectors
/-!
# C09 — every single-knee detector returns an in-range index that optimises its own criterion

Models: `Knee/Model/Detectors.lean`.  Each detector is modelled over its *criterion array* (an
oracle: the rational array the Python code hands to `argmax` / `argmin` / `all_peaks`); the
theorems hold for every such array, so they do not depend on how the floating-point criterion
was computed.

* A. curvature — `curvKnee`:   interior first maximiser of `crit`
* B. Menger    — `mengerKnee`: first maximiser of the zero-padded curvature array, never the last point
* C. DFDT      — `dfdtInner` / `dfdtKnee`: interior first minimiser; the loop stops by itself
* D. L-method  — `lmethodScan`: first minimiser of the fitting error over the splits `2 … len-3`
* E. L-method refinement — `lmethodKnee` terminates (fuel `n + 8` is never exhausted) for all three
  options `none` / `original` / `adjusted`, with an in-range knee
* F. Kneedle   — `kneedleKnee`: the first highest strict peak of the difference curve
-/
namespace Knee

/-! ## A. Curvature -/

/-- **C09-A (range).** `np.argmax(curvature[1:-1]) + 1` is an interior index. -/
theorem curvKnee_range {crit : List Rat} (h : 3 ≤ crit.length) :
    1 ≤ curvKnee crit ∧ curvKnee crit + 2 ≤ crit.length := by
  have := interior_argmax_range h
  unfold curvKnee
  omega

/-- **C09-A (optimality).** The curvature knee maximises the criterion over the interior. -/
theorem curvKnee_opt {crit : List Rat} (h : 3 ≤ crit.length) (j : Nat) (h1 : 1 ≤ j)
    (h2 : j + 1 < crit.length) : crit[j]?.getD 0 ≤ crit[curvKnee crit]?.getD 0 :=
  interior_argmax_ge h j h1 h2

/-- **C09-A (first maximum).** Every interior index before the knee has a strictly smaller
criterion. -/
theorem curvKnee_first {crit : List Rat} (h : 3 ≤ crit.length) (j : Nat) (h1 : 1 ≤ j)
    (h2 : j < curvKnee crit) : crit[j]?.getD 0 < crit[curvKnee crit]?.getD 0 :=
  interior_argmax_first h j h1 h2

/-! ## B. Menger

`cs` holds the Menger curvature of the `cs.length` consecutive triples, i.e. the curve has
`n = cs.length + 2` points and the padded array `0 :: cs ++ [0]` has one entry per point. -/

/-- **C09-B (range).** The Menger knee is never the last point `n - 1 = cs.length + 1`: the padded
array starts and ends with `0` and `argmax` returns the *first* maximum. -/
theorem mengerKnee_range (cs : List Rat) : mengerKnee cs ≤ cs.length :=
  mengerKnee_le cs

/-- **C09-B (optimality).** The padded criterion at the knee dominates every curvature. -/
theorem mengerKnee_opt (cs : List Rat) (j : Nat) (hj : j < cs.length) :
    cs[j]?.getD 0 ≤ ((0 : Rat) :: cs ++ [0])[mengerKnee cs]?.getD 0 := by
  have h := argmaxIdx_ge (l := (0 : Rat) :: cs ++ [0]) (j + 1) (by rw [padded_length]; omega)
  rw [padded_succ cs j hj] at h
  exact h

/-- **C09-B (degenerate answer).** The knee is the first point `0` only if no triple has positive
curvature. -/
theorem mengerKnee_zero_flat (cs : List Rat) (h0 : mengerKnee cs = 0) :
    ∀ j, j < cs.length → cs[j]?.getD 0 ≤ 0 := by
  intro j hj
  have h := mengerKnee_opt cs j hj
  rw [h0, padded_zero] at h
  exact h

/-- **C09-B (proper answer).** A non-zero knee is an interior point, and the padded criterion
there is the curvature of the triple centred at it. -/
theorem mengerKnee_pos (cs : List Rat) (h0 : 0 < mengerKnee cs) :
    mengerKnee cs ≤ cs.length ∧
      ((0 : Rat) :: cs ++ [0])[mengerKnee cs]?.getD 0 = cs[mengerKnee cs - 1]?.getD 0 := by
  have hle := mengerKnee_le cs
  refine ⟨hle, ?_⟩
  have h := padded_succ cs (mengerKnee cs - 1) (by omega)
  have e : mengerKnee cs - 1 + 1 = mengerKnee cs := by omega
  rw [e] at h
  exact h

/-- **C09-B (first maximum).** Every triple before a non-zero knee has strictly smaller curvature
than the knee's triple, and the knee's curvature is strictly positive. -/
theorem mengerKnee_first (cs : List Rat) (h0 : 0 < mengerKnee cs) :
    0 < cs[mengerKnee cs - 1]?.getD 0 ∧
      ∀ j, j + 1 < mengerKnee cs → cs[j]?.getD 0 < cs[mengerKnee cs - 1]?.getD 0 := by
  have hp := mengerKnee_pos cs h0
  constructor
  · have h := argmaxIdx_first (l := (0 : Rat) :: cs ++ [0]) 0 h0
    rw [padded_zero] at h
    rw [← hp.2]
    exact h
  · intro j hj
    have h := argmaxIdx_first (l := (0 : Rat) :: cs ++ [0]) (j + 1) hj
    rw [padded_succ cs j (by omega)] at h
    rw [← hp.2]
    exact h

/-- **C09-B (degenerate answer, characterisation).** The knee is the first point `0` exactly when
no triple has positive curvature (e.g. collinear points). -/
theorem mengerKnee_zero_iff_flat (cs : List Rat) :
    mengerKnee cs = 0 ↔ ∀ j, j < cs.length → cs[j]?.getD 0 ≤ 0 := by
  constructor
  · exact mengerKnee_zero_flat cs
  · intro h
    by_cases h0 : mengerKnee cs = 0
    · exact h0
    · exfalso
      have hf := (mengerKnee_first cs (by omega)).1
      have hle := mengerKnee_le cs
      have := h (mengerKnee cs - 1) (by omega)
      grind

/-! ## C. DFDT -/

/-- **C09-C (range of one round).** `np.argmin(diff[1:-1]) + 1` is an interior index. -/
theorem dfdtInner_range {d : List Rat} (h : 3 ≤ d.length) :
    1 ≤ dfdtInner d ∧ dfdtInner d + 2 ≤ d.length := by
  have := interior_argmin_range h
  unfold dfdtInner
  omega

/-- **C09-C (optimality of one round).** It minimises `|gradient - threshold|` over the interior. -/
theorem dfdtInner_opt {d : List Rat} (h : 3 ≤ d.length) (j : Nat) (h1 : 1 ≤ j)
    (h2 : j + 1 < d.length) : d[dfdtInner d]?.getD 0 ≤ d[j]?.getD 0 :=
  interior_argmin_le h j h1 h2

/-- **C09-C (first minimum of one round).** -/
theorem dfdtInner_first {d : List Rat} (h : 3 ≤ d.length) (j : Nat) (h1 : 1 ≤ j)
    (h2 : j < dfdtInner d) : d[dfdtInner d]?.getD 0 < d[j]?.getD 0 :=
  interior_argmin_first h j h1 h2

/-- **C09-C (the answer is the value of an executed round).** The returned knee is
`dfdtInner (diffs c) + c` for a cutoff `c` whose sub-curve has more than two points. -/
theorem dfdtKnee_is_last_inner {diffs : Nat → List Rat} {n : Nat} (hn : 3 ≤ n) :
    ∃ c, n - c > 2 ∧ dfdtKnee diffs n = dfdtInner (diffs c) + c :=
  dfdtKnee_isInner diffs n hn

/-- **C09-C (range).** The DFDT knee is an interior index of the whole curve. -/
theorem dfdtKnee_range {diffs : Nat → List Rat} {n : Nat} (hd : ∀ c, (diffs c).length = n - c)
    (hn : 3 ≤ n) : 1 ≤ dfdtKnee diffs n ∧ dfdtKnee diffs n + 2 ≤ n := by
  obtain ⟨c, hc, hk⟩ := dfdtKnee_is_last_inner (diffs := diffs) hn
  have := dfdtInner_add_range hd c hc
  omega

/-- **C09-C (termination, round count).** The `while` loop runs at most `n` rounds: while it
continues the knee strictly increases and stays `≤ n - 2`. -/
theorem dfdt_rounds_le {diffs : Nat → List Rat} {n : Nat} (hd : ∀ c, (diffs c).length = n - c)
    (hn : 3 ≤ n) : dfdtRounds diffs n (n + 1) (-1) 0 0 ≤ n := by
  have h := dfdtRounds_le_bound hd (n + 1) (-1) 0 0 (by omega)
  have e : dfdtBound n (-1) 0 = n := by simp [dfdtBound]
  omega

/-- **C09-C (fuel sufficiency).** The loop stops by its own condition: more fuel than `n + 1`
never changes the answer, so `dfdtKnee` is the result of the unbounded Python loop. -/
theorem dfdtLoop_fuel {diffs : Nat → List Rat} {n : Nat} (hd : ∀ c, (diffs c).length = n - c)
    (hn : 3 ≤ n) : ∀ extra, dfdtLoop diffs n (n + 1 + extra) (-1) 0 0
      = dfdtLoop diffs n (n + 1) (-1) 0 0 := by
  intro extra
  have e : dfdtBound n (-1) 0 = n := by simp [dfdtBound]
  exact dfdtLoop_fuel_irrel hd _ _ (-1) 0 0 (by omega) (by omega) (by omega)

/-! ## D. L-method scan -/

/-- **C09-D (range).** On `len ≥ 5` points the split is in `2 … len-3`. -/
theorem lmethodScan_range {errs : List Rat} {len : Nat} (h : errs.length = len - 4)
    (hl : 5 ≤ len) : 2 ≤ lmethodScan errs ∧ lmethodScan errs + 3 ≤ len :=
  lmethodScan_bounds h hl

/-- **C09-D (optimality).** The split minimises the fitting error over all admissible splits
(`errs[i - 2]` is the error of split `i`). -/
theorem lmethodScan_opt {errs : List Rat} {len : Nat} (h : errs.length = len - 4)
    (i : Nat) (h1 : 2 ≤ i) (h2 : i + 3 ≤ len) :
    errs[lmethodScan errs - 2]?.getD 0 ≤ errs[i - 2]?.getD 0 := by
  have e : lmethodScan errs - 2 = argminIdx errs := by unfold lmethodScan; omega
  rw [e]
  exact argminIdx_le (i - 2) (by omega)

/-- **C09-D (first minimum).** Every earlier split has a strictly larger error. -/
theorem lmethodScan_first {errs : List Rat} (i : Nat) (h1 : 2 ≤ i)
    (h2 : i < lmethodScan errs) :
    errs[lmethodScan errs - 2]?.getD 0 < errs[i - 2]?.getD 0 := by
  have e : lmethodScan errs - 2 = argminIdx errs := by unfold lmethodScan; omega
  rw [e]
  exact argminIdx_first (i - 2) (by unfold lmethodScan at h2; omega)

/-! ## E. L-method refinement -/

/-- **C09-E (termination and range, all options).** For every refinement option the loop of
`lmethod.knee` stops before the fuel `n + 8` is exhausted and returns a split in `2 … n-3`.

* `none`: two iterations.
* `original`: the loop continues only while the knee moves strictly left.
* `adjusted`: with `M = max(current, last)`, the potential `M + [current > last]` drops every
  round while `M > limit`; once `M ≤ limit` the cutoff is clamped at `limit`, the scan returns the
  same knee twice and the loop stops. -/
theorem lmethod_refine_total {errs : Nat → List Rat} (he : ∀ len, (errs len).length = len - 4)
    {n limit : Nat} (hn : 5 ≤ n) (hl : 4 ≤ limit) (mode : Refinement) :
    ∃ k, lmethodKnee errs mode n limit = some k ∧ 2 ≤ k ∧ k + 3 ≤ n := by
  have hr := lmScanAt_range he hn (cutoff := n) (by omega)
  have hne : ((n : Nat) : Int) ≠ -1 := by omega
  unfold lmethodKnee
  cases mode with
  | none =>
    rw [lmethodLoop_step_none _ _ _ _ _ _ _ hne, lmethodLoop_stop _ _ _ _ _ _ _ _ _ (by simp)]
    exact ⟨_, rfl, hr.1, hr.2.1⟩
  | original =>
    rw [lmethodLoop_step_original _ _ _ _ _ _ _ hne]
    apply lm_original_total he hn hl _ _ _ _ _ (by omega) hr.1 hr.2.1
    split <;> omega
  | adjusted =>
    rw [lmethodLoop_step_adjusted _ _ _ _ _ _ _ hne]
    apply lm_adjusted_total he hn hl _ n _ _ hr.1 hr.2.1 rfl
    unfold lmPhi
    split <;> omega

/-- **C09-E (corollary).** Whatever the loop returns is an admissible split. -/
theorem lmethodKnee_range {errs : Nat → List Rat} (he : ∀ len, (errs len).length = len - 4)
    {n limit : Nat} (hn : 5 ≤ n) (hl : 4 ≤ limit) (mode : Refinement) {k : Nat}
    (hk : lmethodKnee errs mode n limit = some k) : 2 ≤ k ∧ k + 3 ≤ n := by
  obtain ⟨k', h, h2, h3⟩ := lmethod_refine_total he hn hl mode
  rw [hk] at h
  cases h
  exact ⟨h2, h3⟩

/-! ## F. Kneedle -/

/-- **C09-F (peaks).** Characterisation of `all_peaks`: `p` is listed iff it is an interior strict
local maximum. -/
theorem allPeaks_mem (dd : List Rat) (p : Nat) :
    p ∈ allPeaks dd ↔ 1 ≤ p ∧ p + 1 < dd.length ∧
      dd[p - 1]?.getD 0 < dd[p]?.getD 0 ∧ dd[p + 1]?.getD 0 < dd[p]?.getD 0 :=
  mem_allPeaks dd p

/-- **C09-F (range).** The Kneedle knee is an interior index. -/
theorem kneedleKnee_range {dd : List Rat} {k : Nat} (h : kneedleKnee dd = some k) :
    1 ≤ k ∧ k + 2 ≤ dd.length := by
  have := (mem_allPeaks dd k).1 (kneedleKnee_some h).1
  omega

/-- **C09-F (peak).** It is a strict local maximum of the difference curve. -/
theorem kneedleKnee_is_peak {dd : List Rat} {k : Nat} (h : kneedleKnee dd = some k) :
    dd[k - 1]?.getD 0 < dd[k]?.getD 0 ∧ dd[k + 1]?.getD 0 < dd[k]?.getD 0 := by
  have := (mem_allPeaks dd k).1 (kneedleKnee_some h).1
  exact ⟨this.2.2.1, this.2.2.2⟩

/-- **C09-F (highest).** No peak is higher. -/
theorem kneedleKnee_highest {dd : List Rat} {k : Nat} (h : kneedleKnee dd = some k) :
    ∀ p ∈ allPeaks dd, dd[p]?.getD 0 ≤ dd[k]?.getD 0 :=
  (kneedleKnee_some h).2

/-- **C09-F (no answer).** Kneedle returns nothing exactly when the difference curve has no
strict peak. -/
theorem kneedleKnee_none_iff {dd : List Rat} : kneedleKnee dd = none ↔ allPeaks dd = [] :=
  kneedleKnee_eq_none

/-! ## Non-vacuity

Concrete arrays: the detectors compute the expected answers, ties are broken towards the first
extremum, the loops really iterate, and the hypotheses on the oracles are satisfiable. -/

example : curvKnee [9, 1, 4, 7, 7, 2, 8] = 3 := by decide +kernel
example : mengerKnee [1, 3, 3, 2] = 2 ∧ mengerKnee [-1, -2] = 0 := by decide +kernel
example : dfdtInner [0, 5, 2, 2, 7, 1] = 2 := by decide +kernel
example : lmethodScan [5, 3, 1, 1, 4] = 4 := by decide +kernel

/-- DFDT oracle for the examples: on the sub-curve starting at `c` the minimum sits at local
index `c + 1`, so the knee keeps moving right (`1, 3, 5, 7, 8`) until the sub-curve is too short. -/
private def diffsEx : Nat → List Rat := fun c =>
  (List.range (10 - c)).map fun (i : Nat) => ((((i : Int) - c - 1) ^ 2 : Int) : Rat)

example : ∀ c, (diffsEx c).length = 10 - c := by intro c; simp [diffsEx]
example : dfdtKnee diffsEx 10 = 8 ∧ dfdtRounds diffsEx 10 11 (-1) 0 0 = 6 := by decide +kernel
example : dfdtLoop diffsEx 10 40 (-1) 0 0 = dfdtKnee diffsEx 10 := by decide +kernel

/-- L-method oracle with a fixed best split (`5` as soon as the sub-curve is long enough). -/
private def errsEx : Nat → List Rat := fun len =>
  (List.range (len - 4)).map fun (i : Nat) => ((((i : Int) - 3) ^ 2 : Int) : Rat)

/-- L-method oracle whose best split is the middle of the sub-curve, so that the refinement
really iterates. -/
private def errsMid : Nat → List Rat := fun len =>
  (List.range (len - 4)).map fun (i : Nat) => ((((i : Int) - ((len - 4) / 2 : Nat)) ^ 2 : Int) : Rat)

example : ∀ len, (errsEx len).length = len - 4 := by intro len; simp [errsEx]
example : ∀ len, (errsMid len).length = len - 4 := by intro len; simp [errsMid]
example : lmethodKnee errsEx .none 12 4 = some 5 ∧ lmethodKnee errsEx .original 12 4 = some 5
    ∧ lmethodKnee errsEx .adjusted 12 4 = some 5 := by decide +kernel
example : lmethodKnee errsMid .none 30 4 = some 15 ∧ lmethodKnee errsMid .original 30 4 = some 15
    ∧ lmethodKnee errsMid .adjusted 30 4 = some 2 ∧ lmethodKnee errsMid .adjusted 30 10 = some 5 := by
  decide +kernel

example : allPeaks [0, 2, 1, 3, 3, 1, 5, 0] = [1, 6] := by decide +kernel
example : kneedleKnee [0, 2, 1, 3, 3, 1, 5, 0] = some 6 ∧ kneedleKnee [0, 5, 1, 5, 0] = some 1
    ∧ kneedleKnee [0, 1, 2, 3] = none := by decide +kernel

end Knee

import Knee.Lemmas.Rdp
import Knee.Lemmas.Refine
/-!
# C01 — curve simplification always terminates with a well-formed reduction

Oracle-parametric (Layer S): the statements hold for EVERY cost oracle `cst` and EVERY distance
oracle `dst` returning one distance per point of the range (`hd`), hence for whatever values the
floating-point primitives produce: collinear runs, zeros, plateaus, huge/tiny magnitudes, rounding
noise at the far end.  Threshold domain as in the property: `t > 0` (`t ≤ 1` for R²).
-/
namespace Knee

/-- **C01, threshold RDP.** `rdp.rdp` terminates (fuel `2n` is never exhausted) and returns a strictly
increasing index list from `0` to `n-1`; the removed table has exactly one row
`[left index, number of dropped interior points]` per retained segment (it *is*
`compute_removed_points reduced`), and retained + dropped = n. -/
theorem rdp_total_wf (isR2 : Bool) (t : Rat) (cst : Nat → Nat → Rat) (dst : Nat → Nat → List Rat) (n : Nat)
    (hn : 2 ≤ n) (ht : if isR2 then t ≤ 1 else 0 < t) (hd : ∀ l r, (dst l r).length = r - l) :
    ∃ reduced removed, rdp isR2 t cst dst n = some (reduced, removed) ∧
      reduced.Pairwise (· < ·) ∧ reduced[0]? = some 0 ∧ reduced.getLast? = some (n - 1) ∧
      removed = computeRemoved reduced ∧
      removed.length + 1 = reduced.length ∧
      reduced.length + (removed.map (·.2)).sum = n := by
  have hc0 : IsChain n 0 (([] : List (Nat × Nat)).reverse ++ [(0, n)]) := by
    simp only [List.reverse_nil, List.nil_append, IsChain]
    exact ⟨trivial, by omega, by omega⟩
  have hp : pot [(0, n)] + 1 ≤ 2 * n := by simp [pot]; omega
  obtain ⟨res, hres, hch⟩ := rdpLoop_spec isR2 t cst dst n ht hd (2 * n) [(0, n)] [] hc0 hp
  obtain ⟨⟨T, hT⟩, hpw, hcr⟩ := chain_result n res.reverse 0 hch
  refine ⟨_, _, by simp [rdp, hres, segsToResult], hpw, by rw [hT]; rfl, by simp, hcr.symm, by simp, ?_⟩
  have htot := computeRemoved_total _ hpw (by simp)
  rw [hcr] at htot
  rw [htot, hT]
  simp only [List.getElem?_cons_zero, Option.getD_some]
  have : (0 :: T).getLast?.getD 0 = n - 1 := by rw [← hT]; simp
  rw [this]; omega

/-- **C01, step bound.** The number of iterations of the `while stack` loop is at most `2n - 3`
(linear in n), whatever the oracles return. -/
theorem rdp_steps_linear (isR2 : Bool) (t : Rat) (cst : Nat → Nat → Rat) (dst : Nat → Nat → List Rat) (n : Nat)
    (hn : 2 ≤ n) (ht : if isR2 then t ≤ 1 else 0 < t) (hd : ∀ l r, (dst l r).length = r - l) :
    rdpSteps isR2 t cst dst (2 * n) [(0, n)] ≤ 2 * n - 3 := by
  have := rdpSteps_le isR2 t cst dst ht hd (2 * n) [(0, n)] (by intro p hp; simp at hp; subst hp; simpa using hn)
  simpa [pot] using this

/-- shape of a well-formed reduction of an n-point curve -/
def WellFormed (n : Nat) (reduced : List Nat) : Prop :=
  reduced.Pairwise (· < ·) ∧ reduced[0]? = some 0 ∧ reduced.getLast? = some (n - 1) ∧
    reduced.length + ((computeRemoved reduced).map (·.2)).sum = n

theorem wellFormed_of_inv {n : Nat} {s : RState} (hn : 2 ≤ n) (h : RInv n s) : WellFormed n s.reduced := by
  refine ⟨h.inc, h.first, h.last, ?_⟩
  have hne : s.reduced ≠ [] := by intro e; have := h.first; simp [e] at this
  have := computeRemoved_total s.reduced h.inc hne
  rw [this, h.first, h.last]
  simp; omega

/-- **C01, fixed-size RDP.** For every distance/ordering oracle and every `k` (including `k < 2` and
`k > n`), `rdp_fixed` returns a well-formed reduction; the loop runs at most `k - 2` times by
construction and at most `n - 2` productive refinements exist (`fixed_card` in C05). The removed
table is `compute_removed_points reduced` in the code itself, so retained + dropped = n. -/
theorem fixed_wf (dst : Nat → Nat → List Rat) (key : Nat → Nat → Nat → Rat × Rat) (n k : Nat)
    (hn : 2 ≤ n) (hd : ∀ l r, (dst l r).length = r - l) : WellFormed n (rdpFixed dst key n k) :=
  wellFormed_of_inv hn (fixedLoop_inv hd hn (rinit_inv n hn) _)

/-- **C01, global RDP.** Whatever the global-cost oracle answers, `grdp` stops because the cost is
accepted or nothing is left to refine — never because the fuel `n` ran out — after at most `n - 2`
refinements, with a well-formed reduction. -/
theorem grdp_total_wf (accept : List Nat → Bool) (dst : Nat → Nat → List Rat) (key : Nat → Nat → Nat → Rat × Rat)
    (n : Nat) (hn : 2 ≤ n) (hd : ∀ l r, (dst l r).length = r - l) :
    WellFormed n (grdp accept dst key n) ∧
    ∃ j, j + 2 ≤ n ∧ grdp accept dst key n = rdpFixed dst key n (j + 2) ∧
      (accept (grdp accept dst key n) = true ∨ (grdp accept dst key n).length = n) := by
  obtain ⟨j, hj, heq, hfin, hbefore⟩ := grdpLoop_eq_fixed accept dst key hd hn (rinit_inv n hn) n (by simp [rinit])
  have hinv := fixedLoop_inv (key := key) hd hn (rinit_inv n hn) j
  have hg : grdp accept dst key n = (fixedLoop dst key j (rinit n)).reduced := by simp [grdp, heq]
  refine ⟨by rw [hg]; exact wellFormed_of_inv hn hinv, ?_⟩
  -- the number of productive steps is < n - 1
  have hlen := fixedLoop_length (key := key) hd hn (rinit_inv n hn)
  have hj2 : j + 2 ≤ n := by
    cases j with
    | zero => omega
    | succ j' =>
      have hb := (hbefore j' (by omega)).2
      have hinv' := fixedLoop_inv (key := key) hd hn (rinit_inv n hn) j'
      have hne : (fixedLoop dst key j' (rinit n)).reduced.length ≠ n := fun e => hb ((hinv'.stack_nil_iff hn).mpr e)
      have hl : (fixedLoop dst key j' (rinit n)).reduced.length = min (2 + j') n := by
        simpa [rinit] using hlen j'
      have hle := hinv'.length_le hn
      rw [Nat.min_def] at hl
      split at hl <;> omega
  refine ⟨j, hj2, by simp [hg, rdpFixed], ?_⟩
  rw [hg]
  rcases hfin with h | h
  · exact Or.inl h
  · exact Or.inr ((hinv.stack_nil_iff hn).mp h)

/-- **C01, min-points variant.** -/
theorem mp_wf (accept : List Nat → Bool) (dst : Nat → Nat → List Rat) (key : Nat → Nat → Nat → Rat × Rat)
    (n m : Nat) (hn : 2 ≤ n) (hd : ∀ l r, (dst l r).length = r - l) : WellFormed n (mpGrdp accept dst key n m) := by
  obtain ⟨j, _, heq, _, _⟩ := grdpLoop_eq_fixed accept dst key hd hn (rinit_inv n hn) n (by simp [rinit])
  have hinv := fixedLoop_inv (key := key) hd hn (rinit_inv n hn) j
  unfold mpGrdp
  simp only [heq]
  split
  · exact wellFormed_of_inv hn hinv
  · exact wellFormed_of_inv hn (fixedLoop_inv hd hn hinv _)

/-- **C01, multi-threshold variant.** -/
theorem minpoint_wf (acceptAt : Rat → List Nat → Bool) (dst : Nat → Nat → List Rat) (key : Nat → Nat → Nat → Rat × Rat)
    (n m : Nat) (hn : 2 ≤ n) (hd : ∀ l r, (dst l r).length = r - l) (ts : List Rat) :
    WellFormed n (minPointRdp acceptAt dst key n m ts) := by
  induction ts with
  | nil => exact fixed_wf dst key n m hn hd
  | cons t ts ih =>
    simp only [minPointRdp]
    split
    · exact (grdp_total_wf (acceptAt t) dst key n hn hd).1
    · exact ih

/-! Non-vacuity: a concrete oracle family meeting `hd` on which the loop really splits. -/
example : rdp false (1/100) (fun l r => if r - l ≥ 3 then 1 else 0)
    (fun l r => (List.range (r - l)).map fun i => if i = 1 then 1 else 0) 4
    = some ([0, 1, 2, 3], [(0, 0), (1, 0), (2, 0)]) := by decide +kernel

example : rdpFixed (fun l r => (List.range (r - l)).map fun i => if i = 2 then 1 else 0)
    (fun l _ i => ((l : Rat), ((l + i : Nat) : Rat))) 6 4 = [0, 2, 4, 5] := by decide +kernel

end Knee

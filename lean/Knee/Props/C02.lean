import Knee.Lemmas.MultiKnee
/-!
# C02 — the multi-knee work-stack loop terminates, is sorted, in range and self-similar

Model: `Knee.multiKneeLoop` / `Knee.multiKnee` (multi_knee.multi_knee: explicit stack, right part
processed first, `knees.sort()` at the end) and `Knee.multiKneeRec` (the same computation as an
in-order recursion).  The detector and the curvature gate are oracle parameters; the only
assumption on the detector is `DetOK` (a returned relative knee index `k` satisfies
`k + 2 ≤ len`, so both children are non-empty and strictly shorter), resp. `DetInterior`
(additionally `1 ≤ k`).  Naturals only; no tolerance.
-/
namespace Knee

variable {det : Nat → Nat → Option Nat} {gate : Nat → Nat → Bool} {t2 n : Nat}

/-- **C02 (termination).** On a non-empty curve the fuel `2n + 1` of `multiKnee` is never
exhausted: a range of `m ≥ 1` points costs at most `2m - 1` iterations, plus one iteration to see
the empty stack. -/
theorem multiKnee_total (hc : DetOK det) (hn : 1 ≤ n) : ∃ ks, multiKnee det gate t2 n = some ks := by
  obtain ⟨res, h, _⟩ := multiKneeLoop_spec det gate t2 hc n (2 * n + 1) [(0, n)] []
    (by intro p hp; simp only [List.mem_singleton] at hp; subst hp; simp only; omega)
    (by simp only [mkPot]; omega)
  exact ⟨sortNats res, by simp [multiKnee, h]⟩

/-- **C02 (step count).** `2n` loop iterations always suffice (one less than the fuel provided),
and any larger fuel gives the very same unsorted result. -/
theorem multiKnee_steps (hc : DetOK det) (hn : 1 ≤ n) :
    ∃ res, ∀ f, 2 * n ≤ f → multiKneeLoop det gate t2 f [(0, n)] [] = some res := by
  obtain ⟨res, h, _⟩ := multiKneeLoop_spec det gate t2 hc n (2 * n) [(0, n)] []
    (by intro p hp; simp only [List.mem_singleton] at hp; subst hp; simp only; omega)
    (by simp only [mkPot]; omega)
  refine ⟨res, fun f hf => ?_⟩
  have := multiKneeLoop_mono det gate t2 (2 * n) _ _ _ h (f - 2 * n)
  rwa [show 2 * n + (f - 2 * n) = f by omega] at this

/-- **C02 (fuel independence of the recursion).** Any fuel at least the number of points of the
range gives the same list. -/
theorem multiKneeRec_fuel (hc : DetOK det) : ∀ f f' l r, r - l ≤ f → r - l ≤ f' →
    multiKneeRec det gate t2 f l r = multiKneeRec det gate t2 f' l r :=
  multiKneeRec_fuel_aux det gate t2 hc

/-- **C02 (unfolding).** With enough fuel the recursion satisfies its defining equation at the
*same* fuel: the result on `[l, r)` is the result on `[l, l+k]`, the knee `l + k`, and the result on
`[l+k+1, r)`, in this order. -/
theorem multiKneeRec_unfold (hc : DetOK det) (l r f : Nat) (hf : r - l ≤ f) :
    multiKneeRec det gate t2 f l r =
      if r - l > t2 ∧ gate l r = true then
        (match det l r with
          | some k => multiKneeRec det gate t2 f l (l + k + 1) ++ (l + k) :: multiKneeRec det gate t2 f (l + k + 1) r
          | none => [])
      else [] :=
  multiKneeRec_unfold_aux det gate t2 hc l r f hf

/-- **C02 (sorted, in range).** The in-order recursion returns a strictly increasing list of
absolute indices `x` with `l ≤ x` and `x + 2 ≤ r` (never the last point of the range). -/
theorem multiKneeRec_sorted_range (hc : DetOK det) (f l r : Nat) :
    (multiKneeRec det gate t2 f l r).Pairwise (· < ·) ∧
      ∀ x ∈ multiKneeRec det gate t2 f l r, l ≤ x ∧ x + 2 ≤ r :=
  multiKneeRec_sorted_range_aux det gate t2 hc f l r

/-- **C02 (interior).** With a strictly interior detector no knee is the first point of the range. -/
theorem multiKneeRec_interior (hc : DetInterior det) (f l r : Nat) :
    ∀ x ∈ multiKneeRec det gate t2 f l r, l + 1 ≤ x ∧ x + 2 ≤ r := fun x hx =>
  ⟨multiKneeRec_interior_aux det gate t2 hc f l r x hx,
    ((multiKneeRec_sorted_range hc.detOK f l r).2 x hx).2⟩

/-- **C02 (stack loop = recursion).** The sorted output of the work-stack loop is exactly the
in-order recursion on `[0, n)`. -/
theorem multiKnee_eq_rec (hc : DetOK det) (hn : 1 ≤ n) :
    multiKnee det gate t2 n = some (multiKneeRec det gate t2 n 0 n) := by
  obtain ⟨res, h, hperm⟩ := multiKneeLoop_spec det gate t2 hc n (2 * n + 1) [(0, n)] []
    (by intro p hp; simp only [List.mem_singleton] at hp; subst hp; simp only; omega)
    (by simp only [mkPot]; omega)
  have hperm' : res.Perm (multiKneeRec det gate t2 n 0 n) := by simpa [stackOut] using hperm
  simp only [multiKnee, h, Option.map_some]
  rw [sortNats_of_perm _ res (multiKneeRec_sorted_range hc n 0 n).1 hperm']

/-- **C02 (sorted, in range; top level).** `multi_knee` returns a strictly increasing list of
indices, none of which is the last point. -/
theorem multiKnee_sorted_range (hc : DetOK det) (hn : 1 ≤ n) :
    ∃ ks, multiKnee det gate t2 n = some ks ∧ ks.Pairwise (· < ·) ∧ ∀ x ∈ ks, x + 2 ≤ n :=
  ⟨_, multiKnee_eq_rec hc hn, (multiKneeRec_sorted_range hc n 0 n).1,
    fun x hx => ((multiKneeRec_sorted_range hc n 0 n).2 x hx).2⟩

/-- **C02 (interior; top level).** With a strictly interior detector the first point is never a
knee either. -/
theorem multiKnee_interior (hc : DetInterior det) (hn : 1 ≤ n) :
    ∃ ks, multiKnee det gate t2 n = some ks ∧ ks.Pairwise (· < ·) ∧ ∀ x ∈ ks, 1 ≤ x ∧ x + 2 ≤ n :=
  ⟨_, multiKnee_eq_rec hc.detOK hn, (multiKneeRec_sorted_range hc.detOK n 0 n).1,
    fun x hx => by simpa using multiKneeRec_interior hc n 0 n x hx⟩

/-- **C02 (base case).** A curve with at most `t2` points, or one whose end-point line is not on
the curved side of `t1`, has no knees.  No assumption on the detector (it is never called). -/
theorem multiKnee_empty (hn : 1 ≤ n) (h : n ≤ t2 ∨ gate 0 n = false) :
    multiKnee det gate t2 n = some [] := by
  have hg : ¬ (n - 0 > t2 ∧ gate 0 n = true) := by
    rcases h with h | h
    · omega
    · simp [h]
  obtain ⟨m, hm⟩ : ∃ m, 2 * n = m + 1 := ⟨2 * n - 1, by omega⟩
  simp only [multiKnee, multiKneeLoop, if_neg hg, hm]
  rfl

/-- **C02 (self-similarity).** If the top-level range passes the gate and the detector answers
`k`, the result is `k` together with the result on `points[0..k]` and the result on
`points[k+1..]` (both already in absolute indices). -/
theorem multiKnee_self_similar (hc : DetOK det) (hn : 1 ≤ n) (h1 : n > t2) (h2 : gate 0 n = true)
    (k : Nat) (hk : det 0 n = some k) :
    multiKnee det gate t2 n =
      some (multiKneeRec det gate t2 n 0 (k + 1) ++ k :: multiKneeRec det gate t2 n (k + 1) n) := by
  rw [multiKnee_eq_rec hc hn, multiKneeRec_unfold hc 0 n n (by omega),
    if_pos ⟨by omega, h2⟩, hk]
  simp

/-! Non-vacuity: a concrete detector satisfying the (strict) contract on which four knees are
found across three levels of recursion, and a gated variant. -/
example : DetInterior (fun l r => if r - l ≥ 3 then some ((r - l) / 2) else none) := by
  intro l r k h
  simp only at h
  split at h
  · simp only [Option.some.injEq] at h; omega
  · simp at h
example : multiKnee (fun l r => if r - l ≥ 3 then some ((r - l) / 2) else none) (fun _ _ => true) 2 7
    = some [1, 2, 3, 5] := by decide +kernel
example : multiKnee (fun l r => if r - l ≥ 3 then some ((r - l) / 2) else none)
    (fun l r => r - l != 4) 0 12 = some [3, 5, 6, 8, 9] := by decide +kernel

end Knee

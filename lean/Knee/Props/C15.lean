import Knee.Lemmas.GlobalCost
/-!
# C15 — global reconstruction cost, shared segment cache, global RMSE / MIP

Model: `Knee.gcostQ` (evaluation.compute_cost / compute_global_cost), the cache state machine
`Knee.lookupSeg` / `evalSegs` / `evalShared` / `runShared`, Layer-N `Knee.partialQ` / `segErrQ`,
and `Knee.grmseSq` / `deleteAt` / `medianQ` / `mipQ` (evaluation.compute_global_rmse / mip).
`segErr l r` is the per-segment partial-cost oracle; every theorem holds for every oracle.
-/
namespace Knee

/-! ## 1. Cache transparency -/

/-- the empty cache satisfies the invariant -/
theorem cacheOK_empty (segErr : Nat → Nat → Rat) : CacheOK segErr [] := cacheOK_nil segErr

/-- **C15 (one lookup).** Against a cache whose stored values are all fresh values, a lookup
returns the fresh value (hit or miss) and leaves a cache that still satisfies the invariant. -/
theorem lookupSeg_ok {segErr : Nat → Nat → Rat} {c : Cache} (h : CacheOK segErr c) (k : Nat × Nat) :
    (lookupSeg segErr c k).1 = segErrG segErr k.1 k.2 ∧ CacheOK segErr (lookupSeg segErr c k).2 :=
  lookupSeg_ok_aux h k

/-- **C15 (segment loop).** The loop over the segments of one breakpoint set returns exactly the
fresh segment errors, in order, and preserves the invariant. -/
theorem evalSegs_ok {segErr : Nat → Nat → Rat} {c : Cache} (h : CacheOK segErr c)
    (ks : List (Nat × Nat)) :
    (evalSegs segErr ks c).1 = ks.map (fun p => segErrG segErr p.1 p.2)
      ∧ CacheOK segErr (evalSegs segErr ks c).2 :=
  evalSegs_ok_aux ks h

/-- **C15 (one query).** `compute_global_cost` against any invariant-satisfying cache returns the
value computed with no cache at all, and preserves the invariant. -/
theorem evalShared_eq_fresh (kind : MKind) (n : Nat) (tss : Rat) {segErr : Nat → Nat → Rat}
    {c : Cache} (h : CacheOK segErr c) (red : List Nat) :
    (evalShared kind n tss segErr c red).1 = gcostQ kind n tss segErr red
      ∧ CacheOK segErr (evalShared kind n tss segErr c red).2 := by
  obtain ⟨h1, h2⟩ := evalSegs_ok h (pairsOf red)
  refine ⟨?_, h2⟩
  cases kind <;> simp only [evalShared, gcostQ, sumErr, h1] <;> rfl

/-- one query against the empty cache is the fresh value -/
theorem evalShared_fresh (kind : MKind) (n : Nat) (tss : Rat) (segErr : Nat → Nat → Rat)
    (red : List Nat) :
    (evalShared kind n tss segErr [] red).1 = gcostQ kind n tss segErr red :=
  (evalShared_eq_fresh kind n tss (cacheOK_empty segErr) red).1

/-- **C15 (cache transparency, main result).** Evaluating any sequence of breakpoint sets against
one shared cache (starting from any invariant-satisfying cache) returns exactly the values of
evaluating each with a fresh cache. -/
theorem runShared_eq_fresh (kind : MKind) (n : Nat) (tss : Rat) {segErr : Nat → Nat → Rat}
    {c : Cache} (h : CacheOK segErr c) (queries : List (List Nat)) :
    runShared kind n tss segErr c queries = queries.map (gcostQ kind n tss segErr) := by
  induction queries generalizing c with
  | nil => rfl
  | cons q qs ih =>
    obtain ⟨h1, h2⟩ := evalShared_eq_fresh kind n tss h q
    simp only [runShared, List.map_cons, h1, ih h2]

/-- **C15 (cache transparency from the empty cache).** -/
theorem runShared_empty_eq_fresh (kind : MKind) (n : Nat) (tss : Rat) (segErr : Nat → Nat → Rat)
    (queries : List (List Nat)) :
    runShared kind n tss segErr [] queries = queries.map (gcostQ kind n tss segErr) :=
  runShared_eq_fresh kind n tss (cacheOK_empty segErr) queries

/-! ## 2. Definition consequences -/

/-- the global cost is never negative (both branches clip at 0) -/
theorem gcost_nonneg (kind : MKind) (n : Nat) (tss : Rat) (segErr : Nat → Nat → Rat)
    (red : List Nat) : 0 ≤ gcostQ kind n tss segErr red := by
  unfold gcostQ
  cases kind <;> simp only <;> split_ifs <;> linarith

/-- segments of at most 2 points contribute 0 -/
theorem segments_le2_zero (segErr : Nat → Nat → Rat) (l r : Nat) (h : r - l + 1 ≤ 2) :
    segErrG segErr l r = 0 := by
  unfold segErrG; rw [if_pos h]

/-- the summed segment error of "every point is a breakpoint" is 0 -/
theorem sumErr_all_breakpoints (segErr : Nat → Nat → Rat) (n : Nat) :
    sumErr segErr (List.range n) = 0 := by
  unfold sumErr
  apply sum_map_eq_zero
  intro p hp
  rw [List.range_eq_range'] at hp
  have := pairsOf_range'_succ n 0 p hp
  exact segments_le2_zero segErr _ _ (by omega)

/-- when every point is a breakpoint the cost is 0, and 1 for R² (no hypothesis on `n` is needed) -/
theorem gcost_all_breakpoints (kind : MKind) (n : Nat) (tss : Rat) (segErr : Nat → Nat → Rat) :
    gcostQ kind n tss segErr (List.range n) = (if kind = .r2 then 1 else 0) := by
  unfold gcostQ
  rw [sumErr_all_breakpoints]
  cases kind <;> simp

/-- for the non-R² kinds and a non-negative error sum, the cost is the sum divided by
`n + #segments − 1` (every interior breakpoint is counted once per adjoining segment) -/
theorem gcost_divisor (kind : MKind) (n : Nat) (tss : Rat) (segErr : Nat → Nat → Rat)
    (red : List Nat) (hk : kind ≠ .r2) (hs : 0 ≤ sumErr segErr red) :
    gcostQ kind n tss segErr red
      = sumErr segErr red / ((n + (red.length - 1) - 1 : Nat) : Rat) := by
  have hq : ¬ sumErr segErr red / ((n + (red.length - 1) - 1 : Nat) : Rat) < 0 :=
    not_lt.2 (div_nonneg hs (Nat.cast_nonneg _))
  unfold gcostQ
  cases kind
  · exact absurd rfl hk
  all_goals simp only; rw [if_neg hq]

/-- the number of segments is `red.length - 1` -/
theorem gcost_segments (red : List Nat) : (pairsOf red).length = red.length - 1 :=
  pairsOf_length red

/-- R² with a non-zero total sum of squares: `max 0 (1 − Σ err / tss)` -/
theorem gcost_r2_clip (n : Nat) (tss : Rat) (segErr : Nat → Nat → Rat) (red : List Nat)
    (ht : tss ≠ 0) :
    gcostQ .r2 n tss segErr red
      = if 1 - sumErr segErr red / tss < 0 then 0 else 1 - sumErr segErr red / tss := by
  simp only [gcostQ, if_neg ht]

/-- a non-negative oracle gives a non-negative error sum -/
theorem sumErr_nonneg (segErr : Nat → Nat → Rat) (red : List Nat) (h : ∀ l r, 0 ≤ segErr l r) :
    0 ≤ sumErr segErr red := by
  unfold sumErr
  apply sum_map_nonneg
  intro p _
  unfold segErrG
  split
  · exact le_refl _
  · exact h _ _

/-! ## 3. Layer N: the exact partial costs are non-negative -/

/-- every partial cost (all five kinds) is non-negative: sums of squares, of absolute values, and
of ratios with non-negative numerator and positive denominator `… + epsM` -/
theorem partialQ_nonneg (kind : MKind) (y yh : List Rat) : 0 ≤ partialQ kind y yh := by
  cases kind <;> simp only [partialQ]
  · exact zipWith_sum_nonneg _ (fun _ _ => mul_self_nonneg _) y yh
  · exact zipWith_sum_nonneg _ (fun _ _ => mul_self_nonneg _) y yh
  · exact le_refl _
  · exact zipWith_sum_nonneg _ (fun _ _ => rabs_nonneg _) y yh
  · exact zipWith_sum_nonneg _ smape_term_nonneg y yh

/-- hence the exact segment-error oracle is non-negative -/
theorem segErrQ_nonneg (kind : MKind) (xs ys : List Rat) (l r : Nat) :
    0 ≤ segErrQ kind xs ys l r := by
  unfold segErrQ; exact partialQ_nonneg _ _ _

/-- with the exact oracle the global cost needs no clipping for the non-R² kinds -/
theorem gcost_exact_divisor (kind : MKind) (n : Nat) (tss : Rat) (xs ys : List Rat)
    (red : List Nat) (hk : kind ≠ .r2) :
    gcostQ kind n tss (segErrQ kind xs ys) red
      = sumErr (segErrQ kind xs ys) red / ((n + (red.length - 1) - 1 : Nat) : Rat) :=
  gcost_divisor kind n tss _ red hk (sumErr_nonneg _ red (segErrQ_nonneg kind xs ys))

/-! ## 4. Global RMSE and MIP -/

/-- RMSE² is non-negative for a non-negative RSS oracle -/
theorem grmseSq_nonneg (rss : Nat → Nat → Rat) (n : Nat) (red : List Nat)
    (h : ∀ l r, 0 ≤ rss l r) : 0 ≤ grmseSq rss n red := by
  unfold grmseSq
  exact div_nonneg (sum_map_nonneg _ _ (fun p _ => h p.1 p.2)) (Nat.cast_nonneg _)

/-- `np.delete` of a valid position shortens the list by one -/
theorem deleteAt_length (l : List Nat) (i : Nat) (h : i < l.length) :
    (deleteAt l i).length = l.length - 1 := by
  simp only [deleteAt, List.length_append, List.length_take, List.length_drop]
  omega

/-- the sort is a permutation of its input -/
theorem sortRat_perm (l : List Rat) : (sortRat l).Perm l := sortRat_perm_aux l

/-- the sort is ascending -/
theorem sortRat_sorted (l : List Rat) : (sortRat l).Pairwise (· ≤ ·) := sortRat_sorted_aux l

theorem sortRat_length (l : List Rat) : (sortRat l).length = l.length := sortRat_length_aux l

/-- the median of a non-empty list lies between two of its elements -/
theorem medianQ_mem_range (l : List Rat) (hne : l ≠ []) :
    ∃ a ∈ l, ∃ b ∈ l, a ≤ medianQ l ∧ medianQ l ≤ b := medianQ_mem_range_aux l hne

/-- the median of non-negative numbers is non-negative -/
theorem medianQ_nonneg (l : List Rat) (h : ∀ a ∈ l, 0 ≤ a) : 0 ≤ medianQ l :=
  medianQ_nonneg_of_forall l h

/-- the median absolute deviation returned by `mip` is non-negative, for every `sq` and oracle -/
theorem mipQ_mad_nonneg (sq : Rat → Rat) (rss : Nat → Nat → Rat) (n : Nat) (red : List Nat) :
    0 ≤ (mipQ sq rss n red).2 := by
  unfold mipQ
  apply medianQ_nonneg
  intro a ha
  obtain ⟨v, _, rfl⟩ := List.mem_map.1 ha
  exact rabs_nonneg _

/-! ## Non-vacuity -/

/-! Concrete oracles: `segErr l r = r - l` and a quadratic `rss l r = (r - l)²`. -/

/- a 3-query history: the shared-cache run equals the fresh values, and they are non-trivial -/
example :
    runShared .smape 7 0 (fun l r => ((r - l : Nat) : Rat)) [] [[0, 3, 6], [0, 3, 5, 6], [0, 2, 5, 6]]
      = [3 / 4, 5 / 9, 5 / 9]
    ∧ [[0, 3, 6], [0, 3, 5, 6], [0, 2, 5, 6]].map (gcostQ .smape 7 0 (fun l r => ((r - l : Nat) : Rat)))
      = [3 / 4, 5 / 9, 5 / 9] := by
  decide +kernel
/- the second query `[0,3,5,6]` hits the cache left by the first on segment `(0,3)` (and misses on
`(3,5)`), and the third hits `(5,6)` stored by the second -/
example :
    (evalShared .smape 7 0 (fun l r => ((r - l : Nat) : Rat)) [] [0, 3, 6]).2
      = [((3, 6), 3), ((0, 3), 3)]
    ∧ cacheGet (evalShared .smape 7 0 (fun l r => ((r - l : Nat) : Rat)) [] [0, 3, 6]).2 (0, 3)
      = some 3
    ∧ cacheGet (evalShared .smape 7 0 (fun l r => ((r - l : Nat) : Rat)) [] [0, 3, 6]).2 (3, 5)
      = none
    ∧ cacheGet (evalShared .smape 7 0 (fun l r => ((r - l : Nat) : Rat))
        (evalShared .smape 7 0 (fun l r => ((r - l : Nat) : Rat)) [] [0, 3, 6]).2
        [0, 3, 5, 6]).2 (5, 6) = some 0 := by
  decide +kernel
/- a poisoned cache (violating `CacheOK`) does change the answer: the hypothesis is not idle -/
example :
    (evalShared .smape 7 0 (fun l r => ((r - l : Nat) : Rat)) [((0, 3), 100)] [0, 3, 6]).1
      ≠ gcostQ .smape 7 0 (fun l r => ((r - l : Nat) : Rat)) [0, 3, 6] := by
  decide +kernel
example : gcostQ .smape 5 0 (fun l r => ((r - l : Nat) : Rat)) [0, 1, 2, 3, 4] = 0
    ∧ gcostQ .r2 5 3 (fun l r => ((r - l : Nat) : Rat)) [0, 1, 2, 3, 4] = 1 := by
  decide +kernel
/- R² clipping: active (`1 - 6/2 < 0`) and inactive (`1 - 6/12`) -/
example : gcostQ .r2 7 2 (fun l r => ((r - l : Nat) : Rat)) [0, 3, 6] = 0
    ∧ gcostQ .r2 7 12 (fun l r => ((r - l : Nat) : Rat)) [0, 3, 6] = 1 / 2 := by
  decide +kernel
example : segErrG (fun l r => ((r - l : Nat) : Rat)) 4 5 = 0
    ∧ segErrG (fun l r => ((r - l : Nat) : Rat)) 4 6 = 2
    ∧ sumErr (fun l r => ((r - l : Nat) : Rat)) [0, 3, 6] = 6 := by
  decide +kernel
example : segErrQ .r2 [0, 1, 2, 3] [0, 2, 1, 3] 0 3 = 2
    ∧ segErrQ .smape [0, 1, 2, 3] [1, 2, 1, 3] 0 2 = 20000000000000000 / 30000000000000001 := by
  decide +kernel
example : medianQ [3, 1, 2] = 2 ∧ medianQ [4, 1, 3, 2] = 5 / 2
    ∧ sortRat [4, 1, 3, 2] = [1, 2, 3, 4] := by
  decide +kernel
example : deleteAt [0, 2, 3, 6] 1 = [0, 3, 6]
    ∧ grmseSq (fun l r => (((r - l) * (r - l) : Nat) : Rat)) 7 [0, 2, 3, 6] = 2
    ∧ mipQ (fun x => x) (fun l r => (((r - l) * (r - l) : Nat) : Rat)) 7 [0, 2, 3, 6]
      = (5 / 7, 1 / 7) := by
  decide +kernel

end Knee

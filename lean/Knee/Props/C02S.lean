import Knee.Props.C02D
/-!
# C02S — self-similarity of `multi_knee` stated on SLICES (the shift lemma)

The C02 property reads: the result of `multi_knee(points)` "equals `{k}` united with the result on
`points[0..k]` and `(k+1) +` the result on `points[k+1..]`".  `Props/C02.lean` states it with the
in-order recursion `multiKneeRec` on *absolute* sub-ranges of the one curve.  Here it is stated as
the Python reader sees it: with `multiKnee` itself run on the two slices as curves of their own.

How the oracles of a slice are obtained.  In `multiKneeLoop` the detector's answer `det l r = some k`
is interpreted RELATIVE to `l` (the knee pushed is `l + k`, the children are `[l, l+k+1)` and
`[l+k+1, r)`), exactly as the Python detector returns an index into `pt = points[l:r]`.  Hence the
detector of the slice `points[off:]`, asked about its sub-range `[l, r)`, is the detector of the
whole curve asked about `[l+off, r+off)` *with the same returned value* (no re-basing of the
answer): `shiftDet off det l r = det (l+off) (r+off)`.  The gate is a Boolean, so likewise
`shiftGate off gate l r = gate (l+off) (r+off)`.  What has to be re-based is the OUTPUT of
`multiKnee` on the slice, which is relative to the slice: `(· + off)`.

Oracles: detector and gate.  Naturals only; no tolerance.
-/
namespace Knee

/-- The detector oracle of the slice `points[off:]`: its answer on the sub-range `[l, r)` of the
slice is the whole-curve detector's answer on `[l+off, r+off)`.  The answer is an index relative to
the start of the range it was asked about, so it is returned unchanged. -/
def shiftDet (off : Nat) (det : Nat → Nat → Option Nat) : Nat → Nat → Option Nat :=
  fun l r => det (l + off) (r + off)

/-- The straightness-gate oracle of the slice `points[off:]`. -/
def shiftGate (off : Nat) (gate : Nat → Nat → Bool) : Nat → Nat → Bool :=
  fun l r => gate (l + off) (r + off)

variable {det : Nat → Nat → Option Nat} {gate : Nat → Nat → Bool} {t2 n : Nat}

/-! ## 1. The slice oracles -/

/-- **C02S.** The slice starting at `0` has the oracles of the whole curve (`points[0:]`). -/
@[simp] theorem shiftDet_zero (det : Nat → Nat → Option Nat) : shiftDet 0 det = det := rfl

/-- **C02S.** The slice starting at `0` has the gate of the whole curve. -/
@[simp] theorem shiftGate_zero (gate : Nat → Nat → Bool) : shiftGate 0 gate = gate := rfl

/-- **C02S.** A slice of a slice is a slice: `points[a:][b:] = points[a+b:]`. -/
theorem shiftDet_shiftDet (a b : Nat) (det : Nat → Nat → Option Nat) :
    shiftDet b (shiftDet a det) = shiftDet (b + a) det := by
  funext l r
  simp only [shiftDet, Nat.add_assoc]

/-- **C02S.** A slice of a slice is a slice (gate). -/
theorem shiftGate_shiftGate (a b : Nat) (gate : Nat → Nat → Bool) :
    shiftGate b (shiftGate a gate) = shiftGate (b + a) gate := by
  funext l r
  simp only [shiftGate, Nat.add_assoc]

/-- **C02S (contract is slice-invariant).** If every detector answer on the whole curve leaves both
children non-empty, so does every answer on a slice. -/
theorem detOK_shift (off : Nat) (h : DetOK det) : DetOK (shiftDet off det) := by
  intro l r k hk
  have := h (l + off) (r + off) k hk
  omega

/-- **C02S (strict contract is slice-invariant).** -/
theorem detInterior_shift (off : Nat) (h : DetInterior det) : DetInterior (shiftDet off det) := by
  intro l r k hk
  have := h (l + off) (r + off) k hk
  omega

/-- **C02S (contract on large ranges is slice-invariant).** -/
theorem detOKLarge_shift (off : Nat) (h : DetOKLarge t2 det) :
    DetOKLarge t2 (shiftDet off det) := by
  intro l r k hl hk
  have := h (l + off) (r + off) k (by omega) hk
  omega

/-- **C02S (strict contract on large ranges is slice-invariant).** -/
theorem detInteriorLarge_shift (off : Nat) (h : DetInteriorLarge t2 det) :
    DetInteriorLarge t2 (shiftDet off det) := by
  intro l r k hl hk
  have := h (l + off) (r + off) k (by omega) hk
  omega

/-- **C02S (the straightness gate of a slice).** The gate `smape(points[l:r]) >= t1` (default `1.0`
for at most two points) of the slice `points[off:]` is the same gate built from the slice's own
cost oracle. -/
theorem shiftGate_gateOf (off : Nat) (t1 : Rat) (sm : Nat → Nat → Rat) :
    shiftGate off (gateOf t1 sm) = gateOf t1 (fun l r => sm (l + off) (r + off)) := by
  funext l r
  simp only [shiftGate, gateOf, Nat.add_sub_add_right]

/-- **C02S (curvature on a slice).** The curvature detector of the slice `points[off:]` is the
curvature detector fed with the slice's criterion arrays. -/
theorem shiftDet_detCurv (off : Nat) (crit : Nat → Nat → List Rat) :
    shiftDet off (detCurv crit) = detCurv (fun l r => crit (l + off) (r + off)) := rfl

/-- **C02S (Menger on a slice).** -/
theorem shiftDet_detMenger (off : Nat) (mc : Nat → Nat → List Rat) :
    shiftDet off (detMenger mc) = detMenger (fun l r => mc (l + off) (r + off)) := rfl

/-- **C02S (DFDT on a slice).** -/
theorem shiftDet_detDfdt (off : Nat) (diffs : Nat → Nat → Nat → List Rat) :
    shiftDet off (detDfdt diffs) = detDfdt (fun l r => diffs (l + off) (r + off)) := by
  funext l r
  simp only [shiftDet, detDfdt, Nat.add_sub_add_right]

/-- **C02S (L-method on a slice).** -/
theorem shiftDet_detLmethod (off : Nat) (errs : Nat → Nat → Nat → List Rat) (mode : Refinement)
    (limit : Nat) :
    shiftDet off (detLmethod errs mode limit) =
      detLmethod (fun l r => errs (l + off) (r + off)) mode limit := by
  funext l r
  simp only [shiftDet, detLmethod, Nat.add_sub_add_right]

/-- **C02S (Kneedle on a slice).** -/
theorem shiftDet_detKneedle (off : Nat) (dd : Nat → Nat → List Rat) :
    shiftDet off (detKneedle dd) = detKneedle (fun l r => dd (l + off) (r + off)) := rfl

/-! ## 2. The shift lemma for the in-order recursion -/

/-- **C02S (shift lemma).** Running the recursion on the slice `points[off:]` and adding `off` to
every knee gives the recursion of the whole curve on the shifted range — for every fuel, every
range, and with no assumption on the detector. -/
theorem multiKneeRec_shift (off : Nat) (det : Nat → Nat → Option Nat) (gate : Nat → Nat → Bool)
    (t2 : Nat) : ∀ f l r,
    (multiKneeRec (shiftDet off det) (shiftGate off gate) t2 f l r).map (· + off) =
      multiKneeRec det gate t2 f (l + off) (r + off) := by
  intro f
  induction f with
  | zero => intro l r; rfl
  | succ f ih =>
    intro l r
    rw [multiKneeRec_succ, multiKneeRec_succ]
    have hlen : r + off - (l + off) = r - l := Nat.add_sub_add_right r off l
    have hdet : shiftDet off det l r = det (l + off) (r + off) := rfl
    by_cases hg : r - l > t2 ∧ shiftGate off gate l r = true
    · have hg' : r + off - (l + off) > t2 ∧ gate (l + off) (r + off) = true := by
        rw [hlen]; exact hg
      rw [if_pos hg, if_pos hg', hdet]
      cases hd : det (l + off) (r + off) with
      | none => rfl
      | some k =>
        have e1 : l + k + 1 + off = l + off + k + 1 := by omega
        have e2 : l + k + off = l + off + k := by omega
        simp only [List.map_append, List.map_cons, ih, e1, e2]
    · have hg' : ¬ (r + off - (l + off) > t2 ∧ gate (l + off) (r + off) = true) := by
        rw [hlen]; exact hg
      rw [if_neg hg, if_neg hg']
      rfl

/-- **C02S (a sub-range is a curve of its own).** With the contract on large ranges, the part of
the in-order recursion that handles the sub-range `[l, r)` (any sufficient fuel) is `multi_knee`
called on the slice `points[l:r]`, re-based by `l`. -/
theorem multiKneeRec_eq_slice (hc : DetOKLarge t2 det) (l r f : Nat) (hlr : l < r)
    (hf : r - l ≤ f) :
    (multiKnee (shiftDet l det) (shiftGate l gate) t2 (r - l)).map (fun ks => ks.map (· + l)) =
      some (multiKneeRec det gate t2 f l r) := by
  rw [multiKnee_eq_rec_large' (detOKLarge_shift l hc) (by omega), Option.map_some,
    multiKneeRec_shift, Nat.zero_add, Nat.sub_add_cancel (Nat.le_of_lt hlr),
    multiKneeRec_fuel_large hc (r - l) f l r (Nat.le_refl _) hf]

/-! ## 3. Self-similarity on slices -/

/-- **C02S (self-similarity on slices, contract on large ranges).** If the whole curve has more
than `t2` points, passes the straightness gate, and the detector answers `k`, then
`multi_knee(points)` is: `multi_knee(points[0:k+1])`, then `k`, then `multi_knee(points[k+1:])`
with `k + 1` added to every index — where the two inner calls are complete runs of the work-stack
loop on the slices (with the slices' own oracles), both of which terminate. -/
theorem multiKnee_slice_large (hc : DetOKLarge t2 det) (hn : 1 ≤ n) (h1 : n > t2)
    (h2 : gate 0 n = true) (k : Nat) (hk : det 0 n = some k) :
    ∃ L R, multiKnee det gate t2 (k + 1) = some L ∧
      multiKnee (shiftDet (k + 1) det) (shiftGate (k + 1) gate) t2 (n - (k + 1)) = some R ∧
      multiKnee det gate t2 n = some (L ++ [k] ++ R.map (· + (k + 1))) := by
  have hkn : k + 2 ≤ n := by have := hc 0 n k (by omega) hk; omega
  refine ⟨multiKneeRec det gate t2 (k + 1) 0 (k + 1),
    multiKneeRec (shiftDet (k + 1) det) (shiftGate (k + 1) gate) t2 (n - (k + 1)) 0 (n - (k + 1)),
    multiKnee_eq_rec_large' hc (by omega),
    multiKnee_eq_rec_large' (detOKLarge_shift (k + 1) hc) (by omega), ?_⟩
  rw [multiKnee_self_similar_large hc hn h1 h2 k hk, multiKneeRec_shift, Nat.zero_add,
    Nat.sub_add_cancel (by omega),
    multiKneeRec_fuel_large hc n (k + 1) 0 (k + 1) (by omega) (by omega),
    multiKneeRec_fuel_large hc n (n - (k + 1)) (k + 1) n (by omega) (by omega)]
  simp

/-- **C02S (self-similarity on slices).** `multiKnee_self_similar` restated with `multi_knee` on
the slices: under the hypotheses of `multiKnee_self_similar`,
`multi_knee(points) = multi_knee(points[:k+1]) ++ [k] ++ [k+1+x for x in multi_knee(points[k+1:])]`. -/
theorem multiKnee_slice (hc : DetOK det) (hn : 1 ≤ n) (h1 : n > t2) (h2 : gate 0 n = true)
    (k : Nat) (hk : det 0 n = some k) :
    ∃ L R, multiKnee det gate t2 (k + 1) = some L ∧
      multiKnee (shiftDet (k + 1) det) (shiftGate (k + 1) gate) t2 (n - (k + 1)) = some R ∧
      multiKnee det gate t2 n = some (L ++ [k] ++ R.map (· + (k + 1))) :=
  multiKnee_slice_large (hc.detOKLarge t2) hn h1 h2 k hk

/-- **C02S (self-similarity on slices, as one equation).** The same statement without
existentials: the result on the whole curve is computed from the two slice results in the `Option`
monad (all three runs terminate, so nothing is lost). -/
theorem multiKnee_slice_eq (hc : DetOKLarge t2 det) (hn : 1 ≤ n) (h1 : n > t2)
    (h2 : gate 0 n = true) (k : Nat) (hk : det 0 n = some k) :
    multiKnee det gate t2 n =
      (multiKnee det gate t2 (k + 1)).bind fun L =>
        (multiKnee (shiftDet (k + 1) det) (shiftGate (k + 1) gate) t2 (n - (k + 1))).map fun R =>
          L ++ [k] ++ R.map (· + (k + 1)) := by
  obtain ⟨L, R, hL, hR, h⟩ := multiKnee_slice_large hc hn h1 h2 k hk
  rw [h, hL, hR]
  rfl

/-- **C02S (empty cases).** A curve — or a slice `points[off:off+m]` seen as a curve of `m ≥ 1`
points with its shifted oracles — that has at most `t2` points or fails the straightness gate has
no knees; the detector is never called (no assumption on it). -/
theorem multiKnee_slice_empty (off m : Nat) (hm : 1 ≤ m)
    (h : m ≤ t2 ∨ gate off (off + m) = false) :
    multiKnee (shiftDet off det) (shiftGate off gate) t2 m = some [] := by
  apply multiKnee_empty hm
  rcases h with h | h
  · exact Or.inl h
  · refine Or.inr ?_
    simp only [shiftGate, Nat.zero_add]
    rw [Nat.add_comm m off]
    exact h

/-- **C02S (detector finds nothing).** If the whole curve passes both gates but the detector
returns no knee, the result is empty (`multi_knee` does not look into the halves). -/
theorem multiKnee_slice_none (hn : 1 ≤ n) (hk : det 0 n = none) :
    multiKnee det gate t2 n = some [] := by
  obtain ⟨m, hm⟩ : ∃ m, 2 * n = m + 1 := ⟨2 * n - 1, by omega⟩
  simp only [multiKnee, multiKneeLoop, hm, hk]
  split <;> rfl

/-- **C02S (the complete case analysis).** On a non-empty curve, with the contract on large
ranges, `multi_knee` is characterised by one recursive equation on slices: nothing if the curve is
short or straight or the detector finds nothing; otherwise left slice, knee, re-based right slice. -/
theorem multiKnee_slice_cases (hc : DetOKLarge t2 det) (hn : 1 ≤ n) :
    multiKnee det gate t2 n =
      if n > t2 ∧ gate 0 n = true then
        match det 0 n with
        | some k =>
          (multiKnee det gate t2 (k + 1)).bind fun L =>
            (multiKnee (shiftDet (k + 1) det) (shiftGate (k + 1) gate) t2 (n - (k + 1))).map
              fun R => L ++ [k] ++ R.map (· + (k + 1))
        | none => some []
      else some [] := by
  split
  next h =>
    cases hd : det 0 n with
    | none => exact multiKnee_slice_none hn hd
    | some k => exact multiKnee_slice_eq hc hn h.1 h.2 k hd
  next h =>
    apply multiKnee_empty hn
    by_cases hg : gate 0 n = true
    · exact Or.inl (by have : ¬ n > t2 := fun h' => h ⟨h', hg⟩; omega)
    · exact Or.inr (by simpa using hg)

/-! ## Non-vacuity

A concrete detector satisfying the strict contract and a non-trivial gate; the hypotheses of
`multiKnee_slice` hold on it (`n = 12 > t2 = 0`, gate passes, `det 0 12 = some 6`), both slices have
knees of their own, and the three runs fit together as stated.  The right slice's gate differs from
the whole curve's gate at the same coordinates (so un-shifted oracles would give a wrong answer). -/

private def detEx : Nat → Nat → Option Nat := fun l r =>
  if r - l ≥ 3 then some ((r - l) / 2) else none
private def gateEx : Nat → Nat → Bool := fun l r => !(l == 7 && r == 10)

example : DetInterior detEx := by
  intro l r k h
  simp only [detEx] at h
  split at h
  · simp only [Option.some.injEq] at h; omega
  · simp at h
example : (12 : Nat) > 0 ∧ gateEx 0 12 = true ∧ detEx 0 12 = some 6 := by decide +kernel
example : multiKnee detEx gateEx 0 12 = some [1, 2, 3, 5, 6, 9] := by decide +kernel
example : multiKnee detEx gateEx 0 7 = some [1, 2, 3, 5] := by decide +kernel
example : multiKnee (shiftDet 7 detEx) (shiftGate 7 gateEx) 0 (12 - 7) = some [2] := by
  decide +kernel
example : [1, 2, 3, 5] ++ [6] ++ [2].map (· + 7) = [1, 2, 3, 5, 6, 9] := by decide +kernel
/-- without the shift the right slice would be computed wrongly: the un-shifted oracles on a
5-point curve give `[1, 2]`, the slice `points[7:12]` has the single knee `2` -/
example : multiKnee detEx gateEx 0 5 = some [1, 2] := by decide +kernel
/-- an empty case on a slice: `points[7:10]` fails the straightness gate -/
example : gateEx 7 (7 + 3) = false ∧
    multiKnee (shiftDet 7 detEx) (shiftGate 7 gateEx) 0 3 = some [] := by decide +kernel

end Knee
